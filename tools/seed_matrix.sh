#!/bin/bash
VROOT="$(cd "$(dirname "${BASH_SOURCE[0]}")/.." && pwd)"
# runs every seeded change against the check of its property (and extra checks given in seeded/<id>/also.txt),
# in a scratch worktree of /repo (removed afterwards); /repo itself is not touched
cd "$VROOT"
wt=$(mktemp -d /tmp/matrix-XXXXXX); rmdir $wt
git -C /repo worktree add -q --detach $wt HEAD || exit 2
trap 'git -C /repo worktree remove --force $wt 2>/dev/null; rm -rf $wt' EXIT
for d in seeded/${1:-}*/; do
  id=$(basename $d); pid=${id%%-*}
  for p in $pid $(cat $d/also.txt 2>/dev/null); do
    SEED_REPO=$wt tools/try_seed.sh $id $p quick
  done
done
