#!/bin/bash
# runs every seeded change against the check of its property (and extra checks given in seeded/<id>/also.txt)
cd /verif
for d in seeded/*/; do
  id=$(basename $d); pid=${id%%-*}
  for p in $pid $(cat $d/also.txt 2>/dev/null); do
    tools/try_seed.sh $id $p quick
  done
done
