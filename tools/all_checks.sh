#!/bin/bash
VROOT="$(cd "$(dirname "${BASH_SOURCE[0]}")/.." && pwd)"
# all_checks.sh <tier> <seed...> : runs every check, prints one line each (for development)
cd "$VROOT"
tier="$1"; shift
for seed in "$@"; do
  for i in $(seq -w 1 20); do
    out=$(VERIF_SEED=$seed timeout 3000 ./check C$i --tier $tier 2>&1); rc=$?
    echo "seed=$seed C$i rc=$rc $(echo "$out" | grep -c '^VIOLATION') viol; $(echo "$out" | tail -1 | cut -c1-150)"
  done
done
