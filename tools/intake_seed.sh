#!/bin/bash
# intake_seed.sh <Cxx> [round]: takes a sub-agent's deliverables from /tmp/so<round>-<Cxx>, confirms them in a fresh scratch
# worktree (tools/confirm_seed.sh), removes the agent's worktree, and runs the property's quick check against the change
p="$1"; r="${2:-4}"
out=/tmp/so$r-$p; wt=/tmp/sw$r-$p
slug=$(cat $out/slug.txt 2>/dev/null | tr -d ' \n'); [ -z "$slug" ] && slug="$p-r$r"
case "$slug" in $p-*) ;; *) slug="$p-$slug";; esac
mkdir -p /tmp/seedin; rm -rf /tmp/seedin/$slug; cp -r $out /tmp/seedin/$slug
git -C /repo worktree remove --force $wt 2>/dev/null; rm -rf $wt
tools/confirm_seed.sh /tmp/seedin/$slug || exit 1
tools/try_seed.sh $slug $p quick
