#!/bin/bash
# confirm_seed.sh <seed-dir>   : confirms a seeded change in a fresh scratch worktree of /repo and copies it to /verif/seeded
# (patch applies; the existing suite still passes; demo fails with the patch and passes without it)
set -u
src="$1"; id="$(basename "$src")"
wt="$(mktemp -d /tmp/confirm-XXXXXX)"; rmdir "$wt"
git -C /repo worktree add -q --detach "$wt" HEAD || exit 2
cleanup() { git -C /repo worktree remove --force "$wt" 2>/dev/null; rm -rf "$wt"; }
trap cleanup EXIT
cd "$wt"
/venv/bin/python "$src/demo.py" >/tmp/confirm-clean.out 2>&1; clean=$?
git apply "$src/patch.diff" || { echo "$id: patch does not apply"; exit 1; }
files=$(git diff --name-only | tr '\n' ' ')
/venv/bin/python "$src/demo.py" >/tmp/confirm-patched.out 2>&1; patched=$?
summary=$(/venv/bin/python -m pytest -q -p no:cacheprovider --timeout=900 2>&1 | tail -1)
echo "$id: demo clean=$clean patched=$patched; suite: $summary; files: $files"
passed=$(echo "$summary" | grep -o '[0-9]* passed' | grep -o '[0-9]*')
if [ "$clean" = 0 ] && [ "$patched" != 0 ] && [ "${passed:-0}" -ge 112 ]; then
  mkdir -p /verif/seeded/$id
  cp "$src/patch.diff" "$src/demo.py" "$src/meta.json" /verif/seeded/$id/
  python3 - "$id" "$clean" "$patched" "$summary" "$files" <<'PY'
import json, sys
id_, clean, patched, summary, files = sys.argv[1:6]
p = f'/verif/seeded/{id_}/meta.json'
m = json.load(open(p))
m['confirmed'] = {'demo_exit_clean_tree': int(clean), 'demo_exit_with_patch': int(patched), 'suite_with_patch': summary,
                  'files_touched': files.split(), 'how': 'tools/confirm_seed.sh in a fresh scratch worktree of /repo HEAD'}
json.dump(m, open(p, 'w'), indent=1)
PY
  echo "$id: CONFIRMED"
else
  echo "$id: REJECTED"
fi
