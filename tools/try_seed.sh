#!/bin/bash
VROOT="$(cd "$(dirname "${BASH_SOURCE[0]}")/.." && pwd)"
# try_seed.sh <seed-id> <property> [tier]: apply a seeded change in a scratch worktree of /repo (SEED_REPO, or a fresh one that is
# removed afterwards), point the check at it with CV_REPO, run the check, undo the change.  /repo itself is never touched.
id="$1"; pid="$2"; tier="${3:-quick}"
own=""
if [ -z "${SEED_REPO:-}" ]; then
  SEED_REPO=$(mktemp -d /tmp/tryseed-XXXXXX); rmdir "$SEED_REPO"
  git -C /repo worktree add -q --detach "$SEED_REPO" HEAD || exit 2
  own=1
fi
repo="$SEED_REPO"
git -C "$repo" apply $VROOT/seeded/$id/patch.diff || { [ -n "$own" ] && git -C /repo worktree remove --force "$repo"; exit 2; }
cd "$VROOT" && CV_REPO="$repo" timeout 3000 ./check $pid --tier $tier > /tmp/try-$id-$pid.out 2>&1; rc=$?
git -C "$repo" checkout -- .
echo "$id on $pid: exit=$rc; $(grep -c '^VIOLATION' /tmp/try-$id-$pid.out) violation lines; $(grep '^VIOLATION' /tmp/try-$id-$pid.out | head -1)"
[ -n "$(git -C "$repo" status --short)" ] && echo "WARNING: $repo not clean"
[ -n "$own" ] && { git -C /repo worktree remove --force "$repo" 2>/dev/null; rm -rf "$repo"; }
true
