#!/bin/bash
# try_seed.sh <seed-id> <property> [tier]: apply a seeded change to /repo, run the check, undo it
id="$1"; pid="$2"; tier="${3:-quick}"
git -C /repo apply /verif/seeded/$id/patch.diff || exit 2
cd /verif && timeout 3000 ./check $pid --tier $tier > /tmp/try-$id-$pid.out 2>&1; rc=$?
git -C /repo checkout -- .
echo "$id on $pid: exit=$rc; $(grep -c '^VIOLATION' /tmp/try-$id-$pid.out) violation lines; $(grep '^VIOLATION' /tmp/try-$id-$pid.out | head -1)"
[ -n "$(git -C /repo status --short)" ] && echo "WARNING: /repo not clean"
