#!/bin/bash
# try_seed.sh <seed-id> <property> [tier]: apply a seeded change, run the check, undo it.
# By default the change is applied to /repo itself; with SEED_REPO=<scratch worktree of /repo> it is applied there and the
# check is pointed at that tree (CV_REPO), so that /repo stays untouched while a long matrix runs.
id="$1"; pid="$2"; tier="${3:-quick}"
repo="${SEED_REPO:-/repo}"
git -C "$repo" apply /verif/seeded/$id/patch.diff || exit 2
cd /verif && CV_REPO="$repo" timeout 3000 ./check $pid --tier $tier > /tmp/try-$id-$pid.out 2>&1; rc=$?
git -C "$repo" checkout -- .
echo "$id on $pid: exit=$rc; $(grep -c '^VIOLATION' /tmp/try-$id-$pid.out) violation lines; $(grep '^VIOLATION' /tmp/try-$id-$pid.out | head -1)"
[ -n "$(git -C "$repo" status --short)" ] && echo "WARNING: $repo not clean"
