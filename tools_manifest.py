#!/usr/bin/env python3
"""Regenerate MANIFEST.json from the table below (kept in one place so it stays valid)."""
import json, os
HERE = os.path.dirname(os.path.abspath(__file__))
props = [json.loads(l) for l in open(os.path.join(HERE, 'properties.jsonl'))]
ids = [p['id'] for p in props]

CLAIMED = json.load(open(os.path.join(HERE, 'claims.json')))

checks, na = [], []
for pid in ids:
    c = CLAIMED.get(pid)
    if not c or c.get('not_applicable'):
        na.append({'property_id': pid, 'reason': (c or {}).get('reason', 'check not built yet (work in progress); see DESIGN.md section 5')})
        continue
    checks.append({
        'property_id': pid,
        'quick_cmd': f'./check {pid} --tier quick',
        'thorough_cmd': f'./check {pid} --tier thorough',
        'evidence_file': f'evidence/{pid}.json',
        'replay_cmd_template': f'./check {pid} --replay {{path}}',
        'engine': 'lean4-model+correspondence',
        'level_claimed': {'category': 'proof', 'text': c['text'], 'design_ref': c.get('design_ref', f'DESIGN.md section 5, {pid}')},
        'level_note': c['note'],
        'technique': c['technique'],
    })

manifest = {
    'version': 1,
    'setup_cmd': 'cd lean && lake build',
    'hooks': {
        'guard': 'CONNECTOME_VERIF',
        'enable': 'no source hooks are needed: all instrumentation is applied from the harness to objects it constructs',
        'baseline_off_cmd': 'cd /repo && /venv/bin/python -m pytest -ra -q -p no:cacheprovider --timeout=900 --continue-on-collection-errors',
        'source_commits': [],
        'add_only': True,
    },
    'engines': [
        {'name': 'lean4-model+correspondence', 'path': 'lean/', 'serves_properties': [c['property_id'] for c in checks],
         'kind_free_text': 'hand-written executable Lean 4 model with machine-checked theorems (lean/CM/Props), tied to /repo by '
                           'differential execution of the compiled model driver against the real code (harness/cv) and by direct oracles'},
    ],
    'checks': checks,
    'not_applicable': na,
    'notes': 'Exit codes: 0 held, 1 violation, 2 machinery failure (never a violation). See DESIGN.md.',
}
json.dump(manifest, open(os.path.join(HERE, 'MANIFEST.json'), 'w'), indent=1)
print(len(checks), 'claimed;', len(na), 'not claimed')
