/-
  CM.Proofs.BagField — what a connected pipeline exposes, field by field.
-/
import CM.Proofs.BagGlue
import CM.Proofs.NameSetLaws
namespace CM
section
variable {l r : Bag}

/-- the field `x` of a bag computes `t` -/
def Bag.Field (b : Bag) (x : String) (t : BTerm) : Prop := ∃ o ∈ b.outputs, o.name = x ∧ BDen b o t

/-- does the connection pass the left field `x` on?  (`right.virtual | (left.persistent - right outputs)`) -/
def passes (l r : Bag) (x : String) : Bool :=
  r.virt.mem x || (l.persistent.contains x && !(names r.outputs).contains x)

theorem mem_rvNodes {n : BNode} : n ∈ rvNodes l r ↔ n ∈ l.outputs ∧ passes l r n.name = true := by
  simp [rvNodes, passes]

theorem contains_names {ns : List BNode} {x : String} : (names ns).contains x = true ↔ x ∈ names ns := by
  simp

/-- with the invariants of well-formed bags rule 3 of `normalize_bag` adds nothing when two bags are connected -/
theorem rule3_nil (h : Sep l r) : (connectRaw l r).rule3 = [] := by
  simp only [RawBag.rule3, List.filter_eq_nil_iff]
  intro i hi
  simp only [connectRaw, List.mem_append] at hi
  simp only [connectRaw, NameSet.mem_inter, Bool.and_eq_true, Bool.or_eq_true, Bool.not_eq_true', not_and,
    Bool.not_eq_false, contains_names]
  intro hvp
  have key : ∀ x, x ∈ NameSet.lunion l.persistent r.persistent → x ∈ names (r.outputs ++ (rvPart l r).1) := by
    intro x hx
    rcases (NameSet.mem_lunion _ _ _).1 hx with hx | hx
    · by_cases hro : x ∈ names r.outputs
      · simp only [names, List.map_append, List.mem_append]; exact Or.inl hro
      · obtain ⟨o, ho, hon⟩ := of_name_mem_names (h.wl.persOut x hx)
        have hrv : o ∈ rvNodes l r := mem_rvNodes.2 ⟨ho, by
          simp only [passes, hon, Bool.or_eq_true, Bool.and_eq_true, Bool.not_eq_true']
          exact Or.inr ⟨by simpa using hx, by simpa using hro⟩⟩
        obtain ⟨c, hc, hcn, _⟩ := (cloneEdges_spec false (rvNodes l r) (lvPart l r).2.2).2.2.2.2.2 o hrv
        simp only [names, List.map_append, List.mem_append, List.mem_map]
        exact Or.inr ⟨c, hc, hcn.trans hon⟩
    · simp only [names, List.map_append, List.mem_append]; exact Or.inl (h.wr.persOut x hx)
  rcases hvp with ⟨hlv, hrv⟩ | hp
  · rcases hi with hi | hi
    · rw [h.wl.virtIn i hi] at hlv; exact absurd hlv (by simp)
    · obtain ⟨n, hn, hcn, _⟩ := cloneEdges_clone true (lvNodes l r) r.next i hi
      rw [hcn, h.wr.virtIn n (mem_lvNodes.1 hn).1] at hrv; exact absurd hrv (by simp)
  · exact key _ (by simpa using hp)

theorem r3_nil (h : Sep l r) : (r3Part l r).1 = [] ∧ (r3Part l r).2.1 = [] := by
  simp [r3Part, rule3_nil h, cloneEdges]

theorem connected_outputs' (h : Sep l r) : (connected l r).outputs = r.outputs ++ (rvPart l r).1 := by
  rw [connected_outputs, (r3_nil h).1, List.append_nil]

theorem connected_virt (h : Sep l r) (x : String) :
    (connected l r).virt.mem x = (l.virt.mem x && r.virt.mem x) := by
  have : (connected l r).virt = (l.virt.inter r.virt).diff (.fin []) := by
    simp only [connected, RawBag.core, rule3_nil h, names, List.map_nil]
    rfl
  rw [this, NameSet.mem_diff, NameSet.mem_inter]
  simp [NameSet.mem]


theorem not_input_rv (h : Sep l r) {k : BNode} (hk : k ∈ (rvPart l r).1) : k ∉ (connected l r).inputs := by
  simp only [connected_inputs, List.mem_append]
  have := fresh_rv hk
  rintro (h1 | h1)
  · have := h.l_id (nodes3_in h1); have := h.le; omega
  · have := (fresh_lv h1).2; omega

/-- a passed-on field: the clone computes what the left output computes -/
theorem den_rv (h : Sep l r) (hs : SingleIncoming (connected l r).edges) {o k : BNode}
    (ho : o ∈ l.outputs) (hk : k ∈ (rvPart l r).1) (he : identityEdge o k ∈ (rvPart l r).2.1) (t : BTerm) :
    BDen (connected l r) k t ↔ BDen l o t := by
  have hlo : o.id < l.next := h.l_id (nodes3_out ho)
  have hec : identityEdge o k ∈ (connected l r).edges :=
    mem_connected_edges.2 (Or.inr (Or.inr (Or.inr (Or.inr (Or.inl he)))))
  constructor
  · intro hd
    cases hd with
    | input hi => exact absurd hi (not_input_rv h hk)
    | missing _ hno => exact absurd rfl (hno _ hec)
    | ident e _ he' ho' _ hi' hp =>
      have : e = identityEdge o k := hs e he' _ hec (by simpa [identityEdge] using ho')
      subst this
      simp only [identityEdge] at hi'
      cases hi'
      exact (den_left h hlo t).1 hp
    | edge e _ he' ho' hk' _ _ =>
      have : e = identityEdge o k := hs e he' _ hec (by simpa [identityEdge] using ho')
      subst this
      exact absurd rfl hk'
  · intro hd
    exact .ident (identityEdge o k) (not_input_rv h hk) hec rfl rfl rfl ((den_left h hlo t).2 hd)

/-- **What a connected pipeline exposes** (C02): the fields of the right bag, computed from the left bag's fields, and the
fields of the left bag that the right bag passes on (it inherits them, or they are persistent and not redefined), unchanged.
Nothing else. -/
theorem connected_field (h : Sep l r) (hs : SingleIncoming (connected l r).edges) (x : String) (t : BTerm) :
    (connected l r).Field x t ↔
      (∃ t0, r.Field x t0 ∧ Glue l t0 t) ∨ (passes l r x = true ∧ l.Field x t) := by
  simp only [Bag.Field, connected_outputs' h, List.mem_append]
  constructor
  · rintro ⟨o, ho | ho, hox, hd⟩
    · obtain ⟨t0, hd0, hg⟩ := (den_right h (h.r_id (nodes3_out ho)) t).1 hd
      exact Or.inl ⟨t0, ⟨o, ho, hox, hd0⟩, hg⟩
    · obtain ⟨n, hn, hcn, he⟩ := cloneEdges_clone false (rvNodes l r) (lvPart l r).2.2 o ho
      simp only [Bool.false_eq_true, ↓reduceIte] at he
      have hn' := mem_rvNodes.1 hn
      refine Or.inr ⟨?_, n, hn'.1, hcn.symm.trans hox, (den_rv h hs hn'.1 ho he t).1 hd⟩
      rw [← hox, hcn]; exact hn'.2
  · rintro (⟨t0, ⟨o, ho, hox, hd0⟩, hg⟩ | ⟨hp, o, ho, hox, hd⟩)
    · exact ⟨o, Or.inl ho, hox, (den_right h (h.r_id (nodes3_out ho)) t).2 ⟨t0, hd0, hg⟩⟩
    · have hn : o ∈ rvNodes l r := mem_rvNodes.2 ⟨ho, by rw [hox]; exact hp⟩
      obtain ⟨c, hc, hcn, he⟩ := (cloneEdges_spec false (rvNodes l r) (lvPart l r).2.2).2.2.2.2.2 o hn
      simp only [Bool.false_eq_true, ↓reduceIte] at he
      exact ⟨c, Or.inr hc, hcn.trans hox, (den_rv h hs ho hc he t).2 hd⟩

/-- the names the connected pipeline exposes -/
theorem connected_names (h : Sep l r) (x : String) :
    x ∈ names (connected l r).outputs ↔ x ∈ names r.outputs ∨ (x ∈ names l.outputs ∧ passes l r x = true) := by
  simp only [connected_outputs' h, names, List.map_append, List.mem_append]
  constructor
  · rintro (h1 | h1)
    · exact Or.inl h1
    · obtain ⟨c, hc, rfl⟩ := List.mem_map.1 h1
      obtain ⟨n, hn, hcn, _⟩ := cloneEdges_clone false (rvNodes l r) (lvPart l r).2.2 c hc
      have hn' := mem_rvNodes.1 hn
      exact Or.inr ⟨List.mem_map.2 ⟨n, hn'.1, hcn.symm⟩, hcn ▸ hn'.2⟩
  · rintro (h1 | ⟨h1, hp⟩)
    · exact Or.inl h1
    · obtain ⟨o, ho, rfl⟩ := List.mem_map.1 h1
      obtain ⟨c, hc, hcn, _⟩ := (cloneEdges_spec false (rvNodes l r) (lvPart l r).2.2).2.2.2.2.2 o
        (mem_rvNodes.2 ⟨ho, hp⟩)
      exact Or.inr (List.mem_map.2 ⟨c, hc, hcn⟩)

/-- **No stale field** (C02): a field of the left bag that the right bag neither defines nor passes on is gone. -/
theorem gone_field (h : Sep l r) {x : String} (hr : x ∉ names r.outputs) (hp : passes l r x = false) :
    x ∉ names (connected l r).outputs := by
  rw [connected_names h]
  rintro (h1 | ⟨_, h1⟩)
  · exact hr h1
  · rw [hp] at h1; exact absurd h1 (by simp)

end
end CM
