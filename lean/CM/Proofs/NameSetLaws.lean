/-
  CM.Proofs.NameSetLaws — membership is a homomorphism for every operator of the `AntiSet` model.
-/
import CM.Model.NameSet
namespace CM.NameSet

theorem mem_linter (a b : List String) (x : String) : x ∈ linter a b ↔ (x ∈ a ∧ x ∈ b) := by
  simp [linter, List.mem_filter]

theorem mem_ldiff (a b : List String) (x : String) : x ∈ ldiff a b ↔ (x ∈ a ∧ x ∉ b) := by
  simp [ldiff, List.mem_filter]

theorem mem_lunion (a b : List String) (x : String) : x ∈ lunion a b ↔ (x ∈ a ∨ x ∈ b) := by
  simp only [lunion, List.mem_append, mem_ldiff]
  by_cases h : x ∈ a <;> simp [h]

theorem mem_inter (a b : NameSet) (x : String) : (a.inter b).mem x = (a.mem x && b.mem x) := by
  cases a <;> cases b <;> simp [inter, mem, mem_linter, mem_ldiff, mem_lunion] <;> grind

theorem mem_union (a b : NameSet) (x : String) : (a.union b).mem x = (a.mem x || b.mem x) := by
  cases a <;> cases b <;> simp [union, mem, mem_linter, mem_ldiff, mem_lunion] <;> grind

theorem mem_diff (a b : NameSet) (x : String) : (a.diff b).mem x = (a.mem x && !b.mem x) := by
  cases a <;> cases b <;> simp [diff, mem, mem_linter, mem_ldiff, mem_lunion] <;> grind

@[simp] theorem mem_all (x : String) : all.mem x = true := by simp [all, mem]
@[simp] theorem mem_empty (x : String) : empty.mem x = false := by simp [empty, mem]

end CM.NameSet
