/-
  CM.Proofs.BagLinkLemmas — reachability in the compiled graph, terms without missing inputs, pure calls.
-/
import CM.Proofs.BagCompile
import CM.Proofs.Count
namespace CM

mutual
  def BTerm.NoMissing : BTerm → Prop
    | .inp _ => True
    | .missing _ => False
    | .node _ args => BTerm.NoMissingL args
  def BTerm.NoMissingL : List BTerm → Prop
    | [] => True
    | t :: ts => t.NoMissing ∧ BTerm.NoMissingL ts
end

theorem noMissingL_mem : ∀ {ts : List BTerm}, BTerm.NoMissingL ts → ∀ t ∈ ts, t.NoMissing
  | [], _, t, ht => by cases ht
  | x :: xs, h, t, ht => by
    simp only [BTerm.NoMissingL] at h
    rcases List.mem_cons.1 ht with rfl | ht
    · exact h.1
    · exact noMissingL_mem h.2 t ht

theorem denList_length (d : DenCfg) : ∀ (ts : List BTerm), (BTerm.denList d ts).length = ts.length
  | [] => rfl
  | _ :: ts => by simp [BTerm.denList, denList_length d ts]

theorem denList_getElem? (d : DenCfg) : ∀ (ts : List BTerm) (j : Nat), (BTerm.denList d ts)[j]? = ts[j]?.map (·.den d)
  | [], j => by simp [BTerm.denList]
  | t :: ts, 0 => by simp [BTerm.denList]
  | t :: ts, j + 1 => by simp [BTerm.denList, denList_getElem? d ts j]

theorem topo_of_base (g : Graph) (ok : GraphBase g) : g.Topo := by
  intro n p hp
  unfold Graph.parents Graph.node at hp
  rw [List.getD_eq_getElem?_getD] at hp
  cases hn : g.nodes[n]? with
  | none => simp [hn] at hp; cases hp
  | some nd => simp [hn] at hp; exact ok.topo n nd hn p hp

/-- a parent of a reachable inner node is reachable -/
theorem init_parent (g : Graph) (ht : g.Topo) (c p : Nat) (hc : g.init c ≠ 0) (hin : g.inputs.contains c = false)
    (hp : p ∈ g.parents c) : g.init p ≠ 0 := by
  have hco : c ≤ g.output := by
    rcases Nat.lt_or_ge g.output c with h | h
    · exact absurd (init_zero_of_gt g ht c h) hc
    · exact h
  have hlive : g.live c = true := by
    simp only [Graph.live, pushes, hin, Bool.not_false, Bool.true_and, bne_iff_ne, ne_eq]
    exact hc
  have hocc : 1 ≤ occ g c p := by
    simp only [occ]
    exact List.count_pos_iff.2 hp
  have hge := sumTo_ge_term (f := fun n => if g.live n then occ g n p * g.init n else 0) (g.output + 1) c (by omega)
  simp only [hlive, if_true] at hge
  have hspec := init_spec g ht p
  have : g.init c ≤ occ g c p * g.init c := Nat.le_mul_of_pos_left _ hocc
  omega

theorem call_pure_idx (d : DenCfg) (h : d.impureFns = []) (n m : Nat) : d.call n = d.call m := by
  funext f pos kwn kwv
  simp [DenCfg.call, h]

end CM
