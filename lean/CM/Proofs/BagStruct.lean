import CM.Model.Bag
namespace CM

/-! structural facts about the clone helpers -/

theorem cloneEdges_spec (flip : Bool) : ∀ (ns : List BNode) (next : Nat),
    let r := cloneEdges flip ns next
    r.2.2 = next + ns.length ∧ r.1.length = ns.length ∧ r.2.1.length = ns.length ∧
    (∀ c ∈ r.1, next ≤ c.id ∧ c.id < next + ns.length) ∧
    (∀ e ∈ r.2.1, e.edge = .identity ∧ ∃ n ∈ ns, ∃ c ∈ r.1, c.name = n.name ∧
        (if flip then e.ins = [c] ∧ e.out = n else e.ins = [n] ∧ e.out = c)) ∧
    (∀ n ∈ ns, ∃ c ∈ r.1, c.name = n.name ∧
        (if flip then identityEdge c n else identityEdge n c) ∈ r.2.1)
  | [], next => by simp [cloneEdges]
  | n :: ns, next => by
    have ih := cloneEdges_spec flip ns (next + 1)
    simp only [cloneEdges] at ih ⊢
    obtain ⟨h1, h2, h3, h4, h5, h6⟩ := ih
    refine ⟨by simp [h1]; omega, by simp [h2], by simp [h3], ?_, ?_, ?_⟩
    · intro c hc
      simp only [List.mem_cons] at hc
      rcases hc with rfl | hc
      · simp
      · have := h4 c hc; simp only [List.length_cons]; omega
    · intro e he
      simp only [List.mem_cons] at he
      rcases he with rfl | he
      · refine ⟨by cases flip <;> simp [identityEdge], n, by simp, ⟨next, n.name⟩, by simp, rfl, ?_⟩
        cases flip <;> simp [identityEdge]
      · obtain ⟨hk, m, hm, c, hc, hn, hio⟩ := h5 e he
        exact ⟨hk, m, List.mem_cons_of_mem _ hm, c, List.mem_cons_of_mem _ hc, hn, hio⟩
    · intro m hm
      simp only [List.mem_cons] at hm
      rcases hm with rfl | hm
      · exact ⟨⟨next, m.name⟩, by simp, rfl, by simp⟩
      · obtain ⟨c, hc, hn, he⟩ := h6 m hm
        exact ⟨c, List.mem_cons_of_mem _ hc, hn, List.mem_cons_of_mem _ he⟩


theorem cloneEdges_clone (flip : Bool) : ∀ (ns : List BNode) (next : Nat),
    ∀ c ∈ (cloneEdges flip ns next).1, ∃ n ∈ ns, c.name = n.name ∧
        (if flip then identityEdge c n else identityEdge n c) ∈ (cloneEdges flip ns next).2.1
  | [], next => by simp [cloneEdges]
  | n :: ns, next => by
    intro c hc
    simp only [cloneEdges, List.mem_cons] at hc ⊢
    rcases hc with rfl | hc
    · exact ⟨n, Or.inl rfl, rfl, Or.inl rfl⟩
    · obtain ⟨m, hm, hn, he⟩ := cloneEdges_clone flip ns (next + 1) c hc
      exact ⟨m, Or.inr hm, hn, Or.inr he⟩

end CM
