/-
  CM.Proofs.Needed — only what is needed runs: every user-function call the machine logs was made on behalf of a
  node whose generator the cache-free evaluation of the requested output demands (`Need`).  Unselected branches of
  the switch edges are not demanded, hence never executed; with caches the machine executes a subset.
-/
import CM.Proofs.CacheSound
import CM.Proofs.EffLemmas
import CM.Proofs.Once
import CM.Proofs.CacheCorrect
namespace CM

def LogOK (g : Graph) (d : DenCfg) (root : Bool × Nat) (m : Mem) : Prop :=
  ∀ r ∈ m.world.log, ∃ hp, Need g d root hp r.node

def DepsNeeded (g : Graph) (d : DenCfg) (root : Bool × Nat) (n : Nat) (qs : List Dep) : Prop :=
  ∀ q ∈ qs, ∀ hp' n', depTarget g n q = some (hp', n') → Need g d root hp' n'

def PreN (g : Graph) (d : DenCfg) (root : Bool × Nat) : Task → Prop
  | .hash n => Need g d root true n
  | .value n => Need g d root false n
  | .prog n p => (∃ hp, Need g d root hp n) ∧ DepsNeeded g d root n (progDeps (ctxOf g d n) p)
  | .req n r => (∃ hp, Need g d root hp n) ∧ DepsNeeded g d root n (reqDeps r)
  | .reqs n rs _ => (∃ hp, Need g d root hp n) ∧ DepsNeeded g d root n (reqsDeps rs)

def NeedRes (g : Graph) (d : DenCfg) (root : Bool × Nat) : BRes → Prop
  | .ok _ m' => LogOK g d root m'
  | .raised _ m' => LogOK g d root m'
  | .fuel => True

theorem logOK_world {g : Graph} {d : DenCfg} {root : Bool × Nat} {m m' : Mem} (h : m'.world.log = m.world.log)
    (hl : LogOK g d root m) : LogOK g d root m' := by
  intro r hr; rw [h] at hr; exact hl r hr

theorem big_needed (F : Fam) (g : Graph) (d : DenCfg) (root : Bool × Nat) (ok : GraphOKC g) : ∀ (f : Nat) (t : Task) (m : Mem),
    MemSoundC F g d m → TaskOKC F g d t → LogOK g d root m → PreN g d root t → NeedRes g d root (big g f t m) := by
  intro f
  induction f with
  | zero => intro t m _ _ _ _; simp [big, NeedRes]
  | succ f ih =>
    intro t m hs htask hlog hpre
    cases t with
    | hash n =>
      rw [big_hash]
      have hneed : Need g d root true n := hpre
      cases hx : m.hashes.memo n with
      | some x0 => exact hlog
      | none =>
        simp only
        cases he : (g.node n).edge with
        | none => exact hlog
        | some e =>
          simp only
          have hwf := ok.wfc n _ e (node_of_edge g n e he) he
          have hcok : CacheOK F g d n (e.hashProg (g.parents n).length) := CacheOK.of_noEff (hashProg_noEff_c e _ hwf)
          have hpn : PreN g d root (.prog n (e.hashProg (g.parents n).length)) :=
            ⟨⟨true, hneed⟩, fun q hq hp' n' ht => .step true n e q hp' n' hneed he (by simpa [genProg] using hq) ht⟩
          have hih := ih (.prog n (e.hashProg (g.parents n).length)) m hs hcok hlog hpn
          cases hq : big g f (.prog n (e.hashProg (g.parents n).length)) m with
          | fuel => trivial
          | raised e1 m1 => rw [hq] at hih; exact hih
          | ok x1 m1 =>
            rw [hq] at hih
            simp only
            cases m1.hashes.memo n with
            | some _ => exact hih
            | none =>
              simp only
              cases m1.hashes.set n x1 with
              | none => exact hih
              | some h' => exact hih
    | value n =>
      rw [big_value]
      have hneed : Need g d root false n := hpre
      cases hx : m.cache.memo n with
      | some v0 => exact hlog
      | none =>
        simp only
        cases he : (g.node n).edge with
        | none => exact hlog
        | some e =>
          simp only
          have hwf := ok.wfc n _ e (node_of_edge g n e he) he
          have hden := (den_inner g d ok.toGraphBase n e he).2
          have hcok : CacheOK F g d n (e.evalProg (g.parents n).length) := by
            rcases hwf with h | ⟨s, rfl⟩
            · exact CacheOK.of_noEff (evalProg_noEff e _ h)
            · exact cache_evalProg_ok F g d n s _ hs.fam hden
          have hpn : PreN g d root (.prog n (e.evalProg (g.parents n).length)) :=
            ⟨⟨false, hneed⟩, fun q hq hp' n' ht => .step false n e q hp' n' hneed he (by simpa [genProg] using hq) ht⟩
          have hih := ih (.prog n (e.evalProg (g.parents n).length)) m hs hcok hlog hpn
          cases hq : big g f (.prog n (e.evalProg (g.parents n).length)) m with
          | fuel => trivial
          | raised e1 m1 => rw [hq] at hih; exact hih
          | ok x1 m1 =>
            rw [hq] at hih
            cases x1 with
            | val v =>
              simp only
              cases m1.cache.memo n with
              | some _ => exact hih
              | none =>
                simp only
                cases m1.cache.set n v with
                | none => exact hih
                | some c' => exact hih
            | hash _ | hout _ _ | node _ | tup _ => exact hih
    | prog n p =>
      rw [big_prog]
      obtain ⟨hnode, hdeps⟩ := hpre
      have hcp : CacheOK F g d n p := htask
      obtain ⟨hc', hst', hint', hne'⟩ := runEffs_cacheOK hcp m.world hs.stores
      have hfx := fixed_parts (runEffs_fixed p m.world)
      have hlg := runEffs_log p m.world
      have hdp := runEffs_deps hcp m.world
      cases hq : runEffs p m.world with
      | mk p' w' =>
        rw [hq] at hc' hst' hint' hne' hfx hlg hdp
        simp only at hc' hst' hint' hne' hfx hlg hdp
        have hsw : MemSoundC F g d { m with world := w' } :=
          ⟨⟨hs.mem.vals, hs.mem.hashes, hfx.1.trans hs.mem.consts, hfx.2.1.trans hs.mem.impure, hfx.2.2.trans hs.mem.callNo⟩, hst', hs.fam⟩
        have hlw : LogOK g d root { m with world := w' } := logOK_world hlg hlog
        cases p' with
        | eff op k => simp [Prog.isEff] at hne'
        | raise e => exact hlw
        | ret x =>
          simp only
          cases evictAll (g.parents n) m.hashes m.cache with
          | none => exact hlw
          | some hc => exact hlw
        | req r k =>
          simp only
          have hd' : DepsNeeded g d root n (progDeps (ctxOf g d n) (.req r k)) := fun q hq => hdeps q (hdp q hq)
          have hpr : PreN g d root (.req n r) :=
            ⟨hnode, fun q hq => hd' q (by simp only [progDeps, List.mem_append]; exact .inl hq)⟩
          have hih := ih (.req n r) { m with world := w' } hsw trivial hlw hpr
          have hsr := big_sound_c F g d ok f (.req n r) { m with world := w' } hsw trivial
          cases hq1 : big g f (.req n r) { m with world := w' } with
          | fuel => trivial
          | raised e1 m1 => rw [hq1] at hih; exact hih
          | ok y m1 =>
            rw [hq1] at hih hsr
            obtain ⟨hs1, hr⟩ := hsr
            simp only [Post] at hr
            have hky : CacheOK F g d n (k y) := by
              cases hc' with
              | req _ _ hk => exact hk y hr
            have hpk : PreN g d root (.prog n (k y)) :=
              ⟨hnode, fun q hq => hd' q (by simp only [progDeps, hr, List.mem_append]; exact .inr hq)⟩
            exact ih (.prog n (k y)) m1 hs1 hky hih hpk
    | req n r =>
      rw [big_req]
      obtain ⟨hnode, hdeps⟩ := hpre
      cases r with
      | parentHash i =>
        simp only
        cases hp : (g.parents n)[i]? with
        | none => exact hlog
        | some p =>
          simp only
          have hneed : Need g d root true p := hdeps (.ph i) (by simp [reqDeps]) true p (by simp [depTarget, hp])
          have hih := ih (.hash p) m hs trivial hlog hneed
          cases hq : big g f (.hash p) m with
          | fuel => trivial
          | raised e1 m1 => rw [hq] at hih; exact hih
          | ok y m1 => rw [hq] at hih; cases y <;> exact hih
      | parentValue i =>
        simp only
        cases hp : (g.parents n)[i]? with
        | none => exact hlog
        | some p =>
          simp only
          have hneed : Need g d root false p := hdeps (.pv i) (by simp [reqDeps]) false p (by simp [depTarget, hp])
          exact ih (.value p) m hs trivial hlog hneed
      | currentHash =>
        simp only
        have hneed : Need g d root true n := hdeps .cur (by simp [reqDeps]) true n rfl
        have hih := ih (.hash n) m hs trivial hlog hneed
        cases hq : big g f (.hash n) m with
        | fuel => trivial
        | raised e1 m1 => rw [hq] at hih; exact hih
        | ok y m1 => rw [hq] at hih; cases y <;> exact hih
      | payload =>
        simp only
        have hneed : Need g d root true n := hdeps .cur (by simp [reqDeps]) true n rfl
        have hih := ih (.hash n) m hs trivial hlog hneed
        cases hq : big g f (.hash n) m with
        | fuel => trivial
        | raised e1 m1 => rw [hq] at hih; exact hih
        | ok y m1 => rw [hq] at hih; cases y <;> exact hih
      | await rs =>
        simp only
        exact ih (.reqs n rs.reverse []) m hs trivial hlog
          ⟨hnode, fun q hq => hdeps q (by simp only [reqDeps]; exact (mem_reqsDeps_reverse rs q).mp hq)⟩
      | call fn pos kwn kwv =>
        simp only
        have hlg := call_log m.world n fn pos kwn kwv
        cases hc : m.world.call n fn pos kwn kwv with
        | mk rv w =>
          rw [hc] at hlg
          simp only at hlg
          have hnew : LogOK g d root { m with world := w } := by
            intro r hr
            simp only [hlg, List.mem_cons] at hr
            rcases hr with rfl | hr
            · exact hnode
            · exact hlog r hr
          cases rv with
          | error e1 => exact hnew
          | ok v => exact hnew
    | reqs n rsRev acc =>
      rw [big_reqs]
      obtain ⟨hnode, hdeps⟩ := hpre
      cases rsRev with
      | nil => exact hlog
      | cons r rest =>
        simp only
        have hpr : PreN g d root (.req n r) :=
          ⟨hnode, fun q hq => hdeps q (by simp only [reqsDeps, List.mem_append]; exact .inl hq)⟩
        have hih := ih (.req n r) m hs trivial hlog hpr
        have hsr := big_sound_c F g d ok f (.req n r) m hs trivial
        cases hq : big g f (.req n r) m with
        | fuel => trivial
        | raised e1 m1 => rw [hq] at hih; exact hih
        | ok y m1 =>
          rw [hq] at hih hsr
          exact ih (.reqs n rest (y :: acc)) m1 hsr.1 trivial hih
            ⟨hnode, fun q hq => hdeps q (by simp only [reqsDeps, List.mem_append]; exact .inr hq)⟩


/-- **Only what is needed runs.**  Every call logged by a call of the compiled function — returning or raising, with
or without cache edges — was made on behalf of a node one of whose generators the cache-free evaluation of the output
demands. -/
theorem call_only_needed (F : Fam) (g : Graph) (ok : GraphOKC g) (env : String → Option Val) (w : World) (hc : CallOK g env)
    (hF : F g (denCfgOf env w)) (hst : StoreSound F w) (hlog : w.log = []) (fuel steps : Nat) (o : Outcome)
    (hrun : g.call env w fuel = some (o, steps)) :
    ∀ r ∈ o.mem.world.log, ∃ hp, Need g (denCfgOf env w) (false, g.output) hp r.node := by
  have hs : MemSoundC F g (denCfgOf env w) (g.initMem env w) := ⟨init_memSound g env w hc, hst, hF⟩
  have hl0 : LogOK g (denCfgOf env w) (false, g.output) (g.initMem env w) := by
    intro r hr; simp [Graph.initMem, hlog] at hr
  obtain ⟨f, hf⟩ := (node_halts_c g ok g.output).2 (g.initMem env w)
  have hsim := sim g f (.value g.output) (g.initMem env w)
  have hres := big_needed F g (denCfgOf env w) (false, g.output) ok f (.value g.output) (g.initMem env w) hs trivial hl0 .root
  cases hq : big g f (.value g.output) (g.initMem env w) with
  | fuel => simp [hq, BRes.isFuel] at hf
  | ok x m' =>
    rw [hq] at hres
    have hreach := hsim.1 x m' hq [] [.ret] _ rfl
    obtain ⟨N, steps', hN⟩ := run_of_reaches g hreach (.done x ⟨[], [], m'⟩) rfl (by simp [step]) 0
    have := call_unique g env w fuel N _ _ hrun (fun fuel hfuel => by simp only [Graph.call, initSt_eq]; exact hN fuel hfuel)
    injection this with h1 _
    rw [h1]; exact hres
  | raised e m' =>
    rw [hq] at hres
    obtain ⟨s', s'', hreach, hstep, hmem⟩ := hsim.2 e m' hq [] [.ret] _ rfl
    obtain ⟨N, steps', hN⟩ := run_of_reaches g hreach (.raised e s'') rfl hstep 0
    have := call_unique g env w fuel N _ _ hrun (fun fuel hfuel => by simp only [Graph.call, initSt_eq]; exact hN fuel hfuel)
    injection this with h1 _
    rw [h1]
    show ∀ r ∈ s''.mem.world.log, _
    rw [hmem]; exact hres

/-- what a `SwitchEdge` (Merge) demands while hashing: the key, and the hash of the branch the key routes to — no
other branch -/
theorem switch_hash_deps (c : Ctx) (t : List (Val × Nat)) (a : Nat) :
    ∀ q ∈ progDeps c ((EdgeK.switch t).hashProg a),
      q = .pv 0 ∨ ∃ key idx, c.pv 0 = .ok key ∧ tableLookup t key = some idx ∧ q = .ph (idx + 1) := by
  intro q hq
  simp only [EdgeK.hashProg, progDeps, reqDeps, interpReq, List.mem_append, List.mem_singleton] at hq
  rcases hq with hq | hq
  · exact .inl hq
  · right
    cases hpv : c.pv 0 with
    | error e => simp [hpv, Except.map] at hq
    | ok key =>
      simp only [hpv, Except.map] at hq
      cases hlk : tableLookup t key with
      | none => simp [hlk, progDeps] at hq
      | some idx =>
        simp only [hlk, progDeps, reqDeps, interpReq, List.mem_append, List.mem_singleton] at hq
        rcases hq with hq | hq
        · exact ⟨key, idx, rfl, hlk, hq⟩
        · cases hph : c.ph (idx + 1) with
          | error e => simp [hph, Except.map] at hq
          | ok hh => simp [hph, Except.map, progDeps] at hq

/-- and while evaluating: its own hash (the routing decision) and the value of that same branch -/
theorem switch_eval_deps (c : Ctx) (t : List (Val × Nat)) (a : Nat) :
    ∀ q ∈ progDeps c ((EdgeK.switch t).evalProg a),
      q = .cur ∨ ∃ (h : NHash) (idx : Int), c.cur = .ok (h, .int idx) ∧ q = .pv (idx.toNat + 1) := by
  intro q hq
  simp only [EdgeK.evalProg, progDeps, reqDeps, interpReq, List.mem_append, List.mem_singleton] at hq
  rcases hq with hq | hq
  · exact .inl hq
  · right
    cases hcur : c.cur with
    | error e => simp [hcur, Except.map] at hq
    | ok hp =>
      obtain ⟨h, p⟩ := hp
      simp only [hcur, Except.map] at hq
      split at hq
      · next idx heq =>
        simp only [progDeps, reqDeps, interpReq, List.mem_append, List.mem_singleton] at hq
        injection heq with heq
        rcases hq with hq | hq
        · exact ⟨h, idx, by rw [heq], hq⟩
        · cases hpv : c.pv (idx.toNat + 1) with
          | error e => simp [hpv, Except.map] at hq
          | ok v => simp [hpv, Except.map, progDeps] at hq
      · simp [progDeps] at hq

end CM
