/-
  CM.Proofs.BagCompile — the graph compiled from a bag: which node sits at which index.
-/
import CM.Proofs.BagDen
namespace CM

theorem compileGraph_eq (b : Bag) (o : BNode) :
    b.compileGraph o = { nodes := (b.leaves o).map mkLeaf ++ b.order.map (b.mkEdge o),
                         inputs := b.inputs.map (b.idx o), output := b.idx o o } := rfl

/-! ### `peel` only hands out edges of the list -/

theorem readyEdges_sub (es : List BEdge) : ∀ e ∈ readyEdges es, e ∈ es := fun e he => (List.mem_filter.1 he).1
theorem notReady_sub (es : List BEdge) : ∀ e ∈ notReady es, e ∈ es := fun e he => (List.mem_filter.1 he).1

theorem peel_sub : ∀ (fuel : Nat) (es : List BEdge), ∀ e ∈ (peel fuel es).1, e ∈ es
  | 0, es => by simp [peel]
  | fuel + 1, es => by
    intro e he
    simp only [peel] at he
    split at he
    · simp at he
    · simp only [List.mem_append] at he
      rcases he with he | he
      · exact readyEdges_sub es e he
      · exact notReady_sub es e (peel_sub fuel (notReady es) e he)

theorem order_sub (b : Bag) : ∀ e ∈ b.order, e ∈ b.edges := peel_sub _ _

section
variable {b : Bag} {o : BNode}

theorem mem_outs {n : BNode} : n ∈ b.outs ↔ ∃ e ∈ b.order, e.out = n := by
  simp [Bag.outs]

theorem mem_leaves {n : BNode} : n ∈ b.leaves o ↔ (n ∈ edgeNodes b.edges ∨ n ∈ b.inputs ∨ n = o) ∧ n ∉ b.outs := by
  simp [Bag.leaves, List.mem_eraseDups, or_assoc]

theorem mem_nodeList {n : BNode} : n ∈ b.nodeList o ↔ n ∈ edgeNodes b.edges ∨ n ∈ b.inputs ∨ n = o ∨ n ∈ b.outs := by
  simp only [Bag.nodeList, List.mem_append, mem_leaves]
  by_cases h : n ∈ b.outs <;> simp [h]

theorem idx_lt {n : BNode} (h : n ∈ b.nodeList o) : b.idx o n < (b.nodeList o).length :=
  List.idxOf_lt_length_iff.2 h

theorem nodeList_idx {n : BNode} (h : n ∈ b.nodeList o) : (b.nodeList o)[b.idx o n]'(idx_lt h) = n :=
  List.getElem_idxOf _

theorem idx_inj {n m : BNode} (hn : n ∈ b.nodeList o) (hm : m ∈ b.nodeList o) (h : b.idx o n = b.idx o m) : n = m := by
  have h1 := nodeList_idx hn
  have h2 := nodeList_idx hm
  simp only [h] at h1
  exact h1.symm.trans h2

theorem nodes_length : (b.compileGraph o).nodes.length = (b.nodeList o).length := by
  simp [compileGraph_eq, Bag.nodeList, Bag.outs]

/-- the node the compiled graph holds for a leaf -/
theorem node_of_leaf {n : BNode} (h : n ∈ b.leaves o) : (b.compileGraph o).nodes[b.idx o n]? = some (mkLeaf n) := by
  have hi : b.idx o n = (b.leaves o).idxOf n := by
    simp only [Bag.idx, Bag.nodeList, List.idxOf_append, h, if_true]
  have hlt : (b.leaves o).idxOf n < (b.leaves o).length := List.idxOf_lt_length_iff.2 h
  rw [compileGraph_eq, hi]
  simp only [List.getElem?_append_left (by simpa using hlt : (b.leaves o).idxOf n < ((b.leaves o).map mkLeaf).length)]
  rw [List.getElem?_map, List.getElem?_eq_getElem hlt, List.getElem_idxOf]
  rfl

/-- the node the compiled graph holds for the output of an edge of the topological order -/
theorem node_of_edge' (hs : SingleIncoming b.edges) {e : BEdge} (he : e ∈ b.order) :
    (b.compileGraph o).nodes[b.idx o e.out]? = some (b.mkEdge o e) := by
  have hout : e.out ∈ b.outs := mem_outs.2 ⟨e, he, rfl⟩
  have hnl : e.out ∉ b.leaves o := fun h => (mem_leaves.1 h).2 hout
  have hi : b.idx o e.out = b.outs.idxOf e.out + (b.leaves o).length := by
    simp only [Bag.idx, Bag.nodeList, List.idxOf_append, hnl, if_false]
  have hlt : b.outs.idxOf e.out < b.outs.length := List.idxOf_lt_length_iff.2 hout
  have hlt' : b.outs.idxOf e.out < b.order.length := by simpa [Bag.outs] using hlt
  rw [compileGraph_eq, hi]
  simp only [List.getElem?_append_right (by simp : ((b.leaves o).map mkLeaf).length ≤ b.outs.idxOf e.out + (b.leaves o).length),
    List.length_map, Nat.add_sub_cancel, List.getElem?_map, List.getElem?_eq_getElem hlt', Option.map_some]
  -- the edge at that position has the same output, hence is `e`
  have hk : (b.order[b.outs.idxOf e.out]).out = e.out := by
    have h1 : b.outs[b.outs.idxOf e.out]'hlt = e.out := List.getElem_idxOf hlt
    have h2 : b.outs[b.outs.idxOf e.out]'hlt = (b.order[b.outs.idxOf e.out]).out := by
      simp only [Bag.outs, List.getElem_map]
    rw [← h2, h1]
  have hmem : b.order[b.outs.idxOf e.out] ∈ b.order := List.getElem_mem hlt'
  rw [hs _ (order_sub b _ hmem) e (order_sub b _ he) hk]

end
end CM
