/-
  CM.Proofs.LogMono — the call log only grows.
-/
import CM.Proofs.Once
import CM.Proofs.EffLemmas
namespace CM

def BRes.logExtends (r : BRes) (l : List CallRec) : Prop :=
  match r with
  | .ok _ m => ∃ pre, m.world.log = pre ++ l
  | .raised _ m => ∃ pre, m.world.log = pre ++ l
  | .fuel => True

theorem ext_refl (l : List CallRec) : ∃ pre, l = pre ++ l := ⟨[], rfl⟩

theorem ext_trans {a b c : List CallRec} (h1 : ∃ pre, b = pre ++ a) (h2 : ∃ pre, c = pre ++ b) : ∃ pre, c = pre ++ a := by
  obtain ⟨p1, rfl⟩ := h1
  obtain ⟨p2, rfl⟩ := h2
  exact ⟨p2 ++ p1, by simp⟩

theorem big_log (g : Graph) : ∀ (f : Nat) (t : Task) (m : Mem), (big g f t m).logExtends m.world.log := by
  intro f
  induction f with
  | zero => intro t m; simp [big, BRes.logExtends]
  | succ f ih =>
    intro t m
    cases t with
    | hash n =>
      rw [big_hash]
      cases m.hashes.memo n with
      | some x => exact ext_refl _
      | none =>
        simp only
        cases (g.node n).edge with
        | none => exact ext_refl _
        | some e =>
          simp only
          have := ih (.prog n (e.hashProg (g.parents n).length)) m
          cases hq : big g f (.prog n (e.hashProg (g.parents n).length)) m with
          | fuel => trivial
          | raised _ _ => rw [hq] at this; exact this
          | ok x m1 =>
            rw [hq] at this
            simp only
            cases m1.hashes.memo n with
            | some _ => exact this
            | none =>
              simp only
              cases m1.hashes.set n x with
              | none => exact this
              | some _ => exact this
    | value n =>
      rw [big_value]
      cases m.cache.memo n with
      | some x => exact ext_refl _
      | none =>
        simp only
        cases (g.node n).edge with
        | none => exact ext_refl _
        | some e =>
          simp only
          have := ih (.prog n (e.evalProg (g.parents n).length)) m
          cases hq : big g f (.prog n (e.evalProg (g.parents n).length)) m with
          | fuel => trivial
          | raised _ _ => rw [hq] at this; exact this
          | ok x m1 =>
            rw [hq] at this
            cases x with
            | val v =>
              simp only
              cases m1.cache.memo n with
              | some _ => exact this
              | none =>
                simp only
                cases m1.cache.set n v with
                | none => exact this
                | some _ => exact this
            | hash _ | hout _ _ | node _ | tup _ => exact this
    | prog n p =>
      rw [big_prog]
      have hr := runEffs_log p m.world
      cases hq : runEffs p m.world with
      | mk p' w =>
        rw [hq] at hr
        simp only at hr
        have hw : ∃ pre, w.log = pre ++ m.world.log := ⟨[], by simp [hr]⟩
        cases p' with
        | ret x =>
          simp only
          cases evictAll (g.parents n) m.hashes m.cache with
          | none => exact hw
          | some hc => exact hw
        | raise e => exact hw
        | eff _ _ => exact hw
        | req r k =>
          simp only
          have h1 := ih (.req n r) { m with world := w }
          cases hq1 : big g f (.req n r) { m with world := w } with
          | fuel => trivial
          | raised _ _ => rw [hq1] at h1; exact ext_trans hw h1
          | ok x m1 =>
            rw [hq1] at h1
            simp only
            have h2 := ih (.prog n (k x)) m1
            have e1 := ext_trans hw h1
            cases hq2 : big g f (.prog n (k x)) m1 with
            | fuel => trivial
            | raised _ _ => rw [hq2] at h2; exact ext_trans e1 h2
            | ok _ _ => rw [hq2] at h2; exact ext_trans e1 h2
    | req n r =>
      rw [big_req]
      cases r with
      | parentHash i =>
        simp only
        cases (g.parents n)[i]? with
        | none => exact ext_refl _
        | some p =>
          simp only
          have := ih (.hash p) m
          cases hq : big g f (.hash p) m with
          | fuel => trivial
          | raised _ _ => rw [hq] at this; exact this
          | ok x m1 => rw [hq] at this; cases x <;> exact this
      | parentValue i =>
        simp only
        cases (g.parents n)[i]? with
        | none => exact ext_refl _
        | some p => exact ih (.value p) m
      | currentHash =>
        simp only
        have := ih (.hash n) m
        cases hq : big g f (.hash n) m with
        | fuel => trivial
        | raised _ _ => rw [hq] at this; exact this
        | ok x m1 => rw [hq] at this; cases x <;> exact this
      | payload =>
        simp only
        have := ih (.hash n) m
        cases hq : big g f (.hash n) m with
        | fuel => trivial
        | raised _ _ => rw [hq] at this; exact this
        | ok x m1 => rw [hq] at this; cases x <;> exact this
      | await rs => exact ih (.reqs n rs.reverse []) m
      | call fn pos kwn kwv =>
        simp only
        have := call_log m.world n fn pos kwn kwv
        cases hc : m.world.call n fn pos kwn kwv with
        | mk rv w =>
          rw [hc] at this
          simp only at this
          cases rv with
          | ok v => exact ⟨[⟨n, fn, pos, kwn, kwv⟩], by simp [this]⟩
          | error e => exact ⟨[⟨n, fn, pos, kwn, kwv⟩], by simp [this]⟩
    | reqs n rsRev acc =>
      rw [big_reqs]
      cases rsRev with
      | nil => exact ext_refl _
      | cons r rest =>
        simp only
        have h1 := ih (.req n r) m
        cases hq1 : big g f (.req n r) m with
        | fuel => trivial
        | raised _ _ => rw [hq1] at h1; exact h1
        | ok x m1 =>
          rw [hq1] at h1
          simp only
          have h2 := ih (.reqs n rest (x :: acc)) m1
          cases hq2 : big g f (.reqs n rest (x :: acc)) m1 with
          | fuel => trivial
          | raised _ _ => rw [hq2] at h2; exact ext_trans h1 h2
          | ok _ _ => rw [hq2] at h2; exact ext_trans h1 h2

end CM
