/-
  CM.Proofs.BagLink — the link: the node of the compiled graph that stands for a bag node denotes what the bag node computes.
-/
import CM.Proofs.BagIdent
namespace CM

structure LinkHyp (b : Bag) (o : BNode) (d : DenCfg) : Prop where
  single : SingleIncoming b.edges
  inLeaf : ∀ n ∈ b.inputs, ∀ e ∈ b.edges, e.out ≠ n
  peeled : ∀ e ∈ b.edges, e ∈ b.order
  base : GraphBase (b.compileGraph o)
  pure : d.impureFns = []

section
variable {b : Bag} {o : BNode} {d : DenCfg}

theorem getElem?_node {g : Graph} {i : Nat} {nd : Node} (h : g.nodes[i]? = some nd) : g.node i = nd := by
  simp [Graph.node, List.getD_eq_getElem?_getD, h]

theorem input_is_leaf (H : LinkHyp b o d) {n : BNode} (hn : n ∈ b.inputs) : n ∈ b.leaves o := by
  refine mem_leaves.2 ⟨Or.inr (Or.inl hn), ?_⟩
  intro ho
  obtain ⟨e, he, heo⟩ := mem_outs.1 ho
  exact H.inLeaf n hn e (order_sub b e he) heo

theorem inputs_contains_idx (H : LinkHyp b o d) {n : BNode} (hn : n ∈ b.nodeList o) :
    (b.compileGraph o).inputs.contains (b.idx o n) = true ↔ n ∈ b.inputs := by
  simp only [compileGraph_eq, List.contains_iff_mem, List.mem_map]
  constructor
  · rintro ⟨m, hm, hi⟩
    have hml : m ∈ b.nodeList o := mem_nodeList.2 (Or.inr (Or.inl hm))
    rw [← idx_inj hml hn hi]; exact hm
  · intro h; exact ⟨n, h, rfl⟩

theorem denEq_trans {a b c : Den} (h1 : DenEq a b) (h2 : DenEq b c) : DenEq a c :=
  ⟨h1.1.trans h2.1, h1.2.trans h2.2⟩

/-- **The link**: the node of the compiled graph that stands for `n` denotes what the term `n` computes denotes. -/
theorem link (H : LinkHyp b o d) {n : BNode} {t : BTerm} (hd : BDen b n t) :
    t.NoMissing → n ∈ b.nodeList o → (b.compileGraph o).init (b.idx o n) ≠ 0 →
    DenEq (den (b.compileGraph o) d (b.idx o n)) (t.den d) := by
  have ht := topo_of_base _ H.base
  induction hd with
  | @input n hi =>
    intro _ hn hr
    have hleaf := input_is_leaf H hi
    have hnode := node_of_leaf hleaf
    have hnd := getElem?_node hnode
    have hu : (b.compileGraph o).usedInputs.contains (b.idx o n) = true := by
      rw [usedInputs_contains, (inputs_contains_idx H hn).2 hi]
      simpa using hr
    rw [den_eq _ d _ _ hnode]
    simp only [denNode, hu, if_true, mkLeaf, BTerm.den]
    cases d.env n.name <;> exact ⟨rfl, rfl⟩
  | @missing n _ _ => intro h; exact absurd h (by simp [BTerm.NoMissing])
  | @ident n p t e hni he ho hk hi _ ih =>
    intro hnm hn hr
    have heo := H.peeled e he
    have hnode := node_of_edge' (o := o) H.single heo
    rw [ho] at hnode
    have hnd := getElem?_node hnode
    have hedge : ((b.compileGraph o).node (b.idx o n)).edge = some .identity := by rw [hnd, Bag.mkEdge, hk]
    have hpar : (b.compileGraph o).parents (b.idx o n) = [b.idx o p] := by
      simp only [Graph.parents, hnd, Bag.mkEdge, hi, List.map_cons, List.map_nil]
    obtain ⟨hh, hv⟩ := den_inner _ d H.base (b.idx o n) .identity hedge
    rw [hpar] at hh hv
    simp only [List.length_singleton] at hh hv
    rw [interp_identity_hash] at hh
    rw [interp_identity_val] at hv
    have hpl : p ∈ b.nodeList o := mem_nodeList.2 (Or.inl (mem_edgeNodes_in he (by rw [hi]; simp)))
    have hnin : (b.compileGraph o).inputs.contains (b.idx o n) = false := by
      cases hc : (b.compileGraph o).inputs.contains (b.idx o n) with
      | false => rfl
      | true => exact absurd ((inputs_contains_idx H hn).1 hc) hni
    have hrp : (b.compileGraph o).init (b.idx o p) ≠ 0 :=
      init_parent _ ht _ _ hr hnin (by rw [hpar]; simp)
    have hself : DenEq (den (b.compileGraph o) d (b.idx o n)) (den (b.compileGraph o) d (b.idx o p)) := by
      constructor
      · rw [hh]
        simp only [ctxOf, hpar, List.getElem?_cons_zero]
        cases (den (b.compileGraph o) d (b.idx o p)).h <;> rfl
      · rw [hv]
        simp only [ctxOf, hpar, List.getElem?_cons_zero]
    exact denEq_trans hself (ih hnm hpl hrp)
  | @edge n ts e hni he ho hk hlen _ ih =>
    intro hnm hn hr
    have heo := H.peeled e he
    have hnode := node_of_edge' (o := o) H.single heo
    rw [ho] at hnode
    have hnd := getElem?_node hnode
    have hedge : ((b.compileGraph o).node (b.idx o n)).edge = some e.edge := by rw [hnd, Bag.mkEdge]
    have hpar : (b.compileGraph o).parents (b.idx o n) = e.ins.map (b.idx o) := by
      simp only [Graph.parents, hnd, Bag.mkEdge]
    obtain ⟨hh, hv⟩ := den_inner _ d H.base (b.idx o n) e.edge hedge
    have hnin : (b.compileGraph o).inputs.contains (b.idx o n) = false := by
      cases hc : (b.compileGraph o).inputs.contains (b.idx o n) with
      | false => rfl
      | true => exact absurd ((inputs_contains_idx H hn).1 hc) hni
    have hnml : BTerm.NoMissingL ts := by simpa [BTerm.NoMissing] using hnm
    -- the parents denote what the argument terms denote
    have hpj : ∀ (j : Nat) (p : BNode) (tj : BTerm), e.ins[j]? = some p → ts[j]? = some tj →
        DenEq (den (b.compileGraph o) d (b.idx o p)) (tj.den d) := by
      intro j p tj hp htj
      have hz : (p, tj) ∈ e.ins.zip ts := by
        have : (e.ins.zip ts)[j]? = some (p, tj) := by simp [List.getElem?_zip_eq_some, hp, htj]
        exact List.mem_of_getElem? this
      have hpm : p ∈ e.ins := List.mem_of_getElem? hp
      exact ih (p, tj) hz (noMissingL_mem hnml tj (List.mem_of_getElem? htj))
        (mem_nodeList.2 (Or.inl (mem_edgeNodes_in he hpm)))
        (init_parent _ ht _ _ hr hnin (by rw [hpar]; exact List.mem_map.2 ⟨p, hpm, rfl⟩))
    have hlen' : (e.ins.map (b.idx o)).length = ts.length := by simp [hlen]
    have hph : ∀ j, (ctxOf (b.compileGraph o) d (b.idx o n)).ph j =
        (match (BTerm.denList d ts)[j]? with | some x => x.h.map (·.1) | none => .error .internal) := by
      intro j
      simp only [ctxOf, hpar, List.getElem?_map, denList_getElem?]
      cases hp : e.ins[j]? with
      | none =>
        have : ts[j]? = none := by
          rw [List.getElem?_eq_none_iff] at hp ⊢; omega
        simp [this]
      | some p =>
        have hjl : j < e.ins.length := (List.getElem?_eq_some_iff.1 hp).1
        have : ∃ tj, ts[j]? = some tj := ⟨ts[j]'(by omega), List.getElem?_eq_getElem _⟩
        obtain ⟨tj, htj⟩ := this
        simp only [htj, Option.map_some]
        exact (hpj j p tj hp htj).1
    have hpv : ∀ j, (ctxOf (b.compileGraph o) d (b.idx o n)).pv j =
        (match (BTerm.denList d ts)[j]? with | some x => x.v | none => .error .internal) := by
      intro j
      simp only [ctxOf, hpar, List.getElem?_map, denList_getElem?]
      cases hp : e.ins[j]? with
      | none =>
        have : ts[j]? = none := by
          rw [List.getElem?_eq_none_iff] at hp ⊢; omega
        simp [this]
      | some p =>
        have hjl : j < e.ins.length := (List.getElem?_eq_some_iff.1 hp).1
        have : ∃ tj, ts[j]? = some tj := ⟨ts[j]'(by omega), List.getElem?_eq_getElem _⟩
        obtain ⟨tj, htj⟩ := this
        simp only [htj, Option.map_some]
        exact (hpj j p tj hp htj).2
    have hcall : (ctxOf (b.compileGraph o) d (b.idx o n)).call = d.call 0 := call_pure_idx d H.pure _ _
    -- the two contexts coincide
    have hc0 : ({ ctxOf (b.compileGraph o) d (b.idx o n) with cur := .error .internal } : Ctx) =
        { ph := fun j => match (BTerm.denList d ts)[j]? with | some x => x.h.map (·.1) | none => .error .internal
          pv := fun j => match (BTerm.denList d ts)[j]? with | some x => x.v | none => .error .internal
          cur := .error .internal
          call := d.call 0 } := by
      have e1 : (ctxOf (b.compileGraph o) d (b.idx o n)).ph = _ := funext hph
      have e2 : (ctxOf (b.compileGraph o) d (b.idx o n)).pv = _ := funext hpv
      rw [Ctx.mk.injEq]
      exact ⟨e1, e2, rfl, hcall⟩
    have hhash : (den (b.compileGraph o) d (b.idx o n)).h = ((BTerm.node e.edge ts).den d).h := by
      rw [hh, hc0, hpar, hlen']
      simp only [BTerm.den]
      rfl
    refine ⟨by rw [hhash], ?_⟩
    rw [hv, hpar, hlen']
    have hc1 : ctxOf (b.compileGraph o) d (b.idx o n) =
        { ph := fun j => match (BTerm.denList d ts)[j]? with | some x => x.h.map (·.1) | none => .error .internal
          pv := fun j => match (BTerm.denList d ts)[j]? with | some x => x.v | none => .error .internal
          cur := ((BTerm.node e.edge ts).den d).h
          call := d.call 0 } := by
      have e1 : (ctxOf (b.compileGraph o) d (b.idx o n)).ph = _ := funext hph
      have e2 : (ctxOf (b.compileGraph o) d (b.idx o n)).pv = _ := funext hpv
      have e3 : (ctxOf (b.compileGraph o) d (b.idx o n)).cur = ((BTerm.node e.edge ts).den d).h := by
        simp only [ctxOf]; exact hhash
      have : ctxOf (b.compileGraph o) d (b.idx o n) =
          ⟨(ctxOf (b.compileGraph o) d (b.idx o n)).ph, (ctxOf (b.compileGraph o) d (b.idx o n)).pv,
           (ctxOf (b.compileGraph o) d (b.idx o n)).cur, (ctxOf (b.compileGraph o) d (b.idx o n)).call⟩ := rfl
      rw [this, e1, e2, e3, hcall]
    rw [hc1]
    simp only [BTerm.den]
    rfl

end
end CM
