/-
  CM.Proofs.BagChecks — what a successful normalize_bag has checked.
-/
import CM.Proofs.BagField
namespace CM

theorem hasDupStr_false {xs : List String} (h : hasDupStr xs = false) : xs.Nodup := by
  induction xs with
  | nil => exact List.nodup_nil
  | cons x xs ih =>
    simp only [hasDupStr, Bool.or_eq_false_iff] at h
    exact List.nodup_cons.2 ⟨by simpa using h.1, ih h.2⟩

theorem names_inj_of_nodup {ns : List BNode} (h : (names ns).Nodup) :
    ∀ n₁ ∈ ns, ∀ n₂ ∈ ns, n₁.name = n₂.name → n₁ = n₂ := by
  induction ns with
  | nil => intro _ h; cases h
  | cons m ms ih =>
    simp only [names, List.map_cons, List.nodup_cons, List.mem_map, not_exists, not_and] at h
    intro n₁ h₁ n₂ h₂ hn
    simp only [List.mem_cons] at h₁ h₂
    rcases h₁ with rfl | h₁ <;> rcases h₂ with rfl | h₂
    · rfl
    · exact absurd hn.symm (h.1 n₂ h₂)
    · exact absurd hn (h.1 n₁ h₁)
    · exact ih h.2 n₁ h₁ n₂ h₂ hn

theorem multipleIncoming_false {es : List BEdge} (h : multipleIncoming es = false) : SingleIncoming es := by
  induction es with
  | nil => intro _ h; cases h
  | cons e es ih =>
    simp only [multipleIncoming, Bool.or_eq_false_iff, List.any_eq_false, beq_iff_eq] at h
    intro e₁ h₁ e₂ h₂ ho
    simp only [List.mem_cons] at h₁ h₂
    rcases h₁ with rfl | h₁ <;> rcases h₂ with rfl | h₂
    · rfl
    · exact absurd ho.symm (h.1 e₂ h₂)
    · exact absurd ho (h.1 e₁ h₁)
    · exact ih h.2 e₁ h₁ e₂ h₂ ho

theorem multipleIncoming_nodup {es : List BEdge} (h : multipleIncoming es = false) : OutsNodup es := by
  induction es with
  | nil => exact List.nodup_nil
  | cons e es ih =>
    simp only [multipleIncoming, Bool.or_eq_false_iff, List.any_eq_false, beq_iff_eq] at h
    simp only [OutsNodup, List.map_cons, List.nodup_cons, List.mem_map, not_exists, not_and]
    exact ⟨fun x hx => h.1 x hx, ih h.2⟩

theorem isLeafIn_true {es : List BEdge} {n : BNode} (h : isLeafIn es n = true) : ∀ e ∈ es, e.out ≠ n := by
  simp only [isLeafIn, incoming, Option.isNone_iff_eq_none, List.find?_eq_none, beq_iff_eq] at h
  exact h

/-- what a successful `normalize_bag` has checked -/
structure Checked (r : RawBag) (b : Bag) : Prop where
  inDup : (names r.inputs).Nodup
  outDup : (names r.outputs).Nodup
  rule2a : ∀ n ∈ r.outputs, r.virt.mem n.name = false
  single : SingleIncoming b.edges
  outs : OutsNodup b.edges
  leaves : ∀ n ∈ r.inputs, ∀ e ∈ b.edges, e.out ≠ n

theorem checks_ok {r : RawBag} {b : Bag} (h : r.checks b = .ok ()) : Checked r b := by
  simp only [RawBag.checks, checkDups, bind, Except.bind, pure, Except.pure] at h
  split at h <;> try (simp at h)
  rename_i h1
  split at h1 <;> try (simp at h1)
  rename_i hin
  split at h <;> try (simp at h)
  rename_i h2
  split at h2 <;> try (simp at h2)
  rename_i hout
  split at h <;> try (simp at h)
  rename_i h2a
  split at h <;> try (simp at h)
  rename_i hmi
  split at h <;> try (simp at h)
  rename_i hac
  split at h <;> try (simp at h)
  rename_i hkey
  split at h <;> try (simp at h)
  rename_i hleaf
  exact {
    inDup := hasDupStr_false (by simpa using hin)
    outDup := hasDupStr_false (by simpa using hout)
    rule2a := by
      intro n hn
      have := h2a
      simp only [List.any_eq_true, not_exists, not_and, Bool.not_eq_true] at this
      exact this n.name (name_mem_names hn)
    single := multipleIncoming_false (by simpa using hmi)
    outs := multipleIncoming_nodup (by simpa using hmi)
    leaves := by
      intro n hn
      have := hleaf
      simp only [List.any_eq_true, not_exists, not_and, Bool.not_eq_true, Bool.not_eq_eq_eq_not, Bool.not_false] at this
      exact isLeafIn_true (by simpa using this n hn) }

theorem mkBag_ok {r : RawBag} {c : Bag} (h : mkBag r = .ok c) : c = r.core ∧ Checked r r.core := by
  simp only [mkBag, bind, Except.bind, pure, Except.pure] at h
  split at h
  · simp at h
  · rename_i hc
    injection h with h
    exact ⟨h.symm, checks_ok (by cases ‹Unit›; exact hc)⟩

end CM
