/-
  CM.Proofs.Big — a fuel-indexed big-step evaluator with the *same* memo tables, eviction calls and
  stuck points as the stack machine of CM.Model.VM, written as ordinary recursion instead of an explicit
  command stack.  `Sim.lean` shows the machine simulates it; the semantic theorems are proved about it.
-/
import CM.Model.Denote
namespace CM

inductive Task where
  /-- `ComputeHash` on node `n` -/
  | hash (n : Nat)
  /-- `Evaluate` on node `n` -/
  | value (n : Nat)
  /-- the generator of node `n`, already resumed: run it to completion -/
  | prog (n : Nat) (p : Prog)
  /-- a request yielded by the generator of node `n` -/
  | req (n : Nat) (r : Req)
  /-- the requests of an `Await` still to be served (last request first) and the answers so far -/
  | reqs (n : Nat) (rsRev : List Req) (acc : List Item)

inductive BRes where
  | ok (x : Item) (m : Mem)
  | raised (e : Err) (m : Mem)
  | fuel

def big (g : Graph) : Nat → Task → Mem → BRes
  | 0, _, _ => .fuel
  | f + 1, .hash n, m =>
    match m.hashes.memo n with
    | some x => .ok x m
    | none =>
      match (g.node n).edge with
      | none => .raised .internal m
      | some e =>
        match big g f (.prog n (e.hashProg (g.parents n).length)) m with
        | .ok x m' =>
          match m'.hashes.memo n with
          | some _ => .raised .internal m'
          | none =>
            match m'.hashes.set n x with
            | none => .raised .internal m'
            | some h => .ok x { m' with hashes := h }
        | r => r
  | f + 1, .value n, m =>
    match m.cache.memo n with
    | some v => .ok (.val v) m
    | none =>
      match (g.node n).edge with
      | none => .raised .internal m
      | some e =>
        match big g f (.prog n (e.evalProg (g.parents n).length)) m with
        | .ok (.val v) m' =>
          match m'.cache.memo n with
          | some _ => .raised .internal m'
          | none =>
            match m'.cache.set n v with
            | none => .raised .internal m'
            | some c => .ok (.val v) { m' with cache := c }
        | .ok _ m' => .raised .internal m'
        | r => r
  | f + 1, .prog n p, m =>
    match runEffs p m.world with
    | (.ret x, w) =>
      match evictAll (g.parents n) m.hashes m.cache with
      | none => .raised .internal { m with world := w }
      | some (h, c) => .ok x { hashes := h, cache := c, world := w }
    | (.raise e, w) => .raised e { m with world := w }
    | (.req r k, w) =>
      match big g f (.req n r) { m with world := w } with
      | .ok x m' => big g f (.prog n (k x)) m'
      | r => r
    | (.eff _ _, w) => .raised .internal { m with world := w }
  | f + 1, .req n r, m =>
    match r with
    | .parentHash i =>
      match (g.parents n)[i]? with
      | none => .raised .internal m
      | some p =>
        match big g f (.hash p) m with
        | .ok (.hout h _) m' => .ok (.hash h) m'
        | .ok _ m' => .raised .internal m'
        | r => r
    | .parentValue i =>
      match (g.parents n)[i]? with
      | none => .raised .internal m
      | some p => big g f (.value p) m
    | .currentHash =>
      match big g f (.hash n) m with
      | .ok (.hout h _) m' => .ok (.hash h) m'
      | .ok _ m' => .raised .internal m'
      | r => r
    | .payload =>
      match big g f (.hash n) m with
      | .ok (.hout _ p) m' => .ok (.val p) m'
      | .ok _ m' => .raised .internal m'
      | r => r
    | .await rs => big g f (.reqs n rs.reverse []) m
    | .call fn pos kwn kwv =>
      match m.world.call n fn pos kwn kwv with
      | (.ok v, w) => .ok (.val v) { m with world := w }
      | (.error e, w) => .raised e { m with world := w }
  | f + 1, .reqs n rsRev acc, m =>
    match rsRev with
    | [] => .ok (.tup acc) m
    | r :: rest =>
      match big g f (.req n r) m with
      | .ok x m' => big g f (.reqs n rest (x :: acc)) m'
      | r => r


/-! ### one-level unfoldings (the fuel of the recursive calls stays a variable) -/

theorem big_hash (g : Graph) (f n : Nat) (m : Mem) : big g (f + 1) (.hash n) m =
    match m.hashes.memo n with
    | some x => .ok x m
    | none =>
      match (g.node n).edge with
      | none => .raised .internal m
      | some e =>
        match big g f (.prog n (e.hashProg (g.parents n).length)) m with
        | .ok x m' =>
          match m'.hashes.memo n with
          | some _ => .raised .internal m'
          | none =>
            match m'.hashes.set n x with
            | none => .raised .internal m'
            | some h => .ok x { m' with hashes := h }
        | r => r := by
  simp only [big]

theorem big_value (g : Graph) (f n : Nat) (m : Mem) : big g (f + 1) (.value n) m =
    match m.cache.memo n with
    | some v => .ok (.val v) m
    | none =>
      match (g.node n).edge with
      | none => .raised .internal m
      | some e =>
        match big g f (.prog n (e.evalProg (g.parents n).length)) m with
        | .ok (.val v) m' =>
          match m'.cache.memo n with
          | some _ => .raised .internal m'
          | none =>
            match m'.cache.set n v with
            | none => .raised .internal m'
            | some c => .ok (.val v) { m' with cache := c }
        | .ok _ m' => .raised .internal m'
        | r => r := by
  simp only [big]

theorem big_prog (g : Graph) (f n : Nat) (p : Prog) (m : Mem) : big g (f + 1) (.prog n p) m =
    match runEffs p m.world with
    | (.ret x, w) =>
      match evictAll (g.parents n) m.hashes m.cache with
      | none => .raised .internal { m with world := w }
      | some (h, c) => .ok x { hashes := h, cache := c, world := w }
    | (.raise e, w) => .raised e { m with world := w }
    | (.req r k, w) =>
      match big g f (.req n r) { m with world := w } with
      | .ok x m' => big g f (.prog n (k x)) m'
      | r => r
    | (.eff _ _, w) => .raised .internal { m with world := w } := by
  simp only [big]

theorem big_req (g : Graph) (f n : Nat) (r : Req) (m : Mem) : big g (f + 1) (.req n r) m =
    match r with
    | .parentHash i =>
      match (g.parents n)[i]? with
      | none => .raised .internal m
      | some p =>
        match big g f (.hash p) m with
        | .ok (.hout h _) m' => .ok (.hash h) m'
        | .ok _ m' => .raised .internal m'
        | r => r
    | .parentValue i =>
      match (g.parents n)[i]? with
      | none => .raised .internal m
      | some p => big g f (.value p) m
    | .currentHash =>
      match big g f (.hash n) m with
      | .ok (.hout h _) m' => .ok (.hash h) m'
      | .ok _ m' => .raised .internal m'
      | r => r
    | .payload =>
      match big g f (.hash n) m with
      | .ok (.hout _ p) m' => .ok (.val p) m'
      | .ok _ m' => .raised .internal m'
      | r => r
    | .await rs => big g f (.reqs n rs.reverse []) m
    | .call fn pos kwn kwv =>
      match m.world.call n fn pos kwn kwv with
      | (.ok v, w) => .ok (.val v) { m with world := w }
      | (.error e, w) => .raised e { m with world := w } := by
  cases r <;> simp only [big]

theorem big_reqs (g : Graph) (f n : Nat) (rsRev : List Req) (acc : List Item) (m : Mem) :
    big g (f + 1) (.reqs n rsRev acc) m =
    match rsRev with
    | [] => .ok (.tup acc) m
    | r :: rest =>
      match big g f (.req n r) m with
      | .ok x m' => big g f (.reqs n rest (x :: acc)) m'
      | r => r := by
  cases rsRev <;> simp only [big]

end CM
