/-
  CM.Proofs.StoreLemmas — the in-memory cache table (`MemoryCache`: dict or `pylru.lrucache`).
-/
import CM.Model.VM
namespace CM

mutual
  theorem Val.beq_refl : ∀ v : Val, Val.beq v v = true
    | .none => rfl
    | .bool b => by simp [Val.beq]
    | .int i => by simp [Val.beq]
    | .str s => by simp [Val.beq]
    | .atom a => by simp [Val.beq]
    | .tup xs => by simp [Val.beq, Val.beqList_refl xs]
    | .dict ks vs => by simp [Val.beq, Val.beqList_refl ks, Val.beqList_refl vs]
    | .app f p k v => by simp [Val.beq, Val.beqList_refl p, Val.beqList_refl v]
    | .imp f c n p k v => by simp [Val.beq, Val.beqList_refl p, Val.beqList_refl v]
  theorem Val.beqList_refl : ∀ vs : List Val, Val.beqList vs vs = true
    | [] => rfl
    | v :: vs => by simp [Val.beqList, Val.beq_refl v, Val.beqList_refl vs]
end

theorem Val.eq_self (v : Val) : (v == v) = true := Val.beq_refl v

mutual
  theorem Val.pyEq_refl : ∀ v : Val, Val.pyEq v v = true
    | .none => by simp [Val.pyEq, Val.eq_self]
    | .bool b => by simp [Val.pyEq, Val.eq_self]
    | .int i => by simp [Val.pyEq, Val.eq_self]
    | .str s => by simp [Val.pyEq, Val.eq_self]
    | .atom a => by simp [Val.pyEq, Val.eq_self]
    | .tup xs => by simp [Val.pyEq, Val.pyEqList_refl xs]
    | .dict ks vs => by simp [Val.pyEq, Val.eq_self]
    | .app f p k v => by simp [Val.pyEq, Val.eq_self]
    | .imp f c n p k v => by simp [Val.pyEq, Val.eq_self]
  theorem Val.pyEqList_refl : ∀ vs : List Val, Val.pyEqList vs vs = true
    | [] => rfl
    | v :: vs => by simp [Val.pyEqList, Val.pyEq_refl v, Val.pyEqList_refl vs]
end

mutual
  theorem NHash.beq_refl : ∀ h : NHash, NHash.beq h h = true
    | .leaf v => by simp [NHash.beq, Val.eq_self]
    | .apply f a k => by simp [NHash.beq, NHash.beqList_refl a]
    | .graph h => by simp [NHash.beq, NHash.beq_refl h]
    | .custom m c => by simp [NHash.beq, NHash.beqList_refl c]
  theorem NHash.beqList_refl : ∀ hs : List NHash, NHash.beqList hs hs = true
    | [] => rfl
    | h :: hs => by simp [NHash.beqList, NHash.beq_refl h, NHash.beqList_refl hs]
end

mutual
  theorem hashKeyEq_refl : ∀ h : NHash, hashKeyEq h h = true
    | .leaf v => by simp [hashKeyEq, Val.pyEq_refl]
    | .apply f a k => by simp [hashKeyEq, hashKeyEq_goList_refl a]
    | .graph h => by simp [hashKeyEq, hashKeyEq_refl h]
    | .custom m c => by simp [hashKeyEq, hashKeyEq_goList_refl c]
  theorem hashKeyEq_goList_refl : ∀ hs : List NHash, hashKeyEq.goList hs hs = true
    | [] => rfl
    | h :: hs => by simp [hashKeyEq.goList, hashKeyEq_refl h, hashKeyEq_goList_refl hs]
end

theorem MemStore.keyEq_refl (s : MemStore) (k : NHash) : s.keyEq k k = true := by
  unfold MemStore.keyEq
  split
  · exact NHash.beq_refl k
  · exact hashKeyEq_refl k

end CM
