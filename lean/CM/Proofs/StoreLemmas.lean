/-
  CM.Proofs.StoreLemmas — the in-memory cache table (`MemoryCache`: dict or `pylru.lrucache`).
-/
import CM.Model.VM
namespace CM

mutual
  theorem Val.beq_refl : ∀ v : Val, Val.beq v v = true
    | .none => rfl
    | .bool b => by simp [Val.beq]
    | .int i => by simp [Val.beq]
    | .str s => by simp [Val.beq]
    | .atom a => by simp [Val.beq]
    | .tup xs => by simp [Val.beq, Val.beqList_refl xs]
    | .dict ks vs => by simp [Val.beq, Val.beqList_refl ks, Val.beqList_refl vs]
    | .app f p k v => by simp [Val.beq, Val.beqList_refl p, Val.beqList_refl v]
    | .imp f c n p k v => by simp [Val.beq, Val.beqList_refl p, Val.beqList_refl v]
  theorem Val.beqList_refl : ∀ vs : List Val, Val.beqList vs vs = true
    | [] => rfl
    | v :: vs => by simp [Val.beqList, Val.beq_refl v, Val.beqList_refl vs]
end

theorem Val.eq_self (v : Val) : (v == v) = true := Val.beq_refl v

mutual
  theorem Val.pyEq_refl : ∀ v : Val, Val.pyEq v v = true
    | .none => by simp [Val.pyEq, Val.eq_self]
    | .bool b => by simp [Val.pyEq, Val.eq_self]
    | .int i => by simp [Val.pyEq, Val.eq_self]
    | .str s => by simp [Val.pyEq, Val.eq_self]
    | .atom a => by simp [Val.pyEq, Val.eq_self]
    | .tup xs => by simp [Val.pyEq, Val.pyEqList_refl xs]
    | .dict ks vs => by simp [Val.pyEq, Val.eq_self]
    | .app f p k v => by simp [Val.pyEq, Val.pyEqList_refl p, Val.pyEqList_refl v]
    | .imp f c n p k v => by simp [Val.pyEq, Val.pyEqList_refl p, Val.pyEqList_refl v]
  theorem Val.pyEqList_refl : ∀ vs : List Val, Val.pyEqList vs vs = true
    | [] => rfl
    | v :: vs => by simp [Val.pyEqList, Val.pyEq_refl v, Val.pyEqList_refl vs]
end

mutual
  theorem NHash.beq_refl : ∀ h : NHash, NHash.beq h h = true
    | .leaf v => by simp [NHash.beq, Val.eq_self]
    | .apply f a k => by simp [NHash.beq, NHash.beqList_refl a]
    | .graph h => by simp [NHash.beq, NHash.beq_refl h]
    | .custom m c => by simp [NHash.beq, NHash.beqList_refl c]
  theorem NHash.beqList_refl : ∀ hs : List NHash, NHash.beqList hs hs = true
    | [] => rfl
    | h :: hs => by simp [NHash.beqList, NHash.beq_refl h, NHash.beqList_refl hs]
end

mutual
  theorem hashKeyEq_refl : ∀ h : NHash, hashKeyEq h h = true
    | .leaf v => by simp [hashKeyEq, Val.pyEq_refl]
    | .apply f a k => by simp [hashKeyEq, hashKeyEq_goList_refl a]
    | .graph h => by simp [hashKeyEq, hashKeyEq_refl h]
    | .custom m c => by simp [hashKeyEq, hashKeyEq_goList_refl c]
  theorem hashKeyEq_goList_refl : ∀ hs : List NHash, hashKeyEq.goList hs hs = true
    | [] => rfl
    | h :: hs => by simp [hashKeyEq.goList, hashKeyEq_refl h, hashKeyEq_goList_refl hs]
end

theorem MemStore.keyEq_refl (s : MemStore) (k : NHash) : s.keyEq k k = true := by
  unfold MemStore.keyEq
  split
  · exact NHash.beq_refl k
  · exact hashKeyEq_refl k

/-! ### the table is a lossy map -/

theorem MemStore.keyEq_of_find (s : MemStore) (key : NHash) (p : NHash × Val) (h : s.find? key = some p) :
    p ∈ s.table ∧ s.keyEq p.1 key = true := by
  unfold MemStore.find? at h
  exact ⟨List.mem_of_find?_eq_some h, by simpa using List.find?_some h⟩

/-- a hit returns the value of an entry whose key equals the requested one -/
theorem MemStore.get_hit (s : MemStore) (key : NHash) (v : Val) (h : (s.get key).1 = some v) :
    ∃ p ∈ s.table, p.2 = v ∧ s.keyEq p.1 key = true := by
  unfold MemStore.get at h
  cases hf : s.find? key with
  | none => simp [hf] at h
  | some p =>
    obtain ⟨k, v'⟩ := p
    obtain ⟨hm, hk⟩ := MemStore.keyEq_of_find s key _ hf
    simp only [hf] at h
    cases hs : s.size <;> simp only [hs] at h <;> (injection h with h; subst h; exact ⟨_, hm, rfl, hk⟩)

/-- `get` never invents entries, and keeps the kind of the store -/
theorem MemStore.get_sub (s : MemStore) (key : NHash) :
    (∀ p ∈ (s.get key).2.table, p ∈ s.table) ∧ (s.get key).2.exact = s.exact := by
  unfold MemStore.get
  cases hf : s.find? key with
  | none => exact ⟨fun p hp => hp, rfl⟩
  | some q =>
    obtain ⟨k, v⟩ := q
    cases hs : s.size with
    | none => exact ⟨fun p hp => hp, rfl⟩
    | some n =>
      refine ⟨fun p hp => ?_, rfl⟩
      simp only [List.mem_cons] at hp
      rcases hp with rfl | hp
      · exact (MemStore.keyEq_of_find s key _ hf).1
      · exact (List.mem_filter.mp hp).1

/-- every entry after `set key v` is an old entry or carries `v` under a key equal to `key` -/
theorem MemStore.set_sub (s : MemStore) (key : NHash) (v : Val) :
    (∀ p ∈ (s.set key v).table, p ∈ s.table ∨ (p.2 = v ∧ s.keyEq p.1 key = true)) ∧ (s.set key v).exact = s.exact := by
  unfold MemStore.set
  cases hs : s.size with
  | none =>
    cases hf : s.find? key with
    | none =>
      refine ⟨fun p hp => ?_, rfl⟩
      simp only [List.mem_append, List.mem_singleton] at hp
      rcases hp with hp | rfl
      · exact .inl hp
      · exact .inr ⟨rfl, s.keyEq_refl key⟩
    | some q =>
      obtain ⟨k, v0⟩ := q
      have hk := (MemStore.keyEq_of_find s key _ hf).2
      refine ⟨fun p hp => ?_, rfl⟩
      simp only [List.mem_map] at hp
      obtain ⟨q, hq, rfl⟩ := hp
      obtain ⟨k', v'⟩ := q
      simp only
      split
      · exact .inr ⟨rfl, hk⟩
      · exact .inl hq
  | some n =>
    cases hf : s.find? key with
    | none =>
      refine ⟨fun p hp => ?_, rfl⟩
      have := List.mem_of_mem_take hp
      simp only [List.mem_cons] at this
      rcases this with rfl | h
      · exact .inr ⟨rfl, s.keyEq_refl key⟩
      · exact .inl h
    | some q =>
      obtain ⟨k, v0⟩ := q
      have hk := (MemStore.keyEq_of_find s key _ hf).2
      refine ⟨fun p hp => ?_, rfl⟩
      simp only [List.mem_cons] at hp
      rcases hp with rfl | hp
      · exact .inr ⟨rfl, hk⟩
      · exact .inl (List.mem_filter.mp hp).1

end CM
