/-
  CM.Proofs.FactoryCtx — the context (`BagContext`) of a layer built from its class body.
-/
import CM.Proofs.FactoryChain
namespace CM

/-- `ReversibleContainer.__init__`: the context of the container is `BagContext(backward inputs, backward outputs, backward inherit)` -/
theorem reversible_ctx {inputs outputs : List BNode} {es : List BEdge} {backIn backOut : List BNode} {optNames : List String}
    {fwd back : NameSet} {persistent : List String} {next : Nat} {b : Bag}
    (h : reversible inputs outputs es backIn backOut optNames fwd back persistent next = .ok b) :
    b.ctx = .bag backIn backOut back := by
  unfold reversible at h
  split at h
  · cases h
  · split at h
    · cases h
    · split at h
      · cases h
      · split at h
        · cases h
        · rename_i b' hb'
          injection h with h
          subst h
          obtain ⟨rfl, _⟩ := mkBag_ok hb'
          rfl

/-- the context of a layer built from its class body: its backward inputs are the public arguments of its inverse fields, its backward
outputs the inverse fields -/
theorem factory_ctx {r : RawLayer} {b : Bag} (h : r.factory = .ok b) :
    ∃ back, b.ctx = .bag (nodesAt r.layout.biBase r.layout.backIn) (nodesAt r.layout.boBase r.layout.backOut) back := by
  unfold RawLayer.factory at h
  split at h
  · cases h
  · split at h
    · cases h
    · split at h
      · cases h
      · split at h
        · cases h
        · exact ⟨_, reversible_ctx h⟩

end CM
