/-
  CM.Proofs.GroupBag — the structure of the container `GroupBy` builds (CM.Model.GroupBag).
-/
import CM.Model.GroupBag
import CM.Proofs.CheckIds
namespace CM

/-- the structure of a successful `groupByBag` -/
theorem groupByBag_ok {prev b : Bag} (h : groupByBag prev = .ok b) :
    ∃ i keys, prev.inputs = [i] ∧ byName prev.outputs "ids" = some keys ∧ groupFields prev ≠ [] ∧
      b.inputs = [⟨prev.next, "id"⟩] ∧ (∀ e ∈ (groupByRaw prev keys).edges, e ∈ b.edges) ∧
      (∀ o ∈ (groupByRaw prev keys).outputs, o ∈ b.outputs) ∧ b.ctx = .no ∧ b.persistent = prev.persistent := by
  unfold groupByBag at h
  split at h
  · rename_i i keys hi hk
    split at h
    · cases h
    · rename_i hne
      refine ⟨i, keys, hi, hk, ?_, ?_⟩
      · intro h0; exact hne (by simp [h0])
      obtain ⟨hin, hed⟩ := mkBag_inputs_edges h
      obtain ⟨hcore, _⟩ := mkBag_ok h
      refine ⟨hin, hed, fun o ho => mkBag_outputs h o ho, ?_, ?_⟩
      · rw [hcore]; rfl
      · rw [hcore]; rfl
  · cases h

theorem group_out_mem (fields : List BNode) (n : Nat) (f : BNode) (hf : f ∈ fields) :
    ∃ i, i < fields.length ∧
      (⟨n + 3 + i, f.name⟩ : BNode) ∈ ((List.range fields.length).zip fields).map (fun (p : Nat × BNode) => ({ id := n + 3 + p.1, name := p.2.name } : BNode)) := by
  obtain ⟨i, hi, rfl⟩ := List.getElem_of_mem hf
  refine ⟨i, hi, List.mem_map.2 ⟨(i, fields[i]), ?_, rfl⟩⟩
  refine List.mem_iff_getElem.2 ⟨i, by simp [hi], ?_⟩
  simp

end CM
