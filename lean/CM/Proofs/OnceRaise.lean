/-
  CM.Proofs.OnceRaise — the at-most-once bound also holds in the memory a *raising* task leaves behind.
-/
import CM.Proofs.Once
namespace CM

theorem hb_vb_le_one (g : Graph) (ok : GraphOK g) (j : Nat) : g.hb j + g.vb j ≤ 1 := by
  unfold Graph.hb Graph.vb
  cases he : (g.node j).edge with
  | none => simp
  | some e => exact calls_le_one e (ok.wf j _ e (node_of_edge g j e he) he)

theorem cap_le_one (g : Graph) (hone : ∀ j, g.hb j + g.vb j ≤ 1) (G : Ghost) (j : Nat) : cap g G j ≤ 1 := by
  have := hone j
  unfold cap b2n
  generalize g.hb j = hb at *
  generalize g.vb j = vb at *
  cases G.dH j <;> cases G.dV j <;> simp <;> omega

theorem cap_pendH_le_one (g : Graph) (hone : ∀ j, g.hb j + g.vb j ≤ 1) (G : Ghost) (j c : Nat) (h : c ≤ cap g G j) : c + pendH g G j ≤ 1 := by
  have := hone j
  unfold cap pendH b2n at *
  generalize g.hb j = hb at *
  generalize g.vb j = vb at *
  cases hA : G.dH j <;> cases hB : G.dV j <;> simp [hA, hB] at h ⊢ <;> omega

theorem cap_pendVH_le_one (g : Graph) (hone : ∀ j, g.hb j + g.vb j ≤ 1) (G : Ghost) (j c : Nat) (h : c ≤ cap g G j) :
    c + (pendV g G j + pendH g G j) ≤ 1 := by
  have := hone j
  unfold cap pendH pendV b2n at *
  generalize g.hb j = hb at *
  generalize g.vb j = vb at *
  cases hA : G.dH j <;> cases hB : G.dV j <;> simp [hA, hB] at h ⊢ <;> omega

theorem pre_le_one (g : Graph) (hone : ∀ j, g.hb j + g.vb j ≤ 1) {m : Mem} {G : Ghost} {hp : Bool} {b B K : Nat} {t : Task}
    (hl : PreL g m G hp b B K t) (hK : K ≤ 1) : ∀ j, j ≤ t.node → calls m j ≤ 1 := by
  intro j hj
  by_cases h : j < t.node
  · exact Nat.le_trans (hl.inv j h) (cap_le_one g hone G j)
  · have : j = t.node := by omega
    subst this
    have := hl.bud
    omega

theorem post_le_one (g : Graph) (hone : ∀ j, g.hb j + g.vb j ≤ 1) {m m' : Mem} {G' : Ghost} {hp : Bool} {B K : Nat} {t : Task}
    (hl : PostL g m m' G' hp B K t) (hK : K ≤ 1) : ∀ j, j ≤ t.node → calls m' j ≤ 1 := by
  intro j hj
  by_cases h : j < t.node
  · exact Nat.le_trans (hl.inv j h) (cap_le_one g hone G' j)
  · have : j = t.node := by omega
    subst this
    have := hl.bud
    omega

/-- what a raising task leaves in the log -/
def OnceErr (m m' : Mem) (n : Nat) : Prop := (∀ j, j ≤ n → calls m' j ≤ 1) ∧ (∀ j, n < j → calls m' j = calls m j)

theorem OnceErr.same (g : Graph) (hone : ∀ j, g.hb j + g.vb j ≤ 1) {m : Mem} {G : Ghost} {hp : Bool} {b B K : Nat} {t : Task}
    (hl : PreL g m G hp b B K t) (hK : K ≤ 1) (m' : Mem) (hw : m'.world = m.world) : OnceErr m m' t.node := by
  have hc : ∀ j, calls m' j = calls m j := fun j => by simp only [calls, hw]
  exact ⟨fun j hj => by rw [hc j]; exact pre_le_one g hone hl hK j hj, fun j _ => hc j⟩

/-- from a parent `p < n` to the child `n` -/
theorem OnceErr.lift (g : Graph) (hone : ∀ j, g.hb j + g.vb j ≤ 1) {m m' : Mem} {G : Ghost} {hp : Bool} {b B K : Nat} {t : Task} {p : Nat}
    (hl : PreL g m G hp b B K t) (hK : K ≤ 1) (hlt : p < t.node) (h : OnceErr m m' p) : OnceErr m m' t.node := by
  refine ⟨fun j hj => ?_, fun j hj => h.2 j (by omega)⟩
  by_cases hjp : j ≤ p
  · exact h.1 j hjp
  · rw [h.2 j (by omega)]; exact pre_le_one g hone hl hK j hj

theorem big_raised_once (g : Graph) (ok : GraphOK g) : ∀ (f : Nat) (t : Task) (hp : Bool) (m : Mem) (G : Ghost) (e : Err) (m' : Mem)
    (b B K : Nat), CInv g m G none none → PreC g G hp t → PreL g m G hp b B K t → K ≤ 1 → big g f t m = .raised e m' →
    OnceErr m m' t.node := by
  have ht := topo_of_ok g ok
  have hone := hb_vb_le_one g ok
  intro f
  induction f with
  | zero => intro t hp m G e m' _ _ _ _ _ _ _ h; simp [big] at h
  | succ f ih =>
    intro t hp m G e m' b B K hi hpre hl hK hb
    cases t with
    | hash n =>
      rw [big_hash] at hb
      have hact : remaining g G n ≠ 0 := hpre
      cases hx : m.hashes.memo n with
      | some x0 => simp [hx] at hb
      | none =>
        simp only [hx] at hb
        cases he : (g.node n).edge with
        | none =>
          simp only [he] at hb
          injection hb with _ h2; subst h2
          exact OnceErr.same g hone hl hK _ rfl
        | some e0 =>
          simp only [he] at hb
          have hnode := node_of_edge g n e0 he
          have hwf := ok.wf n _ e0 hnode he
          have hnin : g.inputs.contains n = false := by
            cases hc : g.inputs.contains n with
            | false => rfl
            | true => exact absurd hx (hi.ih n hc hact)
          have hlive := live_of_active g ht G n hact hnin
          have hdH : G.dH n = false := by
            cases hd : G.dH n with
            | false => rfl
            | true => exact absurd hx (hi.mh n (by simp) hd hact)
          have hflag : G.flag true n = false := by simp [Ghost.flag, hdH]
          have hhb : g.hb n = e0.hashCalls := by simp [Graph.hb, he]
          have hpre1 : PreC g G true (.prog n (e0.hashProg (g.parents n).length)) :=
            ⟨⟨hact, hlive, hflag⟩, hashProg_noEff e0 _ hwf, fun _ => hashProg_noCur e0 _ hwf⟩
          have hl1 : PreL g m G true e0.hashCalls B K (.prog n (e0.hashProg (g.parents n).length)) :=
            ⟨hl.inv, by have := hl.bud; simp only [cost, Task.node, pendH_todo g G n hdH, hhb, pend] at this ⊢; simpa using this,
             hashProg_calls e0 _ hwf⟩
          cases hq : big g f (.prog n (e0.hashProg (g.parents n).length)) m with
          | fuel => simp [hq] at hb
          | raised e1 m1 =>
            simp only [hq] at hb
            injection hb with _ h2; subst h2
            exact ih (.prog n (e0.hashProg (g.parents n).length)) true m G e1 m1 _ B K hi hpre1 hl1 hK hq
          | ok x1 m1 =>
            simp only [hq] at hb
            obtain ⟨G1, _, pl1⟩ := big_inv g ok f _ true m G x1 m1 _ B K hi hpre1 hl1 hq
            have hres : OnceErr m m1 n := ⟨post_le_one g hone pl1 hK, pl1.frame⟩
            cases hy : m1.hashes.memo n with
            | some _ => simp only [hy] at hb; injection hb with _ h2; subst h2; exact hres
            | none =>
              simp only [hy] at hb
              cases hset : m1.hashes.set n x1 with
              | none => simp only [hset] at hb; injection hb with _ h2; subst h2; exact hres
              | some _ => simp [hset] at hb
    | value n =>
      rw [big_value] at hb
      have hact : remaining g G n ≠ 0 := hpre
      cases hx : m.cache.memo n with
      | some x0 => simp [hx] at hb
      | none =>
        simp only [hx] at hb
        cases he : (g.node n).edge with
        | none =>
          simp only [he] at hb
          injection hb with _ h2; subst h2
          exact OnceErr.same g hone hl hK _ rfl
        | some e0 =>
          simp only [he] at hb
          have hnode := node_of_edge g n e0 he
          have hwf := ok.wf n _ e0 hnode he
          have hnin : g.inputs.contains n = false := by
            cases hc : g.inputs.contains n with
            | false => rfl
            | true => exact absurd hx (hi.iv n hc hact)
          have hlive := live_of_active g ht G n hact hnin
          have hdV : G.dV n = false := by
            cases hd : G.dV n with
            | false => rfl
            | true => exact absurd hx (hi.mv n (by simp) hd hact)
          have hflag : G.flag false n = false := by simp [Ghost.flag, hdV]
          have hvb : g.vb n = e0.evalCalls := by simp [Graph.vb, he]
          have hpre1 : PreC g G false (.prog n (e0.evalProg (g.parents n).length)) :=
            ⟨⟨hact, hlive, hflag⟩, evalProg_noEff e0 _ hwf, fun h => by cases h⟩
          have hl1 : PreL g m G false e0.evalCalls B K (.prog n (e0.evalProg (g.parents n).length)) :=
            ⟨hl.inv, by have := hl.bud; simp only [cost, Task.node, pendV_todo g G n hdV, hvb, pend] at this ⊢; simp only [Bool.false_eq_true, ↓reduceIte]; omega,
             evalProg_calls e0 _ hwf⟩
          cases hq : big g f (.prog n (e0.evalProg (g.parents n).length)) m with
          | fuel => simp [hq] at hb
          | raised e1 m1 =>
            simp only [hq] at hb
            injection hb with _ h2; subst h2
            exact ih (.prog n (e0.evalProg (g.parents n).length)) false m G e1 m1 _ B K hi hpre1 hl1 hK hq
          | ok x1 m1 =>
            simp only [hq] at hb
            obtain ⟨G1, _, pl1⟩ := big_inv g ok f _ false m G x1 m1 _ B K hi hpre1 hl1 hq
            have hres : OnceErr m m1 n := ⟨post_le_one g hone pl1 hK, pl1.frame⟩
            cases x1 with
            | val v =>
              simp only at hb
              cases hy : m1.cache.memo n with
              | some _ => simp only [hy] at hb; injection hb with _ h2; subst h2; exact hres
              | none =>
                simp only [hy] at hb
                cases hset : m1.cache.set n v with
                | none => simp only [hset] at hb; injection hb with _ h2; subst h2; exact hres
                | some _ => simp [hset] at hb
            | hash _ | hout _ _ | node _ | tup _ =>
              simp only at hb
              injection hb with _ h2; subst h2; exact hres
    | prog n p =>
      rw [big_prog] at hb
      obtain ⟨hrun, hne, hnc⟩ := hpre
      rw [runEffs_noEff p m.world hne] at hb
      cases hne with
      | ret x0 =>
        simp only at hb
        cases hev : evictAll (g.parents n) m.hashes m.cache with
        | none => simp only [hev] at hb; injection hb with _ h2; subst h2; exact OnceErr.same g hone hl hK _ rfl
        | some hc => simp [hev] at hb
      | raise e0 =>
        simp only at hb
        injection hb with _ h2; subst h2
        exact OnceErr.same g hone hl hK _ rfl
      | req r k hk =>
        simp only at hb
        obtain ⟨hrb, hkb⟩ : r.ncalls ≤ b ∧ ∀ x, (k x).CallsLe (b - r.ncalls) := by
          have := hl.prog
          simp only [budOK] at this
          cases this with
          | req _ _ _ h1 h2 => exact ⟨h1, h2⟩
        have hnc' : hp = true → r.noCur = true ∧ ∀ x, (k x).NoCur := by
          intro h; cases hnc h with
          | req _ _ h1 h2 => exact ⟨h1, h2⟩
        have hpre1 : PreC g G hp (.req n r) := ⟨hrun, fun h => (hnc' h).1⟩
        have hl1 : PreL g m G hp 0 ((b - r.ncalls) + B) K (.req n r) :=
          ⟨hl.inv, by have := hl.bud; simp only [cost, Task.node] at this ⊢; omega, trivial⟩
        cases hq : big g f (.req n r) { m with world := m.world } with
        | fuel => simp [hq] at hb
        | raised e1 m1 =>
          simp only [hq] at hb
          injection hb with _ h2; subst h2
          exact ih (.req n r) hp _ G e1 m1 0 _ K hi hpre1 hl1 hK hq
        | ok y m1 =>
          simp only [hq] at hb
          obtain ⟨G1, ⟨hi1, fr1, kp1⟩, pl1⟩ := big_inv g ok f (.req n r) hp _ G y m1 0 _ K hi hpre1 hl1 hq
          have hrun1 := hrun.step ht fr1 kp1
          have hl2 : PreL g m1 G1 hp (b - r.ncalls) B K (.prog n (k y)) :=
            ⟨pl1.inv, by have := pl1.bud; simp only [rest, cost, Task.node] at this ⊢; omega, hkb y⟩
          have h2 := ih (.prog n (k y)) hp m1 G1 e m' _ B K hi1 ⟨hrun1, hk y, fun h => (hnc' h).2 y⟩ hl2 hK hb
          exact ⟨h2.1, fun j hj => (h2.2 j hj).trans (pl1.frame j hj)⟩
    | req n r =>
      rw [big_req] at hb
      obtain ⟨hrun, hnc⟩ := hpre
      cases r with
      | parentHash i =>
        simp only at hb
        cases hpi : (g.parents n)[i]? with
        | none =>
          simp only [hpi] at hb
          injection hb with _ h2; subst h2
          exact OnceErr.same g hone hl hK _ rfl
        | some p =>
          simp only [hpi] at hb
          have hmem : p ∈ g.parents n := List.mem_of_getElem? hpi
          have hlt : p < n := ht n p hmem
          have hpa := parent_active g ht G hp n p hrun hmem
          have hlp : PreL g m G hp 0 0 (calls m p + pendH g G p) (.hash p) :=
            ⟨fun j hj => hl.inv j (by simp only [Task.node] at hj ⊢; omega), by simp [cost, Task.node], trivial⟩
          have hKp : calls m p + pendH g G p ≤ 1 := cap_pendH_le_one g hone G p _ (hl.inv p hlt)
          cases hq : big g f (.hash p) m with
          | fuel => simp [hq] at hb
          | raised e1 m1 =>
            simp only [hq] at hb
            injection hb with _ h2; subst h2
            exact OnceErr.lift g hone hl hK hlt (ih (.hash p) hp m G e1 m1 0 0 _ hi hpa hlp hKp hq)
          | ok y m1 =>
            simp only [hq] at hb
            obtain ⟨G1, _, pl1⟩ := big_inv g ok f (.hash p) hp m G y m1 0 0 _ hi hpa hlp hq
            have hres : OnceErr m m1 p := ⟨post_le_one g hone pl1 hKp, pl1.frame⟩
            cases y with
            | hout h pl => simp at hb
            | val _ | hash _ | node _ | tup _ =>
              simp only at hb
              injection hb with _ h2; subst h2
              exact OnceErr.lift g hone hl hK hlt hres
      | parentValue i =>
        simp only at hb
        cases hpi : (g.parents n)[i]? with
        | none =>
          simp only [hpi] at hb
          injection hb with _ h2; subst h2
          exact OnceErr.same g hone hl hK _ rfl
        | some p =>
          simp only [hpi] at hb
          have hmem : p ∈ g.parents n := List.mem_of_getElem? hpi
          have hlt : p < n := ht n p hmem
          have hpa := parent_active g ht G hp n p hrun hmem
          have hlp : PreL g m G hp 0 0 (calls m p + (pendV g G p + pendH g G p)) (.value p) :=
            ⟨fun j hj => hl.inv j (by simp only [Task.node] at hj ⊢; omega), by simp [cost, Task.node], trivial⟩
          have hKp : calls m p + (pendV g G p + pendH g G p) ≤ 1 := cap_pendVH_le_one g hone G p _ (hl.inv p hlt)
          exact OnceErr.lift g hone hl hK hlt (ih (.value p) hp m G e m' 0 0 _ hi hpa hlp hKp hb)
      | currentHash =>
        simp only at hb
        have hpf : hp = false := by
          cases hp with
          | false => rfl
          | true => have := hnc rfl; simp [Req.noCur] at this
        subst hpf
        have hlp : PreL g m G false 0 B K (.hash n) :=
          ⟨hl.inv, by have := hl.bud; simpa [cost, Task.node, pend, Req.ncalls] using this, trivial⟩
        cases hq : big g f (.hash n) m with
        | fuel => simp [hq] at hb
        | raised e1 m1 =>
          simp only [hq] at hb
          injection hb with _ h2; subst h2
          exact ih (.hash n) false m G e1 m1 0 B K hi hrun.active hlp hK hq
        | ok y m1 =>
          simp only [hq] at hb
          obtain ⟨G1, _, pl1⟩ := big_inv g ok f (.hash n) false m G y m1 0 B K hi hrun.active hlp hq
          cases y with
          | hout h pl => simp at hb
          | val _ | hash _ | node _ | tup _ =>
            simp only at hb
            injection hb with _ h2; subst h2
            exact ⟨post_le_one g hone (t := .hash n) pl1 hK, pl1.frame⟩
      | payload =>
        simp only at hb
        have hpf : hp = false := by
          cases hp with
          | false => rfl
          | true => have := hnc rfl; simp [Req.noCur] at this
        subst hpf
        have hlp : PreL g m G false 0 B K (.hash n) :=
          ⟨hl.inv, by have := hl.bud; simpa [cost, Task.node, pend, Req.ncalls] using this, trivial⟩
        cases hq : big g f (.hash n) m with
        | fuel => simp [hq] at hb
        | raised e1 m1 =>
          simp only [hq] at hb
          injection hb with _ h2; subst h2
          exact ih (.hash n) false m G e1 m1 0 B K hi hrun.active hlp hK hq
        | ok y m1 =>
          simp only [hq] at hb
          obtain ⟨G1, _, pl1⟩ := big_inv g ok f (.hash n) false m G y m1 0 B K hi hrun.active hlp hq
          cases y with
          | hout h pl => simp at hb
          | val _ | hash _ | node _ | tup _ =>
            simp only at hb
            injection hb with _ h2; subst h2
            exact ⟨post_le_one g hone (t := .hash n) pl1 hK, pl1.frame⟩
      | await rs =>
        simp only at hb
        have hlp : PreL g m G hp 0 B K (.reqs n rs.reverse []) :=
          ⟨hl.inv, by have := hl.bud; simpa [cost, Task.node, Req.ncalls, ncallsList_reverse] using this, trivial⟩
        exact ih (.reqs n rs.reverse []) hp m G e m' 0 B K hi
          ⟨hrun, fun h => noCurList_reverse rs (by have := hnc h; simpa [Req.noCur] using this)⟩ hlp hK hb
      | call fn pos kwn kwv =>
        simp only at hb
        have hlog := call_log m.world n fn pos kwn kwv
        cases hc : m.world.call n fn pos kwn kwv with
        | mk rv w =>
          rw [hc] at hlog
          simp only [hc] at hb
          cases rv with
          | ok _ => simp at hb
          | error e1 =>
            simp only at hb
            injection hb with _ h2; subst h2
            have hcalls : ∀ j, calls { m with world := w } j = calls m j + (if n = j then 1 else 0) := by
              intro j
              simp only [calls]
              simp only at hlog
              rw [hlog, List.filter_cons]
              by_cases hnj : n = j
              · simp [hnj]
              · have : (n == j) = false := by simpa using hnj
                simp [hnj, this]
            refine ⟨fun j hj => ?_, fun j hj => ?_⟩
            · simp only [Task.node] at hj
              rw [hcalls j]
              by_cases hnj : n = j
              · subst hnj
                have := hl.bud
                simp only [cost, Task.node, Req.ncalls, ↓reduceIte] at this ⊢
                omega
              · rw [if_neg hnj]
                exact pre_le_one g hone hl hK j hj
            · simp only [Task.node] at hj
              rw [hcalls j, if_neg (by omega)]; rfl
    | reqs n rsRev acc =>
      rw [big_reqs] at hb
      obtain ⟨hrun, hnc⟩ := hpre
      cases rsRev with
      | nil => simp at hb
      | cons r rest' =>
        simp only at hb
        have hnc' : hp = true → r.noCur = true ∧ Req.noCurList rest' = true := by
          intro h; have := hnc h; simpa [Req.noCurList] using this
        have hpre1 : PreC g G hp (.req n r) := ⟨hrun, fun h => (hnc' h).1⟩
        have hl1 : PreL g m G hp 0 (Req.ncallsList rest' + B) K (.req n r) :=
          ⟨hl.inv, by have := hl.bud; simp only [cost, Task.node, Req.ncallsList] at this ⊢; omega, trivial⟩
        cases hq : big g f (.req n r) m with
        | fuel => simp [hq] at hb
        | raised e1 m1 =>
          simp only [hq] at hb
          injection hb with _ h2; subst h2
          exact ih (.req n r) hp m G e1 m1 0 _ K hi hpre1 hl1 hK hq
        | ok y m1 =>
          simp only [hq] at hb
          obtain ⟨G1, ⟨hi1, fr1, kp1⟩, pl1⟩ := big_inv g ok f (.req n r) hp m G y m1 0 _ K hi hpre1 hl1 hq
          have hrun1 := hrun.step ht fr1 kp1
          have hl2 : PreL g m1 G1 hp 0 B K (.reqs n rest' (y :: acc)) :=
            ⟨pl1.inv, by have := pl1.bud; simp only [rest, cost, Task.node] at this ⊢; omega, trivial⟩
          have h2 := ih (.reqs n rest' (y :: acc)) hp m1 G1 e m' 0 B K hi1 ⟨hrun1, fun h => (hnc' h).2⟩ hl2 hK hb
          exact ⟨h2.1, fun j hj => (h2.2 j hj).trans (pl1.frame j hj)⟩

end CM
