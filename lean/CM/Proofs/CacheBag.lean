/-
  CM.Proofs.CacheBag — the container of a cache layer (`CM.Model.Factory.cacheBag`, layers/cache.py
  `CacheToStorage._prepare_container`): it is well-formed and every cached name is a cache edge over the input of that name.
-/
import CM.Proofs.FactoryChain
namespace CM

theorem cacheRaw_edge_mem (s : Nat) (xs : List String) (e : BEdge) :
    e ∈ (cacheRaw s xs).edges ↔ ∃ i x, xs[i]? = some x ∧ e = { edge := .cache (s + i), ins := [⟨i, x⟩], out := ⟨xs.length + i, x⟩ } := by
  simp only [cacheRaw, List.mem_map, List.mem_zipIdx_iff_getElem?, Prod.exists]
  constructor
  · rintro ⟨x, i, hx, rfl⟩
    exact ⟨i, x, by simpa using hx, rfl⟩
  · rintro ⟨i, x, hx, rfl⟩
    exact ⟨x, i, by simpa using hx, rfl⟩

/-- **The container of a cache layer is well-formed** whenever `EdgesBag(...)` accepts it. -/
theorem cacheBag_wf {s : Nat} {names : NameSet} {prev : List String} {b : Bag} (h : cacheBag s names prev = .ok b) : b.WF := by
  refine mkBag_wf h ?_ (fun x hx => by simp [cacheRaw] at hx)
  intro n hn
  simp only [List.mem_append, mem_edgeNodes] at hn
  rcases hn with (hn | hn) | ⟨e, he, hne⟩
  · have := mem_nodesAt_lt hn; simp only [cacheRaw] at this ⊢; omega
  · have := mem_nodesAt_lt hn; simp only [cacheRaw] at this ⊢; omega
  · obtain ⟨i, x, hx, rfl⟩ := (cacheRaw_edge_mem s _ e).1 he
    have hi : i < (cachedNames names prev).length := (List.getElem?_eq_some_iff.1 hx).1
    simp only [cacheRaw]
    rcases hne with rfl | hne
    · simp only; omega
    · simp only [List.mem_singleton] at hne; subst hne; simp only; omega

/-- **Every cached name is a cache edge over the input of that name.** -/
theorem cacheBag_field {s : Nat} {names : NameSet} {prev : List String} {b : Bag} (h : cacheBag s names prev = .ok b)
    (x : String) (hx : x ∈ cachedNames names prev) : ∃ i, b.Field x (.node (.cache (s + i)) [.inp x]) := by
  obtain ⟨hin, hed⟩ := mkBag_inputs_edges h
  have hout := mkBag_outputs h
  obtain ⟨i, hi, hxi⟩ := List.getElem_of_mem hx
  have hget : (cachedNames names prev)[i]? = some x := by simp [hi, hxi]
  let inp : BNode := ⟨i, x⟩
  let out : BNode := ⟨(cachedNames names prev).length + i, x⟩
  have hinp : inp ∈ b.inputs := by
    rw [hin]; exact mem_nodesAt.2 ⟨i, hget, by simp [inp]⟩
  have hoo : out ∈ b.outputs := hout out (mem_nodesAt.2 ⟨i, hget, rfl⟩)
  have hedge : ({ edge := .cache (s + i), ins := [inp], out := out } : BEdge) ∈ b.edges :=
    hed _ ((cacheRaw_edge_mem s _ _).2 ⟨i, x, hget, rfl⟩)
  have hni : out ∉ b.inputs := by
    rw [hin]
    exact not_mem_nodesAt_of_le (by simp [out])
  refine ⟨i, out, hoo, rfl, ?_⟩
  refine .edge _ hni hedge rfl (by simp) (by simp) ?_
  intro q hq
  simp only [List.zip_cons_cons, List.zip_nil_right, List.mem_singleton] at hq
  subst hq
  exact .input hinp

end CM
