import CM.Proofs.BagDen
import CM.Proofs.BagLinkLemmas
namespace CM

/-- **A switch node (Merge) is its owner's branch**: if the key evaluates to `v` and the routing table sends `v` to branch `idx`,
the node hash is the node hash of that branch and the value its value; no other branch is asked for anything. -/
theorem switch_den (d : DenCfg) (table : List (Val × Nat)) (key : BTerm) (branches : List BTerm) (v : Val) (idx : Nat) (tb : BTerm)
    (hk : (key.den d).v = .ok v) (hl : tableLookup table v = some idx) (hb : branches[idx]? = some tb) :
    ((BTerm.node (.switch table) (key :: branches)).den d).h.map (·.1) = (tb.den d).h.map (·.1) ∧
    (∀ hh, (tb.den d).h = .ok hh → ((BTerm.node (.switch table) (key :: branches)).den d).v = (tb.den d).v) := by
  have hds0 : (BTerm.denList d (key :: branches))[0]? = some (key.den d) := by simp [BTerm.denList]
  have hdsi : (BTerm.denList d (key :: branches))[idx + 1]? = some (tb.den d) := by
    simp [BTerm.denList, denList_getElem?, hb]
  constructor
  · simp only [BTerm.den, EdgeK.hashProg, interp, interpReq, hds0, hk, Except.map, hl, hdsi]
    cases hh : (tb.den d).h with
    | error e => simp [Except.map, Except.bind]
    | ok p => obtain ⟨h, pl⟩ := p; simp [Except.map, Except.bind, interp, Item.asHout]
  · intro hh hok
    obtain ⟨h, pl⟩ := hh
    simp only [BTerm.den, EdgeK.hashProg, EdgeK.evalProg, interp, interpReq, hds0, hk, Except.map, hl, hdsi, hok, Except.bind,
      Item.asHout]
    simp only [Int.toNat_natCast, hdsi]
    cases hv : (tb.den d).v with
    | error e => simp [Except.map, Except.bind]
    | ok x => simp [Except.map, Except.bind, interp, Item.asVal]

/-- an id the routing table does not know is rejected (`ValueError`), whatever the branches are -/
theorem switch_unknown (d : DenCfg) (table : List (Val × Nat)) (key : BTerm) (branches : List BTerm) (v : Val)
    (hk : (key.den d).v = .ok v) (hl : tableLookup table v = none) :
    ((BTerm.node (.switch table) (key :: branches)).den d).h = .error .valueError ∧
    ((BTerm.node (.switch table) (key :: branches)).den d).v = .error .valueError := by
  have hds0 : (BTerm.denList d (key :: branches))[0]? = some (key.den d) := by simp [BTerm.denList]
  constructor
  · simp [BTerm.den, EdgeK.hashProg, interp, interpReq, hds0, hk, Except.map, hl, Except.bind]
  · simp [BTerm.den, EdgeK.hashProg, EdgeK.evalProg, interp, interpReq, hds0, hk, Except.map, hl, Except.bind]

end CM
