/-
  CM.Proofs.BagWfB — the executable well-formedness check is sound; example bags.
-/
import CM.Proofs.BagMain
namespace CM

theorem wfB_sound {b : Bag} (h : b.wfB = true) : b.WF := by
  simp only [Bag.wfB, Bool.and_eq_true, List.all_eq_true, decide_eq_true_eq, Bool.not_eq_true',
    List.contains_iff_mem] at h
  obtain ⟨⟨⟨⟨⟨⟨⟨h1, h2⟩, h3⟩, h4⟩, h5⟩, h6⟩, h7⟩, h8⟩ := h
  exact {
    ids := h1
    outs := multipleIncoming_nodup h2
    inLeaf := fun n hn => isLeafIn_true (h3 n hn)
    inNames := names_inj_of_nodup (hasDupStr_false h4)
    outNames := names_inj_of_nodup (hasDupStr_false h5)
    virtOut := h6
    virtIn := h7
    persOut := h8 }

/-! ### Non-vacuity: a Source-like bag `id, image(id)` with persistent `id`, connected with a Transform-like bag
`image(image, _p)` that inherits nothing -/

def exSource : Bag :=
  { inputs := [⟨0, "id"⟩], outputs := [⟨1, "id"⟩, ⟨2, "image"⟩],
    edges := [identityEdge ⟨0, "id"⟩ ⟨1, "id"⟩, { edge := .function "load" [] [], ins := [⟨0, "id"⟩], out := ⟨2, "image"⟩ }],
    virt := .empty, persistent := ["id"], optional := [], next := 3 }

def exTransform : Bag :=
  { inputs := [⟨0, "image"⟩], outputs := [⟨1, "image"⟩],
    edges := [{ edge := .function "zoom" [] [], ins := [⟨0, "image"⟩], out := ⟨1, "image"⟩ }],
    virt := .empty, persistent := [], optional := [], next := 2 }

example : exSource.wfB = true ∧ exTransform.wfB = true := by decide
example : (connectBags exSource exTransform).toOption.isSome = true := by decide +kernel
/-- the connected bag exposes `image` (redefined) and `id` (persistent, passed on) -/
example : ((connectBags exSource exTransform).toOption.map fun c => names c.outputs) = some ["image", "id"] := by
  decide +kernel

end CM
