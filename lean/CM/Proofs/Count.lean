/-
  CM.Proofs.Count — stage 2b of `vm_correct`: the eviction counters never run out.  A successful task of the
  big-step evaluator preserves the counter invariant of CM.Proofs.CountInv; the ghost flags only grow; nothing
  above the task's node is touched.  Consequently (CM.Proofs.NoStuck) none of the machine's internal failure points
  (`KeyError`/assert in `EvictionCache`, double `Store`, recomputation of a finished generator) is reachable.
-/
import CM.Proofs.CountInv
import CM.Proofs.Sound
namespace CM

/-! ### which inputs are used -/

theorem mem_insertByName (g : Graph) (x y : Nat) : ∀ l : List Nat, y ∈ insertByName g x l ↔ y = x ∨ y ∈ l
  | [] => by simp [insertByName]
  | z :: zs => by
    simp only [insertByName]
    split
    · simp
    · simp only [List.mem_cons, mem_insertByName g x y zs]
      constructor
      · rintro (h | h | h) <;> simp [h]
      · rintro (h | h | h) <;> simp [h]

theorem mem_foldl_insert (g : Graph) (y : Nat) : ∀ (l acc : List Nat),
    y ∈ l.foldl (fun acc x => insertByName g x acc) acc ↔ y ∈ l ∨ y ∈ acc
  | [], acc => by simp
  | x :: l, acc => by
    simp only [List.foldl_cons, mem_foldl_insert g y l, mem_insertByName, List.mem_cons]
    constructor
    · rintro (h | h | h) <;> simp [h]
    · rintro ((h | h) | h) <;> simp [h]

theorem mem_eraseDups_aux : ∀ (k : Nat) (l : List Nat), l.length ≤ k → ∀ a, a ∈ l.eraseDups ↔ a ∈ l
  | 0, l, h, a => by
    have : l = [] := List.eq_nil_of_length_eq_zero (by omega)
    subst this; simp
  | k + 1, [], _, a => by simp
  | k + 1, x :: l, h, a => by
    rw [List.eraseDups_cons]
    have hlen : (l.filter fun b => !b == x).length ≤ k := by
      have := List.length_filter_le (fun b => !b == x) l
      simp at h; omega
    simp only [List.mem_cons, mem_eraseDups_aux k _ hlen a, List.mem_filter]
    constructor
    · rintro (h | h)
      · exact Or.inl h
      · exact Or.inr h.1
    · rintro (h | h)
      · exact Or.inl h
      · by_cases hax : a = x
        · exact Or.inl hax
        · exact Or.inr ⟨h, by simpa using hax⟩

theorem usedInputs_contains (g : Graph) (n : Nat) :
    g.usedInputs.contains n = (g.inputs.contains n && g.init n != 0) := by
  rw [Bool.eq_iff_iff]
  simp only [Graph.usedInputs, List.contains_iff_mem, mem_foldl_insert, List.mem_filter,
    mem_eraseDups_aux _ _ (Nat.le_refl _), List.not_mem_nil, or_false, Bool.and_eq_true, Graph.init]

/-! ### the invariant -/

structure CInv (g : Graph) (m : Mem) (G : Ghost) (holeH holeV : Option Nat) : Prop where
  ch : ∀ p, m.hashes.counts p = toOpt (remaining g G p)
  cc : ∀ p, m.cache.counts p = toOpt (remaining g G p)
  mh : ∀ n, holeH ≠ some n → G.dH n = true → remaining g G n ≠ 0 → m.hashes.memo n ≠ none
  mv : ∀ n, holeV ≠ some n → G.dV n = true → remaining g G n ≠ 0 → m.cache.memo n ≠ none
  ih : ∀ n, g.inputs.contains n = true → remaining g G n ≠ 0 → m.hashes.memo n ≠ none
  iv : ∀ n, g.inputs.contains n = true → remaining g G n ≠ 0 → m.cache.memo n ≠ none

/-- nothing above node `n` changes -/
structure Frame (n : Nat) (m : Mem) (G : Ghost) (m' : Mem) (G' : Ghost) : Prop where
  dH : ∀ j, n < j → G'.dH j = G.dH j
  dV : ∀ j, n < j → G'.dV j = G.dV j
  mh : ∀ j, n < j → m'.hashes.memo j = m.hashes.memo j
  mv : ∀ j, n < j → m'.cache.memo j = m.cache.memo j

/-- the value side of node `n` does not change -/
structure KeepV (n : Nat) (m : Mem) (G : Ghost) (m' : Mem) (G' : Ghost) : Prop where
  d : G'.dV n = G.dV n
  m : m'.cache.memo n = m.cache.memo n

/-- the hash side of node `n` does not change -/
structure KeepH (n : Nat) (m : Mem) (G : Ghost) (m' : Mem) (G' : Ghost) : Prop where
  d : G'.dH n = G.dH n
  m : m'.hashes.memo n = m.hashes.memo n

theorem Frame.refl (n : Nat) (m : Mem) (G : Ghost) : Frame n m G m G := ⟨fun _ _ => rfl, fun _ _ => rfl, fun _ _ => rfl, fun _ _ => rfl⟩
theorem KeepV.refl (n : Nat) (m : Mem) (G : Ghost) : KeepV n m G m G := ⟨rfl, rfl⟩
theorem KeepH.refl (n : Nat) (m : Mem) (G : Ghost) : KeepH n m G m G := ⟨rfl, rfl⟩

theorem Frame.trans {n : Nat} {m m1 m2 : Mem} {G G1 G2 : Ghost} (a : Frame n m G m1 G1) (b : Frame n m1 G1 m2 G2) :
    Frame n m G m2 G2 :=
  ⟨fun j h => (b.dH j h).trans (a.dH j h), fun j h => (b.dV j h).trans (a.dV j h),
   fun j h => (b.mh j h).trans (a.mh j h), fun j h => (b.mv j h).trans (a.mv j h)⟩

theorem KeepV.trans {n : Nat} {m m1 m2 : Mem} {G G1 G2 : Ghost} (a : KeepV n m G m1 G1) (b : KeepV n m1 G1 m2 G2) :
    KeepV n m G m2 G2 := ⟨b.d.trans a.d, b.m.trans a.m⟩

theorem KeepH.trans {n : Nat} {m m1 m2 : Mem} {G G1 G2 : Ghost} (a : KeepH n m G m1 G1) (b : KeepH n m1 G1 m2 G2) :
    KeepH n m G m2 G2 := ⟨b.d.trans a.d, b.m.trans a.m⟩

theorem Frame.mono {p n : Nat} {m m' : Mem} {G G' : Ghost} (a : Frame p m G m' G') (h : p ≤ n) : Frame n m G m' G' :=
  ⟨fun j hj => a.dH j (by omega), fun j hj => a.dV j (by omega), fun j hj => a.mh j (by omega), fun j hj => a.mv j (by omega)⟩

theorem Frame.keepV {p n : Nat} {m m' : Mem} {G G' : Ghost} (a : Frame p m G m' G') (h : p < n) : KeepV n m G m' G' :=
  ⟨a.dV n h, a.mv n h⟩

theorem Frame.keepH {p n : Nat} {m m' : Mem} {G G' : Ghost} (a : Frame p m G m' G') (h : p < n) : KeepH n m G m' G' :=
  ⟨a.dH n h, a.mh n h⟩

/-- what the phase of node `n` that is running keeps fixed at `n`: its own flag and memo entry -/
def Keep (hp : Bool) (n : Nat) (m : Mem) (G : Ghost) (m' : Mem) (G' : Ghost) : Prop :=
  KeepV n m G m' G' ∧ (hp = true → KeepH n m G m' G')

theorem Keep.refl (hp : Bool) (n : Nat) (m : Mem) (G : Ghost) : Keep hp n m G m G := ⟨KeepV.refl .., fun _ => KeepH.refl ..⟩

theorem Keep.trans {hp : Bool} {n : Nat} {m m1 m2 : Mem} {G G1 G2 : Ghost} (a : Keep hp n m G m1 G1) (b : Keep hp n m1 G1 m2 G2) :
    Keep hp n m G m2 G2 := ⟨a.1.trans b.1, fun h => (a.2 h).trans (b.2 h)⟩

theorem Keep.flag {hp : Bool} {n : Nat} {m m' : Mem} {G G' : Ghost} (a : Keep hp n m G m' G') : G'.flag hp n = G.flag hp n := by
  cases hp
  · simp only [Ghost.flag, Bool.false_eq_true, ↓reduceIte]; exact a.1.d
  · simp only [Ghost.flag, ↓reduceIte]; exact (a.2 rfl).d

theorem Frame.keep {p n : Nat} {m m' : Mem} {G G' : Ghost} (a : Frame p m G m' G') (h : p < n) (hp : Bool) : Keep hp n m G m' G' :=
  ⟨a.keepV h, fun _ => a.keepH h⟩

/-- the running generator of node `n` (phase `hp`) has not completed, and `n` is still needed -/
structure Running (g : Graph) (G : Ghost) (hp : Bool) (n : Nat) : Prop where
  active : remaining g G n ≠ 0
  live : g.live n = true
  flag : G.flag hp n = false

theorem Running.step {g : Graph} (ht : g.Topo) {G G' : Ghost} {hp : Bool} {n : Nat} {m m' : Mem} (r : Running g G hp n)
    (fr : Frame n m G m' G') (k : Keep hp n m G m' G') : Running g G' hp n :=
  ⟨by rw [remaining_frame g ht G G' n fr.dH fr.dV n (Nat.le_refl n)]; exact r.active, r.live, by rw [k.flag]; exact r.flag⟩

def PreC (g : Graph) (G : Ghost) (hp : Bool) : Task → Prop
  | .hash n => remaining g G n ≠ 0
  | .value n => remaining g G n ≠ 0
  | .prog n p => Running g G hp n ∧ p.NoEff ∧ (hp = true → p.NoCur)
  | .req n r => Running g G hp n ∧ (hp = true → r.noCur = true)
  | .reqs n rs _ => Running g G hp n ∧ (hp = true → Req.noCurList rs = true)

def PostC (g : Graph) (hp : Bool) (m : Mem) (G : Ghost) (m' : Mem) (G' : Ghost) : Task → Prop
  | .hash n => CInv g m' G' none none ∧ Frame n m G m' G' ∧ KeepV n m G m' G'
  | .value n => CInv g m' G' none none ∧ Frame n m G m' G'
  | .prog n _ =>
      CInv g m' G' (if hp then some n else none) (if hp then none else some n) ∧ Frame n m G m' G' ∧
      G'.flag hp n = true ∧ (hp = true → KeepV n m G m' G') ∧
      (if hp then m'.hashes.memo n = m.hashes.memo n else m'.cache.memo n = m.cache.memo n) ∧
      remaining g G' n = remaining g G n
  | .req n _ => CInv g m' G' none none ∧ Frame n m G m' G' ∧ Keep hp n m G m' G'
  | .reqs n _ _ => CInv g m' G' none none ∧ Frame n m G m' G' ∧ Keep hp n m G m' G'

theorem topo_of_ok (g : Graph) (ok : GraphOK g) : g.Topo := by
  intro n p hp
  unfold Graph.parents Graph.node at hp
  rw [List.getD_eq_getElem?_getD] at hp
  cases hn : g.nodes[n]? with
  | none => simp [hn] at hp; cases hp
  | some nd => simp [hn] at hp; exact ok.topo n nd hn p hp

theorem noCurList_mem : ∀ (rs : List Req), Req.noCurList rs = true → ∀ r ∈ rs, r.noCur = true
  | [], _, r, hr => by cases hr
  | x :: xs, h, r, hr => by
    simp only [Req.noCurList, Bool.and_eq_true] at h
    cases hr with
    | head => exact h.1
    | tail _ hr => exact noCurList_mem xs h.2 r hr

theorem noCurList_of_mem : ∀ (rs : List Req), (∀ r ∈ rs, r.noCur = true) → Req.noCurList rs = true
  | [], _ => rfl
  | x :: xs, h => by
    simp only [Req.noCurList, Bool.and_eq_true]
    exact ⟨h x (List.mem_cons_self ..), noCurList_of_mem xs (fun r hr => h r (List.mem_cons_of_mem _ hr))⟩

theorem noCurList_reverse (rs : List Req) (h : Req.noCurList rs = true) : Req.noCurList rs.reverse = true :=
  noCurList_of_mem _ (fun r hr => noCurList_mem rs h r (List.mem_reverse.mp hr))

theorem sumTo_le {f f' : Nat → Nat} : ∀ (N : Nat), (∀ c, c < N → f c ≤ f' c) → sumTo N f ≤ sumTo N f'
  | 0, _ => Nat.le_refl _
  | N + 1, h => by
    simp only [sumTo]
    have := sumTo_le N (fun c hc => h c (by omega))
    have := h N (by omega)
    omega

theorem remaining_le_init (g : Graph) (ht : g.Topo) (G : Ghost) (p : Nat) : remaining g G p ≤ g.init p := by
  rw [← remaining_init g ht p]
  unfold remaining
  apply Nat.add_le_add_left
  apply sumTo_le
  intro c _
  apply Nat.mul_le_mul_left
  simp only [weight, Ghost.none, b2n]
  split
  · simp; omega
  · exact Nat.le_refl _

theorem live_of_active (g : Graph) (ht : g.Topo) (G : Ghost) (n : Nat) (h : remaining g G n ≠ 0)
    (hin : g.inputs.contains n = false) : g.live n = true := by
  have := remaining_le_init g ht G n
  simp only [Graph.live, pushes, hin, Bool.not_false, Bool.true_and, bne_iff_ne, ne_eq]
  omega

theorem parent_active (g : Graph) (ht : g.Topo) (G : Ghost) (hp : Bool) (n p : Nat) (r : Running g G hp n)
    (hmem : p ∈ g.parents n) : remaining g G p ≠ 0 := by
  have h1 : 1 ≤ occ g n p := List.count_pos_iff.mpr hmem
  have h2 := weight_pos g G hp n r.live r.flag
  have h3 := remaining_ge g ht G n p r.live
  have : 1 ≤ occ g n p * weight g G n := Nat.mul_le_mul h1 h2
  omega

theorem occ_le_remaining (g : Graph) (ht : g.Topo) (G : Ghost) (hp : Bool) (n p : Nat) (r : Running g G hp n) :
    (g.parents n).count p ≤ remaining g G p := by
  have h2 := weight_pos g G hp n r.live r.flag
  have h3 := remaining_ge g ht G n p r.live
  have : occ g n p * 1 ≤ occ g n p * weight g G n := Nat.mul_le_mul_left _ h2
  simp only [occ, Nat.mul_one] at *
  omega

theorem setFlag_flag (G : Ghost) (hp : Bool) (n : Nat) : (G.setFlag hp n).flag hp n = true := by
  cases hp <;> simp [Ghost.setFlag, Ghost.flag]

theorem setFlag_dH_of (G : Ghost) (hp : Bool) (n j : Nat) (h : (G.setFlag hp n).dH j = true) (hne : hp = true → j ≠ n) :
    G.dH j = true := by
  cases hp
  · simpa [Ghost.setFlag] using h
  · have := hne rfl
    simpa [Ghost.setFlag, this] using h

theorem setFlag_dV_of (G : Ghost) (hp : Bool) (n j : Nat) (h : (G.setFlag hp n).dV j = true) (hne : hp = false → j ≠ n) :
    G.dV j = true := by
  cases hp
  · have := hne rfl
    simpa [Ghost.setFlag, this] using h
  · simpa [Ghost.setFlag] using h

theorem setFlag_dH_ne (G : Ghost) (hp : Bool) (n j : Nat) (h : j ≠ n) : (G.setFlag hp n).dH j = G.dH j := by
  cases hp <;> simp [Ghost.setFlag, h]

theorem setFlag_dV_ne (G : Ghost) (hp : Bool) (n j : Nat) (h : j ≠ n) : (G.setFlag hp n).dV j = G.dV j := by
  cases hp <;> simp [Ghost.setFlag, h]

/-- the step in which a generator of `n` completes: evict every parent occurrence, set the ghost flag -/
theorem complete_step (g : Graph) (ht : g.Topo) (m : Mem) (G : Ghost) (hp : Bool) (n : Nat) (hi : CInv g m G none none)
    (r : Running g G hp n) :
    ∃ h' c', evictAll (g.parents n) m.hashes m.cache = some (h', c') ∧
      ∀ w, PostC g hp m G { hashes := h', cache := c', world := w } (G.setFlag hp n) (.prog n (.ret default)) := by
  obtain ⟨h', c', hev, ch', cc', mh', mc'⟩ := evictAll_spec (g.parents n) m.hashes m.cache (remaining g G) hi.ch hi.cc
    (fun p => occ_le_remaining g ht G hp n p r)
  refine ⟨h', c', hev, fun w => ?_⟩
  have hrem : ∀ p, remaining g G p - (g.parents n).count p = remaining g (G.setFlag hp n) p := by
    intro p
    have := remaining_setFlag g ht G hp n p r.live r.flag
    simp only [occ] at this
    omega
  have hkeep : ∀ j, remaining g (G.setFlag hp n) j ≠ 0 → (g.parents n).count j = 0 ∨ remaining g G j ≠ (g.parents n).count j := by
    intro j hj
    right
    have := remaining_setFlag g ht G hp n j r.live r.flag
    simp only [occ] at this
    omega
  have hge : ∀ j, remaining g (G.setFlag hp n) j ≠ 0 → remaining g G j ≠ 0 := by
    intro j hj
    have := remaining_setFlag g ht G hp n j r.live r.flag
    omega
  have hocc0 : ∀ j, n ≤ j → (g.parents n).count j = 0 := fun j hj => occ_eq_zero_of_le g ht n j hj
  refine ⟨⟨?_, ?_, ?_, ?_, ?_, ?_⟩, ⟨?_, ?_, ?_, ?_⟩, setFlag_flag G hp n, ?_, ?_, ?_⟩
  · intro p; rw [ch' p, hrem p]
  · intro p; rw [cc' p, hrem p]
  · intro j hhole hd hrj
    show h'.memo j ≠ none
    rw [mh' j (hkeep j hrj)]
    refine hi.mh j (by simp) (setFlag_dH_of G hp n j hd ?_) (hge j hrj)
    intro hpt; subst hpt
    intro hjn; subst hjn; simp at hhole
  · intro j hhole hd hrj
    show c'.memo j ≠ none
    rw [mc' j (hkeep j hrj)]
    refine hi.mv j (by simp) (setFlag_dV_of G hp n j hd ?_) (hge j hrj)
    intro hpt; subst hpt
    intro hjn; subst hjn; simp at hhole
  · intro j hin hrj
    show h'.memo j ≠ none
    rw [mh' j (hkeep j hrj)]
    exact hi.ih j hin (hge j hrj)
  · intro j hin hrj
    show c'.memo j ≠ none
    rw [mc' j (hkeep j hrj)]
    exact hi.iv j hin (hge j hrj)
  · intro j hj; exact setFlag_dH_ne G hp n j (by omega)
  · intro j hj; exact setFlag_dV_ne G hp n j (by omega)
  · intro j hj; exact mh' j (Or.inl (hocc0 j (by omega)))
  · intro j hj; exact mc' j (Or.inl (hocc0 j (by omega)))
  · intro hpt; subst hpt
    exact ⟨by simp [Ghost.setFlag], mc' n (Or.inl (hocc0 n (Nat.le_refl n)))⟩
  · cases hp
    · exact mc' n (Or.inl (hocc0 n (Nat.le_refl n)))
    · exact mh' n (Or.inl (hocc0 n (Nat.le_refl n)))
  · have := remaining_setFlag g ht G hp n n r.live r.flag
    rw [occ_eq_zero_of_le g ht n n (Nat.le_refl n)] at this
    exact this

theorem set_spec {α : Type} (s : Scratch α) (k : Nat) (v : α) (h : s.counts k ≠ none) :
    s.set k v = some { s with memo := upd s.memo k (some v) } := by
  unfold Scratch.set
  cases hc : s.counts k with
  | none => exact absurd hc h
  | some _ => rfl

/-- **The eviction counters never run out** (stage 2b): every successful task preserves the counter invariant. -/
theorem big_count (g : Graph) (ok : GraphOK g) : ∀ (f : Nat) (t : Task) (hp : Bool) (m : Mem) (G : Ghost) (x : Item) (m' : Mem),
    CInv g m G none none → PreC g G hp t → big g f t m = .ok x m' → ∃ G', PostC g hp m G m' G' t := by
  have ht := topo_of_ok g ok
  intro f
  induction f with
  | zero => intro t hp m G x m' _ _ h; simp [big] at h
  | succ f ih =>
    intro t hp m G x m' hi hpre hb
    cases t with
    | hash n =>
      rw [big_hash] at hb
      have hact : remaining g G n ≠ 0 := hpre
      cases hx : m.hashes.memo n with
      | some x0 =>
        simp only [hx] at hb; injection hb with h1 h2; subst h1; subst h2
        exact ⟨G, hi, Frame.refl .., KeepV.refl ..⟩
      | none =>
        simp only [hx] at hb
        cases he : (g.node n).edge with
        | none => simp [he] at hb
        | some e =>
          simp only [he] at hb
          have hnode := node_of_edge g n e he
          have hwf := ok.wf n _ e hnode he
          have hnin : g.inputs.contains n = false := by
            cases hc : g.inputs.contains n with
            | false => rfl
            | true => exact absurd hx (hi.ih n hc hact)
          have hlive := live_of_active g ht G n hact hnin
          have hflag : G.flag true n = false := by
            cases hd : G.dH n with
            | false => simp [Ghost.flag, hd]
            | true => exact absurd hx (hi.mh n (by simp) hd hact)
          cases hq : big g f (.prog n (e.hashProg (g.parents n).length)) m with
          | fuel => simp [hq] at hb
          | raised _ _ => simp [hq] at hb
          | ok x1 m1 =>
            simp only [hq] at hb
            obtain ⟨G1, hi1, fr1, hf1, kv1, hm1, hr1⟩ := ih (.prog n (e.hashProg (g.parents n).length)) true m G x1 m1 hi
              ⟨⟨hact, hlive, hflag⟩, hashProg_noEff e _ hwf, fun _ => hashProg_noCur e _ hwf⟩ hq
            simp only [↓reduceIte] at hi1 hm1
            rw [hx] at hm1
            simp only [hm1] at hb
            have hcnt : m1.hashes.counts n ≠ none := by
              rw [hi1.ch n, hr1]; intro h0; exact hact ((toOpt_eq_none _).mp h0)
            rw [set_spec m1.hashes n x1 hcnt] at hb
            simp only at hb
            injection hb with h1 h2; subst h1; subst h2
            refine ⟨G1, ⟨hi1.ch, hi1.cc, ?_, hi1.mv, ?_, hi1.iv⟩, ⟨fr1.dH, fr1.dV, ?_, fr1.mv⟩, ⟨(kv1 rfl).d, (kv1 rfl).m⟩⟩
            · intro j _ hd hrj
              show upd m1.hashes.memo n (some x1) j ≠ none
              simp only [upd]
              split
              · simp
              · next hjn => exact hi1.mh j (by simp; omega) hd hrj
            · intro j hin hrj
              show upd m1.hashes.memo n (some x1) j ≠ none
              simp only [upd]
              split
              · simp
              · exact hi1.ih j hin hrj
            · intro j hj
              show upd m1.hashes.memo n (some x1) j = _
              simp only [upd]
              rw [if_neg (by omega)]
              exact fr1.mh j hj
    | value n =>
      rw [big_value] at hb
      have hact : remaining g G n ≠ 0 := hpre
      cases hx : m.cache.memo n with
      | some v0 =>
        simp only [hx] at hb; injection hb with h1 h2; subst h1; subst h2
        exact ⟨G, hi, Frame.refl ..⟩
      | none =>
        simp only [hx] at hb
        cases he : (g.node n).edge with
        | none => simp [he] at hb
        | some e =>
          simp only [he] at hb
          have hnode := node_of_edge g n e he
          have hwf := ok.wf n _ e hnode he
          have hnin : g.inputs.contains n = false := by
            cases hc : g.inputs.contains n with
            | false => rfl
            | true => exact absurd hx (hi.iv n hc hact)
          have hlive := live_of_active g ht G n hact hnin
          have hflag : G.flag false n = false := by
            cases hd : G.dV n with
            | false => simp [Ghost.flag, hd]
            | true => exact absurd hx (hi.mv n (by simp) hd hact)
          cases hq : big g f (.prog n (e.evalProg (g.parents n).length)) m with
          | fuel => simp [hq] at hb
          | raised _ _ => simp [hq] at hb
          | ok x1 m1 =>
            simp only [hq] at hb
            obtain ⟨G1, hi1, fr1, hf1, _, hm1, hr1⟩ := ih (.prog n (e.evalProg (g.parents n).length)) false m G x1 m1 hi
              ⟨⟨hact, hlive, hflag⟩, evalProg_noEff e _ hwf, fun h => by cases h⟩ hq
            simp only [Bool.false_eq_true, ↓reduceIte] at hi1 hm1
            rw [hx] at hm1
            cases x1 with
            | val v =>
              simp only [hm1] at hb
              have hcnt : m1.cache.counts n ≠ none := by
                rw [hi1.cc n, hr1]; intro h0; exact hact ((toOpt_eq_none _).mp h0)
              rw [set_spec m1.cache n v hcnt] at hb
              simp only at hb
              injection hb with h1 h2; subst h1; subst h2
              refine ⟨G1, ⟨hi1.ch, hi1.cc, hi1.mh, ?_, hi1.ih, ?_⟩, ⟨fr1.dH, fr1.dV, fr1.mh, ?_⟩⟩
              · intro j _ hd hrj
                show upd m1.cache.memo n (some v) j ≠ none
                simp only [upd]
                split
                · simp
                · next hjn => exact hi1.mv j (by simp; omega) hd hrj
              · intro j hin hrj
                show upd m1.cache.memo n (some v) j ≠ none
                simp only [upd]
                split
                · simp
                · exact hi1.iv j hin hrj
              · intro j hj
                show upd m1.cache.memo n (some v) j = _
                simp only [upd]
                rw [if_neg (by omega)]
                exact fr1.mv j hj
            | hash _ | hout _ _ | node _ | tup _ => simp at hb
    | prog n p =>
      rw [big_prog] at hb
      obtain ⟨hrun, hne, hnc⟩ := hpre
      rw [runEffs_noEff p m.world hne] at hb
      cases hne with
      | ret x0 =>
        simp only at hb
        obtain ⟨h', c', hev, hpost⟩ := complete_step g ht m G hp n hi hrun
        simp only [hev] at hb
        injection hb with h1 h2; subst h1; subst h2
        exact ⟨G.setFlag hp n, hpost m.world⟩
      | raise e0 => simp at hb
      | req r k hk =>
        simp only at hb
        cases hq : big g f (.req n r) { m with world := m.world } with
        | fuel => simp [hq] at hb
        | raised _ _ => simp [hq] at hb
        | ok y m1 =>
          simp only [hq] at hb
          have hnc' : hp = true → r.noCur = true ∧ ∀ x, (k x).NoCur := by
            intro h; cases hnc h with
            | req _ _ h1 h2 => exact ⟨h1, h2⟩
          obtain ⟨G1, hi1, fr1, kp1⟩ := ih (.req n r) hp _ G y m1 hi ⟨hrun, fun h => (hnc' h).1⟩ hq
          have hrun1 := hrun.step ht fr1 kp1
          obtain ⟨G2, hi2, fr2, hf2, kv2, hm2, hr2⟩ := ih (.prog n (k y)) hp m1 G1 x m' hi1
            ⟨hrun1, hk y, fun h => (hnc' h).2 y⟩ hb
          refine ⟨G2, hi2, fr1.trans fr2, hf2, fun h => kp1.1.trans (kv2 h), ?_, ?_⟩
          · cases hp
            · simp only [Bool.false_eq_true, ↓reduceIte] at hm2 ⊢
              exact hm2.trans kp1.1.m
            · simp only [↓reduceIte] at hm2 ⊢
              exact hm2.trans (kp1.2 rfl).m
          · rw [hr2]; exact remaining_frame g ht G G1 n fr1.dH fr1.dV n (Nat.le_refl n)
    | req n r =>
      rw [big_req] at hb
      obtain ⟨hrun, hnc⟩ := hpre
      cases r with
      | parentHash i =>
        simp only at hb
        cases hpi : (g.parents n)[i]? with
        | none => simp [hpi] at hb
        | some p =>
          simp only [hpi] at hb
          have hmem : p ∈ g.parents n := List.mem_of_getElem? hpi
          have hlt : p < n := ht n p hmem
          cases hq : big g f (.hash p) m with
          | fuel => simp [hq] at hb
          | raised _ _ => simp [hq] at hb
          | ok y m1 =>
            simp only [hq] at hb
            obtain ⟨G1, hi1, fr1, _⟩ := ih (.hash p) hp m G y m1 hi (parent_active g ht G hp n p hrun hmem) hq
            cases y with
            | hout h pl =>
              simp only at hb
              injection hb with h1 h2; subst h1; subst h2
              exact ⟨G1, hi1, fr1.mono (by omega), fr1.keep hlt hp⟩
            | val _ | hash _ | node _ | tup _ => simp at hb
      | parentValue i =>
        simp only at hb
        cases hpi : (g.parents n)[i]? with
        | none => simp [hpi] at hb
        | some p =>
          simp only [hpi] at hb
          have hmem : p ∈ g.parents n := List.mem_of_getElem? hpi
          have hlt : p < n := ht n p hmem
          obtain ⟨G1, hi1, fr1⟩ := ih (.value p) hp m G x m' hi (parent_active g ht G hp n p hrun hmem) hb
          exact ⟨G1, hi1, fr1.mono (by omega), fr1.keep hlt hp⟩
      | currentHash =>
        simp only at hb
        have hpf : hp = false := by
          cases hp with
          | false => rfl
          | true => have := hnc rfl; simp [Req.noCur] at this
        subst hpf
        cases hq : big g f (.hash n) m with
        | fuel => simp [hq] at hb
        | raised _ _ => simp [hq] at hb
        | ok y m1 =>
          simp only [hq] at hb
          obtain ⟨G1, hi1, fr1, kv1⟩ := ih (.hash n) false m G y m1 hi hrun.active hq
          cases y with
          | hout h pl =>
            simp only at hb
            injection hb with h1 h2; subst h1; subst h2
            exact ⟨G1, hi1, fr1, kv1, fun h => by cases h⟩
          | val _ | hash _ | node _ | tup _ => simp at hb
      | payload =>
        simp only at hb
        have hpf : hp = false := by
          cases hp with
          | false => rfl
          | true => have := hnc rfl; simp [Req.noCur] at this
        subst hpf
        cases hq : big g f (.hash n) m with
        | fuel => simp [hq] at hb
        | raised _ _ => simp [hq] at hb
        | ok y m1 =>
          simp only [hq] at hb
          obtain ⟨G1, hi1, fr1, kv1⟩ := ih (.hash n) false m G y m1 hi hrun.active hq
          cases y with
          | hout h pl =>
            simp only at hb
            injection hb with h1 h2; subst h1; subst h2
            exact ⟨G1, hi1, fr1, kv1, fun h => by cases h⟩
          | val _ | hash _ | node _ | tup _ => simp at hb
      | await rs =>
        simp only at hb
        exact ih (.reqs n rs.reverse []) hp m G x m' hi
          ⟨hrun, fun h => noCurList_reverse rs (by have := hnc h; simpa [Req.noCur] using this)⟩ hb
      | call fn pos kwn kwv =>
        simp only at hb
        cases hc : m.world.call n fn pos kwn kwv with
        | mk rv w =>
          simp only [hc] at hb
          cases rv with
          | error _ => simp at hb
          | ok v =>
            simp only at hb
            injection hb with h1 h2; subst h1; subst h2
            exact ⟨G, ⟨hi.ch, hi.cc, hi.mh, hi.mv, hi.ih, hi.iv⟩, ⟨fun _ _ => rfl, fun _ _ => rfl, fun _ _ => rfl, fun _ _ => rfl⟩,
              ⟨rfl, rfl⟩, fun _ => ⟨rfl, rfl⟩⟩
    | reqs n rsRev acc =>
      rw [big_reqs] at hb
      obtain ⟨hrun, hnc⟩ := hpre
      cases rsRev with
      | nil =>
        simp only at hb
        injection hb with h1 h2; subst h1; subst h2
        exact ⟨G, hi, Frame.refl .., Keep.refl ..⟩
      | cons r rest =>
        simp only at hb
        have hnc' : hp = true → r.noCur = true ∧ Req.noCurList rest = true := by
          intro h; have := hnc h; simpa [Req.noCurList] using this
        cases hq : big g f (.req n r) m with
        | fuel => simp [hq] at hb
        | raised _ _ => simp [hq] at hb
        | ok y m1 =>
          simp only [hq] at hb
          obtain ⟨G1, hi1, fr1, kp1⟩ := ih (.req n r) hp m G y m1 hi ⟨hrun, fun h => (hnc' h).1⟩ hq
          have hrun1 := hrun.step ht fr1 kp1
          obtain ⟨G2, hi2, fr2, kp2⟩ := ih (.reqs n rest (y :: acc)) hp m1 G1 x m' hi1 ⟨hrun1, fun h => (hnc' h).2⟩ hb
          exact ⟨G2, hi2, fr1.trans fr2, kp1.trans kp2⟩

end CM
