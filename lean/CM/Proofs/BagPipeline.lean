/-
  CM.Proofs.BagPipeline — from a bag to the value its compiled field returns on the stack machine.
-/
import CM.Proofs.BagLink
import CM.Proofs.BagCompileOK
import CM.Props.C01
namespace CM

theorem peel_cover : ∀ (fuel : Nat) (es : List BEdge), ∀ e ∈ es, e ∈ (peel fuel es).1 ∨ e ∈ (peel fuel es).2
  | 0, es, e, he => by simp [peel, he]
  | fuel + 1, es, e, he => by
    simp only [peel]
    split
    · exact Or.inr he
    · by_cases hr : e ∈ readyEdges es
      · exact Or.inl (List.mem_append.2 (Or.inl hr))
      · have hnr : e ∈ notReady es := by
          simp only [readyEdges, notReady, List.mem_filter, he, true_and] at hr ⊢
          simpa using hr
        rcases peel_cover fuel (notReady es) e hnr with h | h
        · exact Or.inl (List.mem_append.2 (Or.inr h))
        · exact Or.inr h

/-- `detect_cycles` finds nothing ⇒ every edge is in the topological order -/
theorem peeled_of_acyclic {b : Bag} (h : acyclicB b.edges = true) : ∀ e ∈ b.edges, e ∈ b.order := by
  intro e he
  simp only [acyclicB, topoEdges, List.isEmpty_iff] at h
  rcases peel_cover b.edges.length b.edges e he with h1 | h1
  · exact h1
  · rw [h] at h1; cases h1

section
variable {b : Bag} {o : BNode} {d : DenCfg}

theorem output_idx : (b.compileGraph o).output = b.idx o o := rfl

/-- the compiled field denotes what its term denotes: value and node hash -/
theorem compiled_den (H : LinkHyp b o d) {t : BTerm} (hd : BDen b o t) (hnm : t.NoMissing) :
    vden (b.compileGraph o) d = (t.den d).v ∧ hden (b.compileGraph o) d = (t.den d).h.map (·.1) := by
  have ht := topo_of_base _ H.base
  have hol : o ∈ b.nodeList o := mem_nodeList.2 (Or.inr (Or.inr (Or.inl rfl)))
  have hinit : (b.compileGraph o).init (b.idx o o) ≠ 0 := by
    have := init_spec (b.compileGraph o) ht (b.idx o o)
    rw [output_idx] at this
    simp only [if_true] at this
    omega
  have := link H hd hnm hol hinit
  have hlt : (b.compileGraph o).output < (b.compileGraph o).nodes.length := by
    rw [output_idx, nodes_length]; exact idx_lt hol
  rw [vden_eq _ _ hlt, hden_eq _ _ hlt, output_idx]
  exact ⟨this.2, this.1⟩

end
end CM

namespace CM

/-- **From a bag to the value its compiled field returns.**  For a well-formed, acyclic bag all of whose edges are of the
simple kinds `vm_correct` covers (`EdgeK.wf`), with every used input bound, no scheduled failure and no impure function:
calling the compiled graph on the stack machine stops and returns exactly the value of the term the output node computes
(`BDen`), evaluated by the specification `CM.Model.Denote` - or raises exactly the error that evaluation gives. -/
theorem pipeline_value {b : Bag} {o : BNode} {t : BTerm} (hb : b.WF) (hac : acyclicB b.edges = true)
    (hwf : ∀ e ∈ b.edges, e.edge.wf = true) (env : String → Option Val) (w : World)
    (hc : CallOK (b.compileGraph o) env) (hf : w.failAt = []) (hp : w.impureFns = [])
    (hd : BDen b o t) (hnm : t.NoMissing) :
    ∃ N out steps, (∀ fuel, N ≤ fuel → (b.compileGraph o).call env w fuel = some (out, steps)) ∧
      match (t.den (denCfgOf env w)).v with
      | .ok v => ∃ s, out = .done (.val v) s
      | .error e => ∃ s, out = .raised e s := by
  have gok : GraphOK (b.compileGraph o) := compile_ok hb.outs hb.inLeaf hwf
  have H : LinkHyp b o (denCfgOf env w) :=
    { single := hb.single, inLeaf := hb.inLeaf, peeled := peeled_of_acyclic hac, base := gok.toGraphBase, pure := hp }
  have := C01.compiled_value_no_faults _ gok env w hc hf
  rw [(compiled_den H hd hnm).1] at this
  exact this

end CM
