/-
  CM.Proofs.CountLemmas — arithmetic behind the eviction counters: finite sums over node indices, and the
  characterisation of `count_entries` (CM.Model.VM `countsFrom`) on topologically ordered graphs:

      counts n = [n = output]·mult + Σ_{c ≤ output, c live} occ(c, n) · counts c

  where `occ(c, n)` is how often `n` occurs among the parents of `c` and a node is live when it is not a declared
  input and has a non-zero count (only such nodes push their count to their parents).
-/
import CM.Model.VM
namespace CM

/-! ### finite sums -/

def sumTo : Nat → (Nat → Nat) → Nat
  | 0, _ => 0
  | n + 1, f => sumTo n f + f n

theorem sumTo_congr {f f' : Nat → Nat} : ∀ (N : Nat), (∀ c, c < N → f c = f' c) → sumTo N f = sumTo N f'
  | 0, _ => rfl
  | N + 1, h => by
    simp only [sumTo]
    rw [sumTo_congr N (fun c hc => h c (by omega)), h N (by omega)]

theorem sumTo_ge_term {f : Nat → Nat} : ∀ (N n : Nat), n < N → f n ≤ sumTo N f
  | 0, _, h => by omega
  | N + 1, n, h => by
    simp only [sumTo]
    by_cases hn : n = N
    · subst hn; omega
    · have := sumTo_ge_term (f := f) N n (by omega); omega

/-- changing the summand at one index -/
theorem sumTo_update {f f' : Nat → Nat} (n : Nat) (hne : ∀ c, c ≠ n → f' c = f c) :
    ∀ N, n < N → sumTo N f' + f n = sumTo N f + f' n
  | 0, h => by omega
  | N + 1, h => by
    simp only [sumTo]
    by_cases hn : n = N
    · subst hn
      rw [sumTo_congr (f := f') (f' := f) n (fun c hc => hne c (by omega))]
      omega
    · have := sumTo_update n hne N (by omega)
      rw [hne N (by omega)]
      omega

theorem sumTo_zero {f : Nat → Nat} : ∀ (N : Nat), (∀ c, c < N → f c = 0) → sumTo N f = 0
  | 0, _ => rfl
  | N + 1, h => by
    simp only [sumTo]
    rw [sumTo_zero N (fun c hc => h c (by omega)), h N (by omega)]

theorem sumTo_add (f f' : Nat → Nat) : ∀ N, sumTo N (fun c => f c + f' c) = sumTo N f + sumTo N f'
  | 0 => rfl
  | N + 1 => by simp only [sumTo]; rw [sumTo_add f f' N]; omega

/-- extending the range by indices whose summand vanishes -/
theorem sumTo_extend {f : Nat → Nat} (N : Nat) : ∀ k, (∀ c, N ≤ c → c < N + k → f c = 0) → sumTo (N + k) f = sumTo N f
  | 0, _ => rfl
  | k + 1, h => by
    show sumTo (N + k) f + f (N + k) = sumTo N f
    rw [sumTo_extend N k (fun c h1 h2 => h c h1 (by omega)), h (N + k) (by omega) (by omega)]
    rfl

/-! ### `count_entries` -/

/-- how often `p` occurs among the parents of `c` -/
def occ (g : Graph) (c p : Nat) : Nat := (g.parents c).count p

theorem occ_pos_lt (g : Graph) (ht : g.Topo) (c p : Nat) (h : occ g c p ≠ 0) : p < c := by
  unfold occ at h
  exact ht c p (List.count_pos_iff.mp (Nat.pos_of_ne_zero h))

theorem occ_eq_zero_of_le (g : Graph) (ht : g.Topo) (c p : Nat) (h : c ≤ p) : occ g c p = 0 := by
  cases hz : occ g c p with
  | zero => rfl
  | succ k => have := occ_pos_lt g ht c p (by omega); omega

theorem foldl_push (amt : Nat) : ∀ (ps : List Nat) (c : Nat → Nat) (j : Nat),
    (ps.foldl (fun acc p => fun j => if j = p then acc j + amt else acc j) c) j = c j + ps.count j * amt
  | [], c, j => by simp
  | p :: ps, c, j => by
    simp only [List.foldl_cons]
    rw [foldl_push amt ps _ j, List.count_cons]
    by_cases hj : j = p
    · subst hj; simp [Nat.add_mul]; omega
    · have : (p == j) = false := by simp; omega
      simp [hj, this]

/-- one iteration of the loop of `count_entries`, at node `n` -/
def countStep (g : Graph) (n : Nat) (c : Nat → Nat) : Nat → Nat :=
  if g.inputs.contains n || c n = 0 then c
  else (g.parents n).foldl (fun acc p => fun j => if j = p then acc j + c n else acc j) c

theorem countsFrom_succ (g : Graph) (mult n : Nat) (c : Nat → Nat) :
    countsFrom g mult (n + 1) c = countsFrom g mult n (countStep g n c) := by
  simp only [countsFrom, countStep]

/-- whether node `n` pushes its count `x` to its parents -/
def pushes (g : Graph) (n x : Nat) : Bool := !g.inputs.contains n && x != 0

theorem countStep_apply (g : Graph) (n : Nat) (c : Nat → Nat) (j : Nat) :
    countStep g n c j = c j + (if pushes g n (c n) then occ g n j * c n else 0) := by
  unfold countStep pushes
  by_cases h1 : n ∈ g.inputs
  · simp [h1]
  · by_cases h2 : c n = 0
    · simp [h2]
    · simp [h1, h2, foldl_push, occ]

theorem countsFrom_ge (g : Graph) (mult : Nat) (ht : g.Topo) : ∀ (k : Nat) (c : Nat → Nat) (j : Nat), k ≤ j →
    countsFrom g mult k c j = c j
  | 0, c, j, _ => rfl
  | k + 1, c, j, h => by
    rw [countsFrom_succ, countsFrom_ge g mult ht k _ j (by omega), countStep_apply,
      occ_eq_zero_of_le g ht k j (by omega)]
    simp

/-- the loop invariant of `count_entries`, in closed form -/
theorem countsFrom_spec (g : Graph) (mult : Nat) (ht : g.Topo) : ∀ (k : Nat) (c : Nat → Nat) (j : Nat),
    countsFrom g mult k c j =
      c j + sumTo k (fun n => if pushes g n (countsFrom g mult k c n) then occ g n j * countsFrom g mult k c n else 0)
  | 0, c, j => by simp [countsFrom, sumTo]
  | k + 1, c, j => by
    have hk' : countStep g k c k = c k := by
      rw [countStep_apply, occ_eq_zero_of_le g ht k k (Nat.le_refl k)]; simp
    have hk : countsFrom g mult (k + 1) c k = c k := by
      rw [countsFrom_succ, countsFrom_ge g mult ht k _ k (Nat.le_refl k), hk']
    simp only [sumTo, hk]
    rw [countsFrom_succ, countsFrom_spec g mult ht k (countStep g k c) j, countStep_apply]
    omega

theorem countsFrom_dvd (g : Graph) (mult : Nat) : ∀ (k : Nat) (c : Nat → Nat), (∀ j, mult ∣ c j) →
    ∀ j, mult ∣ countsFrom g mult k c j
  | 0, c, h, j => h j
  | k + 1, c, h, j => by
    rw [countsFrom_succ]
    apply countsFrom_dvd g mult k
    intro j
    rw [countStep_apply]
    split
    · exact Nat.dvd_add (h j) (Nat.dvd_mul_left_of_dvd (h k) _)
    · simpa using h j

/-- `counts[n]` at the start of a call -/
def Graph.init (g : Graph) (n : Nat) : Nat := g.counts 2 n

/-- nodes that have generators to run and evict their parents: not a declared input, and reachable -/
def Graph.live (g : Graph) (n : Nat) : Bool := pushes g n (g.init n)

theorem init_spec (g : Graph) (ht : g.Topo) (j : Nat) :
    g.init j = (if j = g.output then 2 else 0) + sumTo (g.output + 1) (fun n => if g.live n then occ g n j * g.init n else 0) := by
  unfold Graph.init Graph.live Graph.counts
  exact countsFrom_spec g 2 ht (g.output + 1) _ j

theorem init_even (g : Graph) (j : Nat) : 2 ∣ g.init j := by
  unfold Graph.init Graph.counts
  apply countsFrom_dvd
  intro j
  split <;> simp

theorem init_ge_two (g : Graph) (j : Nat) (h : g.init j ≠ 0) : 2 ≤ g.init j := by
  obtain ⟨k, hk⟩ := init_even g j
  omega

theorem init_zero_of_gt (g : Graph) (ht : g.Topo) (j : Nat) (h : g.output < j) : g.init j = 0 := by
  unfold Graph.init Graph.counts
  rw [countsFrom_ge g 2 ht (g.output + 1) _ j (by omega)]
  simp; omega

end CM
