/-
  CM.Proofs.Raise — stage 2d of `vm_correct`: whatever the big-step evaluator *raises* is either an exception of a
  user function (fault injection in the world) or exactly the error of the cache-free denotation.  In particular
  the internal failure points of the machine (eviction of an absent key, `Store` on a present or uncounted key,
  an evicted input) are never the cause: the counter invariant (CM.Proofs.Count) excludes them.
-/
import CM.Proofs.Term
import CM.Proofs.WorldFrame
namespace CM

/-- what a raising task establishes about the denotation -/
def PostErr (g : Graph) (d : DenCfg) : Task → Err → Prop
  | .hash n, e => (den g d n).h = .error e
  | .value n, e => (den g d n).v = .error e
  | .prog n p, e => interp (ctxOf g d n) p = .error e
  | .req n r, e => interpReq (ctxOf g d n) r = .error e
  | .reqs n rsRev _, e => interpReqs (ctxOf g d n) rsRev.reverse = .error e

/-- a node without an edge that is not a used input denotes an internal error -/
theorem den_leaf (g : Graph) (d : DenCfg) (n : Nat) (he : (g.node n).edge = none) (hin : g.inputs.contains n = false) :
    den g d n = ⟨.error .internal, .error .internal⟩ := by
  cases hn : g.nodes[n]? with
  | none => exact den_absent g d n hn
  | some nd =>
    have hnd : g.node n = nd := by simp [Graph.node, List.getD_eq_getElem?_getD, hn]
    rw [den_eq g d n nd hn]
    have hu : g.usedInputs.contains n = false := by rw [usedInputs_contains, hin]; rfl
    rw [hnd] at he
    simp only [denNode, hu, Bool.false_eq_true, ↓reduceIte, he]

theorem world_call_err (w w' : World) (n : Nat) (f : String) (pos : List Val) (kwn : List String) (kwv : List Val) (e : Err)
    (h : w.call n f pos kwn kwv = (.error e, w')) : e = .user f ∧ w.failAt ≠ [] := by
  unfold World.call at h
  simp only at h
  split at h
  · next hc =>
    injection h with h1 _; injection h1 with h1
    refine ⟨h1.symm, ?_⟩
    intro h0; rw [h0] at hc; simp at hc
  · split at h
    · injection h with h1 _; cases h1
    · split at h <;> (injection h with h1 _; cases h1)

theorem big_raised (g : Graph) (d : DenCfg) (ok : GraphOK g) : ∀ (f : Nat) (t : Task) (hp : Bool) (m : Mem) (G : Ghost) (e : Err) (m' : Mem),
    MemSound g d m → CInv g m G none none → PreC g G hp t → big g f t m = .raised e m' →
    (∃ fn, e = .user fn ∧ m.world.failAt ≠ []) ∨ PostErr g d t e := by
  have ht := topo_of_ok g ok
  intro f
  induction f with
  | zero => intro t hp m G e m' _ _ _ h; simp [big] at h
  | succ f ih =>
    intro t hp m G e m' hs hi hpre hb
    cases t with
    | hash n =>
      rw [big_hash] at hb
      have hact : remaining g G n ≠ 0 := hpre
      cases hx : m.hashes.memo n with
      | some x0 => simp [hx] at hb
      | none =>
        simp only [hx] at hb
        have hnin : g.inputs.contains n = false := by
          cases hc : g.inputs.contains n with
          | false => rfl
          | true => exact absurd hx (hi.ih n hc hact)
        cases he : (g.node n).edge with
        | none =>
          simp only [he] at hb
          injection hb with h1 _; subst h1
          right
          simp only [PostErr, den_leaf g d n he hnin]
        | some e0 =>
          simp only [he] at hb
          have hnode := node_of_edge g n e0 he
          have hwf := ok.wf n _ e0 hnode he
          have hlive := live_of_active g ht G n hact hnin
          have hflag : G.flag true n = false := by
            cases hd : G.dH n with
            | false => simp [Ghost.flag, hd]
            | true => exact absurd hx (hi.mh n (by simp) hd hact)
          have hpre1 : PreC g G true (.prog n (e0.hashProg (g.parents n).length)) :=
            ⟨⟨hact, hlive, hflag⟩, hashProg_noEff e0 _ hwf, fun _ => hashProg_noCur e0 _ hwf⟩
          have hden := (den_inner g d ok.toGraphBase n e0 he).1
          rw [interp_noCur (ctxOf g d n) _ _ (hashProg_noCur e0 _ hwf)] at hden
          cases hq : big g f (.prog n (e0.hashProg (g.parents n).length)) m with
          | fuel => simp [hq] at hb
          | raised e1 m1 =>
            simp only [hq] at hb
            injection hb with h1 _; subst h1
            cases ih _ true m G e1 m1 hs hi hpre1 hq with
            | inl hu => exact Or.inl hu
            | inr hpe =>
              right
              simp only [PostErr] at hpe ⊢
              rw [hden, hpe]; rfl
          | ok x1 m1 =>
            simp only [hq] at hb
            obtain ⟨G1, hi1, fr1, hf1, kv1, hm1, hr1⟩ := big_count g ok f _ true m G x1 m1 hi hpre1 hq
            simp only [↓reduceIte] at hi1 hm1
            rw [hx] at hm1
            simp only [hm1] at hb
            have hcnt : m1.hashes.counts n ≠ none := by
              rw [hi1.ch n, hr1]; intro h0; exact hact ((toOpt_eq_none _).mp h0)
            rw [set_spec m1.hashes n x1 hcnt] at hb
            simp at hb
    | value n =>
      rw [big_value] at hb
      have hact : remaining g G n ≠ 0 := hpre
      cases hx : m.cache.memo n with
      | some x0 => simp [hx] at hb
      | none =>
        simp only [hx] at hb
        have hnin : g.inputs.contains n = false := by
          cases hc : g.inputs.contains n with
          | false => rfl
          | true => exact absurd hx (hi.iv n hc hact)
        cases he : (g.node n).edge with
        | none =>
          simp only [he] at hb
          injection hb with h1 _; subst h1
          right
          simp only [PostErr, den_leaf g d n he hnin]
        | some e0 =>
          simp only [he] at hb
          have hnode := node_of_edge g n e0 he
          have hwf := ok.wf n _ e0 hnode he
          have hlive := live_of_active g ht G n hact hnin
          have hflag : G.flag false n = false := by
            cases hd : G.dV n with
            | false => simp [Ghost.flag, hd]
            | true => exact absurd hx (hi.mv n (by simp) hd hact)
          have hpre1 : PreC g G false (.prog n (e0.evalProg (g.parents n).length)) :=
            ⟨⟨hact, hlive, hflag⟩, evalProg_noEff e0 _ hwf, fun h => by cases h⟩
          have hden := (den_inner g d ok.toGraphBase n e0 he).2
          cases hq : big g f (.prog n (e0.evalProg (g.parents n).length)) m with
          | fuel => simp [hq] at hb
          | raised e1 m1 =>
            simp only [hq] at hb
            injection hb with h1 _; subst h1
            cases ih _ false m G e1 m1 hs hi hpre1 hq with
            | inl hu => exact Or.inl hu
            | inr hpe =>
              right
              simp only [PostErr] at hpe ⊢
              rw [hden, hpe]; rfl
          | ok x1 m1 =>
            simp only [hq] at hb
            obtain ⟨G1, hi1, fr1, hf1, _, hm1, hr1⟩ := big_count g ok f _ false m G x1 m1 hi hpre1 hq
            obtain ⟨_, hint⟩ := big_sound g d ok f (.prog n (e0.evalProg (g.parents n).length)) m x1 m1 hs (evalProg_noEff e0 _ hwf) hq
            simp only [Post] at hint
            simp only [Bool.false_eq_true, ↓reduceIte] at hi1 hm1
            rw [hx] at hm1
            cases x1 with
            | val v =>
              simp only [hm1] at hb
              have hcnt : m1.cache.counts n ≠ none := by
                rw [hi1.cc n, hr1]; intro h0; exact hact ((toOpt_eq_none _).mp h0)
              rw [set_spec m1.cache n v hcnt] at hb
              simp at hb
            | hash _ | hout _ _ | node _ | tup _ =>
              simp only at hb
              injection hb with h1 _; subst h1
              right
              simp only [PostErr]
              rw [hden, hint]; rfl
    | prog n p =>
      rw [big_prog] at hb
      obtain ⟨hrun, hne, hnc⟩ := hpre
      rw [runEffs_noEff p m.world hne] at hb
      cases hne with
      | ret x0 =>
        simp only at hb
        obtain ⟨h', c', hev, _⟩ := complete_step g ht m G hp n hi hrun
        simp [hev] at hb
      | raise e0 =>
        simp only at hb
        injection hb with h1 _; subst h1
        exact Or.inr rfl
      | req r k hk =>
        simp only at hb
        have hnc' : hp = true → r.noCur = true ∧ ∀ x, (k x).NoCur := by
          intro h; cases hnc h with
          | req _ _ h1 h2 => exact ⟨h1, h2⟩
        have hpre1 : PreC g G hp (.req n r) := ⟨hrun, fun h => (hnc' h).1⟩
        cases hq : big g f (.req n r) { m with world := m.world } with
        | fuel => simp [hq] at hb
        | raised e1 m1 =>
          simp only [hq] at hb
          injection hb with h1 _; subst h1
          cases ih (.req n r) hp _ G e1 m1 hs hi hpre1 hq with
          | inl hu => exact Or.inl hu
          | inr hpe =>
            right
            simp only [PostErr] at hpe ⊢
            simp only [interp, hpe]
        | ok y m1 =>
          simp only [hq] at hb
          obtain ⟨G1, hi1, fr1, kp1⟩ := big_count g ok f (.req n r) hp _ G y m1 hi hpre1 hq
          obtain ⟨hs1, hr⟩ := big_sound g d ok f (.req n r) _ y m1 hs trivial hq
          have hrun1 := hrun.step ht fr1 kp1
          have hfx := big_fixed g f (.req n r) { m with world := m.world }
          rw [hq] at hfx
          have hfa : m1.world.failAt = m.world.failAt := congrArg (·.1) hfx
          cases ih (.prog n (k y)) hp m1 G1 e m' hs1 hi1 ⟨hrun1, hk y, fun h => (hnc' h).2 y⟩ hb with
          | inl hu => obtain ⟨fn, h1, h2⟩ := hu; exact Or.inl ⟨fn, h1, by rw [← hfa]; exact h2⟩
          | inr hpe =>
            right
            simp only [PostErr, Post] at hpe hr ⊢
            simp only [interp, hr, hpe]
    | req n r =>
      rw [big_req] at hb
      obtain ⟨hrun, hnc⟩ := hpre
      cases r with
      | parentHash i =>
        simp only at hb
        cases hpi : (g.parents n)[i]? with
        | none =>
          simp only [hpi] at hb
          injection hb with h1 _; subst h1
          right
          simp only [PostErr, interpReq, ctxOf, hpi]; rfl
        | some p =>
          simp only [hpi] at hb
          have hmem : p ∈ g.parents n := List.mem_of_getElem? hpi
          have hpa := parent_active g ht G hp n p hrun hmem
          cases hq : big g f (.hash p) m with
          | fuel => simp [hq] at hb
          | raised e1 m1 =>
            simp only [hq] at hb
            injection hb with h1 _; subst h1
            cases ih (.hash p) hp m G e1 m1 hs hi hpa hq with
            | inl hu => exact Or.inl hu
            | inr hpe =>
              right
              simp only [PostErr] at hpe ⊢
              simp only [interpReq, ctxOf, hpi, hpe]; rfl
          | ok y m1 =>
            simp only [hq] at hb
            obtain ⟨_, hpost⟩ := big_sound g d ok f (.hash p) m y m1 hs trivial hq
            simp only [Post] at hpost
            cases y with
            | hout h pl => simp at hb
            | val _ | hash _ | node _ | tup _ =>
              simp only at hb
              injection hb with h1 _; subst h1
              right
              simp only [PostErr, interpReq, ctxOf, hpi, hpost, Item.asHout]; rfl
      | parentValue i =>
        simp only at hb
        cases hpi : (g.parents n)[i]? with
        | none =>
          simp only [hpi] at hb
          injection hb with h1 _; subst h1
          right
          simp only [PostErr, interpReq, ctxOf, hpi]; rfl
        | some p =>
          simp only [hpi] at hb
          have hmem : p ∈ g.parents n := List.mem_of_getElem? hpi
          have hpa := parent_active g ht G hp n p hrun hmem
          cases ih (.value p) hp m G e m' hs hi hpa hb with
          | inl hu => exact Or.inl hu
          | inr hpe =>
            right
            simp only [PostErr] at hpe ⊢
            simp only [interpReq, ctxOf, hpi, hpe]; rfl
      | currentHash =>
        simp only at hb
        cases hq : big g f (.hash n) m with
        | fuel => simp [hq] at hb
        | raised e1 m1 =>
          simp only [hq] at hb
          injection hb with h1 _; subst h1
          cases ih (.hash n) hp m G e1 m1 hs hi hrun.active hq with
          | inl hu => exact Or.inl hu
          | inr hpe =>
            right
            simp only [PostErr] at hpe ⊢
            simp only [interpReq, ctxOf, hpe]; rfl
        | ok y m1 =>
          simp only [hq] at hb
          obtain ⟨_, hpost⟩ := big_sound g d ok f (.hash n) m y m1 hs trivial hq
          simp only [Post] at hpost
          cases y with
          | hout h pl => simp at hb
          | val _ | hash _ | node _ | tup _ =>
            simp only at hb
            injection hb with h1 _; subst h1
            right
            simp only [PostErr, interpReq, ctxOf, hpost, Item.asHout]; rfl
      | payload =>
        simp only at hb
        cases hq : big g f (.hash n) m with
        | fuel => simp [hq] at hb
        | raised e1 m1 =>
          simp only [hq] at hb
          injection hb with h1 _; subst h1
          cases ih (.hash n) hp m G e1 m1 hs hi hrun.active hq with
          | inl hu => exact Or.inl hu
          | inr hpe =>
            right
            simp only [PostErr] at hpe ⊢
            simp only [interpReq, ctxOf, hpe]; rfl
        | ok y m1 =>
          simp only [hq] at hb
          obtain ⟨_, hpost⟩ := big_sound g d ok f (.hash n) m y m1 hs trivial hq
          simp only [Post] at hpost
          cases y with
          | hout h pl => simp at hb
          | val _ | hash _ | node _ | tup _ =>
            simp only at hb
            injection hb with h1 _; subst h1
            right
            simp only [PostErr, interpReq, ctxOf, hpost, Item.asHout]; rfl
      | await rs =>
        simp only at hb
        cases ih (.reqs n rs.reverse []) hp m G e m' hs hi
          ⟨hrun, fun h => noCurList_reverse rs (by have := hnc h; simpa [Req.noCur] using this)⟩ hb with
        | inl hu => exact Or.inl hu
        | inr hpe =>
          right
          simp only [PostErr, List.reverse_reverse] at hpe ⊢
          simp only [interpReq, hpe]; rfl
      | call fn pos kwn kwv =>
        simp only at hb
        cases hc : m.world.call n fn pos kwn kwv with
        | mk rv w =>
          simp only [hc] at hb
          cases rv with
          | ok _ => simp at hb
          | error e1 =>
            simp only at hb
            injection hb with h1 _; subst h1
            exact Or.inl ⟨fn, world_call_err _ _ _ _ _ _ _ _ hc⟩
    | reqs n rsRev acc =>
      rw [big_reqs] at hb
      obtain ⟨hrun, hnc⟩ := hpre
      cases rsRev with
      | nil => simp at hb
      | cons r rest =>
        simp only at hb
        have hnc' : hp = true → r.noCur = true ∧ Req.noCurList rest = true := by
          intro h; have := hnc h; simpa [Req.noCurList] using this
        have hpre1 : PreC g G hp (.req n r) := ⟨hrun, fun h => (hnc' h).1⟩
        cases hq : big g f (.req n r) m with
        | fuel => simp [hq] at hb
        | raised e1 m1 =>
          simp only [hq] at hb
          injection hb with h1 _; subst h1
          cases ih (.req n r) hp m G e1 m1 hs hi hpre1 hq with
          | inl hu => exact Or.inl hu
          | inr hpe =>
            right
            simp only [PostErr] at hpe ⊢
            simp only [List.reverse_cons, interpReqs_snoc, hpe]
        | ok y m1 =>
          simp only [hq] at hb
          obtain ⟨G1, hi1, fr1, kp1⟩ := big_count g ok f (.req n r) hp m G y m1 hi hpre1 hq
          obtain ⟨hs1, hr⟩ := big_sound g d ok f (.req n r) m y m1 hs trivial hq
          have hrun1 := hrun.step ht fr1 kp1
          have hfx := big_fixed g f (.req n r) m
          rw [hq] at hfx
          have hfa : m1.world.failAt = m.world.failAt := congrArg (·.1) hfx
          cases ih (.reqs n rest (y :: acc)) hp m1 G1 e m' hs1 hi1 ⟨hrun1, fun h => (hnc' h).2⟩ hb with
          | inl hu => obtain ⟨fn, h1, h2⟩ := hu; exact Or.inl ⟨fn, h1, by rw [← hfa]; exact h2⟩
          | inr hpe =>
            right
            simp only [PostErr, Post] at hpe hr ⊢
            simp only [List.reverse_cons, interpReqs_snoc, hr, hpe]; rfl

end CM
