/-
  CM.Proofs.BagDen — what the specification of the VM (CM.Model.Denote) assigns to a term of the bag semantics.
-/
import CM.Proofs.BagWfB
import CM.Proofs.Correct
namespace CM

mutual
  /-- the denotation of a term: what the VM's specification (`CM.Model.Denote`) assigns to a node that computes it -/
  def BTerm.den (d : DenCfg) : BTerm → Den
    | .inp x =>
      match d.env x with
      | some v => { h := .ok (.leaf v, .none), v := .ok v }
      | none => { h := .error .internal, v := .error .internal }
    | .missing _ => { h := .error .internal, v := .error .internal }
    | .node e args =>
      let ds := BTerm.denList d args
      let c0 : Ctx :=
        { ph := fun j => match ds[j]? with
            | some x => x.h.map (·.1)
            | none => .error .internal
          pv := fun j => match ds[j]? with
            | some x => x.v
            | none => .error .internal
          cur := .error .internal
          call := d.call 0 }
      let h : Except Err (NHash × Val) := (interp c0 (e.hashProg args.length)).bind Item.asHout
      { h := h, v := (interp { c0 with cur := h } (e.evalProg args.length)).bind Item.asVal }
  def BTerm.denList (d : DenCfg) : List BTerm → List Den
    | [] => []
    | t :: ts => t.den d :: BTerm.denList d ts
end

/-- equal as far as anything downstream can see: the hash (without the payload) and the value -/
def DenEq (a b : Den) : Prop := a.h.map (·.1) = b.h.map (·.1) ∧ a.v = b.v

end CM
