/-
  CM.Proofs.Sim — stage 1 of `vm_correct`: the stack machine of CM.Model.VM simulates the big-step
  evaluator of CM.Proofs.Big, for every graph, every continuation (stack `S`, commands `C`) and every
  memory.  Plain induction on the fuel, one case per command; no invariant is needed.
-/
import CM.Proofs.Big
namespace CM

/-- `s` reaches `s'` by iterations of the command loop that neither return nor raise. -/
inductive Reaches (g : Graph) : St → St → Prop
  | refl (s : St) : Reaches g s s
  | head {s s' s'' : St} : step g s = .next s' → Reaches g s' s'' → Reaches g s s''

theorem Reaches.trans {g : Graph} {a b c : St} (h₁ : Reaches g a b) (h₂ : Reaches g b c) : Reaches g a c := by
  induction h₁ with
  | refl => exact h₂
  | head hs _ ih => exact .head hs (ih h₂)

theorem Reaches.one {g : Graph} {a b : St} (h : step g a = .next b) : Reaches g a b := .head h (.refl b)

/-- from `s` the loop reaches a state whose next iteration lets exception `e` escape with memory `m'` -/
def Raises (g : Graph) (s : St) (e : Err) (m' : Mem) : Prop :=
  ∃ s' s'', Reaches g s s' ∧ step g s' = .raised e s'' ∧ s''.mem = m'

theorem Raises.of_reaches {g : Graph} {a b : St} {e : Err} {m' : Mem} (h₁ : Reaches g a b) (h₂ : Raises g b e m') :
    Raises g a e m' := by
  obtain ⟨s', s'', hr, hs, hm⟩ := h₂
  exact ⟨s', s'', h₁.trans hr, hs, hm⟩

/-- the machine configuration in which task `t` is about to run on top of stack `S` and commands `C` -/
def Starts (t : Task) (S : List Item) (C : List Cmd) (m : Mem) (s : St) : Prop :=
  match t with
  | .hash n => s = ⟨.node n :: S, .computeHash :: C, m⟩
  | .value n => s = ⟨.node n :: S, .evaluate :: C, m⟩
  | .prog n p => ∃ v k, k v = p ∧ s = ⟨v :: S, .send n k :: C, m⟩
  | .req n r => s = ⟨.node n :: S, .req r :: C, m⟩
  | .reqs n rsRev acc => s = ⟨acc ++ S, .tuple n (acc.length + rsRev.length) rsRev :: C, m⟩

def SimAt (g : Graph) (f : Nat) : Prop :=
  ∀ t m,
    (∀ x m', big g f t m = .ok x m' → ∀ S C s, Starts t S C m s → Reaches g s ⟨x :: S, C, m'⟩) ∧
    (∀ e m', big g f t m = .raised e m' → ∀ S C s, Starts t S C m s → Raises g s e m')

theorem raises_now {g : Graph} {s s'' : St} {e : Err} {m' : Mem} (h : step g s = .raised e s'') (hm : s''.mem = m') :
    Raises g s e m' := ⟨s, s'', .refl s, h, hm⟩

theorem raises_stuck {g : Graph} {s : St} {m' : Mem} (h : step g s = .raised .internal s) (hm : s.mem = m') :
    Raises g s .internal m' := ⟨s, s, .refl s, h, hm⟩

theorem sim (g : Graph) : ∀ f, SimAt g f := by
  intro f
  induction f with
  | zero => intro t m; constructor <;> intro _ _ h <;> simp [big] at h
  | succ f ih =>
    intro t m
    cases t with
    | hash n =>
      have key : ∀ r, big g (f + 1) (.hash n) m = r →
          (∀ x m', r = .ok x m' → ∀ S C, Reaches g ⟨.node n :: S, .computeHash :: C, m⟩ ⟨x :: S, C, m'⟩) ∧
          (∀ e m', r = .raised e m' → ∀ S C, Raises g ⟨.node n :: S, .computeHash :: C, m⟩ e m') := by
        intro r hb
        simp only [big] at hb
        cases hx : m.hashes.memo n with
        | some x' =>
          simp only [hx] at hb; subst hb
          constructor
          · intro x m' h S C; injection h with h1 h2; subst h1; subst h2
            exact .one (by simp [step, hx])
          · intro e m' h; simp at h
        | none =>
          simp only [hx] at hb
          cases he : (g.node n).edge with
          | none =>
            simp only [he] at hb; subst hb
            constructor
            · intro x m' h; simp at h
            · intro e m' h S C; injection h with h1 h2; subst h1; subst h2
              exact raises_now (s'' := ⟨.node n :: S, .computeHash :: C, m⟩) (by simp [step, hx, he, stuck]) rfl
          | some e =>
            simp only [he] at hb
            have start : ∀ S C, step g ⟨.node n :: S, .computeHash :: C, m⟩ = .next
                ⟨.val .none :: S, .send n (fun _ => e.hashProg (g.parents n).length) :: .store .hashes n :: C, m⟩ := by
              intro S C; simp [step, hx, he]
            have ihp := ih (.prog n (e.hashProg (g.parents n).length)) m
            cases hp : big g f (.prog n (e.hashProg (g.parents n).length)) m with
            | fuel => simp only [hp] at hb; subst hb; constructor <;> intro _ _ h <;> simp at h
            | raised e1 m1 =>
              simp only [hp] at hb; subst hb
              constructor
              · intro x m' h; simp at h
              · intro e' m' h S C; injection h with h1 h2; subst h1; subst h2
                exact .of_reaches (.one (start S C)) (ihp.2 _ _ hp S (.store .hashes n :: C) _ ⟨.val .none, _, rfl, rfl⟩)
            | ok x1 m1 =>
              simp only [hp] at hb
              have run : ∀ S C, Reaches g ⟨.node n :: S, .computeHash :: C, m⟩ ⟨x1 :: S, .store .hashes n :: C, m1⟩ :=
                fun S C => .head (start S C) (ihp.1 _ _ hp S (.store .hashes n :: C) _ ⟨.val .none, _, rfl, rfl⟩)
              cases hy : m1.hashes.memo n with
              | some y =>
                simp only [hy] at hb; subst hb
                constructor
                · intro x m' h; simp at h
                · intro e' m' h S C; injection h with h1 h2; subst h1; subst h2
                  exact .of_reaches (run S C) (raises_now (s'' := ⟨x1 :: S, .store .hashes n :: C, m1⟩)
                    (by simp [step, hy, stuck]) rfl)
              | none =>
                simp only [hy] at hb
                cases hset : m1.hashes.set n x1 with
                | none =>
                  simp only [hset] at hb; subst hb
                  constructor
                  · intro x m' h; simp at h
                  · intro e' m' h S C; injection h with h1 h2; subst h1; subst h2
                    exact .of_reaches (run S C) (raises_now (s'' := ⟨x1 :: S, .store .hashes n :: C, m1⟩)
                      (by simp [step, hy, hset, stuck]) rfl)
                | some h' =>
                  simp only [hset] at hb; subst hb
                  constructor
                  · intro x m' h S C; injection h with h1 h2; subst h1; subst h2
                    exact (run S C).trans (.one (by simp [step, hy, hset]))
                  · intro e' m' h; simp at h
      have k := key _ rfl
      constructor
      · intro x m' hb S C s hs; subst hs; exact k.1 x m' hb S C
      · intro e m' hb S C s hs; subst hs; exact k.2 e m' hb S C
    | value n =>
      have key : ∀ r, big g (f + 1) (.value n) m = r →
          (∀ x m', r = .ok x m' → ∀ S C, Reaches g ⟨.node n :: S, .evaluate :: C, m⟩ ⟨x :: S, C, m'⟩) ∧
          (∀ e m', r = .raised e m' → ∀ S C, Raises g ⟨.node n :: S, .evaluate :: C, m⟩ e m') := by
        intro r hb
        simp only [big] at hb
        cases hx : m.cache.memo n with
        | some x' =>
          simp only [hx] at hb; subst hb
          constructor
          · intro x m' h S C; injection h with h1 h2; subst h1; subst h2
            exact .one (by simp [step, hx])
          · intro e m' h; simp at h
        | none =>
          simp only [hx] at hb
          cases he : (g.node n).edge with
          | none =>
            simp only [he] at hb; subst hb
            constructor
            · intro x m' h; simp at h
            · intro e m' h S C; injection h with h1 h2; subst h1; subst h2
              exact raises_now (s'' := ⟨.node n :: S, .evaluate :: C, m⟩) (by simp [step, hx, he, stuck]) rfl
          | some e =>
            simp only [he] at hb
            have start : ∀ S C, step g ⟨.node n :: S, .evaluate :: C, m⟩ = .next
                ⟨.val .none :: S, .send n (fun _ => e.evalProg (g.parents n).length) :: .store .cache n :: C, m⟩ := by
              intro S C; simp [step, hx, he]
            have ihp := ih (.prog n (e.evalProg (g.parents n).length)) m
            cases hp : big g f (.prog n (e.evalProg (g.parents n).length)) m with
            | fuel => simp only [hp] at hb; subst hb; constructor <;> intro _ _ h <;> simp at h
            | raised e1 m1 =>
              simp only [hp] at hb; subst hb
              constructor
              · intro x m' h; simp at h
              · intro e' m' h S C; injection h with h1 h2; subst h1; subst h2
                exact .of_reaches (.one (start S C)) (ihp.2 _ _ hp S (.store .cache n :: C) _ ⟨.val .none, _, rfl, rfl⟩)
            | ok x1 m1 =>
              simp only [hp] at hb
              have run : ∀ S C, Reaches g ⟨.node n :: S, .evaluate :: C, m⟩ ⟨x1 :: S, .store .cache n :: C, m1⟩ :=
                fun S C => .head (start S C) (ihp.1 _ _ hp S (.store .cache n :: C) _ ⟨.val .none, _, rfl, rfl⟩)
              have notval : (∀ v, x1 ≠ .val v) → ∀ S C, step g ⟨x1 :: S, .store .cache n :: C, m1⟩ =
                  .raised .internal ⟨x1 :: S, .store .cache n :: C, m1⟩ := by
                intro hnv S C
                cases x1 <;> simp_all [step, stuck]
              cases x1 with
              | val v =>
                simp only at hb
                cases hy : m1.cache.memo n with
                | some y =>
                  simp only [hy] at hb; subst hb
                  constructor
                  · intro x m' h; simp at h
                  · intro e' m' h S C; injection h with h1 h2; subst h1; subst h2
                    exact .of_reaches (run S C) (raises_now (s'' := ⟨.val v :: S, .store .cache n :: C, m1⟩)
                      (by simp [step, hy, stuck]) rfl)
                | none =>
                  simp only [hy] at hb
                  cases hset : m1.cache.set n v with
                  | none =>
                    simp only [hset] at hb; subst hb
                    constructor
                    · intro x m' h; simp at h
                    · intro e' m' h S C; injection h with h1 h2; subst h1; subst h2
                      exact .of_reaches (run S C) (raises_now (s'' := ⟨.val v :: S, .store .cache n :: C, m1⟩)
                        (by simp [step, hy, hset, stuck]) rfl)
                  | some h' =>
                    simp only [hset] at hb; subst hb
                    constructor
                    · intro x m' h S C; injection h with h1 h2; subst h1; subst h2
                      exact (run S C).trans (.one (by simp [step, hy, hset]))
                    · intro e' m' h; simp at h
              | hash _ | hout _ _ | node _ | tup _ =>
                simp only at hb; subst hb
                constructor
                · intro x m' h; simp at h
                · intro e' m' h S C; injection h with h1 h2; subst h1; subst h2
                  exact .of_reaches (run S C) (raises_now (notval (by intro v; simp) S C) rfl)
      have k := key _ rfl
      constructor
      · intro x m' hb S C s hs; subst hs; exact k.1 x m' hb S C
      · intro e m' hb S C s hs; subst hs; exact k.2 e m' hb S C
    | prog n p =>
      have key : ∀ r, big g (f + 1) (.prog n p) m = r →
          (∀ x m', r = .ok x m' → ∀ S C v k, k v = p → Reaches g ⟨v :: S, .send n k :: C, m⟩ ⟨x :: S, C, m'⟩) ∧
          (∀ e m', r = .raised e m' → ∀ S C v k, k v = p → Raises g ⟨v :: S, .send n k :: C, m⟩ e m') := by
        intro r hb
        simp only [big] at hb
        cases hr : runEffs p m.world with
        | mk p' w =>
          simp only [hr] at hb
          cases p' with
          | ret x1 =>
            simp only at hb
            cases hev : evictAll (g.parents n) m.hashes m.cache with
            | none =>
              simp only [hev] at hb; subst hb
              constructor
              · intro x m' h; simp at h
              · intro e m' h S C v k hk; injection h with h1 h2; subst h1; subst h2
                exact raises_now (s'' := ⟨v :: S, .send n k :: C, { m with world := w }⟩)
                  (by simp [step, hk, hr, hev, stuck]) rfl
            | some hc =>
              obtain ⟨h', c'⟩ := hc
              simp only [hev] at hb; subst hb
              constructor
              · intro x m' h S C v k hk; injection h with h1 h2; subst h1; subst h2
                exact .one (by simp [step, hk, hr, hev])
              · intro e m' h; simp at h
          | raise e1 =>
            simp only at hb; subst hb
            constructor
            · intro x m' h; simp at h
            · intro e m' h S C v k hk; injection h with h1 h2; subst h1; subst h2
              exact raises_now (s'' := ⟨v :: S, .send n k :: C, { m with world := w }⟩) (by simp [step, hk, hr]) rfl
          | eff op k1 =>
            simp only at hb; subst hb
            constructor
            · intro x m' h; simp at h
            · intro e m' h S C v k hk; injection h with h1 h2; subst h1; subst h2
              exact raises_now (s'' := ⟨v :: S, .send n k :: C, { m with world := w }⟩)
                (by simp [step, hk, hr, stuck]) rfl
          | req r1 k1 =>
            simp only at hb
            have start : ∀ S C v k, k v = p → step g ⟨v :: S, .send n k :: C, m⟩ = .next
                ⟨.node n :: S, .req r1 :: .send n k1 :: C, { m with world := w }⟩ := by
              intro S C v k hk; simp [step, hk, hr]
            have ihr := ih (.req n r1) { m with world := w }
            cases hq : big g f (.req n r1) { m with world := w } with
            | fuel => simp only [hq] at hb; subst hb; constructor <;> intro _ _ h <;> simp at h
            | raised e1 m1 =>
              simp only [hq] at hb; subst hb
              constructor
              · intro x m' h; simp at h
              · intro e m' h S C v k hk; injection h with h1 h2; subst h1; subst h2
                exact .of_reaches (.one (start S C v k hk)) (ihr.2 _ _ hq S (.send n k1 :: C) _ rfl)
            | ok x1 m1 =>
              simp only [hq] at hb
              have ihk := ih (.prog n (k1 x1)) m1
              constructor
              · intro x m' h S C v k hk
                rw [h] at hb
                exact (Reaches.head (start S C v k hk) (ihr.1 _ _ hq S (.send n k1 :: C) _ rfl)).trans
                  (ihk.1 _ _ hb S C _ ⟨x1, k1, rfl, rfl⟩)
              · intro e m' h S C v k hk
                rw [h] at hb
                exact .of_reaches (Reaches.head (start S C v k hk) (ihr.1 _ _ hq S (.send n k1 :: C) _ rfl))
                  (ihk.2 _ _ hb S C _ ⟨x1, k1, rfl, rfl⟩)
      have k := key _ rfl
      constructor
      · intro x m' hb S C s hs; obtain ⟨v, k', hk, hs⟩ := hs; subst hs; exact k.1 x m' hb S C v k' hk
      · intro e m' hb S C s hs; obtain ⟨v, k', hk, hs⟩ := hs; subst hs; exact k.2 e m' hb S C v k' hk
    | req n r =>
      have key : ∀ res, big g (f + 1) (.req n r) m = res →
          (∀ x m', res = .ok x m' → ∀ S C, Reaches g ⟨.node n :: S, .req r :: C, m⟩ ⟨x :: S, C, m'⟩) ∧
          (∀ e m', res = .raised e m' → ∀ S C, Raises g ⟨.node n :: S, .req r :: C, m⟩ e m') := by
        intro res hb
        cases r with
        | parentHash i =>
          simp only [big] at hb
          cases hp : (g.parents n)[i]? with
          | none =>
            simp only [hp] at hb; subst hb
            constructor
            · intro x m' h; simp at h
            · intro e m' h S C; injection h with h1 h2; subst h1; subst h2
              exact raises_now (s'' := ⟨.node n :: S, .req (.parentHash i) :: C, m⟩) (by simp [step, hp, stuck]) rfl
          | some p =>
            simp only [hp] at hb
            have start : ∀ S C, step g ⟨.node n :: S, .req (.parentHash i) :: C, m⟩ = .next
                ⟨.node p :: S, .computeHash :: .item 0 :: C, m⟩ := by intro S C; simp [step, hp]
            have ihh := ih (.hash p) m
            cases hq : big g f (.hash p) m with
            | fuel => simp only [hq] at hb; subst hb; constructor <;> intro _ _ h <;> simp at h
            | raised e1 m1 =>
              simp only [hq] at hb; subst hb
              constructor
              · intro x m' h; simp at h
              · intro e m' h S C; injection h with h1 h2; subst h1; subst h2
                exact .of_reaches (.one (start S C)) (ihh.2 _ _ hq S (.item 0 :: C) _ rfl)
            | ok x1 m1 =>
              simp only [hq] at hb
              have run : ∀ S C, Reaches g ⟨.node n :: S, .req (.parentHash i) :: C, m⟩ ⟨x1 :: S, .item 0 :: C, m1⟩ :=
                fun S C => .head (start S C) (ihh.1 _ _ hq S (.item 0 :: C) _ rfl)
              cases x1 with
              | hout h pl =>
                simp only at hb; subst hb
                constructor
                · intro x m' hh S C; injection hh with h1 h2; subst h1; subst h2
                  exact (run S C).trans (.one (by simp [step]))
                · intro e m' hh; simp at hh
              | val _ | hash _ | node _ | tup _ =>
                simp only at hb; subst hb
                constructor
                · intro x m' hh; simp at hh
                · intro e m' hh S C; injection hh with h1 h2; subst h1; subst h2
                  exact .of_reaches (run S C) (raises_stuck (by simp [step, stuck]) rfl)
        | parentValue i =>
          simp only [big] at hb
          cases hp : (g.parents n)[i]? with
          | none =>
            simp only [hp] at hb; subst hb
            constructor
            · intro x m' h; simp at h
            · intro e m' h S C; injection h with h1 h2; subst h1; subst h2
              exact raises_now (s'' := ⟨.node n :: S, .req (.parentValue i) :: C, m⟩) (by simp [step, hp, stuck]) rfl
          | some p =>
            simp only [hp] at hb
            have start : ∀ S C, step g ⟨.node n :: S, .req (.parentValue i) :: C, m⟩ = .next
                ⟨.node p :: S, .evaluate :: C, m⟩ := by intro S C; simp [step, hp]
            have ihh := ih (.value p) m
            constructor
            · intro x m' h S C; rw [h] at hb
              exact .head (start S C) (ihh.1 _ _ hb S C _ rfl)
            · intro e m' h S C; rw [h] at hb
              exact .of_reaches (.one (start S C)) (ihh.2 _ _ hb S C _ rfl)
        | currentHash =>
          simp only [big] at hb
          have start : ∀ S C, step g ⟨.node n :: S, .req .currentHash :: C, m⟩ = .next
              ⟨.node n :: S, .computeHash :: .item 0 :: C, m⟩ := by intro S C; simp [step]
          have ihh := ih (.hash n) m
          cases hq : big g f (.hash n) m with
          | fuel => simp only [hq] at hb; subst hb; constructor <;> intro _ _ h <;> simp at h
          | raised e1 m1 =>
            simp only [hq] at hb; subst hb
            constructor
            · intro x m' h; simp at h
            · intro e m' h S C; injection h with h1 h2; subst h1; subst h2
              exact .of_reaches (.one (start S C)) (ihh.2 _ _ hq S (.item 0 :: C) _ rfl)
          | ok x1 m1 =>
            simp only [hq] at hb
            have run : ∀ S C, Reaches g ⟨.node n :: S, .req .currentHash :: C, m⟩ ⟨x1 :: S, .item 0 :: C, m1⟩ :=
              fun S C => .head (start S C) (ihh.1 _ _ hq S (.item 0 :: C) _ rfl)
            cases x1 with
            | hout h pl =>
              simp only at hb; subst hb
              constructor
              · intro x m' hh S C; injection hh with h1 h2; subst h1; subst h2
                exact (run S C).trans (.one (by simp [step]))
              · intro e m' hh; simp at hh
            | val _ | hash _ | node _ | tup _ =>
              simp only at hb; subst hb
              constructor
              · intro x m' hh; simp at hh
              · intro e m' hh S C; injection hh with h1 h2; subst h1; subst h2
                exact .of_reaches (run S C) (raises_stuck (by simp [step, stuck]) rfl)
        | payload =>
          simp only [big] at hb
          have start : ∀ S C, step g ⟨.node n :: S, .req .payload :: C, m⟩ = .next
              ⟨.node n :: S, .computeHash :: .item 1 :: C, m⟩ := by intro S C; simp [step]
          have ihh := ih (.hash n) m
          cases hq : big g f (.hash n) m with
          | fuel => simp only [hq] at hb; subst hb; constructor <;> intro _ _ h <;> simp at h
          | raised e1 m1 =>
            simp only [hq] at hb; subst hb
            constructor
            · intro x m' h; simp at h
            · intro e m' h S C; injection h with h1 h2; subst h1; subst h2
              exact .of_reaches (.one (start S C)) (ihh.2 _ _ hq S (.item 1 :: C) _ rfl)
          | ok x1 m1 =>
            simp only [hq] at hb
            have run : ∀ S C, Reaches g ⟨.node n :: S, .req .payload :: C, m⟩ ⟨x1 :: S, .item 1 :: C, m1⟩ :=
              fun S C => .head (start S C) (ihh.1 _ _ hq S (.item 1 :: C) _ rfl)
            cases x1 with
            | hout h pl =>
              simp only at hb; subst hb
              constructor
              · intro x m' hh S C; injection hh with h1 h2; subst h1; subst h2
                exact (run S C).trans (.one (by simp [step]))
              · intro e m' hh; simp at hh
            | val _ | hash _ | node _ | tup _ =>
              simp only at hb; subst hb
              constructor
              · intro x m' hh; simp at hh
              · intro e m' hh S C; injection hh with h1 h2; subst h1; subst h2
                exact .of_reaches (run S C) (raises_stuck (by simp [step, stuck]) rfl)
        | await rs =>
          simp only [big] at hb
          have start : ∀ S C, step g ⟨.node n :: S, .req (.await rs) :: C, m⟩ = .next
              ⟨S, .tuple n rs.length rs.reverse :: C, m⟩ := by intro S C; simp [step]
          have ihh := ih (.reqs n rs.reverse []) m
          have st : ∀ S C, Starts (.reqs n rs.reverse []) S C m ⟨S, .tuple n rs.length rs.reverse :: C, m⟩ := by
            intro S C; simp [Starts]
          constructor
          · intro x m' h S C; rw [h] at hb
            exact .head (start S C) (ihh.1 _ _ hb S C _ (st S C))
          · intro e m' h S C; rw [h] at hb
            exact .of_reaches (.one (start S C)) (ihh.2 _ _ hb S C _ (st S C))
        | call fn pos kwn kwv =>
          simp only [big] at hb
          cases hc : m.world.call n fn pos kwn kwv with
          | mk rv w =>
            simp only [hc] at hb
            cases rv with
            | ok v =>
              simp only at hb; subst hb
              constructor
              · intro x m' h S C; injection h with h1 h2; subst h1; subst h2
                exact .one (by simp [step, hc])
              · intro e m' h; simp at h
            | error e1 =>
              simp only at hb; subst hb
              constructor
              · intro x m' h; simp at h
              · intro e m' h S C; injection h with h1 h2; subst h1; subst h2
                exact raises_now (s'' := ⟨.node n :: S, .req (.call fn pos kwn kwv) :: C, { m with world := w }⟩)
                  (by simp [step, hc]) rfl
      have k := key _ rfl
      constructor
      · intro x m' hb S C s hs; subst hs; exact k.1 x m' hb S C
      · intro e m' hb S C s hs; subst hs; exact k.2 e m' hb S C
    | reqs n rsRev acc =>
      cases rsRev with
      | nil =>
        constructor
        · intro x m' hb S C s hs
          simp only [big] at hb; injection hb with h1 h2; subst h1; subst h2
          simp only [Starts] at hs; subst hs
          refine .one ?_
          have hlt : ¬ (acc ++ S).length < acc.length + ([] : List Req).length := by simp
          simp [step]
          intro h; omega
        · intro e m' hb; simp [big] at hb
      | cons r rest =>
        have ihr := ih (.req n r) m
        have start : ∀ S C, step g ⟨acc ++ S, .tuple n (acc.length + (r :: rest).length) (r :: rest) :: C, m⟩ = .next
            ⟨.node n :: (acc ++ S), .req r :: .tuple n (acc.length + (r :: rest).length) rest :: C, m⟩ := by
          intro S C; simp [step]
        have cnt : ∀ x : Item, acc.length + (r :: rest).length = (x :: acc).length + rest.length := by
          intro x; simp; omega
        cases hq : big g f (.req n r) m with
        | fuel => constructor <;> intro _ _ hb <;> simp [big, hq] at hb
        | raised e1 m1 =>
          constructor
          · intro x m' hb; simp [big, hq] at hb
          · intro e m' hb S C s hs
            simp only [big, hq] at hb; injection hb with h1 h2; subst h1; subst h2
            simp only [Starts] at hs; subst hs
            exact .of_reaches (.one (start S C)) (ihr.2 _ _ hq (acc ++ S) _ _ rfl)
        | ok x1 m1 =>
          have ihk := ih (.reqs n rest (x1 :: acc)) m1
          have st : ∀ S C, Starts (.reqs n rest (x1 :: acc)) S C m1
              ⟨x1 :: (acc ++ S), .tuple n (acc.length + (r :: rest).length) rest :: C, m1⟩ := by
            intro S C; simp only [Starts]; rw [cnt x1]; rfl
          constructor
          · intro x m' hb S C s hs
            simp only [big, hq] at hb
            simp only [Starts] at hs; subst hs
            exact (Reaches.head (start S C) (ihr.1 _ _ hq (acc ++ S) _ _ rfl)).trans (ihk.1 _ _ hb S C _ (st S C))
          · intro e m' hb S C s hs
            simp only [big, hq] at hb
            simp only [Starts] at hs; subst hs
            exact .of_reaches (Reaches.head (start S C) (ihr.1 _ _ hq (acc ++ S) _ _ rfl)) (ihk.2 _ _ hb S C _ (st S C))

end CM
