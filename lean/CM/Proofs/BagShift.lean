/-
  CM.Proofs.BagShift — freeze: a copy with fresh identities computes the same.
-/
import CM.Proofs.BagWF
namespace CM

theorem BNode.shift_inj {k : Nat} {a b : BNode} (h : a.shift k = b.shift k) : a = b := by
  cases a; cases b
  simp only [BNode.shift, BNode.mk.injEq] at h
  obtain ⟨h1, h2⟩ := h
  have : ‹Nat› = ‹Nat› := rfl
  simp only [BNode.mk.injEq]
  exact ⟨by omega, h2⟩

@[simp] theorem BNode.shift_name (k : Nat) (a : BNode) : (a.shift k).name = a.name := rfl
@[simp] theorem BNode.shift_id (k : Nat) (a : BNode) : (a.shift k).id = a.id + k := rfl

theorem mem_map_shift {k : Nat} {ns : List BNode} {n : BNode} : n.shift k ∈ ns.map (·.shift k) ↔ n ∈ ns := by
  simp only [List.mem_map]
  exact ⟨fun ⟨m, hm, he⟩ => BNode.shift_inj he ▸ hm, fun h => ⟨n, h, rfl⟩⟩

theorem map_shift_inj {k : Nat} : ∀ {xs ys : List BNode}, xs.map (·.shift k) = ys.map (·.shift k) → xs = ys
  | [], [], _ => rfl
  | [], _ :: _, h => by simp at h
  | _ :: _, [], h => by simp at h
  | x :: xs, y :: ys, h => by
    simp only [List.map_cons, List.cons.injEq] at h
    rw [BNode.shift_inj h.1, map_shift_inj h.2]

theorem BEdge.shift_inj {k : Nat} {a b : BEdge} (h : a.shift k = b.shift k) : a = b := by
  cases a with | mk ea ia oa => cases b with | mk eb ib ob =>
  simp only [BEdge.shift, BEdge.mk.injEq] at h
  obtain ⟨h1, h2, h3⟩ := h
  simp only [BEdge.mk.injEq]
  refine ⟨h1, ?_, BNode.shift_inj h3⟩
  exact map_shift_inj h2

theorem names_shift (k : Nat) (ns : List BNode) : names (ns.map (·.shift k)) = names ns := by
  simp [names, List.map_map, Function.comp_def]

section
variable {b : Bag} {k : Nat}

@[simp] theorem shift_inputs : (b.shift k).inputs = b.inputs.map (·.shift k) := rfl
@[simp] theorem shift_outputs : (b.shift k).outputs = b.outputs.map (·.shift k) := rfl
@[simp] theorem shift_edges : (b.shift k).edges = b.edges.map (·.shift k) := rfl
@[simp] theorem shift_virt : (b.shift k).virt = b.virt := rfl
@[simp] theorem shift_persistent : (b.shift k).persistent = b.persistent := rfl
@[simp] theorem shift_next : (b.shift k).next = b.next + k := rfl

theorem mem_nodes3_shift {n : BNode} (h : n ∈ (b.shift k).nodes3) : ∃ m ∈ b.nodes3, n = m.shift k := by
  simp only [Bag.nodes3, shift_inputs, shift_outputs, shift_edges, List.mem_append, List.mem_map, edgeNodes,
    List.mem_flatMap, List.mem_cons] at h ⊢
  rcases h with (⟨m, hm, rfl⟩ | ⟨m, hm, rfl⟩) | ⟨e', ⟨e, he, rfl⟩, hn⟩
  · exact ⟨m, Or.inl (Or.inl hm), rfl⟩
  · exact ⟨m, Or.inl (Or.inr hm), rfl⟩
  · rcases hn with rfl | hn
    · exact ⟨e.out, Or.inr ⟨e, he, Or.inl rfl⟩, rfl⟩
    · simp only [BEdge.shift, List.mem_map] at hn
      obtain ⟨m, hm, rfl⟩ := hn
      exact ⟨m, Or.inr ⟨e, he, Or.inr hm⟩, rfl⟩

theorem shift_wf (h : b.WF) : (b.shift k).WF where
  ids := by
    intro n hn
    obtain ⟨m, hm, rfl⟩ := mem_nodes3_shift hn
    have := h.ids m hm
    simp; omega
  outs := by
    have hmap : ∀ (es : List BEdge), (es.map (·.out)).Nodup → ((es.map (·.shift k)).map (·.out)).Nodup := by
      intro es
      induction es with
      | nil => intro _; exact List.nodup_nil
      | cons e es ih =>
        simp only [List.map_cons, List.nodup_cons, List.mem_map, not_exists, not_and]
        intro h
        refine ⟨?_, ih h.2⟩
        rintro x ⟨y, hy, rfl⟩ ho
        simp only [BEdge.shift] at ho
        exact h.1 y hy (BNode.shift_inj ho)
    exact hmap b.edges h.outs
  inLeaf := by
    intro n hn e he ho
    simp only [shift_inputs, shift_edges, List.mem_map] at hn he
    obtain ⟨m, hm, rfl⟩ := hn
    obtain ⟨a, ha, rfl⟩ := he
    simp only [BEdge.shift] at ho
    exact h.inLeaf m hm a ha (BNode.shift_inj ho)
  inNames := by
    intro n₁ h₁ n₂ h₂ hn
    simp only [shift_inputs, List.mem_map] at h₁ h₂
    obtain ⟨a, ha, rfl⟩ := h₁
    obtain ⟨c, hc, rfl⟩ := h₂
    rw [h.inNames a ha c hc hn]
  outNames := by
    intro n₁ h₁ n₂ h₂ hn
    simp only [shift_outputs, List.mem_map] at h₁ h₂
    obtain ⟨a, ha, rfl⟩ := h₁
    obtain ⟨c, hc, rfl⟩ := h₂
    rw [h.outNames a ha c hc hn]
  virtOut := by
    intro n hn
    simp only [shift_outputs, List.mem_map] at hn
    obtain ⟨a, ha, rfl⟩ := hn
    exact h.virtOut a ha
  virtIn := by
    intro n hn
    simp only [shift_inputs, List.mem_map] at hn
    obtain ⟨a, ha, rfl⟩ := hn
    exact h.virtIn a ha
  persOut := by
    intro x hx
    rw [shift_outputs, names_shift]
    exact h.persOut x hx

theorem sep_shift {l r0 : Bag} (hl : l.WF) (hr : r0.WF) : Sep l (r0.shift l.next) where
  wl := hl
  wr := shift_wf hr
  lo := by
    intro n hn
    obtain ⟨m, _, rfl⟩ := mem_nodes3_shift hn
    simp
  le := by simp

theorem den_shift {n : BNode} {t : BTerm} (h : BDen b n t) : BDen (b.shift k) (n.shift k) t := by
  induction h with
  | @input n hi => exact .input (mem_map_shift.2 hi)
  | @missing n hni hno =>
    refine .missing (fun h => hni (mem_map_shift.1 h)) ?_
    intro e' he' ho
    simp only [shift_edges, List.mem_map] at he'
    obtain ⟨e, he, rfl⟩ := he'
    exact hno e he (BNode.shift_inj ho)
  | @ident n p t e hni he ho hk hi _ ih =>
    exact .ident (e.shift k) (fun h => hni (mem_map_shift.1 h)) (List.mem_map.2 ⟨e, he, rfl⟩)
      (by simp [BEdge.shift, ho]) hk (by simp [BEdge.shift, hi]) ih
  | @edge n ts e hni he ho hk hlen _ ih =>
    refine .edge (e.shift k) (fun h => hni (mem_map_shift.1 h)) (List.mem_map.2 ⟨e, he, rfl⟩)
      (by simp [BEdge.shift, ho]) hk (by simp [BEdge.shift, hlen]) ?_
    intro q hq
    simp only [BEdge.shift, List.zip_map_left, List.mem_map] at hq
    obtain ⟨p, hp, rfl⟩ := hq
    exact ih p hp

theorem den_unshift {m : BNode} {t : BTerm} (h : BDen (b.shift k) m t) : ∀ n, m = n.shift k → BDen b n t := by
  induction h with
  | @input m hi =>
    rintro n rfl
    exact .input (mem_map_shift.1 hi)
  | @missing m hni hno =>
    rintro n rfl
    refine .missing (fun h => hni (mem_map_shift.2 h)) ?_
    intro e he ho
    exact hno (e.shift k) (List.mem_map.2 ⟨e, he, rfl⟩) (by simp [BEdge.shift, ho])
  | @ident m p t e' hni he' ho hk hi _ ih =>
    rintro n rfl
    simp only [shift_edges, List.mem_map] at he'
    obtain ⟨e, he, rfl⟩ := he'
    simp only [BEdge.shift] at ho hi hk
    have ho' := BNode.shift_inj ho
    cases hins : e.ins with
    | nil => rw [hins] at hi; simp at hi
    | cons q qs =>
      rw [hins] at hi
      simp only [List.map_cons, List.cons.injEq, List.map_eq_nil_iff] at hi
      obtain ⟨hq, hqs⟩ := hi
      subst hqs
      exact .ident e (fun h => hni (mem_map_shift.2 h)) he ho' hk hins (ih q hq.symm)
  | @edge m ts e' hni he' ho hk hlen _ ih =>
    rintro n rfl
    simp only [shift_edges, List.mem_map] at he'
    obtain ⟨e, he, rfl⟩ := he'
    simp only [BEdge.shift] at ho hk hlen
    refine .edge e (fun h => hni (mem_map_shift.2 h)) he (BNode.shift_inj ho) hk (by simpa using hlen) ?_
    intro p hp
    exact ih (p.1.shift k, p.2) (by
      simp only [BEdge.shift, List.zip_map_left, List.mem_map]
      exact ⟨p, hp, rfl⟩) p.1 rfl

theorem field_shift (x : String) (t : BTerm) : (b.shift k).Field x t ↔ b.Field x t := by
  simp only [Bag.Field, shift_outputs, List.mem_map]
  constructor
  · rintro ⟨o, ⟨m, hm, rfl⟩, hx, hd⟩
    exact ⟨m, hm, hx, den_unshift hd m rfl⟩
  · rintro ⟨o, ho, hx, hd⟩
    exact ⟨o.shift k, ⟨o, ho, rfl⟩, hx, den_shift hd⟩

theorem passes_shift {l : Bag} (x : String) : passes l (b.shift k) x = passes l b x := by
  simp [passes, names_shift]

end
end CM
