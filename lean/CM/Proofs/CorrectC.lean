/-
  CM.Proofs.CorrectC — `vm_correct` for graphs with cache edges, all parts together: the call stops; a returned value
  is the cache-free denotation; a raised exception is one of a user function or the denotation's own error (no
  internal failure of the machine); at most one user call per node; the stores stay sound.
-/
import CM.Proofs.RaiseC
import CM.Proofs.CacheCorrect
namespace CM

/-- what the caller of a cached `Graph.__call__` observes -/
def FullSpec (F : Fam) (g : Graph) (d : DenCfg) (faults : Bool) (o : Outcome) : Prop :=
  (match o with
   | .done x _ => ∃ v, x = .val v ∧ vden g d = .ok v
   | .raised e _ => (∃ fn, e = .user fn ∧ faults = true) ∨ vden g d = .error e
   | .next _ => False) ∧
  StoreSound F o.mem.world ∧ ∀ j, calls o.mem j ≤ 1

/-- **`vm_correct` with caches.**  (The call log is ghost state; the harness empties it before each call.) -/
theorem call_correct_c (F : Fam) (g : Graph) (ok : GraphOKC g) (env : String → Option Val) (w : World) (hc : CallOK g env)
    (hF : F g (denCfgOf env w)) (hst : StoreSound F w) (hlog : w.log = []) :
    ∃ N o steps, (∀ fuel, N ≤ fuel → g.call env w fuel = some (o, steps)) ∧
      FullSpec F g (denCfgOf env w) (!w.failAt.isEmpty) o := by
  have ht := topo_of_base g ok.toGraphBase
  have hone := hb_vb_le_one_c g ok
  have hs : MemSoundC F g (denCfgOf env w) (g.initMem env w) := ⟨init_memSound g env w hc, hst, hF⟩
  have hi := init_cinv g ht env w hc
  have hact := output_active g ht
  have hcost : cost g Ghost.none true 0 (.value g.output) ≤ 1 := by
    have := hone g.output
    simp only [cost, pendV, pendH, Ghost.none, b2n, Bool.not_false, ↓reduceIte, Nat.one_mul]
    omega
  have h0 : ∀ j, calls (g.initMem env w) j = 0 := by intro j; simp [calls, Graph.initMem, hlog]
  have hl := init_preL g env w hlog (.value g.output) true 0 trivial
  obtain ⟨f, hf⟩ := (node_halts_c g ok g.output).2 (g.initMem env w)
  have hsim := sim g f (.value g.output) (g.initMem env w)
  have hres := big_sound_c F g (denCfgOf env w) ok f (.value g.output) (g.initMem env w) hs trivial
  cases hq : big g f (.value g.output) (g.initMem env w) with
  | fuel => simp [hq, BRes.isFuel] at hf
  | ok x m' =>
    rw [hq] at hres
    obtain ⟨hs', v, hv, hden⟩ := hres
    have hreach := hsim.1 x m' hq [] [.ret] _ rfl
    obtain ⟨N, steps, hN⟩ := run_of_reaches g hreach (.done x ⟨[], [], m'⟩) rfl (by simp [step]) 0
    obtain ⟨G', _, pl⟩ := big_inv_c g ok f (.value g.output) true _ Ghost.none x m' 0 0 _ hi hact hl hq
    refine ⟨N, .done x ⟨[], [], m'⟩, steps, fun fuel hfuel => by simp only [Graph.call, initSt_eq]; exact hN fuel hfuel,
      ⟨v, hv, by rw [vden_eq g _ hc.outRange]; exact hden⟩, hs'.stores, ?_⟩
    intro j
    show calls m' j ≤ 1
    by_cases hj : j ≤ g.output
    · exact post_le_one g hone (t := .value g.output) pl hcost j hj
    · rw [pl.frame j (by simp only [Task.node]; omega), h0 j]; omega
  | raised e m' =>
    rw [hq] at hres
    obtain ⟨s', s'', hreach, hstep, hmem⟩ := hsim.2 e m' hq [] [.ret] _ rfl
    obtain ⟨N, steps, hN⟩ := run_of_reaches g hreach (.raised e s'') rfl hstep 0
    obtain ⟨hA, hr⟩ := big_raised_c F g (denCfgOf env w) ok f (.value g.output) true _ Ghost.none e m' 0 0 _ hs trivial hi hact hl hcost hq
    refine ⟨N, .raised e s'', steps, fun fuel hfuel => by simp only [Graph.call, initSt_eq]; exact hN fuel hfuel, ?_,
      by show StoreSound F s''.mem.world; rw [hmem]; exact hres, ?_⟩
    · cases hA with
      | inl hu =>
        obtain ⟨fn, h1, h2⟩ := hu
        exact Or.inl ⟨fn, h1, by simpa [Graph.initMem, List.isEmpty_iff] using h2⟩
      | inr hpe => exact Or.inr (by rw [vden_eq g _ hc.outRange]; exact hpe)
    · intro j
      show calls s''.mem j ≤ 1
      rw [hmem]
      by_cases hj : j ≤ g.output
      · exact hr.1 j hj
      · rw [hr.2 j (by simp only [Task.node]; omega), h0 j]; omega

/-- **Along every history**: whatever fuel lets a call of a family member finish, its outcome meets the full
specification: value or exception of the cache-free denotation (or a scheduled user exception), sound stores, at most
one user call per node. -/
theorem history_full (F : Fam) (w : World) (h : Reach F w) (c : CallSpec) (fuel steps : Nat) (o : Outcome)
    (ok : GraphOKC c.g) (hc : CallOK c.g c.env) (hF : F c.g (denCfgOf c.env (prepare w c)))
    (hrun : c.g.call c.env (prepare w c) fuel = some (o, steps)) :
    FullSpec F c.g (denCfgOf c.env (prepare w c)) (!(prepare w c).failAt.isEmpty) o := by
  have hst' : StoreSound F (prepare w c) := storeSound_of_stores rfl (history_sound F w h)
  obtain ⟨N, o', steps', hN, hspec⟩ := call_correct_c F c.g ok c.env (prepare w c) hc hF hst' rfl
  have := call_unique c.g c.env (prepare w c) fuel N _ _ hrun hN
  injection this with h1 _
  rw [h1]; exact hspec

end CM
