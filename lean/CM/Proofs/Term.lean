/-
  CM.Proofs.Term — stage 2c of `vm_correct`: on a topologically ordered, cache-free graph every task of the
  big-step evaluator finishes (returns or raises) with some finite fuel, from every memory.  Strong induction on the
  node; structural induction on the request program inside.
-/
import CM.Proofs.Count
namespace CM

/-- task `t` finishes from every memory -/
def Halts (g : Graph) (t : Task) : Prop := ∀ m : Mem, ∃ f, (big g f t m).isFuel = false

theorem halts_lift (g : Graph) {f f' : Nat} {t : Task} {m : Mem} (h : (big g f t m).isFuel = false) (hle : f ≤ f') :
    big g f' t m = big g f t m := big_mono_le g f f' t m hle h

/-- what the requests of node `n` in phase `hp` may rely on -/
structure Below (g : Graph) (n : Nat) (hp : Bool) : Prop where
  h : ∀ p, p < n → Halts g (.hash p)
  v : ∀ p, p < n → Halts g (.value p)
  cur : hp = false → Halts g (.hash n)

theorem reqs_halts (g : Graph) (n : Nat) : ∀ (rs : List Req), (∀ r ∈ rs, Halts g (.req n r)) → ∀ acc, Halts g (.reqs n rs acc)
  | [], _, acc, m => ⟨1, by rw [big_reqs]; rfl⟩
  | r :: rest, h, acc, m => by
    obtain ⟨f1, h1⟩ := h r (List.mem_cons_self ..) m
    cases hq : big g f1 (.req n r) m with
    | fuel => simp [hq, BRes.isFuel] at h1
    | raised e m1 =>
      refine ⟨f1 + 1, ?_⟩
      rw [big_reqs]; simp only [hq]; rfl
    | ok x m1 =>
      obtain ⟨f2, h2⟩ := reqs_halts g n rest (fun r hr => h r (List.mem_cons_of_mem _ hr)) (x :: acc) m1
      refine ⟨max f1 f2 + 1, ?_⟩
      rw [big_reqs]
      simp only
      rw [halts_lift g h1 (Nat.le_max_left f1 f2), hq]
      simp only
      rw [halts_lift g h2 (Nat.le_max_right f1 f2)]
      exact h2

mutual
  theorem req_halts (g : Graph) (ht : g.Topo) (n : Nat) (hp : Bool) (b : Below g n hp) : ∀ r : Req, (hp = true → r.noCur = true) →
      Halts g (.req n r)
    | .parentHash i, _, m => by
      cases hpi : (g.parents n)[i]? with
      | none => exact ⟨1, by rw [big_req]; simp only [hpi]; rfl⟩
      | some p =>
        obtain ⟨f1, h1⟩ := b.h p (ht n p (List.mem_of_getElem? hpi)) m
        refine ⟨f1 + 1, ?_⟩
        rw [big_req]; simp only [hpi]
        cases hq : big g f1 (.hash p) m with
        | fuel => simp [hq, BRes.isFuel] at h1
        | raised e m1 => rfl
        | ok x m1 => cases x <;> rfl
    | .parentValue i, _, m => by
      cases hpi : (g.parents n)[i]? with
      | none => exact ⟨1, by rw [big_req]; simp only [hpi]; rfl⟩
      | some p =>
        obtain ⟨f1, h1⟩ := b.v p (ht n p (List.mem_of_getElem? hpi)) m
        refine ⟨f1 + 1, ?_⟩
        rw [big_req]; simp only [hpi]
        exact h1
    | .currentHash, hnc, m => by
      have hpf : hp = false := by
        cases hp with
        | false => rfl
        | true => have := hnc rfl; simp [Req.noCur] at this
      obtain ⟨f1, h1⟩ := b.cur hpf m
      refine ⟨f1 + 1, ?_⟩
      rw [big_req]; simp only
      cases hq : big g f1 (.hash n) m with
      | fuel => simp [hq, BRes.isFuel] at h1
      | raised e m1 => rfl
      | ok x m1 => cases x <;> rfl
    | .payload, hnc, m => by
      have hpf : hp = false := by
        cases hp with
        | false => rfl
        | true => have := hnc rfl; simp [Req.noCur] at this
      obtain ⟨f1, h1⟩ := b.cur hpf m
      refine ⟨f1 + 1, ?_⟩
      rw [big_req]; simp only
      cases hq : big g f1 (.hash n) m with
      | fuel => simp [hq, BRes.isFuel] at h1
      | raised e m1 => rfl
      | ok x m1 => cases x <;> rfl
    | .await rs, hnc, m => by
      have hall := reqList_halts g ht n hp b rs (fun h => by have := hnc h; simpa [Req.noCur] using this)
      obtain ⟨f1, h1⟩ := reqs_halts g n rs.reverse (fun r hr => hall r (List.mem_reverse.mp hr)) [] m
      refine ⟨f1 + 1, ?_⟩
      rw [big_req]; exact h1
    | .call fn pos kwn kwv, _, m => by
      refine ⟨1, ?_⟩
      rw [big_req]; simp only
      cases hc : m.world.call n fn pos kwn kwv with
      | mk rv w => cases rv <;> rfl
  theorem reqList_halts (g : Graph) (ht : g.Topo) (n : Nat) (hp : Bool) (b : Below g n hp) : ∀ rs : List Req,
      (hp = true → Req.noCurList rs = true) → ∀ r ∈ rs, Halts g (.req n r)
    | [], _, r, hr => by cases hr
    | x :: xs, hnc, r, hr => by
      have hnc' : hp = true → x.noCur = true ∧ Req.noCurList xs = true := by
        intro h; have := hnc h; simpa [Req.noCurList] using this
      cases hr with
      | head => exact req_halts g ht n hp b x (fun h => (hnc' h).1)
      | tail _ hr => exact reqList_halts g ht n hp b xs (fun h => (hnc' h).2) r hr
end

theorem prog_halts (g : Graph) (ht : g.Topo) (n : Nat) (hp : Bool) (b : Below g n hp) (p : Prog) (hne : p.NoEff)
    (hnc : hp = true → p.NoCur) : Halts g (.prog n p) := by
  induction hne with
  | ret x =>
    intro m
    refine ⟨1, ?_⟩
    rw [big_prog, runEffs_noEff _ _ (.ret x)]; simp only
    cases evictAll (g.parents n) m.hashes m.cache with
    | none => rfl
    | some hc => rfl
  | raise e =>
    intro m
    exact ⟨1, by rw [big_prog, runEffs_noEff _ _ (.raise e)]; rfl⟩
  | req r k hk ih =>
    intro m
    have hnc' : hp = true → r.noCur = true ∧ ∀ x, (k x).NoCur := by
      intro h; cases hnc h with
      | req _ _ h1 h2 => exact ⟨h1, h2⟩
    obtain ⟨f1, h1⟩ := req_halts g ht n hp b r (fun h => (hnc' h).1) m
    cases hq : big g f1 (.req n r) m with
    | fuel => simp [hq, BRes.isFuel] at h1
    | raised e m1 =>
      refine ⟨f1 + 1, ?_⟩
      rw [big_prog, runEffs_noEff _ _ (.req r k hk)]; simp only
      rw [show ({ m with world := m.world } : Mem) = m from rfl, hq]; rfl
    | ok x m1 =>
      obtain ⟨f2, h2⟩ := ih x (fun h => (hnc' h).2 x) m1
      refine ⟨max f1 f2 + 1, ?_⟩
      rw [big_prog, runEffs_noEff _ _ (.req r k hk)]; simp only
      rw [show ({ m with world := m.world } : Mem) = m from rfl, halts_lift g h1 (Nat.le_max_left f1 f2), hq]
      simp only
      rw [halts_lift g h2 (Nat.le_max_right f1 f2)]
      exact h2

/-- **Termination** (stage 2c): on a well-formed graph, computing the hash and the value of any node finishes. -/
theorem node_halts (g : Graph) (ok : GraphOK g) : ∀ n, Halts g (.hash n) ∧ Halts g (.value n) := by
  have ht := topo_of_ok g ok
  intro n
  induction n using Nat.strongRecOn with
  | _ n ih =>
    have hh : Halts g (.hash n) := by
      intro m
      cases hx : m.hashes.memo n with
      | some x => exact ⟨1, by rw [big_hash]; simp only [hx]; rfl⟩
      | none =>
        cases he : (g.node n).edge with
        | none => exact ⟨1, by rw [big_hash]; simp only [hx, he]; rfl⟩
        | some e =>
          have hwf := ok.wf n _ e (node_of_edge g n e he) he
          have b : Below g n true := ⟨fun p hp => (ih p hp).1, fun p hp => (ih p hp).2, fun h => by cases h⟩
          obtain ⟨f1, h1⟩ := prog_halts g ht n true b _ (hashProg_noEff e (g.parents n).length hwf)
            (fun _ => hashProg_noCur e _ hwf) m
          refine ⟨f1 + 1, ?_⟩
          rw [big_hash]; simp only [hx, he]
          cases hq : big g f1 (.prog n (e.hashProg (g.parents n).length)) m with
          | fuel => simp [hq, BRes.isFuel] at h1
          | raised e m1 => rfl
          | ok x m1 =>
            simp only
            cases m1.hashes.memo n with
            | some _ => rfl
            | none =>
              simp only
              cases m1.hashes.set n x <;> rfl
    refine ⟨hh, ?_⟩
    intro m
    cases hx : m.cache.memo n with
    | some x => exact ⟨1, by rw [big_value]; simp only [hx]; rfl⟩
    | none =>
      cases he : (g.node n).edge with
      | none => exact ⟨1, by rw [big_value]; simp only [hx, he]; rfl⟩
      | some e =>
        have hwf := ok.wf n _ e (node_of_edge g n e he) he
        have b : Below g n false := ⟨fun p hp => (ih p hp).1, fun p hp => (ih p hp).2, fun _ => hh⟩
        obtain ⟨f1, h1⟩ := prog_halts g ht n false b _ (evalProg_noEff e (g.parents n).length hwf)
          (fun h => by cases h) m
        refine ⟨f1 + 1, ?_⟩
        rw [big_value]; simp only [hx, he]
        cases hq : big g f1 (.prog n (e.evalProg (g.parents n).length)) m with
        | fuel => simp [hq, BRes.isFuel] at h1
        | raised e m1 => rfl
        | ok x m1 =>
          cases x with
          | val v =>
            simp only
            cases m1.cache.memo n with
            | some _ => rfl
            | none =>
              simp only
              cases m1.cache.set n v <;> rfl
          | hash _ | hout _ _ | node _ | tup _ => rfl

end CM
