/-
  CM.Proofs.CoreWF — every bag `EdgesBag(...)` (`normalize_bag`) accepts is well-formed.
-/
import CM.Proofs.BagWF
import CM.Proofs.BagReverse
namespace CM

theorem mem_edgeNodes {es : List BEdge} {n : BNode} : n ∈ edgeNodes es ↔ ∃ e ∈ es, n = e.out ∨ n ∈ e.ins := by
  simp [edgeNodes]

/-- `RawBag.core` with rule 3 written with `cloneEdges` -/
def RawBag.coreX (r : RawBag) : Bag :=
  { inputs := r.inputs, outputs := r.outputs ++ (cloneEdges false r.rule3 r.next).fst,
    edges := r.edges ++ (cloneEdges false r.rule3 r.next).snd.fst, virt := r.virt.diff (.fin (names r.rule3)),
    persistent := r.persistent, optional := r.optional, ctx := r.ctx,
    next := (cloneEdges false r.rule3 r.next).snd.snd }

theorem RawBag.core_eq (r : RawBag) : r.core = r.coreX := by
  simp only [RawBag.core, RawBag.coreX, addIdentities_eq]

/-- **`normalize_bag` establishes well-formedness**: if the arguments of `EdgesBag(...)` use identities below the counter and
every persistent name is the name of an input or of an output, the bag that passes the checks is well-formed. -/
theorem core_wf (r : RawBag) (hc : Checked r r.core)
    (hid : ∀ n, n ∈ r.inputs ++ r.outputs ++ edgeNodes r.edges → n.id < r.next)
    (hp : ∀ x ∈ r.persistent, x ∈ names r.outputs ∨ x ∈ names r.inputs) : r.core.WF := by
  have heq : r.core = r.coreX := r.core_eq
  have hnext := (cloneEdges_spec false r.rule3 r.next).1
  have hrange := (cloneEdges_spec false r.rule3 r.next).2.2.2.1
  have hedges := (cloneEdges_spec false r.rule3 r.next).2.2.2.2.1
  have hclone := (cloneEdges_spec false r.rule3 r.next).2.2.2.2.2
  have hr3 : ∀ i, i ∈ r.rule3 ↔ i ∈ r.inputs ∧ (r.virt.mem i.name || r.persistent.contains i.name) = true ∧
      i.name ∉ names r.outputs := by
    intro i
    simp only [RawBag.rule3, List.mem_filter, Bool.and_eq_true, Bool.not_eq_true', List.contains_eq_mem,
      decide_eq_false_iff_not, and_assoc]
  have hcn : ∀ c ∈ (cloneEdges false r.rule3 r.next).1, ∃ i ∈ r.rule3, c.name = i.name := by
    intro c hc'
    obtain ⟨i, hi, hn, _⟩ := cloneEdges_clone false r.rule3 r.next c hc'
    exact ⟨i, hi, hn⟩
  rw [heq]
  unfold RawBag.coreX
  refine { ids := ?_, outs := by have := hc.outs; rw [heq] at this; exact this, inLeaf := by have := hc.leaves; rw [heq] at this; exact this,
           inNames := names_inj_of_nodup hc.inDup, outNames := ?_, virtOut := ?_, virtIn := ?_, persOut := ?_ }
  · intro n hn
    simp only [Bag.nodes3, List.mem_append, mem_edgeNodes] at hn
    simp only [hnext]
    have old : ∀ m, m ∈ r.inputs ++ r.outputs ++ edgeNodes r.edges → m.id < r.next + r.rule3.length := fun m hm => by
      have := hid m hm; omega
    have cl : ∀ c ∈ (cloneEdges false r.rule3 r.next).1, c.id < r.next + r.rule3.length := fun c hc' => (hrange c hc').2
    have r3in : ∀ i ∈ r.rule3, i.id < r.next + r.rule3.length := fun i hi =>
      old i (by simp only [List.mem_append]; exact Or.inl (Or.inl ((hr3 i).1 hi).1))
    rcases hn with (hn | hn | hn) | ⟨e, he | he, hn⟩
    · exact old n (by simp [hn])
    · exact old n (by simp [hn])
    · exact cl n hn
    · exact old n (by
        simp only [List.mem_append, mem_edgeNodes]
        exact Or.inr ⟨e, he, hn⟩)
    · obtain ⟨_, i, hi, c, hcm, _, hio⟩ := hedges e he
      simp only [Bool.false_eq_true, if_false] at hio
      rcases hn with rfl | hn
      · rw [hio.2]; exact cl c hcm
      · rw [hio.1, List.mem_singleton] at hn
        rw [hn]; exact r3in i hi
  · -- output names: the old ones are distinct, the new ones are names of distinct inputs that are no output names
    have hnd : (names (r.outputs ++ (cloneEdges false r.rule3 r.next).1)).Nodup := by
      simp only [names, List.map_append]
      have hcl : List.map (·.name) (cloneEdges false r.rule3 r.next).1 = names r.rule3 := cloneEdges_names false r.rule3 r.next
      rw [hcl]
      refine List.nodup_append.2 ⟨hc.outDup, ?_, ?_⟩
      · have : (names r.rule3).Nodup := by
          have hsub : (names r.rule3).Sublist (names r.inputs) := by
            simp only [names, RawBag.rule3]
            exact (List.filter_sublist).map _
          exact hsub.nodup hc.inDup
        exact this
      · intro x hx y hy hxy
        subst hxy
        obtain ⟨i, hi, rfl⟩ := List.mem_map.1 hy
        exact ((hr3 i).1 hi).2.2 hx
    exact names_inj_of_nodup hnd
  · intro n hn
    simp only [List.mem_append] at hn
    rw [NameSet.mem_diff]
    rcases hn with hn | hn
    · simp [hc.rule2a n hn]
    · obtain ⟨i, hi, hname⟩ := hcn n hn
      have : (NameSet.fin (names r.rule3)).mem n.name = true := by
        simp only [NameSet.mem, List.contains_eq_mem, decide_eq_true_eq, names, List.mem_map]
        exact ⟨i, hi, hname.symm⟩
      simp [this]
  · intro n hn
    rw [NameSet.mem_diff]
    cases hv : r.virt.mem n.name with
    | false => simp
    | true =>
      -- a virtual input is no output name (rule 2a), so rule 3 gave it an identity edge and removed it from the virtual names
      have hno : n.name ∉ names r.outputs := by
        intro hx
        obtain ⟨o, ho, hon⟩ := List.mem_map.1 hx
        have := hc.rule2a o ho
        rw [hon, hv] at this
        cases this
      have : n ∈ r.rule3 := (hr3 n).2 ⟨hn, by simp [hv], hno⟩
      have : (NameSet.fin (names r.rule3)).mem n.name = true := by
        simp only [NameSet.mem, List.contains_eq_mem, decide_eq_true_eq, names, List.mem_map]
        exact ⟨n, this, rfl⟩
      simp [this]
  · intro x hx
    simp only [names, List.map_append, List.mem_append]
    by_cases hxo : x ∈ names r.outputs
    · exact Or.inl hxo
    · rcases hp x hx with h1 | h1
      · exact absurd h1 hxo
      · obtain ⟨i, hi, rfl⟩ := List.mem_map.1 h1
        have hi3 : i ∈ r.rule3 := (hr3 i).2 ⟨hi, by simp [hx], hxo⟩
        obtain ⟨c, hcm, hcn', _⟩ := hclone i hi3
        exact Or.inr (List.mem_map.2 ⟨c, hcm, hcn'⟩)

end CM
