/-
  CM.Proofs.LoopbackDen — what the nodes of a decorated graph (`EdgesBag.loopback`) compute, at the node level:
  * the forward part (everything not downstream of an edge `Context.reverse` added) computes what it computed in `pipeline >> f`;
  * an identity edge is transparent, so a backward input computes what the node stitched to it computes;
  * which stitches `reverse` makes: the backward inputs of the LAST layer are fed by what came in (the outputs of `f`) under the same
    name, those of an earlier layer by what the later layer's backward pass hands on (its inverse outputs, or the inherited names).
-/
import CM.Proofs.BagReverse
import CM.Proofs.BagSem
namespace CM

/-- downstream of one of the nodes in `srcs`, along the edges `es` -/
inductive Down (es : List BEdge) (srcs : List BNode) : BNode → Prop
  | src {n} : n ∈ srcs → Down es srcs n
  | step {e i} : e ∈ es → i ∈ e.ins → Down es srcs i → Down es srcs e.out

/-- **Extension frame.**  Adding edges to a bag (same inputs) changes nothing for the nodes that are not downstream of the outputs of
the new edges. -/
theorem den_extension {s r : Bag} {es : List BEdge} (hin : r.inputs = s.inputs) (hed : r.edges = s.edges ++ es)
    {n : BNode} (hn : ¬ Down r.edges (es.map (·.out)) n) (t : BTerm) : BDen r n t ↔ BDen s n t := by
  have ha : AgreeOn (fun m => ¬ Down r.edges (es.map (·.out)) m) s r := by
    refine ⟨?_, ?_, ?_⟩
    · intro m _; rw [hin]
    · intro e he
      rw [hed, List.mem_append]
      constructor
      · rintro (h | h)
        · exact h
        · exact absurd (Down.src (List.mem_map.2 ⟨e, h, rfl⟩)) he
      · exact Or.inl
    · intro e he hout i hi hdown
      exact hout (Down.step he hi hdown)
  exact BDen.frame ha hn t

/-- **An identity edge is transparent**: its output computes exactly what its input computes. -/
theorem den_identity_edge {b : Bag} (hs : SingleIncoming b.edges) {p q : BNode} (he : identityEdge p q ∈ b.edges)
    (hq : q ∉ b.inputs) (t : BTerm) : BDen b q t ↔ BDen b p t := by
  constructor
  · intro h
    cases h with
    | input hi => exact absurd hi hq
    | missing _ hno => exact absurd rfl (hno _ he)
    | ident e _ he' ho hk hi hd =>
      have : e = identityEdge p q := hs e he' _ he (by simpa [identityEdge] using ho)
      subst this
      simp only [identityEdge, List.cons.injEq, and_true] at hi
      subst hi
      exact hd
    | edge e _ he' ho hk _ _ =>
      have : e = identityEdge p q := hs e he' _ he (by simpa [identityEdge] using ho)
      subst this
      exact absurd rfl hk
  · intro h
    exact .ident (identityEdge p q) hq he rfl rfl rfl h

/-- which node feeds the backward input `n` when the context is reversed on the nodes `outs` that came in -/
inductive Feeds : BCtx → List BNode → Nat → BNode → BNode → Prop
  /-- a layer: its backward input is fed by the node of the same name that came in -/
  | bag {bi bo inh outs next n o} : n ∈ bi → byName outs n.name = some o → Feeds (.bag bi bo inh) outs next n o
  /-- the later layer of a chain sees what came in -/
  | later {p c outs next n o} : Feeds c outs next n o → Feeds (.chain p c) outs next n o
  /-- the earlier layer of a chain sees what the later layer's backward pass returned -/
  | earlier {p c outs next n o o1 e1 p1 n1} : c.reverse outs next = .ok (o1, e1, p1, n1) → Feeds p o1 n1 n o →
      Feeds (.chain p c) outs next n o

/-- **The stitches of `Context.reverse`**: every feeding pair is joined by an identity edge among the new edges. -/
theorem reverse_feeds : ∀ (ctx : BCtx) (outs : List BNode) (next : Nat) (o' : List BNode) (es : List BEdge)
    (pp : List BNode) (n' : Nat), ctx.reverse outs next = .ok (o', es, pp, n') →
    ∀ n o, Feeds ctx outs next n o → identityEdge o n ∈ es
  | .no, _, _, _, _, _, _, h => by simp [BCtx.reverse] at h
  | .ident, _, _, _, _, _, _, _ => by intro n o hf; cases hf
  | .bag inputs outputs inherit, outs, next, o', es, pp, n', h => by
    intro n o hf
    cases hf with
    | bag hn hb =>
      simp only [BCtx.reverse, bind, Except.bind] at h
      split at h
      · cases h
      · split at h
        · cases h
        · simp only [Except.ok.injEq, Prod.mk.injEq] at h
          obtain ⟨_, rfl, _, _⟩ := h
          refine List.mem_append.2 (Or.inl (List.mem_filterMap.2 ⟨n, hn, ?_⟩))
          simp [hb]
  | .chain prev cur, outs, next, o', es, pp, n', h => by
    intro n o hf
    simp only [BCtx.reverse, bind, Except.bind] at h
    split at h
    · cases h
    · rename_i r1 h1
      obtain ⟨o1, e1, p1, n1⟩ := r1
      split at h
      · cases h
      · rename_i r2 h2
        obtain ⟨o2, e2, p2, n2⟩ := r2
        simp only [Except.ok.injEq, Prod.mk.injEq] at h
        obtain ⟨_, rfl, _, _⟩ := h
        cases hf with
        | later hl => exact List.mem_append.2 (Or.inl (reverse_feeds cur outs next o1 e1 p1 n1 h1 n o hl))
        | earlier hr hp =>
          rw [h1] at hr
          simp only [Except.ok.injEq, Prod.mk.injEq] at hr
          obtain ⟨rfl, rfl, rfl, rfl⟩ := hr
          exact List.mem_append.2 (Or.inr (reverse_feeds prev _ _ o2 e2 p2 n2 h2 n o hp))

/-- which node the backward pass hands on unchanged: `c` is the fresh clone `Context.reverse` creates for the node `n` that came in,
because the layer inherits the name backwards and has no inverse field of that name -/
inductive Passes : BCtx → List BNode → Nat → BNode → BNode → Prop
  | bag {bi bo inh outs next n c} :
      c ∈ (cloneEdges false (outs.filter fun m => inh.mem m.name && !(names bo).contains m.name) next).1 →
      identityEdge n c ∈ (cloneEdges false (outs.filter fun m => inh.mem m.name && !(names bo).contains m.name) next).2.1 →
      Passes (.bag bi bo inh) outs next n c
  | later {p c' outs next n c} : Passes c' outs next n c → Passes (.chain p c') outs next n c
  | earlier {p c' outs next n c o1 e1 p1 n1} : c'.reverse outs next = .ok (o1, e1, p1, n1) → Passes p o1 n1 n c →
      Passes (.chain p c') outs next n c

/-- a layer hands on every incoming node whose name it inherits backwards and does not invert itself -/
theorem bag_pass_exists (bi bo : List BNode) (inh : NameSet) (outs : List BNode) (next : Nat) (n : BNode) (hn : n ∈ outs)
    (hi : inh.mem n.name = true) (hb : (names bo).contains n.name = false) :
    ∃ c, c.name = n.name ∧ Passes (.bag bi bo inh) outs next n c := by
  have hmem : n ∈ outs.filter fun m => inh.mem m.name && !(names bo).contains m.name := by
    have hb' : n.name ∉ names bo := by simpa using hb
    simp [List.mem_filter, hn, hi, hb']
  obtain ⟨c, hc, hname, he⟩ := (cloneEdges_spec false _ next).2.2.2.2.2 n hmem
  exact ⟨c, hname, .bag hc (by simpa using he)⟩

/-- the pass-through edges are among the edges `reverse` creates -/
theorem reverse_passes : ∀ (ctx : BCtx) (outs : List BNode) (next : Nat) (o' : List BNode) (es : List BEdge)
    (pp : List BNode) (n' : Nat), ctx.reverse outs next = .ok (o', es, pp, n') →
    ∀ n c, Passes ctx outs next n c → identityEdge n c ∈ es
  | .no, _, _, _, _, _, _, h => by simp [BCtx.reverse] at h
  | .ident, _, _, _, _, _, _, _ => by intro n c hf; cases hf
  | .bag inputs outputs inherit, outs, next, o', es, pp, n', h => by
    intro n c hf
    cases hf with
    | bag hc he =>
      simp only [BCtx.reverse, bind, Except.bind] at h
      split at h
      · cases h
      · split at h
        · cases h
        · simp only [Except.ok.injEq, Prod.mk.injEq] at h
          obtain ⟨_, rfl, _, _⟩ := h
          exact List.mem_append.2 (Or.inr he)
  | .chain prev cur, outs, next, o', es, pp, n', h => by
    intro n c hf
    simp only [BCtx.reverse, bind, Except.bind] at h
    split at h
    · cases h
    · rename_i r1 h1
      obtain ⟨o1, e1, p1, n1⟩ := r1
      split at h
      · cases h
      · rename_i r2 h2
        obtain ⟨o2, e2, p2, n2⟩ := r2
        simp only [Except.ok.injEq, Prod.mk.injEq] at h
        obtain ⟨_, rfl, _, _⟩ := h
        cases hf with
        | later hl => exact List.mem_append.2 (Or.inl (reverse_passes cur outs next o1 e1 p1 n1 h1 n c hl))
        | earlier hr hp =>
          rw [h1] at hr
          simp only [Except.ok.injEq, Prod.mk.injEq] at hr
          obtain ⟨rfl, rfl, rfl, rfl⟩ := hr
          exact List.mem_append.2 (Or.inr (reverse_passes prev _ _ o2 e2 p2 n2 h2 n c hp))

theorem hasDupStr_of_nodup : ∀ {xs : List String}, xs.Nodup → hasDupStr xs = false
  | [], _ => rfl
  | x :: xs, h => by
    have h' := List.nodup_cons.1 h
    simp only [hasDupStr, Bool.or_eq_false_iff]
    exact ⟨by simpa using h'.1, hasDupStr_of_nodup h'.2⟩

/-- what the context of a wrapped function (`function_to_bag`: no backward inputs or outputs, inherit = its output names) returns when it
is reversed on nodes with pairwise different names: the clones of the nodes whose names it inherits, and the pass edges -/
theorem fn_ctx_reverse (inhf : NameSet) (outs : List BNode) (next : Nat) (hnd : (names outs).Nodup) :
    (BCtx.bag [] [] inhf).reverse outs next =
      .ok ((cloneEdges false (outs.filter fun m => inhf.mem m.name && !(names []).contains m.name) next).1,
           (cloneEdges false (outs.filter fun m => inhf.mem m.name && !(names []).contains m.name) next).2.1,
           (cloneEdges false (outs.filter fun m => inhf.mem m.name && !(names []).contains m.name) next).1,
           (cloneEdges false (outs.filter fun m => inhf.mem m.name && !(names []).contains m.name) next).2.2) := by
  have hd : hasDupStr (List.map (fun x : BNode => x.name) outs) = false := hasDupStr_of_nodup hnd
  simp only [BCtx.reverse, checkDups, names, List.map_nil, hasDupStr, bind, Except.bind, Bool.false_eq_true, if_false,
    List.filterMap_nil, List.nil_append, hd]

/-- the backward outputs of the FIRST layer of a chain are among the outputs of the reversed chain -/
theorem reverse_chain_bag_outputs (bi bo : List BNode) (inh : NameSet) (c : BCtx) (outs : List BNode) (next : Nat)
    (o' : List BNode) (es : List BEdge) (pp : List BNode) (n' : Nat)
    (h : (BCtx.chain (.bag bi bo inh) c).reverse outs next = .ok (o', es, pp, n')) : ∀ n ∈ bo, n ∈ o' := by
  simp only [BCtx.reverse, bind, Except.bind] at h
  split at h
  · cases h
  · rename_i r1 h1
    obtain ⟨o1, e1, p1, n1⟩ := r1
    simp only at h
    split at h
    · cases h
    · rename_i r2 h2
      obtain ⟨o2, e2, p2, n2⟩ := r2
      simp only [Except.ok.injEq, Prod.mk.injEq] at h
      obtain ⟨rfl, _, _, _⟩ := h
      split at h2
      · cases h2
      · split at h2
        · cases h2
        · simp only [Except.ok.injEq, Prod.mk.injEq] at h2
          obtain ⟨rfl, _, _, _⟩ := h2
          intro n hn
          exact List.mem_append.2 (Or.inl hn)

/-- what a layer's context returns when it is reversed on nodes with pairwise different names (its own backward outputs have pairwise
different names too): its backward outputs and the clones of the inherited names; the stitches and the pass edges -/
theorem bag_ctx_reverse (bi bo : List BNode) (inh : NameSet) (outs : List BNode) (next : Nat) (hnd : (names outs).Nodup)
    (hbo : (names bo).Nodup) :
    (BCtx.bag bi bo inh).reverse outs next =
      .ok (bo ++ (cloneEdges false (outs.filter fun m => inh.mem m.name && !(names bo).contains m.name) next).1,
           (bi.filterMap fun n => (byName outs n.name).map fun o => identityEdge o n) ++
             (cloneEdges false (outs.filter fun m => inh.mem m.name && !(names bo).contains m.name) next).2.1,
           (cloneEdges false (outs.filter fun m => inh.mem m.name && !(names bo).contains m.name) next).1,
           (cloneEdges false (outs.filter fun m => inh.mem m.name && !(names bo).contains m.name) next).2.2) := by
  have hd : hasDupStr (List.map (fun x : BNode => x.name) outs) = false := hasDupStr_of_nodup hnd
  have hd2 : hasDupStr (List.map (fun x : BNode => x.name) bo) = false := hasDupStr_of_nodup hbo
  simp only [BCtx.reverse, checkDups, names, bind, Except.bind, Bool.false_eq_true, if_false, hd, hd2]

end CM
