/-
  CM.Proofs.DecodeG — a static graph hash determines the function of the entry id (C06): `evalG x h` evaluates the
  static hash `h` of a sub-pipeline on the input `x`; on plain graphs, wherever the cache-free evaluation of a node
  yields a value, that value is `evalG x (static hash of the node)`.
-/
import CM.Proofs.Decode
import CM.Proofs.StaticHash
namespace CM

def allSome {α : Type} : List (Option α) → Option (List α)
  | [] => some []
  | none :: _ => none
  | some a :: rest => (allSome rest).map (a :: ·)

/-- `id_to_index[key]` read back from the routing table as it is written into the static hash -/
def lookupTVL : List Val → Val → Option Nat
  | [], _ => none
  | .tup [k, .int i] :: rest, key => if k.pyEq key then some i.toNat else lookupTVL rest key
  | _ :: _, _ => none

def lookupTV : Val → Val → Option Nat
  | .tup l, key => lookupTVL l key
  | _, _ => none

mutual
  /-- evaluate a static hash on the input `x` -/
  def evalG (x : Val) : NHash → Option Val
    | .leaf v => some (if v == .atom "$placeholder" then x else v)
    | .apply f hs kwn =>
      match allSome (evalGList x hs) with
      | none => none
      | some vs =>
        some (if f = "tuple" ∧ kwn = [] then .tup vs
              else .app f (vs.take (vs.length - kwn.length)) kwn (vs.drop (vs.length - kwn.length)))
    | .graph h => evalG x h
    | .custom m hs =>
      let vs := evalGList x hs
      if m = "connectome.SwitchEdge" then
        match vs with
        | some tv :: pvs =>
          match pvs.getD 0 none with
          | some key => match lookupTV tv key with
            | some idx => pvs.getD (idx + 1) none
            | none => none
          | none => none
        | _ => none
      else if m = "connectome.SwitchBranch" then
        match vs.getD 0 none, vs.getD 1 none with
        | some key, some (.tup [inner, left, right]) =>
          if keyIn key inner || keyIn key left then vs.getD 2 none
          else if keyIn key right then vs.getD 3 none else none
        | _, _ => none
      else if m = "connectome.SwitchMissing" then
        match vs with
        | some (.int idx) :: pvs =>
          match pvs.getD 0 none, pvs.getD 1 none with
          | some key, some (.tup [inner, left, right]) =>
            let this := if idx.toNat == 0 then left else right
            let other := if idx.toNat == 0 then right else left
            if keyIn key inner || keyIn key this then pvs.getD 2 none
            else if keyIn key other then some .none else none
          | _, _ => none
        | _ => none
      else none
  def evalGList (x : Val) : List NHash → List (Option Val)
    | [] => []
    | h :: hs => evalG x h :: evalGList x hs
end

theorem evalGList_eq_map (x : Val) : ∀ hs : List NHash, evalGList x hs = hs.map (evalG x)
  | [] => rfl
  | h :: hs => by simp [evalGList, evalGList_eq_map x hs]

/-! ### list plumbing -/

theorem all2_map_left {α β γ : Type} {R : β → γ → Prop} (f : α → β) : ∀ {l : List α} {r : List γ},
    All2 R (l.map f) r → All2 (fun a c => R (f a) c) l r
  | [], _, h => by cases h; exact .nil
  | a :: l, _, h => by
    cases h with
    | cons hr hall => exact .cons hr (all2_map_left f hall)

/-- from positions to the list of parents itself -/
theorem all2_of_range {β : Type} (ps : List Nat) (R : Nat → β → Prop) : ∀ (k : Nat) (vs : List β),
    All2 (fun i v => ∃ p, ps[i]? = some p ∧ R p v) ((List.range k).map (· + (ps.length - k))) vs → k ≤ ps.length →
    All2 R (ps.drop (ps.length - k)) vs
  | 0, vs, h, _ => by
    simp only [List.range_zero, List.map_nil] at h
    cases h
    simp [List.drop_length]; exact .nil
  | k + 1, vs, h, hk => by
    rw [range_succ_cons] at h
    simp only [List.map_cons, List.map_map] at h
    cases h with
    | cons hr hall =>
      obtain ⟨p, hp, hR⟩ := hr
      simp only [Nat.zero_add] at hp
      have hlt : ps.length - (k + 1) < ps.length := by omega
      have hd : ps.drop (ps.length - (k + 1)) = p :: ps.drop (ps.length - k) := by
        rw [List.drop_eq_getElem_cons hlt]
        have : ps[ps.length - (k + 1)] = p := by
          have := List.getElem?_eq_getElem hlt
          rw [this] at hp; injection hp
        rw [this]
        congr 2
        omega
      rw [hd]
      refine .cons hR (all2_of_range ps R k _ ?_ (by omega))
      have e : ((fun x => x + (ps.length - (k + 1))) ∘ fun x => x + 1) = fun x => x + (ps.length - k) := by
        funext i; simp only [Function.comp]; omega
      rw [e] at hall
      exact hall

theorem all2_parents {β : Type} (ps : List Nat) (R : Nat → β → Prop) (vs : List β)
    (h : All2 (fun i v => ∃ p, ps[i]? = some p ∧ R p v) (List.range ps.length) vs) : All2 R ps vs := by
  have := all2_of_range ps R ps.length vs (by simpa using h) (Nat.le_refl _)
  simpa using this

theorem all2_join {α β γ : Type} {R : α → β → Prop} {S : α → γ → Prop} {T : β → γ → Prop} :
    ∀ {ps : List α} {hs : List β} {vs : List γ}, All2 R ps hs → All2 S ps vs →
      (∀ p ∈ ps, ∀ h v, R p h → S p v → T h v) → All2 T hs vs
  | _, _, _, .nil, .nil, _ => .nil
  | _, _, _, .cons hr hall, .cons hs hall', ht =>
    .cons (ht _ (List.mem_cons_self ..) _ _ hr hs) (all2_join hall hall' (fun p hp => ht p (List.mem_cons_of_mem _ hp)))

theorem all2_get {α β : Type} {R : α → β → Prop} : ∀ {ps : List α} {hs : List β}, All2 R ps hs → ∀ (i : Nat) (p : α), ps[i]? = some p →
    ∃ h, hs[i]? = some h ∧ R p h
  | _, _, .nil, i, p, hp => by simp at hp
  | _, _, .cons hr hall, 0, p, hp => by simp at hp; subst hp; exact ⟨_, rfl, hr⟩
  | _, _, .cons hr hall, i + 1, p, hp => by simp at hp; simpa using all2_get hall i p hp

theorem allSome_of_all2 (x : Val) : ∀ {hs : List NHash} {vs : List Val}, All2 (fun h v => evalG x h = some v) hs vs →
    allSome (evalGList x hs) = some vs
  | _, _, .nil => rfl
  | _, _, .cons hr hall => by simp [evalGList, hr, allSome, allSome_of_all2 x hall]

/-- `mapM` in `Except` succeeds iff every element does -/
theorem mapM_ok {α β : Type} (f : α → Except Err β) : ∀ (l : List α) (r : List β), l.mapM f = .ok r → All2 (fun a b => f a = .ok b) l r
  | [], r, h => by
    simp only [List.mapM_nil, pure, Except.pure] at h
    injection h with h; subst h; exact .nil
  | a :: l, r, h => by
    rw [List.mapM_cons] at h
    cases ha : f a with
    | error e => simp [ha, bind, Except.bind] at h
    | ok b =>
      cases hl : l.mapM f with
      | error e => simp [ha, hl, bind, Except.bind] at h
      | ok bs =>
        simp only [ha, hl, bind, Except.bind, pure, Except.pure] at h
        injection h with h; subst h
        exact .cons ha (mapM_ok f l bs hl)


theorem interpReqs_parentValue (c : Ctx) : ∀ (l : List Nat) (xs : List Item), interpReqs c (l.map .parentValue) = .ok xs →
    ∃ vs, xs = vs.map .val ∧ All2 (fun i v => c.pv i = .ok v) l vs
  | [], xs, h => by
    simp only [List.map_nil, interpReqs] at h
    injection h with h; subst h
    exact ⟨[], rfl, .nil⟩
  | i :: l, xs, h => by
    simp only [List.map_cons, interpReqs] at h
    cases hr : interpReqs c (l.map .parentValue) with
    | error e => simp [hr] at h
    | ok ys =>
      simp only [hr, interpReq] at h
      cases hp : c.pv i with
      | error e => simp [hp, Except.map] at h
      | ok v =>
        simp only [hp, Except.map] at h
        injection h with h; subst h
        obtain ⟨vs, rfl, hall⟩ := interpReqs_parentValue c l ys hr
        exact ⟨v :: vs, rfl, .cons hp hall⟩

/-- `StaticEdge.evaluate`, inverted: a result means every parent had a value -/
theorem interp_staticEval_inv (c : Ctx) (a : Nat) (f : List Val → Prog) (y : Item) (h : interp c (staticEval a f) = .ok y) :
    ∃ vs, All2 (fun i v => c.pv i = .ok v) (List.range a) vs ∧ interp c (f vs) = .ok y := by
  simp only [staticEval, interp, interpReq] at h
  cases hr : interpReqs c ((List.range a).map .parentValue) with
  | error e => simp [hr, Except.map] at h
  | ok xs =>
    obtain ⟨vs, rfl, hall⟩ := interpReqs_parentValue c _ xs hr
    simp only [hr, Except.map, asVals_map_val] at h
    exact ⟨vs, hall, h⟩

theorem lookupTVL_table : ∀ (t : List (Val × Nat)) (key : Val),
    lookupTVL (t.map fun (k, i) => Val.tup [k, Val.int i]) key = tableLookup t key
  | [], key => by simp [lookupTVL, tableLookup]
  | (k, i) :: rest, key => by
    simp only [List.map_cons, lookupTVL, tableLookup, Int.toNat_natCast, lookupTVL_table rest key]

theorem lookupTV_table (t : List (Val × Nat)) (key : Val) : lookupTV (switchTableVal t) key = tableLookup t key := by
  simp only [switchTableVal, lookupTV]
  exact lookupTVL_table t key

theorem getD_evalGList (x : Val) (hs : List NHash) (i : Nat) (h : NHash) (hh : hs[i]? = some h) :
    (evalGList x hs).getD i none = evalG x h := by
  simp [evalGList_eq_map, List.getD_eq_getElem?_getD, hh]

/-- the values of the parents, read off the handlers of node `n` -/
theorem parents_values (g : Graph) (d : DenCfg) (n : Nat) (vs : List Val)
    (h : All2 (fun i v => (ctxOf g d n).pv i = .ok v) (List.range (g.parents n).length) vs) :
    All2 (fun p v => (den g d p).v = .ok v) (g.parents n) vs := by
  apply all2_parents
  refine forall₂_imp (fun i v hv => ?_) h
  simp only [ctxOf] at hv
  cases hp : (g.parents n)[i]? with
  | none => simp [hp] at hv
  | some p => simp only [hp] at hv; exact ⟨p, rfl, hv⟩

theorem pv_parent (g : Graph) (d : DenCfg) (n i : Nat) (v : Val) (h : (ctxOf g d n).pv i = .ok v) :
    ∃ p, (g.parents n)[i]? = some p ∧ (den g d p).v = .ok v := by
  simp only [ctxOf] at h
  cases hp : (g.parents n)[i]? with
  | none => simp [hp] at h
  | some p => simp only [hp] at h; exact ⟨p, rfl, h⟩

/-- plain graphs all of whose used inputs are bound to `x` and none of whose constants is the placeholder object -/
def EdgeK.noPlaceholder : EdgeK → Bool
  | .constant v => !(v == .atom "$placeholder")
  | .byValue i | .impure i => i.noPlaceholder
  | _ => true

structure PlainG (g : Graph) (d : DenCfg) (x : Val) : Prop extends Plain g d where
  bound : ∀ (n : Nat), g.usedInputs.contains n = true → d.env (g.node n).name = some x
  consts : ∀ (n : Nat) (nd : Node) (e : EdgeK), g.nodes[n]? = some nd → nd.edge = some e → e.noPlaceholder = true
  /-- what `@hash_by_value` wraps is itself plain, and a pure function -/
  innerPlain : ∀ (n : Nat) (nd : Node) (i : EdgeK), g.nodes[n]? = some nd → nd.edge = some (.byValue i) → i.plain = true
  innerPure : ∀ (n : Nat) (nd : Node) (i : EdgeK), g.nodes[n]? = some nd → nd.edge = some (.byValue i) →
    ∀ f kwn sil, i = .function f kwn sil → ∀ pos kwv, d.call n f pos kwn kwv = .app f pos kwn kwv

/-- the simple edge classes (also what `@hash_by_value` wraps): value and static hash against the parents -/
theorem simple_static (x : Val) (g : Graph) (d : DenCfg) (n : Nat) (e : EdgeK) (hs : List NHash) (v : Val)
    (hsimple : e.simple = true) (hplain : e.plain = true) (hnp : e.noPlaceholder = true)
    (hpure : ∀ f kwn sil, e = .function f kwn sil → ∀ pos kwv, d.call n f pos kwn kwv = .app f pos kwn kwv)
    (hst : All2 (fun p h => hg g p = .ok h) (g.parents n) hs)
    (hIH : ∀ p ∈ g.parents n, ∀ hp vp, hg g p = .ok hp → (den g d p).v = .ok vp → evalG x hp = some vp)
    (hval : interp (ctxOf g d n) (e.evalProg (g.parents n).length) = .ok (.val v)) :
    ∃ h, e.hashGraph hs = .ok h ∧ evalG x h = some v := by
  cases e with
  | function f kwn sil =>
    simp only [EdgeK.plain, Bool.and_eq_true, List.isEmpty_iff, bne_iff_ne, ne_eq] at hplain
    obtain ⟨hsil, hft⟩ := hplain
    subst hsil
    simp only [EdgeK.evalProg] at hval
    obtain ⟨vs, hall, hf⟩ := interp_staticEval_inv _ _ _ _ hval
    simp only [interp, interpReq, ctxOf, hpure f kwn [] rfl] at hf
    injection hf with hf; injection hf with hf
    have hT := all2_join hst (parents_values g d n vs hall) (fun p hp h' v' h1 h2 => hIH p hp h' v' h1 h2)
    have hl := forall₂_length hT
    refine ⟨_, rfl, ?_⟩
    simp only [silence_nil, evalG, allSome_of_all2 x hT, hft, false_and, ↓reduceIte, ← hf, hl]
  | identity =>
    simp only [EdgeK.evalProg] at hval
    obtain ⟨vs, hall, hf⟩ := interp_staticEval_inv _ _ _ _ hval
    simp only [interp] at hf
    injection hf with hf; injection hf with hf
    have hT := all2_join hst (parents_values g d n vs hall) (fun p hp h' v' h1 h2 => hIH p hp h' v' h1 h2)
    refine ⟨_, rfl, ?_⟩
    cases hT with
    | nil =>
      -- no parent: the hash is the default leaf `None`, the value `None`
      simp only [List.getD_nil] at hf ⊢
      subst hf
      rfl
    | cons h0 _ => simp only [List.getD_cons_zero] at hf ⊢; rw [← hf]; exact h0
  | constant c =>
    simp only [EdgeK.evalProg] at hval
    obtain ⟨vs, hall, hf⟩ := interp_staticEval_inv _ _ _ _ hval
    simp only [interp] at hf
    injection hf with hf; injection hf with hf
    refine ⟨_, rfl, ?_⟩
    simp only [EdgeK.noPlaceholder, Bool.not_eq_true'] at hnp
    subst hf
    simp only [evalG, hnp, Bool.false_eq_true, ↓reduceIte]
  | product =>
    simp only [EdgeK.evalProg] at hval
    obtain ⟨vs, hall, hf⟩ := interp_staticEval_inv _ _ _ _ hval
    simp only [interp] at hf
    injection hf with hf; injection hf with hf
    have hT := all2_join hst (parents_values g d n vs hall) (fun p hp h' v' h1 h2 => hIH p hp h' v' h1 h2)
    refine ⟨_, rfl, ?_⟩
    simp only [evalG, allSome_of_all2 x hT, and_self, ↓reduceIte, hf]
  | checkIds => simp [EdgeK.plain] at hplain
  | cache _ | barrier | byValue _ | impure _ | switch _ | switchBranch | switchMissing _ => simp [EdgeK.simple] at hsimple


theorem beq_table_placeholder (t : List (Val × Nat)) : (switchTableVal t == Val.atom "$placeholder") = false := by
  simp only [switchTableVal, BEq.beq, Val.beq]

/-- the static hashes of the parents of an inner node -/
theorem static_parents (g : Graph) (ok : GraphBase g) (n : Nat) (nd : Node) (hn : g.nodes[n]? = some nd)
    (hu : g.usedInputs.contains n = false) (e : EdgeK) (he : nd.edge = some e) (h : NHash) (hh : hg g n = .ok h) :
    ∃ hs, All2 (fun p hp => hg g p = .ok hp) nd.parents hs ∧ e.hashGraph hs = .ok h := by
  rw [hg_eq g n nd hn] at hh
  simp only [hgNode, hu, Bool.false_eq_true, ↓reduceIte, he] at hh
  split at hh
  · cases hh
  · next hs hm =>
    refine ⟨hs, ?_, hh⟩
    have hall := mapM_ok _ _ _ hm
    -- every parent precedes `n`, so the prefix shows its static hash
    have : ∀ {ps : List Nat} {hs : List NHash}, (∀ p ∈ ps, p < n) →
        All2 (fun p b => (g.hashGraphAll.take n)[p]?.getD (.error .internal) = .ok b) ps hs → All2 (fun p hp => hg g p = .ok hp) ps hs := by
      intro ps hs hlt hall
      induction hall with
      | nil => exact .nil
      | cons hr _ ih =>
        refine .cons ?_ (ih (fun p hp => hlt p (List.mem_cons_of_mem _ hp)))
        rw [← hg_take_getD g n _ (hlt _ (List.mem_cons_self ..)), List.getD_eq_getElem?_getD]; exact hr
    exact this (fun p hp => ok.topo n nd hn p hp) hall

/-- **A static graph hash determines the function of the entry id** (C06).  On a plain graph whose used inputs are
bound to `x`: wherever a node has a value, it is `evalG x` of the node's static hash. -/
theorem static_value (g : Graph) (d : DenCfg) (x : Val) (pl : PlainG g d x) : ∀ (n : Nat) (h : NHash) (v : Val),
    hg g n = .ok h → (den g d n).v = .ok v → evalG x h = some v := by
  intro n
  induction n using Nat.strongRecOn with
  | _ n ih =>
    intro h v hh hv
    cases hn : g.nodes[n]? with
    | none => rw [den_absent g d n hn] at hv; cases hv
    | some nd =>
      have hnd : g.node n = nd := by simp [Graph.node, List.getD_eq_getElem?_getD, hn]
      by_cases hu : g.usedInputs.contains n = true
      · -- a used input: the placeholder, bound to `x`
        rw [hg_eq g n nd hn] at hh
        simp only [hgNode, hu, ↓reduceIte] at hh
        injection hh with hh; subst hh
        rw [den_eq g d n nd hn] at hv
        have hb := pl.bound n hu
        rw [hnd] at hb
        simp only [denNode, hu, ↓reduceIte, hb] at hv
        injection hv with hv; subst hv
        simp [evalG, placeholder, BEq.beq, Val.beq]
      · have hu' : g.usedInputs.contains n = false := by simpa using hu
        cases he : nd.edge with
        | none =>
          rw [den_eq g d n nd hn] at hv
          simp only [denNode, hu', Bool.false_eq_true, ↓reduceIte, he] at hv
          cases hv
        | some e =>
          have he' : (g.node n).edge = some e := by rw [hnd]; exact he
          have hplain := pl.plain n nd e hn he
          have hnp := pl.consts n nd e hn he
          have hwfc := plain_wfc e hplain
          obtain ⟨hs, hst0, hhash⟩ := static_parents g pl.toGraphBase n nd hn hu' e he h hh
          have hps : g.parents n = nd.parents := by simp [Graph.parents, hnd]
          have hst : All2 (fun p hp => hg g p = .ok hp) (g.parents n) hs := by rw [hps]; exact hst0
          have hIH : ∀ p ∈ g.parents n, ∀ hp vp, hg g p = .ok hp → (den g d p).v = .ok vp → evalG x hp = some vp := by
            intro p hp hp' vp h1 h2
            exact ih p (pl.topo n nd hn p (by rw [← hps]; exact hp)) hp' vp h1 h2
          obtain ⟨hH, hV⟩ := den_inner g d pl.toGraphBase n e he'
          rw [interp_noCur (ctxOf g d n) _ _ (hashProg_noCur_c e _ hwfc)] at hH
          rw [hV] at hv
          have hval := bind_asVal_ok _ v hv
          -- selecting the `i`-th parent
          have hsel : ∀ i vi, (ctxOf g d n).pv i = .ok vi → (evalGList x hs).getD i none = some vi := by
            intro i vi hpi
            obtain ⟨p, hp, hpv⟩ := pv_parent g d n i vi hpi
            obtain ⟨hi, hhi, hgi⟩ := all2_get hst i p hp
            rw [getD_evalGList x hs i hi hhi]
            exact hIH p (List.mem_of_getElem? hp) hi vi hgi hpv
          have hpure : ∀ f kwn sil, e = .function f kwn sil → ∀ pos kwv, d.call n f pos kwn kwv = .app f pos kwn kwv := by
            intro f kwn sil hef pos kwv
            exact pl.pure n nd f kwn sil hn (by rw [he, hef]) pos kwv
          -- the value side needs the node's own hash for the edges that read the payload
          have hcurOf : ∀ y, interpReq (ctxOf g d n) .payload = .ok y → ∃ hd pd, (den g d n).h = .ok (hd, pd) ∧ y = .val pd := by
            intro y hy
            simp only [interpReq, ctxOf] at hy
            cases hc : (den g d n).h with
            | error e => simp [hc, Except.map] at hy
            | ok hp' =>
              obtain ⟨hd, pd⟩ := hp'
              simp only [hc, Except.map] at hy
              injection hy with hy
              exact ⟨hd, pd, rfl, hy.symm⟩
          cases e with
          | function f kwn sil =>
            obtain ⟨h', h1, h2⟩ := simple_static x g d n _ hs v rfl hplain hnp hpure hst hIH hval
            rw [hhash] at h1; injection h1 with h1; rw [h1]; exact h2
          | identity =>
            obtain ⟨h', h1, h2⟩ := simple_static x g d n _ hs v rfl hplain hnp hpure hst hIH hval
            rw [hhash] at h1; injection h1 with h1; rw [h1]; exact h2
          | constant c =>
            obtain ⟨h', h1, h2⟩ := simple_static x g d n _ hs v rfl hplain hnp hpure hst hIH hval
            rw [hhash] at h1; injection h1 with h1; rw [h1]; exact h2
          | product =>
            obtain ⟨h', h1, h2⟩ := simple_static x g d n _ hs v rfl hplain hnp hpure hst hIH hval
            rw [hhash] at h1; injection h1 with h1; rw [h1]; exact h2
          | checkIds => simp [EdgeK.plain] at hplain
          | impure i => simp [EdgeK.hashGraph] at hhash
          | cache s =>
            have hpt := pl.arity n nd _ hn he rfl
            simp only [EdgeK.evalProg, interp] at hval
            cases hcur : interpReq (ctxOf g d n) .currentHash with
            | error e => simp [hcur] at hval
            | ok y =>
              simp only [hcur] at hval
              simp only [interpReq, ctxOf] at hcur
              cases hc : (den g d n).h with
              | error e => simp [hc, Except.map] at hcur
              | ok hp' =>
                simp only [hc, Except.map] at hcur
                injection hcur with hcur; subst hcur
                simp only [interp, interpReq] at hval
                cases hp0 : (ctxOf g d n).pv 0 with
                | error e => simp [hp0, Except.map] at hval
                | ok v0 =>
                  simp only [hp0, Except.map, interp] at hval
                  injection hval with hval; injection hval with hval; subst hval
                  have := hsel 0 v0 hp0
                  simp only [EdgeK.hashGraph] at hhash
                  injection hhash with hhash
                  obtain ⟨p, hp, _⟩ := pv_parent g d n 0 v0 hp0
                  obtain ⟨hi, hhi, _⟩ := all2_get hst 0 p hp
                  rw [getD_evalGList x hs 0 hi hhi] at this
                  rw [← hhash, List.getD_eq_getElem?_getD, hhi]
                  exact this
          | barrier =>
            simp only [EdgeK.evalProg, interp] at hval
            cases hpay : interpReq (ctxOf g d n) .payload with
            | error e => simp [hpay] at hval
            | ok y =>
              simp only [hpay, interp] at hval
              injection hval with hval; subst hval
              obtain ⟨hd, pd, hdh, hy⟩ := hcurOf _ hpay
              injection hy with hy; subst hy
              -- the payload is the value of the first parent
              rw [hH] at hdh
              have hxh := bind_asHout_ok _ hd v hdh
              simp only [EdgeK.hashProg, interp, interpReq] at hxh
              cases hp0 : (ctxOf g d n).pv 0 with
              | error e => simp [hp0, Except.map] at hxh
              | ok v0 =>
                simp only [hp0, Except.map, interp] at hxh
                injection hxh with hxh; injection hxh with _ hxh; subst hxh
                have := hsel 0 v0 hp0
                simp only [EdgeK.hashGraph] at hhash
                injection hhash with hhash
                obtain ⟨p, hp, _⟩ := pv_parent g d n 0 v0 hp0
                obtain ⟨hi, hhi, _⟩ := all2_get hst 0 p hp
                rw [getD_evalGList x hs 0 hi hhi] at this
                rw [← hhash, List.getD_eq_getElem?_getD, hhi]
                exact this
          | byValue i =>
            have hsimple : i.simple = true := hplain
            simp only [EdgeK.evalProg, interp] at hval
            cases hpay : interpReq (ctxOf g d n) .payload with
            | error e => simp [hpay] at hval
            | ok y =>
              simp only [hpay, interp] at hval
              injection hval with hval; subst hval
              obtain ⟨hd, pd, hdh, hy⟩ := hcurOf _ hpay
              injection hy with hy; subst hy
              rw [hH] at hdh
              have hxh := bind_asHout_ok _ hd v hdh
              simp only [EdgeK.hashProg] at hxh
              rw [interp_bind _ _ _ (simple_eval_noEff i _ hsimple)] at hxh
              cases hi : interp (ctxOf g d n) (i.evalProg (g.parents n).length) with
              | error e => simp [hi] at hxh
              | ok z =>
                simp only [hi] at hxh
                cases z with
                | val v0 =>
                  simp only [interp] at hxh
                  injection hxh with hxh; injection hxh with _ hxh; subst hxh
                  have hiplain := pl.innerPlain n nd i hn he
                  have hipure := pl.innerPure n nd i hn he
                  obtain ⟨h', h1, h2⟩ := simple_static x g d n i hs _ hsimple hiplain hnp hipure hst hIH hi
                  simp only [EdgeK.hashGraph] at hhash
                  rw [hhash] at h1; injection h1 with h1; rw [h1]; exact h2
                | hash _ | hout _ _ | node _ | tup _ => simp [interp] at hxh
          | switch t =>
            simp only [EdgeK.evalProg, interp] at hval
            cases hpay : interpReq (ctxOf g d n) .payload with
            | error e => simp [hpay] at hval
            | ok y =>
              simp only [hpay] at hval
              obtain ⟨hd, pd, hdh, hy⟩ := hcurOf _ hpay
              subst hy
              rw [hH] at hdh
              have hxh := bind_asHout_ok _ hd pd hdh
              simp only [EdgeK.hashProg, interp, interpReq] at hxh
              cases hp0 : (ctxOf g d n).pv 0 with
              | error e => simp [hp0, Except.map] at hxh
              | ok key =>
                simp only [hp0, Except.map] at hxh
                cases hlk : tableLookup t key with
                | none => simp [hlk, interp] at hxh
                | some idx =>
                  simp only [hlk, interp, interpReq] at hxh
                  cases hph : (ctxOf g d n).ph (idx + 1) with
                  | error e => simp [hph, Except.map] at hxh
                  | ok hsel' =>
                    simp only [hph, Except.map, interp] at hxh
                    injection hxh with hxh; injection hxh with _ hxh; subst hxh
                    simp only [interp, interpReq, Int.toNat_natCast] at hval
                    cases hpi : (ctxOf g d n).pv (idx + 1) with
                    | error e => simp [hpi, Except.map] at hval
                    | ok vi =>
                      simp only [hpi, Except.map, interp] at hval
                      injection hval with hval; injection hval with hval; subst hval
                      simp only [EdgeK.hashGraph] at hhash
                      injection hhash with hhash; subst hhash
                      have h0 := hsel 0 key hp0
                      have hi := hsel (idx + 1) vi hpi
                      simp only [evalG, evalGList, beq_table_placeholder, Bool.false_eq_true, ↓reduceIte, h0, lookupTV_table, hlk, hi]
          | switchBranch =>
            simp only [EdgeK.evalProg, interp] at hval
            cases hpay : interpReq (ctxOf g d n) .payload with
            | error e => simp [hpay] at hval
            | ok y =>
              simp only [hpay] at hval
              obtain ⟨hd, pd, hdh, hy⟩ := hcurOf _ hpay
              subst hy
              rw [hH] at hdh
              have hxh := bind_asHout_ok _ hd pd hdh
              simp only [EdgeK.hashProg, interp, interpReq, interpReqs] at hxh
              cases hp1 : (ctxOf g d n).pv 1 with
              | error e => simp [hp1, Except.map] at hxh
              | ok m1 =>
                cases hp0 : (ctxOf g d n).pv 0 with
                | error e => simp [hp1, hp0, Except.map] at hxh
                | ok key =>
                  simp only [hp1, hp0, Except.map] at hxh
                  have h0 := hsel 0 key hp0
                  have h1 := hsel 1 m1 hp1
                  simp only [EdgeK.hashGraph] at hhash
                  injection hhash with hhash; subst hhash
                  split at hxh
                  · next key' inner left right heq =>
                    injection heq with heq
                    simp only [List.cons.injEq, Item.val.injEq, and_true] at heq
                    obtain ⟨hk, hm⟩ := heq
                    subst hk; subst hm
                    split at hxh
                    · simp [interp] at hxh
                    · next i hidx =>
                      simp only [interp, interpReq] at hxh
                      cases hph : (ctxOf g d n).ph i with
                      | error e => simp [hph, Except.map] at hxh
                      | ok hsel' =>
                        simp only [hph, Except.map, interp] at hxh
                        injection hxh with hxh; injection hxh with _ hxh; subst hxh
                        simp only [interp, interpReq, Int.toNat_natCast] at hval
                        cases hpi : (ctxOf g d n).pv i with
                        | error e => simp [hpi, Except.map] at hval
                        | ok vi =>
                          simp only [hpi, Except.map, interp] at hval
                          injection hval with hval; injection hval with hval; subst hval
                          have hi := hsel i vi hpi
                          simp only [evalG, String.reduceEq, ↓reduceIte, h0, h1]
                          -- which branch the key selects
                          by_cases hc1 : (keyIn key inner || keyIn key left) = true
                          · simp only [hc1, ↓reduceIte, Option.some.injEq] at hidx
                            subst hidx
                            simp only [hc1, ↓reduceIte]; exact hi
                          · simp only [hc1, Bool.false_eq_true, ↓reduceIte] at hidx
                            by_cases hc2 : keyIn key right = true
                            · simp only [hc2, ↓reduceIte, Option.some.injEq] at hidx
                              subst hidx
                              simp only [hc1, Bool.false_eq_true, ↓reduceIte, hc2]; exact hi
                            · simp [hc2] at hidx
                  · simp [interp] at hxh
          | switchMissing idx =>
            simp only [EdgeK.evalProg, interp] at hval
            cases hpay : interpReq (ctxOf g d n) .payload with
            | error e => simp [hpay] at hval
            | ok y =>
              simp only [hpay] at hval
              obtain ⟨hd, pd, hdh, hy⟩ := hcurOf _ hpay
              subst hy
              rw [hH] at hdh
              have hxh := bind_asHout_ok _ hd pd hdh
              simp only [EdgeK.hashProg, interp, interpReq, interpReqs] at hxh
              cases hp1 : (ctxOf g d n).pv 1 with
              | error e => simp [hp1, Except.map] at hxh
              | ok m1 =>
                cases hp0 : (ctxOf g d n).pv 0 with
                | error e => simp [hp1, hp0, Except.map] at hxh
                | ok key =>
                  simp only [hp1, hp0, Except.map] at hxh
                  have h0 := hsel 0 key hp0
                  have h1 := hsel 1 m1 hp1
                  simp only [EdgeK.hashGraph] at hhash
                  injection hhash with hhash; subst hhash
                  split at hxh
                  · next key' inner left right heq =>
                    injection heq with heq
                    simp only [List.cons.injEq, Item.val.injEq, and_true] at heq
                    obtain ⟨hk, hm⟩ := heq
                    subst hk; subst hm
                    have hidx : ((Val.int (↑idx : Int)) == Val.atom "$placeholder") = false := by simp [BEq.beq, Val.beq]
                    by_cases hA : (keyIn key inner || keyIn key (if (idx == 0) = true then left else right)) = true
                    · rw [if_pos hA] at hxh
                      simp only [interp, interpReq] at hxh
                      cases hph : (ctxOf g d n).ph 2 with
                      | error e => simp [hph, Except.map] at hxh
                      | ok hsel' =>
                        simp only [hph, Except.map, interp] at hxh
                        injection hxh with hxh; injection hxh with _ hxh; subst hxh
                        simp only [interp, interpReq] at hval
                        cases hpi : (ctxOf g d n).pv 2 with
                        | error e => simp [hpi, Except.map] at hval
                        | ok vi =>
                          simp only [hpi, Except.map, interp] at hval
                          injection hval with hval; injection hval with hval; subst hval
                          have hi := hsel 2 vi hpi
                          simp only [evalG, evalGList, String.reduceEq, ↓reduceIte, hidx, Bool.false_eq_true, h0, h1,
                            Int.toNat_natCast, hA]
                          exact hi
                    · rw [if_neg hA] at hxh
                      by_cases hB : keyIn key (if (idx == 0) = true then right else left) = true
                      · rw [if_pos hB] at hxh
                        simp only [interp] at hxh
                        injection hxh with hxh; injection hxh with _ hxh; subst hxh
                        simp only [interp] at hval
                        injection hval with hval; injection hval with hval; subst hval
                        simp only [evalG, evalGList, String.reduceEq, ↓reduceIte, hidx, Bool.false_eq_true, h0, h1,
                          Int.toNat_natCast, hA, hB]
                      · rw [if_neg hB] at hxh
                        simp [interp] at hxh
                  · simp [interp] at hxh


theorem hashGraph_eq_hg (g : Graph) : g.hashGraph = (hg g g.output).map .graph := rfl

/-- **Equal static graph hashes, equal functions of the entry id**: two plain sub-pipelines with the same static hash
return the same value for every input on which both return a value. -/
theorem equal_static_hash_equal_function (g g' : Graph) (h : NHash) (h1 : g.hashGraph = .ok h) (h2 : g'.hashGraph = .ok h)
    (x : Val) (d d' : DenCfg) (pl : PlainG g d x) (pl' : PlainG g' d' x) (v v' : Val)
    (hv : (den g d g.output).v = .ok v) (hv' : (den g' d' g'.output).v = .ok v') : v = v' := by
  rw [hashGraph_eq_hg] at h1 h2
  cases ha : hg g g.output with
  | error e => simp [ha, Except.map] at h1
  | ok a =>
    cases hb : hg g' g'.output with
    | error e => simp [hb, Except.map] at h2
    | ok b =>
      simp only [ha, Except.map] at h1
      simp only [hb, Except.map] at h2
      injection h1 with h1; injection h2 with h2
      have hab : a = b := by
        have := h1.trans h2.symm
        injection this
      subst hab
      have e1 := static_value g d x pl g.output a v ha hv
      have e2 := static_value g' d' x pl' g'.output a v' hb hv'
      rw [e1] at e2
      injection e2

end CM
