/-
  CM.Proofs.DetectOpt — `detect_optionals` (containers/reversible.py): which nodes of a layer's container are optional.
-/
import CM.Model.Factory
import CM.Proofs.BagDeps
namespace CM

/-- `u` is a node `find_dependencies(outputs)` visits that depends on the leaf `i` -/
def UserOf (es : List BEdge) (outputs : List BNode) (u i : BNode) : Prop :=
  u ∈ reachFrom es (es.length + 1) outputs ∧ LeafBelow es u i

theorem optMapM'_mem_iff {α β : Type} (f : α → Option β) (xs : List α) (ys : List β) (h : optMapM' f xs = some ys) (y : β) :
    y ∈ ys ↔ ∃ x ∈ xs, f x = some y := by
  obtain ⟨hl, hz⟩ := optMapM'_spec_local f xs ys h
  constructor
  · intro hy
    obtain ⟨i, hi, rfl⟩ := List.getElem_of_mem hy
    have hi' : i < xs.length := by omega
    exact ⟨xs[i], List.getElem_mem _, hz (xs[i], ys[i]) (by rw [List.mem_iff_getElem]; exact ⟨i, by rw [List.length_zip]; omega, by simp⟩)⟩
  · rintro ⟨x, hx, hfx⟩
    obtain ⟨i, hi, rfl⟩ := List.getElem_of_mem hx
    have hi' : i < ys.length := by omega
    have := hz (xs[i], ys[i]) (by rw [List.mem_iff_getElem]; exact ⟨i, by rw [List.length_zip]; omega, by simp⟩)
    simp only at this
    rw [hfx] at this
    injection this with this
    rw [this]
    exact List.getElem_mem _
where
  optMapM'_spec_local {α β : Type} (f : α → Option β) : ∀ (xs : List α) (ys : List β), optMapM' f xs = some ys →
      xs.length = ys.length ∧ ∀ p ∈ xs.zip ys, f p.1 = some p.2
    | [], ys, h => by
      simp only [optMapM', Option.some.injEq] at h
      subst h; simp
    | x :: xs, ys, h => by
      simp only [optMapM'] at h
      split at h
      · rename_i y ys' hy hys
        injection h with h; subst h
        obtain ⟨hl, hz⟩ := optMapM'_spec_local f xs ys' hys
        refine ⟨by simp [hl], ?_⟩
        intro p hp
        simp only [List.zip_cons_cons, List.mem_cons] at hp
        rcases hp with rfl | hp
        · exact hy
        · exact hz p hp
      · simp at h

/-- **What `detect_optionals` marks.**  For a container with single incoming edges and no cycle: a node is optional exactly if it is
an output carrying an `@optional` name; or an input that some visited node depends on, all of whose (visited) dependants are such
optional outputs; or a backward input or output.  In particular a private parameter that reads an input is a dependant that is
never an optional output: an input used through a parameter is required. -/
theorem detectOptionals_spec (optNames : List String) (inputs outputs backIn backOut : List BNode) (es : List BEdge)
    (opt : List BNode) (hs : SingleIncoming es) (hac : acyclicB es = true)
    (h : detectOptionals optNames inputs outputs backIn backOut es = some opt) (n : BNode) :
    n ∈ opt ↔ (∃ x ∈ optNames, byName outputs x = some n) ∨
      (n ∈ inputs ∧ (∃ u, UserOf es outputs u n) ∧ ∀ u, UserOf es outputs u n → ∃ x ∈ optNames, byName outputs x = some u) ∨
      n ∈ backIn ∨ n ∈ backOut := by
  unfold detectOptionals at h
  simp only [bind, Option.bind] at h
  split at h
  · cases h
  · rename_i optOut hopt
    injection h with h
    subst h
    have hoo := optMapM'_mem_iff _ optNames optOut hopt
    obtain ⟨hok, hkeys⟩ := depsTable_ok es hs
    -- the table entries are exactly the nodes with an incoming edge, with the leaves below them
    have hentry : ∀ u i, LeafBelow es u i → ∃ ds, (u, ds) ∈ depsTable es ∧ i ∈ ds := by
      intro u i hb
      obtain ⟨e, he, ho⟩ := hb.has_edge
      have : u ∈ (depsTable es).map (·.1) := by
        rw [hkeys]; exact List.mem_map.2 ⟨e, order_all hac e he, ho⟩
      obtain ⟨q, hq, hqu⟩ := List.mem_map.1 this
      obtain ⟨k, ds⟩ := q
      simp only at hqu
      subst hqu
      exact ⟨ds, hq, ((hok _ hq).2 i).2 hb⟩
    simp only [List.mem_append, List.mem_filter, hoo, Bool.and_eq_true, Bool.not_eq_true', List.isEmpty_eq_false_iff_exists_mem,
      List.all_eq_true, List.mem_map, List.contains_eq_mem, decide_eq_true_eq, forall_exists_index, and_imp,
      forall_apply_eq_imp_iff₂, or_assoc]
    refine or_congr_right (or_congr_left ?_)
    refine and_congr_right fun _ => ?_
    constructor
    · rintro ⟨⟨u, q, ⟨hq, hv, hi⟩, rfl⟩, hall⟩
      refine ⟨⟨q.1, hv, ((hok _ hq).2 n).1 hi⟩, ?_⟩
      rintro u ⟨hv', hb'⟩
      obtain ⟨ds, hq', hi'⟩ := hentry u n hb'
      exact hall u (u, ds) hq' hv' hi' rfl
    · rintro ⟨⟨u, hv, hb⟩, hall⟩
      obtain ⟨ds, hq, hi⟩ := hentry u n hb
      refine ⟨⟨u, (u, ds), ⟨hq, hv, hi⟩, rfl⟩, ?_⟩
      intro x q hq' hv' hi' hx
      subst hx
      exact hall q.1 ⟨hv', ((hok _ hq').2 n).1 hi'⟩

/-- an input with a visited dependant that is not an optional output (a private parameter, a required field, an inherited
pass-through) is not optional -/
theorem required_user_blocks (optNames : List String) (inputs outputs backIn backOut : List BNode) (es : List BEdge)
    (opt : List BNode) (hs : SingleIncoming es) (hac : acyclicB es = true)
    (h : detectOptionals optNames inputs outputs backIn backOut es = some opt) (i u : BNode)
    (hu : UserOf es outputs u i) (hno : ∀ x ∈ optNames, byName outputs x ≠ some u)
    (hi : ∀ x ∈ optNames, byName outputs x ≠ some i) (hbi : i ∉ backIn) (hbo : i ∉ backOut) : i ∉ opt := by
  intro hm
  rcases (detectOptionals_spec optNames inputs outputs backIn backOut es opt hs hac h i).1 hm with
    ⟨x, hx, hb⟩ | ⟨_, _, hall⟩ | hb | hb
  · exact hi x hx hb
  · obtain ⟨x, hx, hb⟩ := hall u hu
    exact hno x hx hb
  · exact hbi hb
  · exact hbo hb

end CM
