/-
  CM.Proofs.BagConnect — the bag `connect_bags` builds: its six groups of edges, and the left frame: connecting a bag on the
  right changes nothing in the region of the left bag.
-/
import CM.Model.Bag
import CM.Proofs.BagSem
import CM.Proofs.BagStruct
namespace CM

theorem addIdentities_eq : ∀ (ns : List BNode) (k : Nat), addIdentities ns k = cloneEdges false ns k
  | [], _ => rfl
  | n :: ns, k => by simp [addIdentities, cloneEdges, addIdentities_eq ns (k + 1)]

structure Bag.WF (b : Bag) : Prop where
  ids : ∀ n ∈ b.nodes3, n.id < b.next
  outs : OutsNodup b.edges
  inLeaf : ∀ n ∈ b.inputs, ∀ e ∈ b.edges, e.out ≠ n
  inNames : ∀ n₁ ∈ b.inputs, ∀ n₂ ∈ b.inputs, n₁.name = n₂.name → n₁ = n₂
  outNames : ∀ n₁ ∈ b.outputs, ∀ n₂ ∈ b.outputs, n₁.name = n₂.name → n₁ = n₂
  virtOut : ∀ n ∈ b.outputs, b.virt.mem n.name = false
  virtIn : ∀ n ∈ b.inputs, b.virt.mem n.name = false
  persOut : ∀ x ∈ b.persistent, x ∈ names b.outputs

theorem Bag.WF.single {b : Bag} (h : b.WF) : SingleIncoming b.edges := outsNodup_single h.outs

theorem mem_edgeNodes_out {es : List BEdge} {e : BEdge} (h : e ∈ es) : e.out ∈ edgeNodes es := by
  simp only [edgeNodes, List.mem_flatMap]
  exact ⟨e, h, by simp⟩

theorem mem_edgeNodes_in {es : List BEdge} {e : BEdge} (h : e ∈ es) {i : BNode} (hi : i ∈ e.ins) :
    i ∈ edgeNodes es := by
  simp only [edgeNodes, List.mem_flatMap]
  exact ⟨e, h, by simp [hi]⟩

theorem byName_some {ns : List BNode} {x : String} {n : BNode} (h : byName ns x = some n) : n ∈ ns ∧ n.name = x := by
  unfold byName at h
  exact ⟨List.mem_of_find?_eq_some h, by simpa using List.find?_some h⟩

theorem byName_of_mem {ns : List BNode} (hu : ∀ n₁ ∈ ns, ∀ n₂ ∈ ns, n₁.name = n₂.name → n₁ = n₂) {n : BNode}
    (hn : n ∈ ns) : byName ns n.name = some n := by
  unfold byName
  cases h : ns.find? (fun m => m.name == n.name) with
  | none =>
    have := List.find?_eq_none.1 h n hn
    simp at this
  | some m =>
    have hm := List.mem_of_find?_eq_some h
    have hmn : m.name = n.name := by simpa using List.find?_some h
    rw [hu m hm n hn hmn]

/-- the bag `connect_bags` builds, when none of the checks fires -/
def connected (l r : Bag) : Bag := (connectRaw l r).core

section
variable {l r : Bag}

def r3Part (l r : Bag) := cloneEdges false (connectRaw l r).rule3 (rvPart l r).2.2

theorem connected_inputs : (connected l r).inputs = l.inputs ++ (lvPart l r).1 := rfl

theorem connected_edges : (connected l r).edges =
    l.edges ++ r.edges ++ commonEdges l r ++ (lvPart l r).2.1 ++ (rvPart l r).2.1 ++ (r3Part l r).2.1 := by
  simp only [connected, RawBag.core, addIdentities_eq, r3Part]
  rfl

theorem connected_outputs : (connected l r).outputs = r.outputs ++ (rvPart l r).1 ++ (r3Part l r).1 := by
  simp only [connected, RawBag.core, addIdentities_eq, r3Part]
  rfl

theorem mem_common {e : BEdge} (h : e ∈ commonEdges l r) :
    ∃ o ∈ l.outputs, ∃ i ∈ r.inputs, i.name = o.name ∧ e = identityEdge o i := by
  simp only [commonEdges, List.mem_filterMap, Option.map_eq_some_iff] at h
  obtain ⟨o, ho, i, hi, rfl⟩ := h
  exact ⟨o, ho, i, (byName_some hi).1, (byName_some hi).2, rfl⟩


structure Sep (l r : Bag) : Prop where
  wl : l.WF
  wr : r.WF
  lo : ∀ n ∈ r.nodes3, l.next ≤ n.id
  le : l.next ≤ r.next

theorem lv_next : (lvPart l r).2.2 = r.next + (lvNodes l r).length := (cloneEdges_spec true _ _).1
theorem rv_next : (rvPart l r).2.2 = r.next + (lvNodes l r).length + (rvNodes l r).length := by
  have := (cloneEdges_spec false (rvNodes l r) (lvPart l r).2.2).1
  simp only [rvPart, lv_next] at this ⊢
  exact this

theorem fresh_lv {c : BNode} (h : c ∈ (lvPart l r).1) : r.next ≤ c.id ∧ c.id < r.next + (lvNodes l r).length :=
  (cloneEdges_spec true _ _).2.2.2.1 c h
theorem fresh_rv {c : BNode} (h : c ∈ (rvPart l r).1) : r.next + (lvNodes l r).length ≤ c.id := by
  have := ((cloneEdges_spec false (rvNodes l r) (lvPart l r).2.2).2.2.2.1 c h).1
  rwa [lv_next] at this
theorem fresh_r3 {c : BNode} (h : c ∈ (r3Part l r).1) : r.next + (lvNodes l r).length ≤ c.id := by
  have := ((cloneEdges_spec false (connectRaw l r).rule3 (rvPart l r).2.2).2.2.2.1 c h).1
  rw [rv_next] at this
  omega

theorem mem_lvE {e : BEdge} (h : e ∈ (lvPart l r).2.1) :
    e.edge = .identity ∧ ∃ n ∈ lvNodes l r, ∃ c ∈ (lvPart l r).1, c.name = n.name ∧ e.ins = [c] ∧ e.out = n := by
  have := (cloneEdges_spec true (lvNodes l r) r.next).2.2.2.2.1 e h
  simpa [lvPart] using this
theorem mem_rvE {e : BEdge} (h : e ∈ (rvPart l r).2.1) :
    e.edge = .identity ∧ ∃ n ∈ rvNodes l r, ∃ c ∈ (rvPart l r).1, c.name = n.name ∧ e.ins = [n] ∧ e.out = c := by
  have := (cloneEdges_spec false (rvNodes l r) (lvPart l r).2.2).2.2.2.2.1 e h
  simpa [rvPart] using this
theorem mem_r3E {e : BEdge} (h : e ∈ (r3Part l r).2.1) :
    e.edge = .identity ∧ ∃ n ∈ (connectRaw l r).rule3, ∃ c ∈ (r3Part l r).1, c.name = n.name ∧ e.ins = [n] ∧ e.out = c := by
  have := (cloneEdges_spec false (connectRaw l r).rule3 (rvPart l r).2.2).2.2.2.2.1 e h
  simpa [r3Part] using this

theorem mem_lvNodes {n : BNode} : n ∈ lvNodes l r ↔ n ∈ r.inputs ∧ l.virt.mem n.name = true := by
  simp [lvNodes]

/-- the six groups of edges of the connected bag -/
theorem mem_connected_edges {e : BEdge} : e ∈ (connected l r).edges ↔
    e ∈ l.edges ∨ e ∈ r.edges ∨ e ∈ commonEdges l r ∨ e ∈ (lvPart l r).2.1 ∨ e ∈ (rvPart l r).2.1 ∨ e ∈ (r3Part l r).2.1 := by
  simp only [connected_edges, List.mem_append, or_assoc]

theorem Sep.l_id (h : Sep l r) {n : BNode} (hn : n ∈ l.nodes3) : n.id < l.next := h.wl.ids n hn
theorem Sep.r_id (h : Sep l r) {n : BNode} (hn : n ∈ r.nodes3) : l.next ≤ n.id ∧ n.id < r.next :=
  ⟨h.lo n hn, h.wr.ids n hn⟩

theorem nodes3_in {b : Bag} {n : BNode} (h : n ∈ b.inputs) : n ∈ b.nodes3 := by simp [Bag.nodes3, h]
theorem nodes3_out {b : Bag} {n : BNode} (h : n ∈ b.outputs) : n ∈ b.nodes3 := by simp [Bag.nodes3, h]
theorem nodes3_eout {b : Bag} {e : BEdge} (h : e ∈ b.edges) : e.out ∈ b.nodes3 := by
  simp [Bag.nodes3, mem_edgeNodes_out h]
theorem nodes3_ein {b : Bag} {e : BEdge} (h : e ∈ b.edges) {i : BNode} (hi : i ∈ e.ins) : i ∈ b.nodes3 := by
  simp [Bag.nodes3, mem_edgeNodes_in h hi]

/-- an edge of the connected bag whose output lies in the left bag's range is an edge of the left bag -/
theorem edge_into_left (h : Sep l r) {e : BEdge} (he : e ∈ (connected l r).edges) (ho : e.out.id < l.next) :
    e ∈ l.edges := by
  rcases mem_connected_edges.1 he with h1 | h1 | h1 | h1 | h1 | h1
  · exact h1
  · have := (h.r_id (nodes3_eout h1)).1; omega
  · obtain ⟨o, _, i, hi, _, rfl⟩ := mem_common h1
    have := (h.r_id (nodes3_in hi)).1
    simp [identityEdge] at ho; omega
  · obtain ⟨_, n, hn, c, _, _, _, hout⟩ := mem_lvE h1
    have := (h.r_id (nodes3_in (mem_lvNodes.1 hn).1)).1
    rw [hout] at ho; omega
  · obtain ⟨_, n, _, c, hc, _, _, hout⟩ := mem_rvE h1
    have := fresh_rv hc
    have := h.le
    rw [hout] at ho; omega
  · obtain ⟨_, n, _, c, hc, _, _, hout⟩ := mem_r3E h1
    have := fresh_r3 hc
    have := h.le
    rw [hout] at ho; omega

/-- **Left frame**: connecting a bag on the right changes nothing in the left bag's region. -/
theorem agree_left (h : Sep l r) : AgreeOn (fun n => n.id < l.next) l (connected l r) where
  inputs n hn := by
    simp only [connected_inputs, List.mem_append]
    constructor
    · rintro (h1 | h1)
      · exact h1
      · have := (fresh_lv h1).1; have := h.le; omega
    · exact Or.inl
  edges e ho := ⟨fun he => edge_into_left h he ho, fun he => mem_connected_edges.2 (Or.inl he)⟩
  closed e he ho i hi := h.l_id (nodes3_ein (edge_into_left h he ho) hi)

theorem den_left (h : Sep l r) {n : BNode} (hn : n.id < l.next) (t : BTerm) :
    BDen (connected l r) n t ↔ BDen l n t :=
  BDen.frame (agree_left h) hn t

end
end CM
