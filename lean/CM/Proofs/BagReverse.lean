/-
  CM.Proofs.BagReverse — `Context.reverse` (containers/context.py) at the node level: which names come out of the
  backward pass of a chain of layers, what the new edges are, and that a name without an inverse path through every
  layer is not among the outputs of the decorated graph.
-/
import CM.Proofs.BagStruct
import CM.Proofs.BagChecks
namespace CM

theorem cloneEdges_names (flip : Bool) : ∀ (ns : List BNode) (next : Nat),
    names (cloneEdges flip ns next).1 = names ns
  | [], _ => rfl
  | n :: ns, next => by
    simp only [cloneEdges, names, List.map_cons, List.cons.injEq, true_and]
    exact cloneEdges_names flip ns (next + 1)

/-- the names that come out of a context, given the names that go in (a function of names only) -/
def BCtx.backNames : BCtx → List String → Option (List String)
  | .no, _ => none
  | .ident, ns => some ns
  | .bag _ outputs inherit, ns =>
    some (names outputs ++ ns.filter fun n => inherit.mem n && !(names outputs).contains n)
  | .chain p c, ns => (c.backNames ns).bind p.backNames

theorem names_filter (ns : List BNode) (p : String → Bool) :
    names (ns.filter fun n => p n.name) = (names ns).filter p := by
  induction ns with
  | nil => rfl
  | cons n ns ih =>
    simp only [List.filter_cons, names, List.map_cons]
    split
    · simp only [List.map_cons, List.cons.injEq, true_and]; exact ih
    · exact ih

/-- **`reverse` acts on names as `backNames`**: the names of the new outputs depend on the names that go in only. -/
theorem reverse_names : ∀ (ctx : BCtx) (outs : List BNode) (next : Nat) (o : List BNode) (e : List BEdge)
    (p : List BNode) (n' : Nat), ctx.reverse outs next = .ok (o, e, p, n') → ctx.backNames (names outs) = some (names o)
  | .no, _, _, _, _, _, _, h => by simp [BCtx.reverse] at h
  | .ident, outs, next, o, e, p, n', h => by
    simp only [BCtx.reverse, Except.ok.injEq, Prod.mk.injEq] at h
    simp [BCtx.backNames, h.1]
  | .bag inputs outputs inherit, outs, next, o, e, p, n', h => by
    simp only [BCtx.reverse, bind, Except.bind] at h
    split at h
    · cases h
    · split at h
      · cases h
      · simp only [Except.ok.injEq, Prod.mk.injEq] at h
        obtain ⟨rfl, _, _, _⟩ := h
        simp only [BCtx.backNames, Option.some.injEq, names, List.map_append]
        congr 1
        have := cloneEdges_names false (outs.filter fun n => inherit.mem n.name && !(names outputs).contains n.name) next
        simp only [names] at this
        rw [this]
        exact (names_filter outs fun x => inherit.mem x && !(List.map (·.name) outputs).contains x).symm
  | .chain prev cur, outs, next, o, e, p, n', h => by
    simp only [BCtx.reverse, bind, Except.bind] at h
    split at h
    · cases h
    · rename_i r1 h1
      obtain ⟨o1, e1, p1, n1⟩ := r1
      split at h
      · cases h
      · rename_i r2 h2
        obtain ⟨o2, e2, p2, n2⟩ := r2
        simp only [Except.ok.injEq, Prod.mk.injEq] at h
        obtain ⟨rfl, _, _, _⟩ := h
        simp only [BCtx.backNames]
        rw [reverse_names cur outs next o1 e1 p1 n1 h1]
        exact reverse_names prev o1 n1 o2 e2 p2 n2 h2

/-- a name has an inverse path through a context: the layer inverts it itself, or passes it on backwards and it came in;
through a chain: through the current (later) layer first, then through the previous ones -/
def BCtx.HasPath : BCtx → List String → String → Prop
  | .no, _, _ => False
  | .ident, ns, x => x ∈ ns
  | .bag _ outputs inherit, ns, x => x ∈ names outputs ∨ (inherit.mem x = true ∧ x ∈ ns)
  | .chain p c, ns, x => ∃ mid, c.backNames ns = some mid ∧ p.HasPath mid x

/-- **Only names with an inverse path come out**, for every chain of contexts (induction on the context). -/
theorem backNames_path : ∀ (ctx : BCtx) (ns res : List String) (x : String),
    ctx.backNames ns = some res → x ∈ res → ctx.HasPath ns x
  | .no, _, _, _, h, _ => by simp [BCtx.backNames] at h
  | .ident, ns, res, x, h, hx => by
    simp only [BCtx.backNames, Option.some.injEq] at h
    subst h; exact hx
  | .bag _ outputs inherit, ns, res, x, h, hx => by
    simp only [BCtx.backNames, Option.some.injEq] at h
    subst h
    simp only [List.mem_append, List.mem_filter, Bool.and_eq_true] at hx
    rcases hx with hx | ⟨hx, hi, _⟩
    · exact .inl hx
    · exact .inr ⟨hi, hx⟩
  | .chain p c, ns, res, x, h, hx => by
    simp only [BCtx.backNames] at h
    cases hc : c.backNames ns with
    | none => simp [hc] at h
    | some mid =>
      simp only [hc, Option.bind_some] at h
      exact ⟨mid, hc, backNames_path p mid res x h hx⟩

/-- a layer's own context drops a name it neither inverts nor inherits backwards, whatever comes in -/
theorem bag_drops (inputs outputs : List BNode) (inherit : NameSet) (ns res : List String) (x : String)
    (h : (BCtx.bag inputs outputs inherit).backNames ns = some res) (hno : x ∉ names outputs)
    (hni : inherit.mem x = false) : x ∉ res := by
  intro hx
  rcases backNames_path _ ns res x h hx with h1 | ⟨h2, _⟩
  · exact hno h1
  · rw [hni] at h2; cases h2

/-- the backward pass of a chain handles the LATER layer first: the names that reach the earlier layers are the ones the
later layer returns -/
theorem chain_order (p c : BCtx) (ns : List String) :
    (BCtx.chain p c).backNames ns = (c.backNames ns).bind p.backNames := rfl

/-- if the last layer of a chain drops a name, the whole chain drops it unless an EARLIER layer produces an inverse output of
that name itself: it is never passed through un-inverted -/
theorem chain_drops_unless_reinverted (p : BCtx) (inputs outputs : List BNode) (inherit : NameSet) (ns res : List String)
    (x : String) (h : (BCtx.chain p (.bag inputs outputs inherit)).backNames ns = some res)
    (hno : x ∉ names outputs) (hni : inherit.mem x = false) :
    ∃ mid, x ∉ mid ∧ p.backNames mid = some res := by
  simp only [BCtx.backNames, Option.bind_some] at h
  exact ⟨_, bag_drops inputs outputs inherit ns _ x rfl hno hni, h⟩

/-! ### the edges `reverse` creates -/

/-- every edge `reverse` adds is an identity edge; it either stitches a node that came in to a backward input of the same name,
or passes a node that came in on to a fresh clone of the same name -/
def StitchOrPass (e : BEdge) : Prop :=
  e.edge = .identity ∧ ∃ i o, e.ins = [i] ∧ e.out = o ∧ i.name = o.name

theorem reverse_edges : ∀ (ctx : BCtx) (outs : List BNode) (next : Nat) (o : List BNode) (es : List BEdge)
    (p : List BNode) (n' : Nat), ctx.reverse outs next = .ok (o, es, p, n') → ∀ e ∈ es, StitchOrPass e
  | .no, _, _, _, _, _, _, h => by simp [BCtx.reverse] at h
  | .ident, outs, next, o, es, p, n', h => by
    simp only [BCtx.reverse, Except.ok.injEq, Prod.mk.injEq] at h
    obtain ⟨_, rfl, _, _⟩ := h
    intro e he; cases he
  | .bag inputs outputs inherit, outs, next, o, es, p, n', h => by
    simp only [BCtx.reverse, bind, Except.bind] at h
    split at h
    · cases h
    · split at h
      · cases h
      · simp only [Except.ok.injEq, Prod.mk.injEq] at h
        obtain ⟨_, rfl, _, _⟩ := h
        intro e he
        simp only [List.mem_append, List.mem_filterMap] at he
        rcases he with ⟨n, _, hn⟩ | he
        · cases hb : byName outs n.name with
          | none => simp [hb] at hn
          | some o' =>
            simp only [hb, Option.map_some, Option.some.injEq] at hn
            subst hn
            have hname : o'.name = n.name := by
              unfold byName at hb
              simpa using List.find?_some hb
            exact ⟨rfl, o', n, rfl, rfl, hname⟩
        · obtain ⟨hk, m, _, c, _, hn, hio⟩ :=
            (cloneEdges_spec false (outs.filter fun n => inherit.mem n.name && !(names outputs).contains n.name) next).2.2.2.2.1 e he
          simp only [Bool.false_eq_true, if_false] at hio
          exact ⟨hk, m, c, hio.1, hio.2, hn.symm⟩
  | .chain prev cur, outs, next, o, es, p, n', h => by
    simp only [BCtx.reverse, bind, Except.bind] at h
    split at h
    · cases h
    · rename_i r1 h1
      obtain ⟨o1, e1, p1, n1⟩ := r1
      split at h
      · cases h
      · rename_i r2 h2
        obtain ⟨o2, e2, p2, n2⟩ := r2
        simp only [Except.ok.injEq, Prod.mk.injEq] at h
        obtain ⟨_, rfl, _, _⟩ := h
        intro e he
        rcases List.mem_append.1 he with he | he
        · exact reverse_edges cur outs next o1 e1 p1 n1 h1 e he
        · exact reverse_edges prev o1 n1 o2 e2 p2 n2 h2 e he

end CM
