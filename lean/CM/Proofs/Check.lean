/-
  CM.Proofs.Check — the hypotheses of `vm_correct` as executable checks, so that the driver can evaluate them on
  every graph extracted from the real compiler (the correspondence suite reports how many real graphs satisfy them)
  and so that examples can discharge them by evaluation.
-/
import CM.Proofs.Correct
import CM.Proofs.Decode
import CM.Proofs.CorrectC
import CM.Proofs.DecodeG
namespace CM

/-- `GraphOK`, decided node by node -/
def Graph.okB (g : Graph) : Bool :=
  (List.range g.nodes.length).all fun n =>
    (g.node n).parents.all (· < n) &&
    (match (g.node n).edge with | some e => e.wf | none => true) &&
    (!g.usedInputs.contains n || (g.node n).edge.isNone)

theorem node_eq_of_getElem? (g : Graph) (n : Nat) (nd : Node) (h : g.nodes[n]? = some nd) : g.node n = nd := by
  simp [Graph.node, List.getD_eq_getElem?_getD, h]

theorem okB_sound (g : Graph) (h : g.okB = true) : GraphOK g := by
  simp only [Graph.okB, List.all_eq_true, List.mem_range, Bool.and_eq_true] at h
  have lt : ∀ n nd, g.nodes[n]? = some nd → n < g.nodes.length := by
    intro n nd hn
    exact (List.getElem?_eq_some_iff.mp hn).1
  refine { topo := ?_, inputsLeaves := ?_, wf := ?_ }
  · intro n nd hn p hp
    have := (h n (lt n nd hn)).1.1
    rw [node_eq_of_getElem? g n nd hn] at this
    simpa using this p hp
  · intro n nd hn hu
    have := (h n (lt n nd hn)).2
    rw [node_eq_of_getElem? g n nd hn, hu] at this
    simpa using this
  · intro n nd e hn he
    have := (h n (lt n nd hn)).1.2
    rw [node_eq_of_getElem? g n nd hn, he] at this
    exact this

/-- `CallOK`, decided over the used inputs -/
def Graph.callOKB (g : Graph) (env : String → Option Val) : Bool :=
  g.usedInputs.all (fun j => (env (g.node j).name).isSome && decide (j < g.nodes.length)) && decide (g.output < g.nodes.length)

theorem callOKB_sound (g : Graph) (env : String → Option Val) (h : g.callOKB env = true) : CallOK g env := by
  simp only [Graph.callOKB, Bool.and_eq_true, List.all_eq_true, decide_eq_true_eq] at h
  refine ⟨?_, ?_, h.2⟩
  · intro j hj
    exact (h.1 j (by simpa using hj)).1
  · intro j hj
    exact (h.1 j (by simpa using hj)).2


/-! ### `Plain`, decided -/

def Graph.plainB (g : Graph) (d : DenCfg) : Bool :=
  (List.range g.nodes.length).all fun n =>
    (g.node n).parents.all (· < n) &&
    (!g.usedInputs.contains n || (g.node n).edge.isNone) &&
    (match (g.node n).edge with
     | none => true
     | some e => e.plain && (!e.passThrough || decide (1 ≤ (g.node n).parents.length)) &&
        (match e with
         | .function f _ _ => (d.constFns.find? (·.1 == f)).isNone && !d.impureFns.contains f
         | _ => true))

theorem call_pure (d : DenCfg) (n : Nat) (f : String) (pos : List Val) (kwn : List String) (kwv : List Val)
    (h1 : (d.constFns.find? (·.1 == f)).isNone = true) (h2 : d.impureFns.contains f = false) :
    d.call n f pos kwn kwv = .app f pos kwn kwv := by
  unfold DenCfg.call
  cases hf : d.constFns.find? (·.1 == f) with
  | some p => simp [hf] at h1
  | none =>
    have h2' : ¬ f ∈ d.impureFns := by simpa using h2
    simp [h2']

theorem plainB_sound (g : Graph) (d : DenCfg) (h : g.plainB d = true) : Plain g d := by
  simp only [Graph.plainB, List.all_eq_true, List.mem_range, Bool.and_eq_true] at h
  have lt : ∀ n nd, g.nodes[n]? = some nd → n < g.nodes.length := by
    intro n nd hn
    exact (List.getElem?_eq_some_iff.mp hn).1
  refine { topo := ?_, inputsLeaves := ?_, plain := ?_, arity := ?_, pure := ?_ }
  · intro n nd hn p hp
    have := (h n (lt n nd hn)).1.1
    rw [node_eq_of_getElem? g n nd hn] at this
    simpa using this p hp
  · intro n nd hn hu
    have := (h n (lt n nd hn)).1.2
    rw [node_eq_of_getElem? g n nd hn, hu] at this
    simpa using this
  · intro n nd e hn he
    have := (h n (lt n nd hn)).2
    rw [node_eq_of_getElem? g n nd hn, he] at this
    simp only [Bool.and_eq_true] at this
    exact this.1.1
  · intro n nd e hn he hpt
    have := (h n (lt n nd hn)).2
    rw [node_eq_of_getElem? g n nd hn, he] at this
    simp only [Bool.and_eq_true, hpt, Bool.not_true, Bool.false_or, decide_eq_true_eq] at this
    exact this.1.2
  · intro n nd f kwn sil hn he pos kwv
    have := (h n (lt n nd hn)).2
    rw [node_eq_of_getElem? g n nd hn, he] at this
    simp only [Bool.and_eq_true, Bool.not_eq_true'] at this
    exact call_pure d n f pos kwn kwv this.2.1 this.2.2


/-- `GraphOKC`, decided -/
def Graph.okCB (g : Graph) : Bool :=
  (List.range g.nodes.length).all fun n =>
    (g.node n).parents.all (· < n) &&
    (match (g.node n).edge with
     | some e => e.wf || (match e with | .cache _ => true | _ => false)
     | none => true) &&
    (!g.usedInputs.contains n || (g.node n).edge.isNone)

theorem okCB_sound (g : Graph) (h : g.okCB = true) : GraphOKC g := by
  simp only [Graph.okCB, List.all_eq_true, List.mem_range, Bool.and_eq_true] at h
  have lt : ∀ n nd, g.nodes[n]? = some nd → n < g.nodes.length := by
    intro n nd hn
    exact (List.getElem?_eq_some_iff.mp hn).1
  refine { topo := ?_, inputsLeaves := ?_, wfc := ?_ }
  · intro n nd hn p hp
    have := (h n (lt n nd hn)).1.1
    rw [node_eq_of_getElem? g n nd hn] at this
    simpa using this p hp
  · intro n nd hn hu
    have := (h n (lt n nd hn)).2
    rw [node_eq_of_getElem? g n nd hn, hu] at this
    simpa using this
  · intro n nd e hn he
    have := (h n (lt n nd hn)).1.2
    rw [node_eq_of_getElem? g n nd hn, he] at this
    simp only [Bool.or_eq_true] at this
    rcases this with h1 | h2
    · exact .inl h1
    · cases e <;> simp at h2
      exact .inr ⟨_, rfl⟩


/-! ### `PlainG`, decided -/

def Graph.plainGB (g : Graph) (d : DenCfg) (x : Val) : Bool :=
  g.plainB d &&
  (g.usedInputs.all fun n => match d.env (g.node n).name with | some v => v == x | none => false) &&
  (List.range g.nodes.length).all fun n =>
    (match (g.node n).edge with
     | none => true
     | some e => e.noPlaceholder &&
        (match e with
         | .byValue i => i.plain &&
            (match i with
             | .function f _ _ => (d.constFns.find? (·.1 == f)).isNone && !d.impureFns.contains f
             | _ => true)
         | _ => true))

theorem plainGB_sound (g : Graph) (d : DenCfg) (x : Val) (h : g.plainGB d x = true) : PlainG g d x := by
  simp only [Graph.plainGB, Bool.and_eq_true, List.all_eq_true, List.mem_range] at h
  obtain ⟨⟨hp, hb⟩, h⟩ := h
  have lt : ∀ n nd, g.nodes[n]? = some nd → n < g.nodes.length := by
    intro n nd hn
    exact (List.getElem?_eq_some_iff.mp hn).1
  refine { toPlain := plainB_sound g d hp, bound := ?_, consts := ?_, innerPlain := ?_, innerPure := ?_ }
  · intro n hu
    have := hb n (by simpa using hu)
    cases hv : d.env (g.node n).name with
    | none => simp [hv] at this
    | some v =>
      simp only [hv] at this
      rw [Val.eq_of_beq v x this]
  · intro n nd e hn he
    have := h n (lt n nd hn)
    rw [node_eq_of_getElem? g n nd hn, he] at this
    simp only [Bool.and_eq_true] at this
    exact this.1
  · intro n nd i hn he
    have := h n (lt n nd hn)
    rw [node_eq_of_getElem? g n nd hn, he] at this
    simp only [Bool.and_eq_true] at this
    exact this.2.1
  · intro n nd i hn he f kwn sil hi pos kwv
    have := h n (lt n nd hn)
    rw [node_eq_of_getElem? g n nd hn, he, hi] at this
    simp only [Bool.and_eq_true, Bool.not_eq_true'] at this
    exact call_pure d n f pos kwn kwv this.2.2.1 this.2.2.2

end CM
