/-
  CM.Proofs.BigMono — more fuel never changes a result of the big-step evaluator.
-/
import CM.Proofs.Big
namespace CM

def BRes.isFuel : BRes → Bool
  | .fuel => true
  | _ => false

theorem big_mono (g : Graph) : ∀ (f : Nat) (t : Task) (m : Mem), (big g f t m).isFuel = false → big g (f + 1) t m = big g f t m := by
  intro f
  induction f with
  | zero => intro t m h; simp [big, BRes.isFuel] at h
  | succ f ih =>
    intro t m h
    have notFuel : ∀ {t' m'} {K : BRes → BRes}, (K (big g f t' m')).isFuel = false → (K .fuel).isFuel = true →
        (big g f t' m').isFuel = false := by
      intro t' m' K h1 h2
      cases hq : big g f t' m' with
      | fuel => rw [hq] at h1; rw [h1] at h2; cases h2
      | ok _ _ => rfl
      | raised _ _ => rfl
    cases t with
    | hash n =>
      rw [big_hash g (f + 1), big_hash g f]
      rw [big_hash g f] at h
      cases hx : m.hashes.memo n with
      | some x => rfl
      | none =>
        simp only [hx] at h ⊢
        cases he : (g.node n).edge with
        | none => rfl
        | some e =>
          simp only [he] at h ⊢
          have hr : (big g f (.prog n (e.hashProg (g.parents n).length)) m).isFuel = false := by
            cases hp : big g f (.prog n (e.hashProg (g.parents n).length)) m with
            | fuel => simp [hp, BRes.isFuel] at h
            | ok _ _ => rfl
            | raised _ _ => rfl
          rw [ih _ _ hr]
    | value n =>
      rw [big_value g (f + 1), big_value g f]
      rw [big_value g f] at h
      cases hx : m.cache.memo n with
      | some x => rfl
      | none =>
        simp only [hx] at h ⊢
        cases he : (g.node n).edge with
        | none => rfl
        | some e =>
          simp only [he] at h ⊢
          have hr : (big g f (.prog n (e.evalProg (g.parents n).length)) m).isFuel = false := by
            cases hp : big g f (.prog n (e.evalProg (g.parents n).length)) m with
            | fuel => simp [hp, BRes.isFuel] at h
            | ok x _ => rfl
            | raised _ _ => rfl
          rw [ih _ _ hr]
    | prog n p =>
      rw [big_prog g (f + 1), big_prog g f]
      rw [big_prog g f] at h
      cases hr : runEffs p m.world with
      | mk p' w =>
        simp only [hr] at h ⊢
        cases p' with
        | ret x => rfl
        | raise e => rfl
        | eff op k => rfl
        | req r k =>
          simp only at h ⊢
          have h1 : (big g f (.req n r) { m with world := w }).isFuel = false := by
            cases hq : big g f (.req n r) { m with world := w } with
            | fuel => simp [hq, BRes.isFuel] at h
            | ok _ _ => rfl
            | raised _ _ => rfl
          rw [ih _ _ h1]
          cases hq : big g f (.req n r) { m with world := w } with
          | fuel => simp [hq, BRes.isFuel] at h1
          | raised _ _ => rfl
          | ok x m' =>
            simp only [hq] at h ⊢
            exact ih _ _ h
    | req n r =>
      rw [big_req g (f + 1), big_req g f]
      rw [big_req g f] at h
      cases r with
      | parentHash i =>
        simp only at h ⊢
        cases hp : (g.parents n)[i]? with
        | none => rfl
        | some p =>
          simp only [hp] at h ⊢
          have h1 : (big g f (.hash p) m).isFuel = false := by
            cases hq : big g f (.hash p) m with
            | fuel => simp [hq, BRes.isFuel] at h
            | ok _ _ => rfl
            | raised _ _ => rfl
          rw [ih _ _ h1]
      | parentValue i =>
        simp only at h ⊢
        cases hp : (g.parents n)[i]? with
        | none => rfl
        | some p =>
          simp only [hp] at h ⊢
          exact ih _ _ h
      | currentHash =>
        simp only at h ⊢
        have h1 : (big g f (.hash n) m).isFuel = false := by
          cases hq : big g f (.hash n) m with
          | fuel => simp [hq, BRes.isFuel] at h
          | ok _ _ => rfl
          | raised _ _ => rfl
        rw [ih _ _ h1]
      | payload =>
        simp only at h ⊢
        have h1 : (big g f (.hash n) m).isFuel = false := by
          cases hq : big g f (.hash n) m with
          | fuel => simp [hq, BRes.isFuel] at h
          | ok _ _ => rfl
          | raised _ _ => rfl
        rw [ih _ _ h1]
      | await rs =>
        simp only at h ⊢
        exact ih _ _ h
      | call fn pos kwn kwv => rfl
    | reqs n rsRev acc =>
      rw [big_reqs g (f + 1), big_reqs g f]
      rw [big_reqs g f] at h
      cases rsRev with
      | nil => rfl
      | cons r rest =>
        simp only at h ⊢
        have h1 : (big g f (.req n r) m).isFuel = false := by
          cases hq : big g f (.req n r) m with
          | fuel => simp [hq, BRes.isFuel] at h
          | ok _ _ => rfl
          | raised _ _ => rfl
        rw [ih _ _ h1]
        cases hq : big g f (.req n r) m with
        | fuel => simp [hq, BRes.isFuel] at h1
        | raised _ _ => rfl
        | ok x m' =>
          simp only [hq] at h ⊢
          exact ih _ _ h

theorem big_mono_le (g : Graph) (f f' : Nat) (t : Task) (m : Mem) (hle : f ≤ f') (h : (big g f t m).isFuel = false) :
    big g f' t m = big g f t m := by
  induction hle with
  | refl => rfl
  | step hle ih =>
    rw [big_mono g _ t m (by rw [ih]; exact h), ih]

end CM
