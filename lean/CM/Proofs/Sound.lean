/-
  CM.Proofs.Sound — stage 2a of `vm_correct`: whatever the big-step evaluator (hence, by `CM.Proofs.Sim`, the
  stack machine) *returns* is the denotation, for every well-formed cache-free graph and every memory whose memo
  tables are sound.  Plain induction on the fuel over all tasks simultaneously.
-/
import CM.Proofs.BigMono
import CM.Proofs.DenLemmas
import CM.Proofs.InterpLemmas
namespace CM

/-- well-formed graphs: parents precede children, used inputs are leaves, edges are cache-free with wrappers around
simple edges (what `TreeNode.from_edges`, `normalize_bag` rule 1a and the repaired decorators guarantee) -/
structure GraphBase (g : Graph) : Prop where
  topo : ∀ (n : Nat) (nd : Node), g.nodes[n]? = some nd → ∀ p ∈ nd.parents, p < n
  inputsLeaves : ∀ (n : Nat) (nd : Node), g.nodes[n]? = some nd → g.usedInputs.contains n = true → nd.edge = none

structure GraphOK (g : Graph) : Prop extends GraphBase g where
  wf : ∀ (n : Nat) (nd : Node) (e : EdgeK), g.nodes[n]? = some nd → nd.edge = some e → e.wf = true

/-- the pure handlers of node `n`: its parents' denotations, its own hash, uninterpreted calls -/
def ctxOf (g : Graph) (d : DenCfg) (n : Nat) : Ctx :=
  { ph := fun j => match (g.parents n)[j]? with
      | some p => (den g d p).h.map (·.1)
      | none => .error .internal
    pv := fun j => match (g.parents n)[j]? with
      | some p => (den g d p).v
      | none => .error .internal
    cur := (den g d n).h
    call := d.call n }

theorem node_of_edge (g : Graph) (n : Nat) (e : EdgeK) (h : (g.node n).edge = some e) : g.nodes[n]? = some (g.node n) := by
  simp only [Graph.node, List.getD_eq_getElem?_getD] at h ⊢
  cases hn : g.nodes[n]? with
  | none => simp [hn] at h; cases h
  | some nd => simp

/-- the denotation of an inner node, unfolded against `ctxOf` -/
theorem den_inner (g : Graph) (d : DenCfg) (ok : GraphBase g) (n : Nat) (e : EdgeK) (he : (g.node n).edge = some e) :
    (den g d n).h = (interp { ctxOf g d n with cur := .error .internal } (e.hashProg (g.parents n).length)).bind Item.asHout ∧
    (den g d n).v = (interp (ctxOf g d n) (e.evalProg (g.parents n).length)).bind Item.asVal := by
  have hnode := node_of_edge g n e he
  have hin : g.usedInputs.contains n = false := by
    cases hc : g.usedInputs.contains n with
    | false => rfl
    | true => have := ok.inputsLeaves n _ hnode hc; rw [he] at this; cases this
  have hden := den_eq g d n (g.node n) hnode
  -- the context built inside `denNode` is `ctxOf` with an undefined current hash
  have hctx : denCtx d ((denAll g d).take n) n (g.node n) = { ctxOf g d n with cur := .error .internal } := by
    simp only [denCtx, ctxOf, Graph.parents]
    congr 1
    · funext j
      cases hj : (g.node n).parents[j]? with
      | none => rfl
      | some p =>
        have hp : p < n := ok.topo n _ hnode p (List.mem_of_getElem? hj)
        simp only [take_getD g d n p hp]
    · funext j
      cases hj : (g.node n).parents[j]? with
      | none => rfl
      | some p =>
        have hp : p < n := ok.topo n _ hnode p (List.mem_of_getElem? hj)
        simp only [take_getD g d n p hp]
  have hlen : (g.node n).parents.length = (g.parents n).length := rfl
  have hh : (den g d n).h = (interp { ctxOf g d n with cur := .error .internal } (e.hashProg (g.parents n).length)).bind Item.asHout := by
    rw [hden]
    simp only [denNode, hin, he, Bool.false_eq_true, ↓reduceIte, hctx, hlen]
  refine ⟨hh, ?_⟩
  rw [hden]
  simp only [denNode, hin, he, Bool.false_eq_true, ↓reduceIte, hctx, hlen]
  have : ({ ctxOf g d n with cur := (interp { ctxOf g d n with cur := .error .internal } (e.hashProg (g.parents n).length)).bind Item.asHout } : Ctx)
      = ctxOf g d n := by
    rw [← hh]
    rfl
  rw [this]

/-! ### the invariant -/

structure MemSound (g : Graph) (d : DenCfg) (m : Mem) : Prop where
  vals : ∀ n v, m.cache.memo n = some v → (den g d n).v = .ok v
  hashes : ∀ n x, m.hashes.memo n = some x → (den g d n).h = x.asHout
  consts : m.world.constFns = d.constFns
  impure : m.world.impureFns = d.impureFns
  callNo : m.world.callNo = d.callNo

theorem evict_memo {α : Type} (s s' : Scratch α) (k j : Nat) (v : α) (h : s.evict k = some s') (hm : s'.memo j = some v) :
    s.memo j = some v := by
  unfold Scratch.evict at h
  split at h
  · cases h
  · cases h
  · injection h with h; subst h
    simp only [upd] at hm
    split at hm
    · cases hm
    · exact hm
  · injection h with h; subst h; exact hm

theorem evictAll_memo : ∀ (ps : List Nat) (h : Scratch Item) (c : Scratch Val) (h' : Scratch Item) (c' : Scratch Val),
    evictAll ps h c = some (h', c') → (∀ j x, h'.memo j = some x → h.memo j = some x) ∧ (∀ j v, c'.memo j = some v → c.memo j = some v)
  | [], h, c, h', c', he => by
    simp only [evictAll] at he; injection he with he; injection he with h1 h2; subst h1; subst h2
    exact ⟨fun _ _ h => h, fun _ _ h => h⟩
  | p :: ps, h, c, h', c', he => by
    simp only [evictAll] at he
    cases hh : h.evict p with
    | none => simp [hh] at he
    | some h1 =>
      cases hc : c.evict p with
      | none => simp [hh, hc] at he
      | some c1 =>
        simp only [hh, hc] at he
        obtain ⟨i1, i2⟩ := evictAll_memo ps h1 c1 h' c' he
        exact ⟨fun j x hx => evict_memo h h1 p j x hh (i1 j x hx), fun j v hv => evict_memo c c1 p j v hc (i2 j v hv)⟩

/-- what a successful task establishes -/
def Post (g : Graph) (d : DenCfg) : Task → Item → Prop
  | .hash n, x => (den g d n).h = x.asHout
  | .value n, x => ∃ v, x = .val v ∧ (den g d n).v = .ok v
  | .prog n p, x => interp (ctxOf g d n) p = .ok x
  | .req n r, x => interpReq (ctxOf g d n) r = .ok x
  | .reqs n rsRev acc, x => ∃ xs, interpReqs (ctxOf g d n) rsRev.reverse = .ok xs ∧ x = .tup (xs ++ acc)

theorem world_call_ok (g : Graph) (d : DenCfg) (m : Mem) (hs : MemSound g d m) (n : Nat) (f : String) (pos : List Val)
    (kwn : List String) (kwv : List Val) (v : Val) (w : World) (h : m.world.call n f pos kwn kwv = (.ok v, w)) :
    v = d.call n f pos kwn kwv ∧ w.constFns = d.constFns ∧ w.impureFns = d.impureFns ∧ w.callNo = d.callNo := by
  unfold World.call at h
  simp only at h
  split at h
  · simp at h
  · split at h
    · next c cv hfind =>
      injection h with h1 h2
      injection h1 with h1
      subst h1; subst h2
      refine ⟨?_, hs.consts, hs.impure, hs.callNo⟩
      simp only [DenCfg.call, ← hs.consts, hfind]
    · next hnone =>
      have hnone' : m.world.constFns.find? (fun x => x.1 == f) = none := by
        cases hf : m.world.constFns.find? (fun x => x.1 == f) with
        | none => rfl
        | some p => exact absurd hf (by obtain ⟨a, b⟩ := p; exact hnone a b)
      split at h
      · next himp =>
        injection h with h1 h2
        injection h1 with h1
        subst h1; subst h2
        refine ⟨?_, hs.consts, hs.impure, hs.callNo⟩
        simp only [DenCfg.call, ← hs.consts, hnone', ← hs.impure, himp, ← hs.callNo, ↓reduceIte]
      · next himp =>
        injection h with h1 h2
        injection h1 with h1
        subst h1; subst h2
        refine ⟨?_, hs.consts, hs.impure, hs.callNo⟩
        simp only [DenCfg.call, ← hs.consts, hnone', ← hs.impure, himp]
        rfl

/-- programs handed to the evaluator are cache-free -/
def TaskOK : Task → Prop
  | .prog _ p => p.NoEff
  | _ => True

theorem memSound_world (g : Graph) (d : DenCfg) (m : Mem) (w : World) (hs : MemSound g d m)
    (h1 : w.constFns = d.constFns) (h2 : w.impureFns = d.impureFns) (h3 : w.callNo = d.callNo) :
    MemSound g d { m with world := w } :=
  ⟨hs.vals, hs.hashes, h1, h2, h3⟩

/-- **Soundness of the big-step evaluator** (stage 2a).  For every fuel, task and sound memory: a successful task
leaves the memory sound and returns what the denotation prescribes. -/
theorem big_sound (g : Graph) (d : DenCfg) (ok : GraphOK g) : ∀ (f : Nat) (t : Task) (m : Mem) (x : Item) (m' : Mem),
    MemSound g d m → TaskOK t → big g f t m = .ok x m' → MemSound g d m' ∧ Post g d t x := by
  intro f
  induction f with
  | zero => intro t m x m' _ _ h; simp [big] at h
  | succ f ih =>
    intro t m x m' hs htask hb
    cases t with
    | hash n =>
      rw [big_hash] at hb
      cases hx : m.hashes.memo n with
      | some x0 =>
        simp only [hx] at hb
        injection hb with h1 h2; subst h1; subst h2
        exact ⟨hs, hs.hashes n _ hx⟩
      | none =>
        simp only [hx] at hb
        cases he : (g.node n).edge with
        | none => simp [he] at hb
        | some e =>
          simp only [he] at hb
          have hnode := node_of_edge g n e he
          have hwf := ok.wf n _ e hnode he
          cases hp : big g f (.prog n (e.hashProg (g.parents n).length)) m with
          | fuel => simp [hp] at hb
          | raised _ _ => simp [hp] at hb
          | ok x1 m1 =>
            simp only [hp] at hb
            obtain ⟨hs1, hint⟩ := ih (.prog n (e.hashProg (g.parents n).length)) _ _ _ hs (hashProg_noEff e _ hwf) hp
            simp only [Post] at hint
            -- the hash program never asks for the node's own hash
            have hden := (den_inner g d ok.toGraphBase n e he).1
            rw [interp_noCur (ctxOf g d n) _ _ (hashProg_noCur e _ hwf), hint] at hden
            cases hy : m1.hashes.memo n with
            | some _ => simp [hy] at hb
            | none =>
              simp only [hy] at hb
              cases hset : m1.hashes.set n x1 with
              | none => simp [hset] at hb
              | some h' =>
                simp only [hset] at hb
                injection hb with h1 h2; subst h1; subst h2
                refine ⟨⟨hs1.vals, ?_, hs1.consts, hs1.impure, hs1.callNo⟩, hden⟩
                intro j y hj
                unfold Scratch.set at hset
                split at hset
                · cases hset
                · injection hset with hset; subst hset
                  simp only [upd] at hj
                  split at hj
                  · next hjn => injection hj with hj; subst hj; subst hjn; exact hden
                  · exact hs1.hashes j y hj
    | value n =>
      rw [big_value] at hb
      cases hx : m.cache.memo n with
      | some v0 =>
        simp only [hx] at hb
        injection hb with h1 h2; subst h1; subst h2
        exact ⟨hs, v0, rfl, hs.vals n _ hx⟩
      | none =>
        simp only [hx] at hb
        cases he : (g.node n).edge with
        | none => simp [he] at hb
        | some e =>
          simp only [he] at hb
          have hnode := node_of_edge g n e he
          have hwf := ok.wf n _ e hnode he
          cases hp : big g f (.prog n (e.evalProg (g.parents n).length)) m with
          | fuel => simp [hp] at hb
          | raised _ _ => simp [hp] at hb
          | ok x1 m1 =>
            simp only [hp] at hb
            obtain ⟨hs1, hint⟩ := ih (.prog n (e.evalProg (g.parents n).length)) _ _ _ hs (evalProg_noEff e _ hwf) hp
            simp only [Post] at hint
            cases x1 with
            | val v =>
              simp only at hb
              have hden := (den_inner g d ok.toGraphBase n e he).2
              rw [hint] at hden
              cases hy : m1.cache.memo n with
              | some _ => simp [hy] at hb
              | none =>
                simp only [hy] at hb
                cases hset : m1.cache.set n v with
                | none => simp [hset] at hb
                | some c' =>
                  simp only [hset] at hb
                  injection hb with h1 h2; subst h1; subst h2
                  refine ⟨⟨?_, hs1.hashes, hs1.consts, hs1.impure, hs1.callNo⟩, v, rfl, hden⟩
                  intro j y hj
                  unfold Scratch.set at hset
                  split at hset
                  · cases hset
                  · injection hset with hset; subst hset
                    simp only [upd] at hj
                    split at hj
                    · next hjn => injection hj with hj; subst hj; subst hjn; exact hden
                    · exact hs1.vals j y hj
            | hash _ | hout _ _ | node _ | tup _ => simp at hb
    | prog n p =>
      rw [big_prog] at hb
      have hne : p.NoEff := htask
      rw [runEffs_noEff p m.world hne] at hb
      cases hne with
      | ret x0 =>
        simp only at hb
        cases hev : evictAll (g.parents n) m.hashes m.cache with
        | none => simp [hev] at hb
        | some hc =>
          obtain ⟨h', c'⟩ := hc
          simp only [hev] at hb
          injection hb with h1 h2; subst h1; subst h2
          obtain ⟨i1, i2⟩ := evictAll_memo _ _ _ _ _ hev
          exact ⟨⟨fun j v hv => hs.vals j v (i2 j v hv), fun j y hy => hs.hashes j y (i1 j y hy), hs.consts, hs.impure, hs.callNo⟩, rfl⟩
      | raise e0 => simp at hb
      | req r k hk =>
        simp only at hb
        cases hq : big g f (.req n r) { m with world := m.world } with
        | fuel => simp [hq] at hb
        | raised _ _ => simp [hq] at hb
        | ok y m1 =>
          simp only [hq] at hb
          obtain ⟨hs1, hr⟩ := ih (.req n r) _ _ _ hs trivial hq
          obtain ⟨hs2, hp⟩ := ih (.prog n (k y)) _ _ _ hs1 (hk y) hb
          simp only [Post] at hr hp ⊢
          exact ⟨hs2, by simp only [interp, hr, hp]⟩
    | req n r =>
      rw [big_req] at hb
      cases r with
      | parentHash i =>
        simp only at hb
        cases hp : (g.parents n)[i]? with
        | none => simp [hp] at hb
        | some p =>
          simp only [hp] at hb
          cases hq : big g f (.hash p) m with
          | fuel => simp [hq] at hb
          | raised _ _ => simp [hq] at hb
          | ok y m1 =>
            simp only [hq] at hb
            obtain ⟨hs1, hpost⟩ := ih (.hash p) _ _ _ hs trivial hq
            simp only [Post] at hpost
            cases y with
            | hout h pl =>
              simp only at hb
              injection hb with h1 h2; subst h1; subst h2
              refine ⟨hs1, ?_⟩
              simp only [Post, interpReq, ctxOf, hp, hpost, Item.asHout, Except.map]
            | val _ | hash _ | node _ | tup _ => simp at hb
      | parentValue i =>
        simp only at hb
        cases hp : (g.parents n)[i]? with
        | none => simp [hp] at hb
        | some p =>
          simp only [hp] at hb
          obtain ⟨hs1, v, hv, hden⟩ := ih (.value p) _ _ _ hs trivial hb
          subst hv
          exact ⟨hs1, by simp only [Post, interpReq, ctxOf, hp, hden, Except.map]⟩
      | currentHash =>
        simp only at hb
        cases hq : big g f (.hash n) m with
        | fuel => simp [hq] at hb
        | raised _ _ => simp [hq] at hb
        | ok y m1 =>
          simp only [hq] at hb
          obtain ⟨hs1, hpost⟩ := ih (.hash n) _ _ _ hs trivial hq
          simp only [Post] at hpost
          cases y with
          | hout h pl =>
            simp only at hb
            injection hb with h1 h2; subst h1; subst h2
            exact ⟨hs1, by simp only [Post, interpReq, ctxOf, hpost, Item.asHout, Except.map]⟩
          | val _ | hash _ | node _ | tup _ => simp at hb
      | payload =>
        simp only at hb
        cases hq : big g f (.hash n) m with
        | fuel => simp [hq] at hb
        | raised _ _ => simp [hq] at hb
        | ok y m1 =>
          simp only [hq] at hb
          obtain ⟨hs1, hpost⟩ := ih (.hash n) _ _ _ hs trivial hq
          simp only [Post] at hpost
          cases y with
          | hout h pl =>
            simp only at hb
            injection hb with h1 h2; subst h1; subst h2
            exact ⟨hs1, by simp only [Post, interpReq, ctxOf, hpost, Item.asHout, Except.map]⟩
          | val _ | hash _ | node _ | tup _ => simp at hb
      | await rs =>
        simp only at hb
        obtain ⟨hs1, xs, hxs, hx⟩ := ih (.reqs n rs.reverse []) _ _ _ hs trivial hb
        subst hx
        refine ⟨hs1, ?_⟩
        simp only [List.reverse_reverse] at hxs
        simp only [Post, interpReq, hxs, Except.map, List.append_nil]
      | call fn pos kwn kwv =>
        simp only at hb
        cases hc : m.world.call n fn pos kwn kwv with
        | mk rv w =>
          simp only [hc] at hb
          cases rv with
          | error _ => simp at hb
          | ok v =>
            simp only at hb
            injection hb with h1 h2; subst h1; subst h2
            obtain ⟨hv, c1, c2, c3⟩ := world_call_ok g d m hs n fn pos kwn kwv v w hc
            exact ⟨memSound_world g d m w hs c1 c2 c3, by simp only [Post, interpReq, ctxOf, hv]⟩
    | reqs n rsRev acc =>
      rw [big_reqs] at hb
      cases rsRev with
      | nil =>
        simp only at hb
        injection hb with h1 h2; subst h1; subst h2
        exact ⟨hs, [], by simp [interpReqs], by simp⟩
      | cons r rest =>
        simp only at hb
        cases hq : big g f (.req n r) m with
        | fuel => simp [hq] at hb
        | raised _ _ => simp [hq] at hb
        | ok y m1 =>
          simp only [hq] at hb
          obtain ⟨hs1, hr⟩ := ih (.req n r) _ _ _ hs trivial hq
          obtain ⟨hs2, xs, hxs, hx⟩ := ih (.reqs n rest (y :: acc)) _ _ _ hs1 trivial hb
          simp only [Post] at hr
          refine ⟨hs2, xs ++ [y], ?_, by rw [hx]; simp⟩
          simp only [List.reverse_cons, interpReqs_snoc, hr, hxs, Except.map]

end CM
