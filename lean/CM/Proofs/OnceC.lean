/-
  CM.Proofs.OnceC — the counter invariant and the at-most-once bound of CM.Proofs.Once for graphs that may contain
  cache edges: cache operations change neither the scratch tables nor the call log.
-/
import CM.Proofs.OnceRaise
import CM.Proofs.EffLemmas
namespace CM

theorem topo_of_base (g : Graph) (ok : GraphBase g) : g.Topo := by
  intro n p hp
  unfold Graph.parents Graph.node at hp
  rw [List.getD_eq_getElem?_getD] at hp
  cases hn : g.nodes[n]? with
  | none => simp [hn] at hp; cases hp
  | some nd => simp [hn] at hp; exact ok.topo n nd hn p hp

/-- as `PreC`, without the restriction to cache-free programs -/
def PreCC (g : Graph) (G : Ghost) (hp : Bool) : Task → Prop
  | .hash n => remaining g G n ≠ 0
  | .value n => remaining g G n ≠ 0
  | .prog n p => Running g G hp n ∧ (hp = true → p.NoCur)
  | .req n r => Running g G hp n ∧ (hp = true → r.noCur = true)
  | .reqs n rs _ => Running g G hp n ∧ (hp = true → Req.noCurList rs = true)

/-- **Counters and call log together** (stages 2b + 2e). -/
theorem big_inv_c (g : Graph) (ok : GraphOKC g) : ∀ (f : Nat) (t : Task) (hp : Bool) (m : Mem) (G : Ghost) (x : Item) (m' : Mem)
    (b B K : Nat), CInv g m G none none → PreCC g G hp t → PreL g m G hp b B K t → big g f t m = .ok x m' →
    ∃ G', PostC g hp m G m' G' t ∧ PostL g m m' G' hp B K t := by
  have ht := topo_of_base g ok.toGraphBase
  intro f
  induction f with
  | zero => intro t hp m G x m' _ _ _ _ _ _ h; simp [big] at h
  | succ f ih =>
    intro t hp m G x m' b B K hi hpre hl hb
    cases t with
    | hash n =>
      rw [big_hash] at hb
      have hact : remaining g G n ≠ 0 := hpre
      cases hx : m.hashes.memo n with
      | some x0 =>
        simp only [hx] at hb; injection hb with h1 h2; subst h1; subst h2
        exact ⟨G, ⟨hi, Frame.refl .., KeepV.refl ..⟩, ⟨hl.inv, hl.bud, fun _ _ => rfl⟩⟩
      | none =>
        simp only [hx] at hb
        cases he : (g.node n).edge with
        | none => simp [he] at hb
        | some e =>
          simp only [he] at hb
          have hnode := node_of_edge g n e he
          have hwf := ok.wfc n _ e hnode he
          have hnin : g.inputs.contains n = false := by
            cases hc : g.inputs.contains n with
            | false => rfl
            | true => exact absurd hx (hi.ih n hc hact)
          have hlive := live_of_active g ht G n hact hnin
          have hdH : G.dH n = false := by
            cases hd : G.dH n with
            | false => rfl
            | true => exact absurd hx (hi.mh n (by simp) hd hact)
          have hflag : G.flag true n = false := by simp [Ghost.flag, hdH]
          have hhb : g.hb n = e.hashCalls := by simp [Graph.hb, he]
          cases hq : big g f (.prog n (e.hashProg (g.parents n).length)) m with
          | fuel => simp [hq] at hb
          | raised _ _ => simp [hq] at hb
          | ok x1 m1 =>
            simp only [hq] at hb
            have hl1 : PreL g m G true e.hashCalls B K (.prog n (e.hashProg (g.parents n).length)) :=
              ⟨hl.inv, by have := hl.bud; simp only [cost, Task.node, pendH_todo g G n hdH, hhb, pend] at this ⊢; simpa using this,
               hashProg_calls_c e _ hwf⟩
            obtain ⟨G1, ⟨hi1, fr1, hf1, kv1, hm1, hr1⟩, pl1⟩ := ih (.prog n (e.hashProg (g.parents n).length)) true m G x1 m1
              e.hashCalls B K hi ⟨⟨hact, hlive, hflag⟩, fun _ => hashProg_noCur_c e _ hwf⟩ hl1 hq
            simp only [↓reduceIte] at hi1 hm1
            rw [hx] at hm1
            simp only [hm1] at hb
            have hcnt : m1.hashes.counts n ≠ none := by
              rw [hi1.ch n, hr1]; intro h0; exact hact ((toOpt_eq_none _).mp h0)
            rw [set_spec m1.hashes n x1 hcnt] at hb
            simp only at hb
            injection hb with h1 h2; subst h1; subst h2
            have hd1 : G1.dH n = true := by simpa [Ghost.flag] using hf1
            refine ⟨G1, ⟨⟨hi1.ch, hi1.cc, ?_, hi1.mv, ?_, hi1.iv⟩, ⟨fr1.dH, fr1.dV, ?_, fr1.mv⟩, ⟨(kv1 rfl).d, (kv1 rfl).m⟩⟩, ⟨pl1.inv, ?_, pl1.frame⟩⟩
            · intro j _ hd hrj
              show upd m1.hashes.memo n (some x1) j ≠ none
              simp only [upd]
              split
              · simp
              · next hjn => exact hi1.mh j (by simp; omega) hd hrj
            · intro j hin hrj
              show upd m1.hashes.memo n (some x1) j ≠ none
              simp only [upd]
              split
              · simp
              · exact hi1.ih j hin hrj
            · intro j hj
              show upd m1.hashes.memo n (some x1) j = _
              simp only [upd]
              rw [if_neg (by omega)]
              exact fr1.mh j hj
            · have := pl1.bud
              simp only [rest, Task.node, pend, ↓reduceIte, pendH_done g G1 n hd1] at this ⊢
              exact this
    | value n =>
      rw [big_value] at hb
      have hact : remaining g G n ≠ 0 := hpre
      cases hx : m.cache.memo n with
      | some v0 =>
        simp only [hx] at hb; injection hb with h1 h2; subst h1; subst h2
        exact ⟨G, ⟨hi, Frame.refl ..⟩, ⟨hl.inv, hl.bud, fun _ _ => rfl⟩⟩
      | none =>
        simp only [hx] at hb
        cases he : (g.node n).edge with
        | none => simp [he] at hb
        | some e =>
          simp only [he] at hb
          have hnode := node_of_edge g n e he
          have hwf := ok.wfc n _ e hnode he
          have hnin : g.inputs.contains n = false := by
            cases hc : g.inputs.contains n with
            | false => rfl
            | true => exact absurd hx (hi.iv n hc hact)
          have hlive := live_of_active g ht G n hact hnin
          have hdV : G.dV n = false := by
            cases hd : G.dV n with
            | false => rfl
            | true => exact absurd hx (hi.mv n (by simp) hd hact)
          have hflag : G.flag false n = false := by simp [Ghost.flag, hdV]
          have hvb : g.vb n = e.evalCalls := by simp [Graph.vb, he]
          cases hq : big g f (.prog n (e.evalProg (g.parents n).length)) m with
          | fuel => simp [hq] at hb
          | raised _ _ => simp [hq] at hb
          | ok x1 m1 =>
            simp only [hq] at hb
            have hl1 : PreL g m G false e.evalCalls B K (.prog n (e.evalProg (g.parents n).length)) :=
              ⟨hl.inv, by have := hl.bud; simp only [cost, Task.node, pendV_todo g G n hdV, hvb, pend] at this ⊢; simp only [Bool.false_eq_true, ↓reduceIte]; omega,
               evalProg_calls_c e _ hwf⟩
            obtain ⟨G1, ⟨hi1, fr1, hf1, _, hm1, hr1⟩, pl1⟩ := ih (.prog n (e.evalProg (g.parents n).length)) false m G x1 m1
              e.evalCalls B K hi ⟨⟨hact, hlive, hflag⟩, fun h => by cases h⟩ hl1 hq
            simp only [Bool.false_eq_true, ↓reduceIte] at hi1 hm1
            rw [hx] at hm1
            have hd1 : G1.dV n = true := by simpa [Ghost.flag] using hf1
            cases x1 with
            | val v =>
              simp only [hm1] at hb
              have hcnt : m1.cache.counts n ≠ none := by
                rw [hi1.cc n, hr1]; intro h0; exact hact ((toOpt_eq_none _).mp h0)
              rw [set_spec m1.cache n v hcnt] at hb
              simp only at hb
              injection hb with h1 h2; subst h1; subst h2
              refine ⟨G1, ⟨⟨hi1.ch, hi1.cc, hi1.mh, ?_, hi1.ih, ?_⟩, ⟨fr1.dH, fr1.dV, fr1.mh, ?_⟩⟩, ⟨pl1.inv, ?_, pl1.frame⟩⟩
              · intro j _ hd hrj
                show upd m1.cache.memo n (some v) j ≠ none
                simp only [upd]
                split
                · simp
                · next hjn => exact hi1.mv j (by simp; omega) hd hrj
              · intro j hin hrj
                show upd m1.cache.memo n (some v) j ≠ none
                simp only [upd]
                split
                · simp
                · exact hi1.iv j hin hrj
              · intro j hj
                show upd m1.cache.memo n (some v) j = _
                simp only [upd]
                rw [if_neg (by omega)]
                exact fr1.mv j hj
              · have := pl1.bud
                simp only [rest, Task.node, pend, Bool.false_eq_true, ↓reduceIte, pendV_done g G1 n hd1] at this ⊢
                show calls m1 n + _ ≤ K
                omega
            | hash _ | hout _ _ | node _ | tup _ => simp at hb
    | prog n p =>
      rw [big_prog] at hb
      obtain ⟨hrun, hnc⟩ := hpre
      have hne := runEffs_isEff p m.world
      have hlog := runEffs_log p m.world
      have hbud : (runEffs p m.world).1.CallsLe b := runEffs_callsLe hl.prog m.world
      have hnc1 : hp = true → (runEffs p m.world).1.NoCur := fun h => by rw [runEffs_noCur (hnc h)]; exact hnc h
      cases hq0 : runEffs p m.world with
      | mk p' w' =>
        rw [hq0] at hne hlog hbud hnc1 hb
        simp only at hne hlog hbud hnc1 hb
        have hi' : CInv g { m with world := w' } G none none := ⟨hi.ch, hi.cc, hi.mh, hi.mv, hi.ih, hi.iv⟩
        have hcalls : ∀ j, calls { m with world := w' } j = calls m j := fun j => by simp only [calls, hlog]
        cases p' with
        | eff op k => simp [Prog.isEff] at hne
        | raise e0 => simp at hb
        | ret x0 =>
          simp only at hb
          obtain ⟨h', c', hev, hpost⟩ := complete_step g ht m G hp n hi hrun
          simp only [hev] at hb
          injection hb with h1 h2; subst h1; subst h2
          refine ⟨G.setFlag hp n, hpost w', ⟨?_, ?_, fun j _ => ?_⟩⟩
          · intro j hj
            have hjn : j ≠ n := by simp only [Task.node] at hj; omega
            rw [cap_frame g G _ j (setFlag_dH_ne G hp n j hjn) (setFlag_dV_ne G hp n j hjn)]
            show calls { m with world := w' } j ≤ _
            rw [hcalls]
            exact hl.inv j hj
          · have := hl.bud
            have hpe : pend g (G.setFlag hp n) hp n = pend g G hp n := by
              cases hp
              · exact pend_frame g G _ false n (by simp [Ghost.setFlag])
              · rfl
            simp only [rest, cost, Task.node, hpe] at this ⊢
            show calls { m with world := w' } n + _ ≤ K
            rw [hcalls]
            omega
          · show calls { m with world := w' } j = calls m j
            exact hcalls j
        | req r k =>
          simp only at hb
          obtain ⟨hrb, hkb⟩ : r.ncalls ≤ b ∧ ∀ x, (k x).CallsLe (b - r.ncalls) := by
            cases hbud with
            | req _ _ _ h1 h2 => exact ⟨h1, h2⟩
          cases hq : big g f (.req n r) { m with world := w' } with
          | fuel => simp [hq] at hb
          | raised _ _ => simp [hq] at hb
          | ok y m1 =>
            simp only [hq] at hb
            have hnc' : hp = true → r.noCur = true ∧ ∀ x, (k x).NoCur := by
              intro h; cases hnc1 h with
              | req _ _ h1 h2 => exact ⟨h1, h2⟩
            have hl1 : PreL g { m with world := w' } G hp 0 ((b - r.ncalls) + B) K (.req n r) :=
              ⟨fun j hj => by rw [hcalls]; exact hl.inv j hj,
               by have := hl.bud; simp only [cost, Task.node] at this ⊢; rw [hcalls]; omega, trivial⟩
            obtain ⟨G1, ⟨hi1, fr1, kp1⟩, pl1⟩ := ih (.req n r) hp _ G y m1 0 ((b - r.ncalls) + B) K hi' ⟨hrun, fun h => (hnc' h).1⟩ hl1 hq
            have fr1' : Frame n m G m1 G1 := ⟨fr1.dH, fr1.dV, fr1.mh, fr1.mv⟩
            have kp1' : Keep hp n m G m1 G1 := ⟨⟨kp1.1.d, kp1.1.m⟩, fun h => ⟨(kp1.2 h).d, (kp1.2 h).m⟩⟩
            have hrun1 := hrun.step ht fr1' kp1'
            have hl2 : PreL g m1 G1 hp (b - r.ncalls) B K (.prog n (k y)) :=
              ⟨pl1.inv, by have := pl1.bud; simp only [rest, cost, Task.node] at this ⊢; omega, hkb y⟩
            obtain ⟨G2, ⟨hi2, fr2, hf2, kv2, hm2, hr2⟩, pl2⟩ := ih (.prog n (k y)) hp m1 G1 x m' (b - r.ncalls) B K hi1
              ⟨hrun1, fun h => (hnc' h).2 y⟩ hl2 hb
            refine ⟨G2, ⟨hi2, fr1'.trans fr2, hf2, fun h => kp1'.1.trans (kv2 h), ?_, ?_⟩,
              ⟨pl2.inv, pl2.bud, fun j hj => ((pl2.frame j hj).trans (pl1.frame j hj)).trans (hcalls j)⟩⟩
            · cases hp
              · simp only [Bool.false_eq_true, ↓reduceIte] at hm2 ⊢
                exact hm2.trans kp1'.1.m
              · simp only [↓reduceIte] at hm2 ⊢
                exact hm2.trans (kp1'.2 rfl).m
            · rw [hr2]; exact remaining_frame g ht G G1 n fr1'.dH fr1'.dV n (Nat.le_refl n)
    | req n r =>
      rw [big_req] at hb
      obtain ⟨hrun, hnc⟩ := hpre
      cases r with
      | parentHash i =>
        simp only at hb
        cases hpi : (g.parents n)[i]? with
        | none => simp [hpi] at hb
        | some p =>
          simp only [hpi] at hb
          have hmem : p ∈ g.parents n := List.mem_of_getElem? hpi
          have hlt : p < n := ht n p hmem
          cases hq : big g f (.hash p) m with
          | fuel => simp [hq] at hb
          | raised _ _ => simp [hq] at hb
          | ok y m1 =>
            simp only [hq] at hb
            have hlp : PreL g m G hp 0 0 (calls m p + pendH g G p) (.hash p) :=
              ⟨fun j hj => hl.inv j (by simp only [Task.node] at hj ⊢; omega), by simp [cost, Task.node], trivial⟩
            obtain ⟨G1, ⟨hi1, fr1, kv1⟩, pl1⟩ := ih (.hash p) hp m G y m1 0 0 _ hi (parent_active g ht G hp n p hrun hmem) hlp hq
            cases y with
            | hout h pl =>
              simp only at hb
              injection hb with h1 h2; subst h1; subst h2
              have hcp : calls m1 p ≤ cap g G1 p :=
                cap_after_hash g G G1 p (calls m p) (calls m1 p) kv1.d (hl.inv p hlt)
                  (by have := pl1.bud; simpa [rest, Task.node] using this)
              refine ⟨G1, ⟨hi1, fr1.mono (by omega), fr1.keep hlt hp⟩,
                ⟨linv_after g m m1 G G1 n p hlt hl.inv fr1 pl1.frame pl1.inv hcp, ?_, fun j hj => pl1.frame j (by simp only [Task.node] at hj ⊢; omega)⟩⟩
              have := hl.bud
              simp only [rest, cost, Task.node, Req.ncalls] at this ⊢
              rw [pl1.frame n hlt, pend_frame g G G1 hp n (fr1.dH n hlt)]
              omega
            | val _ | hash _ | node _ | tup _ => simp at hb
      | parentValue i =>
        simp only at hb
        cases hpi : (g.parents n)[i]? with
        | none => simp [hpi] at hb
        | some p =>
          simp only [hpi] at hb
          have hmem : p ∈ g.parents n := List.mem_of_getElem? hpi
          have hlt : p < n := ht n p hmem
          have hlp : PreL g m G hp 0 0 (calls m p + (pendV g G p + pendH g G p)) (.value p) :=
            ⟨fun j hj => hl.inv j (by simp only [Task.node] at hj ⊢; omega), by simp [cost, Task.node], trivial⟩
          obtain ⟨G1, ⟨hi1, fr1⟩, pl1⟩ := ih (.value p) hp m G x m' 0 0 _ hi (parent_active g ht G hp n p hrun hmem) hlp hb
          have hcp : calls m' p ≤ cap g G1 p :=
            cap_after_value g G G1 p (calls m p) (calls m' p) (hl.inv p hlt)
              (by have := pl1.bud; simpa [rest, Task.node] using this)
          refine ⟨G1, ⟨hi1, fr1.mono (by omega), fr1.keep hlt hp⟩,
            ⟨linv_after g m m' G G1 n p hlt hl.inv fr1 pl1.frame pl1.inv hcp, ?_, fun j hj => pl1.frame j (by simp only [Task.node] at hj ⊢; omega)⟩⟩
          have := hl.bud
          simp only [rest, cost, Task.node, Req.ncalls] at this ⊢
          rw [pl1.frame n hlt, pend_frame g G G1 hp n (fr1.dH n hlt)]
          omega
      | currentHash =>
        simp only at hb
        have hpf : hp = false := by
          cases hp with
          | false => rfl
          | true => have := hnc rfl; simp [Req.noCur] at this
        subst hpf
        cases hq : big g f (.hash n) m with
        | fuel => simp [hq] at hb
        | raised _ _ => simp [hq] at hb
        | ok y m1 =>
          simp only [hq] at hb
          have hlp : PreL g m G false 0 B K (.hash n) :=
            ⟨hl.inv, by have := hl.bud; simpa [cost, Task.node, pend, Req.ncalls] using this, trivial⟩
          obtain ⟨G1, ⟨hi1, fr1, kv1⟩, pl1⟩ := ih (.hash n) false m G y m1 0 B K hi hrun.active hlp hq
          cases y with
          | hout h pl =>
            simp only at hb
            injection hb with h1 h2; subst h1; subst h2
            exact ⟨G1, ⟨hi1, fr1, kv1, fun h => by cases h⟩,
              ⟨pl1.inv, by have := pl1.bud; simpa [rest, Task.node, pend] using this, pl1.frame⟩⟩
          | val _ | hash _ | node _ | tup _ => simp at hb
      | payload =>
        simp only at hb
        have hpf : hp = false := by
          cases hp with
          | false => rfl
          | true => have := hnc rfl; simp [Req.noCur] at this
        subst hpf
        cases hq : big g f (.hash n) m with
        | fuel => simp [hq] at hb
        | raised _ _ => simp [hq] at hb
        | ok y m1 =>
          simp only [hq] at hb
          have hlp : PreL g m G false 0 B K (.hash n) :=
            ⟨hl.inv, by have := hl.bud; simpa [cost, Task.node, pend, Req.ncalls] using this, trivial⟩
          obtain ⟨G1, ⟨hi1, fr1, kv1⟩, pl1⟩ := ih (.hash n) false m G y m1 0 B K hi hrun.active hlp hq
          cases y with
          | hout h pl =>
            simp only at hb
            injection hb with h1 h2; subst h1; subst h2
            exact ⟨G1, ⟨hi1, fr1, kv1, fun h => by cases h⟩,
              ⟨pl1.inv, by have := pl1.bud; simpa [rest, Task.node, pend] using this, pl1.frame⟩⟩
          | val _ | hash _ | node _ | tup _ => simp at hb
      | await rs =>
        simp only at hb
        have hlp : PreL g m G hp 0 B K (.reqs n rs.reverse []) :=
          ⟨hl.inv, by have := hl.bud; simpa [cost, Task.node, Req.ncalls, ncallsList_reverse] using this, trivial⟩
        obtain ⟨G1, pc1, pl1⟩ := ih (.reqs n rs.reverse []) hp m G x m' 0 B K hi
          ⟨hrun, fun h => noCurList_reverse rs (by have := hnc h; simpa [Req.noCur] using this)⟩ hlp hb
        exact ⟨G1, pc1, ⟨pl1.inv, pl1.bud, pl1.frame⟩⟩
      | call fn pos kwn kwv =>
        simp only at hb
        have hlog := call_log m.world n fn pos kwn kwv
        cases hc : m.world.call n fn pos kwn kwv with
        | mk rv w =>
          rw [hc] at hlog
          simp only [hc] at hb
          cases rv with
          | error _ => simp at hb
          | ok v =>
            simp only at hb
            injection hb with h1 h2; subst h1; subst h2
            have hcalls : ∀ j, calls { m with world := w } j = calls m j + (if n = j then 1 else 0) := by
              intro j
              simp only [calls]
              simp only at hlog
              rw [hlog, List.filter_cons]
              by_cases hnj : n = j
              · simp [hnj]
              · have : (n == j) = false := by simpa using hnj
                simp [hnj, this]
            refine ⟨G, ⟨⟨hi.ch, hi.cc, hi.mh, hi.mv, hi.ih, hi.iv⟩, ⟨fun _ _ => rfl, fun _ _ => rfl, fun _ _ => rfl, fun _ _ => rfl⟩,
              ⟨rfl, rfl⟩, fun _ => ⟨rfl, rfl⟩⟩, ⟨?_, ?_, ?_⟩⟩
            · intro j hj
              simp only [Task.node] at hj
              rw [hcalls j, if_neg (by omega)]
              exact hl.inv j hj
            · have := hl.bud
              simp only [rest, cost, Task.node, Req.ncalls] at this ⊢
              rw [hcalls n]
              simp only [↓reduceIte]
              omega
            · intro j hj
              simp only [Task.node] at hj
              rw [hcalls j, if_neg (by omega)]
              rfl
    | reqs n rsRev acc =>
      rw [big_reqs] at hb
      obtain ⟨hrun, hnc⟩ := hpre
      cases rsRev with
      | nil =>
        simp only at hb
        injection hb with h1 h2; subst h1; subst h2
        exact ⟨G, ⟨hi, Frame.refl .., Keep.refl ..⟩, ⟨hl.inv, by have := hl.bud; simpa [cost, rest, Req.ncallsList] using this, fun _ _ => rfl⟩⟩
      | cons r rest' =>
        simp only at hb
        have hnc' : hp = true → r.noCur = true ∧ Req.noCurList rest' = true := by
          intro h; have := hnc h; simpa [Req.noCurList] using this
        cases hq : big g f (.req n r) m with
        | fuel => simp [hq] at hb
        | raised _ _ => simp [hq] at hb
        | ok y m1 =>
          simp only [hq] at hb
          have hl1 : PreL g m G hp 0 (Req.ncallsList rest' + B) K (.req n r) :=
            ⟨hl.inv, by have := hl.bud; simp only [cost, Task.node, Req.ncallsList] at this ⊢; omega, trivial⟩
          obtain ⟨G1, ⟨hi1, fr1, kp1⟩, pl1⟩ := ih (.req n r) hp m G y m1 0 _ K hi ⟨hrun, fun h => (hnc' h).1⟩ hl1 hq
          have hrun1 := hrun.step ht fr1 kp1
          have hl2 : PreL g m1 G1 hp 0 B K (.reqs n rest' (y :: acc)) :=
            ⟨pl1.inv, by have := pl1.bud; simp only [rest, cost, Task.node] at this ⊢; omega, trivial⟩
          obtain ⟨G2, ⟨hi2, fr2, kp2⟩, pl2⟩ := ih (.reqs n rest' (y :: acc)) hp m1 G1 x m' 0 B K hi1 ⟨hrun1, fun h => (hnc' h).2⟩ hl2 hb
          exact ⟨G2, ⟨hi2, fr1.trans fr2, kp1.trans kp2⟩, ⟨pl2.inv, pl2.bud, fun j hj => (pl2.frame j hj).trans (pl1.frame j hj)⟩⟩


end CM
