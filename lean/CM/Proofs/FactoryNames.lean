/-
  CM.Proofs.FactoryNames — which names the container of a layer exposes and which it passes on, from its class body; and, composed
  with `connect_bags`, which fields `pipeline >> layer` exposes.
-/
import CM.Proofs.FactoryChain
namespace CM

/-- the arguments of the first `normalize_bag` of `ReversibleContainer.__init__` -/
def reversibleRaw1 (inputs outputs : List BNode) (es : List BEdge) (fwd : NameSet) (persistent : List String) (next : Nat) : RawBag :=
  { inputs, outputs, edges := es, virt := fwd, persistent, optional := [], ctx := .no, next }

/-- the arguments of the second one (`EdgesBag.__init__`) -/
def reversibleRaw2 (b1 : Bag) (persistent : List String) (opt backIn backOut : List BNode) (back : NameSet) : RawBag :=
  { inputs := b1.inputs, outputs := b1.outputs, edges := b1.edges, virt := b1.virt, persistent := persistent,
    optional := opt, ctx := .bag backIn backOut back, next := b1.next }

theorem rule3_nil_of_wf {r : RawBag} (hv : ∀ n ∈ r.inputs, r.virt.mem n.name = false)
    (hp : ∀ x ∈ r.persistent, x ∈ names r.outputs) : r.rule3 = [] := by
  simp only [RawBag.rule3, List.filter_eq_nil_iff]
  intro i hi
  simp only [Bool.and_eq_true, Bool.or_eq_true, Bool.not_eq_true', List.contains_eq_mem, decide_eq_true_eq,
    decide_eq_false_iff_not, not_and, Decidable.not_not]
  rintro (h | h)
  · rw [hv i hi] at h; cases h
  · exact hp _ h

theorem core_of_rule3_nil {r : RawBag} (h : r.rule3 = []) :
    r.core.outputs = r.outputs ∧ r.core.virt.mem = r.virt.mem ∧ r.core.persistent = r.persistent := by
  simp only [RawBag.core, h, addIdentities, List.append_nil, names, List.map_nil]
  refine ⟨trivial, ?_, trivial⟩
  funext x
  rw [NameSet.mem_diff]
  simp [NameSet.mem]

/-- **What `ReversibleContainer` exposes**: the given outputs and, by rule 3 of `normalize_bag`, a pass-through output for every
input whose name is inherited (or persistent) and not defined; the names still passed on from upstream are the inherited ones that
are neither defined nor consumed. -/
theorem reversible_names {inputs outputs : List BNode} {es : List BEdge} {backIn backOut : List BNode} {optNames : List String}
    {fwd back : NameSet} {persistent : List String} {next : Nat} {b : Bag}
    (h : reversible inputs outputs es backIn backOut optNames fwd back persistent next = .ok b)
    (hid : ∀ n, n ∈ inputs ++ outputs ++ edgeNodes es → n.id < next)
    (hp : ∀ x ∈ persistent, x ∈ names outputs ∨ x ∈ names inputs) :
    (∀ x, x ∈ names b.outputs ↔ x ∈ names outputs ∨
        (x ∈ names inputs ∧ (fwd.mem x = true ∨ x ∈ persistent) ∧ x ∉ names outputs)) ∧
    (∀ x, b.virt.mem x = (fwd.mem x && !(x ∈ names inputs ∧ (fwd.mem x = true ∨ x ∈ persistent) ∧ x ∉ names outputs : Bool))) ∧
    b.persistent = persistent := by
  unfold reversible at h
  split at h
  · cases h
  · rename_i b1 h1
    have w1 : b1.WF := mkBag_wf h1 hid hp
    have h1' : mkBag (reversibleRaw1 inputs outputs es fwd persistent next) = .ok b1 := h1
    obtain ⟨hb1, _⟩ := mkBag_ok h1'
    split at h
    · cases h
    · rename_i opt _
      split at h
      · cases h
      · split at h
        · cases h
        · rename_i b2 h2
          injection h with h; subst h
          have h2' : mkBag (reversibleRaw2 b1 persistent opt backIn backOut back) = .ok b2 := h2
          obtain ⟨hb2, _⟩ := mkBag_ok h2'
          have hpers1 : b1.persistent = persistent := by rw [hb1]; rfl
          have hr3 : (reversibleRaw2 b1 persistent opt backIn backOut back).rule3 = [] :=
            rule3_nil_of_wf (fun n hn => w1.virtIn n hn) (fun x hx => w1.persOut x (hpers1 ▸ hx))
          obtain ⟨ho, hv, hpp⟩ := core_of_rule3_nil hr3
          rw [hb2]
          simp only [reversibleRaw2] at ho hv hpp ⊢
          -- the first pass: outputs, clones of rule 3, the virtual names
          have hr3mem : ∀ i, i ∈ (reversibleRaw1 inputs outputs es fwd persistent next).rule3 ↔
              i ∈ inputs ∧ (fwd.mem i.name = true ∨ i.name ∈ persistent) ∧ i.name ∉ names outputs := by
            intro i
            simp only [RawBag.rule3, reversibleRaw1, List.mem_filter, Bool.and_eq_true, Bool.or_eq_true, Bool.not_eq_true',
              List.contains_eq_mem, decide_eq_true_eq, decide_eq_false_iff_not]
          have hnames3 : ∀ x, x ∈ names (reversibleRaw1 inputs outputs es fwd persistent next).rule3 ↔
              x ∈ names inputs ∧ (fwd.mem x = true ∨ x ∈ persistent) ∧ x ∉ names outputs := by
            intro x
            constructor
            · intro hx
              obtain ⟨i, hi, rfl⟩ := List.mem_map.1 hx
              obtain ⟨h1', h2', h3'⟩ := (hr3mem i).1 hi
              exact ⟨List.mem_map.2 ⟨i, h1', rfl⟩, h2', h3'⟩
            · rintro ⟨hx, h2', h3'⟩
              obtain ⟨i, hi, rfl⟩ := List.mem_map.1 hx
              exact List.mem_map.2 ⟨i, (hr3mem i).2 ⟨hi, h2', h3'⟩, rfl⟩
          have hb1o : names b1.outputs = names outputs ++ names (reversibleRaw1 inputs outputs es fwd persistent next).rule3 := by
            rw [hb1]
            simp only [RawBag.core, addIdentities_eq, names, List.map_append]
            congr 1
            exact cloneEdges_names false _ _
          have hb1v : ∀ x, b1.virt.mem x =
              (fwd.mem x && !(NameSet.fin (names (reversibleRaw1 inputs outputs es fwd persistent next).rule3)).mem x) := by
            intro x
            rw [hb1]
            simp only [RawBag.core, NameSet.mem_diff]
            rfl
          refine ⟨fun x => ?_, fun x => ?_, hpp⟩
          · rw [ho, hb1o, List.mem_append, hnames3]
          · rw [hv, hb1v]
            have hiff : (NameSet.fin (names (reversibleRaw1 inputs outputs es fwd persistent next).rule3)).mem x = true ↔
                (x ∈ names inputs ∧ (fwd.mem x = true ∨ x ∈ persistent) ∧ x ∉ names outputs) := by
              have : (NameSet.fin (names (reversibleRaw1 inputs outputs es fwd persistent next).rule3)).mem x = true ↔
                  x ∈ names (reversibleRaw1 inputs outputs es fwd persistent next).rule3 := by
                show (List.contains _ x = true) ↔ _
                simp
              exact this.trans (hnames3 x)
            by_cases hc : (x ∈ names inputs ∧ (fwd.mem x = true ∨ x ∈ persistent) ∧ x ∉ names outputs)
            · rw [hiff.2 hc]
              simp [hc]
            · have hf : (NameSet.fin (names (reversibleRaw1 inputs outputs es fwd persistent next).rule3)).mem x = false := by
                cases hm : (NameSet.fin (names (reversibleRaw1 inputs outputs es fwd persistent next).rule3)).mem x with
                | false => rfl
                | true => exact absurd (hiff.1 hm) hc
              rw [hf]
              simp [hc]

end CM

namespace CM

def RawLayer.fwdVirt (r : RawLayer) : NameSet :=
  if r.isSource then NameSet.fin [] else normalizeInherit r.inherit r.exclude r.layout.outputs
def RawLayer.persistentNames (r : RawLayer) : List String :=
  if r.isSource then dedup ("id" :: (r.fields.filter (·.isMeta)).map (·.name)) else []

theorem factory_reversible {r : RawLayer} {b : Bag} (h : r.factory = .ok b) :
    ∃ es back, r.factoryEdges r.layout = some es ∧
      reversible (nodesAt 0 r.layout.inputs) (nodesAt r.layout.oBase r.layout.outputs) es (nodesAt r.layout.biBase r.layout.backIn)
        (nodesAt r.layout.boBase r.layout.backOut) ((r.fields.filter (·.opt)).map (·.name)) r.fwdVirt back r.persistentNames
        r.layout.next = .ok b := by
  unfold RawLayer.factory at h
  split at h
  · cases h
  · split at h
    · cases h
    · split at h
      · cases h
      · split at h
        · cases h
        · rename_i es hes
          exact ⟨es, _, hes, h⟩

/-- **Which names the container of a layer exposes and passes on**, read off its class body. -/
theorem factory_names {r : RawLayer} {b : Bag} (h : r.factory = .ok b) :
    (∀ x, x ∈ names b.outputs ↔ x ∈ r.layout.outputs ∨
        (x ∈ r.layout.inputs ∧ (r.fwdVirt.mem x = true ∨ x ∈ r.persistentNames) ∧ x ∉ r.layout.outputs)) ∧
    (∀ x, b.virt.mem x = (r.fwdVirt.mem x &&
        !(x ∈ r.layout.inputs ∧ (r.fwdVirt.mem x = true ∨ x ∈ r.persistentNames) ∧ x ∉ r.layout.outputs : Bool))) ∧
    b.persistent = r.persistentNames := by
  obtain ⟨es, back, hes, hrev⟩ := factory_reversible h
  have hb := layout_bounds r.layout
  have hid : ∀ n, n ∈ nodesAt 0 r.layout.inputs ++ nodesAt r.layout.oBase r.layout.outputs ++ edgeNodes es → n.id < r.layout.next := by
    intro n hn
    simp only [List.mem_append] at hn
    rcases hn with (hn | hn) | hn
    · have := mem_nodesAt_lt hn; omega
    · have := mem_nodesAt_lt hn; omega
    · exact factoryEdges_lt hes n hn
  have hp : ∀ x ∈ r.persistentNames, x ∈ names (nodesAt r.layout.oBase r.layout.outputs) ∨ x ∈ names (nodesAt 0 r.layout.inputs) := by
    intro x hx
    refine Or.inl ?_
    rw [names_nodesAt]
    unfold RawLayer.persistentNames at hx
    split at hx
    · rename_i hsrc
      simp only [dedup, List.mem_eraseDups, List.mem_cons, List.mem_map, List.mem_filter] at hx
      simp only [RawLayer.layout, dedup, List.mem_eraseDups, hsrc, if_true, List.mem_map, List.cons_append, List.nil_append,
        List.mem_cons]
      rcases hx with rfl | ⟨f, ⟨hf, _⟩, rfl⟩
      · exact Or.inl rfl
      · exact Or.inr ⟨f, hf, rfl⟩
    · cases hx
  have := reversible_names hrev hid hp
  simpa only [names_nodesAt] using this

/-- **Which fields `pipeline >> layer` exposes** (node level, from the class body): exactly the fields the layer defines; the earlier
fields it inherits (a name list, `True`, everything but `__exclude__`: `fwdVirt`) - and an inherited name the layer consumes itself,
which it passes through from its own input; and the persistent fields of the pipeline that the layer neither defines nor passes
through itself.  Every other earlier field is gone. -/
theorem layer_exposes {l b c : Bag} {r : RawLayer} (hl : l.WF) (hb : r.factory = .ok b) (hc : connectBags l b = .ok c) (x : String) :
    x ∈ names c.outputs ↔
      x ∈ r.layout.outputs ∨
      (r.fwdVirt.mem x = true ∧ (x ∈ r.layout.inputs ∨ x ∈ names l.outputs)) ∨
      (x ∈ r.layout.inputs ∧ x ∈ r.persistentNames ∧ x ∉ r.layout.outputs) ∨
      (x ∈ names l.outputs ∧ x ∈ l.persistent ∧ x ∉ names b.outputs) := by
  have hbw := factory_wf hb
  obtain ⟨_, _, hnames, _⟩ := connect_step hl hbw hc
  obtain ⟨ho, hv, _⟩ := factory_names hb
  rw [hnames x]
  simp only [passes, Bool.or_eq_true, Bool.and_eq_true, Bool.not_eq_true', List.contains_eq_mem, decide_eq_true_eq,
    decide_eq_false_iff_not]
  rw [hv x]
  have hox := ho x
  by_cases hA : x ∈ r.layout.outputs <;> by_cases hF : r.fwdVirt.mem x = true <;> by_cases hI : x ∈ r.layout.inputs <;>
    by_cases hL : x ∈ names l.outputs <;> by_cases hP : x ∈ r.persistentNames <;> by_cases hLP : x ∈ l.persistent <;>
    simp_all

end CM
