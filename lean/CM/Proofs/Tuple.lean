/-
  CM.Proofs.Tuple — multi-field requests: the product node `GraphCompiler._compile` puts above the requested nodes computes the
  tuple of their values in request order, on the stack machine.
-/
import CM.Proofs.BagPipeline
import CM.Proofs.Decode
import CM.Proofs.CoreWF
namespace CM

theorem all2_range_getElem {β : Type} (R : Nat → β → Prop) : ∀ (k : Nat) (vs : List β) (off : Nat), vs.length = k →
    (∀ i (h : i < vs.length), R (off + i) vs[i]) → All2 R ((List.range' off k)) vs
  | 0, [], _, _, _ => by simp [List.range']; exact .nil
  | k + 1, v :: vs, off, hl, h => by
    simp only [List.range'_succ]
    refine .cons (by have := h 0 (by simp); simpa using this) ?_
    refine all2_range_getElem R k vs (off + 1) (by simpa using hl) ?_
    intro i hi
    have := h (i + 1) (by simp; omega)
    simpa [Nat.add_assoc, Nat.add_comm 1 i] using this
  | 0, _ :: _, _, hl, _ => by simp at hl
  | _ + 1, [], _, hl, _ => by simp at hl

/-- **A product node denotes the tuple of the values of its arguments, in order.** -/
theorem product_den (d : DenCfg) (ts : List BTerm) (vs : List Val) (hl : ts.length = vs.length)
    (hv : ∀ i (h : i < ts.length), (ts[i].den d).v = .ok (vs[i]'(hl ▸ h))) :
    ((BTerm.node .product ts).den d).v = .ok (.tup vs) := by
  simp only [BTerm.den, EdgeK.evalProg]
  have hall : All2 (fun i v => (match (BTerm.denList d ts)[i]? with | some x => x.v | none => .error .internal) = .ok v)
      (List.range ts.length) vs := by
    rw [List.range_eq_range']
    refine all2_range_getElem _ ts.length vs 0 hl.symm ?_
    intro i hi
    have hi' : i < ts.length := by omega
    simp only [Nat.zero_add, denList_getElem?, List.getElem?_eq_getElem hi', Option.map_some]
    exact hv i hi'
  rw [interp_staticEval _ _ _ vs hall]
  simp [interp, Item.asVal, Except.bind]

end CM

namespace CM

section
variable {b : Bag} {outs : List BNode}

theorem withProduct_agree (hb : b.WF) : AgreeOn (fun n => n.id < b.next) b (b.withProduct outs).1 where
  inputs _ _ := Iff.rfl
  edges e he := by
    simp only [Bag.withProduct, List.mem_append, List.mem_singleton]
    constructor
    · rintro (h | rfl)
      · exact h
      · simp at he
    · exact Or.inl
  closed e he hS i hi := by
    simp only [Bag.withProduct, List.mem_append, List.mem_singleton] at he
    rcases he with he | rfl
    · exact hb.ids i (nodes3_ein he hi)
    · simp at hS

/-- the product node computes the product of what the requested nodes compute -/
theorem withProduct_den (hb : b.WF) (hlt : ∀ o ∈ outs, o.id < b.next) (ts : List BTerm) (hl : outs.length = ts.length)
    (hd : ∀ q ∈ outs.zip ts, BDen b q.1 q.2) :
    BDen (b.withProduct outs).1 (b.withProduct outs).2 (.node .product ts) := by
  have hp : (b.withProduct outs).2 ∉ (b.withProduct outs).1.inputs := by
    intro h
    have := hb.ids _ (nodes3_in (show (b.withProduct outs).2 ∈ b.inputs from h))
    simp [Bag.withProduct] at this
  refine .edge { edge := .product, ins := outs, out := (b.withProduct outs).2 } hp ?_ rfl (by simp) hl ?_
  · simp [Bag.withProduct]
  · intro q hq
    exact (BDen.frame (withProduct_agree hb) (hlt q.1 (List.of_mem_zip hq).1) q.2).2 (hd q hq)

theorem withProduct_wf (hb : b.WF) (hlt : ∀ o ∈ outs, o.id < b.next) : (b.withProduct outs).1.WF where
  ids := by
    intro n hn
    simp only [Bag.withProduct, Bag.nodes3, List.mem_append, mem_edgeNodes, List.mem_singleton] at hn ⊢
    have old : ∀ m, m ∈ b.nodes3 → m.id < b.next + 1 := fun m hm => Nat.lt_succ_of_lt (hb.ids m hm)
    rcases hn with (hn | hn) | ⟨e, he | rfl, hne⟩
    · exact old n (nodes3_in hn)
    · exact old n (nodes3_out hn)
    · rcases hne with rfl | hne
      · exact old _ (nodes3_eout he)
      · exact old n (nodes3_ein he hne)
    · rcases hne with rfl | hne
      · simp
      · exact Nat.lt_succ_of_lt (hlt n hne)
  outs := by
    have := hb.outs
    simp only [OutsNodup, Bag.withProduct, List.map_append, List.map_cons, List.map_nil] at this ⊢
    refine List.nodup_append.2 ⟨this, by simp, ?_⟩
    intro x hx y hy hxy
    simp only [List.mem_singleton] at hy
    obtain ⟨e, he, hex⟩ := List.mem_map.1 hx
    have := hb.ids _ (nodes3_eout he)
    rw [hex, hxy, hy] at this
    simp at this
  inLeaf := by
    intro n hn e he
    simp only [Bag.withProduct, List.mem_append, List.mem_singleton] at he
    rcases he with he | rfl
    · exact hb.inLeaf n hn e he
    · intro h
      have := hb.ids n (nodes3_in hn)
      rw [← h] at this
      simp at this
  inNames := hb.inNames
  outNames := hb.outNames
  virtOut := hb.virtOut
  virtIn := hb.virtIn
  persOut := hb.persOut

end

theorem noMissingL_of_forall : ∀ {ts : List BTerm}, (∀ t ∈ ts, t.NoMissing) → BTerm.NoMissingL ts
  | [], _ => by simp [BTerm.NoMissingL]
  | t :: ts, h => by
    simp only [BTerm.NoMissingL]
    exact ⟨h t (by simp), noMissingL_of_forall fun t' ht' => h t' (by simp [ht'])⟩

/-- **A multi-field request returns the tuple of the fields' values, in request order.**  For a well-formed bag whose edges are
of the kinds `vm_correct` covers, the graph compiled for the product node above the requested nodes (`GraphCompiler._compile` of a
tuple of names), run on the stack machine with every used input bound, no scheduled failure and no impure function, stops and
returns `(v1, ..., vk)` where `vi` is the value of the term the i-th requested node computes. -/
theorem tuple_value {b : Bag} {outs : List BNode} (hb : b.WF) (hlt : ∀ o ∈ outs, o.id < b.next)
    (hac : acyclicB (b.withProduct outs).1.edges = true) (hwf : ∀ e ∈ b.edges, e.edge.wf = true)
    (env : String → Option Val) (w : World)
    (hc : CallOK ((b.withProduct outs).1.compileGraph (b.withProduct outs).2) env) (hf : w.failAt = []) (hp : w.impureFns = [])
    (ts : List BTerm) (vs : List Val) (hl : outs.length = ts.length) (hlv : ts.length = vs.length)
    (hd : ∀ q ∈ outs.zip ts, BDen b q.1 q.2) (hnm : ∀ t ∈ ts, t.NoMissing)
    (hv : ∀ i (h : i < ts.length), (ts[i].den (denCfgOf env w)).v = .ok (vs[i]'(hlv ▸ h))) :
    ∃ N s steps, ∀ fuel, N ≤ fuel →
      ((b.withProduct outs).1.compileGraph (b.withProduct outs).2).call env w fuel = some (.done (.val (.tup vs)) s, steps) := by
  have hwf' : ∀ e ∈ (b.withProduct outs).1.edges, e.edge.wf = true := by
    intro e he
    simp only [Bag.withProduct, List.mem_append, List.mem_singleton] at he
    rcases he with he | rfl
    · exact hwf e he
    · rfl
  obtain ⟨N, out, steps, hcall, hres⟩ := pipeline_value (withProduct_wf hb hlt) hac hwf' env w hc hf hp
    (withProduct_den hb hlt ts hl hd) (by
      show (BTerm.node .product ts).NoMissing
      simp only [BTerm.NoMissing]
      exact noMissingL_of_forall hnm)
  rw [product_den _ ts vs hlv hv] at hres
  obtain ⟨s, rfl⟩ := hres
  exact ⟨N, s, steps, hcall⟩

end CM
