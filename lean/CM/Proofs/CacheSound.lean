/-
  CM.Proofs.CacheSound — the rely form of `vm_correct` for graphs *with* cache edges.

  A family `F` of (graph, configuration) pairs shares the stores of the world (one pipeline called on many inputs,
  rebuilt pipelines, pipeline variants on the same storage).  Two assumptions about the family:

    * `Faithful F ex` — C05 as a hypothesis: two nodes of the family whose node hashes both match one stored key (by
      the key equality of the store: Python `==` for RAM tables, equality of pickled bytes for disk tables) have the
      same value;
    * `StoreSound F w` — every entry of every store of the world is right: it holds the value of every node of the
      family whose hash matches its key.

  Under them `big` (hence the stack machine) returns the cache-free denotation, and `StoreSound` is preserved by
  every run, successful or raising — so it holds along every history of calls.
-/
import CM.Proofs.Sound
import CM.Proofs.StoreLemmas
import CM.Proofs.WorldFrame
import CM.Proofs.Deps
namespace CM

abbrev Fam := Graph → DenCfg → Prop

def keyEqB (ex : Bool) (a b : NHash) : Bool := if ex then a == b else hashKeyEq a b

theorem keyEqB_eq (st : MemStore) (a b : NHash) : st.keyEq a b = keyEqB st.exact a b := rfl

theorem keyEqB_refl (ex : Bool) (a : NHash) : keyEqB ex a a = true := by
  unfold keyEqB; split
  · exact NHash.beq_refl a
  · exact hashKeyEq_refl a

/-- C05 as a hypothesis on the family -/
def Faithful (F : Fam) (ex : Bool) : Prop :=
  ∀ (k : NHash) (g : Graph) (d : DenCfg) (n : Nat) (h : NHash) (pl : Val) (v : Val)
    (g' : Graph) (d' : DenCfg) (n' : Nat) (h' : NHash) (pl' : Val),
    F g d → F g' d' → (den g d n).h = .ok (h, pl) → (den g' d' n').h = .ok (h', pl') →
    keyEqB ex k h = true → keyEqB ex k h' = true → (den g d n).v = .ok v → (den g' d' n').v = .ok v

/-- the entry `(k, v)` is right for every node of the family whose hash matches `k` -/
def RightFor (F : Fam) (ex : Bool) (k : NHash) (v : Val) : Prop :=
  ∀ (g : Graph) (d : DenCfg) (n : Nat) (h : NHash) (pl : Val), F g d → (den g d n).h = .ok (h, pl) → keyEqB ex k h = true →
    (den g d n).v = .ok v

def StoreSound (F : Fam) (w : World) : Prop :=
  ∀ (s : Nat) (st : MemStore), w.stores[s]? = some st → (∀ p ∈ st.table, RightFor F st.exact p.1 p.2) ∧ Faithful F st.exact

/-- programs whose cache operations are justified by the denotation of node `n` -/
inductive CacheOK (F : Fam) (g : Graph) (d : DenCfg) (n : Nat) : Prog → Prop
  | ret (x : Item) : CacheOK F g d n (.ret x)
  | raise (e : Err) : CacheOK F g d n (.raise e)
  | req (r : Req) (k : Item → Prog) :
      (∀ x, interpReq (ctxOf g d n) r = .ok x → CacheOK F g d n (k x)) → CacheOK F g d n (.req r k)
  | get (s : Nat) (h : NHash) (k : Option Val → Prog) :
      CacheOK F g d n (k none) → (∀ v, CacheOK F g d n (k (some v))) →
      (∀ ex k' v, RightFor F ex k' v → keyEqB ex k' h = true → interp (ctxOf g d n) (k (some v)) = interp (ctxOf g d n) (k none)) →
      (∀ v q, q ∈ progDeps (ctxOf g d n) (k (some v)) → q ∈ progDeps (ctxOf g d n) (k none)) →
      CacheOK F g d n (.eff (.get s h) k)
  | set (s : Nat) (h : NHash) (v : Val) (k : Option Val → Prog) :
      CacheOK F g d n (k none) → (∀ ex k', Faithful F ex → keyEqB ex k' h = true → RightFor F ex k' v) →
      CacheOK F g d n (.eff (.set s h v) k)

theorem CacheOK.of_noEff {F : Fam} {g : Graph} {d : DenCfg} {n : Nat} {p : Prog} (h : p.NoEff) : CacheOK F g d n p := by
  induction h with
  | ret x => exact .ret x
  | raise e => exact .raise e
  | req r k _ ih => exact .req r k (fun x _ => ih x)

def Prog.isEff : Prog → Bool
  | .eff _ _ => true
  | _ => false

theorem storeSound_set_store {F : Fam} {w : World} {s : Nat} {st st' : MemStore} (hw : StoreSound F w)
    (hs : w.stores[s]? = some st) (hex : st'.exact = st.exact)
    (hsub : ∀ p ∈ st'.table, RightFor F st.exact p.1 p.2) : StoreSound F { w with stores := w.stores.set s st' } := by
  intro j stj hj
  simp only [List.getElem?_set] at hj
  split at hj
  · next hsj =>
    subst hsj
    split at hj
    · injection hj with hj; subst hj
      rw [hex]
      exact ⟨hsub, (hw s st hs).2⟩
    · cases hj
  · exact hw j stj hj

/-- running the cache operations of a justified program keeps the stores sound and does not change its meaning -/
theorem runEffs_cacheOK {F : Fam} {g : Graph} {d : DenCfg} {n : Nat} {p : Prog} (hp : CacheOK F g d n p) :
    ∀ w, StoreSound F w →
      CacheOK F g d n (runEffs p w).1 ∧ StoreSound F (runEffs p w).2 ∧
      interp (ctxOf g d n) (runEffs p w).1 = interp (ctxOf g d n) p ∧ (runEffs p w).1.isEff = false := by
  induction hp with
  | ret x => intro w hw; exact ⟨.ret x, hw, rfl, rfl⟩
  | raise e => intro w hw; exact ⟨.raise e, hw, rfl, rfl⟩
  | req r k hk _ => intro w hw; exact ⟨.req r k hk, hw, rfl, rfl⟩
  | get s h k _ _ hob _ ih0 ih1 =>
    intro w hw
    simp only [runEffs, World.doOp]
    cases hs : w.stores[s]? with
    | none =>
      simp only
      obtain ⟨a, b, c, e⟩ := ih0 w hw
      exact ⟨a, b, by rw [c]; rfl, e⟩
    | some st =>
      simp only
      have hsub := st.get_sub h
      have hw' : StoreSound F { w with stores := w.stores.set s (st.get h).2 } :=
        storeSound_set_store hw hs hsub.2 (fun p hp => (hw s st hs).1 p (hsub.1 p hp))
      cases hr : (st.get h).1 with
      | none =>
        obtain ⟨a, b, c, e⟩ := ih0 _ hw'
        exact ⟨a, b, by rw [c]; rfl, e⟩
      | some v =>
        obtain ⟨p, hpm, hpv, hpk⟩ := st.get_hit h v hr
        have hright : RightFor F st.exact p.1 v := by rw [← hpv]; exact (hw s st hs).1 p hpm
        obtain ⟨a, b, c, e⟩ := ih1 v _ hw'
        refine ⟨a, b, ?_, e⟩
        rw [c, hob st.exact p.1 v hright hpk]
        rfl
  | set s h v k _ hob ih0 =>
    intro w hw
    simp only [runEffs, World.doOp]
    cases hs : w.stores[s]? with
    | none =>
      simp only
      obtain ⟨a, b, c, e⟩ := ih0 w hw
      exact ⟨a, b, by rw [c]; rfl, e⟩
    | some st =>
      simp only
      have hsub := st.set_sub h v
      have hw' : StoreSound F { w with stores := w.stores.set s (st.set h v) } := by
        refine storeSound_set_store hw hs hsub.2 (fun p hp => ?_)
        rcases hsub.1 p hp with hold | ⟨hv, hk⟩
        · exact (hw s st hs).1 p hold
        · rw [hv]; exact hob st.exact p.1 (hw s st hs).2 hk
      obtain ⟨a, b, c, e⟩ := ih0 _ hw'
      exact ⟨a, b, by rw [c]; rfl, e⟩

/-- a hit only shortens what the program asks for -/
theorem runEffs_deps {F : Fam} {g : Graph} {d : DenCfg} {n : Nat} {p : Prog} (hp : CacheOK F g d n p) :
    ∀ w q, q ∈ progDeps (ctxOf g d n) (runEffs p w).1 → q ∈ progDeps (ctxOf g d n) p := by
  induction hp with
  | ret x => intro w q h; exact h
  | raise e => intro w q h; exact h
  | req r k _ _ => intro w q h; exact h
  | get s h k _ _ _ hdeps ih0 ih1 =>
    intro w q hq
    simp only [runEffs, World.doOp] at hq
    simp only [progDeps]
    cases hs : w.stores[s]? with
    | none => simp only [hs] at hq; exact ih0 _ q hq
    | some st =>
      simp only [hs] at hq
      cases hr : (st.get h).1 with
      | none => simp only [hr] at hq; exact ih0 _ q hq
      | some v => simp only [hr] at hq; exact hdeps v q (ih1 v _ q hq)
  | set s h v k _ _ ih0 =>
    intro w q hq
    simp only [runEffs, World.doOp] at hq
    simp only [progDeps]
    cases hs : w.stores[s]? with
    | none => simp only [hs] at hq; exact ih0 _ q hq
    | some st => simp only [hs] at hq; exact ih0 _ q hq

theorem bind_asVal_ok (r : Except Err Item) (v : Val) (h : r.bind Item.asVal = .ok v) : r = .ok (.val v) := by
  cases r with
  | error e => cases h
  | ok x =>
    cases x with
    | val v' => simp only [Except.bind, Item.asVal] at h; injection h with h; rw [h]
    | hash _ | hout _ _ | node _ | tup _ => cases h

/-- `CacheEdge.evaluate` is justified: a hit is a right value, and what it stores is the value of its node -/
theorem cache_evalProg_ok (F : Fam) (g : Graph) (d : DenCfg) (n s a : Nat) (hF : F g d)
    (hden : (den g d n).v = (interp (ctxOf g d n) ((EdgeK.cache s).evalProg a)).bind Item.asVal) :
    CacheOK F g d n ((EdgeK.cache s).evalProg a) := by
  simp only [EdgeK.evalProg] at hden ⊢
  refine .req _ _ ?_
  intro x hx
  -- the answer to `CurrentHash` is the hash of this node
  simp only [interpReq, ctxOf] at hx
  cases hh : (den g d n).h with
  | error e => simp [hh, Except.map] at hx
  | ok hp =>
    obtain ⟨h, pl⟩ := hp
    simp only [hh, Except.map] at hx
    injection hx with hx; subst hx
    simp only
    have hcur : interpReq (ctxOf g d n) .currentHash = .ok (.hash h) := by
      simp only [interpReq, ctxOf, hh, Except.map]
    simp only [interp, hcur] at hden
    -- `hden : (den n).v = (interp c (k2 none)).bind asVal`
    refine .get s h _ ?_ (fun v => .ret _) ?_ (fun v q hq => by simp [progDeps] at hq)
    · refine .req _ _ ?_
      intro y hy
      simp only [interpReq] at hy
      cases hpv : (ctxOf g d n).pv 0 with
      | error e => simp [hpv, Except.map] at hy
      | ok v' =>
        simp only [hpv, Except.map] at hy
        injection hy with hy; subst hy
        simp only
        have hval : (den g d n).v = .ok v' := by
          rw [hden]
          simp only [interp, interpReq, hpv, Except.map]
          rfl
        refine .set s h v' _ (.ret _) ?_
        intro ex k' hfa hk g' d' n' h' pl' hF' hh' hk'
        exact hfa k' g d n h pl v' g' d' n' h' pl' hF hF' hh hh' hk hk' hval
    · intro ex k' v hright hk
      have hv := hright g d n h pl hF hh hk
      rw [hden] at hv
      have hk2 := bind_asVal_ok _ v hv
      dsimp only
      simp only [interp] at hk2 ⊢
      rw [hk2]


/-! ### soundness of the evaluator with caches -/

/-- well-formed graphs that may contain cache edges -/
structure GraphOKC (g : Graph) : Prop extends GraphBase g where
  wfc : ∀ (n : Nat) (nd : Node) (e : EdgeK), g.nodes[n]? = some nd → nd.edge = some e → e.wf = true ∨ ∃ s, e = .cache s

structure MemSoundC (F : Fam) (g : Graph) (d : DenCfg) (m : Mem) : Prop where
  mem : MemSound g d m
  stores : StoreSound F m.world
  fam : F g d

def TaskOKC (F : Fam) (g : Graph) (d : DenCfg) : Task → Prop
  | .prog n p => CacheOK F g d n p
  | _ => True

/-- what a finished task establishes: the denotation for a result, sound stores in any case -/
def SoundRes (F : Fam) (g : Graph) (d : DenCfg) (t : Task) : BRes → Prop
  | .ok x m' => MemSoundC F g d m' ∧ Post g d t x
  | .raised _ m' => StoreSound F m'.world
  | .fuel => True

theorem hashProg_noEff_c (e : EdgeK) (a : Nat) (h : e.wf = true ∨ ∃ s, e = .cache s) : (e.hashProg a).NoEff := by
  rcases h with h | ⟨s, rfl⟩
  · exact hashProg_noEff e a h
  · exact staticHash_noEff _ _ fun _ => .ret _

theorem hashProg_noCur_c (e : EdgeK) (a : Nat) (h : e.wf = true ∨ ∃ s, e = .cache s) : (e.hashProg a).NoCur := by
  rcases h with h | ⟨s, rfl⟩
  · exact hashProg_noCur e a h
  · exact staticHash_noCur _ _ fun _ => .ret _

theorem call_stores (w : World) (n : Nat) (f : String) (pos : List Val) (kwn : List String) (kwv : List Val) :
    (w.call n f pos kwn kwv).2.stores = w.stores := by
  unfold World.call
  simp only
  split
  · rfl
  · split
    · rfl
    · split <;> rfl

theorem storeSound_of_stores {F : Fam} {w w' : World} (h : w'.stores = w.stores) (hs : StoreSound F w) : StoreSound F w' := by
  intro s st hst; rw [h] at hst; exact hs s st hst

theorem fixed_parts {w w' : World} (h : w'.fixed = w.fixed) :
    w'.constFns = w.constFns ∧ w'.impureFns = w.impureFns ∧ w'.callNo = w.callNo := by
  simp only [World.fixed, Prod.mk.injEq] at h
  exact ⟨h.2.2.1, h.2.1, h.2.2.2⟩

theorem big_sound_c (F : Fam) (g : Graph) (d : DenCfg) (ok : GraphOKC g) : ∀ (f : Nat) (t : Task) (m : Mem),
    MemSoundC F g d m → TaskOKC F g d t → SoundRes F g d t (big g f t m) := by
  intro f
  induction f with
  | zero => intro t m _ _; simp [big, SoundRes]
  | succ f ih =>
    intro t m hs htask
    cases t with
    | hash n =>
      rw [big_hash]
      cases hx : m.hashes.memo n with
      | some x0 => exact ⟨hs, hs.mem.hashes n _ hx⟩
      | none =>
        simp only
        cases he : (g.node n).edge with
        | none => exact hs.stores
        | some e =>
          simp only
          have hnode := node_of_edge g n e he
          have hwf := ok.wfc n _ e hnode he
          have hih := ih (.prog n (e.hashProg (g.parents n).length)) m hs (CacheOK.of_noEff (hashProg_noEff_c e _ hwf))
          cases hq : big g f (.prog n (e.hashProg (g.parents n).length)) m with
          | fuel => trivial
          | raised e1 m1 => rw [hq] at hih; exact hih
          | ok x1 m1 =>
            rw [hq] at hih
            obtain ⟨hs1, hint⟩ := hih
            simp only [Post] at hint
            have hden := (den_inner g d ok.toGraphBase n e he).1
            rw [interp_noCur (ctxOf g d n) _ _ (hashProg_noCur_c e _ hwf), hint] at hden
            simp only
            cases hy : m1.hashes.memo n with
            | some _ => exact hs1.stores
            | none =>
              simp only
              cases hset : m1.hashes.set n x1 with
              | none => exact hs1.stores
              | some h' =>
                refine ⟨⟨⟨hs1.mem.vals, ?_, hs1.mem.consts, hs1.mem.impure, hs1.mem.callNo⟩, hs1.stores, hs1.fam⟩, hden⟩
                intro j y hj
                unfold Scratch.set at hset
                split at hset
                · cases hset
                · injection hset with hset; subst hset
                  simp only [upd] at hj
                  split at hj
                  · next hjn => injection hj with hj; subst hj; subst hjn; exact hden
                  · exact hs1.mem.hashes j y hj
    | value n =>
      rw [big_value]
      cases hx : m.cache.memo n with
      | some v0 => exact ⟨hs, v0, rfl, hs.mem.vals n _ hx⟩
      | none =>
        simp only
        cases he : (g.node n).edge with
        | none => exact hs.stores
        | some e =>
          simp only
          have hnode := node_of_edge g n e he
          have hwf := ok.wfc n _ e hnode he
          have hden := (den_inner g d ok.toGraphBase n e he).2
          have hcok : CacheOK F g d n (e.evalProg (g.parents n).length) := by
            rcases hwf with h | ⟨s, rfl⟩
            · exact CacheOK.of_noEff (evalProg_noEff e _ h)
            · exact cache_evalProg_ok F g d n s _ hs.fam hden
          have hih := ih (.prog n (e.evalProg (g.parents n).length)) m hs hcok
          cases hq : big g f (.prog n (e.evalProg (g.parents n).length)) m with
          | fuel => trivial
          | raised e1 m1 => rw [hq] at hih; exact hih
          | ok x1 m1 =>
            rw [hq] at hih
            obtain ⟨hs1, hint⟩ := hih
            simp only [Post] at hint
            cases x1 with
            | val v =>
              rw [hint] at hden
              simp only
              cases hy : m1.cache.memo n with
              | some _ => exact hs1.stores
              | none =>
                simp only
                cases hset : m1.cache.set n v with
                | none => exact hs1.stores
                | some c' =>
                  refine ⟨⟨⟨?_, hs1.mem.hashes, hs1.mem.consts, hs1.mem.impure, hs1.mem.callNo⟩, hs1.stores, hs1.fam⟩, v, rfl, hden⟩
                  intro j y hj
                  unfold Scratch.set at hset
                  split at hset
                  · cases hset
                  · injection hset with hset; subst hset
                    simp only [upd] at hj
                    split at hj
                    · next hjn => injection hj with hj; subst hj; subst hjn; exact hden
                    · exact hs1.mem.vals j y hj
            | hash _ | hout _ _ | node _ | tup _ => exact hs1.stores
    | prog n p =>
      rw [big_prog]
      have hcp : CacheOK F g d n p := htask
      obtain ⟨hc', hst', hint', hne'⟩ := runEffs_cacheOK hcp m.world hs.stores
      have hfx := fixed_parts (runEffs_fixed p m.world)
      cases hq : runEffs p m.world with
      | mk p' w' =>
        rw [hq] at hc' hst' hint' hne' hfx
        simp only at hc' hst' hint' hne' hfx
        have hsw : MemSoundC F g d { m with world := w' } :=
          ⟨⟨hs.mem.vals, hs.mem.hashes, hfx.1.trans hs.mem.consts, hfx.2.1.trans hs.mem.impure, hfx.2.2.trans hs.mem.callNo⟩, hst', hs.fam⟩
        cases p' with
        | ret x =>
          simp only
          cases hev : evictAll (g.parents n) m.hashes m.cache with
          | none => exact hst'
          | some hc =>
            obtain ⟨h', c'⟩ := hc
            obtain ⟨i1, i2⟩ := evictAll_memo _ _ _ _ _ hev
            exact ⟨⟨⟨fun j v hv => hs.mem.vals j v (i2 j v hv), fun j y hy => hs.mem.hashes j y (i1 j y hy),
              hsw.mem.consts, hsw.mem.impure, hsw.mem.callNo⟩, hst', hs.fam⟩, hint'.symm⟩
        | raise e => exact hst'
        | eff op k => simp [Prog.isEff] at hne'
        | req r k =>
          simp only
          have hih := ih (.req n r) { m with world := w' } hsw trivial
          cases hq1 : big g f (.req n r) { m with world := w' } with
          | fuel => trivial
          | raised e1 m1 => rw [hq1] at hih; exact hih
          | ok y m1 =>
            rw [hq1] at hih
            obtain ⟨hs1, hr⟩ := hih
            simp only [Post] at hr
            have hky : CacheOK F g d n (k y) := by
              cases hc' with
              | req _ _ hk => exact hk y hr
            have hih2 := ih (.prog n (k y)) m1 hs1 hky
            simp only
            cases hq2 : big g f (.prog n (k y)) m1 with
            | fuel => trivial
            | raised e2 m2 => rw [hq2] at hih2; exact hih2
            | ok x m2 =>
              rw [hq2] at hih2
              refine ⟨hih2.1, ?_⟩
              have := hih2.2
              simp only [Post] at this ⊢
              rw [← hint']
              simp only [interp, hr, this]
    | req n r =>
      rw [big_req]
      cases r with
      | parentHash i =>
        simp only
        cases hp : (g.parents n)[i]? with
        | none => exact hs.stores
        | some p =>
          simp only
          have hih := ih (.hash p) m hs trivial
          cases hq : big g f (.hash p) m with
          | fuel => trivial
          | raised e1 m1 => rw [hq] at hih; exact hih
          | ok y m1 =>
            rw [hq] at hih
            obtain ⟨hs1, hpost⟩ := hih
            simp only [Post] at hpost
            cases y with
            | hout h pl => exact ⟨hs1, by simp only [Post, interpReq, ctxOf, hp, hpost, Item.asHout, Except.map]⟩
            | val _ | hash _ | node _ | tup _ => exact hs1.stores
      | parentValue i =>
        simp only
        cases hp : (g.parents n)[i]? with
        | none => exact hs.stores
        | some p =>
          simp only
          have hih := ih (.value p) m hs trivial
          cases hq : big g f (.value p) m with
          | fuel => trivial
          | raised e1 m1 => rw [hq] at hih; exact hih
          | ok y m1 =>
            rw [hq] at hih
            obtain ⟨hs1, v, hv, hden⟩ := hih
            subst hv
            exact ⟨hs1, by simp only [Post, interpReq, ctxOf, hp, hden, Except.map]⟩
      | currentHash =>
        simp only
        have hih := ih (.hash n) m hs trivial
        cases hq : big g f (.hash n) m with
        | fuel => trivial
        | raised e1 m1 => rw [hq] at hih; exact hih
        | ok y m1 =>
          rw [hq] at hih
          obtain ⟨hs1, hpost⟩ := hih
          simp only [Post] at hpost
          cases y with
          | hout h pl => exact ⟨hs1, by simp only [Post, interpReq, ctxOf, hpost, Item.asHout, Except.map]⟩
          | val _ | hash _ | node _ | tup _ => exact hs1.stores
      | payload =>
        simp only
        have hih := ih (.hash n) m hs trivial
        cases hq : big g f (.hash n) m with
        | fuel => trivial
        | raised e1 m1 => rw [hq] at hih; exact hih
        | ok y m1 =>
          rw [hq] at hih
          obtain ⟨hs1, hpost⟩ := hih
          simp only [Post] at hpost
          cases y with
          | hout h pl => exact ⟨hs1, by simp only [Post, interpReq, ctxOf, hpost, Item.asHout, Except.map]⟩
          | val _ | hash _ | node _ | tup _ => exact hs1.stores
      | await rs =>
        simp only
        have hih := ih (.reqs n rs.reverse []) m hs trivial
        cases hq : big g f (.reqs n rs.reverse []) m with
        | fuel => trivial
        | raised e1 m1 => rw [hq] at hih; exact hih
        | ok y m1 =>
          rw [hq] at hih
          obtain ⟨hs1, xs, hxs, hx⟩ := hih
          subst hx
          simp only [List.reverse_reverse] at hxs
          exact ⟨hs1, by simp only [Post, interpReq, hxs, Except.map, List.append_nil]⟩
      | call fn pos kwn kwv =>
        simp only
        have hst := call_stores m.world n fn pos kwn kwv
        cases hc : m.world.call n fn pos kwn kwv with
        | mk rv w =>
          rw [hc] at hst
          simp only at hst
          have hsw := storeSound_of_stores hst hs.stores
          cases rv with
          | error e1 => exact hsw
          | ok v =>
            obtain ⟨hv, c1, c2, c3⟩ := world_call_ok g d m hs.mem n fn pos kwn kwv v w hc
            exact ⟨⟨memSound_world g d m w hs.mem c1 c2 c3, hsw, hs.fam⟩, by simp only [Post, interpReq, ctxOf, hv]⟩
    | reqs n rsRev acc =>
      rw [big_reqs]
      cases rsRev with
      | nil => exact ⟨hs, [], by simp [interpReqs], by simp⟩
      | cons r rest =>
        simp only
        have hih := ih (.req n r) m hs trivial
        cases hq : big g f (.req n r) m with
        | fuel => trivial
        | raised e1 m1 => rw [hq] at hih; exact hih
        | ok y m1 =>
          rw [hq] at hih
          obtain ⟨hs1, hr⟩ := hih
          simp only [Post] at hr
          have hih2 := ih (.reqs n rest (y :: acc)) m1 hs1 trivial
          simp only
          cases hq2 : big g f (.reqs n rest (y :: acc)) m1 with
          | fuel => trivial
          | raised e2 m2 => rw [hq2] at hih2; exact hih2
          | ok x m2 =>
            rw [hq2] at hih2
            obtain ⟨hs2, xs, hxs, hx⟩ := hih2
            refine ⟨hs2, xs ++ [y], ?_, by rw [hx]; simp⟩
            simp only [List.reverse_cons, interpReqs_snoc, hr, hxs, Except.map]

end CM
