/-
  CM.Proofs.WorldFrame — what a run never changes in the world: the fault plan, the sets of impure and constant
  functions and the call number.
-/
import CM.Proofs.Big
namespace CM

/-- the parts of the world that no step of a run writes -/
def World.fixed (w : World) : List Nat × List String × List (String × Val) × Nat := (w.failAt, w.impureFns, w.constFns, w.callNo)

theorem doOp_fixed (w : World) (op : StoreOp) : (w.doOp op).2.fixed = w.fixed := by
  cases op with
  | get s key =>
    simp only [World.doOp]
    cases w.stores[s]? <;> rfl
  | set s key v =>
    simp only [World.doOp]
    cases w.stores[s]? <;> rfl

theorem runEffs_fixed : ∀ (p : Prog) (w : World), (runEffs p w).2.fixed = w.fixed
  | .ret _, _ => rfl
  | .raise _, _ => rfl
  | .req _ _, _ => rfl
  | .eff op k, w => by
    simp only [runEffs]
    rw [runEffs_fixed (k (w.doOp op).1) (w.doOp op).2, doOp_fixed]

theorem call_fixed (w : World) (n : Nat) (f : String) (pos : List Val) (kwn : List String) (kwv : List Val) :
    (w.call n f pos kwn kwv).2.fixed = w.fixed := by
  unfold World.call
  simp only
  split
  · rfl
  · split
    · rfl
    · split <;> rfl

def BRes.fixedIs (r : BRes) (x : List Nat × List String × List (String × Val) × Nat) : Prop :=
  match r with
  | .ok _ m => m.world.fixed = x
  | .raised _ m => m.world.fixed = x
  | .fuel => True

theorem big_fixed (g : Graph) : ∀ (f : Nat) (t : Task) (m : Mem), (big g f t m).fixedIs m.world.fixed := by
  intro f
  induction f with
  | zero => intro t m; simp [big, BRes.fixedIs]
  | succ f ih =>
    intro t m
    cases t with
    | hash n =>
      rw [big_hash]
      cases m.hashes.memo n with
      | some x => exact rfl
      | none =>
        simp only
        cases (g.node n).edge with
        | none => exact rfl
        | some e =>
          simp only
          have := ih (.prog n (e.hashProg (g.parents n).length)) m
          cases hq : big g f (.prog n (e.hashProg (g.parents n).length)) m with
          | fuel => trivial
          | raised _ _ => rw [hq] at this; exact this
          | ok x m1 =>
            rw [hq] at this
            simp only
            cases m1.hashes.memo n with
            | some _ => exact this
            | none =>
              simp only
              cases m1.hashes.set n x with
              | none => exact this
              | some _ => exact this
    | value n =>
      rw [big_value]
      cases m.cache.memo n with
      | some x => exact rfl
      | none =>
        simp only
        cases (g.node n).edge with
        | none => exact rfl
        | some e =>
          simp only
          have := ih (.prog n (e.evalProg (g.parents n).length)) m
          cases hq : big g f (.prog n (e.evalProg (g.parents n).length)) m with
          | fuel => trivial
          | raised _ _ => rw [hq] at this; exact this
          | ok x m1 =>
            rw [hq] at this
            cases x with
            | val v =>
              simp only
              cases m1.cache.memo n with
              | some _ => exact this
              | none =>
                simp only
                cases m1.cache.set n v with
                | none => exact this
                | some _ => exact this
            | hash _ | hout _ _ | node _ | tup _ => exact this
    | prog n p =>
      rw [big_prog]
      have hr := runEffs_fixed p m.world
      cases hq : runEffs p m.world with
      | mk p' w =>
        rw [hq] at hr
        simp only at hr
        cases p' with
        | ret x =>
          simp only
          cases evictAll (g.parents n) m.hashes m.cache with
          | none => exact hr
          | some hc => exact hr
        | raise e => exact hr
        | eff _ _ => exact hr
        | req r k =>
          simp only
          have h1 := ih (.req n r) { m with world := w }
          cases hq1 : big g f (.req n r) { m with world := w } with
          | fuel => trivial
          | raised _ _ => rw [hq1] at h1; exact h1.trans hr
          | ok x m1 =>
            rw [hq1] at h1
            simp only
            have h2 := ih (.prog n (k x)) m1
            have e1 : m1.world.fixed = m.world.fixed := h1.trans hr
            rw [e1] at h2
            exact h2
    | req n r =>
      rw [big_req]
      cases r with
      | parentHash i =>
        simp only
        cases (g.parents n)[i]? with
        | none => exact rfl
        | some p =>
          simp only
          have := ih (.hash p) m
          cases hq : big g f (.hash p) m with
          | fuel => trivial
          | raised _ _ => rw [hq] at this; exact this
          | ok x m1 => rw [hq] at this; cases x <;> exact this
      | parentValue i =>
        simp only
        cases (g.parents n)[i]? with
        | none => exact rfl
        | some p => exact ih (.value p) m
      | currentHash =>
        simp only
        have := ih (.hash n) m
        cases hq : big g f (.hash n) m with
        | fuel => trivial
        | raised _ _ => rw [hq] at this; exact this
        | ok x m1 => rw [hq] at this; cases x <;> exact this
      | payload =>
        simp only
        have := ih (.hash n) m
        cases hq : big g f (.hash n) m with
        | fuel => trivial
        | raised _ _ => rw [hq] at this; exact this
        | ok x m1 => rw [hq] at this; cases x <;> exact this
      | await rs => exact ih (.reqs n rs.reverse []) m
      | call fn pos kwn kwv =>
        simp only
        have := call_fixed m.world n fn pos kwn kwv
        cases hc : m.world.call n fn pos kwn kwv with
        | mk rv w =>
          rw [hc] at this
          cases rv <;> exact this
    | reqs n rsRev acc =>
      rw [big_reqs]
      cases rsRev with
      | nil => exact rfl
      | cons r rest =>
        simp only
        have h1 := ih (.req n r) m
        cases hq1 : big g f (.req n r) m with
        | fuel => trivial
        | raised _ _ => rw [hq1] at h1; exact h1
        | ok x m1 =>
          rw [hq1] at h1
          simp only
          have h2 := ih (.reqs n rest (x :: acc)) m1
          rw [h1] at h2
          exact h2

end CM
