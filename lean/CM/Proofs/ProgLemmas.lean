/-
  CM.Proofs.ProgLemmas — syntactic facts about the request programs of the edges: which of them never touch a cache
  (`NoEff`) and never ask for the hash / payload of their own node (`NoCur`).
-/
import CM.Model.Denote
namespace CM

mutual
  def Req.noCur : Req → Bool
    | .currentHash => false
    | .payload => false
    | .await rs => Req.noCurList rs
    | _ => true
  def Req.noCurList : List Req → Bool
    | [] => true
    | r :: rs => r.noCur && Req.noCurList rs
end

/-- no cache operation anywhere in the program -/
inductive Prog.NoEff : Prog → Prop
  | ret (x : Item) : NoEff (.ret x)
  | raise (e : Err) : NoEff (.raise e)
  | req (r : Req) (k : Item → Prog) : (∀ x, NoEff (k x)) → NoEff (.req r k)

/-- no request for the node's own hash or payload anywhere in the program -/
inductive Prog.NoCur : Prog → Prop
  | ret (x : Item) : NoCur (.ret x)
  | raise (e : Err) : NoCur (.raise e)
  | req (r : Req) (k : Item → Prog) : r.noCur = true → (∀ x, NoCur (k x)) → NoCur (.req r k)

theorem runEffs_noEff (p : Prog) (w : World) (h : p.NoEff) : runEffs p w = (p, w) := by
  cases h <;> rfl

theorem Prog.NoEff.bind {p : Prog} {f : Item → Prog} (hp : p.NoEff) (hf : ∀ x, (f x).NoEff) : (p.bind f).NoEff := by
  induction hp with
  | ret x => exact hf x
  | raise e => exact .raise e
  | req r k _ ih => exact .req r _ ih

theorem Prog.NoCur.bind {p : Prog} {f : Item → Prog} (hp : p.NoCur) (hf : ∀ x, (f x).NoCur) : (p.bind f).NoCur := by
  induction hp with
  | ret x => exact hf x
  | raise e => exact .raise e
  | req r k hr _ ih => exact .req r _ hr ih

theorem noCurList_map_parentHash (l : List Nat) : Req.noCurList (l.map .parentHash) = true := by
  induction l with
  | nil => rfl
  | cons a as ih => simp [Req.noCurList, Req.noCur, ih]

theorem noCurList_map_parentValue (l : List Nat) : Req.noCurList (l.map .parentValue) = true := by
  induction l with
  | nil => rfl
  | cons a as ih => simp [Req.noCurList, Req.noCur, ih]

theorem staticHash_noEff (a : Nat) (mk : List NHash → Prog) (h : ∀ hs, (mk hs).NoEff) : (staticHash a mk).NoEff := by
  refine .req _ _ ?_
  intro x
  cases x with
  | tup xs => simp only; split <;> first | exact h _ | exact .raise _
  | _ => exact .raise _

theorem staticHash_noCur (a : Nat) (mk : List NHash → Prog) (h : ∀ hs, (mk hs).NoCur) : (staticHash a mk).NoCur := by
  refine .req _ _ (by simp [Req.noCur, noCurList_map_parentHash]) ?_
  intro x
  cases x with
  | tup xs => simp only; split <;> first | exact h _ | exact .raise _
  | _ => exact .raise _

theorem staticEval_noEff (a : Nat) (f : List Val → Prog) (h : ∀ vs, (f vs).NoEff) : (staticEval a f).NoEff := by
  refine .req _ _ ?_
  intro x
  cases x with
  | tup xs => simp only; split <;> first | exact h _ | exact .raise _
  | _ => exact .raise _

theorem staticEval_noCur (a : Nat) (f : List Val → Prog) (h : ∀ vs, (f vs).NoCur) : (staticEval a f).NoCur := by
  refine .req _ _ (by simp [Req.noCur, noCurList_map_parentValue]) ?_
  intro x
  cases x with
  | tup xs => simp only; split <;> first | exact h _ | exact .raise _
  | _ => exact .raise _

/-- edges whose `evaluate` awaits the parents' values and computes: what `@hash_by_value` / `@impure` may wrap -/
def EdgeK.simple : EdgeK → Bool
  | .function _ _ _ | .identity | .constant _ | .product | .checkIds => true
  | _ => false

/-- no cache edge, and wrappers wrap simple edges (the repair of F5 makes the decorators guarantee this) -/
def EdgeK.wf : EdgeK → Bool
  | .cache _ => false
  | .byValue i | .impure i => i.simple
  | _ => true

theorem simple_eval_noEff (e : EdgeK) (a : Nat) (h : e.simple = true) : (e.evalProg a).NoEff := by
  cases e <;> simp [EdgeK.simple] at h
  · exact staticEval_noEff _ _ fun vs => .req _ _ fun x => .ret x
  · exact staticEval_noEff _ _ fun vs => .ret _
  · exact staticEval_noEff _ _ fun vs => .ret _
  · exact staticEval_noEff _ _ fun vs => .ret _
  · refine staticEval_noEff _ _ fun vs => ?_
    split
    · split <;> first | exact .ret _ | exact .raise _
    · exact .raise _

theorem simple_eval_noCur (e : EdgeK) (a : Nat) (h : e.simple = true) : (e.evalProg a).NoCur := by
  cases e <;> simp [EdgeK.simple] at h
  · exact staticEval_noCur _ _ fun vs => .req _ _ rfl fun x => .ret x
  · exact staticEval_noCur _ _ fun vs => .ret _
  · exact staticEval_noCur _ _ fun vs => .ret _
  · exact staticEval_noCur _ _ fun vs => .ret _
  · refine staticEval_noCur _ _ fun vs => ?_
    split
    · split <;> first | exact .ret _ | exact .raise _
    · exact .raise _

end CM

namespace CM

macro "noeff_auto" : tactic =>
  `(tactic| repeat (first | exact Prog.NoEff.ret _ | exact Prog.NoEff.raise _ | (refine Prog.NoEff.req _ _ ?_; intro _) | split))

macro "nocur_auto" : tactic =>
  `(tactic| repeat (first | exact Prog.NoCur.ret _ | exact Prog.NoCur.raise _
                          | (refine Prog.NoCur.req _ _ (by simp [Req.noCur, Req.noCurList]) ?_; intro _) | split))

theorem evalProg_noEff (e : EdgeK) (a : Nat) (h : e.wf = true) : (e.evalProg a).NoEff := by
  cases e with
  | cache s => simp [EdgeK.wf] at h
  | function f kw sil => exact simple_eval_noEff _ a rfl
  | identity => exact simple_eval_noEff _ a rfl
  | constant v => exact simple_eval_noEff _ a rfl
  | product => exact simple_eval_noEff _ a rfl
  | checkIds => exact simple_eval_noEff _ a rfl
  | barrier => simp only [EdgeK.evalProg]; noeff_auto
  | byValue i => simp only [EdgeK.evalProg]; noeff_auto
  | impure i => simp only [EdgeK.evalProg]; noeff_auto
  | switch t => simp only [EdgeK.evalProg]; noeff_auto
  | switchBranch => simp only [EdgeK.evalProg]; noeff_auto
  | switchMissing i => simp only [EdgeK.evalProg]; noeff_auto

theorem hashProg_noEff (e : EdgeK) (a : Nat) (h : e.wf = true) : (e.hashProg a).NoEff := by
  cases e with
  | cache s => simp [EdgeK.wf] at h
  | function f kw sil => exact staticHash_noEff _ _ fun _ => .ret _
  | identity => exact staticHash_noEff _ _ fun _ => .ret _
  | constant v => exact staticHash_noEff _ _ fun _ => .ret _
  | product => exact staticHash_noEff _ _ fun _ => .ret _
  | checkIds => exact staticHash_noEff _ _ fun _ => .ret _
  | barrier => simp only [EdgeK.hashProg]; noeff_auto
  | byValue i =>
    simp only [EdgeK.wf] at h
    simp only [EdgeK.hashProg]
    refine (simple_eval_noEff i a h).bind fun x => ?_
    noeff_auto
  | impure i =>
    simp only [EdgeK.wf] at h
    simp only [EdgeK.hashProg]
    refine (simple_eval_noEff i a h).bind fun x => ?_
    noeff_auto
  | switch t => simp only [EdgeK.hashProg]; noeff_auto
  | switchBranch => simp only [EdgeK.hashProg]; noeff_auto
  | switchMissing i => simp only [EdgeK.hashProg]; noeff_auto

theorem hashProg_noCur (e : EdgeK) (a : Nat) (h : e.wf = true) : (e.hashProg a).NoCur := by
  cases e with
  | cache s => simp [EdgeK.wf] at h
  | function f kw sil => exact staticHash_noCur _ _ fun _ => .ret _
  | identity => exact staticHash_noCur _ _ fun _ => .ret _
  | constant v => exact staticHash_noCur _ _ fun _ => .ret _
  | product => exact staticHash_noCur _ _ fun _ => .ret _
  | checkIds => exact staticHash_noCur _ _ fun _ => .ret _
  | barrier => simp only [EdgeK.hashProg]; nocur_auto
  | byValue i =>
    simp only [EdgeK.wf] at h
    simp only [EdgeK.hashProg]
    refine (simple_eval_noCur i a h).bind fun x => ?_
    nocur_auto
  | impure i =>
    simp only [EdgeK.wf] at h
    simp only [EdgeK.hashProg]
    refine (simple_eval_noCur i a h).bind fun x => ?_
    nocur_auto
  | switch t => simp only [EdgeK.hashProg]; nocur_auto
  | switchBranch => simp only [EdgeK.hashProg]; nocur_auto
  | switchMissing i => simp only [EdgeK.hashProg]; nocur_auto

end CM
