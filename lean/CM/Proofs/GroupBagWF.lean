/-
  CM.Proofs.GroupBagWF — the container GroupBy builds over a well-formed container is well-formed.
-/
import CM.Proofs.GroupBag
import CM.Proofs.FactoryWF
namespace CM

theorem group_outs_spec (fields : List BNode) (n : Nat) :
    ∀ o ∈ ((List.range fields.length).zip fields).map (fun (p : Nat × BNode) => ({ id := n + 3 + p.1, name := p.2.name } : BNode)),
      o.id < n + 3 + fields.length := by
  intro o ho
  obtain ⟨p, hp, rfl⟩ := List.mem_map.1 ho
  have := (List.of_mem_zip hp).1
  simp only [List.mem_range] at this
  simp only []
  omega

/-- **the container `GroupBy` builds over a well-formed container is well-formed** -/
theorem groupByBag_wf {prev b : Bag} (hw : prev.WF) (h : groupByBag prev = .ok b) : b.WF := by
  unfold groupByBag at h
  split at h
  · rename_i i keys hi hk
    split at h
    · cases h
    · have hkeys := (byName_some hk).1
      refine mkBag_wf h ?_ ?_
      · intro n hn
        have hprev : ∀ m ∈ prev.nodes3, m.id < prev.next + 4 + (groupFields prev).length := fun m hm => by
          have := hw.ids m hm; omega
        have hko : keys.id < prev.next + 4 + (groupFields prev).length :=
          hprev keys (by simp [Bag.nodes3, hkeys])
        simp only [groupByRaw, List.mem_append, List.mem_cons, List.mem_singleton, List.not_mem_nil, or_false, edgeNodes,
          List.flatMap_append, List.flatMap_cons, List.flatMap_nil, List.append_nil, List.mem_flatMap, List.mem_map] at hn
        have hnext : (groupByRaw prev keys).next = prev.next + 4 + (groupFields prev).length := rfl
        rw [hnext]
        have hz : ∀ a ∈ (List.range (groupFields prev).length).zip (groupFields prev), a.1 < (groupFields prev).length := fun a ha => by
          simpa using (List.of_mem_zip ha).1
        rcases hn with ((rfl | (rfl | ⟨a, ha, rfl⟩) | rfl) | ((⟨e, he, hn⟩ | ((rfl | rfl) | rfl | rfl)) | ⟨e, ⟨o, ⟨a, ha, rfl⟩, rfl⟩, hn⟩) | rfl | rfl)
        · simp only []; omega
        · simp only []; omega
        · have := hz a ha; simp only []; omega
        · simp only []; omega
        · refine hprev n ?_
          simp only [Bag.nodes3, List.mem_append]
          refine Or.inr ?_
          rcases hn with rfl | hn
          · exact mem_edgeNodes_out he
          · exact mem_edgeNodes_in he hn
        · simp only []; omega
        · exact hko
        · simp only []; omega
        · simp only []; omega
        · have := hz a ha
          simp only [List.mem_cons, List.not_mem_nil, or_false] at hn
          rcases hn with rfl | rfl | rfl <;> simp only [] <;> omega
        · simp only []; omega
        · simp only []; omega
      · intro x hx
        left
        obtain ⟨o, ho, rfl⟩ := List.mem_map.1 (hw.persOut x hx)
        by_cases h1 : o.name = "ids"
        · simp [groupByRaw, names, h1]
        · by_cases h2 : o.name = "id"
          · simp [groupByRaw, names, h2]
          · have hmem : o ∈ groupFields prev := by simp [groupFields, List.mem_filter, ho, h1, h2]
            obtain ⟨j, _, hj⟩ := group_out_mem (groupFields prev) prev.next o hmem
            have : o.name ∈ names (groupByRaw prev keys).outputs := by
              refine List.mem_map.2 ⟨⟨prev.next + 3 + j, o.name⟩, ?_, rfl⟩
              simp only [groupByRaw, List.mem_cons, List.mem_append]
              exact Or.inl (Or.inr hj)
            exact this
  · cases h

end CM
