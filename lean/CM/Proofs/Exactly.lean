/-
  CM.Proofs.Exactly — the converse of `only needed` for cache-free graphs: when a call returns, every user function
  that the cache-free evaluation of the output demands has been executed (it is in the log).  Together with
  `call_once` and `call_only_needed`: exactly the needed functions, exactly once.
-/
import CM.Proofs.Needed
import CM.Proofs.LogMono
import CM.Proofs.Correct
namespace CM

def Executed (m : Mem) (n : Nat) : Prop := ∃ r ∈ m.world.log, r.node = n

/-- the program issues a user call along the cache-free path -/
def progHasCall (c : Ctx) : Prog → Bool
  | .ret _ => false
  | .raise _ => false
  | .req r k => decide (0 < r.ncalls) || (match interpReq c r with | .ok x => progHasCall c (k x) | .error _ => false)
  | .eff (.get _ _) k => progHasCall c (k none)
  | .eff (.set _ _ _) k => progHasCall c (k none)

def CallsOf (g : Graph) (d : DenCfg) (hp : Bool) (n : Nat) : Prop :=
  ∃ e, (g.node n).edge = some e ∧ progHasCall (ctxOf g d n) (genProg g n e hp) = true

/-- every call that evaluating generator `(hp, n)` demands has been executed -/
def Done (g : Graph) (d : DenCfg) (m : Mem) (hp : Bool) (n : Nat) : Prop :=
  ∀ hp' n', Need g d (hp, n) hp' n' → CallsOf g d hp' n' → Executed m n'

theorem Executed.mono {m m' : Mem} {n : Nat} (h : ∃ pre, m'.world.log = pre ++ m.world.log) (he : Executed m n) : Executed m' n := by
  obtain ⟨pre, hp⟩ := h
  obtain ⟨r, hr, hn⟩ := he
  exact ⟨r, by rw [hp]; exact List.mem_append_right _ hr, hn⟩

theorem Done.mono {g : Graph} {d : DenCfg} {m m' : Mem} {hp : Bool} {n : Nat} (h : ∃ pre, m'.world.log = pre ++ m.world.log)
    (hd : Done g d m hp n) : Done g d m' hp n := fun hp' n' hn hc => (hd hp' n' hn hc).mono h

/-- the first step of a demand chain -/
theorem need_unfold (g : Graph) (d : DenCfg) (root : Bool × Nat) (hp' : Bool) (n' : Nat) (h : Need g d root hp' n') :
    (hp', n') = root ∨ ∃ e q hp1 n1, (g.node root.2).edge = some e ∧
      q ∈ progDeps (ctxOf g d root.2) (genProg g root.2 e root.1) ∧ depTarget g root.2 q = some (hp1, n1) ∧ Need g d (hp1, n1) hp' n' := by
  induction h with
  | root => exact .inl rfl
  | step hp n e q hp2 n2 _ he hq ht ih =>
    right
    rcases ih with heq | ⟨e0, q0, hp1, n1, he0, hq0, ht0, hn0⟩
    · cases heq
      exact ⟨e, q, hp2, n2, he, hq, ht, .root⟩
    · exact ⟨e0, q0, hp1, n1, he0, hq0, ht0, .step hp n e q hp2 n2 hn0 he hq ht⟩

theorem done_of_deps (g : Graph) (d : DenCfg) (m : Mem) (hp : Bool) (n : Nat)
    (hown : CallsOf g d hp n → Executed m n)
    (hdeps : ∀ e q hp1 n1, (g.node n).edge = some e → q ∈ progDeps (ctxOf g d n) (genProg g n e hp) →
      depTarget g n q = some (hp1, n1) → Done g d m hp1 n1) : Done g d m hp n := by
  intro hp' n' hneed hc
  rcases need_unfold g d (hp, n) hp' n' hneed with heq | ⟨e, q, hp1, n1, he, hq, ht, hn⟩
  · cases heq; exact hown hc
  · exact hdeps e q hp1 n1 he hq ht hp' n' hn hc

/-- whatever is memoised has been fully evaluated -/
structure MemoDone (g : Graph) (d : DenCfg) (m : Mem) : Prop where
  h : ∀ k x, m.hashes.memo k = some x → Done g d m true k
  v : ∀ k x, m.cache.memo k = some x → Done g d m false k

def DepsDone (g : Graph) (d : DenCfg) (m : Mem) (n : Nat) (qs : List Dep) : Prop :=
  ∀ q ∈ qs, ∀ hp1 n1, depTarget g n q = some (hp1, n1) → Done g d m hp1 n1

def PostX (g : Graph) (d : DenCfg) (m' : Mem) : Task → Prop
  | .hash n => Done g d m' true n
  | .value n => Done g d m' false n
  | .prog n p => DepsDone g d m' n (progDeps (ctxOf g d n) p) ∧ (progHasCall (ctxOf g d n) p = true → Executed m' n)
  | .req n r => DepsDone g d m' n (reqDeps r) ∧ (0 < r.ncalls → Executed m' n)
  | .reqs n rs _ => DepsDone g d m' n (reqsDeps rs) ∧ (0 < Req.ncallsList rs → Executed m' n)

theorem MemoDone.world {g : Graph} {d : DenCfg} {m m' : Mem} (hh : m'.hashes = m.hashes) (hc : m'.cache = m.cache)
    (hl : ∃ pre, m'.world.log = pre ++ m.world.log) (h : MemoDone g d m) : MemoDone g d m' :=
  ⟨fun k x hk => (h.h k x (by rw [← hh]; exact hk)).mono hl, fun k x hk => (h.v k x (by rw [← hc]; exact hk)).mono hl⟩

theorem DepsDone.mono {g : Graph} {d : DenCfg} {m m' : Mem} {n : Nat} {qs : List Dep} (hl : ∃ pre, m'.world.log = pre ++ m.world.log)
    (h : DepsDone g d m n qs) : DepsDone g d m' n qs := fun q hq hp1 n1 ht => (h q hq hp1 n1 ht).mono hl

theorem big_exact (g : Graph) (d : DenCfg) (ok : GraphOK g) : ∀ (f : Nat) (t : Task) (m : Mem) (x : Item) (m' : Mem),
    MemSound g d m → TaskOK t → MemoDone g d m → big g f t m = .ok x m' → MemoDone g d m' ∧ PostX g d m' t := by
  intro f
  induction f with
  | zero => intro t m x m' _ _ _ h; simp [big] at h
  | succ f ih =>
    intro t m x m' hs htask hmd hb
    cases t with
    | hash n =>
      rw [big_hash] at hb
      cases hx : m.hashes.memo n with
      | some x0 =>
        simp only [hx] at hb; injection hb with h1 h2; subst h1; subst h2
        exact ⟨hmd, hmd.h n _ hx⟩
      | none =>
        simp only [hx] at hb
        cases he : (g.node n).edge with
        | none => simp [he] at hb
        | some e =>
          simp only [he] at hb
          have hwf := ok.wf n _ e (node_of_edge g n e he) he
          cases hq : big g f (.prog n (e.hashProg (g.parents n).length)) m with
          | fuel => simp [hq] at hb
          | raised _ _ => simp [hq] at hb
          | ok x1 m1 =>
            simp only [hq] at hb
            obtain ⟨hmd1, hdeps, hown⟩ := ih (.prog n (e.hashProg (g.parents n).length)) m x1 m1 hs (hashProg_noEff e _ hwf) hmd hq
            have hdone : Done g d m1 true n := by
              refine done_of_deps g d m1 true n ?_ ?_
              · rintro ⟨e', he', hc⟩
                rw [he] at he'; injection he' with he'; subst he'
                exact hown (by simpa [genProg] using hc)
              · intro e' q hp1 n1 he' hq' ht
                rw [he] at he'; injection he' with he'; subst he'
                exact hdeps q (by simpa [genProg] using hq') hp1 n1 ht
            cases hy : m1.hashes.memo n with
            | some _ => simp [hy] at hb
            | none =>
              simp only [hy] at hb
              cases hset : m1.hashes.set n x1 with
              | none => simp [hset] at hb
              | some h' =>
                simp only [hset] at hb
                injection hb with h1 h2; subst h1; subst h2
                have hsame : ∀ hp k, Done g d m1 hp k → Done g d { m1 with hashes := h' } hp k := fun hp k hd => hd
                refine ⟨⟨?_, fun k v hk => hsame _ _ (hmd1.v k v hk)⟩, hsame _ _ hdone⟩
                intro k y hk
                unfold Scratch.set at hset
                split at hset
                · cases hset
                · injection hset with hset; subst hset
                  simp only [upd] at hk
                  split at hk
                  · next hkn => subst hkn; exact hsame _ _ hdone
                  · exact hsame _ _ (hmd1.h k y hk)
    | value n =>
      rw [big_value] at hb
      cases hx : m.cache.memo n with
      | some v0 =>
        simp only [hx] at hb; injection hb with h1 h2; subst h1; subst h2
        exact ⟨hmd, hmd.v n _ hx⟩
      | none =>
        simp only [hx] at hb
        cases he : (g.node n).edge with
        | none => simp [he] at hb
        | some e =>
          simp only [he] at hb
          have hwf := ok.wf n _ e (node_of_edge g n e he) he
          cases hq : big g f (.prog n (e.evalProg (g.parents n).length)) m with
          | fuel => simp [hq] at hb
          | raised _ _ => simp [hq] at hb
          | ok x1 m1 =>
            simp only [hq] at hb
            obtain ⟨hmd1, hdeps, hown⟩ := ih (.prog n (e.evalProg (g.parents n).length)) m x1 m1 hs (evalProg_noEff e _ hwf) hmd hq
            have hdone : Done g d m1 false n := by
              refine done_of_deps g d m1 false n ?_ ?_
              · rintro ⟨e', he', hc⟩
                rw [he] at he'; injection he' with he'; subst he'
                exact hown (by simpa [genProg] using hc)
              · intro e' q hp1 n1 he' hq' ht
                rw [he] at he'; injection he' with he'; subst he'
                exact hdeps q (by simpa [genProg] using hq') hp1 n1 ht
            cases x1 with
            | val v =>
              simp only at hb
              cases hy : m1.cache.memo n with
              | some _ => simp [hy] at hb
              | none =>
                simp only [hy] at hb
                cases hset : m1.cache.set n v with
                | none => simp [hset] at hb
                | some c' =>
                  simp only [hset] at hb
                  injection hb with h1 h2; subst h1; subst h2
                  have hsame : ∀ hp k, Done g d m1 hp k → Done g d { m1 with cache := c' } hp k := fun hp k hd => hd
                  refine ⟨⟨fun k y hk => hsame _ _ (hmd1.h k y hk), ?_⟩, hsame _ _ hdone⟩
                  intro k y hk
                  unfold Scratch.set at hset
                  split at hset
                  · cases hset
                  · injection hset with hset; subst hset
                    simp only [upd] at hk
                    split at hk
                    · next hkn => subst hkn; exact hsame _ _ hdone
                    · exact hsame _ _ (hmd1.v k y hk)
            | hash _ | hout _ _ | node _ | tup _ => simp at hb
    | prog n p =>
      rw [big_prog] at hb
      have hne : p.NoEff := htask
      rw [runEffs_noEff p m.world hne] at hb
      cases hne with
      | ret x0 =>
        simp only at hb
        cases hev : evictAll (g.parents n) m.hashes m.cache with
        | none => simp [hev] at hb
        | some hc =>
          obtain ⟨h', c'⟩ := hc
          simp only [hev] at hb
          injection hb with h1 h2; subst h1; subst h2
          obtain ⟨i1, i2⟩ := evictAll_memo _ _ _ _ _ hev
          refine ⟨⟨fun k y hk => hmd.h k y (i1 k y hk), fun k y hk => hmd.v k y (i2 k y hk)⟩, ?_, ?_⟩
          · intro q hq; simp [progDeps] at hq
          · intro hc; simp [progHasCall] at hc
      | raise e0 => simp at hb
      | req r k hk =>
        simp only at hb
        cases hq : big g f (.req n r) { m with world := m.world } with
        | fuel => simp [hq] at hb
        | raised _ _ => simp [hq] at hb
        | ok y m1 =>
          simp only [hq] at hb
          obtain ⟨hmd1, hd1, hc1⟩ := ih (.req n r) _ y m1 hs trivial hmd hq
          obtain ⟨hs1, hr⟩ := big_sound g d ok f (.req n r) _ y m1 hs trivial hq
          simp only [Post] at hr
          obtain ⟨hmd2, hd2, hc2⟩ := ih (.prog n (k y)) m1 x m' hs1 (hk y) hmd1 hb
          have hl := big_log g f (.prog n (k y)) m1
          rw [hb] at hl
          refine ⟨hmd2, ?_, ?_⟩
          · intro q hq' hp1 n1 ht
            simp only [progDeps, hr, List.mem_append] at hq'
            rcases hq' with h1 | h2
            · exact (hd1 q h1 hp1 n1 ht).mono hl
            · exact hd2 q h2 hp1 n1 ht
          · intro hc
            simp only [progHasCall, hr, Bool.or_eq_true, decide_eq_true_eq] at hc
            rcases hc with h1 | h2
            · exact (hc1 h1).mono hl
            · exact hc2 h2
    | req n r =>
      rw [big_req] at hb
      cases r with
      | parentHash i =>
        simp only at hb
        cases hpi : (g.parents n)[i]? with
        | none => simp [hpi] at hb
        | some p =>
          simp only [hpi] at hb
          cases hq : big g f (.hash p) m with
          | fuel => simp [hq] at hb
          | raised _ _ => simp [hq] at hb
          | ok y m1 =>
            simp only [hq] at hb
            obtain ⟨hmd1, hd1⟩ := ih (.hash p) m y m1 hs trivial hmd hq
            cases y with
            | hout h pl =>
              simp only at hb
              injection hb with h1 h2; subst h1; subst h2
              refine ⟨hmd1, ?_, by simp [Req.ncalls]⟩
              intro q hq' hp1 n1 ht
              simp only [reqDeps, List.mem_singleton] at hq'
              subst hq'
              simp only [depTarget, hpi, Option.map_some, Option.some.injEq, Prod.mk.injEq] at ht
              obtain ⟨h1, h2⟩ := ht
              subst h1; subst h2
              exact hd1
            | val _ | hash _ | node _ | tup _ => simp at hb
      | parentValue i =>
        simp only at hb
        cases hpi : (g.parents n)[i]? with
        | none => simp [hpi] at hb
        | some p =>
          simp only [hpi] at hb
          obtain ⟨hmd1, hd1⟩ := ih (.value p) m x m' hs trivial hmd hb
          refine ⟨hmd1, ?_, by simp [Req.ncalls]⟩
          intro q hq' hp1 n1 ht
          simp only [reqDeps, List.mem_singleton] at hq'
          subst hq'
          simp only [depTarget, hpi, Option.map_some, Option.some.injEq, Prod.mk.injEq] at ht
          obtain ⟨h1, h2⟩ := ht
          subst h1; subst h2
          exact hd1
      | currentHash =>
        simp only at hb
        cases hq : big g f (.hash n) m with
        | fuel => simp [hq] at hb
        | raised _ _ => simp [hq] at hb
        | ok y m1 =>
          simp only [hq] at hb
          obtain ⟨hmd1, hd1⟩ := ih (.hash n) m y m1 hs trivial hmd hq
          cases y with
          | hout h pl =>
            simp only at hb
            injection hb with h1 h2; subst h1; subst h2
            refine ⟨hmd1, ?_, by simp [Req.ncalls]⟩
            intro q hq' hp1 n1 ht
            simp only [reqDeps, List.mem_singleton] at hq'
            subst hq'
            simp only [depTarget, Option.some.injEq, Prod.mk.injEq] at ht
            obtain ⟨h1, h2⟩ := ht
            subst h1; subst h2
            exact hd1
          | val _ | hash _ | node _ | tup _ => simp at hb
      | payload =>
        simp only at hb
        cases hq : big g f (.hash n) m with
        | fuel => simp [hq] at hb
        | raised _ _ => simp [hq] at hb
        | ok y m1 =>
          simp only [hq] at hb
          obtain ⟨hmd1, hd1⟩ := ih (.hash n) m y m1 hs trivial hmd hq
          cases y with
          | hout h pl =>
            simp only at hb
            injection hb with h1 h2; subst h1; subst h2
            refine ⟨hmd1, ?_, by simp [Req.ncalls]⟩
            intro q hq' hp1 n1 ht
            simp only [reqDeps, List.mem_singleton] at hq'
            subst hq'
            simp only [depTarget, Option.some.injEq, Prod.mk.injEq] at ht
            obtain ⟨h1, h2⟩ := ht
            subst h1; subst h2
            exact hd1
          | val _ | hash _ | node _ | tup _ => simp at hb
      | await rs =>
        simp only at hb
        obtain ⟨hmd1, hd1, hc1⟩ := ih (.reqs n rs.reverse []) m x m' hs trivial hmd hb
        refine ⟨hmd1, ?_, ?_⟩
        · intro q hq' hp1 n1 ht
          simp only [reqDeps] at hq'
          exact hd1 q ((mem_reqsDeps_reverse rs q).mpr hq') hp1 n1 ht
        · intro hc
          simp only [Req.ncalls] at hc
          exact hc1 (by rw [ncallsList_reverse]; exact hc)
      | call fn pos kwn kwv =>
        simp only at hb
        have hlg := call_log m.world n fn pos kwn kwv
        cases hc : m.world.call n fn pos kwn kwv with
        | mk rv w =>
          rw [hc] at hlg
          simp only at hlg
          simp only [hc] at hb
          cases rv with
          | error _ => simp at hb
          | ok v =>
            simp only at hb
            injection hb with h1 h2; subst h1; subst h2
            have hl : ∃ pre, ({ m with world := w } : Mem).world.log = pre ++ m.world.log := ⟨[⟨n, fn, pos, kwn, kwv⟩], by simp [hlg]⟩
            refine ⟨MemoDone.world (m := m) rfl rfl hl hmd, ?_, ?_⟩
            · intro q hq'; simp [reqDeps] at hq'
            · intro _; exact ⟨⟨n, fn, pos, kwn, kwv⟩, by simp [hlg], rfl⟩
    | reqs n rsRev acc =>
      rw [big_reqs] at hb
      cases rsRev with
      | nil =>
        simp only at hb
        injection hb with h1 h2; subst h1; subst h2
        exact ⟨hmd, by intro q hq; simp [reqsDeps] at hq, by simp [Req.ncallsList]⟩
      | cons r rest =>
        simp only at hb
        cases hq : big g f (.req n r) m with
        | fuel => simp [hq] at hb
        | raised _ _ => simp [hq] at hb
        | ok y m1 =>
          simp only [hq] at hb
          obtain ⟨hmd1, hd1, hc1⟩ := ih (.req n r) m y m1 hs trivial hmd hq
          obtain ⟨hs1, _⟩ := big_sound g d ok f (.req n r) m y m1 hs trivial hq
          obtain ⟨hmd2, hd2, hc2⟩ := ih (.reqs n rest (y :: acc)) m1 x m' hs1 trivial hmd1 hb
          have hl := big_log g f (.reqs n rest (y :: acc)) m1
          rw [hb] at hl
          refine ⟨hmd2, ?_, ?_⟩
          · intro q hq' hp1 n1 ht
            simp only [reqsDeps, List.mem_append] at hq'
            rcases hq' with h1 | h2
            · exact (hd1 q h1 hp1 n1 ht).mono hl
            · exact hd2 q h2 hp1 n1 ht
          · intro hc
            simp only [Req.ncallsList] at hc
            by_cases h1 : 0 < r.ncalls
            · exact (hc1 h1).mono hl
            · exact hc2 (by omega)


theorem init_memoDone (g : Graph) (d : DenCfg) (ok : GraphOK g) (env : String → Option Val) (w : World) (hc : CallOK g env) :
    MemoDone g d (g.initMem env w) := by
  have hleaf : ∀ k, g.usedInputs.contains k = true → ∀ hp, Done g d (g.initMem env w) hp k := by
    intro k hu hp hp' n' hneed hcalls
    have hn : g.nodes[k]? = some (g.node k) := by
      simp [Graph.node, List.getD_eq_getElem?_getD, List.getElem?_eq_getElem (hc.inRange k hu)]
    have hedge := ok.inputsLeaves k _ hn hu
    rcases need_unfold g d (hp, k) hp' n' hneed with heq | ⟨e, _, _, _, he, _⟩
    · cases heq
      obtain ⟨e, he, _⟩ := hcalls
      rw [hedge] at he; cases he
    · simp only at he
      rw [hedge] at he; cases he
  constructor
  · intro k x hk
    simp only [Graph.initMem, Graph.initScratch] at hk
    split at hk
    · next hu => exact hleaf k hu true
    · cases hk
  · intro k x hk
    simp only [Graph.initMem, Graph.initScratch] at hk
    split at hk
    · next hu => exact hleaf k hu false
    · cases hk

/-- **Everything needed runs** (cache-free graphs): when the call returns, every user function the cache-free
evaluation of the output demands is in the log. -/
theorem call_exactly (g : Graph) (ok : GraphOK g) (env : String → Option Val) (w : World) (hc : CallOK g env)
    (fuel steps : Nat) (x : Item) (s : St) (hrun : g.call env w fuel = some (.done x s, steps)) :
    ∀ hp n, Need g (denCfgOf env w) (false, g.output) hp n → CallsOf g (denCfgOf env w) hp n → Executed s.mem n := by
  have hs := init_memSound g env w hc
  have hmd := init_memoDone g (denCfgOf env w) ok env w hc
  obtain ⟨f, hf⟩ := (node_halts g ok g.output).2 (g.initMem env w)
  have hsim := sim g f (.value g.output) (g.initMem env w)
  cases hq : big g f (.value g.output) (g.initMem env w) with
  | fuel => simp [hq, BRes.isFuel] at hf
  | ok y m' =>
    have hreach := hsim.1 y m' hq [] [.ret] _ rfl
    obtain ⟨N, steps', hN⟩ := run_of_reaches g hreach (.done y ⟨[], [], m'⟩) rfl (by simp [step]) 0
    have := call_unique g env w fuel N _ _ hrun (fun fuel hfuel => by simp only [Graph.call, initSt_eq]; exact hN fuel hfuel)
    injection this with h1 _
    injection h1 with _ h2
    subst h2
    exact (big_exact g (denCfgOf env w) ok f (.value g.output) _ y m' hs trivial hmd hq).2
  | raised e m' =>
    obtain ⟨s', s'', hreach, hstep, _⟩ := hsim.2 e m' hq [] [.ret] _ rfl
    obtain ⟨N, steps', hN⟩ := run_of_reaches g hreach (.raised e s'') rfl hstep 0
    have := call_unique g env w fuel N _ _ hrun (fun fuel hfuel => by simp only [Graph.call, initSt_eq]; exact hN fuel hfuel)
    injection this with h1 _
    cases h1

end CM
