/-
  CM.Proofs.CheckIds — `CheckIds` at the node level: every field computes its old term with the key replaced by the guarded key;
  the guarded key has the hash of the key and, for a key among the ids, its value; for a foreign key it raises `KeyError`.
-/
import CM.Model.CheckIds
import CM.Proofs.FactoryChain
import CM.Proofs.BagLinkLemmas
namespace CM

mutual
  def BTerm.subst : BTerm → String → BTerm → BTerm
    | .inp y, x, s => if y == x then s else .inp y
    | .missing y, _, _ => .missing y
    | .node e args, x, s => .node e (BTerm.substL args x s)
  def BTerm.substL : List BTerm → String → BTerm → List BTerm
    | [], _, _ => []
    | t :: ts, x, s => t.subst x s :: BTerm.substL ts x s
end

mutual
  def BTerm.closed : BTerm → Prop
    | .inp _ => False
    | .missing _ => True
    | .node _ args => BTerm.closedL args
  def BTerm.closedL : List BTerm → Prop
    | [] => True
    | t :: ts => t.closed ∧ BTerm.closedL ts
end

theorem substL_length (x : String) (s : BTerm) : ∀ ts : List BTerm, (BTerm.substL ts x s).length = ts.length
  | [] => rfl
  | _ :: ts => by simp [BTerm.substL, substL_length x s ts]

theorem substL_getElem? (x : String) (s : BTerm) : ∀ (ts : List BTerm) (j : Nat),
    (BTerm.substL ts x s)[j]? = ts[j]?.map (·.subst x s)
  | [], j => by simp [BTerm.substL]
  | t :: ts, 0 => by simp [BTerm.substL]
  | t :: ts, j + 1 => by simp [BTerm.substL, substL_getElem? x s ts j]

theorem closedL_mem : ∀ {ts : List BTerm}, BTerm.closedL ts → ∀ t ∈ ts, t.closed
  | [], _, t, ht => by cases ht
  | y :: ys, h, t, ht => by
    simp only [BTerm.closedL] at h
    rcases List.mem_cons.1 ht with rfl | ht
    · exact h.1
    · exact closedL_mem h.2 t ht

section
variable {prev b : Bag} {i idsOut : BNode}

/-- the structure of a successful `checkIdsBag` -/
theorem checkIdsBag_ok (h : checkIdsBag prev = .ok b) :
    ∃ i idsOut, prev.inputs = [i] ∧ byName prev.outputs "ids" = some idsOut ∧
      b.inputs = [⟨prev.next, i.name⟩] ∧ (∀ e ∈ prev.edges, e ∈ b.edges) ∧
      ({ edge := .checkIds, ins := [⟨prev.next, i.name⟩, idsOut], out := i } : BEdge) ∈ b.edges ∧
      (∀ e ∈ b.edges, e ∈ prev.edges ∨ e = { edge := .checkIds, ins := [⟨prev.next, i.name⟩, idsOut], out := i } ∨
        prev.next < e.out.id) ∧
      (∀ o ∈ prev.outputs, o ∈ b.outputs) := by
  unfold checkIdsBag at h
  split at h
  · rename_i i idsOut hi hids
    refine ⟨i, idsOut, hi, hids, ?_⟩
    obtain ⟨hin, hed⟩ := mkBag_inputs_edges h
    obtain ⟨hcore, _⟩ := mkBag_ok h
    refine ⟨hin, fun e he => hed e (by simp [he]), hed _ (by simp), ?_, fun o ho => mkBag_outputs h o ho⟩
    intro e he
    rw [hcore] at he
    simp only [RawBag.core, addIdentities_eq, List.mem_append, List.mem_singleton] at he
    rcases he with (he | he) | he
    · exact Or.inl he
    · exact Or.inr (Or.inl he)
    · refine Or.inr (Or.inr ?_)
      obtain ⟨_, m, _, c, hc, _, hio⟩ := (cloneEdges_spec false _ _).2.2.2.2.1 e he
      simp only [Bool.false_eq_true, if_false] at hio
      have hcr := (cloneEdges_spec false _ _).2.2.2.1 c hc
      rw [hio.2]
      have h1 := hcr.1
      omega
  · cases h

theorem subst_closed (x : String) (s : BTerm) : ∀ t : BTerm, t.closed → t.subst x s = t
  | .inp _, h => by simp [BTerm.closed] at h
  | .missing _, _ => rfl
  | .node e args, h => by
    simp only [BTerm.subst, BTerm.node.injEq, true_and]
    exact substL_closed x s args (by simpa [BTerm.closed] using h)
where
  substL_closed (x : String) (s : BTerm) : ∀ ts : List BTerm, BTerm.closedL ts → BTerm.substL ts x s = ts
    | [], _ => rfl
    | t :: ts, h => by
      simp only [BTerm.closedL] at h
      simp only [BTerm.substL, subst_closed x s t h.1, substL_closed x s ts h.2]

/-- the nodes of the old container keep their incoming edges, and are no inputs of the new one -/
theorem checkIds_region (hw : prev.WF) (h : checkIdsBag prev = .ok b) :
    ∃ i idsOut, prev.inputs = [i] ∧ byName prev.outputs "ids" = some idsOut ∧
      (∀ n : BNode, n.id < prev.next → n ∉ b.inputs) ∧ (∀ e ∈ prev.edges, e ∈ b.edges) ∧
      (∀ n : BNode, n.id < prev.next → n ≠ i → ∀ e ∈ b.edges, e.out = n → e ∈ prev.edges) ∧
      ({ edge := .checkIds, ins := [⟨prev.next, i.name⟩, idsOut], out := i } : BEdge) ∈ b.edges ∧
      b.inputs = [⟨prev.next, i.name⟩] ∧ i ∉ b.inputs := by
  obtain ⟨i, idsOut, hpi, hids, hbi, hsub, hnew, hall, _⟩ := checkIdsBag_ok h
  have hnin : ∀ n : BNode, n.id < prev.next → n ∉ b.inputs := by
    intro n hn hmem
    rw [hbi, List.mem_singleton] at hmem
    rw [hmem] at hn
    simp at hn
  refine ⟨i, idsOut, hpi, hids, hnin, hsub, ?_, hnew, hbi, ?_⟩
  · intro n hn hni e he ho
    rcases hall e he with h1 | rfl | h1
    · exact h1
    · exact absurd ho.symm hni
    · rw [ho] at h1; omega
  · exact hnin i (hw.ids i (nodes3_in (by rw [hpi]; exact List.mem_singleton.2 rfl)))

/-- a term without inputs is computed in the guarded container as before -/
theorem den_closed_checkIds (hw : prev.WF) (h : checkIdsBag prev = .ok b) {n : BNode} {t : BTerm} (hd : BDen prev n t) :
    n.id < prev.next → t.closed → BDen b n t := by
  obtain ⟨i, idsOut, hpi, _, hnin, hsub, hedge, _, _, _⟩ := checkIds_region hw h
  induction hd with
  | @input n hi => intro _ hc; simp [BTerm.closed] at hc
  | @missing n hni hno =>
    intro hn _
    refine .missing (hnin n hn) ?_
    intro e he ho
    have hne : n ≠ i := fun he' => hni (by rw [hpi, he']; exact List.mem_singleton.2 rfl)
    exact hno e (hedge n hn hne e he ho) ho
  | @ident n p t e hni he ho hk hi _ ih =>
    intro hn hc
    exact .ident e (hnin n hn) (hsub e he) ho hk hi (ih (hw.ids p (nodes3_ein he (by rw [hi]; exact List.mem_singleton.2 rfl))) hc)
  | @edge n ts e hni he ho hk hlen _ ih =>
    intro hn hc
    refine .edge e (hnin n hn) (hsub e he) ho hk hlen ?_
    intro p hp
    exact ih p hp (hw.ids p.1 (nodes3_ein he (List.of_mem_zip hp).1))
      (closedL_mem (by simpa [BTerm.closed] using hc) p.2 (List.of_mem_zip hp).2)

/-- **Every node of the old container computes, in the guarded one, its old term with the key replaced by the guarded key.** -/
theorem den_checkIds (hw : prev.WF) (h : checkIdsBag prev = .ok b) {i idsOut : BNode} (hpi : prev.inputs = [i])
    (hids : byName prev.outputs "ids" = some idsOut) (tids : BTerm) (hdi : BDen prev idsOut tids) (hcl : tids.closed)
    {n : BNode} {t : BTerm} (hd : BDen prev n t) :
    n.id < prev.next → BDen b n (t.subst i.name (.node .checkIds [.inp i.name, tids])) := by
  obtain ⟨i', idsOut', hpi', hids', hnin, hsub, hedge, hnew, hbi, hib⟩ := checkIds_region hw h
  have hi' : i' = i := by rw [hpi] at hpi'; injection hpi' with h1; exact h1.symm
  have ho' : idsOut' = idsOut := by rw [hids] at hids'; injection hids' with h1; exact h1.symm
  subst hi'; subst ho'
  have hidsOutIn : idsOut' ∈ prev.outputs := by
    unfold byName at hids; exact List.mem_of_find?_eq_some hids
  have hidsB : BDen b idsOut' tids :=
    den_closed_checkIds hw h hdi (hw.ids _ (nodes3_out hidsOutIn)) hcl
  -- the guarded key
  have hG : BDen b i' (.node .checkIds [.inp i'.name, tids]) := by
    refine .edge _ hib hnew rfl (by simp) (by simp) ?_
    intro q hq
    simp only [List.zip_cons_cons, List.zip_nil_right, List.mem_cons, List.not_mem_nil, or_false] at hq
    rcases hq with rfl | rfl
    · exact .input (by rw [hbi]; exact List.mem_singleton.2 rfl)
    · exact hidsB
  induction hd with
  | @input n hi =>
    intro _
    rw [hpi, List.mem_singleton] at hi
    subst hi
    simp only [BTerm.subst, beq_self_eq_true, if_true]
    exact hG
  | @missing n hni hno =>
    intro hn
    refine .missing (hnin n hn) ?_
    intro e he ho
    have hne : n ≠ i' := fun he' => hni (by rw [hpi, he']; exact List.mem_singleton.2 rfl)
    exact hno e (hedge n hn hne e he ho) ho
  | @ident n p t e hni he ho hk hi _ ih =>
    intro hn
    exact .ident e (hnin n hn) (hsub e he) ho hk hi (ih (hw.ids p (nodes3_ein he (by rw [hi]; exact List.mem_singleton.2 rfl))))
  | @edge n ts e hni he ho hk hlen _ ih =>
    intro hn
    simp only [BTerm.subst]
    refine .edge e (hnin n hn) (hsub e he) ho hk (by rw [substL_length]; exact hlen) ?_
    intro q hq
    obtain ⟨j, hj, hqj⟩ := List.mem_iff_getElem.1 hq
    simp only [List.length_zip, substL_length] at hj
    have hj1 : j < e.ins.length := by omega
    have hj2 : j < ts.length := by omega
    have hsj : (BTerm.substL ts i'.name (.node .checkIds [.inp i'.name, tids]))[j]? = some ((ts[j]).subst i'.name (.node .checkIds [.inp i'.name, tids])) := by
      rw [substL_getElem?]; simp [hj2]
    have hq' : q = (e.ins[j], (ts[j]).subst i'.name (.node .checkIds [.inp i'.name, tids])) := by
      rw [← hqj]
      simp only [List.getElem_zip]
      congr 1
      have := List.getElem?_eq_getElem (l := BTerm.substL ts i'.name (.node .checkIds [.inp i'.name, tids])) (i := j)
        (by rw [substL_length]; exact hj2)
      rw [hsj] at this
      injection this with this
      exact this.symm
    subst hq'
    have hz : (e.ins[j], ts[j]) ∈ e.ins.zip ts := by
      rw [List.mem_iff_getElem]; exact ⟨j, by rw [List.length_zip]; omega, by simp⟩
    exact ih _ hz (hw.ids _ (nodes3_ein he (List.getElem_mem _)))

end
end CM

namespace CM

def phOf (ds : List Den) (j : Nat) : Except Err NHash :=
  match ds[j]? with
  | some x => x.h.map (·.1)
  | none => .error .internal
def pvOf (ds : List Den) (j : Nat) : Except Err Val :=
  match ds[j]? with
  | some x => x.v
  | none => .error .internal

/-- the denotation of a node from the handlers of its parents -/
def denOfCtx (d : DenCfg) (e : EdgeK) (n : Nat) (ph : Nat → Except Err NHash) (pv : Nat → Except Err Val) : Den :=
  let c0 : Ctx := { ph := ph, pv := pv, cur := .error .internal, call := d.call 0 }
  let h : Except Err (NHash × Val) := (interp c0 (e.hashProg n)).bind Item.asHout
  { h := h, v := (interp { c0 with cur := h } (e.evalProg n)).bind Item.asVal }

theorem den_node_eq (d : DenCfg) (e : EdgeK) (args : List BTerm) :
    (BTerm.node e args).den d = denOfCtx d e args.length (phOf (BTerm.denList d args)) (pvOf (BTerm.denList d args)) := by
  simp only [BTerm.den, denOfCtx]
  rfl

/-- the denotation of a node depends on the hashes and values of its arguments only -/
theorem den_node_congr (d : DenCfg) (e : EdgeK) (as bs : List BTerm) (hl : as.length = bs.length)
    (hph : phOf (BTerm.denList d as) = phOf (BTerm.denList d bs)) (hpv : pvOf (BTerm.denList d as) = pvOf (BTerm.denList d bs)) :
    (BTerm.node e as).den d = (BTerm.node e bs).den d := by
  rw [den_node_eq, den_node_eq, hl, hph, hpv]

end CM

namespace CM

def hOfTerms (d : DenCfg) (ts : List BTerm) (j : Nat) : Except Err NHash :=
  match ts[j]? with
  | some t => (t.den d).h.map (·.1)
  | none => .error .internal
def vOfTerms (d : DenCfg) (ts : List BTerm) (j : Nat) : Except Err Val :=
  match ts[j]? with
  | some t => (t.den d).v
  | none => .error .internal

theorem phOf_denList (d : DenCfg) (ts : List BTerm) (j : Nat) : phOf (BTerm.denList d ts) j = hOfTerms d ts j := by
  simp only [phOf, hOfTerms, denList_getElem?]
  cases ts[j]? <;> rfl

theorem pvOf_denList (d : DenCfg) (ts : List BTerm) (j : Nat) : pvOf (BTerm.denList d ts) j = vOfTerms d ts j := by
  simp only [pvOf, vOfTerms, denList_getElem?]
  cases ts[j]? <;> rfl

/-- **Replacing an input by a term that has the hash and the value of that input changes no denotation.** -/
theorem den_subst (d : DenCfg) (x : String) (G : BTerm) (hG : DenEq (G.den d) ((BTerm.inp x).den d)) :
    ∀ t : BTerm, DenEq ((t.subst x G).den d) (t.den d)
  | .inp y => by
    simp only [BTerm.subst]
    split
    · rename_i hy
      have : y = x := by simpa using hy
      subst this; exact hG
    · exact ⟨rfl, rfl⟩
  | .missing _ => ⟨rfl, rfl⟩
  | .node e args => by
    simp only [BTerm.subst]
    have hcong := den_node_congr d e (BTerm.substL args x G) args (substL_length x G args)
      (funext fun j => by
        rw [phOf_denList, phOf_denList]
        exact (den_substL d x G hG args j).1)
      (funext fun j => by
        rw [pvOf_denList, pvOf_denList]
        exact (den_substL d x G hG args j).2)
    rw [hcong]
    exact ⟨rfl, rfl⟩
where
  den_substL (d : DenCfg) (x : String) (G : BTerm) (hG : DenEq (G.den d) ((BTerm.inp x).den d)) :
      ∀ (ts : List BTerm) (j : Nat),
        hOfTerms d (BTerm.substL ts x G) j = hOfTerms d ts j ∧ vOfTerms d (BTerm.substL ts x G) j = vOfTerms d ts j
    | [], j => by simp [BTerm.substL, hOfTerms, vOfTerms]
    | t :: ts, 0 => by
      simp only [BTerm.substL, hOfTerms, vOfTerms, List.getElem?_cons_zero]
      exact den_subst d x G hG t
    | t :: ts, j + 1 => by
      have := den_substL d x G hG ts j
      simpa only [BTerm.substL, hOfTerms, vOfTerms, List.getElem?_cons_succ] using this

/-- **The guarded key**: the node `CheckIdsEdge(key, ids)` has the node hash of the key; its value is the key if the key is among
the ids and `KeyError` otherwise. -/
theorem checkIds_guard_den (d : DenCfg) (x : String) (tids : BTerm) (v : Val) (ids : List Val) (hh : NHash × Val)
    (hx : d.env x = some v) (hih : (tids.den d).h = .ok hh) (hiv : (tids.den d).v = .ok (.tup ids)) :
    ((BTerm.node .checkIds [.inp x, tids]).den d).h.map (·.1) = .ok (.leaf v) ∧
    ((BTerm.node .checkIds [.inp x, tids]).den d).v = (if ids.any (·.pyEq v) then .ok v else .error .keyError) := by
  obtain ⟨h1, pl⟩ := hh
  constructor
  · simp [BTerm.den, BTerm.denList, EdgeK.hashProg, staticHash, interp, interpReq, interpReqs, hx, hih, List.range,
      List.range.loop, Except.map, Except.bind, asHashes, Item.asHout]
  · have hex : (∃ y, y ∈ ids ∧ y.pyEq v = true) ↔ ids.any (fun i => i.pyEq v) = true := by simp
    by_cases hany : ids.any (fun i => i.pyEq v) = true
    · have he := hex.2 hany
      simp [BTerm.den, BTerm.denList, EdgeK.hashProg, EdgeK.evalProg, staticHash, staticEval, interp, interpReq, interpReqs, hx,
        hih, hiv, List.range, List.range.loop, Except.map, Except.bind, asHashes, asVals, Item.asHout, hany, Item.asVal, he]
    · have he : ¬ ∃ y, y ∈ ids ∧ y.pyEq v = true := fun h => hany (hex.1 h)
      simp [BTerm.den, BTerm.denList, EdgeK.hashProg, EdgeK.evalProg, staticHash, staticEval, interp, interpReq, interpReqs, hx,
        hih, hiv, List.range, List.range.loop, Except.map, Except.bind, asHashes, asVals, Item.asHout, hany, Item.asVal, he]

end CM
