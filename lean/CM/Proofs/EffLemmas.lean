/-
  CM.Proofs.EffLemmas — what running the cache operations at the head of a generator (`runEffs`) preserves.
-/
import CM.Proofs.CallLemmas
import CM.Proofs.CacheSound
namespace CM

theorem runEffs_isEff : ∀ (p : Prog) (w : World), (runEffs p w).1.isEff = false
  | .ret _, _ => rfl
  | .raise _, _ => rfl
  | .req _ _, _ => rfl
  | .eff op k, w => by
    simp only [runEffs]
    exact runEffs_isEff (k (w.doOp op).1) (w.doOp op).2

theorem doOp_log (w : World) (op : StoreOp) : (w.doOp op).2.log = w.log := by
  cases op with
  | get s key => simp only [World.doOp]; cases w.stores[s]? <;> rfl
  | set s key v => simp only [World.doOp]; cases w.stores[s]? <;> rfl

theorem runEffs_log : ∀ (p : Prog) (w : World), (runEffs p w).2.log = w.log
  | .ret _, _ => rfl
  | .raise _, _ => rfl
  | .req _ _, _ => rfl
  | .eff op k, w => by
    simp only [runEffs]
    rw [runEffs_log (k (w.doOp op).1) (w.doOp op).2, doOp_log]

theorem runEffs_callsLe {b : Nat} {p : Prog} (h : p.CallsLe b) : ∀ w, (runEffs p w).1.CallsLe b := by
  induction h with
  | ret b x => intro w; exact .ret b x
  | raise b e => intro w; exact .raise b e
  | req b r k h1 h2 _ => intro w; exact .req b r k h1 h2
  | eff b op k _ ih => intro w; simp only [runEffs]; exact ih _ _

theorem runEffs_noCur {p : Prog} (h : p.NoCur) (w : World) : runEffs p w = (p, w) := by
  cases h <;> rfl

end CM
