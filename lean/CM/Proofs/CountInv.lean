/-
  CM.Proofs.CountInv — the eviction-counter invariant of one call.

  Ghost state: for every node, whether its hash generator (`dH`) and its value generator (`dV`) have run to
  completion (each completion evicts every parent occurrence once from both scratch tables).  The invariant says
  that both tables hold, for every node `p`,

      counts[p] = [p = output]·2 + Σ_{c live} occ(c, p) · (init c − dH c − dV c)

  (absent when that number is 0), and that a memoised result is still present while this number is not 0.
-/
import CM.Proofs.CountLemmas
import CM.Proofs.ProgLemmas
namespace CM

structure Ghost where
  dH : Nat → Bool
  dV : Nat → Bool

def b2n (b : Bool) : Nat := if b then 1 else 0

/-- how many evictions of each parent occurrence node `c` still owes, times the number of paths to `c` -/
def weight (g : Graph) (G : Ghost) (c : Nat) : Nat :=
  if g.live c then g.init c - b2n (G.dH c) - b2n (G.dV c) else 0

def remaining (g : Graph) (G : Ghost) (p : Nat) : Nat :=
  (if p = g.output then 2 else 0) + sumTo (g.output + 1) (fun c => occ g c p * weight g G c)

def toOpt : Nat → Option Nat
  | 0 => none
  | k + 1 => some (k + 1)

def Ghost.none : Ghost := ⟨fun _ => false, fun _ => false⟩

def Ghost.flag (G : Ghost) (hp : Bool) (n : Nat) : Bool := if hp then G.dH n else G.dV n

def Ghost.setFlag (G : Ghost) (hp : Bool) (n : Nat) : Ghost :=
  if hp then { G with dH := fun j => if j = n then true else G.dH j }
  else { G with dV := fun j => if j = n then true else G.dV j }

theorem remaining_init (g : Graph) (ht : g.Topo) (p : Nat) : remaining g Ghost.none p = g.init p := by
  rw [init_spec g ht p]
  unfold remaining
  congr 1
  apply sumTo_congr
  intro c _
  simp only [weight, Ghost.none, b2n]
  split <;> simp

theorem live_le_output (g : Graph) (ht : g.Topo) (n : Nat) (h : g.live n = true) : n ≤ g.output := by
  cases Nat.lt_or_ge g.output n with
  | inr h' => exact h'
  | inl h' =>
    have := init_zero_of_gt g ht n h'
    simp [Graph.live, pushes, this] at h

theorem live_init (g : Graph) (n : Nat) (h : g.live n = true) : 2 ≤ g.init n := by
  apply init_ge_two
  simp [Graph.live, pushes] at h
  exact h.2

/-- flags above `n` agree: the counters of `n` and of everything above it agree -/
theorem remaining_frame (g : Graph) (ht : g.Topo) (G G' : Ghost) (n : Nat)
    (h1 : ∀ j, n < j → G'.dH j = G.dH j) (h2 : ∀ j, n < j → G'.dV j = G.dV j) (p : Nat) (hp : n ≤ p) :
    remaining g G' p = remaining g G p := by
  unfold remaining
  congr 1
  apply sumTo_congr
  intro c _
  by_cases ho : occ g c p = 0
  · simp [ho]
  · have hlt := occ_pos_lt g ht c p ho
    simp only [weight, h1 c (by omega), h2 c (by omega)]

theorem weight_pos (g : Graph) (G : Ghost) (hp : Bool) (n : Nat) (hl : g.live n = true) (hf : G.flag hp n = false) :
    1 ≤ weight g G n := by
  have := live_init g n hl
  unfold weight; rw [if_pos hl]
  cases hH : G.dH n <;> cases hV : G.dV n <;> cases hp <;> simp [Ghost.flag, hH, hV, b2n] at hf ⊢ <;> omega

theorem remaining_ge (g : Graph) (ht : g.Topo) (G : Ghost) (n p : Nat) (hl : g.live n = true) :
    occ g n p * weight g G n ≤ remaining g G p := by
  unfold remaining
  have := sumTo_ge_term (f := fun c => occ g c p * weight g G c) (g.output + 1) n (by have := live_le_output g ht n hl; omega)
  omega

theorem weight_setFlag (g : Graph) (G : Ghost) (hp : Bool) (n : Nat) (hl : g.live n = true) (hf : G.flag hp n = false) :
    weight g (G.setFlag hp n) n + 1 = weight g G n := by
  have := live_init g n hl
  unfold weight; rw [if_pos hl, if_pos hl]
  cases hH : G.dH n <;> cases hV : G.dV n <;> cases hp <;> simp [Ghost.flag, Ghost.setFlag, hH, hV, b2n] at hf ⊢ <;> omega

theorem weight_setFlag_ne (g : Graph) (G : Ghost) (hp : Bool) (n c : Nat) (hc : c ≠ n) :
    weight g (G.setFlag hp n) c = weight g G c := by
  cases hp <;> simp [weight, Ghost.setFlag, hc]

/-- completing a generator of `n` lowers the counter of each parent by its number of occurrences -/
theorem remaining_setFlag (g : Graph) (ht : g.Topo) (G : Ghost) (hp : Bool) (n p : Nat) (hl : g.live n = true)
    (hf : G.flag hp n = false) : remaining g (G.setFlag hp n) p + occ g n p = remaining g G p := by
  unfold remaining
  have hle := live_le_output g ht n hl
  have hw := weight_setFlag g G hp n hl hf
  have hu := sumTo_update (f := fun c => occ g c p * weight g G c) (f' := fun c => occ g c p * weight g (G.setFlag hp n) c) n
    (fun c hc => by simp only [weight_setFlag_ne g G hp n c hc]) (g.output + 1) (by omega)
  rw [← hw, Nat.mul_succ] at hu
  omega

/-! ### `EvictionCache.evict` against a counter function -/

theorem toOpt_ne_none (k : Nat) (h : k ≠ 0) : toOpt k = some k := by
  cases k with
  | zero => exact absurd rfl h
  | succ k => rfl

theorem toOpt_eq_none (k : Nat) : toOpt k = none ↔ k = 0 := by
  cases k <;> simp [toOpt]

theorem evict_spec {α : Type} (s : Scratch α) (k r : Nat) (hc : s.counts k = toOpt (r + 1)) :
    ∃ s', s.evict k = some s' ∧ s'.counts = upd s.counts k (toOpt r) ∧ (r ≠ 0 → s'.memo = s.memo) ∧
      (∀ j, j ≠ k → s'.memo j = s.memo j) := by
  unfold Scratch.evict
  simp only [toOpt] at hc
  rw [hc]
  cases r with
  | zero => exact ⟨_, rfl, rfl, fun h => absurd rfl h, fun j hj => by simp [upd, hj]⟩
  | succ r => exact ⟨_, rfl, rfl, fun _ => rfl, fun _ _ => rfl⟩

theorem evictAll_spec : ∀ (ps : List Nat) (h : Scratch Item) (c : Scratch Val) (R : Nat → Nat),
    (∀ p, h.counts p = toOpt (R p)) → (∀ p, c.counts p = toOpt (R p)) → (∀ p, ps.count p ≤ R p) →
    ∃ h' c', evictAll ps h c = some (h', c') ∧
      (∀ p, h'.counts p = toOpt (R p - ps.count p)) ∧ (∀ p, c'.counts p = toOpt (R p - ps.count p)) ∧
      (∀ j, (ps.count j = 0 ∨ R j ≠ ps.count j) → h'.memo j = h.memo j) ∧
      (∀ j, (ps.count j = 0 ∨ R j ≠ ps.count j) → c'.memo j = c.memo j)
  | [], h, c, R, hh, hc, _ => ⟨h, c, rfl, by simpa using hh, by simpa using hc, fun _ _ => rfl, fun _ _ => rfl⟩
  | p :: ps, h, c, R, hh, hc, hle => by
    have hp1 : 1 ≤ R p := by have := hle p; simp at this; omega
    obtain ⟨r, hr⟩ : ∃ r, R p = r + 1 := ⟨R p - 1, by omega⟩
    obtain ⟨h1, e1, c1h, m1h, m1h'⟩ := evict_spec h p r (by rw [hh p, hr])
    obtain ⟨c1, e2, c1c, m1c, m1c'⟩ := evict_spec c p r (by rw [hc p, hr])
    let R1 : Nat → Nat := fun j => if j = p then r else R j
    have hh1 : ∀ j, h1.counts j = toOpt (R1 j) := by
      intro j; simp only [c1h, upd, R1]; split <;> simp [hh]
    have hc1 : ∀ j, c1.counts j = toOpt (R1 j) := by
      intro j; simp only [c1c, upd, R1]; split <;> simp [hc]
    have hle1 : ∀ j, ps.count j ≤ R1 j := by
      intro j
      have := hle j
      rw [List.count_cons] at this
      simp only [R1]
      split
      · next hj => subst hj; simp at this; omega
      · next hj => have : (p == j) = false := by simp; omega
                   simp [this] at *; omega
    obtain ⟨h', c', e3, ch', cc', mh', mc'⟩ := evictAll_spec ps h1 c1 R1 hh1 hc1 hle1
    refine ⟨h', c', by simp only [evictAll, e1, e2, e3], ?_, ?_, ?_, ?_⟩
    · intro j
      rw [ch' j, List.count_cons]
      simp only [R1]
      split
      · next hj => subst hj; simp; congr 1; omega
      · next hj => have : (p == j) = false := by simp; omega
                   simp [this]
    · intro j
      rw [cc' j, List.count_cons]
      simp only [R1]
      split
      · next hj => subst hj; simp; congr 1; omega
      · next hj => have : (p == j) = false := by simp; omega
                   simp [this]
    · intro j hj
      rw [List.count_cons] at hj
      by_cases hjp : j = p
      · subst hjp
        simp only [beq_self_eq_true, ↓reduceIte] at hj
        have hne : R j ≠ ps.count j + 1 := by cases hj with
          | inl h0 => omega
          | inr h0 => exact h0
        have hle' := hle j
        rw [List.count_cons] at hle'
        simp only [beq_self_eq_true, ↓reduceIte] at hle'
        rw [mh' j (Or.inr (by simp only [R1, ↓reduceIte]; omega)), m1h (by omega)]
      · have : (p == j) = false := by simp; omega
        simp only [this, Bool.false_eq_true, ↓reduceIte, Nat.add_zero] at hj
        rw [mh' j (by simp only [R1, hjp, ↓reduceIte]; exact hj), m1h' j hjp]
    · intro j hj
      rw [List.count_cons] at hj
      by_cases hjp : j = p
      · subst hjp
        simp only [beq_self_eq_true, ↓reduceIte] at hj
        have hne : R j ≠ ps.count j + 1 := by cases hj with
          | inl h0 => omega
          | inr h0 => exact h0
        have hle' := hle j
        rw [List.count_cons] at hle'
        simp only [beq_self_eq_true, ↓reduceIte] at hle'
        rw [mc' j (Or.inr (by simp only [R1, ↓reduceIte]; omega)), m1c (by omega)]
      · have : (p == j) = false := by simp; omega
        simp only [this, Bool.false_eq_true, ↓reduceIte, Nat.add_zero] at hj
        rw [mc' j (by simp only [R1, hjp, ↓reduceIte]; exact hj), m1c' j hjp]

end CM
