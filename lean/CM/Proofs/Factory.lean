/-
  CM.Proofs.Factory — what the container of a layer computes (`CM.Model.Factory`): every field is its function applied to
  the named inputs and to the layer's private parameters, constructor arguments being constants; and which nodes
  `detect_optionals` marks.
-/
import CM.Model.Factory
import CM.Proofs.BagDeps
namespace CM

/-! ### list helpers -/

theorem optMapM'_spec {α β : Type} (f : α → Option β) : ∀ (xs : List α) (ys : List β), optMapM' f xs = some ys →
    xs.length = ys.length ∧ ∀ p ∈ xs.zip ys, f p.1 = some p.2
  | [], ys, h => by
    simp only [optMapM', Option.some.injEq] at h
    subst h; simp
  | x :: xs, ys, h => by
    simp only [optMapM'] at h
    split at h
    · rename_i y ys' hy hys
      injection h with h; subst h
      obtain ⟨hl, hz⟩ := optMapM'_spec f xs ys' hys
      refine ⟨by simp [hl], ?_⟩
      intro p hp
      simp only [List.zip_cons_cons, List.mem_cons] at hp
      rcases hp with rfl | hp
      · exact hy
      · exact hz p hp
    · simp at h

theorem optMapM'_mem {α β : Type} (f : α → Option β) (xs : List α) (ys : List β) (h : optMapM' f xs = some ys)
    (x : α) (hx : x ∈ xs) : ∃ y ∈ ys, f x = some y := by
  obtain ⟨hl, hz⟩ := optMapM'_spec f xs ys h
  obtain ⟨i, hi, rfl⟩ := List.getElem_of_mem hx
  have hi' : i < ys.length := by omega
  refine ⟨ys[i], List.getElem_mem _, hz (xs[i], ys[i]) ?_⟩
  rw [List.mem_iff_getElem]
  exact ⟨i, by rw [List.length_zip]; omega, by simp⟩

theorem nodeAt_some {base : Nat} {names : List String} {x : String} {n : BNode} (h : nodeAt base names x = some n) :
    ∃ i, i < names.length ∧ names[i]? = some x ∧ n = { id := base + i, name := x } := by
  unfold nodeAt at h
  cases hi : names.idxOf? x with
  | none => simp [hi] at h
  | some i =>
    simp only [hi, Option.some.injEq] at h
    obtain ⟨hlt, heq, _⟩ := List.idxOf?_eq_some_iff.1 hi
    exact ⟨i, hlt, by simp [hlt, heq], h.symm⟩

theorem mem_nodesAt {base : Nat} {names : List String} {n : BNode} :
    n ∈ nodesAt base names ↔ ∃ i, names[i]? = some n.name ∧ n.id = base + i := by
  simp only [nodesAt, List.mem_map, List.mem_zipIdx_iff_getElem?, Prod.exists]
  constructor
  · rintro ⟨x, i, hx, rfl⟩
    exact ⟨i, by simpa using hx, rfl⟩
  · rintro ⟨i, hx, hid⟩
    refine ⟨n.name, i, by simpa using hx, ?_⟩
    cases n; simp_all

theorem nodeAt_mem {base : Nat} {names : List String} {x : String} {n : BNode} (h : nodeAt base names x = some n) :
    n ∈ nodesAt base names := by
  obtain ⟨i, _, hx, rfl⟩ := nodeAt_some h
  exact mem_nodesAt.2 ⟨i, hx, rfl⟩

/-- a node of another kind (identity at or above `k`) is none of the first `k` nodes -/
theorem not_mem_nodesAt_of_le {names : List String} {n : BNode} (h : names.length ≤ n.id) : n ∉ nodesAt 0 names := by
  intro hm
  obtain ⟨i, hx, hid⟩ := mem_nodesAt.1 hm
  have : i < names.length := (List.getElem?_eq_some_iff.1 hx).1
  omega

/-! ### the shape of the container -/

theorem mkBag_inputs_edges {r : RawBag} {b : Bag} (h : mkBag r = .ok b) :
    b.inputs = r.inputs ∧ ∀ e ∈ r.edges, e ∈ b.edges := by
  obtain ⟨rfl, _⟩ := mkBag_ok h
  refine ⟨rfl, fun e he => ?_⟩
  simp only [RawBag.core, List.mem_append]
  exact Or.inl he

theorem reversible_shape {inputs outputs : List BNode} {es : List BEdge} {backIn backOut : List BNode} {optNames : List String}
    {fwd back : NameSet} {persistent : List String} {next : Nat} {b : Bag}
    (h : reversible inputs outputs es backIn backOut optNames fwd back persistent next = .ok b) :
    b.inputs = inputs ∧ ∀ e ∈ es, e ∈ b.edges := by
  unfold reversible at h
  split at h
  · cases h
  · rename_i b1 h1
    obtain ⟨hi1, he1⟩ := mkBag_inputs_edges h1
    split at h
    · cases h
    · split at h
      · cases h
      · split at h
        · cases h
        · rename_i b2 h2
          injection h with h; subst h
          obtain ⟨hi2, he2⟩ := mkBag_inputs_edges h2
          exact ⟨hi2.trans hi1, fun e he => he2 e (he1 e he)⟩

theorem factory_shape {r : RawLayer} {b : Bag} (h : r.factory = .ok b) :
    ∃ es, r.factoryEdges r.layout = some es ∧ b.inputs = nodesAt 0 r.layout.inputs ∧ ∀ e ∈ es, e ∈ b.edges := by
  unfold RawLayer.factory at h
  split at h
  · cases h
  · split at h
    · cases h
    · split at h
      · cases h
      · split at h
        · cases h
        · rename_i es hes
          obtain ⟨hi, hedges⟩ := reversible_shape h
          exact ⟨es, hes, hi, hedges⟩

/-- the four groups of edges of a layer -/
theorem factoryEdges_parts {r : RawLayer} {l : FLayout} {es : List BEdge} (h : r.factoryEdges l = some es) :
    ∃ consts params fields invs, optMapM' (constEdges l) r.consts = some consts ∧
      optMapM' (r.paramEdge l) r.params = some params ∧ optMapM' (r.fieldEdge l) r.fields = some fields ∧
      optMapM' (RawLayer.invEdge l) r.inverses = some invs ∧
      es = r.keyEdges l ++ consts.flatten ++ params ++ fields ++ invs := by
  unfold RawLayer.factoryEdges at h
  split at h
  · rename_i consts params fields invs h1 h2 h3 h4
    injection h with h
    exact ⟨consts, params, fields, invs, h1, h2, h3, h4, h.symm⟩
  · cases h

/-! ### what a name denotes inside the layer -/

/-- the term a forward argument of the layer denotes: a public name is the input of that name (a Source's is the key), a
constructor argument is a constant, a private parameter is its function applied to its own arguments, an undefined private
name is unreachable -/
inductive ArgDen (r : RawLayer) : String → BTerm → Prop
  | pub {a} : isPrivate a = false → isOut a = false → ArgDen r a (.inp (r.fwdArg a))
  /-- an argument annotated `Output`: what the layer's own field of that name computes -/
  | out {a ts} (p : RawField) : isPrivate a = false → isOut a = true → p ∈ r.fields → p.name = outName a → p.args.length = ts.length →
      (∀ q ∈ p.args.zip ts, ArgDen r q.1 q.2) → ArgDen r a (.node (.function p.f [] []) ts)
  | const {a v} : isPrivate a = true → (a, v) ∈ r.consts → ArgDen r a (.node (.constant v) [])
  | param {a ts} (p : RawField) : isPrivate a = true → p ∈ r.params → p.name = a → p.args.length = ts.length →
      (∀ q ∈ p.args.zip ts, ArgDen r q.1 q.2) → ArgDen r a (.node (.function p.f [] []) ts)

/-- the node a forward argument is bound to -/
def RawLayer.argNode (r : RawLayer) (a : String) : Option BNode :=
  if isPrivate a then nodeAt r.layout.pBase r.layout.params a
  else if isOut a then nodeAt r.layout.oBase r.layout.outputs (outName a)
  else nodeAt 0 r.layout.inputs (r.fwdArg a)

theorem param_not_input {r : RawLayer} {b : Bag} (hb : b.inputs = nodesAt 0 r.layout.inputs) {a : String} {n : BNode}
    (h : nodeAt r.layout.pBase r.layout.params a = some n) : n ∉ b.inputs := by
  rw [hb]
  obtain ⟨i, _, _, rfl⟩ := nodeAt_some h
  exact not_mem_nodesAt_of_le (by simp [FLayout.pBase])

theorem arg_not_input {r : RawLayer} {b : Bag} (hb : b.inputs = nodesAt 0 r.layout.inputs) {a : String} {n : BNode}
    (h : nodeAt r.layout.aBase r.layout.args a = some n) : n ∉ b.inputs := by
  rw [hb]
  obtain ⟨i, _, _, rfl⟩ := nodeAt_some h
  exact not_mem_nodesAt_of_le (by simp [FLayout.aBase, FLayout.pBase]; omega)

theorem out_not_input {r : RawLayer} {b : Bag} (hb : b.inputs = nodesAt 0 r.layout.inputs) {a : String} {n : BNode}
    (h : nodeAt r.layout.oBase r.layout.outputs a = some n) : n ∉ b.inputs := by
  rw [hb]
  obtain ⟨i, _, _, rfl⟩ := nodeAt_some h
  exact not_mem_nodesAt_of_le (by simp [FLayout.oBase, FLayout.aBase, FLayout.pBase]; omega)

/-- **Inside a layer every argument denotes what `ArgDen` says**, by induction on the definition of the private parameters. -/
theorem argDen_sound {r : RawLayer} {b : Bag} (h : r.factory = .ok b) {a : String} {t : BTerm} (hd : ArgDen r a t) :
    ∀ n, r.argNode a = some n → BDen b n t := by
  obtain ⟨es, hes, hb, hedges⟩ := factory_shape h
  induction hd with
  | @pub a hp ho =>
    intro n hn
    simp only [RawLayer.argNode, hp, ho, Bool.false_eq_true, if_false] at hn
    have hm := nodeAt_mem hn
    obtain ⟨_, _, _, rfl⟩ := nodeAt_some hn
    exact .input (hb ▸ hm)
  | @const a v hp hc =>
    intro n hn
    simp only [RawLayer.argNode, hp, if_true] at hn
    obtain ⟨consts, params, fields, invs, hconsts, _, _, _, rfl⟩ := factoryEdges_parts hes
    obtain ⟨pair, hpair, hf⟩ := optMapM'_mem _ r.consts consts hconsts (a, v) hc
    unfold constEdges at hf
    split at hf
    · rename_i p an hpn han
      injection hf with hf
      have hpeq : p = n := by rw [hn] at hpn; injection hpn with hpn; exact hpn.symm
      subst hpeq
      have hin : ∀ e ∈ pair, e ∈ b.edges := by
        intro e he
        apply hedges
        simp only [List.mem_append, List.mem_flatten]
        exact Or.inl (Or.inl (Or.inl (Or.inr ⟨pair, hpair, he⟩)))
      subst hf
      have he1 := hin (identityEdge an p) (by simp)
      have he2 := hin ({ edge := .constant v, ins := [], out := an } : BEdge) (by simp)
      refine .ident (identityEdge an p) (param_not_input hb hpn) he1 rfl rfl rfl ?_
      exact .edge ({ edge := .constant v, ins := [], out := an } : BEdge) (arg_not_input hb han) he2 rfl (by simp) rfl
        (by intro q hq; simp at hq)
    · cases hf
  | @param a ts p hp hpm hname hlen _ ih =>
    intro n hn
    simp only [RawLayer.argNode, hp, if_true] at hn
    obtain ⟨consts, params, fields, invs, _, hparams, _, _, rfl⟩ := factoryEdges_parts hes
    obtain ⟨e, he, hf⟩ := optMapM'_mem _ r.params params hparams p hpm
    unfold RawLayer.paramEdge at hf
    split at hf
    · rename_i pn hpn
      rw [hname, hn] at hpn
      injection hpn with hpn; subst hpn
      simp only [RawLayer.fwdEdge, Option.map_eq_some_iff] at hf
      obtain ⟨ins, hins, rfl⟩ := hf
      obtain ⟨hl, hz⟩ := optMapM'_spec _ p.args ins hins
      have hein : ({ edge := .function p.f [] [], ins := ins, out := n } : BEdge) ∈ b.edges := by
        apply hedges
        simp only [List.mem_append]
        exact Or.inl (Or.inl (Or.inr he))
      refine .edge _ (param_not_input hb hn) hein rfl (by simp) (hl.symm.trans hlen) ?_
      intro q hq
      obtain ⟨i, hi, hqi⟩ := List.mem_iff_getElem.1 hq
      simp only [List.length_zip] at hi
      have hi1 : i < p.args.length := by omega
      have hi2 : i < ins.length := by omega
      have hi3 : i < ts.length := by omega
      have hq' : q = (ins[i], ts[i]) := by rw [← hqi]; simp
      subst hq'
      have hz' := hz (p.args[i], ins[i]) (by rw [List.mem_iff_getElem]; exact ⟨i, by rw [List.length_zip]; omega, by simp⟩)
      have hat : (p.args[i], ts[i]) ∈ p.args.zip ts := by
        rw [List.mem_iff_getElem]; exact ⟨i, by rw [List.length_zip]; omega, by simp⟩
      exact ih (p.args[i], ts[i]) hat ins[i] (by simpa [RawLayer.argNode] using hz')
    · cases hf

  | @out a ts p hp ho hpm hname hlen _ ih =>
    intro n hn
    simp only [RawLayer.argNode, hp, ho, Bool.false_eq_true, if_false, if_true] at hn
    obtain ⟨consts, params, fields, invs, _, _, hfields, _, rfl⟩ := factoryEdges_parts hes
    obtain ⟨e, he, hf⟩ := optMapM'_mem _ r.fields fields hfields p hpm
    unfold RawLayer.fieldEdge at hf
    split at hf
    · rename_i pn hpn
      rw [hname, hn] at hpn
      injection hpn with hpn; subst hpn
      simp only [RawLayer.fwdEdge, Option.map_eq_some_iff] at hf
      obtain ⟨ins, hins, rfl⟩ := hf
      obtain ⟨hl, hz⟩ := optMapM'_spec _ p.args ins hins
      have hein : ({ edge := .function p.f [] [], ins := ins, out := n } : BEdge) ∈ b.edges := by
        apply hedges
        simp only [List.mem_append]
        exact Or.inl (Or.inr he)
      refine .edge _ (out_not_input hb hn) hein rfl (by simp) (hl.symm.trans hlen) ?_
      intro q hq
      obtain ⟨i, hi, hqi⟩ := List.mem_iff_getElem.1 hq
      simp only [List.length_zip] at hi
      have hi1 : i < p.args.length := by omega
      have hi2 : i < ins.length := by omega
      have hi3 : i < ts.length := by omega
      have hq' : q = (ins[i], ts[i]) := by rw [← hqi]; simp
      subst hq'
      have hz' := hz (p.args[i], ins[i]) (by rw [List.mem_iff_getElem]; exact ⟨i, by rw [List.length_zip]; omega, by simp⟩)
      have hat : (p.args[i], ts[i]) ∈ p.args.zip ts := by
        rw [List.mem_iff_getElem]; exact ⟨i, by rw [List.length_zip]; omega, by simp⟩
      exact ih (p.args[i], ts[i]) hat ins[i] (by simpa [RawLayer.argNode] using hz')
    · cases hf

/-- **What a field of a layer computes.**  In the container `GraphFactory` builds for the layer, the output node of the field
`f` computes the function of `f` applied to what its arguments denote: the inputs of those names, the layer's constructor
arguments (constants) and its private parameters (recursively). -/
theorem factory_field_term {r : RawLayer} {b : Bag} (h : r.factory = .ok b) (f : RawField) (hf : f ∈ r.fields)
    (ts : List BTerm) (hlen : f.args.length = ts.length) (hargs : ∀ q ∈ f.args.zip ts, ArgDen r q.1 q.2) :
    ∃ o, nodeAt r.layout.oBase r.layout.outputs f.name = some o ∧ BDen b o (.node (.function f.f [] []) ts) := by
  obtain ⟨es, hes, hb, hedges⟩ := factory_shape h
  obtain ⟨consts, params, fields, invs, _, _, hfields, _, rfl⟩ := factoryEdges_parts hes
  obtain ⟨e, he, hfe⟩ := optMapM'_mem _ r.fields fields hfields f hf
  unfold RawLayer.fieldEdge at hfe
  split at hfe
  · rename_i o ho
    simp only [RawLayer.fwdEdge, Option.map_eq_some_iff] at hfe
    obtain ⟨ins, hins, rfl⟩ := hfe
    obtain ⟨hl, hz⟩ := optMapM'_spec _ f.args ins hins
    refine ⟨o, ho, ?_⟩
    have hein : ({ edge := .function f.f [] [], ins := ins, out := o } : BEdge) ∈ b.edges := by
      apply hedges
      simp only [List.mem_append]
      exact Or.inl (Or.inr he)
    refine .edge _ (out_not_input hb ho) hein rfl (by simp) (hl.symm.trans hlen) ?_
    intro q hq
    obtain ⟨i, hi, hqi⟩ := List.mem_iff_getElem.1 hq
    simp only [List.length_zip] at hi
    have hi1 : i < f.args.length := by omega
    have hi2 : i < ins.length := by omega
    have hi3 : i < ts.length := by omega
    have hq' : q = (ins[i], ts[i]) := by rw [← hqi]; simp
    subst hq'
    have hz' := hz (f.args[i], ins[i]) (by rw [List.mem_iff_getElem]; exact ⟨i, by rw [List.length_zip]; omega, by simp⟩)
    have hat : (f.args[i], ts[i]) ∈ f.args.zip ts := by
      rw [List.mem_iff_getElem]; exact ⟨i, by rw [List.length_zip]; omega, by simp⟩
    exact argDen_sound h (hargs _ hat) ins[i] (by simpa [RawLayer.argNode] using hz')
  · cases hfe

end CM
