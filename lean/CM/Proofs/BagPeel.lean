/-
  CM.Proofs.BagPeel — `peel` (the model of `detect_cycles` / the order of `from_edges`) emits the edges parents first.
-/
import CM.Proofs.BagCompile
namespace CM

/-- `L` lists edges parents first: the inputs of every edge are leaves of `es`, or already `seen`, or outputs of earlier
edges of `L` -/
def TopoFrom (es : List BEdge) : List BNode → List BEdge → Prop
  | _, [] => True
  | seen, e :: L => (∀ p ∈ e.ins, (∀ e' ∈ es, e'.out ≠ p) ∨ p ∈ seen) ∧ TopoFrom es (e.out :: seen) L

theorem topoFrom_mono (es : List BEdge) : ∀ (L : List BEdge) (seen seen' : List BNode),
    (∀ n ∈ seen, n ∈ seen') → TopoFrom es seen L → TopoFrom es seen' L
  | [], _, _, _, _ => trivial
  | e :: L, seen, seen', hs, h => by
    refine ⟨fun p hp => (h.1 p hp).imp id (hs p), ?_⟩
    exact topoFrom_mono es L _ _ (fun n hn => by
      rcases List.mem_cons.1 hn with rfl | hn
      · exact List.mem_cons_self ..
      · exact List.mem_cons_of_mem _ (hs n hn)) h.2

theorem topoFrom_append (es : List BEdge) : ∀ (L₁ L₂ : List BEdge) (seen : List BNode),
    TopoFrom es seen L₁ → TopoFrom es ((L₁.map (·.out)).reverse ++ seen) L₂ → TopoFrom es seen (L₁ ++ L₂)
  | [], L₂, seen, _, h2 => by simpa using h2
  | e :: L₁, L₂, seen, h1, h2 => by
    refine ⟨h1.1, topoFrom_append es L₁ L₂ (e.out :: seen) h1.2 ?_⟩
    refine topoFrom_mono es L₂ _ _ ?_ h2
    intro n hn
    simp only [List.map_cons, List.reverse_cons, List.append_assoc, List.mem_append, List.mem_reverse, List.mem_map,
      List.mem_cons, List.mem_nil_iff, or_false] at hn ⊢
    rcases hn with h | rfl | h
    · exact Or.inl h
    · exact Or.inr (Or.inl rfl)
    · exact Or.inr (Or.inr h)

theorem mem_ready_or_not (es : List BEdge) (e : BEdge) (h : e ∈ es) : e ∈ readyEdges es ∨ e ∈ notReady es := by
  by_cases hr : e ∈ readyEdges es
  · exact Or.inl hr
  · refine Or.inr ?_
    simp only [readyEdges, notReady, List.mem_filter, h, true_and] at hr ⊢
    simpa using hr

theorem ready_leaf {es : List BEdge} {e : BEdge} (h : e ∈ readyEdges es) : ∀ p ∈ e.ins, ∀ e' ∈ es, e'.out ≠ p := by
  intro p hp
  have := (List.mem_filter.1 h).2
  simp only [List.all_eq_true] at this
  have hl := this p hp
  simp only [isLeafIn, incoming, Option.isNone_iff_eq_none, List.find?_eq_none, beq_iff_eq] at hl
  exact hl

/-- a batch of edges that are ready in the remaining list `es'` can be emitted in any order -/
theorem topoFrom_ready (es es' : List BEdge) : ∀ (r : List BEdge) (seen : List BNode),
    (∀ e ∈ es, e.out ∈ seen ∨ e ∈ es') → (∀ e ∈ r, e ∈ readyEdges es') → TopoFrom es seen r
  | [], _, _, _ => trivial
  | x :: r, seen, hcov, hr => by
    refine ⟨?_, topoFrom_ready es es' r (x.out :: seen) ?_ (fun e he => hr e (List.mem_cons_of_mem _ he))⟩
    · intro p hp
      have hleaf := ready_leaf (hr x (List.mem_cons_self ..)) p hp
      by_cases hex : ∃ e' ∈ es, e'.out = p
      · obtain ⟨e', he', ho⟩ := hex
        rcases hcov e' he' with h | h
        · exact Or.inr (ho ▸ h)
        · exact absurd ho (hleaf e' h)
      · exact Or.inl fun e' he' ho => hex ⟨e', he', ho⟩
    · intro e he
      exact (hcov e he).imp (List.mem_cons_of_mem _) id

/-- **`peel` emits the edges parents first.** -/
theorem peel_topo (es : List BEdge) : ∀ (fuel : Nat) (es' : List BEdge) (seen : List BNode),
    (∀ e ∈ es, e.out ∈ seen ∨ e ∈ es') → TopoFrom es seen (peel fuel es').1
  | 0, _, _, _ => trivial
  | fuel + 1, es', seen, hcov => by
    simp only [peel]
    split
    · trivial
    · refine topoFrom_append es _ _ seen (topoFrom_ready es es' _ seen hcov (fun e he => he)) ?_
      refine peel_topo es fuel (notReady es') _ ?_
      intro e he
      rcases hcov e he with h | h
      · exact Or.inl (List.mem_append.2 (Or.inr h))
      · rcases mem_ready_or_not es' e h with hr | hn
        · refine Or.inl (List.mem_append.2 (Or.inl ?_))
          simp only [List.mem_reverse, List.mem_map]
          exact ⟨e, hr, rfl⟩
        · exact Or.inr hn

theorem order_topo (b : Bag) : TopoFrom b.edges [] b.order :=
  peel_topo b.edges _ b.edges [] (fun e he => Or.inr he)

/-- read off at a position: an input of the edge is a leaf of the bag or the output of an earlier edge of the order -/
theorem topoFrom_split (es : List BEdge) : ∀ (pre : List BEdge) (e : BEdge) (suf : List BEdge) (seen : List BNode),
    TopoFrom es seen (pre ++ e :: suf) → ∀ p ∈ e.ins, (∀ e' ∈ es, e'.out ≠ p) ∨ p ∈ seen ∨ ∃ e' ∈ pre, e'.out = p
  | [], e, suf, seen, h, p, hp => (h.1 p hp).imp id Or.inl
  | x :: pre, e, suf, seen, h, p, hp => by
    rcases topoFrom_split es pre e suf (x.out :: seen) h.2 p hp with h1 | h1 | ⟨e', he', ho⟩
    · exact Or.inl h1
    · rcases List.mem_cons.1 h1 with rfl | h1
      · exact Or.inr (Or.inr ⟨x, List.mem_cons_self .., rfl⟩)
      · exact Or.inr (Or.inl h1)
    · exact Or.inr (Or.inr ⟨e', List.mem_cons_of_mem _ he', ho⟩)

end CM
