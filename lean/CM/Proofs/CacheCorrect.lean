/-
  CM.Proofs.CacheCorrect — graphs with cache edges: termination, and the rely form of `vm_correct` at the level of
  `Graph.__call__`: with faithful hashes and sound stores, what a call returns is the cache-free denotation, and the
  stores are sound afterwards whether the call returned or raised.  Hence (`history_sound`) along every history of
  calls of members of the family — any inputs, rebuilt pipelines, variants sharing the storage, injected failures —
  every returned value is the denotation of that call.
-/
import CM.Proofs.CacheSound
import CM.Proofs.Correct
namespace CM

theorem big_prog_eff (g : Graph) (f n : Nat) (op : StoreOp) (k : Option Val → Prog) (m : Mem) :
    big g (f + 1) (.prog n (.eff op k)) m =
      big g (f + 1) (.prog n (k (m.world.doOp op).1)) { m with world := (m.world.doOp op).2 } := by
  rw [big_prog, big_prog]
  rfl

/-- termination of any request program, cache operations included -/
theorem prog_halts_gen (g : Graph) (ht : g.Topo) (n : Nat) (hp : Bool) (b : Below g n hp) :
    ∀ p : Prog, (hp = true → p.NoCur) → Halts g (.prog n p) := by
  intro p
  induction p with
  | ret x => intro _; exact prog_halts g ht n hp b _ (.ret x) (fun _ => .ret x)
  | raise e => intro _; exact prog_halts g ht n hp b _ (.raise e) (fun _ => .raise e)
  | req r k ih =>
    intro hnc m
    have hnc' : hp = true → r.noCur = true ∧ ∀ x, (k x).NoCur := by
      intro h; cases hnc h with
      | req _ _ h1 h2 => exact ⟨h1, h2⟩
    obtain ⟨f1, h1⟩ := req_halts g ht n hp b r (fun h => (hnc' h).1) m
    cases hq : big g f1 (.req n r) m with
    | fuel => simp [hq, BRes.isFuel] at h1
    | raised e m1 =>
      refine ⟨f1 + 1, ?_⟩
      rw [big_prog]; simp only [runEffs]
      rw [show ({ m with world := m.world } : Mem) = m from rfl, hq]; rfl
    | ok x m1 =>
      obtain ⟨f2, h2⟩ := ih x (fun h => (hnc' h).2 x) m1
      refine ⟨max f1 f2 + 1, ?_⟩
      rw [big_prog]; simp only [runEffs]
      rw [show ({ m with world := m.world } : Mem) = m from rfl, halts_lift g h1 (Nat.le_max_left f1 f2), hq]
      simp only
      rw [halts_lift g h2 (Nat.le_max_right f1 f2)]
      exact h2
  | eff op k ih =>
    intro hnc m
    have hpf : hp = false := by
      cases hp with
      | false => rfl
      | true => cases hnc rfl
    obtain ⟨f1, h1⟩ := ih (m.world.doOp op).1 (fun h => by rw [hpf] at h; cases h) { m with world := (m.world.doOp op).2 }
    cases f1 with
    | zero => simp [big, BRes.isFuel] at h1
    | succ f1 => exact ⟨f1 + 1, by rw [big_prog_eff]; exact h1⟩

theorem evalProg_cache_shape (s a : Nat) : ∃ k, (EdgeK.cache s).evalProg a = .req .currentHash k := ⟨_, rfl⟩

/-- **Termination with caches.** -/
theorem node_halts_c (g : Graph) (ok : GraphOKC g) : ∀ n, Halts g (.hash n) ∧ Halts g (.value n) := by
  have ht : g.Topo := by
    intro n p hp
    unfold Graph.parents Graph.node at hp
    rw [List.getD_eq_getElem?_getD] at hp
    cases hn : g.nodes[n]? with
    | none => simp [hn] at hp; cases hp
    | some nd => simp [hn] at hp; exact ok.topo n nd hn p hp
  intro n
  induction n using Nat.strongRecOn with
  | _ n ih =>
    have hh : Halts g (.hash n) := by
      intro m
      cases hx : m.hashes.memo n with
      | some x => exact ⟨1, by rw [big_hash]; simp only [hx]; rfl⟩
      | none =>
        cases he : (g.node n).edge with
        | none => exact ⟨1, by rw [big_hash]; simp only [hx, he]; rfl⟩
        | some e =>
          have hwf := ok.wfc n _ e (node_of_edge g n e he) he
          have b : Below g n true := ⟨fun p hp => (ih p hp).1, fun p hp => (ih p hp).2, fun h => by cases h⟩
          obtain ⟨f1, h1⟩ := prog_halts_gen g ht n true b (e.hashProg (g.parents n).length) (fun _ => hashProg_noCur_c e _ hwf) m
          refine ⟨f1 + 1, ?_⟩
          rw [big_hash]; simp only [hx, he]
          cases hq : big g f1 (.prog n (e.hashProg (g.parents n).length)) m with
          | fuel => simp [hq, BRes.isFuel] at h1
          | raised e m1 => rfl
          | ok x m1 =>
            simp only
            cases m1.hashes.memo n with
            | some _ => rfl
            | none =>
              simp only
              cases m1.hashes.set n x <;> rfl
    refine ⟨hh, ?_⟩
    intro m
    cases hx : m.cache.memo n with
    | some x => exact ⟨1, by rw [big_value]; simp only [hx]; rfl⟩
    | none =>
      cases he : (g.node n).edge with
      | none => exact ⟨1, by rw [big_value]; simp only [hx, he]; rfl⟩
      | some e =>
        have b : Below g n false := ⟨fun p hp => (ih p hp).1, fun p hp => (ih p hp).2, fun _ => hh⟩
        obtain ⟨f1, h1⟩ := prog_halts_gen g ht n false b (e.evalProg (g.parents n).length) (fun h => by cases h) m
        refine ⟨f1 + 1, ?_⟩
        rw [big_value]; simp only [hx, he]
        cases hq : big g f1 (.prog n (e.evalProg (g.parents n).length)) m with
        | fuel => simp [hq, BRes.isFuel] at h1
        | raised e m1 => rfl
        | ok x m1 =>
          cases x with
          | val v =>
            simp only
            cases m1.cache.memo n with
            | some _ => rfl
            | none =>
              simp only
              cases m1.cache.set n v <;> rfl
          | hash _ | hout _ _ | node _ | tup _ => rfl

/-- what the caller of a cached `Graph.__call__` may rely on -/
def CachedSpec (F : Fam) (g : Graph) (d : DenCfg) : Outcome → Prop
  | .done x s => (∃ v, x = .val v ∧ vden g d = .ok v) ∧ StoreSound F s.mem.world
  | .raised _ s => StoreSound F s.mem.world
  | .next _ => False

/-- **Caches are transparent (rely form).**  For a member of a family with faithful hashes, started on sound
stores, the call stops; a returned value is the cache-free denotation; the stores are sound afterwards. -/
theorem cached_call (F : Fam) (g : Graph) (ok : GraphOKC g) (env : String → Option Val) (w : World) (hc : CallOK g env)
    (hF : F g (denCfgOf env w)) (hst : StoreSound F w) :
    ∃ N o steps, (∀ fuel, N ≤ fuel → g.call env w fuel = some (o, steps)) ∧ CachedSpec F g (denCfgOf env w) o := by
  have hs : MemSoundC F g (denCfgOf env w) (g.initMem env w) := ⟨init_memSound g env w hc, hst, hF⟩
  obtain ⟨f, hf⟩ := (node_halts_c g ok g.output).2 (g.initMem env w)
  have hsim := sim g f (.value g.output) (g.initMem env w)
  have hres := big_sound_c F g (denCfgOf env w) ok f (.value g.output) (g.initMem env w) hs trivial
  cases hq : big g f (.value g.output) (g.initMem env w) with
  | fuel => simp [hq, BRes.isFuel] at hf
  | ok x m' =>
    rw [hq] at hres
    obtain ⟨hs', v, hv, hden⟩ := hres
    have hreach := hsim.1 x m' hq [] [.ret] _ rfl
    obtain ⟨N, steps, hN⟩ := run_of_reaches g hreach (.done x ⟨[], [], m'⟩) rfl (by simp [step]) 0
    exact ⟨N, .done x ⟨[], [], m'⟩, steps, fun fuel hfuel => by simp only [Graph.call, initSt_eq]; exact hN fuel hfuel,
      ⟨v, hv, by rw [vden_eq g _ hc.outRange]; exact hden⟩, hs'.stores⟩
  | raised e m' =>
    rw [hq] at hres
    obtain ⟨s', s'', hreach, hstep, hmem⟩ := hsim.2 e m' hq [] [.ret] _ rfl
    obtain ⟨N, steps, hN⟩ := run_of_reaches g hreach (.raised e s'') rfl hstep 0
    exact ⟨N, .raised e s'', steps, fun fuel hfuel => by simp only [Graph.call, initSt_eq]; exact hN fuel hfuel,
      by show StoreSound F s''.mem.world; rw [hmem]; exact hres⟩


/-! ### histories -/

theorem run_mono (g : Graph) : ∀ (k : Nat) (st : St) (c : Nat) (r : Outcome × Nat), run g k st c = some r →
    ∀ k', k ≤ k' → run g k' st c = some r := by
  intro k
  induction k with
  | zero => intro st c r h; simp [run] at h
  | succ k ih =>
    intro st c r h k' hk
    obtain ⟨k'', rfl⟩ : ∃ j, k' = j + 1 := ⟨k' - 1, by omega⟩
    simp only [run] at h ⊢
    cases hs : step g st with
    | next st' => simp only [hs] at h ⊢; exact ih st' _ r h k'' (by omega)
    | done _ _ => simp only [hs] at h ⊢; exact h
    | raised _ _ => simp only [hs] at h ⊢; exact h

/-- whatever fuel lets the call finish, the outcome is the same -/
theorem call_unique (g : Graph) (env : String → Option Val) (w : World) (fuel N : Nat) (r r' : Outcome × Nat)
    (h : g.call env w fuel = some r) (h' : ∀ fuel, N ≤ fuel → g.call env w fuel = some r') : r = r' := by
  have h1 := run_mono g fuel _ 0 _ h (max fuel N) (Nat.le_max_left ..)
  have h2 := h' (max fuel N) (Nat.le_max_right ..)
  simp only [Graph.call] at h2
  rw [h1] at h2
  injection h2

/-- one call of a history: which pipeline (graph), which input, at which of its function invocations a user
function raises -/
structure CallSpec where
  g : Graph
  env : String → Option Val
  failAt : List Nat

/-- the world a call starts in (what the harness and the driver do between calls) -/
def prepare (w : World) (c : CallSpec) : World := { w with failAt := c.failAt.map (· + w.serial), log := [] }

/-- the world after a call: the call number advances (impure functions give new values) -/
def finish (o : Outcome) : World := { o.mem.world with callNo := o.mem.world.callNo + 1 }

/-- worlds reachable from sound stores by any history of calls of members of the family — any pipelines of the
family (rebuilds, variants), any inputs, any failure schedules — and of `clear`s -/
inductive Reach (F : Fam) : World → Prop
  | init (w : World) : StoreSound F w → Reach F w
  | clear (w : World) (s : Nat) : Reach F w → Reach F { w with stores := w.stores.modify s MemStore.clear }
  | call (w : World) (c : CallSpec) (fuel steps : Nat) (o : Outcome) : Reach F w → GraphOKC c.g → CallOK c.g c.env →
      F c.g (denCfgOf c.env (prepare w c)) → c.g.call c.env (prepare w c) fuel = some (o, steps) → Reach F (finish o)

theorem call_outcome (F : Fam) (w : World) (c : CallSpec) (fuel steps : Nat) (o : Outcome) (hst : StoreSound F w)
    (ok : GraphOKC c.g) (hc : CallOK c.g c.env) (hF : F c.g (denCfgOf c.env (prepare w c)))
    (hrun : c.g.call c.env (prepare w c) fuel = some (o, steps)) : CachedSpec F c.g (denCfgOf c.env (prepare w c)) o := by
  have hst' : StoreSound F (prepare w c) := storeSound_of_stores rfl hst
  obtain ⟨N, o', steps', hN, hspec⟩ := cached_call F c.g ok c.env (prepare w c) hc hF hst'
  have := call_unique c.g c.env (prepare w c) fuel N _ _ hrun hN
  injection this with h1 _
  rw [h1]; exact hspec

/-- **Sound stores along every history.** -/
theorem history_sound (F : Fam) (w : World) (h : Reach F w) : StoreSound F w := by
  induction h with
  | init w hs => exact hs
  | clear w s _ ih =>
    intro j st hj
    simp only [List.getElem?_modify] at hj
    cases hw : w.stores[j]? with
    | none => simp [hw] at hj
    | some st0 =>
      simp only [hw] at hj
      split at hj
      · simp only [Option.map_eq_map, Option.map_some, Option.some.injEq] at hj
        subst hj
        exact ⟨fun p hp => by simp [MemStore.clear] at hp, (ih j st0 hw).2⟩
      · simp only [Option.map_eq_map, Option.map_some, Option.some.injEq] at hj
        subst hj; exact ih j st0 hw
  | call w c fuel steps o _ ok hc hF hrun ih =>
    have hspec := call_outcome F w c fuel steps o ih ok hc hF hrun
    cases o with
    | next _ => exact absurd hspec (by simp [CachedSpec])
    | done x s => exact storeSound_of_stores rfl hspec.2
    | raised e s => exact storeSound_of_stores rfl hspec

/-- **Caches are transparent for every history** (given faithful hashes): after any history, whatever a call of a
member of the family returns is the value of its cache-free denotation. -/
theorem history_values (F : Fam) (w : World) (h : Reach F w) (c : CallSpec) (fuel steps : Nat) (x : Item) (s : St)
    (ok : GraphOKC c.g) (hc : CallOK c.g c.env) (hF : F c.g (denCfgOf c.env (prepare w c)))
    (hrun : c.g.call c.env (prepare w c) fuel = some (.done x s, steps)) :
    ∃ v, x = .val v ∧ vden c.g (denCfgOf c.env (prepare w c)) = .ok v :=
  (call_outcome F w c fuel steps _ (history_sound F w h) ok hc hF hrun).1

end CM
