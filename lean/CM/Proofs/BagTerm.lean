/-
  CM.Proofs.BagTerm — the term of a node as an executable function, sound for the relation BDen.
-/
import CM.Proofs.BagPipeline
namespace CM

def EdgeK.isIdentity : EdgeK → Bool
  | .identity => true
  | _ => false

theorem isIdentity_iff (e : EdgeK) : e.isIdentity = true ↔ e = .identity := by
  cases e <;> simp [EdgeK.isIdentity]

/-- `mapM` for `Option`, spelled out (kernel-reducible) -/
def optMapM {α β : Type} (f : α → Option β) : List α → Option (List β)
  | [] => some []
  | x :: xs =>
    match f x, optMapM f xs with
    | some y, some ys => some (y :: ys)
    | _, _ => none

/-- the term a node computes, by unfolding the bag from the node down (`fuel` bounds the depth) -/
def Bag.term (b : Bag) : Nat → BNode → Option BTerm
  | 0, _ => none
  | fuel + 1, n =>
    if b.inputs.contains n then some (.inp n.name)
    else match incoming b.edges n with
      | none => some (.missing n.name)
      | some e =>
        if e.edge.isIdentity then
          match e.ins with
          | [p] => b.term fuel p
          | _ => none
        else (optMapM (b.term fuel) e.ins).map (.node e.edge)

theorem incoming_some {es : List BEdge} {n : BNode} {e : BEdge} (h : incoming es n = some e) : e ∈ es ∧ e.out = n := by
  unfold incoming at h
  exact ⟨List.mem_of_find?_eq_some h, by simpa using List.find?_some h⟩

theorem incoming_none {es : List BEdge} {n : BNode} (h : incoming es n = none) : ∀ e ∈ es, e.out ≠ n := by
  unfold incoming at h
  simpa using List.find?_eq_none.1 h

theorem optMapM_sound {α β : Type} (f : α → Option β) (R : α → β → Prop) (hf : ∀ x y, f x = some y → R x y) :
    ∀ (xs : List α) (ys : List β), optMapM f xs = some ys → xs.length = ys.length ∧ ∀ p ∈ xs.zip ys, R p.1 p.2
  | [], ys, h => by
    simp only [optMapM, Option.some.injEq] at h
    subst h; simp
  | x :: xs, ys, h => by
    simp only [optMapM] at h
    split at h
    · rename_i y ys' hy hys
      injection h with h; subst h
      obtain ⟨hlen, hz⟩ := optMapM_sound f R hf xs ys' hys
      refine ⟨by simp [hlen], ?_⟩
      intro p hp
      simp only [List.zip_cons_cons, List.mem_cons] at hp
      rcases hp with rfl | hp
      · exact hf x y hy
      · exact hz p hp
    · simp at h

theorem term_sound (b : Bag) : ∀ (fuel : Nat) (n : BNode) (t : BTerm), b.term fuel n = some t → BDen b n t
  | 0, _, _, h => by simp [Bag.term] at h
  | fuel + 1, n, t, h => by
    simp only [Bag.term] at h
    split at h
    · rename_i hin
      injection h with h; subst h
      exact .input (by simpa using hin)
    · rename_i hin
      have hni : n ∉ b.inputs := by simpa using hin
      split at h
      · rename_i hnone
        injection h with h; subst h
        exact .missing hni (incoming_none hnone)
      · rename_i e hsome
        obtain ⟨he, ho⟩ := incoming_some hsome
        split at h
        · rename_i hid
          split at h
          · rename_i p hp
            exact .ident e hni he ho ((isIdentity_iff _).1 hid) hp (term_sound b fuel p t h)
          · simp at h
        · rename_i hid
          cases hl : optMapM (b.term fuel) e.ins with
          | none => simp [hl] at h
          | some ts =>
            simp only [hl, Option.map_some, Option.some.injEq] at h
            subst h
            obtain ⟨hlen, hz⟩ := optMapM_sound (b.term fuel) (BDen b) (term_sound b fuel) e.ins ts hl
            exact .edge e hni he ho (fun hk => hid ((isIdentity_iff _).2 hk)) hlen hz

mutual
  /-- executable form of `BTerm.NoMissing` -/
  def BTerm.noMissingB : BTerm → Bool
    | .inp _ => true
    | .missing _ => false
    | .node _ args => BTerm.noMissingLB args
  def BTerm.noMissingLB : List BTerm → Bool
    | [] => true
    | t :: ts => t.noMissingB && BTerm.noMissingLB ts
end

mutual
  theorem noMissingB_sound : ∀ (t : BTerm), t.noMissingB = true → t.NoMissing
    | .inp _, _ => trivial
    | .missing _, h => by simp [BTerm.noMissingB] at h
    | .node _ args, h => by
      simp only [BTerm.noMissingB] at h
      simp only [BTerm.NoMissing]
      exact noMissingLB_sound args h
  theorem noMissingLB_sound : ∀ (ts : List BTerm), BTerm.noMissingLB ts = true → BTerm.NoMissingL ts
    | [], _ => trivial
    | t :: ts, h => by
      simp only [BTerm.noMissingLB, Bool.and_eq_true] at h
      exact ⟨noMissingB_sound t h.1, noMissingLB_sound ts h.2⟩
end

end CM
