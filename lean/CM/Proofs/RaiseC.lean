/-
  CM.Proofs.RaiseC — graphs with cache edges: what a raising task establishes.  The exception is one of a user
  function or the error of the cache-free denotation (never an internal failure of the machine), and the call log
  keeps the at-most-once bound.  (That the stores stay sound is part of `big_sound_c`.)
-/
import CM.Proofs.OnceC
import CM.Proofs.Raise
namespace CM

theorem hb_vb_le_one_c (g : Graph) (ok : GraphOKC g) (j : Nat) : g.hb j + g.vb j ≤ 1 := by
  unfold Graph.hb Graph.vb
  cases he : (g.node j).edge with
  | none => simp
  | some e => exact calls_le_one_c e (ok.wfc j _ e (node_of_edge g j e he) he)

theorem OnceErr.same' (g : Graph) (hone : ∀ j, g.hb j + g.vb j ≤ 1) {m : Mem} {G : Ghost} {hp : Bool} {b B K : Nat} {t : Task}
    (hl : PreL g m G hp b B K t) (hK : K ≤ 1) (m' : Mem) (hc : ∀ j, calls m' j = calls m j) : OnceErr m m' t.node :=
  ⟨fun j hj => by rw [hc j]; exact pre_le_one g hone hl hK j hj, fun j _ => hc j⟩

def RaisedSpec (g : Graph) (d : DenCfg) (t : Task) (m m' : Mem) (e : Err) : Prop :=
  ((∃ fn, e = .user fn ∧ m.world.failAt ≠ []) ∨ PostErr g d t e) ∧ OnceErr m m' t.node

theorem big_raised_c (F : Fam) (g : Graph) (d : DenCfg) (ok : GraphOKC g) : ∀ (f : Nat) (t : Task) (hp : Bool) (m : Mem) (G : Ghost)
    (e : Err) (m' : Mem) (b B K : Nat), MemSoundC F g d m → TaskOKC F g d t → CInv g m G none none → PreCC g G hp t →
    PreL g m G hp b B K t → K ≤ 1 → big g f t m = .raised e m' → RaisedSpec g d t m m' e := by
  have ht := topo_of_base g ok.toGraphBase
  have hone := hb_vb_le_one_c g ok
  intro f
  induction f with
  | zero => intro t hp m G e m' _ _ _ _ _ _ _ _ _ h; simp [big] at h
  | succ f ih =>
    intro t hp m G e m' b B K hs htask hi hpre hl hK hb
    cases t with
    | hash n =>
      rw [big_hash] at hb
      have hact : remaining g G n ≠ 0 := hpre
      cases hx : m.hashes.memo n with
      | some x0 => simp [hx] at hb
      | none =>
        simp only [hx] at hb
        have hnin : g.inputs.contains n = false := by
          cases hc : g.inputs.contains n with
          | false => rfl
          | true => exact absurd hx (hi.ih n hc hact)
        cases he : (g.node n).edge with
        | none =>
          simp only [he] at hb
          injection hb with h1 h2; subst h1; subst h2
          exact ⟨Or.inr (by simp only [PostErr, den_leaf g d n he hnin]), OnceErr.same g hone hl hK _ rfl⟩
        | some e0 =>
          simp only [he] at hb
          have hnode := node_of_edge g n e0 he
          have hwf := ok.wfc n _ e0 hnode he
          have hlive := live_of_active g ht G n hact hnin
          have hdH : G.dH n = false := by
            cases hd : G.dH n with
            | false => rfl
            | true => exact absurd hx (hi.mh n (by simp) hd hact)
          have hflag : G.flag true n = false := by simp [Ghost.flag, hdH]
          have hhb : g.hb n = e0.hashCalls := by simp [Graph.hb, he]
          have hcok : CacheOK F g d n (e0.hashProg (g.parents n).length) := CacheOK.of_noEff (hashProg_noEff_c e0 _ hwf)
          have hpre1 : PreCC g G true (.prog n (e0.hashProg (g.parents n).length)) :=
            ⟨⟨hact, hlive, hflag⟩, fun _ => hashProg_noCur_c e0 _ hwf⟩
          have hl1 : PreL g m G true e0.hashCalls B K (.prog n (e0.hashProg (g.parents n).length)) :=
            ⟨hl.inv, by have := hl.bud; simp only [cost, Task.node, pendH_todo g G n hdH, hhb, pend] at this ⊢; simpa using this,
             hashProg_calls_c e0 _ hwf⟩
          have hden := (den_inner g d ok.toGraphBase n e0 he).1
          rw [interp_noCur (ctxOf g d n) _ _ (hashProg_noCur_c e0 _ hwf)] at hden
          cases hq : big g f (.prog n (e0.hashProg (g.parents n).length)) m with
          | fuel => simp [hq] at hb
          | raised e1 m1 =>
            simp only [hq] at hb
            injection hb with h1 h2; subst h1; subst h2
            obtain ⟨hA, hB⟩ := ih (.prog n (e0.hashProg (g.parents n).length)) true m G e1 m1 _ B K hs hcok hi hpre1 hl1 hK hq
            refine ⟨?_, hB⟩
            cases hA with
            | inl hu => exact Or.inl hu
            | inr hpe =>
              right
              simp only [PostErr] at hpe ⊢
              rw [hden, hpe]; rfl
          | ok x1 m1 =>
            simp only [hq] at hb
            obtain ⟨G1, ⟨hi1, fr1, hf1, kv1, hm1, hr1⟩, pl1⟩ := big_inv_c g ok f _ true m G x1 m1 _ B K hi hpre1 hl1 hq
            simp only [↓reduceIte] at hi1 hm1
            rw [hx] at hm1
            simp only [hm1] at hb
            have hcnt : m1.hashes.counts n ≠ none := by
              rw [hi1.ch n, hr1]; intro h0; exact hact ((toOpt_eq_none _).mp h0)
            rw [set_spec m1.hashes n x1 hcnt] at hb
            simp at hb
    | value n =>
      rw [big_value] at hb
      have hact : remaining g G n ≠ 0 := hpre
      cases hx : m.cache.memo n with
      | some x0 => simp [hx] at hb
      | none =>
        simp only [hx] at hb
        have hnin : g.inputs.contains n = false := by
          cases hc : g.inputs.contains n with
          | false => rfl
          | true => exact absurd hx (hi.iv n hc hact)
        cases he : (g.node n).edge with
        | none =>
          simp only [he] at hb
          injection hb with h1 h2; subst h1; subst h2
          exact ⟨Or.inr (by simp only [PostErr, den_leaf g d n he hnin]), OnceErr.same g hone hl hK _ rfl⟩
        | some e0 =>
          simp only [he] at hb
          have hnode := node_of_edge g n e0 he
          have hwf := ok.wfc n _ e0 hnode he
          have hlive := live_of_active g ht G n hact hnin
          have hdV : G.dV n = false := by
            cases hd : G.dV n with
            | false => rfl
            | true => exact absurd hx (hi.mv n (by simp) hd hact)
          have hflag : G.flag false n = false := by simp [Ghost.flag, hdV]
          have hvb : g.vb n = e0.evalCalls := by simp [Graph.vb, he]
          have hden := (den_inner g d ok.toGraphBase n e0 he).2
          have hcok : CacheOK F g d n (e0.evalProg (g.parents n).length) := by
            rcases hwf with h | ⟨s, rfl⟩
            · exact CacheOK.of_noEff (evalProg_noEff e0 _ h)
            · exact cache_evalProg_ok F g d n s _ hs.fam hden
          have hpre1 : PreCC g G false (.prog n (e0.evalProg (g.parents n).length)) :=
            ⟨⟨hact, hlive, hflag⟩, fun h => by cases h⟩
          have hl1 : PreL g m G false e0.evalCalls B K (.prog n (e0.evalProg (g.parents n).length)) :=
            ⟨hl.inv, by have := hl.bud; simp only [cost, Task.node, pendV_todo g G n hdV, hvb, pend] at this ⊢; simp only [Bool.false_eq_true, ↓reduceIte]; omega,
             evalProg_calls_c e0 _ hwf⟩
          cases hq : big g f (.prog n (e0.evalProg (g.parents n).length)) m with
          | fuel => simp [hq] at hb
          | raised e1 m1 =>
            simp only [hq] at hb
            injection hb with h1 h2; subst h1; subst h2
            obtain ⟨hA, hB⟩ := ih (.prog n (e0.evalProg (g.parents n).length)) false m G e1 m1 _ B K hs hcok hi hpre1 hl1 hK hq
            refine ⟨?_, hB⟩
            cases hA with
            | inl hu => exact Or.inl hu
            | inr hpe =>
              right
              simp only [PostErr] at hpe ⊢
              rw [hden, hpe]; rfl
          | ok x1 m1 =>
            simp only [hq] at hb
            obtain ⟨G1, ⟨hi1, fr1, hf1, _, hm1, hr1⟩, pl1⟩ := big_inv_c g ok f _ false m G x1 m1 _ B K hi hpre1 hl1 hq
            have hsr := big_sound_c F g d ok f (.prog n (e0.evalProg (g.parents n).length)) m hs hcok
            rw [hq] at hsr
            obtain ⟨_, hint⟩ := hsr
            simp only [Post] at hint
            simp only [Bool.false_eq_true, ↓reduceIte] at hi1 hm1
            rw [hx] at hm1
            cases x1 with
            | val v =>
              simp only [hm1] at hb
              have hcnt : m1.cache.counts n ≠ none := by
                rw [hi1.cc n, hr1]; intro h0; exact hact ((toOpt_eq_none _).mp h0)
              rw [set_spec m1.cache n v hcnt] at hb
              simp at hb
            | hash _ | hout _ _ | node _ | tup _ =>
              simp only at hb
              injection hb with h1 h2; subst h1; subst h2
              refine ⟨Or.inr ?_, post_le_one g hone (t := .prog n (e0.evalProg (g.parents n).length)) pl1 hK, pl1.frame⟩
              simp only [PostErr]
              rw [hden, hint]; rfl
    | prog n p =>
      rw [big_prog] at hb
      obtain ⟨hrun, hnc⟩ := hpre
      have hcp : CacheOK F g d n p := htask
      obtain ⟨hc', hst', hint', hne'⟩ := runEffs_cacheOK hcp m.world hs.stores
      have hfx := runEffs_fixed p m.world
      have hlog := runEffs_log p m.world
      have hbud : (runEffs p m.world).1.CallsLe b := runEffs_callsLe hl.prog m.world
      have hnc1 : hp = true → (runEffs p m.world).1.NoCur := fun h => by rw [runEffs_noCur (hnc h)]; exact hnc h
      cases hq0 : runEffs p m.world with
      | mk p' w' =>
        rw [hq0] at hc' hst' hint' hne' hfx hlog hbud hnc1 hb
        simp only at hc' hst' hint' hne' hfx hlog hbud hnc1 hb
        have hfp := fixed_parts hfx
        have hfa : w'.failAt = m.world.failAt := congrArg (·.1) hfx
        have hsw : MemSoundC F g d { m with world := w' } :=
          ⟨⟨hs.mem.vals, hs.mem.hashes, hfp.1.trans hs.mem.consts, hfp.2.1.trans hs.mem.impure, hfp.2.2.trans hs.mem.callNo⟩, hst', hs.fam⟩
        have hi' : CInv g { m with world := w' } G none none := ⟨hi.ch, hi.cc, hi.mh, hi.mv, hi.ih, hi.iv⟩
        have hcalls : ∀ j, calls { m with world := w' } j = calls m j := fun j => by simp only [calls, hlog]
        cases p' with
        | eff op k => simp [Prog.isEff] at hne'
        | ret x0 =>
          simp only at hb
          obtain ⟨h', c', hev, _⟩ := complete_step g ht m G hp n hi hrun
          simp [hev] at hb
        | raise e0 =>
          simp only at hb
          injection hb with h1 h2; subst h1; subst h2
          exact ⟨Or.inr (by simp only [PostErr]; rw [← hint']; rfl), OnceErr.same' g hone hl hK _ hcalls⟩
        | req r k =>
          simp only at hb
          obtain ⟨hrb, hkb⟩ : r.ncalls ≤ b ∧ ∀ x, (k x).CallsLe (b - r.ncalls) := by
            cases hbud with
            | req _ _ _ h1 h2 => exact ⟨h1, h2⟩
          have hnc' : hp = true → r.noCur = true ∧ ∀ x, (k x).NoCur := by
            intro h; cases hnc1 h with
            | req _ _ h1 h2 => exact ⟨h1, h2⟩
          have hpre1 : PreCC g G hp (.req n r) := ⟨hrun, fun h => (hnc' h).1⟩
          have hl1 : PreL g { m with world := w' } G hp 0 ((b - r.ncalls) + B) K (.req n r) :=
            ⟨fun j hj => by rw [hcalls]; exact hl.inv j hj,
             by have := hl.bud; simp only [cost, Task.node] at this ⊢; rw [hcalls]; omega, trivial⟩
          cases hq : big g f (.req n r) { m with world := w' } with
          | fuel => simp [hq] at hb
          | raised e1 m1 =>
            simp only [hq] at hb
            injection hb with h1 h2; subst h1; subst h2
            obtain ⟨hA, hB⟩ := ih (.req n r) hp _ G e1 m1 0 _ K hsw trivial hi' hpre1 hl1 hK hq
            refine ⟨?_, hB.1, fun j hj => (hB.2 j hj).trans (hcalls j)⟩
            cases hA with
            | inl hu => obtain ⟨fn, h1, h2⟩ := hu; exact Or.inl ⟨fn, h1, by rw [← hfa]; exact h2⟩
            | inr hpe =>
              right
              simp only [PostErr] at hpe ⊢
              rw [← hint']
              simp only [interp, hpe]
          | ok y m1 =>
            simp only [hq] at hb
            obtain ⟨G1, ⟨hi1, fr1, kp1⟩, pl1⟩ := big_inv_c g ok f (.req n r) hp _ G y m1 0 _ K hi' hpre1 hl1 hq
            have hsr := big_sound_c F g d ok f (.req n r) _ hsw trivial
            rw [hq] at hsr
            obtain ⟨hs1, hr⟩ := hsr
            simp only [Post] at hr
            have fr1' : Frame n m G m1 G1 := ⟨fr1.dH, fr1.dV, fr1.mh, fr1.mv⟩
            have kp1' : Keep hp n m G m1 G1 := ⟨⟨kp1.1.d, kp1.1.m⟩, fun h => ⟨(kp1.2 h).d, (kp1.2 h).m⟩⟩
            have hrun1 := hrun.step ht fr1' kp1'
            have hky : CacheOK F g d n (k y) := by
              cases hc' with
              | req _ _ hk => exact hk y hr
            have hl2 : PreL g m1 G1 hp (b - r.ncalls) B K (.prog n (k y)) :=
              ⟨pl1.inv, by have := pl1.bud; simp only [rest, cost, Task.node] at this ⊢; omega, hkb y⟩
            have hfx1 := big_fixed g f (.req n r) { m with world := w' }
            rw [hq] at hfx1
            have hfa1 : m1.world.failAt = m.world.failAt := (congrArg (·.1) hfx1).trans hfa
            obtain ⟨hA, hB⟩ := ih (.prog n (k y)) hp m1 G1 e m' _ B K hs1 hky hi1 ⟨hrun1, fun h => (hnc' h).2 y⟩ hl2 hK hb
            refine ⟨?_, hB.1, fun j hj => ((hB.2 j hj).trans (pl1.frame j hj)).trans (hcalls j)⟩
            cases hA with
            | inl hu => obtain ⟨fn, h1, h2⟩ := hu; exact Or.inl ⟨fn, h1, by rw [← hfa1]; exact h2⟩
            | inr hpe =>
              right
              simp only [PostErr] at hpe ⊢
              rw [← hint']
              simp only [interp, hr, hpe]
    | req n r =>
      rw [big_req] at hb
      obtain ⟨hrun, hnc⟩ := hpre
      cases r with
      | parentHash i =>
        simp only at hb
        cases hpi : (g.parents n)[i]? with
        | none =>
          simp only [hpi] at hb
          injection hb with h1 h2; subst h1; subst h2
          exact ⟨Or.inr (by simp only [PostErr, interpReq, ctxOf, hpi]; rfl), OnceErr.same g hone hl hK _ rfl⟩
        | some p =>
          simp only [hpi] at hb
          have hmem : p ∈ g.parents n := List.mem_of_getElem? hpi
          have hlt : p < n := ht n p hmem
          have hpa := parent_active g ht G hp n p hrun hmem
          have hlp : PreL g m G hp 0 0 (calls m p + pendH g G p) (.hash p) :=
            ⟨fun j hj => hl.inv j (by simp only [Task.node] at hj ⊢; omega), by simp [cost, Task.node], trivial⟩
          have hKp : calls m p + pendH g G p ≤ 1 := cap_pendH_le_one g hone G p _ (hl.inv p hlt)
          cases hq : big g f (.hash p) m with
          | fuel => simp [hq] at hb
          | raised e1 m1 =>
            simp only [hq] at hb
            injection hb with h1 h2; subst h1; subst h2
            obtain ⟨hA, hB⟩ := ih (.hash p) hp m G e1 m1 0 0 _ hs trivial hi hpa hlp hKp hq
            refine ⟨?_, OnceErr.lift g hone hl hK hlt hB⟩
            cases hA with
            | inl hu => exact Or.inl hu
            | inr hpe =>
              right
              simp only [PostErr] at hpe ⊢
              simp only [interpReq, ctxOf, hpi, hpe]; rfl
          | ok y m1 =>
            simp only [hq] at hb
            obtain ⟨G1, _, pl1⟩ := big_inv_c g ok f (.hash p) hp m G y m1 0 0 _ hi hpa hlp hq
            have hsr := big_sound_c F g d ok f (.hash p) m hs trivial
            rw [hq] at hsr
            obtain ⟨_, hpost⟩ := hsr
            simp only [Post] at hpost
            have hres : OnceErr m m1 p := ⟨post_le_one g hone (t := .hash p) pl1 hKp, pl1.frame⟩
            cases y with
            | hout h pl => simp at hb
            | val _ | hash _ | node _ | tup _ =>
              simp only at hb
              injection hb with h1 h2; subst h1; subst h2
              exact ⟨Or.inr (by simp only [PostErr, interpReq, ctxOf, hpi, hpost, Item.asHout]; rfl),
                OnceErr.lift g hone hl hK hlt hres⟩
      | parentValue i =>
        simp only at hb
        cases hpi : (g.parents n)[i]? with
        | none =>
          simp only [hpi] at hb
          injection hb with h1 h2; subst h1; subst h2
          exact ⟨Or.inr (by simp only [PostErr, interpReq, ctxOf, hpi]; rfl), OnceErr.same g hone hl hK _ rfl⟩
        | some p =>
          simp only [hpi] at hb
          have hmem : p ∈ g.parents n := List.mem_of_getElem? hpi
          have hlt : p < n := ht n p hmem
          have hpa := parent_active g ht G hp n p hrun hmem
          have hlp : PreL g m G hp 0 0 (calls m p + (pendV g G p + pendH g G p)) (.value p) :=
            ⟨fun j hj => hl.inv j (by simp only [Task.node] at hj ⊢; omega), by simp [cost, Task.node], trivial⟩
          have hKp : calls m p + (pendV g G p + pendH g G p) ≤ 1 := cap_pendVH_le_one g hone G p _ (hl.inv p hlt)
          obtain ⟨hA, hB⟩ := ih (.value p) hp m G e m' 0 0 _ hs trivial hi hpa hlp hKp hb
          refine ⟨?_, OnceErr.lift g hone hl hK hlt hB⟩
          cases hA with
          | inl hu => exact Or.inl hu
          | inr hpe =>
            right
            simp only [PostErr] at hpe ⊢
            simp only [interpReq, ctxOf, hpi, hpe]; rfl
      | currentHash =>
        simp only at hb
        have hpf : hp = false := by
          cases hp with
          | false => rfl
          | true => have := hnc rfl; simp [Req.noCur] at this
        subst hpf
        have hlp : PreL g m G false 0 B K (.hash n) :=
          ⟨hl.inv, by have := hl.bud; simpa [cost, Task.node, pend, Req.ncalls] using this, trivial⟩
        cases hq : big g f (.hash n) m with
        | fuel => simp [hq] at hb
        | raised e1 m1 =>
          simp only [hq] at hb
          injection hb with h1 h2; subst h1; subst h2
          obtain ⟨hA, hB⟩ := ih (.hash n) false m G e1 m1 0 B K hs trivial hi hrun.active hlp hK hq
          refine ⟨?_, hB⟩
          cases hA with
          | inl hu => exact Or.inl hu
          | inr hpe =>
            right
            simp only [PostErr] at hpe ⊢
            simp only [interpReq, ctxOf, hpe]; rfl
        | ok y m1 =>
          simp only [hq] at hb
          obtain ⟨G1, _, pl1⟩ := big_inv_c g ok f (.hash n) false m G y m1 0 B K hi hrun.active hlp hq
          have hsr := big_sound_c F g d ok f (.hash n) m hs trivial
          rw [hq] at hsr
          obtain ⟨_, hpost⟩ := hsr
          simp only [Post] at hpost
          cases y with
          | hout h pl => simp at hb
          | val _ | hash _ | node _ | tup _ =>
            simp only at hb
            injection hb with h1 h2; subst h1; subst h2
            exact ⟨Or.inr (by simp only [PostErr, interpReq, ctxOf, hpost, Item.asHout]; rfl),
              post_le_one g hone (t := .hash n) pl1 hK, pl1.frame⟩
      | payload =>
        simp only at hb
        have hpf : hp = false := by
          cases hp with
          | false => rfl
          | true => have := hnc rfl; simp [Req.noCur] at this
        subst hpf
        have hlp : PreL g m G false 0 B K (.hash n) :=
          ⟨hl.inv, by have := hl.bud; simpa [cost, Task.node, pend, Req.ncalls] using this, trivial⟩
        cases hq : big g f (.hash n) m with
        | fuel => simp [hq] at hb
        | raised e1 m1 =>
          simp only [hq] at hb
          injection hb with h1 h2; subst h1; subst h2
          obtain ⟨hA, hB⟩ := ih (.hash n) false m G e1 m1 0 B K hs trivial hi hrun.active hlp hK hq
          refine ⟨?_, hB⟩
          cases hA with
          | inl hu => exact Or.inl hu
          | inr hpe =>
            right
            simp only [PostErr] at hpe ⊢
            simp only [interpReq, ctxOf, hpe]; rfl
        | ok y m1 =>
          simp only [hq] at hb
          obtain ⟨G1, _, pl1⟩ := big_inv_c g ok f (.hash n) false m G y m1 0 B K hi hrun.active hlp hq
          have hsr := big_sound_c F g d ok f (.hash n) m hs trivial
          rw [hq] at hsr
          obtain ⟨_, hpost⟩ := hsr
          simp only [Post] at hpost
          cases y with
          | hout h pl => simp at hb
          | val _ | hash _ | node _ | tup _ =>
            simp only at hb
            injection hb with h1 h2; subst h1; subst h2
            exact ⟨Or.inr (by simp only [PostErr, interpReq, ctxOf, hpost, Item.asHout]; rfl),
              post_le_one g hone (t := .hash n) pl1 hK, pl1.frame⟩
      | await rs =>
        simp only at hb
        have hlp : PreL g m G hp 0 B K (.reqs n rs.reverse []) :=
          ⟨hl.inv, by have := hl.bud; simpa [cost, Task.node, Req.ncalls, ncallsList_reverse] using this, trivial⟩
        obtain ⟨hA, hB⟩ := ih (.reqs n rs.reverse []) hp m G e m' 0 B K hs trivial hi
          ⟨hrun, fun h => noCurList_reverse rs (by have := hnc h; simpa [Req.noCur] using this)⟩ hlp hK hb
        refine ⟨?_, hB⟩
        cases hA with
        | inl hu => exact Or.inl hu
        | inr hpe =>
          right
          simp only [PostErr, List.reverse_reverse] at hpe ⊢
          simp only [interpReq, hpe]; rfl
      | call fn pos kwn kwv =>
        simp only at hb
        have hlog := call_log m.world n fn pos kwn kwv
        cases hc : m.world.call n fn pos kwn kwv with
        | mk rv w =>
          rw [hc] at hlog
          simp only [hc] at hb
          cases rv with
          | ok _ => simp at hb
          | error e1 =>
            simp only at hb
            injection hb with h1 h2; subst h1; subst h2
            have hcalls : ∀ j, calls { m with world := w } j = calls m j + (if n = j then 1 else 0) := by
              intro j
              simp only [calls]
              simp only at hlog
              rw [hlog, List.filter_cons]
              by_cases hnj : n = j
              · simp [hnj]
              · have : (n == j) = false := by simpa using hnj
                simp [hnj, this]
            refine ⟨Or.inl ⟨fn, world_call_err _ _ _ _ _ _ _ _ hc⟩, fun j hj => ?_, fun j hj => ?_⟩
            · simp only [Task.node] at hj
              rw [hcalls j]
              by_cases hnj : n = j
              · subst hnj
                have := hl.bud
                simp only [cost, Task.node, Req.ncalls, ↓reduceIte] at this ⊢
                omega
              · rw [if_neg hnj]
                exact pre_le_one g hone hl hK j hj
            · simp only [Task.node] at hj
              rw [hcalls j, if_neg (by omega)]; rfl
    | reqs n rsRev acc =>
      rw [big_reqs] at hb
      obtain ⟨hrun, hnc⟩ := hpre
      cases rsRev with
      | nil => simp at hb
      | cons r rest' =>
        simp only at hb
        have hnc' : hp = true → r.noCur = true ∧ Req.noCurList rest' = true := by
          intro h; have := hnc h; simpa [Req.noCurList] using this
        have hpre1 : PreCC g G hp (.req n r) := ⟨hrun, fun h => (hnc' h).1⟩
        have hl1 : PreL g m G hp 0 (Req.ncallsList rest' + B) K (.req n r) :=
          ⟨hl.inv, by have := hl.bud; simp only [cost, Task.node, Req.ncallsList] at this ⊢; omega, trivial⟩
        cases hq : big g f (.req n r) m with
        | fuel => simp [hq] at hb
        | raised e1 m1 =>
          simp only [hq] at hb
          injection hb with h1 h2; subst h1; subst h2
          obtain ⟨hA, hB⟩ := ih (.req n r) hp m G e1 m1 0 _ K hs trivial hi hpre1 hl1 hK hq
          refine ⟨?_, hB⟩
          cases hA with
          | inl hu => exact Or.inl hu
          | inr hpe =>
            right
            simp only [PostErr] at hpe ⊢
            simp only [List.reverse_cons, interpReqs_snoc, hpe]
        | ok y m1 =>
          simp only [hq] at hb
          obtain ⟨G1, ⟨hi1, fr1, kp1⟩, pl1⟩ := big_inv_c g ok f (.req n r) hp m G y m1 0 _ K hi hpre1 hl1 hq
          have hsr := big_sound_c F g d ok f (.req n r) m hs trivial
          rw [hq] at hsr
          obtain ⟨hs1, hr⟩ := hsr
          simp only [Post] at hr
          have hrun1 := hrun.step ht fr1 kp1
          have hl2 : PreL g m1 G1 hp 0 B K (.reqs n rest' (y :: acc)) :=
            ⟨pl1.inv, by have := pl1.bud; simp only [rest, cost, Task.node] at this ⊢; omega, trivial⟩
          have hfx1 := big_fixed g f (.req n r) m
          rw [hq] at hfx1
          have hfa1 : m1.world.failAt = m.world.failAt := congrArg (·.1) hfx1
          obtain ⟨hA, hB⟩ := ih (.reqs n rest' (y :: acc)) hp m1 G1 e m' 0 B K hs1 trivial hi1 ⟨hrun1, fun h => (hnc' h).2⟩ hl2 hK hb
          refine ⟨?_, hB.1, fun j hj => (hB.2 j hj).trans (pl1.frame j hj)⟩
          cases hA with
          | inl hu => obtain ⟨fn, h1, h2⟩ := hu; exact Or.inl ⟨fn, h1, by rw [← hfa1]; exact h2⟩
          | inr hpe =>
            right
            simp only [PostErr] at hpe ⊢
            simp only [List.reverse_cons, interpReqs_snoc, hr, hpe]; rfl

end CM
