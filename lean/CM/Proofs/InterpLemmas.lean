/-
  CM.Proofs.InterpLemmas — the pure interpreter of request programs: independence of the current hash for programs
  that never ask for it, and the order in which awaited requests are served.
-/
import CM.Proofs.ProgLemmas
namespace CM

mutual
  theorem interpReq_noCur (c : Ctx) (a : Except Err (NHash × Val)) : ∀ r : Req, r.noCur = true →
      interpReq { c with cur := a } r = interpReq c r
    | .parentHash i, _ => by simp [interpReq]
    | .parentValue i, _ => by simp [interpReq]
    | .currentHash, h => by simp [Req.noCur] at h
    | .payload, h => by simp [Req.noCur] at h
    | .await rs, h => by
      simp only [Req.noCur] at h
      simp [interpReq, interpReqs_noCur c a rs h]
    | .call f pos kwn kwv, _ => by simp [interpReq]
  theorem interpReqs_noCur (c : Ctx) (a : Except Err (NHash × Val)) : ∀ rs : List Req, Req.noCurList rs = true →
      interpReqs { c with cur := a } rs = interpReqs c rs
    | [], _ => by simp [interpReqs]
    | r :: rs, h => by
      simp only [Req.noCurList, Bool.and_eq_true] at h
      simp [interpReqs, interpReq_noCur c a r h.1, interpReqs_noCur c a rs h.2]
end

theorem interp_noCur (c : Ctx) (a : Except Err (NHash × Val)) (p : Prog) (h : p.NoCur) :
    interp { c with cur := a } p = interp c p := by
  induction h with
  | ret x => rfl
  | raise e => rfl
  | req r k hr _ ih =>
    simp only [interp, interpReq_noCur c a r hr]
    cases interpReq c r with
    | error e => rfl
    | ok x => exact ih x

/-- the last request is served first; the answers come back in request order -/
theorem interpReqs_snoc (c : Ctx) (r : Req) : ∀ rs : List Req,
    interpReqs c (rs ++ [r]) =
      match interpReq c r with
      | .error e => .error e
      | .ok x => (interpReqs c rs).map (· ++ [x])
  | [] => by
    simp only [List.nil_append, interpReqs]
    cases interpReq c r <;> rfl
  | a :: rs => by
    simp only [List.cons_append, interpReqs, interpReqs_snoc c r rs]
    cases interpReq c r with
    | error e => rfl
    | ok x =>
      simp only
      cases interpReqs c rs with
      | error e => rfl
      | ok xs =>
        simp only [Except.map]
        cases interpReq c a <;> rfl

end CM
