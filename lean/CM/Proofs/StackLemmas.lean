/-
  CM.Proofs.StackLemmas — how one layer changes what a stack exposes (helper lemmas for C02 / C09 / C18).
-/
import CM.Model.Stack
import CM.Proofs.NameSetLaws
namespace CM

theorem lookupAssoc_append {α : Type} (xs ys : List (String × α)) (k : String) :
    lookupAssoc (xs ++ ys) k = (lookupAssoc xs k).orElse fun _ => lookupAssoc ys k := by
  simp only [lookupAssoc, List.find?_append]
  cases h : List.find? (fun p => p.1 == k) xs <;> simp

theorem lookupAssoc_none_of_not_mem {α : Type} (xs : List (String × α)) (k : String)
    (h : k ∉ xs.map (·.1)) : lookupAssoc xs k = none := by
  simp only [lookupAssoc, Option.map_eq_none_iff, List.find?_eq_none]
  intro p hp hk
  apply h
  simp only [List.mem_map]
  exact ⟨p, hp, by simpa using hk⟩

theorem lookupAssoc_some_mem {α : Type} (xs : List (String × α)) (k : String) (v : α)
    (h : lookupAssoc xs k = some v) : (k, v) ∈ xs := by
  simp only [lookupAssoc, Option.map_eq_some_iff] at h
  obtain ⟨p, hp, rfl⟩ := h
  have h1 := List.mem_of_find?_eq_some hp
  have h2 := List.find?_some hp
  simp only [beq_iff_eq] at h2
  subst h2
  exact h1

/-- `mapM` over `Option` that keeps the first component keeps the list of first components. -/
theorem mapM_keys {α β : Type} (f : String × α → Option (String × β)) (hf : ∀ p y, f p = some y → y.1 = p.1) :
    ∀ (xs : List (String × α)) (ys : List (String × β)), xs.mapM f = some ys → ys.map (·.1) = xs.map (·.1)
  | [], ys, h => by simp at h; subst h; rfl
  | x :: xs, ys, h => by
    simp only [List.mapM_cons] at h
    cases hx : f x with
    | none => simp [hx] at h
    | some y =>
      cases hr : xs.mapM f with
      | none => simp [hx, hr] at h
      | some r =>
        simp [hx, hr] at h
        subst h
        simp [hf x y hx, mapM_keys f hf xs r hr]

end CM
