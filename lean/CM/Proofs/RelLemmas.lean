/-
  CM.Proofs.RelLemmas — the routing table of Merge (`id_to_dataset`) and sorted id lists.
-/
import CM.Model.Rel
namespace CM

theorem ownerOf_append (a b : List (String × Nat)) (i : String) :
    ownerOf (a ++ b) i = (ownerOf a i).orElse fun _ => ownerOf b i := by
  simp only [ownerOf, List.find?_append]
  cases List.find? (fun x => x.1 == i) a <;> simp

theorem ownerOf_map_mem (ids : List String) (k : Nat) (i : String) (h : i ∈ ids) :
    ownerOf (ids.map fun j => (j, k)) i = some k := by
  induction ids with
  | nil => cases h
  | cons x xs ih =>
    simp only [ownerOf, List.map_cons, List.find?_cons]
    by_cases hx : x = i
    · simp [hx]
    · have : i ∈ xs := by
        cases h with
        | head => exact absurd rfl hx
        | tail _ h => exact h
      have hne : (x == i) = false := by simpa using hx
      simp only [hne]
      exact ih this

theorem ownerOf_map_not_mem (ids : List String) (k : Nat) (i : String) (h : i ∉ ids) :
    ownerOf (ids.map fun j => (j, k)) i = none := by
  simp only [ownerOf, Option.map_eq_none_iff, List.find?_eq_none, List.mem_map]
  rintro ⟨a, b⟩ ⟨j, hj, heq⟩ hk
  injection heq with h1 _
  simp only [beq_iff_eq] at hk
  subst h1; subst hk
  exact h hj

theorem ownerOf_none_of_any_false (acc : List (String × Nat)) (ids : List String)
    (h : (ids.any fun i => acc.any fun p => p.1 == i) = false) (i : String) (hi : i ∈ ids) : ownerOf acc i = none := by
  simp only [List.any_eq_false] at h
  simp only [ownerOf, Option.map_eq_none_iff, List.find?_eq_none]
  intro p hp hk
  have := h i hi
  simp only [List.any_eq_true, not_exists, not_and] at this
  exact this p hp hk

/-- What `ownerTable` (the loop building `id_to_dataset`) guarantees when it does not raise. -/
theorem ownerTable_spec : ∀ (lists : List (List String)) (idx : Nat) (acc t : List (String × Nat)),
    ownerTable lists idx acc = .ok t →
    (∀ i n, ownerOf acc i = some n → ownerOf t i = some n) ∧
    (∀ k ids i, lists[k]? = some ids → i ∈ ids → ownerOf acc i = none ∧ ownerOf t i = some (idx + k)) ∧
    (∀ i, ownerOf acc i = none → (∀ ids ∈ lists, i ∉ ids) → ownerOf t i = none)
  | [], idx, acc, t, h => by
    simp only [ownerTable] at h
    injection h with h; subst h
    refine ⟨fun _ _ h => h, ?_, fun _ h _ => h⟩
    intro k ids i hk; simp at hk
  | ids :: rest, idx, acc, t, h => by
    simp only [ownerTable] at h
    split at h
    · simp at h
    · next hany =>
      have hany : (ids.any fun i => acc.any fun p => p.1 == i) = false := by simpa using hany
      obtain ⟨ih1, ih2, ih3⟩ := ownerTable_spec rest (idx + 1) _ t h
      refine ⟨?_, ?_, ?_⟩
      · intro i n hi
        apply ih1
        rw [ownerOf_append, hi]; rfl
      · intro k ids' i hk hi
        cases k with
        | zero =>
          simp only [List.getElem?_cons_zero, Option.some.injEq] at hk
          rw [← hk] at hi
          have hnone := ownerOf_none_of_any_false acc ids hany i hi
          refine ⟨hnone, ?_⟩
          apply ih1
          rw [ownerOf_append, hnone]
          simp [ownerOf_map_mem ids idx i hi]
        | succ k =>
          simp only [List.getElem?_cons_succ] at hk
          obtain ⟨h1, h2⟩ := ih2 k ids' i hk hi
          rw [ownerOf_append] at h1
          cases ha : ownerOf acc i with
          | some n => rw [ha] at h1; simp at h1
          | none => exact ⟨rfl, by rw [h2]; congr 1; omega⟩
      · intro i hi hall
        apply ih3
        · rw [ownerOf_append, hi]
          simp [ownerOf_map_not_mem ids idx i (hall ids (List.mem_cons_self ..))]
        · intro ids' hm; exact hall ids' (List.mem_cons_of_mem _ hm)

/-- the loop raises as soon as a dataset repeats an id of an earlier one -/
theorem ownerTable_overlap (ids : List String) (rest : List (List String)) (idx : Nat) (acc : List (String × Nat))
    (i : String) (hi : i ∈ ids) (n : Nat) (ha : ownerOf acc i = some n) :
    ownerTable (ids :: rest) idx acc = .error .runtimeError := by
  have : (ids.any fun i => acc.any fun p => p.1 == i) = true := by
    simp only [List.any_eq_true]
    simp only [ownerOf, Option.map_eq_some_iff] at ha
    obtain ⟨p, hp, _⟩ := ha
    exact ⟨i, hi, p, List.mem_of_find?_eq_some hp, by simpa using List.find?_some hp⟩
  simp [ownerTable, this]

theorem idsOf_get : ∀ (parts : List DS) (idLists : List (List String)), idsOf parts = .ok idLists →
    ∀ (k : Nat) (p : DS), parts[k]? = some p → ∃ ids, p.ids = .ok ids ∧ idLists[k]? = some ids
  | [], _, _, k, p, hk => by simp at hk
  | q :: qs, idLists, h, k, p, hk => by
    simp only [idsOf] at h
    cases hq : q.ids with
    | error e => simp [hq] at h
    | ok ids0 =>
      cases hr : idsOf qs with
      | error e => simp [hq, hr] at h
      | ok rest =>
        simp only [hq, hr] at h
        injection h with h; subst h
        cases k with
        | zero =>
          simp only [List.getElem?_cons_zero, Option.some.injEq] at hk
          subst hk
          exact ⟨ids0, hq, rfl⟩
        | succ k =>
          simp only [List.getElem?_cons_succ] at hk
          simpa using idsOf_get qs rest hr k p hk

theorem idsOf_length : ∀ (parts : List DS) (idLists : List (List String)), idsOf parts = .ok idLists →
    idLists.length = parts.length
  | [], idLists, h => by simp only [idsOf] at h; injection h with h; subst h; rfl
  | q :: qs, idLists, h => by
    simp only [idsOf] at h
    cases hq : q.ids with
    | error e => simp [hq] at h
    | ok ids0 =>
      cases hr : idsOf qs with
      | error e => simp [hq, hr] at h
      | ok rest =>
        simp only [hq, hr] at h
        injection h with h; subst h
        simp [idsOf_length qs rest hr]

theorem mem_insertSorted (x y : String) : ∀ l : List String, y ∈ insertSorted x l ↔ y = x ∨ y ∈ l
  | [] => by simp [insertSorted]
  | z :: zs => by
    simp only [insertSorted]
    split
    · next h => simp only [beq_iff_eq] at h; subst h; simp
    · split
      · simp
      · simp only [List.mem_cons, mem_insertSorted x y zs]
        constructor
        · rintro (h | h | h) <;> simp [h]
        · rintro (h | h | h) <;> simp [h]

theorem mem_sortDedup (y : String) : ∀ l : List String, y ∈ sortDedup l ↔ y ∈ l
  | [] => by simp [sortDedup]
  | x :: xs => by
    have ih := mem_sortDedup y xs
    simp only [sortDedup, List.foldr_cons] at ih ⊢
    rw [mem_insertSorted, ih]
    simp

end CM
