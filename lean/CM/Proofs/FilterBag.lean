import CM.Model.FilterBag
import CM.Proofs.CacheBag
namespace CM

theorem filterRaw_rule3 (e : EdgeK) (keys : String) : (filterRaw e keys).rule3 = [] := by
  simp [RawBag.rule3, filterRaw, NameSet.mem]

theorem filterBag_eq {e : EdgeK} {keys : String} {b : Bag} (h : filterBag e keys = .ok b) :
    b.inputs = [⟨0, keys⟩] ∧ b.outputs = [⟨1, keys⟩] ∧ b.edges = [{ edge := e, ins := [⟨0, keys⟩], out := ⟨1, keys⟩ }] ∧
    b.virt = .cofin [keys] ∧ b.persistent = [] := by
  obtain ⟨rfl, _⟩ := mkBag_ok h
  simp [RawBag.core, filterRaw_rule3, addIdentities, NameSet.diff, NameSet.lunion, NameSet.ldiff, names]
  simp [filterRaw]

theorem filterBag_wf {e : EdgeK} {keys : String} {b : Bag} (h : filterBag e keys = .ok b) : b.WF := by
  refine mkBag_wf h ?_ (fun x hx => by simp [filterRaw] at hx)
  intro n hn
  simp only [filterRaw, edgeNodes, List.mem_append, List.mem_cons, List.mem_singleton] at hn ⊢
  simp at hn
  rcases hn with (rfl | rfl) | rfl | rfl <;> simp

theorem filterBag_field {e : EdgeK} {keys : String} {b : Bag} (h : filterBag e keys = .ok b) (he : e ≠ .identity) :
    b.Field keys (.node e [.inp keys]) := by
  obtain ⟨hin, hout, hed, _, _⟩ := filterBag_eq h
  refine ⟨⟨1, keys⟩, by simp [hout], rfl, ?_⟩
  refine .edge (ts := [.inp keys]) { edge := e, ins := [⟨0, keys⟩], out := ⟨1, keys⟩ } (by simp [hin]) (by simp [hed]) rfl he (by simp) ?_
  intro q hq
  simp only [List.zip_cons_cons, List.zip_nil_right, List.mem_singleton] at hq
  subst hq
  exact .input (by simp [hin])

/-- **The container of `previous >> Filter(...)`** (for every well-formed previous container and whatever the filter edge is):
well-formed; **every field other than the keys computes exactly the term it computed before** (so: the same value and the same
node hash, for every input); the keys are the filter edge applied to what the previous container computes under that name; the
names are the previous names (and the keys). -/
theorem filter_layer {l b c : Bag} {e : EdgeK} {keys : String} (hl : l.WF) (hb : filterBag e keys = .ok b)
    (he : e ≠ .identity) (hc : connectBags l b = .ok c) :
    c.WF ∧
    (∀ x, x ≠ keys → ∀ t, c.Field x t ↔ l.Field x t) ∧
    (∀ t, c.Field keys t ↔ ∃ tk, Glue l (.inp keys) tk ∧ t = .node e [tk]) ∧
    (∀ x, x ∈ names c.outputs ↔ x = keys ∨ x ∈ names l.outputs) := by
  have hbw := filterBag_wf hb
  obtain ⟨hin, hout, hed, hvirt, hpers⟩ := filterBag_eq hb
  obtain ⟨hcw, hfield, hnames, _⟩ := connect_step hl hbw hc
  have hfb := filterBag_field hb he
  refine ⟨hcw, ?_, ?_, ?_⟩
  · intro x hx t
    rw [hfield]
    have hp : passes l b x = true := by
      simp [passes, hvirt, NameSet.mem]; exact Or.inl hx
    constructor
    · rintro (⟨t0, ⟨o, ho, hox, _⟩, _⟩ | ⟨_, h⟩)
      · rw [hout] at ho; simp at ho; subst ho; exact absurd hox.symm hx
      · exact h
    · exact fun h => Or.inr ⟨hp, h⟩
  · intro t
    rw [hfield]
    constructor
    · rintro (⟨t0, h0, hg⟩ | ⟨hp, _⟩)
      · obtain ⟨o₁, ho₁, hx₁, hd₁⟩ := h0
        obtain ⟨o₂, ho₂, hx₂, hd₂⟩ := hfb
        have : o₁ = o₂ := hbw.outNames o₁ ho₁ o₂ ho₂ (hx₁.trans hx₂.symm)
        subst this
        rw [BDen.det hbw.single hd₁ hd₂] at hg
        cases hg with
        | @node _ _ ts' hlen hz =>
          match ts', hlen with
          | [tk], _ => exact ⟨tk, hz (.inp keys, tk) (by simp), rfl⟩
      · exfalso
        simp [passes, hvirt, NameSet.mem, hout, names] at hp
    · rintro ⟨tk, hg, rfl⟩
      exact Or.inl ⟨_, hfb, .node (by simp) (by intro p hp; simp at hp; subst hp; exact hg)⟩
  · intro x
    rw [hnames, hout]
    by_cases hx : x = keys
    · simp [hx, names]
    · simp [names, hx, passes, hvirt, NameSet.mem]

end CM
