/-
  CM.Proofs.DenLemmas — the denotation of node `n` is `denNode` applied to the denotations of the earlier nodes.
-/
import CM.Model.Denote
namespace CM

def den (g : Graph) (d : DenCfg) (n : Nat) : Den := (denAll g d).getD n ⟨.error .internal, .error .internal⟩

theorem denFrom_length (g : Graph) (d : DenCfg) : ∀ (nodes : List Node) (i : Nat) (acc : List Den),
    (denFrom g d nodes i acc).length = acc.length + nodes.length
  | [], _, acc => by simp [denFrom]
  | nd :: rest, i, acc => by
    simp only [denFrom, denFrom_length g d rest, List.length_append, List.length_cons, List.length_nil]
    omega

/-- the accumulator is a prefix of the result -/
theorem denFrom_prefix (g : Graph) (d : DenCfg) : ∀ (nodes : List Node) (i : Nat) (acc : List Den) (k : Nat),
    k < acc.length → (denFrom g d nodes i acc)[k]? = acc[k]?
  | [], _, acc, k, _ => by simp [denFrom]
  | nd :: rest, i, acc, k, hk => by
    simp only [denFrom]
    rw [denFrom_prefix g d rest (i + 1) _ k (by simp; omega)]
    simp [List.getElem?_append_left hk]

theorem denFrom_take (g : Graph) (d : DenCfg) : ∀ (nodes : List Node) (i : Nat) (acc : List Den),
    (denFrom g d nodes i acc).take acc.length = acc
  | [], _, acc => by simp [denFrom]
  | nd :: rest, i, acc => by
    simp only [denFrom]
    have := denFrom_take g d rest (i + 1) (acc ++ [denNode g d acc i nd])
    have h2 : acc.length ≤ (acc ++ [denNode g d acc i nd]).length := by simp
    have e : (denFrom g d rest (i + 1) (acc ++ [denNode g d acc i nd])).take acc.length =
        ((denFrom g d rest (i + 1) (acc ++ [denNode g d acc i nd])).take (acc ++ [denNode g d acc i nd]).length).take acc.length := by
      rw [List.take_take, Nat.min_eq_left h2]
    rw [e, this]
    simp

/-- the `j`-th remaining node gets `denNode` of everything before it -/
theorem denFrom_get (g : Graph) (d : DenCfg) : ∀ (nodes : List Node) (i : Nat) (acc : List Den) (j : Nat) (nd : Node),
    acc.length = i → nodes[j]? = some nd →
    (denFrom g d nodes i acc)[i + j]? = some (denNode g d ((denFrom g d nodes i acc).take (i + j)) (i + j) nd)
  | [], _, _, j, _, _, h => by simp at h
  | x :: rest, i, acc, j, nd, hi, h => by
    cases j with
    | zero =>
      simp only [List.getElem?_cons_zero, Option.some.injEq] at h
      subst h
      simp only [denFrom, Nat.add_zero]
      have hp := denFrom_prefix g d rest (i + 1) (acc ++ [denNode g d acc i x]) i (by simp [hi])
      rw [hp]
      have ht := denFrom_take g d rest (i + 1) (acc ++ [denNode g d acc i x])
      have : (denFrom g d rest (i + 1) (acc ++ [denNode g d acc i x])).take i = acc := by
        have h2 : i ≤ (acc ++ [denNode g d acc i x]).length := by simp [hi]
        have e : (denFrom g d rest (i + 1) (acc ++ [denNode g d acc i x])).take i =
            ((denFrom g d rest (i + 1) (acc ++ [denNode g d acc i x])).take (acc ++ [denNode g d acc i x]).length).take i := by
          rw [List.take_take, Nat.min_eq_left h2]
        rw [e, ht]
        simp [← hi]
      rw [this]
      simp [← hi]
    | succ j =>
      simp only [List.getElem?_cons_succ] at h
      simp only [denFrom]
      have := denFrom_get g d rest (i + 1) (acc ++ [denNode g d acc i x]) j nd (by simp [hi]) h
      have e : i + 1 + j = i + (j + 1) := by omega
      rw [e] at this
      exact this

/-- **Unfolding.**  The denotation of an existing node is `denNode` over the denotations of the earlier nodes. -/
theorem den_eq (g : Graph) (d : DenCfg) (n : Nat) (nd : Node) (h : g.nodes[n]? = some nd) :
    den g d n = denNode g d ((denAll g d).take n) n nd := by
  have := denFrom_get g d g.nodes 0 [] n nd rfl h
  simp only [Nat.zero_add] at this
  simp only [den, denAll, List.getD_eq_getElem?_getD, this, Option.getD_some]

/-- earlier nodes are seen through the prefix as they are -/
theorem take_getD (g : Graph) (d : DenCfg) (n p : Nat) (hp : p < n) :
    ((denAll g d).take n).getD p ⟨.error .internal, .error .internal⟩ = den g d p := by
  simp only [den, List.getD_eq_getElem?_getD, List.getElem?_take, hp, if_true]

theorem den_absent (g : Graph) (d : DenCfg) (n : Nat) (h : g.nodes[n]? = none) :
    den g d n = ⟨.error .internal, .error .internal⟩ := by
  have hlen : (denAll g d).length = g.nodes.length := by
    simp [denAll, denFrom_length]
  have : (denAll g d)[n]? = none := by
    rw [List.getElem?_eq_none_iff] at h ⊢
    omega
  simp only [den, List.getD_eq_getElem?_getD, this, Option.getD_none]

end CM
