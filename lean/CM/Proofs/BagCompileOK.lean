/-
  CM.Proofs.BagCompileOK — every graph compiled from a checked bag satisfies the hypotheses of `vm_correct`.
-/
import CM.Proofs.BagPeel
import CM.Proofs.Count
namespace CM

theorem peel_perm : ∀ (fuel : Nat) (es : List BEdge), ((peel fuel es).1 ++ (peel fuel es).2).Perm es
  | 0, es => by simp [peel]
  | fuel + 1, es => by
    simp only [peel]
    split
    · simp
    · have ih := peel_perm fuel (notReady es)
      have hp : (readyEdges es ++ notReady es).Perm es := by
        simpa [readyEdges, notReady] using List.filter_append_perm (fun e => e.ins.all fun i => isLeafIn es i) es
      rw [List.append_assoc]
      exact (List.Perm.append_left _ ih).trans hp

theorem order_outs_nodup {b : Bag} (h : OutsNodup b.edges) : b.outs.Nodup := by
  have hp := (peel_perm b.edges.length b.edges).map (·.out)
  have hn : (((peel b.edges.length b.edges).1 ++ (peel b.edges.length b.edges).2).map (·.out)).Nodup :=
    hp.nodup_iff.2 h
  rw [List.map_append, List.nodup_append] at hn
  exact hn.1

theorem idxOf_le_of_getElem {α : Type} [BEq α] [LawfulBEq α] : ∀ (l : List α) (j : Nat) (h : j < l.length) (a : α),
    l[j] = a → l.idxOf a ≤ j
  | [], j, h, _, _ => by simp at h
  | x :: xs, 0, _, a, ha => by
    simp only [List.getElem_cons_zero] at ha
    simp [ha]
  | x :: xs, j + 1, h, a, ha => by
    simp only [List.getElem_cons_succ] at ha
    rw [List.idxOf_cons]
    cases hx : x == a with
    | true => simp
    | false =>
      simp only [cond_false]
      have := idxOf_le_of_getElem xs j (by simpa using h) a ha
      omega

theorem idxOf_getElem_nodup {α : Type} [BEq α] [LawfulBEq α] (l : List α) (hn : l.Nodup) (j : Nat) (h : j < l.length) :
    l.idxOf l[j] = j := by
  have hle := idxOf_le_of_getElem l j h _ rfl
  have hlt : l.idxOf l[j] < l.length := by omega
  have := List.getElem_idxOf hlt
  exact (List.getElem_inj hn).1 this

section
variable {b : Bag} {o : BNode}

/-- the parents of every node of the compiled graph come before it -/
theorem compile_topo (hn : OutsNodup b.edges) : ∀ (i : Nat) (nd : Node), (b.compileGraph o).nodes[i]? = some nd →
    ∀ p ∈ nd.parents, p < i := by
  intro i nd hnd p hp
  rw [compileGraph_eq] at hnd
  simp only at hnd
  by_cases hi : i < (b.leaves o).length
  · rw [List.getElem?_append_left (by simpa using hi), List.getElem?_map] at hnd
    cases hl : (b.leaves o)[i]? with
    | none => simp [hl] at hnd
    | some n => simp only [hl, Option.map_some, Option.some.injEq] at hnd; subst hnd; simp [mkLeaf] at hp
  · have hi' : (b.leaves o).length ≤ i := by omega
    rw [List.getElem?_append_right (by simpa using hi'), List.length_map, List.getElem?_map] at hnd
    cases he : b.order[i - (b.leaves o).length]? with
    | none => simp [he] at hnd
    | some e =>
      simp only [he, Option.map_some, Option.some.injEq] at hnd
      subst hnd
      obtain ⟨hk, hek⟩ := List.getElem?_eq_some_iff.1 he
      simp only [Bag.mkEdge, List.mem_map] at hp
      obtain ⟨q, hq, rfl⟩ := hp
      -- split the order at this position
      have hsplit : b.order = b.order.take (i - (b.leaves o).length) ++ e :: b.order.drop (i - (b.leaves o).length + 1) := by
        rw [← hek, List.getElem_cons_drop hk, List.take_append_drop]
      have hem : e ∈ b.order := hek ▸ List.getElem_mem hk
      have hqe : q ∈ edgeNodes b.edges := mem_edgeNodes_in (order_sub b e hem) hq
      rcases topoFrom_split b.edges _ e _ [] (hsplit ▸ order_topo b) q hq with hleaf | hs | ⟨e', he', ho⟩
      · -- a leaf of the bag: among the leaves of the compiled graph
        have hql : q ∈ b.leaves o := mem_leaves.2 ⟨Or.inl hqe, fun hqo => by
          obtain ⟨e'', he'', ho''⟩ := mem_outs.1 hqo
          exact hleaf e'' (order_sub b e'' he'') ho''⟩
        have : b.idx o q = (b.leaves o).idxOf q := by
          simp only [Bag.idx, Bag.nodeList, List.idxOf_append, hql, if_true]
        have := List.idxOf_lt_length_iff.2 hql
        omega
      · cases hs
      · -- the output of an earlier edge of the order
        obtain ⟨j, hj, hje⟩ := List.getElem_of_mem he'
        have hjk : j < i - (b.leaves o).length := by
          have := hj; simp only [List.length_take] at this; omega
        have hjo : j < b.outs.length := by simp [Bag.outs]; omega
        have hoj : b.outs[j] = q := by
          simp only [Bag.outs, List.getElem_map]
          have : b.order[j]'(by omega) = e' := by
            rw [← hje, List.getElem_take]
          rw [this, ho]
        have hqo : q ∈ b.outs := hoj ▸ List.getElem_mem hjo
        have hqnl : q ∉ b.leaves o := fun h => (mem_leaves.1 h).2 hqo
        have hidx : b.idx o q = b.outs.idxOf q + (b.leaves o).length := by
          simp only [Bag.idx, Bag.nodeList, List.idxOf_append, hqnl, if_false]
        have := idxOf_le_of_getElem b.outs j hjo q hoj
        omega

end
end CM

namespace CM
section
variable {b : Bag} {o : BNode}

/-- **Every graph compiled from a checked bag satisfies the hypotheses of `vm_correct`.** -/
theorem compile_ok (hn : OutsNodup b.edges) (hleaf : ∀ n ∈ b.inputs, ∀ e ∈ b.edges, e.out ≠ n)
    (hwf : ∀ e ∈ b.edges, e.edge.wf = true) : GraphOK (b.compileGraph o) := by
  have nodeCases : ∀ (i : Nat) (nd : Node), (b.compileGraph o).nodes[i]? = some nd →
      (∃ n ∈ b.leaves o, nd = mkLeaf n) ∨ (∃ e ∈ b.order, nd = b.mkEdge o e) := by
    intro i nd hnd
    rw [compileGraph_eq] at hnd
    simp only at hnd
    have := List.mem_of_getElem? hnd
    simp only [List.mem_append, List.mem_map] at this
    rcases this with ⟨n, hn', rfl⟩ | ⟨e, he, rfl⟩
    · exact Or.inl ⟨n, hn', rfl⟩
    · exact Or.inr ⟨e, he, rfl⟩
  refine { topo := compile_topo hn, inputsLeaves := ?_, wf := ?_ }
  · intro i nd hnd hu
    rw [usedInputs_contains, Bool.and_eq_true] at hu
    have hin := hu.1
    simp only [compileGraph_eq, List.contains_iff_mem, List.mem_map] at hin
    obtain ⟨n, hni, rfl⟩ := hin
    have hl : n ∈ b.leaves o := by
      refine mem_leaves.2 ⟨Or.inr (Or.inl hni), ?_⟩
      intro ho
      obtain ⟨e, he, heo⟩ := mem_outs.1 ho
      exact hleaf n hni e (order_sub b e he) heo
    have := node_of_leaf (o := o) hl
    rw [this] at hnd
    injection hnd with hnd
    subst hnd; rfl
  · intro i nd e hnd he
    rcases nodeCases i nd hnd with ⟨n, _, rfl⟩ | ⟨e', he', rfl⟩
    · simp [mkLeaf] at he
    · simp only [Bag.mkEdge, Option.some.injEq] at he
      subst he
      exact hwf e' (order_sub b e' he')

end
end CM
