/-
  CM.Proofs.BagMain — one connect_bags step through the function the model runs; chains.
-/
import CM.Proofs.BagShift
namespace CM

theorem connectBags_ok {l r0 c : Bag} (h : connectBags l r0 = .ok c) :
    c = connected l (r0.shift l.next) ∧ Checked (connectRaw l (r0.shift l.next)) c := by
  simp only [connectBags, bind, Except.bind, pure, Except.pure] at h
  split at h <;> try (simp at h)
  split at h <;> try (simp at h)
  split at h <;> try (simp at h)
  obtain ⟨h1, h2⟩ := mkBag_ok h
  exact ⟨h1, h1 ▸ h2⟩

/-- **One `connect_bags` step, through the function the model runs** (C02): well-formedness is kept; the result exposes
the right bag's fields, computed from the left bag's fields, plus the left fields the right bag passes on, and nothing
else; a name still reaches the raw input of the whole pipeline iff both bags let it through. -/
theorem connect_step {l r0 c : Bag} (hl : l.WF) (hr : r0.WF) (h : connectBags l r0 = .ok c) :
    c.WF ∧
    (∀ x t, c.Field x t ↔ (∃ t0, r0.Field x t0 ∧ Glue l t0 t) ∨ (passes l r0 x = true ∧ l.Field x t)) ∧
    (∀ x, x ∈ names c.outputs ↔ x ∈ names r0.outputs ∨ (x ∈ names l.outputs ∧ passes l r0 x = true)) ∧
    (∀ x, c.virt.mem x = (l.virt.mem x && r0.virt.mem x)) := by
  obtain ⟨hc, hchk⟩ := connectBags_ok h
  have hs := sep_shift hl hr
  subst hc
  refine ⟨connected_wf hs hchk, ?_, ?_, ?_⟩
  · intro x t
    rw [connected_field hs hchk.single, passes_shift]
    simp only [field_shift]
  · intro x
    rw [connected_names hs, passes_shift, shift_outputs, names_shift]
  · intro x
    rw [connected_virt hs, shift_virt]

/-- a chain of layers: `connect(head, *tail)` -/
def connectAll (head : Bag) (tail : List Bag) : Except BagErr Bag := tail.foldlM connectBags head

/-- every bag a chain goes through is well-formed: no later step can meet a malformed operand -/
theorem connectAll_wf {head c : Bag} {tail : List Bag} (hh : head.WF) (ht : ∀ b ∈ tail, b.WF)
    (h : connectAll head tail = .ok c) : c.WF := by
  induction tail generalizing head with
  | nil =>
    simp only [connectAll, List.foldlM, pure, Except.pure] at h
    injection h with h; exact h ▸ hh
  | cons b bs ih =>
    simp only [connectAll, List.foldlM, bind, Except.bind] at h
    split at h
    · simp at h
    · rename_i c1 hc1
      exact ih (connect_step hh (ht b (by simp)) hc1).1 (fun b' hb' => ht b' (by simp [hb'])) h

end CM
