/-
  CM.Proofs.BagIdent — an identity edge denotes what its parent denotes.
-/
import CM.Proofs.BagLinkLemmas
namespace CM

theorem interp_identity_hash (c : Ctx) :
    (interp c (EdgeK.identity.hashProg 1)).bind Item.asHout = (c.ph 0).map fun h => (h, Val.none) := by
  cases h0 : c.ph 0 with
  | error e =>
    simp [EdgeK.hashProg, staticHash, interp, interpReq, interpReqs, h0, List.range, List.range.loop, Except.map, Except.bind]
  | ok h =>
    simp [EdgeK.hashProg, staticHash, interp, interpReq, interpReqs, h0, List.range, List.range.loop, Except.map, Except.bind,
      asHashes, Item.asHout]

theorem interp_identity_val (c : Ctx) :
    (interp c (EdgeK.identity.evalProg 1)).bind Item.asVal = c.pv 0 := by
  cases h0 : c.pv 0 with
  | error e =>
    simp [EdgeK.evalProg, staticEval, interp, interpReq, interpReqs, h0, List.range, List.range.loop, Except.map, Except.bind]
  | ok v =>
    simp [EdgeK.evalProg, staticEval, interp, interpReq, interpReqs, h0, List.range, List.range.loop, Except.map, Except.bind,
      asVals, Item.asVal]

end CM
