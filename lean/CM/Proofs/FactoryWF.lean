/-
  CM.Proofs.FactoryWF — the container of every layer the factory accepts is well-formed, so the gluing theorems of
  `connect_bags` apply to it.
-/
import CM.Proofs.Factory
import CM.Proofs.CoreWF
namespace CM

theorem mkBag_wf {r : RawBag} {b : Bag} (h : mkBag r = .ok b)
    (hid : ∀ n, n ∈ r.inputs ++ r.outputs ++ edgeNodes r.edges → n.id < r.next)
    (hp : ∀ x ∈ r.persistent, x ∈ names r.outputs ∨ x ∈ names r.inputs) : b.WF := by
  obtain ⟨rfl, hc⟩ := mkBag_ok h
  exact core_wf r hc hid hp

theorem reversible_wf {inputs outputs : List BNode} {es : List BEdge} {backIn backOut : List BNode} {optNames : List String}
    {fwd back : NameSet} {persistent : List String} {next : Nat} {b : Bag}
    (h : reversible inputs outputs es backIn backOut optNames fwd back persistent next = .ok b)
    (hid : ∀ n, n ∈ inputs ++ outputs ++ edgeNodes es → n.id < next)
    (hp : ∀ x ∈ persistent, x ∈ names outputs ∨ x ∈ names inputs) : b.WF := by
  unfold reversible at h
  split at h
  · cases h
  · rename_i b1 h1
    have w1 : b1.WF := mkBag_wf h1 hid hp
    have hpers : b1.persistent = persistent := by
      obtain ⟨rfl, _⟩ := mkBag_ok h1
      rfl
    split at h
    · cases h
    · split at h
      · cases h
      · split at h
        · cases h
        · rename_i b2 h2
          injection h with h; subst h
          refine mkBag_wf h2 (fun n hn => w1.ids n hn) (fun x hx => Or.inl (w1.persOut x (hpers ▸ hx)))

theorem nodeAt_lt {base : Nat} {names : List String} {x : String} {n : BNode} (h : nodeAt base names x = some n) :
    n.id < base + names.length := by
  obtain ⟨i, hi, _, rfl⟩ := nodeAt_some h
  simp only; omega

theorem names_nodesAt (base : Nat) (ns : List String) : names (nodesAt base ns) = ns := by
  simp only [names, nodesAt, List.map_map]
  have : ((fun n : BNode => n.name) ∘ fun (p : String × Nat) => ({ id := base + p.2, name := p.1 } : BNode)) = Prod.fst := by
    funext p; rfl
  rw [this]
  exact List.zipIdx_map_fst ..

theorem mem_nodesAt_lt {base : Nat} {ns : List String} {n : BNode} (h : n ∈ nodesAt base ns) : n.id < base + ns.length := by
  obtain ⟨i, hx, hid⟩ := mem_nodesAt.1 h
  have : i < ns.length := (List.getElem?_eq_some_iff.1 hx).1
  omega

section
variable {r : RawLayer}

theorem layout_bounds (l : FLayout) : l.pBase ≤ l.aBase ∧ l.aBase ≤ l.oBase ∧ l.oBase ≤ l.biBase ∧ l.biBase ≤ l.boBase ∧
    l.boBase ≤ l.next ∧ l.inputs.length = l.pBase ∧ l.pBase + l.params.length = l.aBase ∧ l.aBase + l.args.length = l.oBase ∧
    l.oBase + l.outputs.length = l.biBase ∧ l.biBase + l.backIn.length = l.boBase ∧ l.boBase + l.backOut.length = l.next := by
  unfold FLayout.next FLayout.boBase FLayout.biBase FLayout.oBase FLayout.aBase FLayout.pBase
  omega

/-- the node an argument is bound to lies below the counter -/
theorem argnode_lt (l : FLayout) {a : String} {n : BNode}
    (h : (if isPrivate a then nodeAt l.pBase l.params a
          else if isOut a then nodeAt l.oBase l.outputs (outName a)
          else nodeAt 0 l.inputs (r.fwdArg a)) = some n) : n.id < l.next := by
  have hb := layout_bounds l
  split at h
  · have := nodeAt_lt h; omega
  · split at h
    · have := nodeAt_lt h; omega
    · have := nodeAt_lt h; omega

theorem backnode_lt (l : FLayout) {a : String} {n : BNode}
    (h : (if isPrivate a then nodeAt l.pBase l.params a else nodeAt l.biBase l.backIn a) = some n) : n.id < l.next := by
  have hb := layout_bounds l
  split at h
  · have := nodeAt_lt h; omega
  · have := nodeAt_lt h; omega

theorem fwdEdge_lt (l : FLayout) {f : RawField} {o : BNode} {e : BEdge} (ho : o.id < l.next) (h : r.fwdEdge l f o = some e) :
    ∀ n, n = e.out ∨ n ∈ e.ins → n.id < l.next := by
  simp only [RawLayer.fwdEdge, Option.map_eq_some_iff] at h
  obtain ⟨ins, hins, rfl⟩ := h
  obtain ⟨hl, hz⟩ := optMapM'_spec _ f.args ins hins
  rintro n (rfl | hn)
  · exact ho
  · obtain ⟨i, hi, rfl⟩ := List.getElem_of_mem hn
    simp only at hi
    have hi' : i < f.args.length := by omega
    exact argnode_lt l (hz (f.args[i], ins[i]) (by rw [List.mem_iff_getElem]; exact ⟨i, by rw [List.length_zip]; omega, by simp⟩))

theorem backEdge_lt (l : FLayout) {f : RawField} {o : BNode} {e : BEdge} (ho : o.id < l.next) (h : RawLayer.backEdge l f o = some e) :
    ∀ n, n = e.out ∨ n ∈ e.ins → n.id < l.next := by
  simp only [RawLayer.backEdge, Option.map_eq_some_iff] at h
  obtain ⟨ins, hins, rfl⟩ := h
  obtain ⟨hl, hz⟩ := optMapM'_spec _ f.args ins hins
  rintro n (rfl | hn)
  · exact ho
  · obtain ⟨i, hi, rfl⟩ := List.getElem_of_mem hn
    simp only at hi
    have hi' : i < f.args.length := by omega
    exact backnode_lt l (hz (f.args[i], ins[i]) (by rw [List.mem_iff_getElem]; exact ⟨i, by rw [List.length_zip]; omega, by simp⟩))

theorem optMapM'_out {α β : Type} (f : α → Option β) (xs : List α) (ys : List β) (h : optMapM' f xs = some ys)
    (y : β) (hy : y ∈ ys) : ∃ x ∈ xs, f x = some y := by
  obtain ⟨hl, hz⟩ := optMapM'_spec f xs ys h
  obtain ⟨i, hi, rfl⟩ := List.getElem_of_mem hy
  have hi' : i < xs.length := by omega
  exact ⟨xs[i], List.getElem_mem _, hz (xs[i], ys[i]) (by rw [List.mem_iff_getElem]; exact ⟨i, by rw [List.length_zip]; omega, by simp⟩)⟩

theorem factoryEdges_lt {es : List BEdge} (h : r.factoryEdges r.layout = some es) :
    ∀ n, n ∈ edgeNodes es → n.id < r.layout.next := by
  obtain ⟨consts, params, fields, invs, hconsts, hparams, hfields, hinvs, rfl⟩ := factoryEdges_parts h
  have hb := layout_bounds r.layout
  intro n hn
  obtain ⟨e, he, hne⟩ := mem_edgeNodes.1 hn
  simp only [List.mem_append, List.mem_flatten] at he
  rcases he with (((he | ⟨pair, hpair, he⟩) | he) | he) | he
  · -- the key edge of a Source
    unfold RawLayer.keyEdges at he
    split at he
    · split at he
      · rename_i i o hi ho
        simp only [List.mem_singleton] at he
        subst he
        have h1 := nodeAt_lt hi
        have h2 := nodeAt_lt ho
        rcases hne with rfl | hne
        · omega
        · have : n = i := by simpa [identityEdge] using hne
          subst this; omega
      · cases he
    · cases he
  · obtain ⟨c, _, hc⟩ := optMapM'_out _ r.consts consts hconsts pair hpair
    unfold constEdges at hc
    split at hc
    · rename_i p a hp ha
      injection hc with hc; subst hc
      have h1 := nodeAt_lt hp
      have h2 := nodeAt_lt ha
      simp only [List.mem_cons, List.mem_singleton, List.not_mem_nil, or_false] at he
      rcases he with rfl | rfl
      · rcases hne with rfl | hne
        · omega
        · have : n = a := by simpa [identityEdge] using hne
          subst this; omega
      · rcases hne with rfl | hne
        · omega
        · simp at hne
    · cases hc
  · obtain ⟨f, _, hf⟩ := optMapM'_out _ r.params params hparams e he
    unfold RawLayer.paramEdge at hf
    split at hf
    · rename_i p hp
      have := nodeAt_lt hp
      exact fwdEdge_lt r.layout (by omega) hf n hne
    · cases hf
  · obtain ⟨f, _, hf⟩ := optMapM'_out _ r.fields fields hfields e he
    unfold RawLayer.fieldEdge at hf
    split at hf
    · rename_i o ho
      have := nodeAt_lt ho
      exact fwdEdge_lt r.layout (by omega) hf n hne
    · cases hf
  · obtain ⟨f, _, hf⟩ := optMapM'_out _ r.inverses invs hinvs e he
    unfold RawLayer.invEdge at hf
    split at hf
    · rename_i o ho
      have := nodeAt_lt ho
      exact backEdge_lt r.layout (by omega) hf n hne
    · cases hf

/-- **The container of every layer the factory accepts is well-formed** (`Bag.WF`): the hypotheses of the gluing theorem, of
`connect_bags` preserving well-formedness and of the link to the compiled graph hold for it. -/
theorem factory_wf {b : Bag} (h : r.factory = .ok b) : b.WF := by
  unfold RawLayer.factory at h
  split at h
  · cases h
  · split at h
    · cases h
    · split at h
      · cases h
      · split at h
        · cases h
        · rename_i es hes
          have hb := layout_bounds r.layout
          refine reversible_wf h ?_ ?_
          · intro n hn
            simp only [List.mem_append] at hn
            rcases hn with (hn | hn) | hn
            · have := mem_nodesAt_lt hn; omega
            · have := mem_nodesAt_lt hn; omega
            · exact factoryEdges_lt hes n hn
          · intro x hx
            refine Or.inl ?_
            rw [names_nodesAt]
            split at hx
            · rename_i hsrc
              simp only [dedup, List.mem_eraseDups, List.mem_cons, List.mem_map, List.mem_filter] at hx
              simp only [RawLayer.layout, dedup, List.mem_eraseDups, hsrc, if_true, List.mem_append, List.mem_singleton,
                List.mem_map, List.cons_append, List.nil_append, List.mem_cons]
              rcases hx with rfl | ⟨f, ⟨hf, _⟩, rfl⟩
              · exact Or.inl rfl
              · exact Or.inr ⟨f, hf, rfl⟩
            · cases hx

end
end CM
