/-
  CM.Proofs.Decode — a node hash determines the value (C05): `decode h` is the computation the hash `h` stands for,
  and on plain graphs (no Silent arguments, no CheckIds, no user function called "tuple") the value of every node
  whose hash is `h` is `decode h`.
-/
import CM.Proofs.CacheSound
namespace CM

/-! ### structural equality of hashes -/

mutual
  theorem Val.eq_of_beq : ∀ a b : Val, Val.beq a b = true → a = b
    | .none, .none, _ => rfl
    | .bool a, .bool b, h => by simp [Val.beq] at h; rw [h]
    | .int a, .int b, h => by simp [Val.beq] at h; rw [h]
    | .str a, .str b, h => by simp [Val.beq] at h; rw [h]
    | .atom a, .atom b, h => by simp [Val.beq] at h; rw [h]
    | .tup a, .tup b, h => by simp only [Val.beq] at h; rw [Val.eq_of_beqList a b h]
    | .dict a b, .dict c d, h => by
      simp only [Val.beq, Bool.and_eq_true] at h; rw [Val.eq_of_beqList a c h.1, Val.eq_of_beqList b d h.2]
    | .app f p k v, .app g q l w, h => by
      simp only [Val.beq, Bool.and_eq_true, beq_iff_eq] at h
      rw [h.1.1.1, Val.eq_of_beqList p q h.1.1.2, h.1.2, Val.eq_of_beqList v w h.2]
    | .imp f c n p k v, .imp g d m q l w, h => by
      simp only [Val.beq, Bool.and_eq_true, beq_iff_eq] at h
      rw [h.1.1.1.1.1, h.1.1.1.1.2, h.1.1.1.2, Val.eq_of_beqList p q h.1.1.2, h.1.2, Val.eq_of_beqList v w h.2]
    | .none, .bool _, h | .none, .int _, h | .none, .str _, h | .none, .atom _, h | .none, .tup _, h | .none, .dict _ _, h
    | .none, .app _ _ _ _, h | .none, .imp _ _ _ _ _ _, h => by simp [Val.beq] at h
    | .bool _, .none, h | .bool _, .int _, h | .bool _, .str _, h | .bool _, .atom _, h | .bool _, .tup _, h | .bool _, .dict _ _, h
    | .bool _, .app _ _ _ _, h | .bool _, .imp _ _ _ _ _ _, h => by simp [Val.beq] at h
    | .int _, .none, h | .int _, .bool _, h | .int _, .str _, h | .int _, .atom _, h | .int _, .tup _, h | .int _, .dict _ _, h
    | .int _, .app _ _ _ _, h | .int _, .imp _ _ _ _ _ _, h => by simp [Val.beq] at h
    | .str _, .none, h | .str _, .bool _, h | .str _, .int _, h | .str _, .atom _, h | .str _, .tup _, h | .str _, .dict _ _, h
    | .str _, .app _ _ _ _, h | .str _, .imp _ _ _ _ _ _, h => by simp [Val.beq] at h
    | .atom _, .none, h | .atom _, .bool _, h | .atom _, .int _, h | .atom _, .str _, h | .atom _, .tup _, h | .atom _, .dict _ _, h
    | .atom _, .app _ _ _ _, h | .atom _, .imp _ _ _ _ _ _, h => by simp [Val.beq] at h
    | .tup _, .none, h | .tup _, .bool _, h | .tup _, .int _, h | .tup _, .str _, h | .tup _, .atom _, h | .tup _, .dict _ _, h
    | .tup _, .app _ _ _ _, h | .tup _, .imp _ _ _ _ _ _, h => by simp [Val.beq] at h
    | .dict _ _, .none, h | .dict _ _, .bool _, h | .dict _ _, .int _, h | .dict _ _, .str _, h | .dict _ _, .atom _, h | .dict _ _, .tup _, h
    | .dict _ _, .app _ _ _ _, h | .dict _ _, .imp _ _ _ _ _ _, h => by simp [Val.beq] at h
    | .app _ _ _ _, .none, h | .app _ _ _ _, .bool _, h | .app _ _ _ _, .int _, h | .app _ _ _ _, .str _, h | .app _ _ _ _, .atom _, h
    | .app _ _ _ _, .tup _, h | .app _ _ _ _, .dict _ _, h | .app _ _ _ _, .imp _ _ _ _ _ _, h => by simp [Val.beq] at h
    | .imp _ _ _ _ _ _, .none, h | .imp _ _ _ _ _ _, .bool _, h | .imp _ _ _ _ _ _, .int _, h | .imp _ _ _ _ _ _, .str _, h
    | .imp _ _ _ _ _ _, .atom _, h | .imp _ _ _ _ _ _, .tup _, h | .imp _ _ _ _ _ _, .dict _ _, h | .imp _ _ _ _ _ _, .app _ _ _ _, h => by
      simp [Val.beq] at h
  theorem Val.eq_of_beqList : ∀ a b : List Val, Val.beqList a b = true → a = b
    | [], [], _ => rfl
    | x :: xs, y :: ys, h => by
      simp only [Val.beqList, Bool.and_eq_true] at h
      rw [Val.eq_of_beq x y h.1, Val.eq_of_beqList xs ys h.2]
    | [], _ :: _, h => by simp [Val.beqList] at h
    | _ :: _, [], h => by simp [Val.beqList] at h
end

mutual
  theorem NHash.eq_of_beq : ∀ a b : NHash, NHash.beq a b = true → a = b
    | .leaf a, .leaf b, h => by simp only [NHash.beq] at h; rw [Val.eq_of_beq a b h]
    | .apply f a k, .apply g b l, h => by
      simp only [NHash.beq, Bool.and_eq_true, beq_iff_eq] at h
      rw [h.1.1, NHash.eq_of_beqList a b h.1.2, h.2]
    | .graph a, .graph b, h => by simp only [NHash.beq] at h; rw [NHash.eq_of_beq a b h]
    | .custom m a, .custom n b, h => by
      simp only [NHash.beq, Bool.and_eq_true, beq_iff_eq] at h
      rw [h.1, NHash.eq_of_beqList a b h.2]
    | .leaf _, .apply _ _ _, h | .leaf _, .graph _, h | .leaf _, .custom _ _, h => by simp [NHash.beq] at h
    | .apply _ _ _, .leaf _, h | .apply _ _ _, .graph _, h | .apply _ _ _, .custom _ _, h => by simp [NHash.beq] at h
    | .graph _, .leaf _, h | .graph _, .apply _ _ _, h | .graph _, .custom _ _, h => by simp [NHash.beq] at h
    | .custom _ _, .leaf _, h | .custom _ _, .apply _ _ _, h | .custom _ _, .graph _, h => by simp [NHash.beq] at h
  theorem NHash.eq_of_beqList : ∀ a b : List NHash, NHash.beqList a b = true → a = b
    | [], [], _ => rfl
    | x :: xs, y :: ys, h => by
      simp only [NHash.beqList, Bool.and_eq_true] at h
      rw [NHash.eq_of_beq x y h.1, NHash.eq_of_beqList xs ys h.2]
    | [], _ :: _, h => by simp [NHash.beqList] at h
    | _ :: _, [], h => by simp [NHash.beqList] at h
end

theorem keyEqB_exact_eq (a b : NHash) (h : keyEqB true a b = true) : a = b := by
  simp only [keyEqB, ↓reduceIte] at h
  exact NHash.eq_of_beq a b h

/-! ### the computation a hash stands for -/

mutual
  def decode : NHash → Val
    | .leaf v => v
    | .apply f hs kwn =>
      if f = "tuple" ∧ kwn = [] then .tup (decodeList hs)
      else .app f ((decodeList hs).take (hs.length - kwn.length)) kwn ((decodeList hs).drop (hs.length - kwn.length))
    | .graph _ => .none
    | .custom _ _ => .none
  def decodeList : List NHash → List Val
    | [] => []
    | h :: hs => decode h :: decodeList hs
end

theorem decodeList_eq_map : ∀ hs : List NHash, decodeList hs = hs.map decode
  | [] => rfl
  | h :: hs => by simp [decodeList, decodeList_eq_map hs]


/-! ### what the static edges ask for -/

inductive All2 {α β : Type} (R : α → β → Prop) : List α → List β → Prop
  | nil : All2 R [] []
  | cons {a : α} {b : β} {as : List α} {bs : List β} : R a b → All2 R as bs → All2 R (a :: as) (b :: bs)

theorem interpReqs_parentHash (c : Ctx) : ∀ (l : List Nat) (xs : List Item), interpReqs c (l.map .parentHash) = .ok xs →
    ∃ hs, xs = hs.map .hash ∧ All2 (fun i h => c.ph i = .ok h) l hs
  | [], xs, h => by
    simp only [List.map_nil, interpReqs] at h
    injection h with h; subst h
    exact ⟨[], rfl, .nil⟩
  | i :: l, xs, h => by
    simp only [List.map_cons, interpReqs] at h
    cases hr : interpReqs c (l.map .parentHash) with
    | error e => simp [hr] at h
    | ok ys =>
      simp only [hr, interpReq] at h
      cases hp : c.ph i with
      | error e => simp [hp, Except.map] at h
      | ok hh =>
        simp only [hp, Except.map] at h
        injection h with h; subst h
        obtain ⟨hs, rfl, hall⟩ := interpReqs_parentHash c l ys hr
        exact ⟨hh :: hs, rfl, .cons hp hall⟩

theorem interpReqs_parentValue_of (c : Ctx) : ∀ (l : List Nat) (vs : List Val), All2 (fun i v => c.pv i = .ok v) l vs →
    interpReqs c (l.map .parentValue) = .ok (vs.map .val)
  | [], _, .nil => rfl
  | i :: l, v :: vs, .cons h hall => by
    simp only [List.map_cons, interpReqs, interpReqs_parentValue_of c l vs hall, interpReq, h, Except.map]

theorem asHashes_map_hash : ∀ hs : List NHash, asHashes (hs.map Item.hash) = some hs
  | [] => rfl
  | h :: hs => by simp [asHashes, asHashes_map_hash hs]

theorem asVals_map_val : ∀ vs : List Val, asVals (vs.map Item.val) = some vs
  | [] => rfl
  | v :: vs => by simp [asVals, asVals_map_val vs]

theorem forall₂_imp {α β : Type} {R S : α → β → Prop} (h : ∀ a b, R a b → S a b) : ∀ {l₁ : List α} {l₂ : List β},
    All2 R l₁ l₂ → All2 S l₁ l₂
  | _, _, .nil => .nil
  | _, _, .cons hr hall => .cons (h _ _ hr) (forall₂_imp h hall)

theorem forall₂_length {α β : Type} {R : α → β → Prop} : ∀ {l₁ : List α} {l₂ : List β}, All2 R l₁ l₂ → l₁.length = l₂.length
  | _, _, .nil => rfl
  | _, _, .cons _ hall => by simp [forall₂_length hall]

theorem forall₂_map_right {α β γ : Type} {R : α → γ → Prop} (f : β → γ) : ∀ {l₁ : List α} {l₂ : List β},
    All2 (fun a b => R a (f b)) l₁ l₂ → All2 R l₁ (l₂.map f)
  | _, _, .nil => .nil
  | _, _, .cons hr hall => .cons hr (forall₂_map_right f hall)

theorem forall₂_head {α β : Type} {R : α → β → Prop} {a : α} {l₁ : List α} {l₂ : List β} (h : All2 R (a :: l₁) l₂) :
    ∃ b bs, l₂ = b :: bs ∧ R a b := by
  cases h with
  | cons hr hall => exact ⟨_, _, rfl, hr⟩

/-- `StaticHash.compute_hash` against the pure handlers -/
theorem interp_staticHash (c : Ctx) (a : Nat) (mk : List NHash → Prog) (x : Item) (h : interp c (staticHash a mk) = .ok x) :
    ∃ hs, All2 (fun i h => c.ph i = .ok h) (List.range a) hs ∧ interp c (mk hs) = .ok x := by
  simp only [staticHash, interp, interpReq] at h
  cases hr : interpReqs c ((List.range a).map .parentHash) with
  | error e => simp [hr, Except.map] at h
  | ok xs =>
    obtain ⟨hs, rfl, hall⟩ := interpReqs_parentHash c _ xs hr
    simp only [hr, Except.map, asHashes_map_hash] at h
    exact ⟨hs, hall, h⟩

/-- `StaticEdge.evaluate` when every parent has a value -/
theorem interp_staticEval (c : Ctx) (a : Nat) (f : List Val → Prog) (vs : List Val)
    (h : All2 (fun i v => c.pv i = .ok v) (List.range a) vs) : interp c (staticEval a f) = interp c (f vs) := by
  simp only [staticEval, interp, interpReq, interpReqs_parentValue_of c _ vs h, Except.map, asVals_map_val]

theorem interp_bind (c : Ctx) (f : Item → Prog) : ∀ p : Prog, p.NoEff →
    interp c (p.bind f) = match interp c p with | .ok x => interp c (f x) | .error e => .error e := by
  intro p hp
  induction hp with
  | ret x => rfl
  | raise e => rfl
  | req r k _ ih =>
    simp only [Prog.bind, interp]
    cases interpReq c r with
    | error e => rfl
    | ok x => exact ih x


/-! ### plain graphs -/

def EdgeK.plain : EdgeK → Bool
  | .function f _ silent => silent.isEmpty && f != "tuple"
  | .identity | .constant _ | .product | .cache _ | .barrier | .switch _ | .switchBranch | .switchMissing _ => true
  | .byValue i | .impure i => i.simple
  | .checkIds => false

/-- edges whose hash is the hash of their first parent -/
def EdgeK.passThrough : EdgeK → Bool
  | .identity | .cache _ => true
  | _ => false

/-- plain graphs: no Silent arguments, no CheckIds, no user function called "tuple"; pass-through edges have a parent;
the functions of plain function edges are neither constants nor impure in the configuration -/
structure Plain (g : Graph) (d : DenCfg) : Prop extends GraphBase g where
  plain : ∀ (n : Nat) (nd : Node) (e : EdgeK), g.nodes[n]? = some nd → nd.edge = some e → e.plain = true
  arity : ∀ (n : Nat) (nd : Node) (e : EdgeK), g.nodes[n]? = some nd → nd.edge = some e → e.passThrough = true → 1 ≤ nd.parents.length
  pure : ∀ (n : Nat) (nd : Node) (f : String) (kwn : List String) (sil : List Nat), g.nodes[n]? = some nd →
    nd.edge = some (.function f kwn sil) → ∀ pos kwv, d.call n f pos kwn kwv = .app f pos kwn kwv

theorem plain_wfc (e : EdgeK) (h : e.plain = true) : e.wf = true ∨ ∃ s, e = .cache s := by
  cases e <;> simp [EdgeK.plain, EdgeK.wf] at h ⊢
  all_goals first | exact h | skip

theorem bind_asHout_ok (r : Except Err Item) (h : NHash) (p : Val) (hr : r.bind Item.asHout = .ok (h, p)) : r = .ok (.hout h p) := by
  cases r with
  | error e => cases hr
  | ok x =>
    cases x with
    | hout h' p' => simp only [Except.bind, Item.asHout] at hr; injection hr with hr; injection hr with h1 h2; rw [h1, h2]
    | val _ | hash _ | node _ | tup _ => cases hr

theorem silence_nil (hs : List NHash) : silence [] hs = hs := by
  unfold silence
  have : ∀ (l : List (NHash × Nat)), l.map (fun x : NHash × Nat => if ([] : List Nat).contains x.2 then NHash.leaf Val.none else x.1) = l.map (·.1) := by
    intro l; apply List.map_congr_left; intro x _; simp
  rw [this]
  simp [List.zipIdx_map_fst]

theorem range_succ_cons (a : Nat) : List.range (a + 1) = 0 :: (List.range a).map (· + 1) := by
  rw [List.range_succ_eq_map]


theorem all2_vals (c : Ctx) (hpar : ∀ i h, c.ph i = .ok h → c.pv i = .ok (decode h)) : ∀ {l : List Nat} {hs : List NHash},
    All2 (fun i h => c.ph i = .ok h) l hs → All2 (fun i v => c.pv i = .ok v) l (hs.map decode)
  | _, _, .nil => .nil
  | _, _, .cons hr hall => .cons (hpar _ _ hr) (all2_vals c hpar hall)

theorem all2_range_head {β : Type} {R : Nat → β → Prop} {a : Nat} {l : List β} (ha : 1 ≤ a) (h : All2 R (List.range a) l) :
    ∃ b bs, l = b :: bs ∧ R 0 b := by
  obtain ⟨a', rfl⟩ : ∃ a', a = a' + 1 := ⟨a - 1, by omega⟩
  rw [range_succ_cons] at h
  exact forall₂_head h

/-- **A node hash determines the value** (C05): on a plain graph, a node whose hash is `h` has the value `decode h`. -/
theorem den_value_of_hash (g : Graph) (d : DenCfg) (pl : Plain g d) : ∀ (n : Nat) (h : NHash) (p : Val),
    (den g d n).h = .ok (h, p) → (den g d n).v = .ok (decode h) := by
  intro n
  induction n using Nat.strongRecOn with
  | _ n ih =>
    intro h p hh
    cases hn : g.nodes[n]? with
    | none => rw [den_absent g d n hn] at hh; cases hh
    | some nd =>
      have hnd : g.node n = nd := by simp [Graph.node, List.getD_eq_getElem?_getD, hn]
      by_cases hu : g.usedInputs.contains n = true
      · -- a used input: `LeafHash(value)`
        rw [den_eq g d n nd hn] at hh ⊢
        simp only [denNode, hu, ↓reduceIte] at hh ⊢
        cases hv : d.env nd.name with
        | none => simp [hv] at hh
        | some v =>
          simp only [hv] at hh ⊢
          injection hh with hh; injection hh with h1 _; subst h1; rfl
      · cases he : nd.edge with
        | none =>
          rw [den_eq g d n nd hn] at hh
          simp only [denNode, hu, Bool.false_eq_true, ↓reduceIte, he] at hh
          cases hh
        | some e =>
          have he' : (g.node n).edge = some e := by rw [hnd]; exact he
          have hplain := pl.plain n nd e hn he
          have hwfc := plain_wfc e hplain
          obtain ⟨hH, hV⟩ := den_inner g d pl.toGraphBase n e he'
          rw [interp_noCur (ctxOf g d n) _ _ (hashProg_noCur_c e _ hwfc)] at hH
          rw [hH] at hh
          have hx := bind_asHout_ok _ h p hh
          have hcur : (ctxOf g d n).cur = .ok (h, p) := by simp only [ctxOf]; rw [hH]; exact hh
          -- what the parents' hashes say about the parents' values
          have hpar : ∀ i hh', (ctxOf g d n).ph i = .ok hh' → (ctxOf g d n).pv i = .ok (decode hh') := by
            intro i hh' hph
            simp only [ctxOf] at hph ⊢
            cases hpi : (g.parents n)[i]? with
            | none => simp [hpi] at hph
            | some q =>
              simp only [hpi] at hph ⊢
              have hq : q < n := pl.topo n nd hn q (by rw [← hnd]; exact List.mem_of_getElem? hpi)
              cases hqh : (den g d q).h with
              | error e => simp [hqh, Except.map] at hph
              | ok hp =>
                obtain ⟨h1, p1⟩ := hp
                simp only [hqh, Except.map] at hph
                injection hph with hph; subst hph
                exact ih q hq h1 p1 hqh
          have hlen : (g.parents n).length = nd.parents.length := by simp [Graph.parents, hnd]
          rw [hV]
          cases e with
          | function f kwn sil =>
            simp only [EdgeK.plain, Bool.and_eq_true, List.isEmpty_iff, bne_iff_ne, ne_eq] at hplain
            obtain ⟨hsil, hft⟩ := hplain
            subst hsil
            simp only [EdgeK.hashProg] at hx
            obtain ⟨hs, hall, hmk⟩ := interp_staticHash _ _ _ _ hx
            simp only [interp, silence_nil] at hmk
            injection hmk with hmk; injection hmk with h1 _; subst h1
            have hvals := all2_vals _ hpar hall
            simp only [EdgeK.evalProg]
            rw [interp_staticEval _ _ _ _ hvals]
            have hl : hs.length = (g.parents n).length := by have := forall₂_length hall; simp at this; omega
            simp only [interp, interpReq, ctxOf, pl.pure n nd f kwn [] hn he, decode, hft, false_and, ↓reduceIte,
              decodeList_eq_map, List.length_map]
            rfl
          | identity =>
            have hpt := pl.arity n nd _ hn he rfl
            simp only [EdgeK.hashProg] at hx
            obtain ⟨hs, hall, hmk⟩ := interp_staticHash _ _ _ _ hx
            obtain ⟨b, bs, rfl, hb⟩ := all2_range_head (by omega) hall
            simp only [interp, List.getD_cons_zero] at hmk
            injection hmk with hmk; injection hmk with h1 _; subst h1
            have hvals := all2_vals _ hpar hall
            simp only [EdgeK.evalProg]
            rw [interp_staticEval _ _ _ _ hvals]
            rfl
          | constant v =>
            simp only [EdgeK.hashProg] at hx
            obtain ⟨hs, hall, hmk⟩ := interp_staticHash _ _ _ _ hx
            simp only [interp] at hmk
            injection hmk with hmk; injection hmk with h1 _; subst h1
            have hvals := all2_vals _ hpar hall
            simp only [EdgeK.evalProg]
            rw [interp_staticEval _ _ _ _ hvals]
            rfl
          | product =>
            simp only [EdgeK.hashProg] at hx
            obtain ⟨hs, hall, hmk⟩ := interp_staticHash _ _ _ _ hx
            simp only [interp] at hmk
            injection hmk with hmk; injection hmk with h1 _; subst h1
            have hvals := all2_vals _ hpar hall
            simp only [EdgeK.evalProg]
            rw [interp_staticEval _ _ _ _ hvals]
            simp only [interp, decode, and_self, ↓reduceIte, decodeList_eq_map]
            rfl
          | checkIds => simp [EdgeK.plain] at hplain
          | cache s =>
            have hpt := pl.arity n nd _ hn he rfl
            simp only [EdgeK.hashProg] at hx
            obtain ⟨hs, hall, hmk⟩ := interp_staticHash _ _ _ _ hx
            obtain ⟨b, bs, rfl, hb⟩ := all2_range_head (by omega) hall
            simp only [interp, List.getD_cons_zero] at hmk
            injection hmk with hmk; injection hmk with h1 _; subst h1
            have hpv := hpar 0 _ hb
            simp only [EdgeK.evalProg, interp, interpReq, hcur, Except.map, hpv]
            rfl
          | barrier =>
            simp only [EdgeK.hashProg, interp, interpReq] at hx
            cases hpv : (ctxOf g d n).pv 0 with
            | error e => simp [hpv, Except.map] at hx
            | ok v =>
              simp only [hpv, Except.map, interp] at hx
              injection hx with hx; injection hx with h1 h2; subst h1; subst h2
              simp only [EdgeK.evalProg, interp, interpReq, hcur, Except.map]
              rfl
          | byValue i =>
            have hsimple : i.simple = true := hplain
            simp only [EdgeK.hashProg] at hx
            rw [interp_bind _ _ _ (simple_eval_noEff i _ hsimple)] at hx
            cases hi : interp (ctxOf g d n) (i.evalProg (g.parents n).length) with
            | error e => simp [hi] at hx
            | ok x =>
              simp only [hi] at hx
              cases x with
              | val v =>
                simp only [interp] at hx
                injection hx with hx; injection hx with h1 h2; subst h1; subst h2
                simp only [EdgeK.evalProg, interp, interpReq, hcur, Except.map]
                rfl
              | hash _ | hout _ _ | node _ | tup _ => simp [interp] at hx
          | impure i =>
            have hsimple : i.simple = true := hplain
            simp only [EdgeK.hashProg] at hx
            rw [interp_bind _ _ _ (simple_eval_noEff i _ hsimple)] at hx
            cases hi : interp (ctxOf g d n) (i.evalProg (g.parents n).length) with
            | error e => simp [hi] at hx
            | ok x =>
              simp only [hi] at hx
              cases x with
              | val v =>
                simp only [interp] at hx
                injection hx with hx; injection hx with h1 h2; subst h1; subst h2
                simp only [EdgeK.evalProg, interp, interpReq, hcur, Except.map]
                rfl
              | hash _ | hout _ _ | node _ | tup _ => simp [interp] at hx
          | switch t =>
            simp only [EdgeK.hashProg, interp, interpReq] at hx
            cases hpv : (ctxOf g d n).pv 0 with
            | error e => simp [hpv, Except.map] at hx
            | ok key =>
              simp only [hpv, Except.map] at hx
              cases hlk : tableLookup t key with
              | none => simp [hlk, interp] at hx
              | some idx =>
                simp only [hlk, interp, interpReq] at hx
                cases hph : (ctxOf g d n).ph (idx + 1) with
                | error e => simp [hph, Except.map] at hx
                | ok hh' =>
                  simp only [hph, Except.map, interp] at hx
                  injection hx with hx; injection hx with h1 h2; subst h1; subst h2
                  have hpv' := hpar (idx + 1) _ hph
                  simp only [EdgeK.evalProg, interp, interpReq, hcur, Except.map, Int.toNat_natCast, hpv']
                  rfl
          | switchBranch =>
            simp only [EdgeK.hashProg, interp, interpReq, interpReqs] at hx
            cases hpv1 : (ctxOf g d n).pv 1 with
            | error e => simp [hpv1, Except.map] at hx
            | ok m1 =>
              cases hpv0 : (ctxOf g d n).pv 0 with
              | error e => simp [hpv1, hpv0, Except.map] at hx
              | ok key =>
                simp only [hpv1, hpv0, Except.map] at hx
                split at hx
                · next key' inner left right heq =>
                  split at hx
                  · simp [interp] at hx
                  · next i hidx =>
                    simp only [interp, interpReq] at hx
                    cases hph : (ctxOf g d n).ph i with
                    | error e => simp [hph, Except.map] at hx
                    | ok hh' =>
                      simp only [hph, Except.map, interp] at hx
                      injection hx with hx; injection hx with h1 h2; subst h1; subst h2
                      have hpv' := hpar i _ hph
                      simp only [EdgeK.evalProg, interp, interpReq, hcur, Except.map, Int.toNat_natCast, hpv']
                      rfl
                · simp [interp] at hx
          | switchMissing idx =>
            simp only [EdgeK.hashProg, interp, interpReq, interpReqs] at hx
            cases hpv1 : (ctxOf g d n).pv 1 with
            | error e => simp [hpv1, Except.map] at hx
            | ok m1 =>
              cases hpv0 : (ctxOf g d n).pv 0 with
              | error e => simp [hpv1, hpv0, Except.map] at hx
              | ok key =>
                simp only [hpv1, hpv0, Except.map] at hx
                have key_fact : (∃ hh', (ctxOf g d n).ph 2 = .ok hh' ∧ h = hh' ∧ p = .bool true) ∨ (h = .leaf .none ∧ p = .bool false) := by
                  repeat' split at hx
                  all_goals first
                    | (simp only [interp] at hx; injection hx with hx; injection hx with h1 h2; exact Or.inr ⟨h1.symm, h2.symm⟩)
                    | (simp only [interp, interpReq] at hx
                       cases hph : (ctxOf g d n).ph 2 with
                       | error e => simp [hph, Except.map] at hx
                       | ok hh' =>
                         simp only [hph, Except.map, interp] at hx
                         injection hx with hx; injection hx with h1 h2
                         exact Or.inl ⟨hh', rfl, h1.symm, h2.symm⟩)
                    | (simp [interp] at hx)
                rcases key_fact with ⟨hh', hph, rfl, rfl⟩ | ⟨rfl, rfl⟩
                · have hpv' := hpar 2 _ hph
                  simp only [EdgeK.evalProg, interp, interpReq, hcur, Except.map, hpv']
                  rfl
                · simp only [EdgeK.evalProg, interp, interpReq, hcur, Except.map]
                  rfl


/-- **Equal node hash, equal value** — across nodes, inputs and pipelines. -/
theorem equal_hash_equal_value (g : Graph) (d : DenCfg) (pl : Plain g d) (g' : Graph) (d' : DenCfg) (pl' : Plain g' d')
    (n n' : Nat) (h : NHash) (p p' : Val) (h1 : (den g d n).h = .ok (h, p)) (h2 : (den g' d' n').h = .ok (h, p')) :
    (den g d n).v = (den g' d' n').v := by
  rw [den_value_of_hash g d pl n h p h1, den_value_of_hash g' d' pl' n' h p' h2]

/-- C05 discharges the hypothesis of the cache theorem for stores with structural key equality (disk) -/
theorem faithful_exact (F : Fam) (hF : ∀ g d, F g d → Plain g d) : Faithful F true := by
  intro k g d n h pl v g' d' n' h' pl' hg hg' hh hh' hk hk' hv
  have e1 := keyEqB_exact_eq k h hk
  have e2 := keyEqB_exact_eq k h' hk'
  subst e1; subst e2
  rw [den_value_of_hash g' d' (hF g' d' hg') n' _ pl' hh']
  rw [den_value_of_hash g d (hF g d hg) n _ pl hh] at hv
  exact hv

end CM
