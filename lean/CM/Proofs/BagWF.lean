/-
  CM.Proofs.BagWF — well-formedness is preserved by connect_bags.
-/
import CM.Proofs.BagChecks
namespace CM
section
variable {l r : Bag}

theorem connected_next (h : Sep l r) : (connected l r).next = r.next + (lvNodes l r).length + (rvNodes l r).length := by
  have : (connected l r).next = (r3Part l r).2.2 := by
    simp only [connected, RawBag.core, addIdentities_eq, r3Part]; rfl
  rw [this]
  have := (cloneEdges_spec false (connectRaw l r).rule3 (rvPart l r).2.2).1
  simp only [r3Part] at this ⊢
  rw [this, rule3_nil h, rv_next]; simp

theorem pers_out (h : Sep l r) : ∀ x ∈ (connected l r).persistent, x ∈ names (connected l r).outputs := by
  intro x hx
  have hx' : x ∈ NameSet.lunion l.persistent r.persistent := hx
  rw [connected_names h]
  rcases (NameSet.mem_lunion _ _ _).1 hx' with hx | hx
  · by_cases hro : x ∈ names r.outputs
    · exact Or.inl hro
    · refine Or.inr ⟨h.wl.persOut x hx, ?_⟩
      simp only [passes, Bool.or_eq_true, Bool.and_eq_true, Bool.not_eq_true']
      exact Or.inr ⟨by simpa using hx, by simpa using hro⟩
  · exact Or.inl (h.wr.persOut x hx)

theorem connected_id_bound (h : Sep l r) : ∀ n ∈ (connected l r).nodes3, n.id < (connected l r).next := by
  rw [connected_next h]
  have hle := h.le
  have hL : ∀ n ∈ l.nodes3, n.id < r.next + (lvNodes l r).length + (rvNodes l r).length :=
    fun n hn => by have := h.l_id hn; omega
  have hR : ∀ n ∈ r.nodes3, n.id < r.next + (lvNodes l r).length + (rvNodes l r).length :=
    fun n hn => by have := (h.r_id hn).2; omega
  have hLV : ∀ n ∈ (lvPart l r).1, n.id < r.next + (lvNodes l r).length + (rvNodes l r).length :=
    fun n hn => by have := (fresh_lv hn).2; omega
  have hRV : ∀ n ∈ (rvPart l r).1, n.id < r.next + (lvNodes l r).length + (rvNodes l r).length := by
    intro n hn
    have := ((cloneEdges_spec false (rvNodes l r) (lvPart l r).2.2).2.2.2.1 n hn).2
    rw [lv_next] at this
    exact this
  intro n hn
  simp only [Bag.nodes3, connected_inputs, connected_outputs' h, List.mem_append] at hn
  rcases hn with ((hn | hn) | (hn | hn)) | hn
  · exact hL n (nodes3_in hn)
  · exact hLV n hn
  · exact hR n (nodes3_out hn)
  · exact hRV n hn
  · simp only [edgeNodes, List.mem_flatMap, List.mem_cons] at hn
    obtain ⟨e, he, hne⟩ := hn
    rcases mem_connected_edges.1 he with h1 | h1 | h1 | h1 | h1 | h1
    · rcases hne with rfl | hne
      · exact hL _ (nodes3_eout h1)
      · exact hL _ (nodes3_ein h1 hne)
    · rcases hne with rfl | hne
      · exact hR _ (nodes3_eout h1)
      · exact hR _ (nodes3_ein h1 hne)
    · obtain ⟨o, ho, i, hi, _, rfl⟩ := mem_common h1
      simp only [identityEdge, List.mem_singleton] at hne
      rcases hne with rfl | rfl
      · exact hR _ (nodes3_in hi)
      · exact hL _ (nodes3_out ho)
    · obtain ⟨_, m, hm, c, hc, _, hins, hout⟩ := mem_lvE h1
      rw [hins, hout] at hne
      simp only [List.mem_singleton] at hne
      rcases hne with rfl | rfl
      · exact hR _ (nodes3_in (mem_lvNodes.1 hm).1)
      · exact hLV _ hc
    · obtain ⟨_, m, hm, c, hc, _, hins, hout⟩ := mem_rvE h1
      rw [hins, hout] at hne
      simp only [List.mem_singleton] at hne
      rcases hne with rfl | rfl
      · exact hRV _ hc
      · exact hL _ (nodes3_out (mem_rvNodes.1 hm).1)
    · rw [(r3_nil h).2] at h1; cases h1

/-- **Well-formedness is preserved by `connect_bags`** (when its checks pass). -/
theorem connected_wf (h : Sep l r) (hc : Checked (connectRaw l r) (connected l r)) : (connected l r).WF where
  ids := connected_id_bound h
  outs := hc.outs
  inLeaf := hc.leaves
  inNames := names_inj_of_nodup hc.inDup
  outNames := by
    have := hc.outDup
    have ho : (connectRaw l r).outputs = (connected l r).outputs := by
      rw [connected_outputs' h]; rfl
    rw [ho] at this
    exact names_inj_of_nodup this
  virtOut := by
    intro n hn
    rw [connected_virt h]
    rw [connected_outputs' h] at hn
    have := hc.rule2a n hn
    simpa [connectRaw, NameSet.mem_inter] using this
  virtIn := by
    intro n hn
    rw [connected_virt h]
    simp only [connected_inputs, List.mem_append] at hn
    rcases hn with hn | hn
    · simp [h.wl.virtIn n hn]
    · obtain ⟨m, hm, hcn, _⟩ := cloneEdges_clone true (lvNodes l r) r.next n hn
      rw [hcn, h.wr.virtIn m (mem_lvNodes.1 hm).1]; simp
  persOut := pers_out h

end
end CM
