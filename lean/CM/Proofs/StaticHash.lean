/-
  CM.Proofs.StaticHash — `hash_graph`: the static hash of node `n` is `hgNode` applied to the static hashes of the
  earlier nodes (the analogue of CM.Proofs.DenLemmas for `Graph.hashGraphAll`).
-/
import CM.Model.VM
namespace CM

/-- the static hash of node `n` -/
def hg (g : Graph) (n : Nat) : Except Err NHash := g.hashGraphAll.getD n (.error .internal)

theorem hgFrom_length (g : Graph) : ∀ (nodes : List Node) (i : Nat) (acc : List (Except Err NHash)),
    (hgFrom g nodes i acc).length = acc.length + nodes.length
  | [], _, acc => by simp [hgFrom]
  | nd :: rest, i, acc => by
    simp only [hgFrom, hgFrom_length g rest, List.length_append, List.length_cons, List.length_nil]
    omega

/-- the accumulator is a prefix of the result -/
theorem hgFrom_prefix (g : Graph) : ∀ (nodes : List Node) (i : Nat) (acc : List (Except Err NHash)) (k : Nat),
    k < acc.length → (hgFrom g nodes i acc)[k]? = acc[k]?
  | [], _, acc, k, _ => by simp [hgFrom]
  | nd :: rest, i, acc, k, hk => by
    simp only [hgFrom]
    rw [hgFrom_prefix g rest (i + 1) _ k (by simp; omega)]
    simp [List.getElem?_append_left hk]

theorem hgFrom_take (g : Graph) : ∀ (nodes : List Node) (i : Nat) (acc : List (Except Err NHash)),
    (hgFrom g nodes i acc).take acc.length = acc
  | [], _, acc => by simp [hgFrom]
  | nd :: rest, i, acc => by
    simp only [hgFrom]
    have := hgFrom_take g rest (i + 1) (acc ++ [hgNode g acc i nd])
    have h2 : acc.length ≤ (acc ++ [hgNode g acc i nd]).length := by simp
    have e : (hgFrom g rest (i + 1) (acc ++ [hgNode g acc i nd])).take acc.length =
        ((hgFrom g rest (i + 1) (acc ++ [hgNode g acc i nd])).take (acc ++ [hgNode g acc i nd]).length).take acc.length := by
      rw [List.take_take, Nat.min_eq_left h2]
    rw [e, this]
    simp

/-- the `j`-th remaining node gets `denNode` of everything before it -/
theorem hgFrom_get (g : Graph) : ∀ (nodes : List Node) (i : Nat) (acc : List (Except Err NHash)) (j : Nat) (nd : Node),
    acc.length = i → nodes[j]? = some nd →
    (hgFrom g nodes i acc)[i + j]? = some (hgNode g ((hgFrom g nodes i acc).take (i + j)) (i + j) nd)
  | [], _, _, j, _, _, h => by simp at h
  | x :: rest, i, acc, j, nd, hi, h => by
    cases j with
    | zero =>
      simp only [List.getElem?_cons_zero, Option.some.injEq] at h
      subst h
      simp only [hgFrom, Nat.add_zero]
      have hp := hgFrom_prefix g rest (i + 1) (acc ++ [hgNode g acc i x]) i (by simp [hi])
      rw [hp]
      have ht := hgFrom_take g rest (i + 1) (acc ++ [hgNode g acc i x])
      have : (hgFrom g rest (i + 1) (acc ++ [hgNode g acc i x])).take i = acc := by
        have h2 : i ≤ (acc ++ [hgNode g acc i x]).length := by simp [hi]
        have e : (hgFrom g rest (i + 1) (acc ++ [hgNode g acc i x])).take i =
            ((hgFrom g rest (i + 1) (acc ++ [hgNode g acc i x])).take (acc ++ [hgNode g acc i x]).length).take i := by
          rw [List.take_take, Nat.min_eq_left h2]
        rw [e, ht]
        simp [← hi]
      rw [this]
      simp [← hi]
    | succ j =>
      simp only [List.getElem?_cons_succ] at h
      simp only [hgFrom]
      have := hgFrom_get g rest (i + 1) (acc ++ [hgNode g acc i x]) j nd (by simp [hi]) h
      have e : i + 1 + j = i + (j + 1) := by omega
      rw [e] at this
      exact this

/-- **Unfolding.**  The denotation of an existing node is `denNode` over the denotations of the earlier nodes. -/
theorem hg_eq (g : Graph) (n : Nat) (nd : Node) (h : g.nodes[n]? = some nd) :
    hg g n = hgNode g (g.hashGraphAll.take n) n nd := by
  have := hgFrom_get g g.nodes 0 [] n nd rfl h
  simp only [Nat.zero_add] at this
  simp only [hg, Graph.hashGraphAll, List.getD_eq_getElem?_getD, this, Option.getD_some]

/-- earlier nodes are seen through the prefix as they are -/
theorem hg_take_getD (g : Graph) (n p : Nat) (hp : p < n) :
    (g.hashGraphAll.take n).getD p (.error .internal) = hg g p := by
  simp only [hg, List.getD_eq_getElem?_getD, List.getElem?_take, hp, if_true]


end CM
