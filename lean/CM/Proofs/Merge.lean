/-
  CM.Proofs.Merge — what the fields of a merged container compute: the switch over the parts' own terms.
-/
import CM.Model.Merge
import CM.Proofs.BagShift
import CM.Proofs.CoreWF
import CM.Proofs.FactoryChain
namespace CM

/-- **Embedding a part into a bigger bag.**  `q` has the single input `i`; in `b` that node is fed by an identity edge from the input
`inp` of the same name, all edges of `q` are edges of `b`, and inside the region `R` (closed under the parents of `q`'s edges) `b` has no
other edges.  Then every node of the region computes in `b` what it computes in `q`. -/
theorem den_embed {q b : Bag} {i inp : BNode} (R : BNode → Prop)
    (hqi : q.inputs = [i]) (hbi : b.inputs = [inp]) (hname : inp.name = i.name)
    (hst : identityEdge inp i ∈ b.edges) (hsub : ∀ e ∈ q.edges, e ∈ b.edges)
    (hin : ∀ e ∈ b.edges, R e.out → e ∈ q.edges ∨ e = identityEdge inp i)
    (hcl : ∀ e ∈ q.edges, ∀ p ∈ e.ins, R p) (hninp : ¬ R inp) (hleaf : ∀ e ∈ q.edges, e.out ≠ i)
    {n : BNode} {t : BTerm} (h : BDen q n t) : R n → BDen b n t := by
  have hnb : ∀ m, R m → m ∉ b.inputs := by
    intro m hm hmem
    rw [hbi, List.mem_singleton] at hmem
    exact hninp (hmem ▸ hm)
  induction h with
  | @input n hi =>
    intro hR
    rw [hqi, List.mem_singleton] at hi
    subst hi
    have : BDen b inp (.inp inp.name) := .input (by rw [hbi]; exact List.mem_singleton.2 rfl)
    rw [hname] at this
    exact .ident (identityEdge inp n) (hnb n hR) hst rfl rfl rfl this
  | @missing n hni hno =>
    intro hR
    refine .missing (hnb n hR) ?_
    intro e he ho
    rcases hin e he (ho ▸ hR) with h1 | h1
    · exact hno e h1 ho
    · subst h1
      simp only [identityEdge] at ho
      exact hni (by rw [hqi, ← ho]; exact List.mem_singleton.2 rfl)
  | @ident n p t e hni he ho hk hi _ ih =>
    intro hR
    exact .ident e (hnb n hR) (hsub e he) ho hk hi (ih (hcl e he p (by rw [hi]; exact List.mem_singleton.2 rfl)))
  | @edge n ts e hni he ho hk hlen _ ih =>
    intro hR
    exact .edge e (hnb n hR) (hsub e he) ho hk hlen (fun p hp => ih p hp (hcl e he p.1 (List.of_mem_zip hp).1))

/-! ### the frozen parts occupy disjoint ranges of identities -/

/-- the range of identities of the `k`-th frozen part -/
def partRange (parts0 : List Bag) (base k : Nat) : Nat × Nat :=
  let off := base + ((parts0.take k).map (·.next)).sum
  (off, off + (parts0.getD k default).next)

theorem freezeParts_getElem? : ∀ (parts0 : List Bag) (base k : Nat),
    (freezeParts parts0 base)[k]? = (parts0[k]?).map fun p => p.shift (base + ((parts0.take k).map (·.next)).sum)
  | [], _, _ => by simp [freezeParts]
  | p :: ps, base, 0 => by simp [freezeParts]
  | p :: ps, base, k + 1 => by
    simp only [freezeParts, List.getElem?_cons_succ, List.take_succ_cons, List.map_cons, List.sum_cons]
    rw [freezeParts_getElem? ps (base + p.next) k]
    congr 2
    funext q
    congr 1
    omega

theorem partsNext_eq : ∀ (parts0 : List Bag) (base : Nat), partsNext parts0 base = base + (parts0.map (·.next)).sum
  | [], base => by simp [partsNext]
  | p :: ps, base => by
    simp only [partsNext, List.map_cons, List.sum_cons]
    rw [partsNext_eq ps]; omega

theorem sum_take_le (xs : List Nat) (k : Nat) : (xs.take k).sum ≤ xs.sum := by
  induction xs generalizing k with
  | nil => simp
  | cons x xs ih =>
    cases k with
    | zero => simp
    | succ k => simp only [List.take_succ_cons, List.sum_cons]; have := ih k; omega

theorem sum_take_succ_le (xs : List Nat) (k : Nat) (h : k < xs.length) : (xs.take k).sum + xs[k] ≤ xs.sum := by
  induction xs generalizing k with
  | nil => simp at h
  | cons x xs ih =>
    cases k with
    | zero => simp
    | succ k =>
      simp only [List.take_succ_cons, List.sum_cons, List.getElem_cons_succ]
      have := ih k (by simpa using h); omega

theorem sum_take_mono (xs : List Nat) {j k : Nat} (h : j < k) (hk : j < xs.length) : (xs.take j).sum + xs[j] ≤ (xs.take k).sum := by
  induction xs generalizing j k with
  | nil => simp at hk
  | cons x xs ih =>
    cases k with
    | zero => omega
    | succ k =>
      cases j with
      | zero => simp
      | succ j =>
        simp only [List.take_succ_cons, List.sum_cons, List.getElem_cons_succ]
        have := ih (j := j) (k := k) (by omega) (by simpa using hk); omega

end CM

namespace CM

def offOf (parts0 : List Bag) (k : Nat) : Nat := ((parts0.take k).map (·.next)).sum

theorem frozen_get (parts0 : List Bag) (k : Nat) (hk : k < parts0.length) :
    (freezeParts parts0 0)[k]? = some (parts0[k].shift (offOf parts0 k)) := by
  rw [freezeParts_getElem?]
  simp [offOf, hk]

theorem frozen_length (parts0 : List Bag) : ∀ base, (freezeParts parts0 base).length = parts0.length := by
  induction parts0 with
  | nil => intro; rfl
  | cons p ps ih => intro base; simp [freezeParts, ih]

theorem mem_frozen {parts0 : List Bag} {q : Bag} (h : q ∈ freezeParts parts0 0) :
    ∃ k, ∃ hk : k < parts0.length, q = parts0[k].shift (offOf parts0 k) := by
  obtain ⟨k, hk, rfl⟩ := List.getElem_of_mem h
  have hk' : k < parts0.length := by rwa [frozen_length] at hk
  refine ⟨k, hk', ?_⟩
  have := frozen_get parts0 k hk'
  rw [List.getElem?_eq_getElem hk] at this
  injection this

/-- the identities of the `k`-th frozen part lie in `[offOf k, offOf k + next_k)`, below those of later parts and below `base` -/
theorem frozen_range {parts0 : List Bag} (hw : ∀ p ∈ parts0, p.WF) {k : Nat} (hk : k < parts0.length) {n : BNode}
    (hn : n ∈ (parts0[k].shift (offOf parts0 k)).nodes3) :
    offOf parts0 k ≤ n.id ∧ n.id < offOf parts0 k + parts0[k].next := by
  have hwk := shift_wf (k := offOf parts0 k) (hw _ (List.getElem_mem hk))
  have hlt := hwk.ids n hn
  simp only [shift_next] at hlt
  refine ⟨?_, by omega⟩
  -- every node of a shifted bag is a shifted node
  simp only [Bag.nodes3, List.mem_append] at hn
  have hge : ∀ m : BNode, offOf parts0 k ≤ (m.shift (offOf parts0 k)).id := fun m => by simp [BNode.shift]
  rcases hn with (hn | hn) | hn
  · simp only [shift_inputs, List.mem_map] at hn; obtain ⟨m, _, rfl⟩ := hn; exact hge m
  · simp only [shift_outputs, List.mem_map] at hn; obtain ⟨m, _, rfl⟩ := hn; exact hge m
  · obtain ⟨e, he, hne⟩ := mem_edgeNodes.1 hn
    simp only [shift_edges, List.mem_map] at he
    obtain ⟨e0, _, rfl⟩ := he
    rcases hne with rfl | hne
    · exact hge e0.out
    · simp only [BEdge.shift, List.mem_map] at hne; obtain ⟨m, _, rfl⟩ := hne; exact hge m

theorem off_succ_le (parts0 : List Bag) {j k : Nat} (h : j < k) (hj : j < parts0.length) :
    offOf parts0 j + parts0[j].next ≤ offOf parts0 k := by
  have := sum_take_mono (parts0.map (·.next)) h (by simpa using hj)
  simpa [offOf, List.map_take] using this

theorem off_le_base (parts0 : List Bag) {k : Nat} (hk : k < parts0.length) :
    offOf parts0 k + parts0[k].next ≤ partsNext parts0 0 := by
  rw [partsNext_eq]
  have := sum_take_succ_le (parts0.map (·.next)) k (by simpa using hk)
  simpa [offOf, List.map_take] using this

end CM

namespace CM

theorem mem_interNames (x : String) : ∀ (L : List (List String)), L ≠ [] → (x ∈ interNames L ↔ ∀ l ∈ L, x ∈ l)
  | [], h => absurd rfl h
  | [xs], _ => by simp [interNames]
  | xs :: y :: rest, _ => by
    have ih := mem_interNames x (y :: rest) (by simp)
    simp only [interNames, List.mem_filter, List.contains_eq_mem, decide_eq_true_eq, ih, List.mem_cons, forall_eq_or_imp]

theorem filterMap_length_all_some {α β : Type} (f : α → Option β) : ∀ (L : List α), (∀ a ∈ L, (f a).isSome = true) →
    (L.filterMap f).length = L.length
  | [], _ => rfl
  | a :: L, h => by
    obtain ⟨y, hy⟩ := Option.isSome_iff_exists.1 (h a (by simp))
    simp only [List.filterMap_cons, hy, List.length_cons]
    rw [filterMap_length_all_some f L (fun a' ha' => h a' (List.mem_cons_of_mem _ ha'))]

theorem filterMap_getElem? {α β : Type} (f : α → Option β) : ∀ (L : List α), (∀ a ∈ L, (f a).isSome = true) →
    ∀ k : Nat, (L.filterMap f)[k]? = (L[k]?).bind f
  | [], _, k => by simp
  | a :: L, h, k => by
    have ha := h a (by simp)
    obtain ⟨y, hy⟩ := Option.isSome_iff_exists.1 ha
    simp only [List.filterMap_cons, hy]
    cases k with
    | zero => simp [hy]
    | succ k =>
      simp only [List.getElem?_cons_succ]
      exact filterMap_getElem? f L (fun a' ha' => h a' (List.mem_cons_of_mem _ ha')) k

end CM

namespace CM

/-- what a successful `mergeRaw` consists of -/
theorem mergeRaw_ok {table : List (Val × Nat)} {parts0 : List Bag} {keysName : String} {raw : RawBag}
    (h : mergeRaw table parts0 keysName = .ok raw) :
    ∃ x0 : String,
      (∀ p ∈ freezeParts parts0 0, ∃ i, p.inputs = [i] ∧ i.name = x0) ∧ freezeParts parts0 0 ≠ [] ∧
      raw.inputs = [⟨partsNext parts0 0, x0⟩] ∧ partsNext parts0 0 ≤ raw.next ∧
      (∀ p ∈ freezeParts parts0 0, ∀ e ∈ p.edges, e ∈ raw.edges) ∧
      (∀ p ∈ freezeParts parts0 0, ∀ i ∈ p.inputs, identityEdge ⟨partsNext parts0 0, x0⟩ i ∈ raw.edges) ∧
      (∀ e ∈ raw.edges, (∃ p ∈ freezeParts parts0 0, e ∈ p.edges) ∨
        (∃ p ∈ freezeParts parts0 0, ∃ i ∈ p.inputs, e = identityEdge ⟨partsNext parts0 0, x0⟩ i) ∨ partsNext parts0 0 < e.out.id) ∧
      (∀ x, x ≠ keysName → (∀ p ∈ freezeParts parts0 0, x ∈ names p.outputs) →
        ∃ o : BNode, o ∈ raw.outputs ∧ o.name = x ∧ partsNext parts0 0 < o.id ∧
          ({ edge := .switch table, ins := ⟨partsNext parts0 0, x0⟩ :: (freezeParts parts0 0).filterMap (fun p => byName p.outputs x),
             out := o } : BEdge) ∈ raw.edges) := by
  unfold mergeRaw at h
  simp only at h
  split at h
  · cases h
  · rename_i hone
    split at h
    · cases h
    · rename_i x0 rest hin
      split at h
      · cases h
      · rename_i hsame
        injection h with h
        subst h
        have hall : ∀ i ∈ (freezeParts parts0 0).flatMap (·.inputs), i.name = x0 := by
          intro i hi
          have hmem : i.name ∈ ((freezeParts parts0 0).flatMap (·.inputs)).map (·.name) := List.mem_map.2 ⟨i, hi, rfl⟩
          simp only [List.any_eq_true, bne_iff_ne, ne_eq, not_exists, not_and, Decidable.not_not] at hsame
          exact hsame _ hmem
        have hne : freezeParts parts0 0 ≠ [] := by
          intro hnil
          simp [hnil] at hin
        refine ⟨x0, ?_, hne, rfl, by simp only; omega, ?_, ?_, ?_, ?_⟩
        · intro p hp
          simp only [List.any_eq_true, bne_iff_ne, ne_eq, not_exists, not_and, Decidable.not_not] at hone
          have hlen := hone p hp
          match hpi : p.inputs, hlen with
          | [i], _ =>
            exact ⟨i, rfl, hall i (List.mem_flatMap.2 ⟨p, hp, by rw [hpi]; exact List.mem_singleton.2 rfl⟩)⟩
        · intro p hp e he
          simp only [List.mem_append, List.mem_flatMap]
          exact Or.inl (Or.inl (Or.inl ⟨p, hp, he⟩))
        · intro p hp i hi
          simp only [List.mem_append, List.mem_map, List.mem_flatMap]
          exact Or.inl (Or.inl (Or.inr ⟨i, ⟨p, hp, hi⟩, rfl⟩))
        · intro e he
          simp only [List.mem_append, List.mem_map, List.mem_flatMap, List.mem_singleton, List.mem_zipIdx_iff_getElem?,
            Prod.exists] at he
          rcases he with ((⟨p, hp, he⟩ | ⟨i, ⟨p, hp, hi⟩, rfl⟩) | ⟨o, ⟨n, j, _, rfl⟩, rfl⟩) | rfl
          · exact Or.inl ⟨p, hp, he⟩
          · exact Or.inr (Or.inl ⟨p, hp, i, hi, rfl⟩)
          · refine Or.inr (Or.inr ?_); simp only; omega
          · refine Or.inr (Or.inr ?_); simp only; omega
        · intro x hx hallp
          have hxc : x ∈ (interNames ((freezeParts parts0 0).map fun p => names p.outputs)).filter (· != keysName) := by
            simp only [List.mem_filter, bne_iff_ne, ne_eq, hx, not_false_eq_true, and_true]
            rw [mem_interNames x _ (by simpa using hne)]
            intro l hl
            obtain ⟨p, hp, rfl⟩ := List.mem_map.1 hl
            exact hallp p hp
          obtain ⟨j, hj, hxj⟩ := List.getElem_of_mem hxc
          refine ⟨⟨partsNext parts0 0 + 1 + j, x⟩, ?_, rfl, by simp only; omega, ?_⟩
          · simp only [List.mem_append, List.mem_map, List.mem_zipIdx_iff_getElem?, Prod.exists]
            exact Or.inl ⟨x, j, by simp [hj, hxj], rfl⟩
          · simp only [List.mem_append, List.mem_map, List.mem_zipIdx_iff_getElem?, Prod.exists]
            exact Or.inl (Or.inr ⟨⟨partsNext parts0 0 + 1 + j, x⟩, ⟨x, j, by simp [hj, hxj], rfl⟩, rfl⟩)

end CM

namespace CM

/-- **What a field of a merged container computes**: for a name `x` (other than the keys) that every part exposes, with the `k`-th part
computing `ts[k]` under it, the merged container computes under `x` the switch over the key input and exactly those terms, in the order
of the parts - for any number of well-formed parts with one input each. -/
theorem merge_field {table : List (Val × Nat)} {parts0 : List Bag} {keysName : String} {b : Bag}
    (h : mergeBags table parts0 keysName = .ok b) (hw : ∀ p ∈ parts0, p.WF)
    (x : String) (hx : x ≠ keysName) (outs0 : List BNode) (ts : List BTerm)
    (hlo : outs0.length = parts0.length) (hlt : ts.length = parts0.length)
    (hf : ∀ k (hk : k < parts0.length), outs0[k]'(hlo ▸ hk) ∈ parts0[k].outputs ∧ (outs0[k]'(hlo ▸ hk)).name = x ∧
      BDen parts0[k] (outs0[k]'(hlo ▸ hk)) (ts[k]'(hlt ▸ hk))) :
    ∃ inName, b.Field x (.node (.switch table) (.inp inName :: ts)) := by
  unfold mergeBags at h
  split at h
  · cases h
  · rename_i raw hraw
    split at h
    · cases h
    · rename_i b' hmk
      injection h with h; subst h
      obtain ⟨x0, hone, hne, hinp, hnext, hsubE, hstitch, hedges, hswitch⟩ := mergeRaw_ok hraw
      obtain ⟨hbin, hbed⟩ := mkBag_inputs_edges hmk
      have hbout := mkBag_outputs hmk
      obtain ⟨hcore, _⟩ := mkBag_ok hmk
      let base := partsNext parts0 0
      let inp : BNode := ⟨base, x0⟩
      -- every frozen part exposes `x`
      have hallp : ∀ p ∈ freezeParts parts0 0, x ∈ names p.outputs := by
        intro p hp
        obtain ⟨k, hk, rfl⟩ := mem_frozen hp
        obtain ⟨ho, hn, _⟩ := hf k hk
        simp only [shift_outputs, names, List.map_map, List.mem_map, Function.comp]
        exact ⟨_, ho, by simpa [BNode.shift] using hn⟩
      obtain ⟨o, hoo, hon, hoid, hsw⟩ := hswitch x hx hallp
      refine ⟨x0, o, hbout o hoo, hon, ?_⟩
      have hbi : b'.inputs = [inp] := hbin.trans hinp
      have hob : o ∉ b'.inputs := by
        rw [hbi, List.mem_singleton]
        intro he
        have : o.id = base := by rw [he]
        omega
      -- the branches of the switch edge are the shifted outputs of the parts
      have hsome : ∀ p ∈ freezeParts parts0 0, (byName p.outputs x).isSome = true := by
        intro p hp
        obtain ⟨m, hm, hmx⟩ := List.mem_map.1 (hallp p hp)
        unfold byName
        rw [Option.isSome_iff_exists]
        cases hfd : p.outputs.find? (·.name == x) with
        | none => have := List.find?_eq_none.1 hfd m hm; simp [hmx] at this
        | some y => exact ⟨y, rfl⟩
      have hbranch : ∀ k (hk : k < parts0.length),
          ((freezeParts parts0 0).filterMap (fun p => byName p.outputs x))[k]? =
            some ((outs0[k]'(hlo ▸ hk)).shift (offOf parts0 k)) := by
        intro k hk
        rw [filterMap_getElem? _ _ hsome k, frozen_get parts0 k hk]
        simp only [Option.bind_some]
        obtain ⟨ho, hn, _⟩ := hf k hk
        have hws := shift_wf (k := offOf parts0 k) (hw _ (List.getElem_mem hk))
        have hmem : (outs0[k]'(hlo ▸ hk)).shift (offOf parts0 k) ∈ (parts0[k].shift (offOf parts0 k)).outputs := by
          simp only [shift_outputs, List.mem_map]; exact ⟨_, ho, rfl⟩
        have := byName_of_mem hws.outNames hmem
        simpa [BNode.shift, hn] using this
      have hblen : ((freezeParts parts0 0).filterMap (fun p => byName p.outputs x)).length = parts0.length := by
        rw [filterMap_length_all_some _ _ hsome, frozen_length]
      refine .edge _ hob (hbed _ hsw) rfl (by simp) (by simp [hblen, hlt]) ?_
      intro q hq
      obtain ⟨j, hj, hqj⟩ := List.mem_iff_getElem.1 hq
      cases j with
      | zero =>
        simp only [List.zip_cons_cons, List.getElem_cons_zero] at hqj
        subst hqj
        exact .input (by rw [hbi]; exact List.mem_singleton.2 rfl)
      | succ k =>
        simp only [List.zip_cons_cons, List.getElem_cons_succ, List.getElem_zip] at hqj
        have hk : k < parts0.length := by
          simp only [List.zip_cons_cons, List.length_cons, List.length_zip, hblen, hlt] at hj; omega
        have hqeq : q = ((outs0[k]'(hlo ▸ hk)).shift (offOf parts0 k), ts[k]'(hlt ▸ hk)) := by
          rw [← hqj]
          congr 1
          have := hbranch k hk
          rw [List.getElem?_eq_getElem (by rw [hblen]; exact hk)] at this
          injection this
        subst hqeq
        -- embed the k-th frozen part
        obtain ⟨ho, _, hd⟩ := hf k hk
        have hfk := frozen_get parts0 k hk
        have hpk : parts0[k].shift (offOf parts0 k) ∈ freezeParts parts0 0 := List.mem_of_getElem? hfk
        obtain ⟨i, hqi, hiname⟩ := hone _ hpk
        have hwk := shift_wf (k := offOf parts0 k) (hw _ (List.getElem_mem hk))
        let R : BNode → Prop := fun n => offOf parts0 k ≤ n.id ∧ n.id < offOf parts0 k + parts0[k].next
        have hrange := fun n hn => frozen_range hw hk (n := n) hn
        have hbase := off_le_base parts0 hk
        refine den_embed (q := parts0[k].shift (offOf parts0 k)) (inp := inp) (i := i) R hqi hbi hiname.symm
          (hbed _ (hstitch _ hpk i (by rw [hqi]; exact List.mem_singleton.2 rfl)))
          (fun e he => hbed e (hsubE _ hpk e he)) ?_ ?_ ?_ ?_ (den_shift hd) ?_
        · -- inside the range there is nothing but the part's own edges and its stitch
          intro e he hR
          rw [hcore] at he
          simp only [RawBag.core, addIdentities_eq, List.mem_append] at he
          rcases he with he | he
          · rcases hedges e he with ⟨p, hp, hep⟩ | ⟨p, hp, i', hi', rfl⟩ | hgt
            · obtain ⟨j, hj, rfl⟩ := mem_frozen hp
              by_cases hjk : j = k
              · subst hjk; exact Or.inl hep
              · exfalso
                have hr := frozen_range hw hj (n := e.out) (nodes3_eout hep)
                rcases Nat.lt_or_gt_of_ne hjk with hlt' | hgt'
                · have := off_succ_le parts0 hlt' hj; simp only [R] at hR; omega
                · have := off_succ_le parts0 hgt' hk; simp only [R] at hR; omega
            · obtain ⟨j, hj, rfl⟩ := mem_frozen hp
              by_cases hjk : j = k
              · subst hjk
                rw [hqi, List.mem_singleton] at hi'
                subst hi'
                exact Or.inr rfl
              · exfalso
                have hr := frozen_range hw hj (n := i') (nodes3_in hi')
                simp only [identityEdge, R] at hR
                rcases Nat.lt_or_gt_of_ne hjk with hlt' | hgt'
                · have := off_succ_le parts0 hlt' hj; omega
                · have := off_succ_le parts0 hgt' hk; omega
            · exfalso; simp only [R] at hR; omega
          · -- the clones rule 3 may add lie above everything
            exfalso
            obtain ⟨_, m, _, c, hc, _, hio⟩ := (cloneEdges_spec false raw.rule3 raw.next).2.2.2.2.1 e he
            simp only [Bool.false_eq_true, if_false] at hio
            have hcr := (cloneEdges_spec false raw.rule3 raw.next).2.2.2.1 c hc
            rw [hio.2] at hR
            simp only [R] at hR
            omega
        · intro e he p hp
          exact hrange p (nodes3_ein he hp)
        · simp only [R, inp]; omega
        · intro e he
          exact hwk.inLeaf i (by rw [hqi]; exact List.mem_singleton.2 rfl) e he
        · exact hrange _ (nodes3_out (by simp only [shift_outputs, List.mem_map]; exact ⟨_, ho, rfl⟩))

end CM
