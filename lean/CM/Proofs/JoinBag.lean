/-
  CM.Proofs.JoinBag — lemmas for the container `Join` builds (CM.Model.JoinBag).
-/
import CM.Model.JoinBag
import CM.Proofs.FactoryChain
namespace CM

theorem byName_exists {ns : List BNode} {x : String} (h : x ∈ names ns) : ∃ a, byName ns x = some a := by
  obtain ⟨n, hn, rfl⟩ := List.mem_map.1 h
  unfold byName
  cases hf : ns.find? (fun m => m.name == n.name) with
  | some a => exact ⟨a, rfl⟩
  | none =>
    have := List.find?_eq_none.1 hf n hn
    simp at this

theorem zip_range_mem {α : Type} (xs : List α) (x : α) (hx : x ∈ xs) : ∃ i, (i, x) ∈ (List.range xs.length).zip xs := by
  obtain ⟨i, hi, rfl⟩ := List.getElem_of_mem hx
  refine ⟨i, List.mem_iff_getElem.2 ⟨i, by simp [hi], ?_⟩⟩
  simp

end CM
