/-
  CM.Proofs.BagSem — what a node of a bag computes (`BDen`), as a relation on the node-level model `CM.Model.Bag`,
  and the frame lemma: a region of a bag that is closed under predecessors computes the same in every bag that
  agrees with it on that region.
-/
import CM.Model.Bag
namespace CM

/-- What a node computes: a term over the names of the bag's inputs.  A leaf that is no input is `missing`
(an unreachable input, by name). -/
inductive BTerm where
  | inp (name : String)
  | missing (name : String)
  | node (e : EdgeK) (args : List BTerm)
  deriving Inhabited

/-- `BDen b n t`: the node `n` of the bag `b` computes `t`.  Identity edges are transparent (they forward value and
hash of their parent: `IdentityEdge`).  The parents of an edge are paired with their terms by `zip`. -/
inductive BDen (b : Bag) : BNode → BTerm → Prop
  | input {n} : n ∈ b.inputs → BDen b n (.inp n.name)
  | missing {n} : n ∉ b.inputs → (∀ e ∈ b.edges, e.out ≠ n) → BDen b n (.missing n.name)
  | ident {n p t} (e : BEdge) : n ∉ b.inputs → e ∈ b.edges → e.out = n → e.edge = .identity → e.ins = [p] →
      BDen b p t → BDen b n t
  | edge {n ts} (e : BEdge) : n ∉ b.inputs → e ∈ b.edges → e.out = n → e.edge ≠ .identity →
      e.ins.length = ts.length → (∀ p ∈ e.ins.zip ts, BDen b p.1 p.2) → BDen b n (.node e.edge ts)

/-- rule 2 of `normalize_bag` as a proposition -/
def SingleIncoming (es : List BEdge) : Prop :=
  ∀ e₁ ∈ es, ∀ e₂ ∈ es, e₁.out = e₂.out → e₁ = e₂

/-- rule 2 of `normalize_bag`, as lists: no two edges (positions of the list) with the same output -/
def OutsNodup (es : List BEdge) : Prop := (es.map (·.out)).Nodup

theorem outsNodup_single {es : List BEdge} (h : OutsNodup es) : SingleIncoming es := by
  induction es with
  | nil => intro _ h; cases h
  | cons e es ih =>
    simp only [OutsNodup, List.map_cons, List.nodup_cons, List.mem_map, not_exists, not_and] at h
    intro e₁ h₁ e₂ h₂ ho
    simp only [List.mem_cons] at h₁ h₂
    rcases h₁ with rfl | h₁ <;> rcases h₂ with rfl | h₂
    · rfl
    · exact absurd ho.symm (h.1 e₂ h₂)
    · exact absurd ho (h.1 e₁ h₁)
    · exact ih h.2 e₁ h₁ e₂ h₂ ho

/-! ### Determinism: with single incoming edges a node computes at most one term -/

theorem zip_unique {α β : Type} (R : α → β → Prop) :
    ∀ (ns : List α) (ts₁ ts₂ : List β), ns.length = ts₁.length → ns.length = ts₂.length →
      (∀ p ∈ ns.zip ts₁, ∀ t', R p.1 t' → p.2 = t') → (∀ p ∈ ns.zip ts₂, R p.1 p.2) → ts₁ = ts₂
  | [], [], [], _, _, _, _ => rfl
  | [], _ :: _, _, h, _, _, _ => by simp at h
  | [], [], _ :: _, _, h, _, _ => by simp at h
  | _ :: _, [], _, h, _, _, _ => by simp at h
  | _ :: _, _ :: _, [], _, h, _, _ => by simp at h
  | n :: ns, t₁ :: ts₁, t₂ :: ts₂, h₁, h₂, hu, hr => by
    have hd : t₁ = t₂ := hu (n, t₁) (by simp) t₂ (hr (n, t₂) (by simp))
    have tl := zip_unique R ns ts₁ ts₂ (by simpa using h₁) (by simpa using h₂)
      (fun p hp => hu p (by simp [List.zip_cons_cons]; exact Or.inr hp))
      (fun p hp => hr p (by simp [List.zip_cons_cons]; exact Or.inr hp))
    rw [hd, tl]

theorem BDen.det {b : Bag} (hs : SingleIncoming b.edges) {n : BNode} {t₁ t₂ : BTerm}
    (h₁ : BDen b n t₁) (h₂ : BDen b n t₂) : t₁ = t₂ := by
  induction h₁ generalizing t₂ with
  | input hi =>
    cases h₂ with
    | input _ => rfl
    | missing hn _ => exact absurd hi hn
    | ident e hn _ _ _ _ _ => exact absurd hi hn
    | edge e hn _ _ _ _ _ => exact absurd hi hn
  | missing hn hno =>
    cases h₂ with
    | input hi => exact absurd hi hn
    | missing _ _ => rfl
    | ident e _ he ho _ _ _ => exact absurd ho (hno e he)
    | edge e _ he ho _ _ _ => exact absurd ho (hno e he)
  | ident e hn he ho hk hi _ ih =>
    cases h₂ with
    | input hi' => exact absurd hi' hn
    | missing _ hno => exact absurd ho (hno e he)
    | ident e' _ he' ho' _ hi' hp' =>
      have : e = e' := hs e he e' he' (ho.trans ho'.symm)
      subst this
      rw [hi] at hi'
      cases hi'
      exact ih hp'
    | edge e' _ he' ho' hk' _ _ =>
      have : e = e' := hs e he e' he' (ho.trans ho'.symm)
      subst this
      exact absurd hk hk'
  | edge e hn he ho hk hlen _ ih =>
    cases h₂ with
    | input hi' => exact absurd hi' hn
    | missing _ hno => exact absurd ho (hno e he)
    | ident e' _ he' ho' hk' _ _ =>
      have : e = e' := hs e he e' he' (ho.trans ho'.symm)
      subst this
      exact absurd hk' hk
    | edge e' _ he' ho' _ hlen' hl' =>
      have : e = e' := hs e he e' he' (ho.trans ho'.symm)
      subst this
      rw [zip_unique (BDen b) e.ins _ _ hlen hlen' (fun p hp t' ht' => ih p hp ht') hl']

/-! ### The frame lemma -/

/-- `b'` agrees with `b` on the region `S`: the same inputs and the same incoming edges for the nodes of `S`,
and `S` is closed under the predecessors it has in `b'`. -/
structure AgreeOn (S : BNode → Prop) (b b' : Bag) : Prop where
  inputs : ∀ n, S n → (n ∈ b'.inputs ↔ n ∈ b.inputs)
  edges : ∀ e, S e.out → (e ∈ b'.edges ↔ e ∈ b.edges)
  closed : ∀ e ∈ b'.edges, S e.out → ∀ i ∈ e.ins, S i

theorem BDen.frame_to {S : BNode → Prop} {b b' : Bag} (ha : AgreeOn S b b') {n : BNode} {t : BTerm}
    (hn : S n) (h : BDen b' n t) : BDen b n t := by
  induction h with
  | @input n hi => exact .input ((ha.inputs n hn).1 hi)
  | @missing n hni hno =>
    refine .missing (fun h => hni ((ha.inputs n hn).2 h)) ?_
    intro e he ho
    exact hno e ((ha.edges e (ho ▸ hn)).2 he) ho
  | @ident n p t e hni he ho hk hi _ ih =>
    have hS : S e.out := ho ▸ hn
    have hpS := ha.closed e he hS
    exact .ident e (fun h => hni ((ha.inputs n hn).2 h)) ((ha.edges e hS).1 he) ho hk hi
      (ih (hpS _ (by rw [hi]; exact List.mem_singleton.2 rfl)))
  | @edge n ts e hni he ho hk hlen _ ih =>
    have hS : S e.out := ho ▸ hn
    exact .edge e (fun h => hni ((ha.inputs n hn).2 h)) ((ha.edges e hS).1 he) ho hk hlen
      (fun p hp => ih p hp (ha.closed e he hS p.1 (List.of_mem_zip hp).1))

/-- the region must also be closed under the predecessors it has in `b` for the converse -/
theorem AgreeOn.symm {S : BNode → Prop} {b b' : Bag} (ha : AgreeOn S b b') : AgreeOn S b' b where
  inputs n hn := (ha.inputs n hn).symm
  edges e he := (ha.edges e he).symm
  closed e he hS := ha.closed e ((ha.edges e hS).2 he) hS

/-- **Frame**: on a region on which two bags agree, every node computes the same. -/
theorem BDen.frame {S : BNode → Prop} {b b' : Bag} (ha : AgreeOn S b b') {n : BNode} (hn : S n) (t : BTerm) :
    BDen b' n t ↔ BDen b n t :=
  ⟨BDen.frame_to ha hn, BDen.frame_to ha.symm hn⟩

end CM
