/-
  CM.Proofs.Deps — what a generator asks of other generators in the cache-free evaluation, and the resulting notion
  of *need*: the generators (hash / value of a node) that evaluating the requested output demands.
-/
import CM.Proofs.DenLemmas
import CM.Proofs.Sound
namespace CM

/-- a request to another generator: the hash / the value of the `i`-th parent, or the node's own hash -/
inductive Dep where
  | ph (i : Nat)
  | pv (i : Nat)
  | cur
  deriving Repr, DecidableEq

mutual
  def reqDeps : Req → List Dep
    | .parentHash i => [.ph i]
    | .parentValue i => [.pv i]
    | .currentHash => [.cur]
    | .payload => [.cur]
    | .await rs => reqsDeps rs
    | .call _ _ _ _ => []
  def reqsDeps : List Req → List Dep
    | [] => []
    | r :: rs => reqDeps r ++ reqsDeps rs
end

/-- the requests a program issues when every answer is the denotation's and every cache lookup misses -/
def progDeps (c : Ctx) : Prog → List Dep
  | .ret _ => []
  | .raise _ => []
  | .req r k => reqDeps r ++ (match interpReq c r with | .ok x => progDeps c (k x) | .error _ => [])
  | .eff (.get _ _) k => progDeps c (k none)
  | .eff (.set _ _ _) k => progDeps c (k none)

def depTarget (g : Graph) (n : Nat) : Dep → Option (Bool × Nat)
  | .ph i => (g.parents n)[i]?.map fun p => (true, p)
  | .pv i => (g.parents n)[i]?.map fun p => (false, p)
  | .cur => some (true, n)

def genProg (g : Graph) (n : Nat) (e : EdgeK) (hp : Bool) : Prog :=
  if hp then e.hashProg (g.parents n).length else e.evalProg (g.parents n).length

/-- `Need root hp n`: the generator (`hp`: hash, else value) of node `n` is demanded by the cache-free evaluation of
the generator `root` -/
inductive Need (g : Graph) (d : DenCfg) (root : Bool × Nat) : Bool → Nat → Prop
  | root : Need g d root root.1 root.2
  | step (hp : Bool) (n : Nat) (e : EdgeK) (q : Dep) (hp' : Bool) (n' : Nat) :
      Need g d root hp n → (g.node n).edge = some e → q ∈ progDeps (ctxOf g d n) (genProg g n e hp) →
      depTarget g n q = some (hp', n') → Need g d root hp' n'

theorem reqsDeps_append : ∀ (xs ys : List Req), reqsDeps (xs ++ ys) = reqsDeps xs ++ reqsDeps ys
  | [], ys => by simp [reqsDeps]
  | x :: xs, ys => by simp [reqsDeps, reqsDeps_append xs ys]

theorem mem_reqsDeps_reverse (rs : List Req) (q : Dep) : q ∈ reqsDeps rs.reverse ↔ q ∈ reqsDeps rs := by
  induction rs with
  | nil => simp
  | cons r rs ih =>
    simp only [List.reverse_cons, reqsDeps_append, reqsDeps, List.append_nil, List.mem_append, ih]
    exact Or.comm

end CM
