/-
  CM.Proofs.BagGlue — the gluing theorem: what the nodes of the right bag compute in the connected bag.
-/
import CM.Proofs.BagConnect
namespace CM

/-- What a term of the right bag becomes once its inputs are fed by the left bag `l`: an input name is replaced by
what the left bag computes under that name, stays an input if the left bag passes it on from further upstream
(virtual name), and is unreachable otherwise. -/
inductive Glue (l : Bag) : BTerm → BTerm → Prop
  | fed {x o t} : o ∈ l.outputs → o.name = x → BDen l o t → Glue l (.inp x) t
  | virt {x} : x ∉ names l.outputs → l.virt.mem x = true → Glue l (.inp x) (.inp x)
  | cut {x} : x ∉ names l.outputs → l.virt.mem x = false → Glue l (.inp x) (.missing x)
  | missing {x} : Glue l (.missing x) (.missing x)
  | node {e ts ts'} : ts.length = ts'.length → (∀ p ∈ ts.zip ts', Glue l p.1 p.2) →
      Glue l (.node e ts) (.node e ts')

theorem zip_choice {α β γ : Type} (P : α → β → Prop) (Q : β → γ → Prop) :
    ∀ (ns : List α) (ts : List γ), ns.length = ts.length →
      (∀ p ∈ ns.zip ts, ∃ t0, P p.1 t0 ∧ Q t0 p.2) →
      ∃ ts0 : List β, ns.length = ts0.length ∧ (∀ p ∈ ns.zip ts0, P p.1 p.2) ∧ (∀ q ∈ ts0.zip ts, Q q.1 q.2)
  | [], [], _, _ => ⟨[], rfl, by simp, by simp⟩
  | [], _ :: _, h, _ => by simp at h
  | _ :: _, [], h, _ => by simp at h
  | n :: ns, t :: ts, h, hp => by
    obtain ⟨t0, hP, hQ⟩ := hp (n, t) (by simp)
    obtain ⟨ts0, hl, h1, h2⟩ := zip_choice P Q ns ts (by simpa using h)
      (fun p hp' => hp p (by simp [List.zip_cons_cons]; exact Or.inr hp'))
    refine ⟨t0 :: ts0, by simp [hl], ?_, ?_⟩
    · intro p hp'
      simp only [List.zip_cons_cons, List.mem_cons] at hp'
      rcases hp' with rfl | hp'
      · exact hP
      · exact h1 p hp'
    · intro q hq
      simp only [List.zip_cons_cons, List.mem_cons] at hq
      rcases hq with rfl | hq
      · exact hQ
      · exact h2 q hq

theorem zip_mid {α β γ : Type} :
    ∀ (ns : List α) (ts0 : List β) (ts : List γ), ns.length = ts0.length → ts0.length = ts.length →
      ∀ q ∈ ns.zip ts, ∃ t0, (q.1, t0) ∈ ns.zip ts0 ∧ (t0, q.2) ∈ ts0.zip ts
  | [], _, _, _, _, q, hq => by simp at hq
  | _ :: _, [], _, h, _, _, _ => by simp at h
  | _ :: _, _ :: _, [], _, h, _, _ => by simp at h
  | n :: ns, t0 :: ts0, t :: ts, h1, h2, q, hq => by
    simp only [List.zip_cons_cons, List.mem_cons] at hq
    rcases hq with rfl | hq
    · exact ⟨t0, by simp, by simp⟩
    · obtain ⟨u, hu1, hu2⟩ := zip_mid ns ts0 ts (by simpa using h1) (by simpa using h2) q hq
      exact ⟨u, by simp [List.zip_cons_cons]; exact Or.inr hu1, by simp [List.zip_cons_cons]; exact Or.inr hu2⟩


section
variable {l r : Bag}

def InR (l r : Bag) (n : BNode) : Prop := l.next ≤ n.id ∧ n.id < r.next

theorem not_input_of_inR (h : Sep l r) {n : BNode} (hn : InR l r n) : n ∉ (connected l r).inputs := by
  simp only [connected_inputs, List.mem_append]
  rintro (h1 | h1)
  · have := h.l_id (nodes3_in h1); have := hn.1; omega
  · have := (fresh_lv h1).1; have := hn.2; omega

/-- an edge of the connected bag into the right bag's range: an edge of the right bag, a stitch from a left output,
or the identity from a fresh input (left virtual) -/
theorem edge_into_right (h : Sep l r) {e : BEdge} (he : e ∈ (connected l r).edges) (ho : InR l r e.out) :
    e ∈ r.edges ∨ e ∈ commonEdges l r ∨ e ∈ (lvPart l r).2.1 := by
  rcases mem_connected_edges.1 he with h1 | h1 | h1 | h1 | h1 | h1
  · have := h.l_id (nodes3_eout h1); have := ho.1; omega
  · exact Or.inl h1
  · exact Or.inr (Or.inl h1)
  · exact Or.inr (Or.inr h1)
  · obtain ⟨_, n, _, c, hc, _, _, hout⟩ := mem_rvE h1
    have := fresh_rv hc; have := ho.2; rw [hout] at this; omega
  · obtain ⟨_, n, _, c, hc, _, _, hout⟩ := mem_r3E h1
    have := fresh_r3 hc; have := ho.2; rw [hout] at this; omega

theorem common_mem (h : Sep l r) {o i : BNode} (ho : o ∈ l.outputs) (hi : i ∈ r.inputs) (hn : i.name = o.name) :
    identityEdge o i ∈ commonEdges l r := by
  simp only [commonEdges, List.mem_filterMap, Option.map_eq_some_iff]
  refine ⟨o, ho, i, ?_, rfl⟩
  rw [← hn]
  exact byName_of_mem h.wr.inNames hi

theorem lv_edge_exists {n : BNode} (hn : n ∈ r.inputs) (hv : l.virt.mem n.name = true) :
    ∃ c ∈ (lvPart l r).1, c.name = n.name ∧ identityEdge c n ∈ (lvPart l r).2.1 := by
  have := (cloneEdges_spec true (lvNodes l r) r.next).2.2.2.2.2 n (mem_lvNodes.2 ⟨hn, hv⟩)
  simpa [lvPart] using this

theorem den_input_inv {b : Bag} {n : BNode} {t : BTerm} (hi : n ∈ b.inputs) (h : BDen b n t) : t = .inp n.name := by
  cases h with
  | input _ => rfl
  | missing hn _ => exact absurd hi hn
  | ident e hn _ _ _ _ _ => exact absurd hi hn
  | edge e hn _ _ _ _ _ => exact absurd hi hn

theorem name_mem_names {ns : List BNode} {n : BNode} (h : n ∈ ns) : n.name ∈ names ns := by
  simp only [names, List.mem_map]; exact ⟨n, h, rfl⟩

theorem of_name_mem_names {ns : List BNode} {x : String} (h : x ∈ names ns) : ∃ n ∈ ns, n.name = x := by
  simpa [names] using h

/-- **Gluing, from the connected bag to its parts**: what a node of the right bag computes in the connected bag is
what it computes in the right bag, with the inputs fed by the left bag. -/
theorem den_right_to (h : Sep l r) {n : BNode} {t : BTerm} (hc : BDen (connected l r) n t) (hn : InR l r n) :
    ∃ t0, BDen r n t0 ∧ Glue l t0 t := by
  induction hc with
  | @input n hi => exact absurd hi (not_input_of_inR h hn)
  | @missing n hni hno =>
    by_cases hin : n ∈ r.inputs
    · refine ⟨.inp n.name, .input hin, ?_⟩
      have hx : n.name ∉ names l.outputs := by
        intro hx
        obtain ⟨o, ho, hon⟩ := of_name_mem_names hx
        have := common_mem h ho hin hon.symm
        exact hno _ (mem_connected_edges.2 (Or.inr (Or.inr (Or.inl this)))) rfl
      cases hv : l.virt.mem n.name with
      | false => exact .cut hx hv
      | true =>
        obtain ⟨c, _, _, hce⟩ := lv_edge_exists (l := l) hin hv
        exact absurd rfl (hno _ (mem_connected_edges.2 (Or.inr (Or.inr (Or.inr (Or.inl hce))))))
    · refine ⟨.missing n.name, .missing hin ?_, .missing⟩
      intro e he
      exact hno e (mem_connected_edges.2 (Or.inr (Or.inl he)))
  | @ident n p t e hni he ho hk hi hp ih =>
    rcases edge_into_right h he (ho ▸ hn) with h1 | h1 | h1
    · have hpR : InR l r p := h.r_id (nodes3_ein h1 (by rw [hi]; simp))
      obtain ⟨t0, hd, hg⟩ := ih hpR
      have hnr : n ∉ r.inputs := fun hin => h.wr.inLeaf n hin e h1 ho
      exact ⟨t0, .ident e hnr h1 ho hk hi hd, hg⟩
    · obtain ⟨o, hol, i, hir, hname, rfl⟩ := mem_common h1
      simp only [identityEdge] at ho hi
      cases hi
      subst ho
      have hlo : p.id < l.next := h.l_id (nodes3_out hol)
      exact ⟨.inp i.name, .input hir, .fed hol hname.symm ((den_left h hlo t).1 hp)⟩
    · obtain ⟨_, m, hm, c, hcl, hcn, hins, hout⟩ := mem_lvE h1
      rw [hi] at hins
      cases hins
      rw [ho] at hout
      subst hout
      have hcin : p ∈ (connected l r).inputs := by
        simp only [connected_inputs, List.mem_append]; exact Or.inr hcl
      have ht := den_input_inv hcin hp
      subst ht
      have hmv := mem_lvNodes.1 hm
      refine ⟨.inp n.name, .input hmv.1, ?_⟩
      rw [hcn]
      refine .virt ?_ hmv.2
      intro hx
      obtain ⟨o, ho', hon⟩ := of_name_mem_names hx
      have := h.wl.virtOut o ho'
      rw [hon, hmv.2] at this
      exact absurd this (by simp)
  | @edge n ts e hni he ho hk hlen hp ih =>
    rcases edge_into_right h he (ho ▸ hn) with h1 | h1 | h1
    · have hnr : n ∉ r.inputs := fun hin => h.wr.inLeaf n hin e h1 ho
      obtain ⟨ts0, hl0, hd, hg⟩ := zip_choice (BDen r) (Glue l) e.ins ts hlen
        (fun p hp' => ih p hp' (h.r_id (nodes3_ein h1 (List.of_mem_zip hp').1)))
      exact ⟨.node e.edge ts0, .edge e hnr h1 ho hk hl0 hd, .node (hl0.symm.trans hlen) hg⟩
    · obtain ⟨o, _, i, _, _, rfl⟩ := mem_common h1
      exact absurd rfl hk
    · exact absurd (mem_lvE h1).1 hk


theorem no_edge_into_right_input (h : Sep l r) {n : BNode} (hn : InR l r n)
    (hr : ∀ e ∈ r.edges, e.out ≠ n)
    (hc : ∀ o ∈ l.outputs, ∀ i ∈ r.inputs, i.name = o.name → i ≠ n)
    (hv : ∀ m ∈ lvNodes l r, m ≠ n) :
    ∀ e ∈ (connected l r).edges, e.out ≠ n := by
  intro e he ho
  rcases edge_into_right h he (ho ▸ hn) with h1 | h1 | h1
  · exact hr e h1 ho
  · obtain ⟨o, hol, i, hir, hname, rfl⟩ := mem_common h1
    exact hc o hol i hir hname ho
  · obtain ⟨_, m, hm, c, _, _, _, hout⟩ := mem_lvE h1
    exact hv m hm (hout.symm.trans ho)

/-- **Gluing, from the parts to the connected bag.** -/
theorem den_right_of (h : Sep l r) {n : BNode} {t0 : BTerm} (hd : BDen r n t0) :
    ∀ {t : BTerm}, InR l r n → Glue l t0 t → BDen (connected l r) n t := by
  induction hd with
  | @input n hin =>
    intro t hn hg
    have hni := not_input_of_inR h hn
    cases hg with
    | @fed _ o t hol hon hdl =>
      have he := common_mem h hol hin hon.symm
      have hlo : o.id < l.next := h.l_id (nodes3_out hol)
      exact .ident (identityEdge o n) hni (mem_connected_edges.2 (Or.inr (Or.inr (Or.inl he)))) rfl rfl rfl
        ((den_left h hlo t).2 hdl)
    | virt hx hv =>
      obtain ⟨c, hcl, hcn, hce⟩ := lv_edge_exists (l := l) hin hv
      have hcin : c ∈ (connected l r).inputs := by
        simp only [connected_inputs, List.mem_append]; exact Or.inr hcl
      have := BDen.input (b := connected l r) hcin
      rw [hcn] at this
      exact .ident (identityEdge c n) hni (mem_connected_edges.2 (Or.inr (Or.inr (Or.inr (Or.inl hce))))) rfl rfl rfl this
    | cut hx hv =>
      refine .missing hni (no_edge_into_right_input h hn (fun e he => h.wr.inLeaf n hin e he) ?_ ?_)
      · intro o hol i _ hname hi
        subst hi
        exact hx (hname ▸ name_mem_names hol)
      · intro m hm hmn
        subst hmn
        rw [(mem_lvNodes.1 hm).2] at hv
        exact absurd hv (by simp)
  | @missing n hnin hno =>
    intro t hn hg
    cases hg
    refine .missing (not_input_of_inR h hn) (no_edge_into_right_input h hn hno ?_ ?_)
    · intro o _ i hir _ hi
      exact hnin (hi ▸ hir)
    · intro m hm hmn
      exact hnin (hmn ▸ (mem_lvNodes.1 hm).1)
  | @ident n p t0 e hnin he ho hk hi _ ih =>
    intro t hn hg
    have hpR : InR l r p := h.r_id (nodes3_ein he (by rw [hi]; simp))
    exact .ident e (not_input_of_inR h hn) (mem_connected_edges.2 (Or.inr (Or.inl he))) ho hk hi (ih hpR hg)
  | @edge n ts0 e hnin he ho hk hlen _ ih =>
    intro t hn hg
    cases hg with
    | @node _ _ ts' hl' hz =>
      refine .edge e (not_input_of_inR h hn) (mem_connected_edges.2 (Or.inr (Or.inl he))) ho hk (hlen.trans hl') ?_
      intro q hq
      obtain ⟨u, hu1, hu2⟩ := zip_mid e.ins ts0 ts' hlen hl' q hq
      exact ih (q.1, u) hu1 (h.r_id (nodes3_ein he (List.of_mem_zip hq).1)) (hz (u, q.2) hu2)

/-- **Gluing**: in the connected bag a node of the right bag computes exactly its own term with the inputs fed by the
left bag. -/
theorem den_right (h : Sep l r) {n : BNode} (hn : InR l r n) (t : BTerm) :
    BDen (connected l r) n t ↔ ∃ t0, BDen r n t0 ∧ Glue l t0 t :=
  ⟨fun hc => den_right_to h hc hn, fun ⟨_, hd, hg⟩ => den_right_of h hd hn hg⟩

end
end CM
