/-
  CM.Proofs.BagDeps — `find_dependencies` / `_validate_optionals` of `GraphCompiler` at the node level:
  the dependency table computes exactly the leaves below every node (reachability), and the validation drops / rejects
  exactly by those leaves that are not inputs of the bag.  Tied to the semantics `BDen`: these are the `missing` leaves
  of the term the node computes.
-/
import CM.Proofs.BagCompileOK
import CM.Proofs.BagChecks
namespace CM

/-- `d` is a leaf of the edge list (no incoming edge) that is reachable from `n` along incoming edges. -/
inductive LeafBelow (es : List BEdge) : BNode → BNode → Prop
  | here (e : BEdge) (n p : BNode) : e ∈ es → e.out = n → p ∈ e.ins → (∀ e' ∈ es, e'.out ≠ p) → LeafBelow es n p
  | step (e : BEdge) (n p d : BNode) : e ∈ es → e.out = n → p ∈ e.ins → LeafBelow es p d → LeafBelow es n d

theorem LeafBelow.has_edge {es : List BEdge} {n d : BNode} (h : LeafBelow es n d) : ∃ e ∈ es, e.out = n := by
  cases h with
  | here e _ _ he ho _ _ => exact ⟨e, he, ho⟩
  | step e _ _ _ he ho _ _ => exact ⟨e, he, ho⟩

theorem LeafBelow.is_leaf {es : List BEdge} {n d : BNode} (h : LeafBelow es n d) : ∀ e' ∈ es, e'.out ≠ d := by
  induction h with
  | here _ _ _ _ _ _ hl => exact hl
  | step _ _ _ _ _ _ _ _ ih => exact ih

/-- with single incoming edges, what lies below the output of an edge lies below one of its inputs -/
theorem LeafBelow.of_edge {es : List BEdge} (hs : SingleIncoming es) {e : BEdge} (he : e ∈ es) {d : BNode}
    (h : LeafBelow es e.out d) : ∃ p ∈ e.ins, (p = d ∧ ∀ e' ∈ es, e'.out ≠ p) ∨ LeafBelow es p d := by
  cases h with
  | here e' _ _ he' ho hp hl =>
    have : e' = e := hs e' he' e he ho
    subst this
    exact ⟨d, hp, .inl ⟨rfl, hl⟩⟩
  | step e' _ p _ he' ho hp hb =>
    have : e' = e := hs e' he' e he ho
    subst this
    exact ⟨p, hp, .inr hb⟩

/-! ### membership in the sets `find_dependencies` builds -/

theorem mem_insertNode (n : BNode) (ns : List BNode) (d : BNode) : d ∈ insertNode n ns ↔ d = n ∨ d ∈ ns := by
  unfold insertNode
  split
  · rename_i h
    have hn : n ∈ ns := by simpa using h
    constructor
    · exact Or.inr
    · rintro (rfl | h)
      · exact hn
      · exact h
  · simp only [List.mem_append, List.mem_singleton]
    exact or_comm

theorem mem_unionNodes : ∀ (b a : List BNode) (d : BNode), d ∈ unionNodes a b ↔ d ∈ a ∨ d ∈ b
  | [], a, d => by simp [unionNodes]
  | x :: b, a, d => by
    have ih := mem_unionNodes b (insertNode x a) d
    simp only [unionNodes, List.foldl_cons] at ih ⊢
    rw [ih, mem_insertNode]
    simp only [List.mem_cons]
    constructor
    · rintro ((rfl | h) | h)
      · exact .inr (.inl rfl)
      · exact .inl h
      · exact .inr (.inr h)
    · rintro (h | rfl | h)
      · exact .inl (.inr h)
      · exact .inl (.inl rfl)
      · exact .inr h

/-- what one parent contributes to the set of its child -/
def contrib (tbl : List (BNode × List BNode)) (p : BNode) : List BNode :=
  match tbl.find? (·.1 == p) with
  | some (_, ds) => ds
  | none => [p]

def localStep (tbl : List (BNode × List BNode)) (acc : List BNode) (p : BNode) : List BNode :=
  match tbl.find? (·.1 == p) with
  | some (_, ds) => unionNodes acc ds
  | none => insertNode p acc

theorem mem_localStep (tbl : List (BNode × List BNode)) (acc : List BNode) (p d : BNode) :
    d ∈ localStep tbl acc p ↔ d ∈ acc ∨ d ∈ contrib tbl p := by
  unfold localStep contrib
  split
  · exact mem_unionNodes _ _ _
  · rw [mem_insertNode]
    simp only [List.mem_singleton]
    exact or_comm

theorem mem_localFold (tbl : List (BNode × List BNode)) : ∀ (ins : List BNode) (acc : List BNode) (d : BNode),
    d ∈ ins.foldl (localStep tbl) acc ↔ d ∈ acc ∨ ∃ p ∈ ins, d ∈ contrib tbl p
  | [], acc, d => by simp
  | p :: ins, acc, d => by
    rw [List.foldl_cons, mem_localFold tbl ins, mem_localStep]
    simp only [List.mem_cons, exists_eq_or_imp]
    exact or_assoc

/-- one step of the table construction, as the model writes it -/
def tblStep (tbl : List (BNode × List BNode)) (e : BEdge) : List (BNode × List BNode) :=
  tbl ++ [(e.out, e.ins.foldl (localStep tbl) [])]

theorem depsTable_eq (es : List BEdge) : depsTable es = (topoEdges es).1.foldl tblStep [] := rfl

/-- every entry of the table belongs to an edge output and lists exactly the leaves below it -/
def TblOK (es : List BEdge) (tbl : List (BNode × List BNode)) : Prop :=
  ∀ q ∈ tbl, (∃ e ∈ es, e.out = q.1) ∧ ∀ d, d ∈ q.2 ↔ LeafBelow es q.1 d

theorem contrib_spec {es : List BEdge} {tbl : List (BNode × List BNode)} (hok : TblOK es tbl) {p : BNode}
    (hp : (∀ e' ∈ es, e'.out ≠ p) ∨ p ∈ tbl.map (·.1)) (d : BNode) :
    d ∈ contrib tbl p ↔ (p = d ∧ ∀ e' ∈ es, e'.out ≠ p) ∨ LeafBelow es p d := by
  unfold contrib
  split
  · rename_i k ds hf
    have hmem := List.mem_of_find?_eq_some hf
    have hk : k = p := by simpa using List.find?_some hf
    subst hk
    obtain ⟨⟨e, he, ho⟩, hds⟩ := hok _ hmem
    rw [hds d]
    constructor
    · exact Or.inr
    · rintro (⟨_, hl⟩ | h)
      · exact absurd ho (hl e he)
      · exact h
  · rename_i hf
    have hnot : p ∉ tbl.map (·.1) := by
      intro hm
      obtain ⟨q, hq, hqp⟩ := List.mem_map.1 hm
      have := List.find?_eq_none.1 hf q hq
      simp [hqp] at this
    have hleaf : ∀ e' ∈ es, e'.out ≠ p := hp.resolve_right hnot
    simp only [List.mem_singleton]
    constructor
    · rintro rfl
      exact .inl ⟨rfl, hleaf⟩
    · rintro (⟨h, _⟩ | h)
      · exact h.symm
      · obtain ⟨e, he, ho⟩ := h.has_edge
        exact absurd ho (hleaf e he)

theorem tblFold_ok (es : List BEdge) (hs : SingleIncoming es) : ∀ (L : List BEdge) (tbl : List (BNode × List BNode))
    (seen : List BNode), TblOK es tbl → (∀ n ∈ seen, n ∈ tbl.map (·.1)) → (∀ e ∈ L, e ∈ es) → TopoFrom es seen L →
    TblOK es (L.foldl tblStep tbl) ∧ (L.foldl tblStep tbl).map (·.1) = tbl.map (·.1) ++ L.map (·.out)
  | [], tbl, _, hok, _, _, _ => by simp [hok]
  | e :: L, tbl, seen, hok, hseen, hL, ht => by
    have he : e ∈ es := hL e (List.mem_cons_self ..)
    have hok' : TblOK es (tblStep tbl e) := by
      intro q hq
      simp only [tblStep, List.mem_append, List.mem_singleton] at hq
      rcases hq with hq | rfl
      · exact hok q hq
      · refine ⟨⟨e, he, rfl⟩, fun d => ?_⟩
        simp only
        rw [mem_localFold]
        simp only [List.not_mem_nil, false_or]
        constructor
        · rintro ⟨p, hp, hd⟩
          have hp' := (ht.1 p hp).imp id (hseen p)
          rcases (contrib_spec hok hp' d).1 hd with ⟨rfl, hl⟩ | hb
          · exact .here e _ _ he rfl hp hl
          · exact .step e _ p _ he rfl hp hb
        · intro hb
          obtain ⟨p, hp, h⟩ := hb.of_edge hs he
          have hp' := (ht.1 p hp).imp id (hseen p)
          exact ⟨p, hp, (contrib_spec hok hp' d).2 h⟩
    have hseen' : ∀ n ∈ e.out :: seen, n ∈ (tblStep tbl e).map (·.1) := by
      intro n hn
      simp only [tblStep, List.map_append, List.map_cons, List.map_nil, List.mem_append, List.mem_singleton]
      rcases List.mem_cons.1 hn with rfl | hn
      · exact .inr rfl
      · exact .inl (hseen n hn)
    obtain ⟨h1, h2⟩ := tblFold_ok es hs L (tblStep tbl e) (e.out :: seen) hok' hseen'
      (fun x hx => hL x (List.mem_cons_of_mem _ hx)) ht.2
    refine ⟨by simpa using h1, ?_⟩
    rw [List.foldl_cons, h2]
    simp [tblStep]

theorem order_all {es : List BEdge} (hac : acyclicB es = true) : ∀ e ∈ es, e ∈ (topoEdges es).1 := by
  intro e he
  have hp := (peel_perm es.length es).symm.subset he
  have hnil : (topoEdges es).2 = [] := by simpa [acyclicB] using hac
  unfold topoEdges at hnil
  rw [hnil, List.append_nil] at hp
  exact hp

theorem depsTable_ok (es : List BEdge) (hs : SingleIncoming es) :
    TblOK es (depsTable es) ∧ (depsTable es).map (·.1) = (topoEdges es).1.map (·.out) := by
  have := tblFold_ok es hs (topoEdges es).1 [] [] (fun _ h => by cases h) (fun _ h => by cases h) (peel_sub _ _)
    (peel_topo es _ es [] (fun e he => .inr he))
  simpa [depsTable_eq] using this

/-- **`find_dependencies` computes reachability**: on an acyclic edge list with single incoming edges the set recorded
for a node is exactly the set of leaves below it (empty for a leaf). -/
theorem depsOf_spec (es : List BEdge) (hs : SingleIncoming es) (hac : acyclicB es = true) (n d : BNode) :
    d ∈ depsOf (depsTable es) n ↔ LeafBelow es n d := by
  obtain ⟨hok, hkeys⟩ := depsTable_ok es hs
  unfold depsOf
  split
  · rename_i k ds hf
    have hmem := List.mem_of_find?_eq_some hf
    have hk : k = n := by simpa using List.find?_some hf
    subst hk
    exact (hok _ hmem).2 d
  · rename_i hf
    simp only [List.not_mem_nil, false_iff]
    intro hb
    obtain ⟨e, he, ho⟩ := hb.has_edge
    have : n ∈ (depsTable es).map (·.1) := by
      rw [hkeys]
      exact List.mem_map.2 ⟨e, order_all hac e he, ho⟩
    obtain ⟨q, hq, hqn⟩ := List.mem_map.1 this
    have := List.find?_eq_none.1 hf q hq
    simp [hqn] at this

/-! ### `_validate_optionals` -/

/-- an unreachable input of `o`: a leaf below `o` that is no input of the bag -/
def Unreach (b : Bag) (o d : BNode) : Prop := LeafBelow b.edges o d ∧ d ∉ b.inputs

theorem mem_missingOf (b : Bag) (hs : SingleIncoming b.edges) (hac : acyclicB b.edges = true) (o d : BNode) :
    d ∈ b.missingOf (depsTable b.edges) o ↔ Unreach b o d := by
  simp only [Bag.missingOf, List.mem_filter, depsOf_spec b.edges hs hac, Unreach, Bool.not_eq_eq_eq_not, Bool.not_true,
    List.contains_eq_mem, decide_eq_false_iff_not]

theorem missingOf_nil (b : Bag) (hs : SingleIncoming b.edges) (hac : acyclicB b.edges = true) (o : BNode) :
    (b.missingOf (depsTable b.edges) o).isEmpty = true ↔ ∀ d, ¬ Unreach b o d := by
  rw [List.isEmpty_iff]
  constructor
  · intro h d hd
    have := (mem_missingOf b hs hac o d).2 hd
    rw [h] at this
    cases this
  · intro h
    cases hm : b.missingOf (depsTable b.edges) o with
    | nil => rfl
    | cons x xs =>
      exact absurd ((mem_missingOf b hs hac o x).1 (by rw [hm]; exact List.mem_cons_self ..)) (h x)

/-- the verdict of `_validate_optionals` on one output -/
def Quiet (b : Bag) (o : BNode) : Prop := o ∈ b.optional ∧ ∀ d, Unreach b o d → d ∈ b.optional

theorem validateOutputs_ok (b : Bag) (hs : SingleIncoming b.edges) (hac : acyclicB b.edges = true) :
    ∀ (os avail : List BNode), validateOutputs b (depsTable b.edges) os = .ok avail →
      avail = os.filter (fun o => (b.missingOf (depsTable b.edges) o).isEmpty) ∧
      ∀ o ∈ os, (∃ d, Unreach b o d) → Quiet b o
  | [], avail, h => by
    simp only [validateOutputs, Except.ok.injEq] at h
    subst h; simp
  | o :: os, avail, h => by
    simp only [validateOutputs] at h
    split at h
    · rename_i hm
      cases hr : validateOutputs b (depsTable b.edges) os with
      | error e => simp [hr, Except.map] at h
      | ok av =>
        simp only [hr, Except.map, Except.ok.injEq] at h
        obtain ⟨h1, h2⟩ := validateOutputs_ok b hs hac os av hr
        refine ⟨by rw [← h, List.filter_cons, if_pos hm, h1], ?_⟩
        intro o' ho' hex
        rcases List.mem_cons.1 ho' with rfl | ho'
        · obtain ⟨d, hd⟩ := hex
          exact absurd hd ((missingOf_nil b hs hac o').1 hm d)
        · exact h2 o' ho' hex
    · rename_i hm
      split at h
      · cases h
      · rename_i hopt
        split at h
        · cases h
        · rename_i hall
          obtain ⟨h1, h2⟩ := validateOutputs_ok b hs hac os avail h
          refine ⟨by rw [List.filter_cons, if_neg hm, h1], ?_⟩
          intro o' ho' hex
          rcases List.mem_cons.1 ho' with rfl | ho'
          · refine ⟨by simpa using hopt, fun d hd => ?_⟩
            have hmem := (mem_missingOf b hs hac o' d).2 hd
            simp only [List.any_eq_true, Bool.not_eq_eq_eq_not, Bool.not_true, List.contains_eq_mem,
              decide_eq_false_iff_not, not_exists, not_and, Decidable.not_not] at hall
            exact hall d hmem
          · exact h2 o' ho' hex

theorem validateOutputs_dependency (b : Bag) (hs : SingleIncoming b.edges) (hac : acyclicB b.edges = true) :
    ∀ (os : List BNode), validateOutputs b (depsTable b.edges) os = .error .dependency ↔
      ∃ o ∈ os, (∃ d, Unreach b o d) ∧ ¬ Quiet b o
  | [] => by simp [validateOutputs]
  | o :: os => by
    have ih := validateOutputs_dependency b hs hac os
    simp only [validateOutputs]
    split
    · rename_i hm
      have hno := (missingOf_nil b hs hac o).1 hm
      have : (validateOutputs b (depsTable b.edges) os).map (o :: ·) = .error .dependency ↔
          validateOutputs b (depsTable b.edges) os = .error .dependency := by
        cases validateOutputs b (depsTable b.edges) os <;> simp [Except.map]
      rw [this, ih]
      simp only [List.mem_cons, exists_eq_or_imp]
      constructor
      · exact Or.inr
      · rintro (⟨⟨d, hd⟩, _⟩ | h)
        · exact absurd hd (hno d)
        · exact h
    · rename_i hm
      have hex : ∃ d, Unreach b o d := by
        refine Classical.byContradiction fun hne => hm ((missingOf_nil b hs hac o).2 fun d hd => hne ⟨d, hd⟩)
      split
      · rename_i hopt
        simp only [List.mem_cons, exists_eq_or_imp, true_iff]
        refine .inl ⟨hex, fun hq => ?_⟩
        simp [hq.1] at hopt
      · rename_i hopt
        split
        · rename_i hany
          simp only [List.mem_cons, exists_eq_or_imp, true_iff]
          refine .inl ⟨hex, fun hq => ?_⟩
          simp only [List.any_eq_true, Bool.not_eq_eq_eq_not, Bool.not_true, List.contains_eq_mem,
            decide_eq_false_iff_not] at hany
          obtain ⟨d, hd, hno⟩ := hany
          exact hno (hq.2 d ((mem_missingOf b hs hac o d).1 hd))
        · rename_i hall
          rw [ih]
          simp only [List.mem_cons, exists_eq_or_imp]
          constructor
          · exact Or.inr
          · rintro (⟨_, hnq⟩ | h)
            · refine absurd ⟨by simpa using hopt, fun d hd => ?_⟩ hnq
              have hmem := (mem_missingOf b hs hac o d).2 hd
              simp only [List.any_eq_true, Bool.not_eq_eq_eq_not, Bool.not_true, List.contains_eq_mem,
                decide_eq_false_iff_not, not_exists, not_and, Decidable.not_not] at hall
              exact hall d hmem
            · exact h

/-! ### the tie to the semantics: the unreachable inputs are the `missing` leaves of the term -/

def BTerm.missingNames : BTerm → List String
  | .inp _ => []
  | .missing x => [x]
  | .node _ args => missingNamesL args
where
  missingNamesL : List BTerm → List String
    | [] => []
    | t :: ts => t.missingNames ++ missingNamesL ts

theorem mem_missingNamesL (x : String) : ∀ (ts : List BTerm),
    x ∈ BTerm.missingNames.missingNamesL ts ↔ ∃ t ∈ ts, x ∈ t.missingNames
  | [] => by simp [BTerm.missingNames.missingNamesL]
  | t :: ts => by
    simp only [BTerm.missingNames.missingNamesL, List.mem_append, mem_missingNamesL x ts, List.mem_cons,
      exists_eq_or_imp]

/-- a missing leaf at or below `n` -/
def MissAt (b : Bag) (n d : BNode) : Prop :=
  d ∉ b.inputs ∧ (∀ e ∈ b.edges, e.out ≠ d) ∧ (d = n ∨ LeafBelow b.edges n d)

theorem missAt_edge {b : Bag} (hs : SingleIncoming b.edges) {e : BEdge} (he : e ∈ b.edges) (d : BNode) :
    MissAt b e.out d ↔ ∃ p ∈ e.ins, MissAt b p d := by
  constructor
  · rintro ⟨hni, hl, rfl | hb⟩
    · exact absurd rfl (hl e he)
    · obtain ⟨p, hp, ⟨rfl, _⟩ | h⟩ := hb.of_edge hs he
      · exact ⟨p, hp, hni, hl, .inl rfl⟩
      · exact ⟨p, hp, hni, hl, .inr h⟩
  · rintro ⟨p, hp, hni, hl, rfl | hb⟩
    · exact ⟨hni, hl, .inr (.here e _ _ he rfl hp hl)⟩
    · exact ⟨hni, hl, .inr (.step e _ p _ he rfl hp hb)⟩

/-- **The `missing` leaves of the term of a node are exactly the names of the unreachable leaves at or below it.** -/
theorem BDen.missing_iff {b : Bag} (hs : SingleIncoming b.edges) (hleaf : ∀ n ∈ b.inputs, ∀ e ∈ b.edges, e.out ≠ n)
    {n : BNode} {t : BTerm} (h : BDen b n t) (x : String) :
    x ∈ t.missingNames ↔ ∃ d, d.name = x ∧ MissAt b n d := by
  induction h with
  | @input n hi =>
    simp only [BTerm.missingNames, List.not_mem_nil, false_iff]
    rintro ⟨d, _, hni, _, rfl | hb⟩
    · exact hni hi
    · obtain ⟨e, he, ho⟩ := hb.has_edge
      exact hleaf n hi e he ho
  | @missing n hni hno =>
    simp only [BTerm.missingNames, List.mem_singleton]
    constructor
    · rintro rfl
      exact ⟨n, rfl, hni, hno, .inl rfl⟩
    · rintro ⟨d, hx, _, _, rfl | hb⟩
      · exact hx.symm
      · obtain ⟨e, he, ho⟩ := hb.has_edge
        exact absurd ho (hno e he)
  | @ident n p t e _ he ho _ hi _ ih =>
    subst ho
    rw [ih]
    refine exists_congr fun d => and_congr_right fun _ => ?_
    rw [missAt_edge hs he, hi]
    simp
  | @edge n ts e _ he ho _ hlen _ ih =>
    subst ho
    simp only [BTerm.missingNames, mem_missingNamesL]
    constructor
    · rintro ⟨t, ht, hx⟩
      obtain ⟨i, hi, rfl⟩ := List.getElem_of_mem ht
      have hi' : i < e.ins.length := by omega
      have hz : (e.ins[i], ts[i]) ∈ e.ins.zip ts := by
        rw [List.mem_iff_getElem]
        exact ⟨i, by rw [List.length_zip]; omega, by simp⟩
      obtain ⟨d, hd, hm⟩ := (ih _ hz).1 hx
      exact ⟨d, hd, (missAt_edge hs he d).2 ⟨e.ins[i], List.getElem_mem _, hm⟩⟩
    · rintro ⟨d, hd, hm⟩
      obtain ⟨p, hp, hmp⟩ := (missAt_edge hs he d).1 hm
      obtain ⟨i, hi, rfl⟩ := List.getElem_of_mem hp
      have hi' : i < ts.length := by omega
      have hz : (e.ins[i], ts[i]) ∈ e.ins.zip ts := by
        rw [List.mem_iff_getElem]
        exact ⟨i, by rw [List.length_zip]; omega, by simp⟩
      exact ⟨ts[i], List.getElem_mem _, (ih _ hz).2 ⟨d, hd, hmp⟩⟩

/-- for a node with an incoming edge: unreachable inputs = missing leaves below it -/
theorem unreach_iff_missAt {b : Bag} {o : BNode} (ho : ∃ e ∈ b.edges, e.out = o) (d : BNode) :
    Unreach b o d ↔ MissAt b o d := by
  constructor
  · rintro ⟨hb, hni⟩
    exact ⟨hni, hb.is_leaf, .inr hb⟩
  · rintro ⟨hni, hl, rfl | hb⟩
    · obtain ⟨e, he, heo⟩ := ho
      exact absurd heo (hl e he)
    · exact ⟨hb, hni⟩

end CM
