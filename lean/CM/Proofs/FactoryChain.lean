import CM.Proofs.FactoryWF
import CM.Proofs.BagMain
namespace CM

theorem mkBag_outputs {r : RawBag} {b : Bag} (h : mkBag r = .ok b) : ∀ o ∈ r.outputs, o ∈ b.outputs := by
  obtain ⟨rfl, _⟩ := mkBag_ok h
  intro o ho
  simp only [RawBag.core, List.mem_append]
  exact Or.inl ho

theorem reversible_outputs {inputs outputs : List BNode} {es : List BEdge} {backIn backOut : List BNode} {optNames : List String}
    {fwd back : NameSet} {persistent : List String} {next : Nat} {b : Bag}
    (h : reversible inputs outputs es backIn backOut optNames fwd back persistent next = .ok b) :
    ∀ o ∈ outputs, o ∈ b.outputs := by
  unfold reversible at h
  split at h
  · cases h
  · rename_i b1 h1
    split at h
    · cases h
    · split at h
      · cases h
      · split at h
        · cases h
        · rename_i b2 h2
          injection h with h; subst h
          exact fun o ho => mkBag_outputs h2 o (mkBag_outputs h1 o ho)

theorem factory_outputs {r : RawLayer} {b : Bag} (h : r.factory = .ok b) :
    ∀ o ∈ nodesAt r.layout.oBase r.layout.outputs, o ∈ b.outputs := by
  unfold RawLayer.factory at h
  split at h
  · cases h
  · split at h
    · cases h
    · split at h
      · cases h
      · split at h
        · cases h
        · exact reversible_outputs h

/-- the field `f` of the layer, as a field of its container -/
theorem factory_field {r : RawLayer} {b : Bag} (h : r.factory = .ok b) (f : RawField) (hf : f ∈ r.fields)
    (ts : List BTerm) (hlen : f.args.length = ts.length) (hargs : ∀ q ∈ f.args.zip ts, ArgDen r q.1 q.2) :
    b.Field f.name (.node (.function f.f [] []) ts) := by
  obtain ⟨o, ho, hd⟩ := factory_field_term h f hf ts hlen hargs
  have hname : o.name = f.name := by
    obtain ⟨i, _, _, rfl⟩ := nodeAt_some ho
    rfl
  exact ⟨o, factory_outputs h o (nodeAt_mem ho), hname, hd⟩

/-- **A layer written as a class body, on top of any pipeline.**  Let `l` be the (well-formed) container of a pipeline, `r` a
layer description whose container the factory builds, and `c = connect_bags(l, container of r)`.  Then `c` is well-formed and
its field `f.name` computes exactly: the function of `f` applied to what its arguments denote inside the layer (`ArgDen`:
inputs by name, constructor arguments as constants, private parameters recursively), with every input name replaced by what the
pipeline `l` computes under that name (`Glue`: the earlier field; the raw input if `l` passes the name on from upstream;
unreachable otherwise). -/
theorem layer_over_pipeline {l b c : Bag} {r : RawLayer} (hl : l.WF) (hb : r.factory = .ok b) (hc : connectBags l b = .ok c)
    (f : RawField) (hf : f ∈ r.fields) (ts : List BTerm) (hlen : f.args.length = ts.length)
    (hargs : ∀ q ∈ f.args.zip ts, ArgDen r q.1 q.2) :
    c.WF ∧ ∀ t, c.Field f.name t ↔ Glue l (.node (.function f.f [] []) ts) t := by
  have hbw := factory_wf hb
  obtain ⟨hcw, hfield, _, _⟩ := connect_step hl hbw hc
  have hfb := factory_field hb f hf ts hlen hargs
  refine ⟨hcw, fun t => ?_⟩
  rw [hfield]
  constructor
  · rintro (⟨t0, h0, hg⟩ | ⟨hp, _⟩)
    · obtain ⟨o₁, ho₁, hx₁, hd₁⟩ := h0
      obtain ⟨o₂, ho₂, hx₂, hd₂⟩ := hfb
      have : o₁ = o₂ := hbw.outNames o₁ ho₁ o₂ ho₂ (hx₁.trans hx₂.symm)
      subst this
      rw [BDen.det hbw.single hd₂ hd₁]
      exact hg
    · -- a name the layer defines is not passed on
      exfalso
      obtain ⟨o, ho, hx, _⟩ := hfb
      have hv : b.virt.mem f.name = false := hx ▸ hbw.virtOut o ho
      have hin : f.name ∈ names b.outputs := List.mem_map.2 ⟨o, ho, hx⟩
      simp only [passes, hv, Bool.false_or, Bool.and_eq_true, Bool.not_eq_true', List.contains_eq_mem,
        decide_eq_false_iff_not] at hp
      exact hp.2 hin
  · intro hg
    exact Or.inl ⟨_, hfb, hg⟩

end CM
