/-
  CM.Proofs.Correct — `vm_correct`: the four stages composed.  For every well-formed cache-free graph and every
  complete assignment of its used inputs, `Graph.__call__` (the stack machine started by CM.Model.VM `Graph.call`)
  stops after finitely many iterations, and what it returns / raises is what the cache-free denotation prescribes,
  or the exception of a user function.  The same for `Graph.get_hash`.
-/
import CM.Proofs.Sim
import CM.Proofs.Raise
import CM.Proofs.OnceRaise
namespace CM

/-! ### from `Reaches` to `run` -/

def Outcome.isNext : Outcome → Bool
  | .next _ => true
  | _ => false

theorem run_final (g : Graph) (s : St) (o : Outcome) (ho : o.isNext = false) (hs : step g s = o) (k : Nat) :
    ∀ fuel, 1 ≤ fuel → run g fuel s k = some (o, k + 1) := by
  intro fuel hf
  obtain ⟨fuel', rfl⟩ : ∃ f', fuel = f' + 1 := ⟨fuel - 1, by omega⟩
  simp only [run, hs]
  cases o with
  | next _ => simp [Outcome.isNext] at ho
  | done _ _ => rfl
  | raised _ _ => rfl

theorem run_of_reaches (g : Graph) {s s' : St} (h : Reaches g s s') (o : Outcome) (ho : o.isNext = false)
    (hs : step g s' = o) : ∀ k, ∃ N steps, ∀ fuel, N ≤ fuel → run g fuel s k = some (o, steps) := by
  induction h with
  | refl s => intro k; exact ⟨1, k + 1, run_final g s o ho hs k⟩
  | head hstep _ ih =>
    intro k
    obtain ⟨N, steps, hN⟩ := ih hs (k + 1)
    refine ⟨N + 1, steps, ?_⟩
    intro fuel hf
    obtain ⟨fuel', rfl⟩ : ∃ f', fuel = f' + 1 := ⟨fuel - 1, by omega⟩
    simp only [run, hstep]
    exact hN fuel' (by omega)

/-! ### the start of a call -/

/-- the cache-free reading of a world: which functions are constants / impure, and the number of the call -/
def denCfgOf (env : String → Option Val) (w : World) : DenCfg :=
  { env := env, callNo := w.callNo, impureFns := w.impureFns, constFns := w.constFns }

/-- what `Graph.__init__` / `signature.bind` guarantee before the machine starts -/
structure CallOK (g : Graph) (env : String → Option Val) : Prop where
  /-- every used input received an argument -/
  bound : ∀ j, g.usedInputs.contains j = true → (env (g.node j).name).isSome = true
  inRange : ∀ j, g.usedInputs.contains j = true → j < g.nodes.length
  outRange : g.output < g.nodes.length

def Graph.initMem (g : Graph) (env : String → Option Val) (w : World) : Mem :=
  { hashes := (g.initScratch env).1, cache := (g.initScratch env).2, world := w }

theorem initSt_eq (g : Graph) (env : String → Option Val) (cmd : Cmd) (w : World) :
    g.initSt env cmd w = ⟨[.node g.output], [cmd, .ret], g.initMem env w⟩ := rfl

theorem den_input (g : Graph) (d : DenCfg) (n : Nat) (v : Val) (hu : g.usedInputs.contains n = true)
    (hr : n < g.nodes.length) (hv : d.env (g.node n).name = some v) :
    den g d n = ⟨.ok (.leaf v, .none), .ok v⟩ := by
  have hn : g.nodes[n]? = some (g.node n) := by
    simp [Graph.node, List.getD_eq_getElem?_getD, List.getElem?_eq_getElem hr]
  rw [den_eq g d n _ hn]
  simp only [denNode, hu, ↓reduceIte, hv]

theorem init_memSound (g : Graph) (env : String → Option Val) (w : World) (hc : CallOK g env) :
    MemSound g (denCfgOf env w) (g.initMem env w) := by
  refine ⟨?_, ?_, rfl, rfl, rfl⟩
  · intro n v hm
    simp only [Graph.initMem, Graph.initScratch] at hm
    split at hm
    · next hu =>
      rw [den_input g (denCfgOf env w) n v hu (hc.inRange n hu) hm]
    · cases hm
  · intro n x hm
    simp only [Graph.initMem, Graph.initScratch] at hm
    split at hm
    · next hu =>
      cases hv : env (g.node n).name with
      | none => simp [hv] at hm
      | some v =>
        simp only [hv, Option.map_some, Option.some.injEq] at hm
        subst hm
        rw [den_input g (denCfgOf env w) n v hu (hc.inRange n hu) hv]
        rfl
    · cases hm

theorem toOpt_eq (k : Nat) : (if k = 0 then none else some k) = toOpt k := by
  cases k <;> simp [toOpt]

theorem init_cinv (g : Graph) (ht : g.Topo) (env : String → Option Val) (w : World) (hc : CallOK g env) :
    CInv g (g.initMem env w) Ghost.none none none := by
  have hcnt : ∀ p, (if g.counts 2 p = 0 then none else some (g.counts 2 p)) = toOpt (remaining g Ghost.none p) := by
    intro p; rw [remaining_init g ht p]; exact toOpt_eq _
  have hused : ∀ n, g.inputs.contains n = true → remaining g Ghost.none n ≠ 0 → g.usedInputs.contains n = true := by
    intro n hin hr
    rw [remaining_init g ht n] at hr
    rw [usedInputs_contains, hin]
    simpa using hr
  refine ⟨fun p => hcnt p, fun p => hcnt p, ?_, ?_, ?_, ?_⟩
  · intro n _ hd; simp [Ghost.none] at hd
  · intro n _ hd; simp [Ghost.none] at hd
  · intro n hin hr
    have hu := hused n hin hr
    have hb := hc.bound n hu
    simp only [Graph.initMem, Graph.initScratch, hu, ↓reduceIte]
    cases hv : env (g.node n).name with
    | none => simp [hv] at hb
    | some v => simp
  · intro n hin hr
    have hu := hused n hin hr
    have hb := hc.bound n hu
    simp only [Graph.initMem, Graph.initScratch, hu, ↓reduceIte]
    cases hv : env (g.node n).name with
    | none => simp [hv] at hb
    | some v => simp

theorem output_active (g : Graph) (ht : g.Topo) : remaining g Ghost.none g.output ≠ 0 := by
  rw [remaining_init g ht, init_spec g ht]
  simp

theorem vden_eq (g : Graph) (d : DenCfg) (h : g.output < g.nodes.length) : vden g d = (den g d g.output).v := by
  have hlen : (denAll g d).length = g.nodes.length := by simp [denAll, denFrom_length]
  simp only [vden, den, List.getD_eq_getElem?_getD, List.getElem?_eq_getElem (show g.output < (denAll g d).length by omega),
    Option.getD_some]

theorem hden_eq (g : Graph) (d : DenCfg) (h : g.output < g.nodes.length) : hden g d = (den g d g.output).h.map (·.1) := by
  have hlen : (denAll g d).length = g.nodes.length := by simp [denAll, denFrom_length]
  simp only [hden, den, List.getD_eq_getElem?_getD, List.getElem?_eq_getElem (show g.output < (denAll g d).length by omega),
    Option.getD_some]

/-! ### the theorem -/

/-- what the caller of `Graph.__call__` observes -/
def ValueSpec (g : Graph) (d : DenCfg) (faults : Bool) : Outcome → Prop
  | .done x _ => ∃ v, x = .val v ∧ vden g d = .ok v
  | .raised e _ => (∃ fn, e = .user fn ∧ faults = true) ∨ vden g d = .error e
  | .next _ => False

/-- what the caller of `Graph.get_hash` observes -/
def HashSpec (g : Graph) (d : DenCfg) (faults : Bool) : Outcome → Prop
  | .done x _ => hden g d = x.asHout.map (·.1)
  | .raised e _ => (∃ fn, e = .user fn ∧ faults = true) ∨ hden g d = .error e
  | .next _ => False

/-- **`vm_correct`, values.**  The machine stops, and returns / raises what the denotation prescribes. -/
theorem call_correct (g : Graph) (ok : GraphOK g) (env : String → Option Val) (w : World) (hc : CallOK g env) :
    ∃ N o steps, (∀ fuel, N ≤ fuel → g.call env w fuel = some (o, steps)) ∧ ValueSpec g (denCfgOf env w) (!w.failAt.isEmpty) o := by
  have ht := topo_of_ok g ok
  have hs := init_memSound g env w hc
  have hi := init_cinv g ht env w hc
  have hact := output_active g ht
  obtain ⟨f, hf⟩ := (node_halts g ok g.output).2 (g.initMem env w)
  have hsim := sim g f (.value g.output) (g.initMem env w)
  cases hq : big g f (.value g.output) (g.initMem env w) with
  | fuel => simp [hq, BRes.isFuel] at hf
  | ok x m' =>
    have hreach := hsim.1 x m' hq [] [.ret] _ rfl
    obtain ⟨_, v, hv, hden⟩ := big_sound g (denCfgOf env w) ok f (.value g.output) _ x m' hs trivial hq
    obtain ⟨N, steps, hN⟩ := run_of_reaches g hreach (.done x ⟨[], [], m'⟩) rfl (by simp [step]) 0
    refine ⟨N, .done x ⟨[], [], m'⟩, steps, fun fuel hfuel => ?_, ?_⟩
    · simp only [Graph.call, initSt_eq]; exact hN fuel hfuel
    · exact ⟨v, hv, by rw [vden_eq g _ hc.outRange]; exact hden⟩
  | raised e m' =>
    obtain ⟨s', s'', hreach, hstep, _⟩ := hsim.2 e m' hq [] [.ret] _ rfl
    obtain ⟨N, steps, hN⟩ := run_of_reaches g hreach (.raised e s'') rfl hstep 0
    refine ⟨N, .raised e s'', steps, fun fuel hfuel => ?_, ?_⟩
    · simp only [Graph.call, initSt_eq]; exact hN fuel hfuel
    · cases big_raised g (denCfgOf env w) ok f (.value g.output) true _ Ghost.none e m' hs hi hact hq with
      | inl hu =>
        obtain ⟨fn, h1, h2⟩ := hu
        exact Or.inl ⟨fn, h1, by simpa [Graph.initMem, List.isEmpty_iff] using h2⟩
      | inr hpe => exact Or.inr (by rw [vden_eq g _ hc.outRange]; exact hpe)

/-- **`vm_correct`, node hashes.** -/
theorem getHash_correct (g : Graph) (ok : GraphOK g) (env : String → Option Val) (w : World) (hc : CallOK g env) :
    ∃ N o steps, (∀ fuel, N ≤ fuel → g.getHash env w fuel = some (o, steps)) ∧ HashSpec g (denCfgOf env w) (!w.failAt.isEmpty) o := by
  have ht := topo_of_ok g ok
  have hs := init_memSound g env w hc
  have hi := init_cinv g ht env w hc
  have hact := output_active g ht
  obtain ⟨f, hf⟩ := (node_halts g ok g.output).1 (g.initMem env w)
  have hsim := sim g f (.hash g.output) (g.initMem env w)
  cases hq : big g f (.hash g.output) (g.initMem env w) with
  | fuel => simp [hq, BRes.isFuel] at hf
  | ok x m' =>
    have hreach := hsim.1 x m' hq [] [.ret] _ rfl
    obtain ⟨_, hden⟩ := big_sound g (denCfgOf env w) ok f (.hash g.output) _ x m' hs trivial hq
    obtain ⟨N, steps, hN⟩ := run_of_reaches g hreach (.done x ⟨[], [], m'⟩) rfl (by simp [step]) 0
    refine ⟨N, .done x ⟨[], [], m'⟩, steps, fun fuel hfuel => ?_, ?_⟩
    · simp only [Graph.getHash, initSt_eq]; exact hN fuel hfuel
    · simp only [HashSpec, Post] at hden ⊢
      rw [hden_eq g _ hc.outRange, hden]
  | raised e m' =>
    obtain ⟨s', s'', hreach, hstep, _⟩ := hsim.2 e m' hq [] [.ret] _ rfl
    obtain ⟨N, steps, hN⟩ := run_of_reaches g hreach (.raised e s'') rfl hstep 0
    refine ⟨N, .raised e s'', steps, fun fuel hfuel => ?_, ?_⟩
    · simp only [Graph.getHash, initSt_eq]; exact hN fuel hfuel
    · cases big_raised g (denCfgOf env w) ok f (.hash g.output) true _ Ghost.none e m' hs hi hact hq with
      | inl hu =>
        obtain ⟨fn, h1, h2⟩ := hu
        exact Or.inl ⟨fn, h1, by simpa [Graph.initMem, List.isEmpty_iff] using h2⟩
      | inr hpe =>
        right
        simp only [PostErr] at hpe
        rw [hden_eq g _ hc.outRange, hpe]; rfl

/-! ### at most once -/

def Outcome.mem : Outcome → Mem
  | .next s | .done _ s | .raised _ s => s.mem

theorem init_preL (g : Graph) (env : String → Option Val) (w : World) (hlog : w.log = []) (t : Task) (hp : Bool) (b : Nat) (hb : budOK b t) :
    PreL g (g.initMem env w) Ghost.none hp b 0 (cost g Ghost.none hp b t) t := by
  have hc : ∀ j, calls (g.initMem env w) j = 0 := by intro j; simp [calls, Graph.initMem, hlog]
  exact ⟨fun j _ => by rw [hc j]; exact Nat.zero_le _, by rw [hc]; omega, hb⟩

/-- **At most once.**  Started with an empty call log, a call of the compiled function — whether it returns or
raises — leaves at most one logged call per node: no user function is executed twice on behalf of the same node. -/
theorem call_once (g : Graph) (ok : GraphOK g) (env : String → Option Val) (w : World) (hc : CallOK g env) (hlog : w.log = []) :
    ∃ N o steps, (∀ fuel, N ≤ fuel → g.call env w fuel = some (o, steps)) ∧ ∀ j, calls o.mem j ≤ 1 := by
  have ht := topo_of_ok g ok
  have hi := init_cinv g ht env w hc
  have hact := output_active g ht
  have hl := init_preL g env w hlog (.value g.output) true 0 trivial
  have hK : cost g Ghost.none true 0 (.value g.output) ≤ 1 := by
    have := hb_vb_le_one g ok g.output
    simp only [cost, pendV, pendH, Ghost.none, b2n, Bool.not_false, ↓reduceIte, Nat.one_mul]
    omega
  have h0 : ∀ j, calls (g.initMem env w) j = 0 := by intro j; simp [calls, Graph.initMem, hlog]
  obtain ⟨f, hf⟩ := (node_halts g ok g.output).2 (g.initMem env w)
  have hsim := sim g f (.value g.output) (g.initMem env w)
  cases hq : big g f (.value g.output) (g.initMem env w) with
  | fuel => simp [hq, BRes.isFuel] at hf
  | ok x m' =>
    have hreach := hsim.1 x m' hq [] [.ret] _ rfl
    obtain ⟨N, steps, hN⟩ := run_of_reaches g hreach (.done x ⟨[], [], m'⟩) rfl (by simp [step]) 0
    obtain ⟨G', _, pl⟩ := big_inv g ok f (.value g.output) true _ Ghost.none x m' 0 0 _ hi hact hl hq
    refine ⟨N, .done x ⟨[], [], m'⟩, steps, fun fuel hfuel => by simp only [Graph.call, initSt_eq]; exact hN fuel hfuel, ?_⟩
    intro j
    show calls m' j ≤ 1
    by_cases hj : j ≤ g.output
    · exact post_le_one g (hb_vb_le_one g ok) (t := .value g.output) pl hK j hj
    · rw [pl.frame j (by simp only [Task.node]; omega), h0 j]; omega
  | raised e m' =>
    obtain ⟨s', s'', hreach, hstep, hmem⟩ := hsim.2 e m' hq [] [.ret] _ rfl
    obtain ⟨N, steps, hN⟩ := run_of_reaches g hreach (.raised e s'') rfl hstep 0
    have hr := big_raised_once g ok f (.value g.output) true _ Ghost.none e m' 0 0 _ hi hact hl hK hq
    refine ⟨N, .raised e s'', steps, fun fuel hfuel => by simp only [Graph.call, initSt_eq]; exact hN fuel hfuel, ?_⟩
    intro j
    show calls s''.mem j ≤ 1
    rw [hmem]
    by_cases hj : j ≤ g.output
    · exact hr.1 j hj
    · rw [hr.2 j (by simp only [Task.node]; omega), h0 j]; omega

end CM
