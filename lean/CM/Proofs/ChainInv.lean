/-
  CM.Proofs.ChainInv — the closed term of a chain of one-argument inverses of any length (used by CM.Props.C10Chain).
-/
import CM.Proofs.ChainRev
namespace CM

/-- a layer whose inverse field is one function `g` of its backward input `n` and of any number of the layer's own (forward) parameters `params`,
returning the backward output `o`; `pts` are the terms the parameters compute -/
structure InvLayer where
  n : BNode
  o : BNode
  g : EdgeK
  inh : NameSet
  params : List BNode := []
  pts : List BTerm := []

def InvLayer.ctx (l : InvLayer) : CtxLayer := ⟨[l.n], [l.o], l.inh⟩
def InvLayer.edge (l : InvLayer) : BEdge := { edge := l.g, ins := l.n :: l.params, out := l.o }

/-- the inverses applied one after the other, the LAST layer's first: `inv_1(... inv_n(t))` for the layers `[Ln, ..., L1]` -/
def invTerm : List InvLayer → BTerm → BTerm
  | [], t => t
  | l :: rest, t => invTerm rest (.node l.g (t :: l.pts))

/-- what the backward pass of the layers returns: the backward output of the first layer (the last of the list) -/
def lastOut : InvLayer → List InvLayer → BNode
  | l, [] => l.o
  | _, l :: rest => lastOut l rest

/-- the inverse edges are in the graph -/
def Wired (r : Bag) (ls : List InvLayer) : Prop :=
  ∀ l ∈ ls, l.edge ∈ r.edges ∧ l.g ≠ .identity ∧ l.o ∉ r.inputs ∧ l.params.length = l.pts.length ∧
    ∀ q ∈ l.params.zip l.pts, BDen r q.1 q.2

/-- each layer's backward input computes what the backward output of the layer after it computes -/
def Linked (r : Bag) : List InvLayer → Prop
  | [] => True
  | [_] => True
  | a :: b :: rest => (∀ s, BDen r a.o s → BDen r b.n s) ∧ Linked r (b :: rest)

theorem inv_layer_den {r : Bag} {l : InvLayer} {t : BTerm} (hw : l.edge ∈ r.edges ∧ l.g ≠ .identity ∧ l.o ∉ r.inputs ∧
      l.params.length = l.pts.length ∧ ∀ q ∈ l.params.zip l.pts, BDen r q.1 q.2)
    (h : BDen r l.n t) : BDen r l.o (.node l.g (t :: l.pts)) := by
  refine BDen.edge (ts := t :: l.pts) l.edge hw.2.2.1 hw.1 rfl hw.2.1 (by simp [InvLayer.edge, hw.2.2.2.1]) ?_
  intro q hq
  simp only [InvLayer.edge, List.zip_cons_cons, List.mem_cons] at hq
  rcases hq with rfl | hq
  · exact h
  · exact hw.2.2.2.2 q hq

/-- **The closed term of a chain of inverses of any length.** -/
theorem inv_chain_den {r : Bag} : ∀ (ls : List InvLayer) (l0 : InvLayer) (t : BTerm), Wired r (l0 :: ls) → Linked r (l0 :: ls) →
    BDen r l0.n t → BDen r (lastOut l0 ls) (invTerm (l0 :: ls) t)
  | [], l0, t, hw, _, h => inv_layer_den (hw l0 (List.mem_singleton.2 rfl)) h
  | l1 :: ls, l0, t, hw, hl, h => by
    have h0 := inv_layer_den (hw l0 List.mem_cons_self) h
    have h1 := hl.1 _ h0
    exact inv_chain_den ls l1 _ (fun l hl' => hw l (List.mem_cons_of_mem _ hl')) hl.2 h1

theorem linked_of_splits {r : Bag} : ∀ (ls : List InvLayer),
    (∀ pre a b post, ls = pre ++ a :: b :: post → ∀ s, BDen r a.o s → BDen r b.n s) → Linked r ls
  | [], _ => trivial
  | [_], _ => trivial
  | a :: b :: rest, h => ⟨h [] a b rest rfl, linked_of_splits (b :: rest) fun pre a' b' post he =>
      h (a :: pre) a' b' post (by rw [he]; rfl)⟩

theorem chain_reverse_eq {p c : BCtx} {outs : List BNode} {next : Nat} {o1 : List BNode} {e1 : List BEdge} {p1 : List BNode} {n1 : Nat}
    {o2 : List BNode} {e2 : List BEdge} {p2 : List BNode} {n2 : Nat} (h1 : c.reverse outs next = .ok (o1, e1, p1, n1))
    (h2 : p.reverse o1 n1 = .ok (o2, e2, p2, n2)) : (BCtx.chain p c).reverse outs next = .ok (o2, e1 ++ e2, p1 ++ p2, n2) := by
  simp only [BCtx.reverse, bind, Except.bind, h1, h2]

theorem chainOuts_inv : ∀ (ls : List InvLayer) (l0 : InvLayer) (outs : List BNode),
    chainOuts ((l0 :: ls).map InvLayer.ctx) outs = [lastOut l0 ls]
  | [], _, _ => rfl
  | l1 :: ls, l0, _ => by
    have ih := chainOuts_inv ls l1 l0.ctx.bo
    simpa [chainOuts, lastOut] using ih

theorem lastOut_mem : ∀ (ls : List InvLayer) (l0 : InvLayer), lastOut l0 ls ∈ (l0 :: ls).map (·.o)
  | [], l0 => by simp [lastOut]
  | l1 :: ls, l0 => by
    have := lastOut_mem ls l1
    simp only [lastOut, List.map_cons, List.mem_cons] at this ⊢
    exact Or.inr this

end CM
