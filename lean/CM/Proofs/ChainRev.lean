/-
  CM.Proofs.ChainRev — `Context.reverse` of a chain of any number of layers, in closed form (used by CM.Props.C10Chain).
-/
import CM.Proofs.LoopbackDen
namespace CM

/-- a layer as the chain's context sees it: backward inputs, backward outputs, the names it inherits backwards -/
structure CtxLayer where
  bi : List BNode
  bo : List BNode
  inh : NameSet

/-- the context of a chain of layers of any length - the LAST layer first: `ChainContext(ChainContext(L1, L2), L3)` is `chainCtx [L3, L2, L1]` -/
def chainCtx : List CtxLayer → BCtx
  | [] => .ident
  | [l] => .bag l.bi l.bo l.inh
  | l :: r :: rest => .chain (chainCtx (r :: rest)) (.bag l.bi l.bo l.inh)

/-- the stitches of one layer: each backward input is joined to the incoming node of its name -/
def stitchOf (bi outs : List BNode) : List BEdge :=
  bi.filterMap fun n => (byName outs n.name).map fun o => identityEdge o n

/-- all the stitches of the reversed chain: the last layer is stitched to what came in, every other layer to the backward outputs of the layer after it -/
def chainStitches : List CtxLayer → List BNode → List BEdge
  | [], _ => []
  | l :: rest, outs => stitchOf l.bi outs ++ chainStitches rest l.bo

/-- what the reversed chain returns: the backward outputs of the FIRST layer -/
def chainOuts : List CtxLayer → List BNode → List BNode
  | [], outs => outs
  | l :: rest, _ => chainOuts rest l.bo

/-- no layer hands a name on unchanged (every name a layer inherits backwards among those that reach it is one it inverts itself), and
names are pairwise different wherever `Context.reverse` checks them -/
def PlainChain : List CtxLayer → List BNode → Prop
  | [], _ => True
  | l :: rest, outs => (names outs).Nodup ∧ (names l.bo).Nodup ∧
      (∀ m ∈ outs, l.inh.mem m.name = true → (names l.bo).contains m.name = true) ∧ PlainChain rest l.bo

theorem plain_bag_reverse (l : CtxLayer) (outs : List BNode) (next : Nat) (hnd : (names outs).Nodup) (hbo : (names l.bo).Nodup)
    (hp : ∀ m ∈ outs, l.inh.mem m.name = true → (names l.bo).contains m.name = true) :
    (BCtx.bag l.bi l.bo l.inh).reverse outs next = .ok (l.bo, stitchOf l.bi outs, [], next) := by
  have hf : (outs.filter fun m => l.inh.mem m.name && !(names l.bo).contains m.name) = [] := by
    refine List.filter_eq_nil_iff.2 fun m hm => ?_
    cases hi : l.inh.mem m.name with
    | false => simp
    | true =>
      have := hp m hm hi
      simpa using this
  rw [bag_ctx_reverse l.bi l.bo l.inh outs next hnd hbo, hf]
  simp [cloneEdges, stitchOf]

/-- **`Context.reverse` of a chain of any length, in closed form.** -/
theorem chain_reverse_closed : ∀ (ls : List CtxLayer) (outs : List BNode) (next : Nat), PlainChain ls outs →
    (chainCtx ls).reverse outs next = .ok (chainOuts ls outs, chainStitches ls outs, [], next)
  | [], outs, next, _ => by simp [chainCtx, BCtx.reverse, chainOuts, chainStitches]
  | [l], outs, next, hp => by
    obtain ⟨hnd, hbo, hi, _⟩ := hp
    simp [chainCtx, chainOuts, chainStitches, plain_bag_reverse l outs next hnd hbo hi]
  | l :: r :: rest, outs, next, hp => by
    obtain ⟨hnd, hbo, hi, hrest⟩ := hp
    have ih := chain_reverse_closed (r :: rest) l.bo next hrest
    simp only [chainCtx, BCtx.reverse, bind, Except.bind]
    have h1 := plain_bag_reverse l outs next hnd hbo hi
    simp only [BCtx.reverse, bind, Except.bind] at h1
    rw [h1]
    simp only []
    rw [ih]
    simp [chainOuts, chainStitches]

/-- **Any number of layers: every layer's backward input is fed by the backward output of that name of the layer right after it.** -/
theorem chain_feeds : ∀ (pre : List CtxLayer) (later l : CtxLayer) (post : List CtxLayer) (outs : List BNode) (next : Nat) (n o : BNode),
    PlainChain (pre ++ later :: l :: post) outs → n ∈ l.bi → o ∈ later.bo → o.name = n.name →
    Feeds (chainCtx (pre ++ later :: l :: post)) outs next n o
  | [], later, l, post, outs, next, n, o, hp, hn, ho, hname => by
    obtain ⟨hnd, hbo, hi, hrest⟩ := hp
    have hby : byName later.bo n.name = some o := by
      have := byName_of_mem (names_inj_of_nodup hbo) ho
      rwa [hname] at this
    simp only [List.nil_append, chainCtx]
    refine .earlier (plain_bag_reverse later outs next hnd hbo hi) ?_
    cases post with
    | nil => exact .bag hn hby
    | cons q post => exact .later (.bag hn hby)
  | p :: pre, later, l, post, outs, next, n, o, hp, hn, ho, hname => by
    obtain ⟨hnd, hbo, hi, hrest⟩ := hp
    have ih := chain_feeds pre later l post p.bo next n o hrest hn ho hname
    cases hpre : pre ++ later :: l :: post with
    | nil => simp at hpre
    | cons r rest =>
      rw [hpre] at ih
      simp only [List.cons_append, hpre, chainCtx]
      exact .earlier (plain_bag_reverse p outs next hnd hbo hi) ih

end CM
