/-
  CM.Proofs.CallLemmas — how many user-function calls a request program can issue: at most one per node, either in
  the hash generator (hash-by-value / impure wrappers) or in the value generator (plain functions), never both.
-/
import CM.Proofs.ProgLemmas
namespace CM

mutual
  def Req.ncalls : Req → Nat
    | .call _ _ _ _ => 1
    | .await rs => Req.ncallsList rs
    | _ => 0
  def Req.ncallsList : List Req → Nat
    | [] => 0
    | r :: rs => r.ncalls + Req.ncallsList rs
end

/-- along every path the program issues at most `b` calls -/
inductive Prog.CallsLe : Nat → Prog → Prop
  | ret (b : Nat) (x : Item) : CallsLe b (.ret x)
  | raise (b : Nat) (e : Err) : CallsLe b (.raise e)
  | req (b : Nat) (r : Req) (k : Item → Prog) : r.ncalls ≤ b → (∀ x, CallsLe (b - r.ncalls) (k x)) → CallsLe b (.req r k)
  | eff (b : Nat) (op : StoreOp) (k : Option Val → Prog) : (∀ x, CallsLe b (k x)) → CallsLe b (.eff op k)

theorem Prog.CallsLe.mono {b b' : Nat} {p : Prog} (h : p.CallsLe b) (hle : b ≤ b') : p.CallsLe b' := by
  induction h generalizing b' with
  | ret b x => exact .ret _ x
  | raise b e => exact .raise _ e
  | req b r k hr _ ih => exact .req _ r k (by omega) (fun x => ih x (by omega))
  | eff b op k _ ih => exact .eff _ op k (fun x => ih x hle)

theorem Prog.CallsLe.bind {b : Nat} {p : Prog} {f : Item → Prog} (hp : p.CallsLe b) (hf : ∀ x, (f x).CallsLe 0) :
    (p.bind f).CallsLe b := by
  induction hp with
  | ret b x => exact (hf x).mono (Nat.zero_le _)
  | raise b e => exact .raise _ e
  | req b r k hr _ ih => exact .req _ r _ hr ih
  | eff b op k _ ih => exact .eff _ op _ ih

theorem ncallsList_map_parentHash (l : List Nat) : Req.ncallsList (l.map .parentHash) = 0 := by
  induction l with
  | nil => rfl
  | cons a as ih => simp [Req.ncallsList, Req.ncalls, ih]

theorem ncallsList_map_parentValue (l : List Nat) : Req.ncallsList (l.map .parentValue) = 0 := by
  induction l with
  | nil => rfl
  | cons a as ih => simp [Req.ncallsList, Req.ncalls, ih]

theorem ncallsList_append : ∀ (xs ys : List Req), Req.ncallsList (xs ++ ys) = Req.ncallsList xs + Req.ncallsList ys
  | [], ys => by simp [Req.ncallsList]
  | x :: xs, ys => by simp [Req.ncallsList, ncallsList_append xs ys]; omega

theorem ncallsList_reverse : ∀ (xs : List Req), Req.ncallsList xs.reverse = Req.ncallsList xs
  | [] => rfl
  | x :: xs => by simp [Req.ncallsList, ncallsList_append, ncallsList_reverse xs]; omega

theorem staticHash_calls (a b : Nat) (mk : List NHash → Prog) (h : ∀ hs, (mk hs).CallsLe b) : (staticHash a mk).CallsLe b := by
  have h0 : Req.ncalls (.await ((List.range a).map .parentHash)) = 0 := by simp [Req.ncalls, ncallsList_map_parentHash]
  refine .req _ _ _ (by omega) ?_
  intro x
  rw [h0]
  cases x with
  | tup xs => simp only; split <;> first | exact h _ | exact .raise _ _
  | _ => exact .raise _ _

theorem staticEval_calls (a b : Nat) (f : List Val → Prog) (h : ∀ vs, (f vs).CallsLe b) : (staticEval a f).CallsLe b := by
  have h0 : Req.ncalls (.await ((List.range a).map .parentValue)) = 0 := by simp [Req.ncalls, ncallsList_map_parentValue]
  refine .req _ _ _ (by omega) ?_
  intro x
  rw [h0]
  cases x with
  | tup xs => simp only; split <;> first | exact h _ | exact .raise _ _
  | _ => exact .raise _ _

/-- calls of `evaluate`: one for a plain function -/
def EdgeK.evalCalls : EdgeK → Nat
  | .function _ _ _ => 1
  | _ => 0

/-- calls of `compute_hash`: those of the wrapped `evaluate` -/
def EdgeK.hashCalls : EdgeK → Nat
  | .byValue i | .impure i => i.evalCalls
  | _ => 0

theorem simple_eval_calls (e : EdgeK) (a : Nat) (h : e.simple = true) : (e.evalProg a).CallsLe e.evalCalls := by
  cases e <;> simp [EdgeK.simple] at h
  · exact staticEval_calls _ _ _ fun vs => .req _ _ _ (by simp [Req.ncalls, EdgeK.evalCalls]) fun x => .ret _ x
  · exact staticEval_calls _ _ _ fun vs => .ret _ _
  · exact staticEval_calls _ _ _ fun vs => .ret _ _
  · exact staticEval_calls _ _ _ fun vs => .ret _ _
  · refine staticEval_calls _ _ _ fun vs => ?_
    split
    · split <;> first | exact .ret _ _ | exact .raise _ _
    · exact .raise _ _

macro "calls_auto" : tactic =>
  `(tactic| repeat (first | exact Prog.CallsLe.ret _ _ | exact Prog.CallsLe.raise _ _
                          | (refine Prog.CallsLe.req _ _ _ (by simp [Req.ncalls, Req.ncallsList]) ?_; intro _) | split))

theorem evalProg_calls (e : EdgeK) (a : Nat) (h : e.wf = true) : (e.evalProg a).CallsLe e.evalCalls := by
  cases e with
  | cache s => simp [EdgeK.wf] at h
  | function f kw sil => exact simple_eval_calls _ a rfl
  | identity => exact simple_eval_calls _ a rfl
  | constant v => exact simple_eval_calls _ a rfl
  | product => exact simple_eval_calls _ a rfl
  | checkIds => exact simple_eval_calls _ a rfl
  | barrier => simp only [EdgeK.evalProg]; calls_auto
  | byValue i => simp only [EdgeK.evalProg]; calls_auto
  | impure i => simp only [EdgeK.evalProg]; calls_auto
  | switch t => simp only [EdgeK.evalProg]; calls_auto
  | switchBranch => simp only [EdgeK.evalProg]; calls_auto
  | switchMissing i => simp only [EdgeK.evalProg]; calls_auto

theorem hashProg_calls (e : EdgeK) (a : Nat) (h : e.wf = true) : (e.hashProg a).CallsLe e.hashCalls := by
  cases e with
  | cache s => simp [EdgeK.wf] at h
  | function f kw sil => exact staticHash_calls _ _ _ fun _ => .ret _ _
  | identity => exact staticHash_calls _ _ _ fun _ => .ret _ _
  | constant v => exact staticHash_calls _ _ _ fun _ => .ret _ _
  | product => exact staticHash_calls _ _ _ fun _ => .ret _ _
  | checkIds => exact staticHash_calls _ _ _ fun _ => .ret _ _
  | barrier => simp only [EdgeK.hashProg]; calls_auto
  | byValue i =>
    simp only [EdgeK.wf] at h
    simp only [EdgeK.hashProg, EdgeK.hashCalls]
    refine (simple_eval_calls i a h).bind fun x => ?_
    calls_auto
  | impure i =>
    simp only [EdgeK.wf] at h
    simp only [EdgeK.hashProg, EdgeK.hashCalls]
    refine (simple_eval_calls i a h).bind fun x => ?_
    calls_auto
  | switch t => simp only [EdgeK.hashProg]; calls_auto
  | switchBranch => simp only [EdgeK.hashProg]; calls_auto
  | switchMissing i => simp only [EdgeK.hashProg]; calls_auto

theorem evalProg_calls_c (e : EdgeK) (a : Nat) (h : e.wf = true ∨ ∃ s, e = .cache s) : (e.evalProg a).CallsLe e.evalCalls := by
  rcases h with h | ⟨s, rfl⟩
  · exact evalProg_calls e a h
  · simp only [EdgeK.evalProg, EdgeK.evalCalls]
    refine .req _ _ _ (by simp [Req.ncalls]) fun x => ?_
    cases x with
    | hash h =>
      refine .eff _ _ _ fun r => ?_
      cases r with
      | some v => exact .ret _ _
      | none =>
        refine .req _ _ _ (by simp [Req.ncalls]) fun y => ?_
        cases y with
        | val v => exact .eff _ _ _ fun _ => .ret _ _
        | hash _ | hout _ _ | node _ | tup _ => exact .raise _ _
    | val _ | hout _ _ | node _ | tup _ => exact .raise _ _

theorem hashProg_calls_c (e : EdgeK) (a : Nat) (h : e.wf = true ∨ ∃ s, e = .cache s) : (e.hashProg a).CallsLe e.hashCalls := by
  rcases h with h | ⟨s, rfl⟩
  · exact hashProg_calls e a h
  · exact staticHash_calls _ _ _ fun _ => .ret _ _

theorem calls_le_one_c (e : EdgeK) (h : e.wf = true ∨ ∃ s, e = .cache s) : e.hashCalls + e.evalCalls ≤ 1 := by
  rcases h with h | ⟨s, rfl⟩
  · cases e with
    | byValue i => cases i <;> simp [EdgeK.hashCalls, EdgeK.evalCalls]
    | impure i => cases i <;> simp [EdgeK.hashCalls, EdgeK.evalCalls]
    | _ => simp [EdgeK.hashCalls, EdgeK.evalCalls]
  · simp [EdgeK.hashCalls, EdgeK.evalCalls]

/-- a node calls in one of its two generators only, and at most once -/
theorem calls_le_one (e : EdgeK) (h : e.wf = true) : e.hashCalls + e.evalCalls ≤ 1 := by
  cases e with
  | byValue i => cases i <;> simp [EdgeK.hashCalls, EdgeK.evalCalls]
  | impure i => cases i <;> simp [EdgeK.hashCalls, EdgeK.evalCalls]
  | _ => simp [EdgeK.hashCalls, EdgeK.evalCalls]

end CM
