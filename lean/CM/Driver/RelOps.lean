/-
  CM.Driver.RelOps — decoding of dataset pipeline descriptions and the `rel` operation of the line protocol.
-/
import CM.Driver.Codec
import CM.Model.Rel
open Lean
namespace CM

def ufnOfJson (owner name : String) (j : Json) : P UFn := do
  let fname := match j.getObjVal? "f" with
    | .ok (.str s) => s
    | _ => s!"{owner}.{name}"
  match j.getObjVal? "table" with
  | .ok (.arr rows) => do
    let t ← rows.toList.mapM fun r => do
      match ← jArr r with
      | [k, v] => pure ((← (← jArr k).mapM valOfJson), (← valOfJson v))
      | _ => throw "bad table row"
    pure { name := fname, table := some t }
  | _ => pure { name := fname }

def argsOf (j : Json) : P (List String) := jStrs (jFieldD j "args" (.arr #[]))

partial def dsOfJson (j : Json) (prev : Option DS) : P (Except Err DS) := do
  let k ← (← jField j "k").getStr?
  let needPrev : P DS := match prev with
    | some d => pure d
    | none => throw s!"layer {k} needs a previous dataset"
  match k with
  | "chain" =>
    let layers ← jArr (← jField j "layers")
    let mut cur : Option DS := prev
    for l in layers do
      match ← dsOfJson l cur with
      | .error e => return .error e
      | .ok d => cur := some d
    match cur with
    | some d => pure (.ok d)
    | none => throw "empty chain"
  | "source" =>
    let cls ← (← jField j "cls").getStr?
    let ids ← jStrs (← jField j "ids")
    let fields ← (← objPairs (← jField j "fields")).mapM fun (n, s) => do pure (n, (← ufnOfJson cls n s))
    pure (.ok {
      fields := "id" :: fields.map (·.1)
      ids := .ok ids
      value := fun f i =>
        if f == "id" then .ok (.str i)
        else match fields.find? (·.1 == f) with
          | some (_, fn) => .ok (fn.call [.str i])
          | none => .error .internal })
  | "transform" =>
    let p ← needPrev
    let cls ← (← jField j "cls").getStr?
    let fields ← (← objPairs (← jField j "fields")).mapM fun (n, s) => do
      pure (n, (← ufnOfJson cls n s), (← argsOf s))
    let inhAll := (jFieldD j "inherit" .null) == .bool true
    let inhList ← match j.getObjVal? "inherit" with
      | .ok (.arr xs) => xs.toList.mapM fun x => x.getStr?
      | _ => pure []
    let defined (n : String) : Bool := fields.any (·.1 == n)
    let inherits (n : String) : Bool := !defined n && (n == "id" || inhAll || inhList.contains n)
    pure (.ok {
      fields := fields.map (·.1) ++ p.fields.filter inherits
      ids := p.ids
      value := fun f i =>
        match fields.find? (·.1 == f) with
        | some (_, fn, args) => do
          let vs ← args.mapM fun a => p.value a i
          pure (fn.call vs)
        | none => p.value f i })
  | "filter" =>
    let p ← needPrev
    let fn ← ufnOfJson "filter" "pred" j
    let args ← argsOf j
    pure (.ok (filterDS (fun i => do
      let vs ← args.mapM fun a => p.value a i
      pure (fn.call vs).truthy) p))
  | "keep" =>
    let p ← needPrev
    let ids ← jStrs (← jField j "ids")
    pure (.ok (filterDS (fun i => do
      match ← p.value "id" i with
      | .str s => pure (ids.contains s)
      | _ => pure false) p))
  | "drop" =>
    let p ← needPrev
    let ids ← jStrs (← jField j "ids")
    pure (.ok (filterDS (fun i => do
      match ← p.value "id" i with
      | .str s => pure (!ids.contains s)
      | _ => pure true) p))
  | "check_ids" =>
    let p ← needPrev
    pure (.ok (checkIdsDS p))
  | "merge" =>
    let parts ← jArr (← jField j "parts")
    let mut ds : List DS := []
    for part in parts do
      match ← dsOfJson part none with
      | .error e => return .error e
      | .ok d => ds := ds ++ [d]
    pure (mergeDS ds)
  | "groupby" =>
    let p ← needPrev
    let byJ ← jField j "by"
    match byJ with
    | .str name => pure (groupByDS (fun i => do let v ← p.value name i; toKey [v]) p)
    | .arr names => do
      let ns ← names.toList.mapM fun x => x.getStr?
      pure (groupByDS (fun i => do let vs ← ns.mapM fun n => p.value n i; toKey vs) p)
    | _ => do
      let spec := byJ
      let fn ← ufnOfJson "groupby" "by" spec
      let args ← argsOf spec
      pure (groupByDS (fun i => do
        let vs ← args.mapM fun a => p.value a i
        toKey [fn.call vs]) p)
  | "split" =>
    let p ← needPrev
    let cls ← (← jField j "cls").getStr?
    let sp ← jField j "split"
    let sfn ← ufnOfJson cls "__split__" sp
    let sargs ← argsOf sp
    let fields ← (← objPairs (jFieldD j "fields" .null)).mapM fun (n, s) => do
      pure (n, (← ufnOfJson cls n s), (← argsOf s))
    let inhAll := (jFieldD j "inherit" .null) == .bool true
    let inhList ← match j.getObjVal? "inherit" with
      | .ok (.arr xs) => xs.toList.mapM fun x => x.getStr?
      | _ => pure []
    let own : List (String × (String → Val → Except Err Val)) := fields.map fun (n, fn, args) =>
      (n, fun old part => do
        let vs ← args.mapM fun a => if a == "__part__" then pure part else p.value a old
        pure (fn.call vs))
    pure (.ok (splitDS (fun old => do
        let vs ← sargs.mapM fun a => p.value a old
        splitPairs (sfn.call vs)) own (fun f => inhAll || inhList.contains f) p))
  | "join" =>
    let l ← dsOfJson (← jField j "left") none
    let r ← dsOfJson (← jField j "right") none
    let on ← jStrs (← jField j "on")
    let how : JoinMode := match j.getObjVal? "how" with
      | .ok (.str "left") => .left
      | .ok (.str "right") => .right
      | .ok (.str "outer") => .outer
      | _ => .inner
    match l, r with
    | .ok l, .ok r => pure (joinDS l r on how)
    | .error e, _ => pure (.error e)
    | _, .error e => pure (.error e)
  | _ => throw s!"unknown dataset layer {k}"

def exResToJson (r : Except Err Val) : Json :=
  match r with
  | .ok v => Json.mkObj [("ok", valToJson v)]
  | .error e => Json.mkObj [("err", errToJson e)]

/-- `{"op":"rel", desc, fields, query}` -/
def opRel (j : Json) : P Json := do
  let fields ← jStrs (← jField j "fields")
  let query ← jStrs (← jField j "query")
  match ← dsOfJson (← jField j "desc") none with
  | .error e => pure (Json.mkObj [("construct_err", errToJson e)])
  | .ok d =>
    let idsJ : List (String × Json) := match d.ids with
      | .ok ids => [("ids", toJson ids)]
      | .error e => [("ids_err", errToJson e)]
    let vals := fields.map fun f =>
      if !d.fields.contains f then (f, Json.mkObj [("compile_err", .str "FieldError")])
      else (f, Json.mkObj (query.map fun i => (i, exResToJson (d.value f i))))
    pure (Json.mkObj (idsJ ++ [("dir", toJson (sortDedup ("ids" :: d.fields))), ("values", Json.mkObj vals)]))

end CM
