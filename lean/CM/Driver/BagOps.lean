/-
  CM.Driver.BagOps — line-protocol operation `bag`: the node-level container model on bags taken from the real code.
  Edges other than `IdentityEdge` are opaque tags here (`fn` with the tag as function name).
-/
import CM.Driver.Codec
import CM.Model.Bag
import CM.Proofs.Check
import CM.Proofs.BagTerm
open Lean
namespace CM

def bnodeOfJson (j : Json) : P BNode := do
  match ← jArr j with
  | [i, n] => pure { id := (← i.getNat?), name := (← n.getStr?) }
  | _ => throw "bad node"

def bnodeToJson (n : BNode) : Json := .arr #[toJson n.id, .str n.name]
def bnodesToJson (ns : List BNode) : Json := .arr (ns.map bnodeToJson).toArray
def bnodesOfJson (j : Json) : P (List BNode) := do (← jArr j).mapM bnodeOfJson

def nameSetOfJson (j : Json) : P NameSet := do
  match j.getObjVal? "fin" with
  | .ok xs => pure (.fin (← jStrs xs))
  | .error _ => pure (.cofin (← jStrs (← jField j "cofin")))

def nameSetToJson : NameSet → Json
  | .fin xs => Json.mkObj [("fin", .arr (xs.map Json.str).toArray)]
  | .cofin xs => Json.mkObj [("cofin", .arr (xs.map Json.str).toArray)]

def bedgeOfJson (j : Json) : P BEdge := do
  pure { edge := (← edgeOfJson (← jField j "e")), ins := (← bnodesOfJson (← jField j "ins")),
         out := (← bnodeOfJson (← jField j "out")) }

def bedgeToJson (e : BEdge) : Json :=
  let lab := match e.edge with
    | .identity => Json.mkObj [("k", .str "ident")]
    | .function f _ _ => Json.mkObj [("k", .str "fn"), ("f", .str f)]
    | _ => Json.mkObj [("k", .str "other")]
  Json.mkObj [("e", lab), ("ins", bnodesToJson e.ins), ("out", bnodeToJson e.out)]

partial def ctxOfJson (j : Json) : P BCtx := do
  let k ← (← jField j "k").getStr?
  match k with
  | "no" => pure .no
  | "ident" => pure .ident
  | "bag" => pure (.bag (← bnodesOfJson (← jField j "inputs")) (← bnodesOfJson (← jField j "outputs"))
               (← nameSetOfJson (← jField j "inherit")))
  | "chain" => pure (.chain (← ctxOfJson (← jField j "previous")) (← ctxOfJson (← jField j "current")))
  | _ => throw s!"bad ctx {k}"

partial def ctxToJson : BCtx → Json
  | .no => Json.mkObj [("k", .str "no")]
  | .ident => Json.mkObj [("k", .str "ident")]
  | .bag i o h => Json.mkObj [("k", .str "bag"), ("inputs", bnodesToJson i), ("outputs", bnodesToJson o),
      ("inherit", nameSetToJson h)]
  | .chain p c => Json.mkObj [("k", .str "chain"), ("previous", ctxToJson p), ("current", ctxToJson c)]

def bagOfJson (j : Json) : P Bag := do
  pure { inputs := (← bnodesOfJson (← jField j "inputs")), outputs := (← bnodesOfJson (← jField j "outputs")),
         edges := (← (← jArr (← jField j "edges")).mapM bedgeOfJson),
         virt := (← nameSetOfJson (← jField j "virt")), persistent := (← jStrs (← jField j "persistent")),
         optional := (← bnodesOfJson (← jField j "optional")), ctx := (← ctxOfJson (← jField j "ctx")),
         next := (← (← jField j "next").getNat?) }

def bagToJson (b : Bag) : Json :=
  Json.mkObj [("inputs", bnodesToJson b.inputs), ("outputs", bnodesToJson b.outputs),
    ("edges", .arr (b.edges.map bedgeToJson).toArray), ("virt", nameSetToJson b.virt),
    ("persistent", .arr (b.persistent.map Json.str).toArray), ("optional", bnodesToJson b.optional),
    ("ctx", ctxToJson b.ctx), ("next", toJson b.next)]

def bagErrToJson : BagErr → Json
  | .graph r => Json.mkObj [("err", .str "GraphError"), ("rule", .str r)]
  | .duplicates => Json.mkObj [("err", .str "AssertionError")]
  | .value => Json.mkObj [("err", .str "ValueError")]
  | .key => Json.mkObj [("err", .str "KeyError")]

def bagResToJson : Except BagErr Bag → Json
  | .ok b => Json.mkObj [("ok", bagToJson b)]
  | .error e => bagErrToJson e

def compileErrToJson : CompileErr → Json
  | .dependency => .str "DependencyError"
  | .duplicates => .str "AssertionError"
  | .graph => .str "GraphError"
  | .key => .str "KeyError"

def fieldResToJson : FieldRes → Json
  | .node n => Json.mkObj [("node", bnodeToJson n)]
  | .virtualInput (some n) => Json.mkObj [("input", bnodeToJson n)]
  | .virtualInput none => Json.mkObj [("identity", .bool true)]
  | .discarded => Json.mkObj [("err", .str "FieldError"), ("why", .str "discarded")]
  | .undefined => Json.mkObj [("err", .str "FieldError"), ("why", .str "undefined")]

def storesOfJson (st : Json) : P (List MemStore) := do
  (← jArr (jFieldD st "stores" (.arr #[]))).mapM fun s =>
    match s with
    | .null => pure ({ size := none, table := [] } : MemStore)
    | s => do pure ({ size := some (← s.getNat?), table := [] } : MemStore)

/-- compile the graph of the node `o` of `b` and run the VM model on it (the second half of a `call` step) -/
def runNode (b : Bag) (o : BNode) (st : Json) (env : String → Option Val) (stores : List MemStore) : P Json := do
  let g := b.compileGraph o
  if !g.validate then pure (Json.mkObj [("err", .str "AssertionError"), ("graph_ok", .bool g.okCB)])
  else
    let impureFns ← jStrs (jFieldD st "impure" (.arr #[]))
    let constFns ← (← jArr (jFieldD st "const_fns" (.arr #[]))).mapM fun r => do
      match ← jArr r with
      | [n, v] => pure ((← n.getStr?), (← valOfJson v))
      | _ => throw "bad const_fns"
    let w : World := { stores := stores, impureFns := impureFns, constFns := constFns }
    match g.call env w 10000000 with
    | none => throw "out of fuel"
    | some (out, _) =>
      let r : Json := match out with
        | .done (.val v) _ => Json.mkObj [("ok", valToJson v)]
        | .done _ _ => Json.mkObj [("err", .str "internal")]
        | .raised e _ => Json.mkObj [("err", errToJson e)]
        | .next _ => Json.mkObj [("err", .str "internal")]
      -- what `CM.C02.node_pipeline_value` predicts, when its hypotheses hold: the value of the node's term
      -- `node_compile_ok` predicts `g.okB` from the first two conjuncts
      let edgesWf := b.edges.all (·.edge.wf)
      let hyp := b.wfB && edgesWf && acyclicB b.edges && g.callOKB env && impureFns.isEmpty
      let dcfg : DenCfg := { env := env, callNo := 0, impureFns := impureFns, constFns := constFns }
      let pred : Json := match (if hyp then b.term 64 o else none) with
        | some t => if t.noMissingB then (match (t.den dcfg).v with | .ok v => Json.mkObj [("ok", valToJson v)] | .error e => Json.mkObj [("err", errToJson e)]) else .null
        | none => .null
      pure (Json.mkObj [("r", r), ("sig", toJson g.signature), ("graph_ok", .bool g.okCB),
        ("call_ok", .bool (g.callOKB env)), ("nodes", toJson g.nodes.length), ("pipeline_hyp", .bool hyp), ("compile_hyp", .bool (b.wfB && edgesWf)), ("okB", .bool g.okB),
        ("predicted", pred)])

/-- `{"op":"bag","steps":[...]}`; steps: `connect` (left, right), `make` (the arguments of `EdgesBag(...)`),
`loopback` (bag, fbag), `compile` (bag, names), `reverse` (ctx, outputs, next). -/
def opBag (j : Json) : P Json := do
  let steps ← jArr (← jField j "steps")
  let outs ← steps.mapM fun st => do
    let t ← (← jField st "t").getStr?
    match t with
    | "connect" =>
      let l ← bagOfJson (← jField st "left")
      let r ← bagOfJson (← jField st "right")
      let res := connectBags l r
      let extra : List (String × Json) :=
        [("wf", .arr #[.bool l.wfB, .bool r.wfB]),
         ("wf_result", .bool (match res with | .ok c => c.wfB | .error _ => true))]
      match bagResToJson res with
      | .obj kvs => pure (Json.mkObj (kvs.toList ++ extra))
      | j => pure j
    | "make" =>
      let b ← bagOfJson (← jField st "bag")
      let raw : RawBag :=
        { inputs := b.inputs, outputs := b.outputs, edges := b.edges, ctx := b.ctx, virt := b.virt,
          persistent := b.persistent, optional := b.optional, next := b.next }
      pure (bagResToJson (mkBag raw))
    | "loopback" =>
      let b ← bagOfJson (← jField st "bag")
      let f ← bagOfJson (← jField st "fbag")
      pure (bagResToJson (b.loopbackWith f))
    | "function_to_bag" =>
      let f ← (← jField st "f").getStr?
      let ins ← jStrs (← jField st "inputs")
      let outs ← jStrs (← jField st "outputs")
      let single := (jFieldD st "single" (.bool false)) == .bool true
      pure (bagResToJson (functionToBag f ins outs single))
    | "compile" =>
      let b ← bagOfJson (← jField st "bag")
      let ns ← jStrs (← jField st "names")
      match b.validate with
      | .error e => pure (Json.mkObj [("err", compileErrToJson e)])
      | .ok av =>
        pure (Json.mkObj [("fields", .arr ((names av).map Json.str).toArray),
          ("get", .arr (ns.map fun n => fieldResToJson (b.getNode av n)).toArray)])
    | "call" =>
      -- the whole way in the model: validate, get_node, compile to a graph, run the VM on it
      let b ← bagOfJson (← jField st "bag")
      let name ← (← jField st "name").getStr?
      let env ← envOfJson (jFieldD st "env" (Json.mkObj []))
      let stores ← storesOfJson st
      match b.validate with
      | .error e => pure (Json.mkObj [("err", compileErrToJson e)])
      | .ok av =>
        match b.getNode av name with
        | .node o | .virtualInput (some o) => runNode b o st env stores
        | .virtualInput none => pure (Json.mkObj [("identity", .bool true)])
        | .discarded | .undefined => pure (Json.mkObj [("err", .str "FieldError")])
    | "call_tuple" =>
      -- `_compile((n1, ..., nk))`: a product node over the requested nodes; a virtual name that is no input becomes a new input
      let b ← bagOfJson (← jField st "bag")
      let ns ← jStrs (← jField st "names")
      let env ← envOfJson (jFieldD st "env" (Json.mkObj []))
      let stores ← storesOfJson st
      match b.validate with
      | .error e => pure (Json.mkObj [("err", compileErrToJson e)])
      | .ok av =>
        match b.tupleRequest av ns with
        | .error .field => pure (Json.mkObj [("err", .str "FieldError")])
        | .error .value => pure (Json.mkObj [("err", .str "ValueError")])
        | .ok (b', p) => runNode b' p st env stores
    | _ => throw s!"unknown bag step {t}"
  pure (Json.mkObj [("outs", .arr outs.toArray)])

end CM
