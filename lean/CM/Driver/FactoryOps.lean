/-
  CM.Driver.FactoryOps — line-protocol operation `factory`: the container the model builds for a layer description
  (`CM.Model.Factory`), with the edges spelled out (function name, constant value) so that it can be compared with the
  container the real `GraphFactory` / `ReversibleContainer` produce.
-/
import CM.Driver.BagOps
import CM.Model.Factory
import CM.Model.Merge
import CM.Model.CheckIds
import CM.Model.FilterBag
import CM.Model.GroupBag
import CM.Model.JoinBag
open Lean
namespace CM

partial def edgeKToJson : EdgeK → Json
  | .identity => Json.mkObj [("k", .str "ident")]
  | .function f kw silent => Json.mkObj [("k", .str "fn"), ("f", .str f), ("kw", .arr (kw.map Json.str).toArray),
      ("silent", .arr (silent.map fun (n : Nat) => toJson n).toArray)]
  | .constant v => Json.mkObj [("k", .str "const"), ("v", valToJson v)]
  | .cache s => Json.mkObj [("k", .str "cache"), ("store", toJson s)]
  | .switch table => Json.mkObj [("k", .str "switch"), ("table", .arr (table.map fun (k, i) => Json.arr #[valToJson k, toJson i]).toArray)]
  | .impure inner => Json.mkObj [("k", .str "impure"), ("inner", edgeKToJson inner)]
  | .byValue inner => Json.mkObj [("k", .str "byvalue"), ("inner", edgeKToJson inner)]
  | .checkIds => Json.mkObj [("k", .str "check_ids")]
  | .barrier => Json.mkObj [("k", .str "barrier")]
  | .switchBranch => Json.mkObj [("k", .str "switch_branch")]
  | .switchMissing i => Json.mkObj [("k", .str "switch_missing"), ("index", toJson i)]
  | _ => Json.mkObj [("k", .str "other")]

def bagToJsonSem (b : Bag) : Json :=
  Json.mkObj [("inputs", bnodesToJson b.inputs), ("outputs", bnodesToJson b.outputs),
    ("edges", .arr (b.edges.map fun e => Json.mkObj [("e", edgeKToJson e.edge), ("ins", bnodesToJson e.ins),
      ("out", bnodeToJson e.out)]).toArray), ("virt", nameSetToJson b.virt),
    ("persistent", .arr (b.persistent.map Json.str).toArray), ("optional", bnodesToJson b.optional),
    ("ctx", ctxToJson b.ctx), ("next", toJson b.next)]

def factoryErrToJson : FactoryErr → Json
  | .field => Json.mkObj [("err", .str "FieldError")]
  | .value => Json.mkObj [("err", .str "ValueError")]
  | .optional => Json.mkObj [("err", .str "GraphError"), ("rule", .str "detect_optionals")]
  | .bag e => bagErrToJson e

/-- `{"op":"factory","layers":[layer description, ...],"caches":[{"names": name set, "prev": [output names]}, ...]}` -/
def opFactory (j : Json) : P Json := do
  let ls ← (← jArr (jFieldD j "layers" (.arr #[]))).mapM rawLayerOfJson
  let outs := ls.map fun r =>
    match r.factory with
    | .ok b => Json.mkObj [("ok", bagToJsonSem b), ("wf", .bool b.wfB), ("acyclic", .bool (acyclicB b.edges))]
    | .error e => factoryErrToJson e
  let cs ← (← jArr (jFieldD j "caches" (.arr #[]))).mapM fun c => do
    let names ← nameSetOfJson (← jField c "names")
    let prev ← jStrs (← jField c "prev")
    pure (match cacheBag 0 names prev with
      | .ok b => Json.mkObj [("ok", bagToJsonSem b), ("wf", .bool b.wfB)]
      | .error e => bagErrToJson e)
  let ms ← (← jArr (jFieldD j "merges" (.arr #[]))).mapM fun m => do
    let parts ← (← jArr (← jField m "parts")).mapM bagOfJson
    let table ← (← jArr (← jField m "table")).mapM fun r => do
      match ← jArr r with
      | [key, i] => pure ((← valOfJson key), (← i.getNat?))
      | _ => throw "bad routing row"
    let keys ← (← jField m "keys").getStr?
    pure (match mergeBags table parts keys with
      | .ok b => Json.mkObj [("ok", bagToJsonSem b), ("wf", .bool b.wfB)]
      | .error .value => Json.mkObj [("err", .str "ValueError")]
      | .error (.bag e) => bagErrToJson e)
  let ks ← (← jArr (jFieldD j "checkids" (.arr #[]))).mapM fun c => do
    let prev ← bagOfJson c
    pure (match checkIdsBag prev with
      | .ok b => Json.mkObj [("ok", bagToJsonSem b), ("wf", .bool b.wfB)]
      | .error e => bagErrToJson e)
  let fs ← (← jArr (jFieldD j "filters" (.arr #[]))).mapM fun c => do
    let prev ← bagOfJson (← jField c "prev")
    let keys ← (← jField c "keys").getStr?
    pure (match filterConnect prev (.function "$FilterEdge" [] []) keys with
      | .ok b => Json.mkObj [("ok", bagToJsonSem b), ("wf", .bool b.wfB)]
      | .error e => bagErrToJson e)
  let gs ← (← jArr (jFieldD j "groups" (.arr #[]))).mapM fun c => do
    let prev ← bagOfJson c
    pure (match groupByBag prev with
      | .ok b => Json.mkObj [("ok", bagToJsonSem b), ("wf", .bool b.wfB)]
      | .error e => bagErrToJson e)
  let js ← (← jArr (jFieldD j "joins" (.arr #[]))).mapM fun c => do
    let l ← bagOfJson (← jField c "left")
    let r ← bagOfJson (← jField c "right")
    let on ← jStrs (← jField c "on")
    let how ← (← jField c "how").getStr?
    let cached ← (← jField c "cached").getBool?
    pure (match joinBag l r on how cached with
      | .ok b => Json.mkObj [("ok", bagToJsonSem b), ("wf", .bool b.wfB)]
      | .error e => bagErrToJson e)
  pure (Json.mkObj [("outs", .arr outs.toArray), ("caches", .arr cs.toArray), ("merges", .arr ms.toArray),
    ("checkids", .arr ks.toArray), ("filters", .arr fs.toArray),
    ("groups", .arr gs.toArray), ("joins", .arr js.toArray)])

end CM
