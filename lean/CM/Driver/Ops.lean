/-
  CM.Driver.Ops — the operations of the line protocol; each runs executable definitions of CM.Model.
-/
import CM.Driver.Codec
import CM.Driver.RelOps
import CM.Driver.BagOps
import CM.Driver.FactoryOps
import CM.Model.Shard
import CM.Model.Impure
import CM.Model.Loopback
import CM.Proofs.Check
open Lean
namespace CM

def resToJson (r : Except Err Val) : Json :=
  match r with
  | .ok v => Json.mkObj [("ok", valToJson v)]
  | .error e => Json.mkObj [("err", errToJson e)]

def hresToJson (r : Except Err NHash) : Json :=
  match r with
  | .ok v => Json.mkObj [("ok", hashToJson v)]
  | .error e => Json.mkObj [("err", errToJson e)]

def FUEL : Nat := 10000000

/-- `{"op":"vm", nodes, inputs, stores, impure, steps}` : a history of calls on one set of stores. -/
def opVm (j : Json) : P Json := do
  let nodes ← (← jArr (← jField j "nodes")).mapM nodeOfJson
  let inputs ← jNats (← jField j "inputs")
  let stores ← (← jArr (jFieldD j "stores" (.arr #[]))).mapM fun s =>
    match s with
    | .null => pure ({ size := none, table := [] } : MemStore)
    | .str _ => pure ({ size := none, table := [], exact := true } : MemStore)
    | s => do pure ({ size := some (← s.getNat?), table := [] } : MemStore)
  let impureFns ← jStrs (jFieldD j "impure" (.arr #[]))
  let constFns ← (← jArr (jFieldD j "const_fns" (.arr #[]))).mapM fun r => do
    match ← jArr r with
    | [n, v] => pure ((← n.getStr?), (← valOfJson v))
    | _ => throw "bad const_fns"
  let steps ← jArr (← jField j "steps")
  let mut w : World := { impureFns := impureFns, constFns := constFns, stores := stores }
  let mut outs : Array Json := #[]
  for st in steps do
    let t ← (← jField st "t").getStr?
    if t == "clear" then
      let i ← (← jField st "store").getNat?
      w := { w with stores := w.stores.modify i MemStore.clear }
      outs := outs.push (Json.mkObj [("ok", .null)])
    else
      let out ← (← jField st "out").getNat?
      let g : Graph := { nodes := nodes, inputs := inputs, output := out }
      if t == "hash_graph" then
        outs := outs.push (Json.mkObj [("h", hresToJson g.hashGraph), ("valid", .bool g.validate)])
      else if t == "detect_impure" then
        outs := outs.push (Json.mkObj [("impure", .bool (detectImpure g out))])
      else if t == "sig" then
        outs := outs.push (Json.mkObj [("sig", toJson g.signature), ("valid", .bool g.validate)])
      else
        let env ← envOfJson (jFieldD st "env" (Json.mkObj []))
        let failRel ← jNats (jFieldD st "fail_at" (.arr #[]))
        let w0 : World := { w with failAt := failRel.map (· + w.serial), log := [] }
        let dcfg : DenCfg := { env := env, callNo := w0.callNo, impureFns := impureFns, constFns := constFns }
        if !g.validate then
          outs := outs.push (Json.mkObj [("r", Json.mkObj [("err", .str "AssertionError")]), ("valid", .bool false)])
        else if t == "call" then
          match g.call env w0 FUEL with
          | none => throw "out of fuel"
          | some (o, n) =>
            let (r, s') : Json × St := match o with
              | .done (.val v) s' => (Json.mkObj [("ok", valToJson v)], s')
              | .done _ s' => (Json.mkObj [("err", .str "internal")], s')
              | .raised e s' => (Json.mkObj [("err", errToJson e)], s')
              | .next s' => (Json.mkObj [("err", .str "internal")], s')
            w := { s'.mem.world with callNo := w0.callNo + 1 }
            outs := outs.push (Json.mkObj [("r", r), ("log", .arr (s'.mem.world.log.reverse.map callRecToJson).toArray),
              ("steps", toJson n), ("den", resToJson (vden g dcfg)), ("sig", toJson g.signature),
              ("graph_ok", .bool g.okB), ("call_ok", .bool (g.callOKB env)),
              ("cached_ok", .bool (g.okCB && g.plainB dcfg && w0.stores.all (·.exact))),
              ("static_decoded",
                match g.usedInputs.head?.bind (fun i => env (g.node i).name) with
                | some x => if g.plainGB dcfg x then
                    (match g.hashGraph.toOption.bind (evalG x) with | some v => valToJson v | none => .null) else .null
                | none => .null),
              ("decoded", match hden g dcfg with
                | .ok h => if g.plainB dcfg then valToJson (decode h) else .null
                | .error _ => .null),
              ("sizes", toJson (w.stores.map fun s => s.table.length))])
        else if t == "hash" then
          match g.getHash env w0 FUEL with
          | none => throw "out of fuel"
          | some (o, n) =>
            let (r, s') : Json × St := match o with
              | .done (.hout h _) s' => (Json.mkObj [("ok", hashToJson h)], s')
              | .done _ s' => (Json.mkObj [("err", .str "internal")], s')
              | .raised e s' => (Json.mkObj [("err", errToJson e)], s')
              | .next s' => (Json.mkObj [("err", .str "internal")], s')
            w := { s'.mem.world with callNo := w0.callNo + 1 }
            outs := outs.push (Json.mkObj [("r", r), ("log", .arr (s'.mem.world.log.reverse.map callRecToJson).toArray),
              ("steps", toJson n), ("den", hresToJson (hden g dcfg)),
              ("graph_ok", .bool g.okB), ("call_ok", .bool (g.callOKB env))])
        else throw s!"unknown step {t}"
  pure (Json.mkObj [("results", .arr outs)])

/-- `{"op":"stack", layers, names}` : what the stack exposes (C02 / C09 / C18). -/
def opStack (j : Json) : P Json := do
  let raws ← match j.getObjVal? "tree" with
    | .ok t => do pure (← pipeOfJson t).flatten
    | .error _ => (← jArr (← jField j "layers")).mapM rawLayerOfJson
  let names ← jStrs (← jField j "names")
  match sigOf (layersOf raws) with
  | .error .graphError => pure (Json.mkObj [("construct_err", .str "GraphError")])
  | .error .fieldError => pure (Json.mkObj [("construct_err", .str "FieldError")])
  | .ok s =>
    if s.dependencyError then pure (Json.mkObj [("dir_err", .str "DependencyError")])
    else
      let fields := names.map fun n =>
        let o : Json := match s.field n with
          | .fieldError => Json.mkObj [("err", .str "FieldError")]
          | .identity => Json.mkObj [("identity", .bool true)]
          | .computed sg t => Json.mkObj [("sig", toJson sg), ("value", valToJson (t.eval fun p => .str ("$" ++ p)))]
        (n, o)
      pure (Json.mkObj [("dir", toJson s.dir), ("fields", Json.mkObj fields)])

/-- `{"op":"lru","size":n|null,"ops":[["get",h]|["set",h,v]|["clear"]]}` : the RAM table after every operation -/
def opLru (j : Json) : P Json := do
  let size : Option Nat ← match jFieldD j "size" .null with
    | .null => pure none
    | s => do pure (some (← s.getNat?))
  let ops ← jArr (← jField j "ops")
  let mut st : MemStore := { size := size, table := [] }
  let mut outs : Array Json := #[]
  for op in ops do
    match ← jArr op with
    | [.str "get", h] =>
      let (r, st') := st.get (← hashOfJson h)
      st := st'
      outs := outs.push (Json.mkObj [("hit", .bool r.isSome), ("v", match r with | some v => valToJson v | none => .null),
        ("n", toJson st.table.length)])
    | [.str "set", h, v] =>
      st := st.set (← hashOfJson h) (← valOfJson v)
      outs := outs.push (Json.mkObj [("n", toJson st.table.length)])
    | [.str "clear"] =>
      st := st.clear
      outs := outs.push (Json.mkObj [("n", toJson st.table.length)])
    | [.str "keys"] =>
      outs := outs.push (Json.mkObj [("keys", .arr (st.table.map fun (k, _) => hashToJson k).toArray)])
    | _ => throw "bad lru op"
  pure (Json.mkObj [("results", .arr outs)])

/-- `{"op":"shard","keys":[..],"size":n|null,"key":k}` -/
def opShard (j : Json) : P Json := do
  let keys ← jStrs (← jField j "keys")
  let key ← (← jField j "key").getStr?
  let size : Option Nat ← match jFieldD j "size" .null with
    | .null => pure none
    | s => do pure (some (← s.getNat?))
  match getShard keys size key with
  | .ok (shard, count, idx) => pure (Json.mkObj [("shard", toJson shard), ("count", toJson count), ("idx", toJson idx)])
  | .error e => pure (Json.mkObj [("err", errToJson e)])

/-- `{"op":"loopback", layers|tree, f, inputs, outputs (string or list), final (string or list)}` -/
def opLoopback (j : Json) : P Json := do
  let raws ← match j.getObjVal? "tree" with
    | .ok t => do pure (← pipeOfJson t).flatten
    | .error _ => (← jArr (← jField j "layers")).mapM rawLayerOfJson
  let f ← (← jField j "f").getStr?
  let inputs ← jStrs (← jField j "inputs")
  let (outputs, single) ← match ← jField j "outputs" with
    | .str s => pure ([s], true)
    | o => do pure ((← jStrs o), false)
  let final ← match ← jField j "final" with
    | .str s => pure [s]
    | o => jStrs o
  -- a list of outputs always goes through a tuple and `itemgetter`, also when it has one element
  let ls := layersOf raws
  let outs := if single then outputs else outputs
  match loopback ls f inputs outs final single with
  | .error .notReversible => pure (Json.mkObj [("err", .str "ValueError")])
  | .error (.stack _) => pure (Json.mkObj [("err", .str "GraphError")])
  | .error .fieldError => pure (Json.mkObj [("err", .str "FieldError")])
  | .error .dependency => pure (Json.mkObj [("err", .str "DependencyError")])
  | .ok res =>
    let vals := res.map fun (n, e) =>
      match e with
      | .term t => (n, Json.mkObj [("sig", toJson (t.inputs.eraseDups.mergeSort strLe)), ("value", valToJson (t.eval fun p => .str ("$" ++ p)))])
      | .broken _ => (n, Json.mkObj [("err", .str "FieldError")])
    pure (Json.mkObj [("fields", .arr (vals.map fun (n, o) => Json.arr #[.str n, o]).toArray), ("single", .bool single)])

def dispatch (j : Json) : P Json := do
  let op ← (← jField j "op").getStr?
  match op with
  | "vm" => opVm j
  | "stack" => opStack j
  | "rel" => opRel j
  | "lru" => opLru j
  | "loopback" => opLoopback j
  | "shard" => opShard j
  | "bag" => opBag j
  | "factory" => opFactory j
  | "ping" => pure (Json.mkObj [("pong", .bool true)])
  | _ => throw s!"unknown op {op}"

end CM
