/-
  CM.Driver.Codec — JSON encoding shared with the Python harness (harness/cv/codec.py).
  Not part of the model: only (de)serialisation.
-/
import Lean.Data.Json
import CM.Model.Denote
import CM.Model.StackRaw
import CM.Model.Pipe
open Lean
namespace CM

abbrev P := Except String

def jArr (j : Json) : P (List Json) := do let a ← j.getArr?; pure a.toList
def jField (j : Json) (k : String) : P Json := j.getObjVal? k
def jFieldD (j : Json) (k : String) (d : Json) : Json := (j.getObjVal? k).toOption.getD d
def jStrs (j : Json) : P (List String) := do (← jArr j).mapM fun x => x.getStr?
def jNats (j : Json) : P (List Nat) := do (← jArr j).mapM fun x => x.getNat?

partial def valOfJson (j : Json) : P Val :=
  match j with
  | .null => pure .none
  | .bool b => pure (.bool b)
  | .num _ => do pure (.int (← j.getInt?))
  | .str s => pure (.str s)
  | .arr xs => do pure (.tup (← xs.toList.mapM valOfJson))
  | .obj _ =>
    match j.getObjVal? "a" with
    | .ok a => do pure (.atom (← a.getStr?))
    | .error _ =>
    match j.getObjVal? "d" with
    | .ok d => do
      match ← jArr d with
      | [ks, vs] => pure (.dict (← (← jArr ks).mapM valOfJson) (← (← jArr vs).mapM valOfJson))
      | _ => throw "bad dict"
    | .error _ =>
    match j.getObjVal? "app" with
    | .ok d => do
      match ← jArr d with
      | [f, pos, kwn, kwv] =>
        pure (.app (← f.getStr?) (← (← jArr pos).mapM valOfJson) (← jStrs kwn) (← (← jArr kwv).mapM valOfJson))
      | _ => throw "bad app"
    | .error _ =>
    match j.getObjVal? "imp" with
    | .ok d => do
      match ← jArr d with
      | [f, c, n, pos, kwn, kwv] =>
        pure (.imp (← f.getStr?) (← c.getNat?) (← n.getNat?) (← (← jArr pos).mapM valOfJson) (← jStrs kwn)
          (← (← jArr kwv).mapM valOfJson))
      | _ => throw "bad imp"
    | .error _ => throw s!"bad value {j.compress}"

partial def valToJson : Val → Json
  | .none => .null
  | .bool b => .bool b
  | .int i => .num (JsonNumber.fromInt i)
  | .str s => .str s
  | .atom a => Json.mkObj [("a", .str a)]
  | .tup xs => .arr (xs.map valToJson).toArray
  | .dict ks vs => Json.mkObj [("d", .arr #[.arr (ks.map valToJson).toArray, .arr (vs.map valToJson).toArray])]
  | .app f p kn kv =>
    Json.mkObj [("app", .arr #[.str f, .arr (p.map valToJson).toArray, .arr (kn.map Json.str).toArray,
      .arr (kv.map valToJson).toArray])]
  | .imp f c n p kn kv =>
    Json.mkObj [("imp", .arr #[.str f, toJson c, toJson n, .arr (p.map valToJson).toArray,
      .arr (kn.map Json.str).toArray, .arr (kv.map valToJson).toArray])]

partial def hashToJson : NHash → Json
  | .leaf v => Json.mkObj [("leaf", valToJson v)]
  | .apply f a k => Json.mkObj [("apply", .arr #[.str f, .arr (a.map hashToJson).toArray, .arr (k.map Json.str).toArray])]
  | .graph h => Json.mkObj [("graph", hashToJson h)]
  | .custom m c => Json.mkObj [("custom", .arr #[.str m, .arr (c.map hashToJson).toArray])]

partial def hashOfJson (j : Json) : P NHash :=
  match j.getObjVal? "leaf" with
  | .ok v => do pure (.leaf (← valOfJson v))
  | .error _ =>
  match j.getObjVal? "graph" with
  | .ok h => do pure (.graph (← hashOfJson h))
  | .error _ =>
  match j.getObjVal? "apply" with
  | .ok d => do
    match ← jArr d with
    | [f, a, k] => pure (.apply (← f.getStr?) (← (← jArr a).mapM hashOfJson) (← jStrs k))
    | _ => throw "bad apply"
  | .error _ =>
  match j.getObjVal? "custom" with
  | .ok d => do
    match ← jArr d with
    | [m, c] => pure (.custom (← m.getStr?) (← (← jArr c).mapM hashOfJson))
    | _ => throw "bad custom"
  | .error _ => throw s!"bad hash {j.compress}"

partial def edgeOfJson (j : Json) : P EdgeK := do
  let k ← (← jField j "k").getStr?
  match k with
  | "fn" => pure (.function (← (← jField j "f").getStr?) (← jStrs (jFieldD j "kw" (.arr #[])))
              (← jNats (jFieldD j "silent" (.arr #[]))))
  | "ident" => pure .identity
  | "const" => pure (.constant (← valOfJson (← jField j "v")))
  | "product" => pure .product
  | "cache" => pure (.cache (← (← jField j "store").getNat?))
  | "barrier" => pure .barrier
  | "byvalue" => pure (.byValue (← edgeOfJson (← jField j "inner")))
  | "impure" => pure (.impure (← edgeOfJson (← jField j "inner")))
  | "switch" => do
    let rows ← jArr (← jField j "table")
    let table ← rows.mapM fun r => do
      match ← jArr r with
      | [key, i] => pure ((← valOfJson key), (← i.getNat?))
      | _ => throw "bad switch row"
    pure (.switch table)
  | "switch_branch" => pure .switchBranch
  | "switch_missing" => pure (.switchMissing (← (← jField j "index").getNat?))
  | "check_ids" => pure .checkIds
  | _ => throw s!"unknown edge kind {k}"

def nodeOfJson (j : Json) : P Node := do
  let name ← (← jField j "name").getStr?
  let parents ← jNats (jFieldD j "parents" (.arr #[]))
  match j.getObjVal? "edge" with
  | .ok .null => pure { name, edge := none, parents }
  | .ok e => pure { name, edge := some (← edgeOfJson e), parents }
  | .error _ => pure { name, edge := none, parents }

def envOfJson (j : Json) : P (String → Option Val) := do
  let o ← j.getObj?
  let kvs ← o.toList.mapM fun (k, v) => do pure (k, (← valOfJson v))
  pure fun name => (kvs.find? fun kv => kv.1 == name).map (·.2)

def errToJson (e : Err) : Json := .str e.name

def callRecToJson (c : CallRec) : Json :=
  .arr #[.str c.f, .arr (c.pos.map valToJson).toArray, .arr (c.kwn.map Json.str).toArray,
    .arr (c.kwv.map valToJson).toArray]


def rawFieldOfJson (owner : String) (name : String) (j : Json) : P RawField := do
  let f := match j.getObjVal? "f" with
    | .ok (.str s) => s
    | _ => s!"{owner}.{name}"
  pure { name, f, args := (← jStrs (jFieldD j "args" (.arr #[]))),
         opt := (jFieldD j "opt" (.bool false)) == .bool true,
         isMeta := (jFieldD j "meta" (.bool false)) == .bool true }

def objPairs (j : Json) : P (List (String × Json)) := do
  match j with
  | .null => pure []
  | _ => let o ← j.getObj?; pure o.toList

def rawLayerOfJson (j : Json) : P RawLayer := do
  let k ← (← jField j "k").getStr?
  let cls := match j.getObjVal? "cls" with | .ok (.str s) => s | _ => k
  match k with
  | "apply" =>
    let fns ← objPairs (← jField j "fns")
    let fields ← fns.mapM fun (n, f) => do pure ({ name := n, f := (← f.getStr?), args := [n] } : RawField)
    pure { k, cls, fields }
  | "source" | "transform" =>
    let fields ← (← objPairs (jFieldD j "fields" .null)).mapM fun (n, s) => rawFieldOfJson cls n s
    let params ← (← objPairs (jFieldD j "params" .null)).mapM fun (n, s) => rawFieldOfJson cls n s
    let defaults ← (← objPairs (jFieldD j "defaults" .null)).mapM fun (n, v) => do pure ("_" ++ n, (← valOfJson v))
    let cargs ← (← objPairs (jFieldD j "cargs" .null)).mapM fun (n, v) => do pure ("_" ++ n, (← valOfJson v))
    let consts := cargs ++ defaults.filter fun (n, _) => !(cargs.any fun c => c.1 == n)
    let inherit : RawInherit ← match j.getObjVal? "inherit" with
      | .ok (.bool true) => pure RawInherit.all
      | .ok (.arr xs) => do pure (RawInherit.names (← xs.toList.mapM fun x => x.getStr?))
      | _ => pure RawInherit.unset
    let exclude ← match j.getObjVal? "exclude" with
      | .ok (.arr xs) => do pure (some (← xs.toList.mapM fun x => x.getStr?))
      | _ => pure none
    let ids ← jStrs (jFieldD j "ids" (.arr #[]))
    let inverses ← (← objPairs (jFieldD j "inverses" .null)).mapM fun (n, s) => rawFieldOfJson (cls ++ ".inv") n s
    pure { k, cls, fields, params, consts, inherit, exclude, ids, inverses }
  | _ =>
    let names ← match j.getObjVal? "names" with
      | .ok (.arr xs) => do pure (some (← xs.toList.mapM fun x => x.getStr?))
      | _ => pure none
    pure { k, cls, cacheNames := names }

partial def pipeOfJson (j : Json) : P Pipe := do
  let k ← (← jField j "k").getStr?
  if k == "chain" then
    let fl : Flavour := match j.getObjVal? "flavour" with
      | .ok (.str "lazy") => .lazy
      | .ok (.str "rshift") => .rshift
      | _ => .chain
    let ps ← (← jArr (← jField j "layers")).mapM pipeOfJson
    pure (.group fl ps)
  else
    pure (.layer (← rawLayerOfJson j))

end CM
