/-
  CM.Model.Loopback — `layer._decorate(inputs, outputs, final)(f)`, `_wrap`, `_loopback`:
  forward fields through the layers in order, then `f`, then the inverse fields of the layers in reverse order.

  Mirrors containers/base.py (`EdgesBag.loopback`, `function_to_bag`), containers/context.py (`BagContext.reverse`,
  `ChainContext.reverse`, `IdentityContext`) and the part of interface/factory.py that collects `@inverse` fields.
-/
import CM.Model.Stack
namespace CM

/-- the states before every layer of a stack, and the final one: `prefixes ls = [s₀, s₁, …, sₙ]` -/
def sigPrefixes : List Layer → Sig → Except StackErr (List Sig)
  | [], s => .ok [s]
  | l :: ls, s =>
    match s.step l with
    | .error e => .error e
    | .ok s' => (sigPrefixes ls s').map (s :: ·)

/-- a missing *backward* value of layer `i` is recorded as `(i + BACK_OFFSET, name)`: backward input nodes are always optional
(`detect_optionals` returns them), forward input nodes are optional or not according to `Sig.leafOpt` -/
def BACK_OFFSET : Nat := 1000000

/-- what travels backwards: name ↦ what it computes -/
abbrev Back := List (String × Entry)

def Back.get (b : Back) (n : String) : Option Entry := lookupAssoc b n

/-- an inverse field of layer `l`: its arguments are inverse inputs (the current backward values) or the private
parameters of `l`, which are computed from the *forward* inputs of `l` (state `pre`, before the layer) -/
def Layer.inverseTerm (l : Layer) (pre : Sig) (b : Back) (f : String) (args : List String) : Option Entry :=
  let es := args.mapM fun a =>
    if isPrivate a then
      match lookupAssoc l.params a with
      | some (.const v) => some (Entry.term (.const v))
      | some (.fn pf pargs) => l.termOf pre PARAM_FUEL (some pf) pargs
      | none => none
    else some ((b.get a).getD (.broken [(l.index + BACK_OFFSET, a)]))
  es.map (combine (some f))

inductive LoopErr where
  | notReversible          -- `ValueError('The layer is not reversible')`
  | stack (e : StackErr)
  | fieldError             -- a requested final name has no inverse path
  | dependency             -- `DependencyError`: an output of the decorated graph lacks a *required* input
  deriving Repr, Inhabited

/-- one layer, backwards (`BagContext.reverse`): its inverse fields, plus the names it inherits backwards and does not
invert itself; cache layers pass everything (`IdentityContext`) -/
def Layer.reverse (l : Layer) (pre : Sig) (b : Back) : Option Back :=
  match l.kind with
  | .cache => some b
  | _ =>
    let own := l.inverses.mapM fun (n, d) =>
      match d with
      | .fn f args => (l.inverseTerm pre b f args).map fun e => (n, e)
      | .identity a => some (n, (b.get a).getD (.broken [(l.index + BACK_OFFSET, a)]))
      | .const v => some (n, .term (.const v))
    own.map fun own =>
      own ++ b.filter fun (n, _) => l.backInherit.mem n && !(own.any (·.1 == n))

/-- all layers in reverse order; `pres` are the forward states before each layer -/
def reverseAll : List (Layer × Sig) → Back → Option Back
  | [], b => some b
  | (l, pre) :: rest, b =>
    -- `rest` holds the earlier layers: the last layer is reversed first
    match l.reverse pre b with
    | none => none
    | some b' => reverseAll rest b'

/-- `_decorate(inputs, outputs, final)(f)` as a map from the final names to terms over the raw inputs -/
def loopback (ls : List Layer) (f : String) (inputs outputs final : List String) (single : Bool := false) :
    Except LoopErr (List (String × Entry)) :=
  match sigPrefixes ls {} with
  | .error e => .error (.stack e)
  | .ok pres =>
    let last := pres.getLastD {}
    -- forward: the arguments of `f` are fields of the pipeline (or raw inputs that every layer inherits)
    let top : Layer := { index := ls.length, kind := .transform, defs := [], params := [], opt := [], persistent := [],
                         inherit := .empty, inheritIsList := true, cacheNames := none }
    let args := inputs.map fun n => last.lookup top n
    let call := combine (some f) args
    -- a single output name is the result itself; a list of names goes through a tuple and `itemgetter(i)`
    let b0 : Back := match single, outputs with
      | true, [o] => [(o, call)]
      | _, os => os.zipIdx.map fun (o, i) => (o, combine (some s!"itemgetter:{i}") [call])
    match reverseAll ((ls.zip pres).reverse) b0 with
    | none => .error (.stack .fieldError)
    | some b =>
      -- `GraphCompiler._validate_optionals` looks at every output of the decorated graph, also those that were not asked for:
      -- a missing forward input that is not optional (a private parameter of an inverse reads a name no earlier layer provides,
      -- an argument of `f` that does not exist) makes the whole decoration unusable
      let required := fun (m : Nat × String) =>
        m.1 < BACK_OFFSET && !(((last.leafOpt.find? fun p => p.1 == m).map (·.2)).getD false)
      if b.any (fun (_, e) => match e with | .broken ms => ms.any required | .term _ => false) then .error .dependency
      else
      let res := final.map fun n => (n, b.get n)
      if res.any fun (_, e) => match e with | some (.term _) => false | _ => true then .error .fieldError
      else .ok (res.filterMap fun (n, e) => e.map fun e => (n, e))

end CM
