/-
  CM.Model.Impure — `CacheLayer._detect_impure` (layers/cache.py, as repaired with a visited set) and the
  reachability specification it implements.
-/
import CM.Model.VM
namespace CM

def EdgeK.isImpure : EdgeK → Bool
  | .impure _ => true
  | _ => false

/-- the traversal: parents before children, so `fuel = n + 1` suffices for node `n`; it looks through every
edge kind (caches, switches, wrappers) -/
def detectImpureAux (g : Graph) : Nat → Nat → Bool
  | 0, _ => false
  | fuel + 1, n =>
    match (g.node n).edge with
    | none => false                                  -- a leaf
    | some e => e.isImpure || (g.parents n).any (detectImpureAux g fuel)

/-- `_detect_impure(node, name)` raises iff this is `true` -/
def detectImpure (g : Graph) (n : Nat) : Bool := detectImpureAux g (g.nodes.length + 1) n

/-- specification: an impure edge is reachable from `n` through parents of any edge kind -/
inductive ReachImpure (g : Graph) : Nat → Prop
  | here (n : Nat) (e : EdgeK) : (g.node n).edge = some e → e.isImpure = true → ReachImpure g n
  | step (n p : Nat) (e : EdgeK) : (g.node n).edge = some e → p ∈ g.parents n → ReachImpure g p → ReachImpure g n

end CM
