import CM.Model.Bag
namespace CM

def joinMappingK : EdgeK := .function "$JoinMapping" [] []
def joinIdK (index : Nat) : EdgeK := .function s!"$id_maker({index})" [] []
def joinIdsK (how : String) : EdgeK := .function s!"$ids_maker({how})" [] []

/-- `JoinContainer.__init__(left, right, on, combiner, cache, verbose, how)` (layers/join.py): copies of both containers side by side; the mapping
`JoinMapping(left ids, right ids)`, optionally behind the user's cache edge, always behind a memory cache; a new input `id`, passed on as the output `id`;
the old keys of both sides computed from (new id, mapping) behind a hash barrier; the new `ids`; one `SwitchBranch` per key field; the fields of one
side only are either passed on or (when that side can be missing: `how`) guarded by `SwitchMissing` -/
def joinBag (l r0 : Bag) (on : List String) (how : String) (cached : Bool) : Except BagErr Bag :=
  let r := r0.shift l.next
  if hasDupStr on then .error .duplicates else
  match l.inputs, r.inputs with
  | [lk], [rk] =>
    match byName l.outputs "ids", byName r.outputs "ids" with
    | some kl, some kr =>
      if !(names l.outputs).contains lk.name || !(names r.outputs).contains rk.name then .error .key else
      let ol := l.outputs.filter fun o => o.name != "ids" && o.name != lk.name
      let or_ := r.outputs.filter fun o => o.name != "ids" && o.name != rk.name
      if on.any (fun x => x == lk.name || x == rk.name) then .error .value else
      let inter := (names ol).filter (names or_).contains
      if on.any (fun x => !inter.contains x) then .error .value else
      if inter.any (fun x => !on.contains x) then .error .value else
      let n := r.next
      let m0 : BNode := ⟨n, "$mapping"⟩
      let m1 : BNode := ⟨n + 1, "$mapping"⟩
      let mm : BNode := ⟨n + 2, "$mapping"⟩
      let inp : BNode := ⟨n + 3, "id"⟩
      let keyOut : BNode := ⟨n + 4, "id"⟩
      let aux1 : BNode := ⟨n + 5, "$aux"⟩
      let aux2 : BNode := ⟨n + 6, "$aux"⟩
      let keys : BNode := ⟨n + 7, "ids"⟩
      let onLoc : List BNode := (List.range on.length).zip on |>.map fun (i, x) => ⟨n + 8 + i, x⟩
      let leftOnly := ol.filter fun o => !inter.contains o.name
      let rightOnly := or_.filter fun o => !inter.contains o.name
      let b1 := n + 8 + on.length
      let leftLoc : List BNode := (List.range leftOnly.length).zip leftOnly |>.map fun (i, o) => ⟨b1 + i, o.name⟩
      let b2 := b1 + leftOnly.length
      let rightLoc : List BNode := (List.range rightOnly.length).zip rightOnly |>.map fun (i, o) => ⟨b2 + i, o.name⟩
      let guardLeft := how == "right" || how == "outer"
      let guardRight := how == "left" || how == "outer"
      let mapEdges : List BEdge :=
        [{ edge := joinMappingK, ins := [kl, kr], out := m0 }] ++
        (if cached then [{ edge := .cache 1, ins := [m0], out := m1 }, { edge := .cache 0, ins := [m1], out := mm }]
         else [{ edge := .cache 0, ins := [m0], out := mm }])
      let keyEdges : List BEdge :=
        [{ edge := joinIdK 0, ins := [inp, mm], out := aux1 }, { edge := .barrier, ins := [aux1], out := lk },
         { edge := joinIdK 1, ins := [inp, mm], out := aux2 }, { edge := .barrier, ins := [aux2], out := rk },
         identityEdge inp keyOut, { edge := joinIdsK how, ins := [mm], out := keys }]
      let onEdges : List BEdge := onLoc.filterMap fun loc =>
        match byName ol loc.name, byName or_ loc.name with
        | some a, some b => some { edge := .switchBranch, ins := [inp, mm, a, b], out := loc }
        | _, _ => none
      let leftEdges : List BEdge := if guardLeft then (leftOnly.zip leftLoc).map fun (o, loc) =>
        { edge := .switchMissing 0, ins := [inp, mm, o], out := loc } else []
      let rightEdges : List BEdge := if guardRight then (rightOnly.zip rightLoc).map fun (o, loc) =>
        { edge := .switchMissing 1, ins := [inp, mm, o], out := loc } else []
      mkBag { inputs := [inp],
              outputs := [keyOut, keys] ++ onLoc ++ (if guardLeft then leftLoc else leftOnly) ++ (if guardRight then rightLoc else rightOnly),
              edges := l.edges ++ r.edges ++ mapEdges ++ keyEdges ++ onEdges ++ leftEdges ++ rightEdges,
              virt := .fin [], persistent := l.persistent.filter r.persistent.contains, optional := l.optional ++ r.optional,
              ctx := .no, next := b2 + rightOnly.length }
    | _, _ => .error .key
  | _, _ => .error .value

end CM
