/-
  CM.Model.Rel — dataset-wide layers as operations on datasets: Merge (layers/merge.py), Filter
  (layers/filter.py), CheckIds (layers/check_ids.py), GroupBy (layers/group.py) and Join (layers/join.py).

  A dataset is what a pipeline with one input exposes: its `ids` and, for every field, a function of the id.
  User functions are uninterpreted (`app f [args]`) or given by a finite table (predicates, keys).
-/
import CM.Model.Graph
namespace CM

structure DS where
  /-- field names, `id` included, `ids` excluded -/
  fields : List String
  ids : Except Err (List String)
  value : String → String → Except Err Val

/-- a user function: uninterpreted, or a table over its argument values (other arguments give `None`) -/
structure UFn where
  name : String
  table : Option (List (List Val × Val)) := none

def UFn.call (f : UFn) (args : List Val) : Val :=
  match f.table with
  | none => .app f.name args [] []
  | some t => ((t.find? fun (k, _) => k == args).map (·.2)).getD .none

/-- Python truthiness of the values predicates return -/
def Val.truthy : Val → Bool
  | .none => false
  | .bool b => b
  | .int i => i != 0
  | .str s => s != ""
  | .tup xs => !xs.isEmpty
  | .dict ks _ => !ks.isEmpty
  | _ => true

/-! ### sorting ids -/

def strLt (a b : String) : Bool := a < b

/-- insert into a sorted list without duplicates -/
def insertSorted (x : String) : List String → List String
  | [] => [x]
  | y :: ys => if x == y then y :: ys else if strLt x y then x :: y :: ys else y :: insertSorted x ys

/-- `tuple(sorted(set(xs)))` -/
def sortDedup (xs : List String) : List String := xs.foldr insertSorted []

/-! ### Merge -/

/-- `id_to_dataset`: the owner of every id; `RuntimeError` when two datasets share an id -/
def ownerTable : List (List String) → Nat → List (String × Nat) → Except Err (List (String × Nat))
  | [], _, acc => .ok acc
  | ids :: rest, idx, acc =>
    if ids.any fun i => acc.any fun (j, _) => j == i then .error .runtimeError
    else ownerTable rest (idx + 1) (acc ++ ids.map fun i => (i, idx))

def ownerOf (table : List (String × Nat)) (i : String) : Option Nat :=
  (table.find? fun (j, _) => j == i).map (·.2)

/-- `getattr(dataset, ids_name)` for every dataset, in order -/
def idsOf : List DS → Except Err (List (List String))
  | [] => .ok []
  | p :: ps =>
    match p.ids with
    | .error e => .error e
    | .ok ids =>
      match idsOf ps with
      | .error e => .error e
      | .ok rest => .ok (ids :: rest)

def mergeDS (parts : List DS) : Except Err DS := do
  let idLists ← idsOf parts
  let table ← ownerTable idLists 0 []
  let common := match parts with
    | [] => []
    | p :: rest => p.fields.filter fun f => rest.all fun q => q.fields.contains f
  pure {
    fields := common
    ids := .ok (sortDedup (table.map (·.1)))
    value := fun f i =>
      match ownerOf table i with
      | none => .error .valueError
      | some k => match parts[k]? with
        | some p => p.value f i
        | none => .error .internal }

/-! ### Filter and CheckIds -/

def filterM (p : String → Except Err Bool) : List String → Except Err (List String)
  | [] => .ok []
  | x :: xs => do
    let keep ← p x
    let rest ← filterM p xs
    pure (if keep then x :: rest else rest)

/-- `Filter`: only `ids` changes -/
def filterDS (pred : String → Except Err Bool) (d : DS) : DS :=
  { d with ids := d.ids.bind (filterM pred) }

/-- `CheckIds`: every field raises `KeyError` for an id outside the current ids -/
def checkIdsDS (d : DS) : DS :=
  { d with value := fun f i =>
      match d.ids with
      | .error e => .error e
      | .ok ids => if ids.contains i then d.value f i else .error .keyError }

/-! ### GroupBy -/

/-- `to_hash_id`: SHA-256 based in the code; here an injective encoding (trusted base: collision resistance) -/
def toHashId (values : List String) : String :=
  "#" ++ String.intercalate "|" (values.map fun v => toString v.length ++ ":" ++ v)

/-- `to_key(*args)` -/
def toKey : List Val → Except Err String
  | [] => .error .assertionError
  | [.str s] => .ok s
  | [.tup xs] => toKeyTup xs.length xs
  | [_] => .error .typeError
  | vs => do
    let ks ← vs.mapM fun v => match v with
      | .str s => Except.ok s
      | .tup xs => toKeyTup xs.length xs
      | _ => .error .typeError
    pure (toHashId ks)
where
  toKeyTup : Nat → List Val → Except Err String
    | 0, _ => .error .assertionError
    | _ + 1, [] => .error .assertionError
    | _ + 1, [.str s] => .ok s
    | _ + 1, [_] => .error .typeError
    | fuel + 1, vs => do
      let ks ← vs.mapM fun v => match v with
        | .str s => Except.ok s
        | .tup xs => toKeyTup fuel xs
        | _ => .error .typeError
      pure (toHashId ks)

/-- `GroupMapping`: new key ↦ the old ids with that key -/
def groupMapping (keyOf : String → Except Err String) : List String → Except Err (List (String × List String))
  | [] => .ok []
  | i :: rest => do
    let m ← groupMapping keyOf rest
    let k ← keyOf i
    pure (if m.any (·.1 == k) then m.map fun (k', g) => if k' == k then (k', insertSorted i g) else (k', g)
          else m ++ [(k, [i])])

def groupByDS (keyOf : String → Except Err String) (d : DS) : Except Err DS :=
  let fields := "id" :: d.fields.filter (· != "id")
  if fields.length == 1 then .error .runtimeError
  else
    let mapping := d.ids.bind (groupMapping keyOf)
    .ok {
      fields := fields
      ids := mapping.map fun m => sortDedup (m.map (·.1))
      value := fun f new =>
        if f == "id" then .ok (.str new)
        else match mapping with
          | .error e => .error e
          | .ok m =>
            match m.find? (·.1 == new) with
            | none => .error .keyError
            | some (_, olds) => do
              let vs ← olds.mapM fun o => d.value f o
              pure (.dict (olds.map .str) vs) }

/-! ### Split -/

/-- the `(new id, part)` pairs one call of `__split__` yields -/
def splitPairs : Val → Except Err (List (String × Val))
  | .none => .ok []
  | .tup xs => xs.mapM fun x => match x with
    | .tup [.str new, part] => Except.ok (new, part)
    | _ => .error .typeError
  | _ => .error .typeError

/-- `SplitMapping`: new id ↦ (old id, part); a new id produced twice is an error (`assert new not in mapping`) -/
def addPairs (old : String) : List (String × Val) → List (String × String × Val) → Except Err (List (String × String × Val))
  | [], m => .ok m
  | (new, part) :: rest, m =>
    if m.any (·.1 == new) then .error .assertionError else addPairs old rest (m ++ [(new, old, part)])

def splitMapping (splitOf : String → Except Err (List (String × Val))) :
    List String → List (String × String × Val) → Except Err (List (String × String × Val))
  | [], m => .ok m
  | old :: rest, m => do
    let pairs ← splitOf old
    let m' ← addPairs old pairs m
    splitMapping splitOf rest m'

/-- `Split`: `fields` are the layer's own fields (name, function over previous fields at the old id and the part);
`inherits` says which previous fields pass through -/
def splitDS (splitOf : String → Except Err (List (String × Val)))
    (own : List (String × (String → Val → Except Err Val))) (inherits : String → Bool) (d : DS) : DS :=
  let mapping := d.ids.bind fun ids => splitMapping splitOf ids []
  { fields := "id" :: own.map (·.1) ++ d.fields.filter fun f => f != "id" && !(own.any (·.1 == f)) && inherits f
    ids := mapping.map fun m => sortDedup (m.map (·.1))
    value := fun f new =>
      if f == "id" then .ok (.str new)
      else match mapping with
        | .error e => .error e
        | .ok m =>
          match m.find? (·.1 == new) with
          | none => .error .keyError
          | some (_, old, part) =>
            match own.find? (·.1 == f) with
            | some (_, fn) => fn old part
            | none => d.value f old }

/-! ### Join -/

inductive JoinMode where | inner | left | right | outer
  deriving Repr, DecidableEq, Inhabited

/-- `_maybe_to_hash_id` on the tuple of key-field values -/
def joinKey (values : List Val) : Except Err String :=
  match values with
  | [.str s] => .ok s
  | vs => do
    let ks ← vs.mapM fun v => match v with | .str s => Except.ok s | _ => .error .typeError
    pure (toHashId ks)

/-- the keys of one side: key ↦ id; a second id with the same key is rejected (`reverse_func`) -/
def sideKeys (d : DS) (on : List String) : List String → Except Err (List (String × String))
  | [] => .ok []
  | i :: rest => do
    -- the code walks the ids front to back; the error does not depend on the direction
    let vals ← on.mapM fun f => d.value f i
    let k ← joinKey vals
    let m ← sideKeys d on rest
    if m.any (·.1 == k) then .error .valueError else pure ((k, i) :: m)

structure JoinMap where
  inner : List (String × String × String)
  leftOnly : List (String × String)
  rightOnly : List (String × String)

def joinMapping (l r : DS) (on : List String) : Except Err JoinMap := do
  let lk ← l.ids.bind (sideKeys l on)
  let rk ← r.ids.bind (sideKeys r on)
  pure {
    inner := lk.filterMap fun (k, i) => (rk.find? (·.1 == k)).map fun (_, j) => (k, i, j)
    leftOnly := lk.filter fun (k, _) => !rk.any (·.1 == k)
    rightOnly := rk.filter fun (k, _) => !lk.any (·.1 == k) }

def joinDS (l r : DS) (on : List String) (how : JoinMode) : Except Err DS :=
  let lf := l.fields.filter (· != "id")
  let rf := r.fields.filter (· != "id")
  let inter := lf.filter rf.contains
  if on.any (fun f => !inter.contains f) || inter.any (fun f => !on.contains f) then .error .valueError
  else
    let m := joinMapping l r on
    .ok {
      fields := "id" :: inter ++ lf.filter (!inter.contains ·) ++ rf.filter (!inter.contains ·)
      ids := m.map fun m =>
        sortDedup (m.inner.map (·.1) ++ (if how == .left || how == .outer then m.leftOnly.map (·.1) else []) ++
                   (if how == .right || how == .outer then m.rightOnly.map (·.1) else []))
      value := fun f key =>
        if f == "id" then .ok (.str key)
        else match m with
          | .error e => .error e
          | .ok m =>
            let inI := m.inner.find? (·.1 == key)
            let inL := m.leftOnly.find? (·.1 == key)
            let inR := m.rightOnly.find? (·.1 == key)
            if on.contains f then
              match inI, inL, inR with
              | some (_, i, _), _, _ => l.value f i
              | none, some (_, i), _ => l.value f i
              | none, none, some (_, j) => r.value f j
              | none, none, none => .error .keyError
            else if lf.contains f then
              match inI, inL, inR with
              | some (_, i, _), _, _ => l.value f i
              | none, some (_, i), _ => l.value f i
              | none, none, some _ => if how == .right || how == .outer then .ok .none else .error .keyError
              | none, none, none => .error .keyError
            else
              match inI, inR, inL with
              | some (_, _, j), _, _ => r.value f j
              | none, some (_, j), _ => r.value f j
              | none, none, some _ => if how == .left || how == .outer then .ok .none else .error .keyError
              | none, none, none => .error .keyError }

end CM
