/-
  CM.Model.Denote — the specification: what a compiled graph *means*, with no stacks, counters, memo
  tables or caches.  `hden`/`vden` interpret each node's request programs with pure handlers: a parent's
  value is the parent's denotation, a user function call is the term `app f ..`, every cache lookup
  misses.  This is "evaluating the user functions recursively in dependency order" (C01).
-/
import CM.Model.VM
namespace CM

/-- The pure handlers for a node's requests. -/
structure Ctx where
  ph : Nat → Except Err NHash
  pv : Nat → Except Err Val
  cur : Except Err (NHash × Val)
  call : String → List Val → List String → List Val → Val

mutual
  def interpReq (c : Ctx) : Req → Except Err Item
    | .parentHash i => (c.ph i).map .hash
    | .parentValue i => (c.pv i).map .val
    | .currentHash => c.cur.map fun x => .hash x.1
    | .payload => c.cur.map fun x => .val x.2
    | .await rs => (interpReqs c rs).map .tup
    | .call f pos kwn kwv => .ok (.val (c.call f pos kwn kwv))
  /-- the machine serves the last request first; the answers come back in request order -/
  def interpReqs (c : Ctx) : List Req → Except Err (List Item)
    | [] => .ok []
    | r :: rs =>
      match interpReqs c rs with
      | .error e => .error e
      | .ok xs =>
        match interpReq c r with
        | .error e => .error e
        | .ok x => .ok (x :: xs)
end

/-- A generator run against the pure handlers; cache lookups miss, cache writes are ignored. -/
def interp (c : Ctx) : Prog → Except Err Item
  | .ret x => .ok x
  | .raise e => .error e
  | .req r k =>
    match interpReq c r with
    | .error e => .error e
    | .ok x => interp c (k x)
  | .eff (.get _ _) k => interp c (k none)
  | .eff (.set _ _ _) k => interp c (k none)

/-- the output of `compute_hash` must be a `(NodeHash, payload)` pair; anything else is an internal error -/
def Item.asHout : Item → Except Err (NHash × Val)
  | .hout h p => .ok (h, p)
  | _ => .error .internal

def Item.asVal : Item → Except Err Val
  | .val v => .ok v
  | _ => .error .internal

/-- Denotation of one node given the denotations of all earlier nodes. -/
structure Den where
  h : Except Err (NHash × Val)
  v : Except Err Val
  deriving Inhabited

structure DenCfg where
  env : String → Option Val
  callNo : Nat := 0
  impureFns : List String := []
  constFns : List (String × Val) := []

def DenCfg.call (d : DenCfg) (n : Nat) (f : String) (pos : List Val) (kwn : List String) (kwv : List Val) : Val :=
  if let some (_, v) := d.constFns.find? (·.1 == f) then v
  else if d.impureFns.contains f then .imp f d.callNo n pos kwn kwv else .app f pos kwn kwv

/-- the handlers of node `i` during its hash phase: parents from the earlier denotations, no current hash yet -/
def denCtx (d : DenCfg) (acc : List Den) (i : Nat) (nd : Node) : Ctx :=
  { ph := fun j => match nd.parents[j]? with
      | some p => (acc.getD p ⟨.error .internal, .error .internal⟩).h.map (·.1)
      | none => .error .internal
    pv := fun j => match nd.parents[j]? with
      | some p => (acc.getD p ⟨.error .internal, .error .internal⟩).v
      | none => .error .internal
    cur := .error .internal
    call := d.call i }

def denNode (g : Graph) (d : DenCfg) (acc : List Den) (i : Nat) (nd : Node) : Den :=
  if g.usedInputs.contains i then
    match d.env nd.name with
    | some v => { h := .ok (.leaf v, .none), v := .ok v }
    | none => { h := .error .internal, v := .error .internal }
  else match nd.edge with
    | none => { h := .error .internal, v := .error .internal }
    | some e =>
      let c0 := denCtx d acc i nd
      let h : Except Err (NHash × Val) := (interp c0 (e.hashProg nd.parents.length)).bind Item.asHout
      let v : Except Err Val := (interp { c0 with cur := h } (e.evalProg nd.parents.length)).bind Item.asVal
      { h := h, v := v }

/-- the denotations of the nodes `i, i+1, …` appended to those of the earlier nodes -/
def denFrom (g : Graph) (d : DenCfg) : List Node → Nat → List Den → List Den
  | [], _, acc => acc
  | nd :: rest, i, acc => denFrom g d rest (i + 1) (acc ++ [denNode g d acc i nd])

def denAll (g : Graph) (d : DenCfg) : List Den := denFrom g d g.nodes 0 []

/-- the value of the output: what `Graph.__call__` must return -/
def vden (g : Graph) (d : DenCfg) : Except Err Val := ((denAll g d).getD g.output default).v

/-- the node hash of the output: what `Graph.get_hash` must return -/
def hden (g : Graph) (d : DenCfg) : Except Err NHash := ((denAll g d).getD g.output default).h.map (·.1)

end CM
