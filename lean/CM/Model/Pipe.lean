/-
  CM.Model.Pipe — chains of layers as written by the user: `a >> b >> c`, `Chain(a, b, c)`, nested `Chain`,
  `LazyChain`.  Mirrors layers/base.py: `Chain._connect` flattens (it re-applies its layers to the previous
  container), `LazyChain._connect` connects its layers one by one.  Both therefore contribute their layers in
  order; the bracketing does not matter.
-/
import CM.Model.StackRaw
namespace CM

inductive Flavour where | chain | rshift | lazy
  deriving Repr, BEq, Inhabited

inductive Pipe where
  | layer (r : RawLayer)
  | group (fl : Flavour) (ps : List Pipe)
  deriving Inhabited

mutual
  def Pipe.flatten : Pipe → List RawLayer
    | .layer r => [r]
    | .group _ ps => Pipe.flattenList ps
  def Pipe.flattenList : List Pipe → List RawLayer
    | [] => []
    | p :: ps => p.flatten ++ Pipe.flattenList ps
end

/-- what a written pipeline exposes -/
def Pipe.sig (p : Pipe) : Except StackErr Sig := sigOf (layersOf p.flatten)

end CM
