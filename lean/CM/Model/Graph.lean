/-
  CM.Model.Graph — graphs of edges, and every edge class as a pair of *request programs*.

  Mirrors: connectome/engine/base.py (Command, Edge, TreeNode), engine/edges.py (all edge classes),
  layers/merge.py (SwitchEdge), layers/join.py (SwitchBranch, SwitchMissing), layers/check_ids.py
  (CheckIdsEdge).  A Python generator becomes a `Prog`: a tree whose internal nodes are the requests it
  yields (`req`) or the cache operations it performs between two yields (`eff`), and whose leaves are
  `return` / `raise`.
-/
import CM.Model.Value
namespace CM

/-- Requests an edge's generator can yield (engine/base.py `Command`, the non-negative members). -/
inductive Req where
  | parentHash (i : Nat)
  | parentValue (i : Nat)
  | currentHash
  | payload
  | await (rs : List Req)
  | call (f : String) (pos : List Val) (kwn : List String) (kwv : List Val)
  deriving Repr, Inhabited

/-- Cache operations performed inside a generator between two yields (`Cache.get` / `Cache.set`). -/
inductive StoreOp where
  | get (store : Nat) (key : NHash)
  | set (store : Nat) (key : NHash) (v : Val)
  deriving Repr, Inhabited

/-- A generator, as a free monad over requests and store operations. -/
inductive Prog where
  | ret (x : Item)
  | raise (e : Err)
  | req (r : Req) (k : Item → Prog)
  /-- the answer of `get` is `some v` on a hit and `none` on a miss; the answer of `set` is `none` -/
  | eff (op : StoreOp) (k : Option Val → Prog)

instance : Inhabited Prog := ⟨.raise .internal⟩

def Prog.bind : Prog → (Item → Prog) → Prog
  | .ret x, f => f x
  | .raise e, _ => .raise e
  | .req r k, f => .req r (fun x => (k x).bind f)
  | .eff op k, f => .eff op (fun x => (k x).bind f)

/-- Edge kinds.  `byValue` is `ComputableHashEdge`, `impure` is `ImpureEdge`. -/
inductive EdgeK where
  | function (f : String) (kwn : List String) (silent : List Nat)
  | identity
  | constant (v : Val)
  | product
  | cache (store : Nat)
  | barrier
  | byValue (inner : EdgeK)
  | impure (inner : EdgeK)
  | switch (table : List (Val × Nat))
  | switchBranch
  | switchMissing (index : Nat)
  | checkIds
  deriving Repr, Inhabited

/-- A `TreeNode`: a leaf (`edge = none`) or an edge with its parents, given by index. -/
structure Node where
  name : String
  edge : Option EdgeK
  parents : List Nat
  deriving Repr, Inhabited

/-- The arguments of `Graph(inputs, output)`: all nodes (parents before children), the declared
inputs and the output. -/
structure Graph where
  nodes : List Node
  inputs : List Nat
  output : Nat
  deriving Repr, Inhabited

def Graph.node (g : Graph) (n : Nat) : Node := g.nodes.getD n default
def Graph.parents (g : Graph) (n : Nat) : List Nat := (g.node n).parents

/-- parents have smaller indices (what `TreeNode.from_edges` builds from an acyclic edge list) -/
def Graph.Topo (g : Graph) : Prop := ∀ n p, p ∈ g.parents n → p < n

/-! ### Python-level helpers -/

mutual
  /-- Python `==` between values used as dictionary keys: `1 == True`; tuples compare elementwise. -/
  def Val.pyEq : Val → Val → Bool
    | .bool x, .int y => (if x then 1 else 0) == y
    | .int x, .bool y => x == (if y then 1 else 0)
    | .tup xs, .tup ys => Val.pyEqList xs ys
    -- symbolic results of user functions compare like the tuples of their arguments do
    | .app f p k v, .app g q l w => f == g && Val.pyEqList p q && k == l && Val.pyEqList v w
    | .imp f c n p k v, .imp g d m q l w => f == g && c == d && n == m && Val.pyEqList p q && k == l && Val.pyEqList v w
    | x, y => x == y
  def Val.pyEqList : List Val → List Val → Bool
    | [], [] => true
    | x :: xs, y :: ys => Val.pyEq x y && Val.pyEqList xs ys
    | _, _ => false
end

/-- `key in d` / `d[key]` for a dictionary value. -/
def dictLookup : List Val → List Val → Val → Option Val
  | k :: ks, v :: vs, key => if k.pyEq key then some v else dictLookup ks vs key
  | _, _, _ => none

def Val.dictGet? : Val → Val → Option Val
  | .dict ks vs, key => dictLookup ks vs key
  | _, _ => none

def tableLookup : List (Val × Nat) → Val → Option Nat
  | [], _ => none
  | (k, i) :: rest, key => if k.pyEq key then some i else tableLookup rest key

/-! ### Programs of the edge classes -/

def asHashes : List Item → Option (List NHash)
  | [] => some []
  | .hash h :: rest => (asHashes rest).map (h :: ·)
  | _ => none

def asVals : List Item → Option (List Val)
  | [] => some []
  | .val v :: rest => (asVals rest).map (v :: ·)
  | _ => none

/-- `StaticHash.compute_hash`: await all parent hashes, then `_compute_hash`. -/
def staticHash (arity : Nat) (mk : List NHash → Prog) : Prog :=
  .req (.await ((List.range arity).map .parentHash)) fun
    | .tup xs => match asHashes xs with
      | some hs => mk hs
      | none => .raise .internal
    | _ => .raise .internal

/-- `StaticEdge.evaluate`: await all parent values, then `_evaluate`. -/
def staticEval (arity : Nat) (f : List Val → Prog) : Prog :=
  .req (.await ((List.range arity).map .parentValue)) fun
    | .tup xs => match asVals xs with
      | some vs => f vs
      | none => .raise .internal
    | _ => .raise .internal

/-- `FunctionEdge._make_hash`: silent positions are overwritten by `LeafHash(None)`. -/
def silence (silent : List Nat) (hs : List NHash) : List NHash :=
  hs.zipIdx.map fun (h, i) => if silent.contains i then .leaf .none else h

mutual
  /-- `edge._hash_graph(inputs)` -/
  def EdgeK.hashGraph : EdgeK → List NHash → Except Err NHash
    | .function f kwn silent, hs => .ok (.apply f (silence silent hs) kwn)
    | .identity, hs => .ok (hs.getD 0 default)
    | .constant v, _ => .ok (.leaf v)
    | .product, hs => .ok (.apply "tuple" hs [])
    | .cache _, hs => .ok (hs.getD 0 default)
    | .barrier, hs => .ok (hs.getD 0 default)
    | .byValue inner, hs => inner.hashGraph hs
    | .impure _, _ => .error .hashError
    | .switch table, hs =>
        .ok (.custom "connectome.SwitchEdge" (.leaf (switchTableVal table) :: hs))
    | .switchBranch, hs => .ok (.custom "connectome.SwitchBranch" hs)
    | .switchMissing idx, hs => .ok (.custom "connectome.SwitchMissing" (.leaf (.int idx) :: hs))
    | .checkIds, hs => .ok (hs.getD 0 default)
  /-- `LeafHash(tuple(sorted(id_to_index.items())))`: the table is kept sorted by the harness. -/
  def switchTableVal (table : List (Val × Nat)) : Val :=
    .tup (table.map fun (k, i) => .tup [k, .int i])
end

/-- `evaluate()` of an edge of the given arity. -/
def EdgeK.evalProg : EdgeK → Nat → Prog
  | .function f kwn _, arity =>
      staticEval arity fun vs =>
        let npos := vs.length - kwn.length
        .req (.call f (vs.take npos) kwn (vs.drop npos)) .ret
  | .identity, arity => staticEval arity fun vs => .ret (.val (vs.getD 0 .none))
  | .constant v, arity => staticEval arity fun _ => .ret (.val v)
  | .product, arity => staticEval arity fun vs => .ret (.val (.tup vs))
  | .cache s, _ =>
      .req .currentHash fun
        | .hash h => .eff (.get s h) fun
          | some v => .ret (.val v)
          | none => .req (.parentValue 0) fun
            | .val v => .eff (.set s h v) fun _ => .ret (.val v)
            | _ => .raise .internal
        | _ => .raise .internal
  | .barrier, _ => .req .payload .ret
  | .byValue _, _ => .req .payload .ret
  | .impure _, _ => .req .payload .ret
  | .switch _, _ =>
      .req .payload fun
        | .val (.int p) => .req (.parentValue (p.toNat + 1)) .ret
        | _ => .raise .internal
  | .switchBranch, _ =>
      .req .payload fun
        | .val (.int p) => .req (.parentValue p.toNat) .ret
        | _ => .raise .internal
  | .switchMissing _, _ =>
      .req .payload fun
        | .val (.bool true) => .req (.parentValue 2) .ret
        | .val (.bool false) => .ret (.val .none)
        | _ => .raise .internal
  | .checkIds, arity =>
      staticEval arity fun vs =>
        match vs with
        | [id, .tup ids] => if ids.any (·.pyEq id) then .ret (.val id) else .raise .keyError
        | _ => .raise .internal

/-- the `(inner, left, right)` triple produced by `JoinMapping` -/
def keyIn (key : Val) (d : Val) : Bool := (d.dictGet? key).isSome

/-- `compute_hash()` of an edge of the given arity. -/
def EdgeK.hashProg : EdgeK → Nat → Prog
  | .function f kwn silent, arity =>
      staticHash arity fun hs => .ret (.hout (.apply f (silence silent hs) kwn) .none)
  | .identity, arity => staticHash arity fun hs => .ret (.hout (hs.getD 0 default) .none)
  | .constant v, arity => staticHash arity fun _ => .ret (.hout (.leaf v) .none)
  | .product, arity => staticHash arity fun hs => .ret (.hout (.apply "tuple" hs []) .none)
  | .cache _, arity => staticHash arity fun hs => .ret (.hout (hs.getD 0 default) .none)
  | .barrier, _ =>
      .req (.parentValue 0) fun
        | .val v => .ret (.hout (.leaf v) v)
        | _ => .raise .internal
  | .byValue inner, arity =>
      (inner.evalProg arity).bind fun
        | .val v => .ret (.hout (.leaf v) v)
        | _ => .raise .internal
  | .impure inner, arity =>
      (inner.evalProg arity).bind fun
        | .val v => .ret (.hout (.leaf v) v)
        | _ => .raise .internal
  | .switch table, _ =>
      .req (.parentValue 0) fun
        | .val key => match tableLookup table key with
          | none => .raise .valueError
          | some idx => .req (.parentHash (idx + 1)) fun
            | .hash h => .ret (.hout h (.int idx))
            | _ => .raise .internal
        | _ => .raise .internal
  | .switchBranch, _ =>
      .req (.await [.parentValue 0, .parentValue 1]) fun
        | .tup [.val key, .val (.tup [inner, left, right])] =>
            let index : Option Nat :=
              if keyIn key inner || keyIn key left then some 2
              else if keyIn key right then some 3 else none
            match index with
            | none => .raise .keyError
            | some i => .req (.parentHash i) fun
              | .hash h => .ret (.hout h (.int i))
              | _ => .raise .internal
        | _ => .raise .internal
  | .switchMissing index, _ =>
      .req (.await [.parentValue 0, .parentValue 1]) fun
        | .tup [.val key, .val (.tup [inner, left, right])] =>
            let this := if index == 0 then left else right
            let other := if index == 0 then right else left
            if keyIn key inner || keyIn key this then
              .req (.parentHash 2) fun
                | .hash h => .ret (.hout h (.bool true))
                | _ => .raise .internal
            else if keyIn key other then .ret (.hout (.leaf .none) (.bool false))
            else .raise .keyError
        | _ => .raise .internal
  | .checkIds, arity => staticHash arity fun hs => .ret (.hout (hs.getD 0 default) .none)

end CM
