/-
  CM.Model.Bag — the node-level model of the container machinery.

  Mirrors, function by function:
    connectome/containers/base.py     `EdgesBag.__init__`, `normalize_bag` (rules 1a, 2, 2a, 3, 4, 5), `connect_bags`,
                                      `EdgesBag.freeze` (fresh copies = fresh identities), `EdgesBag.loopback`,
                                      `function_to_bag`, `detect_cycles`
    connectome/containers/context.py  `NoContext`, `IdentityContext`, `BagContext`, `ChainContext` (`reverse`)
    connectome/engine/compiler.py     `GraphCompiler.__init__`, `_validate_optionals`, `find_dependencies`,
                                      `fields`, `get_node` of `_compile`
    connectome/utils.py               `check_for_duplicates`, `node_to_dict`

  A Python `Node` object is an identity with a name: `BNode` carries a natural number as identity; `clone()` and
  `freeze()` allocate fresh numbers from the bag's counter `next`.  Python sets of nodes are lists here; every
  observable of the real code that depends on set iteration order is compared up to order by the harness.
-/
import CM.Model.VM
import CM.Model.NameSet
namespace CM

structure BNode where
  id : Nat
  name : String
  deriving Repr, BEq, DecidableEq, Inhabited, ReflBEq, LawfulBEq

/-- a `BoundEdge` -/
structure BEdge where
  edge : EdgeK
  ins : List BNode
  out : BNode
  deriving Repr, Inhabited

inductive BagErr where
  /-- `GraphError`, with the number of the rule of `normalize_bag` that fired -/
  | graph (rule : String)
  /-- `check_for_duplicates`: an `assert` -/
  | duplicates
  /-- `ValueError` (`NoContext.reverse`, duplicates in `function_to_bag`) -/
  | value
  /-- `KeyError`: an input node that occurs in no edge and is no output (`mapping[node]` in rule 1a) -/
  | key
  deriving Repr, BEq, DecidableEq, Inhabited

/-- `containers/context.py` -/
inductive BCtx where
  | no
  | ident
  | bag (inputs outputs : List BNode) (inherit : NameSet)
  | chain (previous current : BCtx)
  deriving Repr, Inhabited

structure Bag where
  inputs : List BNode
  outputs : List BNode
  edges : List BEdge
  virt : NameSet
  persistent : List String
  optional : List BNode
  ctx : BCtx := .no
  /-- every identity used by the bag is below `next` -/
  next : Nat
  deriving Repr, Inhabited

def names (ns : List BNode) : List String := ns.map (·.name)

def hasDupStr : List String → Bool
  | [] => false
  | x :: xs => xs.contains x || hasDupStr xs

/-- `check_for_duplicates` -/
def checkDups (ns : List BNode) : Except BagErr Unit :=
  if hasDupStr (names ns) then .error .duplicates else .ok ()

/-- `node_to_dict(nodes)[name]` -/
def byName (ns : List BNode) (n : String) : Option BNode := ns.find? (·.name == n)

def identityEdge (i o : BNode) : BEdge := { edge := .identity, ins := [i], out := o }

/-- the node that an edge list gives as the edge into `n`, if any (`bridges` of `TreeNode.from_edges`) -/
def incoming (es : List BEdge) (n : BNode) : Option BEdge := es.find? (·.out == n)

def isLeafIn (es : List BEdge) (n : BNode) : Bool := (incoming es n).isNone

/-! ### Rule 2 and rule 4 -/

def multipleIncoming : List BEdge → Bool
  | [] => false
  | e :: es => es.any (·.out == e.out) || multipleIncoming es

/-- One round of peeling: the edges none of whose inputs is produced by a remaining edge. -/
def readyEdges (es : List BEdge) : List BEdge :=
  es.filter fun e => e.ins.all fun i => isLeafIn es i

def notReady (es : List BEdge) : List BEdge :=
  es.filter fun e => !(e.ins.all fun i => isLeafIn es i)

/-- Peel ready edges off until nothing is left or nothing is ready: the order is topological. -/
def peel : Nat → List BEdge → List BEdge × List BEdge
  | 0, es => ([], es)
  | fuel + 1, es =>
    let r := readyEdges es
    if r.isEmpty then ([], es)
    else
      let (done, rest) := peel fuel (notReady es)
      (r ++ done, rest)

/-- the edges in an order in which parents come first, and what is left on a cycle -/
def topoEdges (es : List BEdge) : List BEdge × List BEdge := peel es.length es

/-- `detect_cycles(adjacency)` finds nothing -/
def acyclicB (es : List BEdge) : Bool := (topoEdges es).2.isEmpty

/-! ### `find_dependencies`: the leaves every node depends on -/

def insertNode (n : BNode) (ns : List BNode) : List BNode := if ns.contains n then ns else ns ++ [n]
def unionNodes (a b : List BNode) : List BNode := b.foldl (fun acc n => insertNode n acc) a

/-- the leaves below each non-leaf node, computed along a topological order of the edges -/
def depsTable (es : List BEdge) : List (BNode × List BNode) :=
  (topoEdges es).1.foldl (fun tbl e =>
    let local_ := e.ins.foldl (fun acc p =>
      match tbl.find? (·.1 == p) with
      | some (_, ds) => unionNodes acc ds
      | none => insertNode p acc) []
    tbl ++ [(e.out, local_)]) []

/-- `find_dependencies(...)[node]`; a leaf has no entry in the real table: never asked for there -/
def depsOf (tbl : List (BNode × List BNode)) (n : BNode) : List BNode :=
  match tbl.find? (·.1 == n) with
  | some (_, ds) => ds
  | none => []

/-! ### `normalize_bag` -/

def edgeNodes (es : List BEdge) : List BNode := es.flatMap fun e => e.out :: e.ins

/-- the arguments of `EdgesBag(...)` -/
structure RawBag where
  inputs : List BNode
  outputs : List BNode
  edges : List BEdge
  virt : NameSet
  persistent : List String
  optional : List BNode
  ctx : BCtx := .no
  next : Nat
  deriving Repr, Inhabited

/-- allocate clones for the names of rule 3 -/
def addIdentities : List BNode → Nat → List BNode × List BEdge × Nat
  | [], next => ([], [], next)
  | i :: rest, next =>
    let o : BNode := { id := next, name := i.name }
    let (os, es, nx) := addIdentities rest (next + 1)
    (o :: os, identityEdge i o :: es, nx)

/-- rule 3: the inputs that get an identity edge to a new output: `(virtuals | persistent) & (inputs - outputs)` -/
def RawBag.rule3 (r : RawBag) : List BNode :=
  r.inputs.filter fun i => (r.virt.mem i.name || r.persistent.contains i.name) && !(names r.outputs).contains i.name

/-- what `normalize_bag` returns when none of its checks fires -/
def RawBag.core (r : RawBag) : Bag :=
  let add := r.rule3
  let (newOuts, newEdges, next') := addIdentities add r.next
  { inputs := r.inputs, outputs := r.outputs ++ newOuts, edges := r.edges ++ newEdges,
    virt := r.virt.diff (.fin (names add)), persistent := r.persistent, optional := r.optional, ctx := r.ctx,
    next := next' }

/-- the checks of `normalize_bag`, in its order; `b` is `r.core` -/
def RawBag.checks (r : RawBag) (b : Bag) : Except BagErr Unit := do
  checkDups r.inputs
  checkDups r.outputs
  -- 2a
  if (names r.outputs).any r.virt.mem then throw (.graph "2a")
  -- 2
  if multipleIncoming b.edges then throw (.graph "2")
  -- 4
  if !acyclicB b.edges then throw (.graph "4")
  -- 1a
  let known := edgeNodes b.edges ++ b.outputs
  if r.inputs.any fun i => !known.contains i then throw .key
  if r.inputs.any fun i => !isLeafIn b.edges i then throw (.graph "1a")
  -- 5
  if r.optional.any fun o => !known.contains o then throw (.graph "5")

/-- `EdgesBag(...)`: `normalize_bag` and the constructor -/
def mkBag (r : RawBag) : Except BagErr Bag := do
  r.checks r.core
  pure r.core

/-! ### `freeze`: a copy with fresh identities -/

def BNode.shift (k : Nat) (n : BNode) : BNode := { n with id := n.id + k }
def BEdge.shift (k : Nat) (e : BEdge) : BEdge := { e with ins := e.ins.map (·.shift k), out := e.out.shift k }

def BCtx.shift (k : Nat) : BCtx → BCtx
  | .no => .no
  | .ident => .ident
  | .bag i o h => .bag (i.map (·.shift k)) (o.map (·.shift k)) h
  | .chain p c => .chain (p.shift k) (c.shift k)

/-- all identities moved up by `k` (the copy `freeze` makes, placed above every identity in use) -/
def Bag.shift (k : Nat) (b : Bag) : Bag :=
  { b with inputs := b.inputs.map (·.shift k), outputs := b.outputs.map (·.shift k),
           edges := b.edges.map (·.shift k), optional := b.optional.map (·.shift k), ctx := b.ctx.shift k,
           next := b.next + k }

/-! ### `connect_bags` -/

/-- the clones and identity edges for a list of nodes; `flip` = the clone is the input of the edge -/
def cloneEdges (flip : Bool) : List BNode → Nat → List BNode × List BEdge × Nat
  | [], next => ([], [], next)
  | n :: rest, next =>
    let c : BNode := { id := next, name := n.name }
    let (cs, es, nx) := cloneEdges flip rest (next + 1)
    (c :: cs, (if flip then identityEdge c n else identityEdge n c) :: es, nx)

/-- `for name in set(left_outputs) & set(right_inputs)`: the stitches from the left outputs to the right inputs -/
def commonEdges (l r : Bag) : List BEdge :=
  l.outputs.filterMap fun o => (byName r.inputs o.name).map fun i => identityEdge o i
/-- `left.virtual & set(right_inputs)`: right inputs that reach further upstream through the left bag -/
def lvNodes (l r : Bag) : List BNode := r.inputs.filter fun i => l.virt.mem i.name
def lvPart (l r : Bag) := cloneEdges true (lvNodes l r) r.next
/-- `set(left_outputs) & (right.virtual | (left.persistent - right outputs))`: left outputs passed on -/
def rvNodes (l r : Bag) : List BNode :=
  l.outputs.filter fun o => r.virt.mem o.name || (l.persistent.contains o.name && !(names r.outputs).contains o.name)
def rvPart (l r : Bag) := cloneEdges false (rvNodes l r) (lvPart l r).2.2

/-- the arguments `connect_bags(left, right, freeze=True)` passes to `EdgesBag(...)`; the right bag is already the
copy placed above the left one -/
def connectRaw (left right : Bag) : RawBag :=
  let lv := lvNodes left right
  let rv := rvNodes left right
  let optLv := (lv.zip (lvPart left right).1).filterMap fun (o, c) =>
    if right.optional.contains o || left.optional.contains o then some c else none
  let optRv := (rv.zip (rvPart left right).1).filterMap fun (i, c) =>
    if left.optional.contains i || right.optional.contains i then some c else none
  { inputs := left.inputs ++ (lvPart left right).1, outputs := right.outputs ++ (rvPart left right).1,
    edges := left.edges ++ right.edges ++ commonEdges left right ++ (lvPart left right).2.1 ++ (rvPart left right).2.1,
    ctx := .chain left.ctx right.ctx, virt := left.virt.inter right.virt,
    persistent := NameSet.lunion left.persistent right.persistent,
    optional := left.optional ++ right.optional ++ optLv ++ optRv, next := (rvPart left right).2.2 }

/-- `connect_bags(left, right, freeze=True)`: the right bag is copied above the left one. -/
def connectBags (left right0 : Bag) : Except BagErr Bag := do
  let right := right0.shift left.next
  -- node_to_dict(left.outputs), node_to_dict(right.inputs)
  checkDups left.outputs
  checkDups right.inputs
  let raw := connectRaw left right
  checkDups raw.outputs
  mkBag raw

/-! ### Contexts and `loopback` -/

/-- `Context.reverse(outputs)`: new outputs, new edges, new optional nodes -/
def BCtx.reverse : BCtx → List BNode → Nat → Except BagErr (List BNode × List BEdge × List BNode × Nat)
  | .no, _, _ => .error .value
  | .ident, outs, next => .ok (outs, [], [], next)
  | .bag inputs outputs inherit, outs, next => do
    checkDups outs
    checkDups outputs
    let stitch := inputs.filterMap fun n => (byName outs n.name).map fun o => identityEdge o n
    let inh := outs.filter fun n => inherit.mem n.name && !(names outputs).contains n.name
    let (clones, edges, next') := cloneEdges false inh next
    .ok (outputs ++ clones, stitch ++ edges, clones, next')
  | .chain previous current, outs, next => do
    let (o1, e1, p1, n1) ← current.reverse outs next
    let (o2, e2, p2, n2) ← previous.reverse o1 n1
    .ok (o2, e1 ++ e2, p1 ++ p2, n2)

/-- `function_to_bag(func, inputs, output)` with a single output name or a tuple of names -/
def functionToBag (f : String) (inputs : List String) (output : List String) (single : Bool) : Except BagErr Bag := do
  if hasDupStr inputs then throw .value
  let ins : List BNode := (List.range inputs.length).zip inputs |>.map fun (i, n) => { id := i, name := n }
  let k := inputs.length
  if single then
    let out : BNode := { id := k, name := output.headD "" }
    mkBag { inputs := ins, outputs := [out], edges := [{ edge := .function f [] [], ins := ins, out := out }],
            ctx := .bag [] [] (.fin [out.name]), virt := .empty, persistent := [], optional := [], next := k + 1 }
  else
    if hasDupStr output then throw .value
    let aux : BNode := { id := k, name := "tuple" }
    let outs : List BNode := (List.range output.length).zip output |>.map fun (i, n) => { id := k + 1 + i, name := n }
    let items := (List.range output.length).zip outs |>.map fun (i, o) =>
      ({ edge := .function s!"itemgetter({i})" [] [], ins := [aux], out := o } : BEdge)
    mkBag { inputs := ins, outputs := outs, edges := { edge := .function f [] [], ins := ins, out := aux } :: items,
            ctx := .bag [] [] (.fin output), virt := .empty, persistent := [], optional := [],
            next := k + 1 + output.length }

/-- `EdgesBag.loopback(func, inputs, output)` given the bag of the function -/
def Bag.loopbackWith (b fb : Bag) : Except BagErr Bag := do
  let state ← connectBags b fb
  let (outs, newEdges, newOpt, next) ← state.ctx.reverse state.outputs state.next
  mkBag { inputs := state.inputs, outputs := outs, edges := state.edges ++ newEdges, ctx := .no, virt := .empty,
          persistent := [], optional := state.optional ++ newOpt, next := next }

/-! ### `GraphCompiler` -/

inductive CompileErr where
  | dependency
  | duplicates
  | graph
  /-- `KeyError`: an input or output node that occurs in no edge (`self._mapping[x]`) -/
  | key
  deriving Repr, BEq, DecidableEq, Inhabited

/-- the unreachable inputs of an output: `self._dependencies[output] - self._inputs` -/
def Bag.missingOf (b : Bag) (tbl : List (BNode × List BNode)) (o : BNode) : List BNode :=
  (depsOf tbl o).filter fun d => !b.inputs.contains d

def validateOutputs (b : Bag) (tbl : List (BNode × List BNode)) : List BNode → Except CompileErr (List BNode)
  | [] => .ok []
  | o :: os =>
    let missing := b.missingOf tbl o
    if missing.isEmpty then (validateOutputs b tbl os).map (o :: ·)
    else if !b.optional.contains o then .error .dependency
    else if missing.any (fun m => !b.optional.contains m) then .error .dependency
    else validateOutputs b tbl os

/-- `GraphCompiler.__init__` and `_validate_optionals`: the available outputs, or `DependencyError` -/
def Bag.validate (b : Bag) : Except CompileErr (List BNode) :=
  if hasDupStr (names b.inputs) || hasDupStr (names b.outputs) then .error .duplicates
  else if multipleIncoming b.edges then .error .graph
  else if (b.inputs ++ b.outputs).any (fun n => !(edgeNodes b.edges).contains n) then .error .key
  else validateOutputs b (depsTable b.edges) b.outputs

inductive FieldRes where
  /-- a compiled `Graph` rooted at this node -/
  | node (n : BNode)
  /-- a virtual name: the `identity` function (no such input) or the input node itself -/
  | virtualInput (n : Option BNode)
  /-- `FieldError`: discarded because of unreachable inputs -/
  | discarded
  /-- `FieldError`: not defined -/
  | undefined
  deriving Repr, BEq, Inhabited

/-- `get_node` of `GraphCompiler._compile` -/
def Bag.getNode (b : Bag) (available : List BNode) (out : String) : FieldRes :=
  match byName available out with
  | some n => .node n
  | none =>
    if b.virt.mem out then .virtualInput (byName b.inputs out)
    else if (names b.outputs).contains out then .discarded
    else .undefined

/-- `GraphCompiler.fields()` -/
def Bag.fields (b : Bag) : Except CompileErr (List String) := do
  pure (names (← b.validate))

/-! ### `TreeNode.from_edges` and `Graph(inputs, node)`: from a bag to the graph the VM runs -/

/-- the edges in a topological order (`peel`) -/
def Bag.order (b : Bag) : List BEdge := (topoEdges b.edges).1
def Bag.outs (b : Bag) : List BNode := b.order.map (·.out)
/-- the nodes without an incoming edge, as far as the graph for `o` can see them -/
def Bag.leaves (b : Bag) (o : BNode) : List BNode :=
  (edgeNodes b.edges ++ b.inputs ++ [o]).eraseDups.filter fun n => !b.outs.contains n
def Bag.nodeList (b : Bag) (o : BNode) : List BNode := b.leaves o ++ b.outs
/-- a node's index in the compiled graph is its position -/
def Bag.idx (b : Bag) (o : BNode) (n : BNode) : Nat := (b.nodeList o).idxOf n
def mkLeaf (n : BNode) : Node := { name := n.name, edge := none, parents := [] }
def Bag.mkEdge (b : Bag) (o : BNode) (e : BEdge) : Node :=
  { name := e.out.name, edge := some e.edge, parents := e.ins.map (b.idx o) }

/-- The graph compiled for the node `o`: the leaves first, then the outputs of the edges in a topological order.
(`GraphCompiler._compile` for a single name whose node is `o`: `TreeNode.from_edges`, `Graph(inputs, node)`.) -/
def Bag.compileGraph (b : Bag) (o : BNode) : Graph :=
  { nodes := (b.leaves o).map mkLeaf ++ b.order.map (b.mkEdge o),
    inputs := b.inputs.map (b.idx o), output := b.idx o o }

/-- `_compile((n1, ..., nk))`: a `ProductEdge` over the nodes of the requested names, into a new node -/
def Bag.withProduct (b : Bag) (outs : List BNode) : Bag × BNode :=
  let p : BNode := { id := b.next, name := "(" ++ ", ".intercalate (names outs) ++ ")" }
  ({ b with edges := b.edges ++ [{ edge := .product, ins := outs, out := p }], next := b.next + 1 }, p)


inductive TupleErr where
  /-- `FieldError`: a requested name is not defined or was discarded -/
  | field
  /-- `ValueError` of `inspect.Signature`: the same virtual name (which becomes a new input of the graph) requested twice -/
  | value
  deriving Repr, BEq, Inhabited

/-- `GraphCompiler._compile(item)` for a tuple of names: the nodes of the names (`get_node`), a new input node for every virtual
name that is no input of the container, and the product node above them -/
def Bag.tupleRequest (b : Bag) (available : List BNode) (ns : List String) : Except TupleErr (Bag × BNode) :=
  let step := fun (acc : Except TupleErr (Bag × List BNode × List String)) (n : String) =>
    match acc with
    | .error e => .error e
    | .ok (bb, outs, fresh) =>
      match b.getNode available n with
      | .node o | .virtualInput (some o) => .ok (bb, outs ++ [o], fresh)
      | .virtualInput none =>
        if fresh.contains n then .error .value
        else
          let i : BNode := { id := bb.next, name := n }
          .ok ({ bb with inputs := bb.inputs ++ [i], next := bb.next + 1 }, outs ++ [i], fresh ++ [n])
      | .discarded | .undefined => .error .field
  match ns.foldl step (.ok (b, [], [])) with
  | .error e => .error e
  | .ok (bb, outs, _) => .ok (bb.withProduct outs)

/-! ### The hypothesis of the bag theorems, executable -/

def Bag.nodes3 (b : Bag) : List BNode := b.inputs ++ b.outputs ++ edgeNodes b.edges

/-- what every bag built by the library satisfies (`CM.Proofs.BagWF`: `wfB_sound`, preserved by `connect_bags`) -/
def Bag.wfB (b : Bag) : Bool :=
  b.nodes3.all (fun n => n.id < b.next) && !multipleIncoming b.edges &&
  b.inputs.all (fun n => isLeafIn b.edges n) &&
  !hasDupStr (names b.inputs) && !hasDupStr (names b.outputs) &&
  b.outputs.all (fun n => !b.virt.mem n.name) && b.inputs.all (fun n => !b.virt.mem n.name) &&
  b.persistent.all (fun x => (names b.outputs).contains x)

end CM
