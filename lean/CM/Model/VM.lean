/-
  CM.Model.VM — the stack machine of connectome/engine/vm.py, command by command, together with
  `EvictionCache` (engine/utils.py), `count_entries`/`validate_graph`/`Graph.__init__`/`_prepare_cache`
  (engine/graph.py) and the external world a run can touch (cache stores, user functions).
-/
import CM.Model.Graph
namespace CM

/-! ### `EvictionCache` -/

/-- `EvictionCache`: reference counts and memoised entries, both keyed by node. -/
structure Scratch (α : Type) where
  counts : Nat → Option Nat
  memo : Nat → Option α

def upd {α : Type} (f : Nat → Option α) (k : Nat) (v : Option α) : Nat → Option α :=
  fun j => if j = k then v else f j

/-- `EvictionCache.evict`; `none` = `KeyError` or a failed assertion. -/
def Scratch.evict {α : Type} (s : Scratch α) (k : Nat) : Option (Scratch α) :=
  match s.counts k with
  | none => none                       -- `self.counts[key]` raises KeyError
  | some 0 => none                     -- `assert count > 0`
  | some 1 => some { counts := upd s.counts k none, memo := upd s.memo k none }
  | some (c + 2) => some { s with counts := upd s.counts k (some (c + 1)) }

/-- `EvictionCache.__setitem__`; `none` = failed assertion `key in self.counts`. -/
def Scratch.set {α : Type} (s : Scratch α) (k : Nat) (v : α) : Option (Scratch α) :=
  match s.counts k with
  | none => none
  | some _ => some { s with memo := upd s.memo k (some v) }

/-! ### The world outside a run -/

/-- One user-function invocation as recorded by the harness; `node` (the node on whose behalf the function ran) is
ghost information for the at-most-once theorem, never compared with the implementation. -/
structure CallRec where
  node : Nat
  f : String
  pos : List Val
  kwn : List String
  kwv : List Val
  deriving Repr, Inhabited

/-- `MemoryCache`: `size = none` is a dict, `some n` a `pylru.lrucache(n)`; most recently used first. -/
structure MemStore where
  size : Option Nat
  table : List (NHash × Val)
  /-- a disk store keys entries by the digest of the pickled hash: structural equality, not Python `==` -/
  exact : Bool := false
  deriving Repr, Inhabited

/-- Equality of `NodeHash.value` tuples as Python compares them (`==` on leaves is `pyEq`). -/
def hashKeyEq : NHash → NHash → Bool
  | .leaf a, .leaf b => a.pyEq b
  | .apply f a k, .apply g b l => f == g && k == l && goList a b
  | .graph a, .graph b => hashKeyEq a b
  | .custom m a, .custom n b => m == n && goList a b
  | _, _ => false
where
  goList : List NHash → List NHash → Bool
    | [], [] => true
    | x :: xs, y :: ys => hashKeyEq x y && goList xs ys
    | _, _ => false

def MemStore.keyEq (s : MemStore) (a b : NHash) : Bool := if s.exact then a == b else hashKeyEq a b

def MemStore.find? (s : MemStore) (key : NHash) : Option (NHash × Val) :=
  s.table.find? fun (k, _) => s.keyEq k key

def MemStore.remove (s : MemStore) (key : NHash) : List (NHash × Val) :=
  s.table.filter fun (k, _) => !s.keyEq k key

/-- `MemoryCache.get`: `key in cache` does not touch the recency, `cache[key]` moves to the front. -/
def MemStore.get (s : MemStore) (key : NHash) : Option Val × MemStore :=
  match s.find? key with
  | none => (none, s)
  | some (k, v) =>
    match s.size with
    | none => (some v, s)
    | some _ => (some v, { s with table := (k, v) :: s.remove key })

/-- `MemoryCache.set`: an existing key keeps its (first inserted) key object, gets the new value and
moves to the front; a new key evicts the least recently used entry of a full table. -/
def MemStore.set (s : MemStore) (key : NHash) (v : Val) : MemStore :=
  match s.size with
  | none =>
    match s.find? key with
    | some (k, _) => { s with table := s.table.map fun (k', v') => if s.keyEq k' key then (k, v) else (k', v') }
    | none => { s with table := s.table ++ [(key, v)] }
  | some n =>
    match s.find? key with
    | some (k, _) => { s with table := (k, v) :: s.remove key }
    | none => { s with table := ((key, v) :: s.table).take n }

def MemStore.clear (s : MemStore) : MemStore := { s with table := [] }

/-- Everything outside the VM that a run reads or changes. -/
structure World where
  /-- number of the top-level call being executed (tags results of impure functions) -/
  callNo : Nat := 0
  /-- how many user-function invocations have happened so far, over all calls -/
  serial : Nat := 0
  /-- the invocations (by serial number) at which the user function raises instead of returning -/
  failAt : List Nat := []
  /-- names of user functions whose result is not determined by their arguments -/
  impureFns : List String := []
  /-- user functions interpreted as constants (`def f(*a): return None`): symbolic terms are never falsy, these are -/
  constFns : List (String × Val) := []
  /-- the call log, newest first -/
  log : List CallRec := []
  stores : List MemStore := []
  deriving Inhabited

def World.doOp (w : World) : StoreOp → Option Val × World
  | .get s key =>
    match w.stores[s]? with
    | none => (none, w)
    | some st => let (r, st') := st.get key; (r, { w with stores := w.stores.set s st' })
  | .set s key v =>
    match w.stores[s]? with
    | none => (none, w)
    | some st => (none, { w with stores := w.stores.set s (st.set key v) })

/-- `func(*pos, **kw)` for an uninterpreted user function called on behalf of node `n`. -/
def World.call (w : World) (n : Nat) (f : String) (pos : List Val) (kwn : List String) (kwv : List Val) :
    Except Err Val × World :=
  let w' := { w with serial := w.serial + 1, log := ⟨n, f, pos, kwn, kwv⟩ :: w.log }
  if w.failAt.contains w.serial then (.error (.user f), w')
  else if let some (_, v) := w.constFns.find? (·.1 == f) then (.ok v, w')
  else if w.impureFns.contains f then (.ok (.imp f w.callNo n pos kwn kwv), w')
  else (.ok (.app f pos kwn kwv), w')

/-! ### The machine -/

inductive Tbl where | hashes | cache
  deriving Repr, BEq, DecidableEq, Inhabited

/-- Commands (engine/base.py `Command`): the negative members, plus a yielded request. -/
inductive Cmd where
  | ret
  | send (n : Nat) (k : Item → Prog)
  | store (t : Tbl) (n : Nat)
  | item (i : Nat)
  | computeHash
  | evaluate
  /-- `rsRev`: the requests still to be served, last request first (Python pops them from the end) -/
  | tuple (n : Nat) (cnt : Nat) (rsRev : List Req)
  | req (r : Req)

/-- What persists through a run besides the two stacks: the two scratch tables and the world. -/
structure Mem where
  hashes : Scratch Item
  cache : Scratch Val
  world : World

structure St where
  stack : List Item
  cmds : List Cmd
  mem : Mem

inductive Outcome where
  | next (s : St)
  | done (x : Item) (s : St)
  /-- an exception leaves `execute` -/
  | raised (e : Err) (s : St)

/-- run the generator from a resumption point until it yields, returns or raises, performing its
cache operations on the way (`iterator.send(value)`) -/
def runEffs : Prog → World → Prog × World
  | .eff op k, w => let (r, w') := w.doOp op; runEffs (k r) w'
  | p, w => (p, w)

/-- `for n in node.parents: hashes.evict(n); cache.evict(n)` -/
def evictAll (ps : List Nat) (h : Scratch Item) (c : Scratch Val) : Option (Scratch Item × Scratch Val) :=
  match ps with
  | [] => some (h, c)
  | p :: ps =>
    match h.evict p with
    | none => none
    | some h' =>
      match c.evict p with
      | none => none
      | some c' => evictAll ps h' c'

def stuck (s : St) : Outcome := .raised .internal s

/-- One iteration of the `while True` loop of `vm.execute`. -/
def step (g : Graph) (s : St) : Outcome :=
  let m := s.mem
  match s.cmds with
  | [] => stuck s
  | cmd :: C =>
    match cmd, s.stack with
    -- return
    | .ret, [x] => .done x { s with stack := [], cmds := C }
    | .ret, _ => stuck s
    -- communicate with edges
    | .send n k, value :: S =>
      match runEffs (k value) m.world with
      | (.ret x, w) =>
        match evictAll (g.parents n) m.hashes m.cache with
        | none => stuck { s with mem := { m with world := w } }
        | some (h, c) => .next { stack := x :: S, cmds := C, mem := { hashes := h, cache := c, world := w } }
      | (.raise e, w) => .raised e { s with mem := { m with world := w } }
      | (.req r k', w) =>
        .next { stack := .node n :: S, cmds := .req r :: .send n k' :: C, mem := { m with world := w } }
      | (.eff _ _, w) => stuck { s with mem := { m with world := w } }   -- unreachable: `runEffs` never stops at `eff`
    | .send _ _, [] => stuck s
    -- runs and caches `compute_hash`
    | .computeHash, .node n :: S =>
      match m.hashes.memo n with
      | some x => .next { s with stack := x :: S, cmds := C }
      | none =>
        match (g.node n).edge with
        | none => stuck s                 -- a leaf without a value: `node.edge` fails
        | some e =>
          .next { s with stack := .val .none :: S,
                         cmds := .send n (fun _ => e.hashProg (g.parents n).length) :: .store .hashes n :: C }
    | .computeHash, _ => stuck s
    -- runs and caches `evaluate`
    | .evaluate, .node n :: S =>
      match m.cache.memo n with
      | some v => .next { s with stack := .val v :: S, cmds := C }
      | none =>
        match (g.node n).edge with
        | none => stuck s
        | some e =>
          .next { s with stack := .val .none :: S,
                         cmds := .send n (fun _ => e.evalProg (g.parents n).length) :: .store .cache n :: C }
    | .evaluate, _ => stuck s
    -- requests
    | .req (.parentHash i), .node n :: S =>
      match (g.parents n)[i]? with
      | none => stuck s
      | some p => .next { s with stack := .node p :: S, cmds := .computeHash :: .item 0 :: C }
    | .req (.parentValue i), .node n :: S =>
      match (g.parents n)[i]? with
      | none => stuck s
      | some p => .next { s with stack := .node p :: S, cmds := .evaluate :: C }
    | .req .currentHash, _ => .next { s with cmds := .computeHash :: .item 0 :: C }
    | .req .payload, _ => .next { s with cmds := .computeHash :: .item 1 :: C }
    | .req (.await rs), .node n :: S => .next { s with stack := S, cmds := .tuple n rs.length rs.reverse :: C }
    | .req (.call f pos kwn kwv), .node n :: S =>
      match m.world.call n f pos kwn kwv with
      | (.ok v, w) => .next { stack := .val v :: S, cmds := C, mem := { m with world := w } }
      | (.error e, w) => .raised e { s with mem := { m with world := w } }
    | .req _, _ => stuck s
    -- utils
    | .store .hashes n, x :: _ =>
      match m.hashes.memo n with
      | some _ => stuck s                 -- `assert key not in storage`
      | none =>
        match m.hashes.set n x with
        | none => stuck s
        | some h => .next { s with cmds := C, mem := { m with hashes := h } }
    | .store .cache n, .val v :: _ =>
      match m.cache.memo n with
      | some _ => stuck s
      | none =>
        match m.cache.set n v with
        | none => stuck s
        | some c => .next { s with cmds := C, mem := { m with cache := c } }
    | .store _ _, _ => stuck s
    | .item 0, .hout h _ :: S => .next { s with stack := .hash h :: S, cmds := C }
    | .item 1, .hout _ p :: S => .next { s with stack := .val p :: S, cmds := C }
    | .item _, _ => stuck s
    | .tuple n cnt rsRev, S =>
      match rsRev with
      | [] =>
        if S.length < cnt then stuck s
        else .next { s with stack := .tup (S.take cnt) :: S.drop cnt, cmds := C }
      | r :: rest => .next { s with stack := .node n :: S, cmds := .req r :: .tuple n cnt rest :: C }

/-- Run for at most `fuel` steps.  The step count is returned for the cost model. -/
def run (g : Graph) : Nat → St → Nat → Option (Outcome × Nat)
  | 0, _, _ => none
  | fuel + 1, s, steps =>
    match step g s with
    | .next s' => run g fuel s' (steps + 1)
    | o => some (o, steps + 1)

/-! ### `engine/graph.py` -/

/-- `validate_graph`: every node reachable from the output without passing an input is not a leaf. -/
def validateAux (g : Graph) : Nat → Nat → Bool
  | 0, _ => false
  | fuel + 1, n =>
    if g.inputs.contains n then true
    else match (g.node n).edge with
      | none => false
      | some _ => (g.parents n).all (validateAux g fuel)

def Graph.validate (g : Graph) : Bool := validateAux g (g.nodes.length + 1) g.output

/-- `count_entries` as repaired (one pass in topological order): with parents before children in
`nodes`, walk from the last node down and push each node's count to its parents. -/
def countsFrom (g : Graph) (mult : Nat) : Nat → (Nat → Nat) → (Nat → Nat)
  | 0, c => c
  | n + 1, c =>
    let c' := if g.inputs.contains n || c n = 0 then c
      else (g.parents n).foldl (fun acc p => fun j => if j = p then acc j + c n else acc j) c
    countsFrom g mult n c'

def Graph.counts (g : Graph) (mult : Nat := 2) : Nat → Nat :=
  countsFrom g mult (g.output + 1) (fun j => if j = g.output then mult else 0)

/-- `Graph.__init__`: the inputs that are actually used, sorted by name. -/
def insertByName (g : Graph) (x : Nat) : List Nat → List Nat
  | [] => [x]
  | y :: ys => if (g.node x).name < (g.node y).name then x :: y :: ys else y :: insertByName g x ys

def Graph.usedInputs (g : Graph) : List Nat :=
  let used := g.inputs.eraseDups.filter fun i => g.counts 2 i != 0
  used.foldl (fun acc x => insertByName g x acc) []

def Graph.signature (g : Graph) : List String := g.usedInputs.map fun i => (g.node i).name

/-- `_prepare_cache`: both scratch tables start from a copy of the counts and hold the inputs. -/
def Graph.initScratch (g : Graph) (env : String → Option Val) : Scratch Item × Scratch Val :=
  let counts : Nat → Option Nat := fun j => let c := g.counts 2 j; if c = 0 then none else some c
  let isIn : Nat → Bool := fun j => g.usedInputs.contains j
  ( { counts := counts, memo := fun j => if isIn j then (env (g.node j).name).map fun v => .hout (.leaf v) .none else none },
    { counts := counts, memo := fun j => if isIn j then env (g.node j).name else none } )

def Graph.initSt (g : Graph) (env : String → Option Val) (cmd : Cmd) (w : World) : St :=
  let (h, c) := g.initScratch env
  { stack := [.node g.output], cmds := [cmd, .ret], mem := { hashes := h, cache := c, world := w } }

/-- `Graph.__call__` (after `bind`): `None` = out of fuel. -/
def Graph.call (g : Graph) (env : String → Option Val) (w : World) (fuel : Nat) : Option (Outcome × Nat) :=
  run g fuel (g.initSt env .evaluate w) 0

/-- `Graph.get_hash` -/
def Graph.getHash (g : Graph) (env : String → Option Val) (w : World) (fuel : Nat) : Option (Outcome × Nat) :=
  run g fuel (g.initSt env .computeHash w) 0

/-- the static hash of one node given those of all earlier nodes (`Edge._hash_graph`; the placeholder on used inputs) -/
def hgNode (g : Graph) (acc : List (Except Err NHash)) (i : Nat) (nd : Node) : Except Err NHash :=
  if g.usedInputs.contains i then .ok placeholder
  else match nd.edge with
    | none => .error .internal
    | some e =>
      match nd.parents.mapM (fun p => acc.getD p (.error .internal)) with
      | .error err => .error err
      | .ok hs => e.hashGraph hs

/-- the static hashes of the nodes `i, i+1, …` appended to those of the earlier nodes -/
def hgFrom (g : Graph) : List Node → Nat → List (Except Err NHash) → List (Except Err NHash)
  | [], _, acc => acc
  | nd :: rest, i, acc => hgFrom g rest (i + 1) (acc ++ [hgNode g acc i nd])

/-- `hash_graph(inputs, output)` with the placeholder on the inputs; memoised per node in Python, a
list built in node order here. -/
def Graph.hashGraphAll (g : Graph) : List (Except Err NHash) := hgFrom g g.nodes 0 []

def Graph.hashGraph (g : Graph) : Except Err NHash :=
  (g.hashGraphAll.getD g.output (.error .internal)).map .graph

end CM
