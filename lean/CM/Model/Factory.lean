/-
  CM.Model.Factory — from the class body of a layer to its container, node by node.

  Mirrors, function by function:
    connectome/interface/factory.py    `GraphFactory.__init__` / `_collect_nodes` (private parameters, constructor arguments and
                                       their defaults, fields, inverse fields), `build`, `SourceFactory` (`_before_collect`: the key
                                       `id`, its identity edge, persistent names; `_validate_inputs`: every argument is the key),
                                       `TransformFactory` (`__inherit__`, `__exclude__`, `_after_collect`)
    connectome/interface/edges.py      `Function.decorate` / `build` (positional bindings), `Inverse._wrap`
    connectome/interface/nodes.py      `NodeStorage` (one node per name and kind)
    connectome/containers/reversible.py `ReversibleContainer.__init__`, `normalize_inherit`, `detect_optionals`

  Fields are plain functions of named arguments (`RawField`); `@impure`, `hash_by_value`, explicit `Function(...)` bindings and
  `Silent` are not modelled here (their edges are modelled in `CM.Model.Graph`).
-/
import CM.Model.Bag
import CM.Model.StackRaw
namespace CM

/-- `normalize_inherit(value, outputs)` for the three ways of writing `__inherit__` / `__exclude__` -/
def normalizeInherit (inh : RawInherit) (exclude : Option (List String)) (outs : List String) : NameSet :=
  match exclude with
  | some ex =>
    if ex.isEmpty then
      (match inh with
       | .all => .cofin outs
       | .names xs => .fin xs
       | .unset => .fin [])
    else .cofin (NameSet.lunion ex outs)          -- `AntiSet(exclude) - set(outputs)`
  | none =>
    match inh with
    | .all => .cofin outs                         -- `AntiSet(set(outputs))`
    | .names xs => .fin xs
    | .unset => .fin []

def dedup (xs : List String) : List String := xs.eraseDups

/-- the node of kind `base` for the name `x` (`NodeStorage[x]`) -/
def nodeAt (base : Nat) (names : List String) (x : String) : Option BNode :=
  match names.idxOf? x with
  | some i => some { id := base + i, name := x }
  | none => none

def nodesAt (base : Nat) (names : List String) : List BNode :=
  names.zipIdx.map fun (x, i) => { id := base + i, name := x }

/-- the layout of the nodes of one layer: inputs, parameters, arguments, outputs, backward inputs, backward outputs -/
structure FLayout where
  inputs : List String
  params : List String
  args : List String
  outputs : List String
  backIn : List String
  backOut : List String
  deriving Repr, Inhabited

def FLayout.pBase (l : FLayout) : Nat := l.inputs.length
def FLayout.aBase (l : FLayout) : Nat := l.pBase + l.params.length
def FLayout.oBase (l : FLayout) : Nat := l.aBase + l.args.length
def FLayout.biBase (l : FLayout) : Nat := l.oBase + l.outputs.length
def FLayout.boBase (l : FLayout) : Nat := l.biBase + l.backIn.length
def FLayout.next (l : FLayout) : Nat := l.boBase + l.backOut.length

/-- `to_argument`: the constructor argument of a private name -/
def toArgument (p : String) : String := (p.drop 1).toString

def RawLayer.isSource (r : RawLayer) : Bool := r.k == "source"

/-- an argument annotated `Output` (`def z(y: Output)`) reads the layer's OWN output of that name; written `out:<name>` in a `RawField` -/
def isOut (a : String) : Bool := a.startsWith "out:"
def outName (a : String) : String := (a.drop 4).toString

/-- `SourceFactory._validate_inputs`: every public argument of a Source's function is the key -/
def RawLayer.fwdArg (r : RawLayer) (a : String) : String := if r.isSource && !isPrivate a then "id" else a

def RawLayer.layout (r : RawLayer) : FLayout :=
  let pub := fun (fs : List RawField) => fs.flatMap fun f => (f.args.filter fun a => !isPrivate a && !isOut a).map r.fwdArg
  { inputs := dedup ((if r.isSource then ["id"] else []) ++ pub r.params ++ pub r.fields)
    -- `self.parameters[name]` creates the node of a private name on first use: a private argument that nothing defines is a
    -- parameter node without an incoming edge (the storage is frozen only after all the fields were collected)
    params := dedup (r.params.map (·.name) ++ r.consts.map (·.1) ++
                     (r.params ++ r.fields ++ r.inverses).flatMap fun f => f.args.filter isPrivate)
    args := dedup (r.consts.map fun c => toArgument c.1)
    outputs := dedup ((if r.isSource then ["id"] else []) ++ r.fields.map (·.name))
    backIn := dedup (r.inverses.flatMap fun f => f.args.filter (!isPrivate ·))
    backOut := dedup (r.inverses.map (·.name)) }

/-- a `Source` accepts one key argument per function: several distinct public names are an error -/
def RawLayer.keysOK (r : RawLayer) : Bool :=
  !r.isSource || (r.params ++ r.fields).all fun f => (dedup (f.args.filter (!isPrivate ·))).length ≤ 1

def optMapM' {α β : Type} (f : α → Option β) : List α → Option (List β)
  | [] => some []
  | x :: xs =>
    match f x, optMapM' f xs with
    | some y, some ys => some (y :: ys)
    | _, _ => none

/-- the edge of a forward function: public arguments are inputs, private ones parameters -/
def RawLayer.fwdEdge (r : RawLayer) (l : FLayout) (f : RawField) (out : BNode) : Option BEdge :=
  (optMapM' (fun a => if isPrivate a then nodeAt l.pBase l.params a
                     else if isOut a then nodeAt l.oBase l.outputs (outName a)
                     else nodeAt 0 l.inputs (r.fwdArg a)) f.args).map fun ins =>
    { edge := .function f.f [] [], ins := ins, out := out }

/-- the edge of an inverse function: public arguments are backward inputs (`Inverse._wrap`) -/
def RawLayer.backEdge (l : FLayout) (f : RawField) (out : BNode) : Option BEdge :=
  (optMapM' (fun a => if isPrivate a then nodeAt l.pBase l.params a else nodeAt l.biBase l.backIn a) f.args).map fun ins =>
    { edge := .function f.f [] [], ins := ins, out := out }

/-- the two edges of a constructor argument: `IdentityEdge(argument -> parameter)` and, in `build`, `ConstantEdge(value) -> argument` -/
def constEdges (l : FLayout) (c : String × Val) : Option (List BEdge) :=
  match nodeAt l.pBase l.params c.1, nodeAt l.aBase l.args (toArgument c.1) with
  | some p, some a => some [identityEdge a p, ({ edge := .constant c.2, ins := [], out := a } : BEdge)]
  | _, _ => none

def RawLayer.paramEdge (r : RawLayer) (l : FLayout) (f : RawField) : Option BEdge :=
  match nodeAt l.pBase l.params f.name with
  | some p => r.fwdEdge l f p
  | none => none

def RawLayer.fieldEdge (r : RawLayer) (l : FLayout) (f : RawField) : Option BEdge :=
  match nodeAt l.oBase l.outputs f.name with
  | some o => r.fwdEdge l f o
  | none => none

def RawLayer.invEdge (l : FLayout) (f : RawField) : Option BEdge :=
  match nodeAt l.boBase l.backOut f.name with
  | some o => RawLayer.backEdge l f o
  | none => none

/-- `SourceFactory._before_collect`: the key is passed on as the field `id` -/
def RawLayer.keyEdges (r : RawLayer) (l : FLayout) : List BEdge :=
  if r.isSource then
    (match nodeAt 0 l.inputs "id", nodeAt l.oBase l.outputs "id" with
     | some i, some o => [identityEdge i o]
     | _, _ => [])
  else []

/-- the edges `GraphFactory._collect_nodes` and `build` create -/
def RawLayer.factoryEdges (r : RawLayer) (l : FLayout) : Option (List BEdge) :=
  match optMapM' (constEdges l) r.consts, optMapM' (r.paramEdge l) r.params, optMapM' (r.fieldEdge l) r.fields,
        optMapM' (RawLayer.invEdge l) r.inverses with
  | some consts, some params, some fields, some invs => some (r.keyEdges l ++ consts.flatten ++ params ++ fields ++ invs)
  | _, _, _, _ => none

/-! ### `detect_optionals` -/

/-- the nodes `find_dependencies(outputs)` visits: the outputs and everything above them -/
def reachFrom (es : List BEdge) : Nat → List BNode → List BNode
  | 0, acc => acc
  | fuel + 1, acc =>
    let more := (es.filter fun e => acc.contains e.out).flatMap (·.ins)
    let acc' := more.foldl (fun a n => insertNode n a) acc
    if acc'.length == acc.length then acc else reachFrom es fuel acc'

/-- `detect_optionals(set(), optional_outputs, inputs, outputs, backward_inputs, backward_outputs, edges)`;
`none`: an optional name that is no output (`GraphError`) -/
def detectOptionals (optNames : List String) (inputs outputs backIn backOut : List BNode) (es : List BEdge) :
    Option (List BNode) := do
  let optOut ← optMapM' (fun x => byName outputs x) optNames
  let tbl := depsTable es
  let visited := reachFrom es (es.length + 1) outputs
  -- the visited non-leaf nodes that depend on the input: all of them must be optional outputs
  let optIn := inputs.filter fun i =>
    let users := (tbl.filter fun q => visited.contains q.1 && q.2.contains i).map (·.1)
    !users.isEmpty && users.all optOut.contains
  some (optOut ++ optIn ++ backIn ++ backOut)

/-! ### `ReversibleContainer.__init__` -/

inductive FactoryErr where
  /-- `FieldError` (an undefined private name, several keys in a Source, a Source that redefines `id`) -/
  | field
  /-- `ValueError`: both `__inherit__` and `__exclude__` -/
  | value
  | bag (e : BagErr)
  /-- `GraphError` of `detect_optionals` -/
  | optional
  deriving Repr, Inhabited

def reversible (inputs outputs : List BNode) (es : List BEdge) (backIn backOut : List BNode) (optNames : List String)
    (fwd back : NameSet) (persistent : List String) (next : Nat) : Except FactoryErr Bag :=
  match mkBag { inputs, outputs, edges := es, virt := fwd, persistent, optional := [], ctx := .no, next } with
  | .error e => .error (.bag e)
  | .ok b1 =>
    match detectOptionals optNames b1.inputs b1.outputs backIn backOut b1.edges with
    | none => .error .optional
    | some opt =>
      match checkDups b1.inputs with
      | .error e => .error (.bag e)
      | .ok _ =>
        match mkBag { inputs := b1.inputs, outputs := b1.outputs, edges := b1.edges, virt := b1.virt, persistent,
                      optional := opt, ctx := .bag backIn backOut back, next := b1.next } with
        | .error e => .error (.bag e)
        | .ok b => .ok b

def RawLayer.hasInherit (r : RawLayer) : Bool :=
  match r.inherit with | .unset => false | .names xs => !xs.isEmpty | .all => true
def RawLayer.hasExclude (r : RawLayer) : Bool :=
  match r.exclude with | some ex => !ex.isEmpty | none => false

/-- the container of a layer instance: `factory.build(arguments)` -/
def RawLayer.factory (r : RawLayer) : Except FactoryErr Bag :=
  if r.isSource && (r.fields ++ r.params).any (·.name == "id") then .error .field
  else if !r.keysOK then .error .field
  else if !r.isSource && r.hasInherit && r.hasExclude then .error .value
  else
    match r.factoryEdges r.layout with
    | none => .error .field
    | some es =>
      let l := r.layout
      let fwd := if r.isSource then NameSet.fin [] else normalizeInherit r.inherit r.exclude l.outputs
      let back := if r.isSource then NameSet.fin [] else normalizeInherit r.inherit r.exclude l.backOut
      let persistent := if r.isSource then dedup ("id" :: (r.fields.filter (·.isMeta)).map (·.name)) else []
      reversible (nodesAt 0 l.inputs) (nodesAt l.oBase l.outputs) es (nodesAt l.biBase l.backIn) (nodesAt l.boBase l.backOut)
        ((r.fields.filter (·.opt)).map (·.name)) fwd back persistent l.next

/-! ### the container of a cache layer: layers/cache.py `CacheToStorage._prepare_container` -/

/-- the arguments of `EdgesBag(...)` in `_prepare_container`: per cached name an input node, an output node and a `CacheEdge` with a
storage of its own; every other name passes (`virtual=AntiSet(outputs)`); all the nodes are optional -/
def cacheRaw (s : Nat) (xs : List String) : RawBag :=
  let ins := nodesAt 0 xs
  let outs := nodesAt xs.length xs
  { inputs := ins, outputs := outs,
    edges := xs.zipIdx.map fun (x, i) => { edge := .cache (s + i), ins := [⟨i, x⟩], out := ⟨xs.length + i, x⟩ },
    virt := .cofin xs, persistent := [], optional := ins ++ outs, ctx := .ident, next := xs.length + xs.length }

/-- `names`: the names given to the cache layer; `prev`: the output names of the previous container -/
def cachedNames (names : NameSet) (prev : List String) : List String := prev.filter names.mem

def cacheBag (s : Nat) (names : NameSet) (prev : List String) : Except BagErr Bag := mkBag (cacheRaw s (cachedNames names prev))

end CM
