import CM.Model.Bag
namespace CM

/-- the arguments `Filter._prepare_container` (layers/filter.py) passes to `EdgesBag(...)`: one input and one output named
`keys` joined by the `FilterEdge` (`e`: its predicate graph is opaque here), everything but `keys` virtual, and a context
that inherits everything but `keys` -/
def filterRaw (e : EdgeK) (keys : String) : RawBag :=
  { inputs := [⟨0, keys⟩], outputs := [⟨1, keys⟩], edges := [{ edge := e, ins := [⟨0, keys⟩], out := ⟨1, keys⟩ }],
    virt := .cofin [keys], persistent := [], optional := [], ctx := .bag [] [] (.cofin [keys]), next := 2 }

def filterBag (e : EdgeK) (keys : String) : Except BagErr Bag := mkBag (filterRaw e keys)

/-- `DynamicConnectLayer._connect`: `connect(previous, self._prepare_container(previous))` -/
def filterConnect (prev : Bag) (e : EdgeK) (keys : String) : Except BagErr Bag :=
  match filterBag e keys with
  | .ok r => connectBags prev r
  | .error x => .error x

end CM
