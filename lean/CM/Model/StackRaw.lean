/-
  CM.Model.StackRaw — from the description of a layer as the user writes it (class body: fields, private
  parameters, constructor arguments and defaults, `__inherit__`/`__exclude__`, decorators) to its content.
  Mirrors interface/factory.py: `SourceFactory` (the key argument is renamed to `id`, `id` and the meta fields
  are persistent), `TransformFactory` (`__inherit__`, `__exclude__`), constructor arguments bound to `_name`.
-/
import CM.Model.Stack
namespace CM

structure RawField where
  name : String
  /-- the symbolic name of the user function (default: `<class>.<field>`) -/
  f : String
  args : List String
  opt : Bool := false
  isMeta : Bool := false
  deriving Repr, Inhabited

inductive RawInherit where
  | unset
  | all                       -- `__inherit__ = True`
  | names (xs : List String)  -- `__inherit__ = ('a', 'b')`
  deriving Repr, Inhabited

structure RawLayer where
  k : String
  cls : String := ""
  fields : List RawField := []
  params : List RawField := []
  /-- constructor arguments: defaults overridden by the values passed, as `_name ↦ value` -/
  consts : List (String × Val) := []
  inherit : RawInherit := .unset
  exclude : Option (List String) := none
  ids : List String := []
  cacheNames : Option (List String) := none
  inverses : List RawField := []
  deriving Repr, Inhabited

def rekey (args : List String) : List String := args.map fun a => if isPrivate a then a else "id"

def RawLayer.toLayer (r : RawLayer) (index : Nat) : Layer :=
  match r.k with
  | "source" =>
    { index, kind := .source
      defs := (r.fields.map fun fl => (fl.name, Def.fn fl.f (rekey fl.args))) ++
              [("id", .identity "id"), ("ids", .const (.tup (r.ids.map .str)))]
      params := (r.params.map fun p => (p.name, Param.fn p.f (rekey p.args))) ++ r.consts.map fun (n, v) => (n, .const v)
      opt := (r.fields.filter (·.opt)).map (·.name)
      persistent := ["id", "ids"] ++ (r.fields.filter (·.isMeta)).map (·.name)
      inherit := .empty, inheritIsList := false, cacheNames := none }
  | "transform" =>
    let (inh, isList) : NameSet × Bool :=
      match r.exclude with
      | some ex => if ex.isEmpty then
          (match r.inherit with | .all => (.cofin [], false) | .names xs => (.fin xs, true) | .unset => (.fin [], true))
        else (.cofin ex, false)
      | none => match r.inherit with
        | .all => (.cofin [], false)
        | .names xs => (.fin xs, true)
        | .unset => (.fin [], true)
    { index, kind := .transform
      defs := r.fields.map fun fl => (fl.name, Def.fn fl.f fl.args)
      params := (r.params.map fun p => (p.name, Param.fn p.f p.args)) ++ r.consts.map fun (n, v) => (n, .const v)
      opt := (r.fields.filter (·.opt)).map (·.name)
      persistent := []
      inherit := inh, inheritIsList := isList, cacheNames := none
      inverses := r.inverses.map fun fl => (fl.name, Def.fn fl.f fl.args)
      -- `normalize_inherit(forward_inherit, backward_outputs)`: a list stays as it is, `True` and `__exclude__`
      -- lose the names that have their own inverse
      backInherit := if isList then inh else inh.diff (.fin (r.inverses.map (·.name))) }
  | "apply" =>
    { index, kind := .apply
      defs := r.fields.map fun fl => (fl.name, Def.fn fl.f [fl.name])
      params := [], opt := [], persistent := [], inherit := .all, inheritIsList := false, cacheNames := none,
      backInherit := .all }
  | _ =>
    { index, kind := .cache, defs := [], params := [], opt := [], persistent := [], inherit := .all,
      inheritIsList := false, cacheNames := r.cacheNames, backInherit := .all }

def layersOf (rs : List RawLayer) : List Layer := rs.zipIdx.map fun (r, i) => r.toLayer i

end CM
