/-
  CM.Model.Stack — what a stack of layers exposes: the declarative model behind C02, C09, C18 (and the
  pipeline-level part of C07).

  Mirrors, at the level of observable behaviour, the composition performed by
  containers/base.py (`connect_bags`, `normalize_bag` rules 2a and 3), containers/reversible.py
  (`normalize_inherit`, `detect_optionals`), interface/factory.py (parameters, constructor arguments,
  Source key renaming and persistent names), layers/cache.py (cache layers: identity on the cached names,
  everything inherited, touched fields become optional), layers/apply.py and engine/compiler.py
  (`_validate_optionals`, `get_node`).  It is a model of *what* those produce, not of how.
-/
import CM.Model.Value
import CM.Model.NameSet
namespace CM

/-- What a field computes: a term over the raw inputs of the whole stack. -/
inductive Term where
  | inp (n : String)
  | const (v : Val)
  | app (f : String) (args : List Term)
  deriving Repr, Inhabited

/-- A field whose inputs cannot all be reached: the missing inputs, as (layer index, input name). -/
inductive Entry where
  | term (t : Term)
  | broken (missing : List (Nat × String))
  deriving Repr, Inhabited

inductive Def where
  | fn (f : String) (args : List String)
  | identity (arg : String)
  | const (v : Val)
  deriving Repr, Inhabited

inductive Param where
  | fn (f : String) (args : List String)
  | const (v : Val)
  deriving Repr, Inhabited

inductive LKind where | source | transform | apply | cache
  deriving Repr, BEq, DecidableEq, Inhabited

/-- The content of one elementary layer. -/
structure Layer where
  index : Nat
  kind : LKind
  defs : List (String × Def)
  params : List (String × Param)
  /-- outputs marked `@optional` -/
  opt : List String
  persistent : List String
  /-- the names the layer inherits (`__inherit__`, `True`, `__exclude__`), as written -/
  inherit : NameSet
  /-- `__inherit__` given as a list of names (then a defined name in it is an error, rule 2a) -/
  inheritIsList : Bool
  /-- cache layers: the names to cache (`none` = all) -/
  cacheNames : Option (List String)
  /-- inverse fields (`@inverse`): name ↦ function over inverse inputs and the layer's private parameters -/
  inverses : List (String × Def) := []
  /-- the inverse names the layer passes through unchanged (`__inherit__` normalised against the inverse fields) -/
  backInherit : NameSet := .empty
  deriving Repr, Inhabited

def isPrivate (n : String) : Bool := n.startsWith "_"

def lookupAssoc {α : Type} (xs : List (String × α)) (k : String) : Option α :=
  (xs.find? fun p => p.1 == k).map (·.2)

def Layer.defines (l : Layer) (n : String) : Bool := (lookupAssoc l.defs n).isSome

/-- does the layer pass the earlier field `n` on?  (`True` and `__exclude__` subtract the defined names) -/
def Layer.inherits (l : Layer) (n : String) : Bool :=
  match l.kind with
  | .cache => true
  | .source => false
  | .apply => !l.defines n
  | .transform => if l.inheritIsList then l.inherit.mem n else l.inherit.mem n && !l.defines n

def defArgs : Def → List String
  | .fn _ args => args
  | .identity a => [a]
  | .const _ => []

/-- all `Input` nodes of the layer's container: also those that only an unused parameter reads -/
def Layer.inputNames (l : Layer) : List String :=
  let fromDefs := l.defs.flatMap fun (_, d) => (defArgs d).filter (!isPrivate ·)
  let fromParams := l.params.flatMap fun (_, p) =>
    match p with
    | .fn _ args => args.filter (!isPrivate ·)
    | .const _ => []
  (fromDefs ++ fromParams).eraseDups

/-- the input names that a list of arguments transitively reads, through private parameters (`fuel` bounds
the nesting of parameters; a cycle among parameters is rejected at construction) -/
def Layer.depsArgs (l : Layer) : Nat → List String → List String
  | 0, _ => []
  | fuel + 1, args =>
    args.flatMap fun a =>
      if isPrivate a then
        match lookupAssoc l.params a with
        | some (.fn _ pargs) => l.depsArgs fuel pargs
        | _ => []
      else [a]

def PARAM_FUEL : Nat := 16

def Layer.deps (l : Layer) (o : String) : List String :=
  match lookupAssoc l.defs o with
  | some d => (l.depsArgs PARAM_FUEL (defArgs d)).eraseDups
  | none => []

/-- the private parameters (functions) that a list of arguments transitively uses -/
def Layer.usedParamsArgs (l : Layer) : Nat → List String → List String
  | 0, _ => []
  | fuel + 1, args =>
    args.flatMap fun a =>
      if isPrivate a then
        match lookupAssoc l.params a with
        | some (.fn _ pargs) => a :: l.usedParamsArgs fuel pargs
        | _ => []
      else []

def Layer.usedParams (l : Layer) : List String :=
  (l.defs.flatMap fun (_, d) => l.usedParamsArgs PARAM_FUEL (defArgs d)).eraseDups

/-- Is the input `x` of layer `l` an optional node (`detect_optionals`, rule B)?  Every node of the layer that
depends on it - outputs, *used* private parameters, and the layer's own pass-through of `x` - must be an output
marked optional. -/
def Layer.leafOptional (l : Layer) (x : String) (materialised : List String) : Bool :=
  let users := l.defs.filter fun (o, _) => (l.deps o).contains x
  let viaParam := l.usedParams.any fun p =>
    match lookupAssoc l.params p with
    | some (.fn _ pargs) => (l.depsArgs PARAM_FUEL pargs).contains x
    | _ => false
  !materialised.contains x && !viaParam && !users.isEmpty && users.all fun (o, _) => l.opt.contains o

/-- The state after a prefix of the stack. -/
structure Sig where
  /-- exposed names: what each computes (or which inputs it lacks) and whether it is optional -/
  out : List (String × Entry × Bool) := []
  /-- names that still reach the raw input of the whole stack -/
  virt : NameSet := .all
  persistent : List String := []
  /-- optional status of every input of every layer, as (layer index, name) -/
  leafOpt : List ((Nat × String) × Bool) := []
  deriving Repr, Inhabited

def Sig.get (s : Sig) (n : String) : Option (Entry × Bool) := lookupAssoc s.out n

/-- what a layer sees under the name `i`: an earlier field, the raw input, or nothing -/
def Sig.lookup (s : Sig) (l : Layer) (i : String) : Entry :=
  match s.get i with
  | some (e, _) => e
  | none => if s.virt.mem i then .term (.inp i) else .broken [(l.index, i)]

def Entry.missing : Entry → List (Nat × String)
  | .broken m => m
  | .term _ => []

def combine (f : Option String) (es : List Entry) : Entry :=
  let missing := es.flatMap Entry.missing
  if !missing.isEmpty then .broken missing.eraseDups
  else
    let ts := es.filterMap fun e => match e with | .term t => some t | .broken _ => none
    match f with
    | some f => .term (.app f ts)
    | none => .term (ts.headD (.const .none))

/-- the term of a function over its arguments; `none` = a parameter that is not defined or nested too deep -/
def Layer.termOf (l : Layer) (s : Sig) : Nat → Option String → List String → Option Entry
  | 0, _, _ => none
  | fuel + 1, f, args =>
    let es := args.mapM fun a =>
      if isPrivate a then
        match lookupAssoc l.params a with
        | some (.const v) => some (.term (.const v))
        | some (.fn pf pargs) => l.termOf s fuel (some pf) pargs
        | none => none
      else some (s.lookup l a)
    es.map (combine f)

inductive StackErr where | graphError | fieldError
  deriving Repr, BEq, Inhabited

/-- does layer `l`, on top of state `s`, pass the earlier field `n` on (inherit, or persistent and not redefined)? -/
def Sig.passes (s : Sig) (l : Layer) (n : String) : Bool :=
  l.inherits n || (s.persistent.contains n && !l.defines n)

/-- the fields the layer defines, over what it sees; `none` = an undefined private parameter -/
def Sig.definedEntries (s : Sig) (l : Layer) : Option (List (String × Entry × Bool)) :=
  l.defs.mapM fun (n, d) =>
    match d with
    | .const v => some (n, Entry.term (.const v), l.opt.contains n)
    | .identity a => (l.termOf s (PARAM_FUEL + 1) none [a]).map fun e => (n, e, l.opt.contains n)
    | .fn f args => (l.termOf s (PARAM_FUEL + 1) (some f) args).map fun e => (n, e, l.opt.contains n)

/-- the earlier fields that survive; a name the layer inherits *and* consumes is its own required pass-through -/
def Sig.inheritedEntries (s : Sig) (l : Layer) : List (String × Entry × Bool) :=
  s.out.filterMap fun (n, e, o) =>
    if !l.defines n && s.passes l n then
      if l.inputNames.contains n && l.inherits n then some (n, e, false) else some (n, e, o)
    else none

/-- inherited, consumed, absent upstream: materialised as the layer's own pass-through -/
def Sig.freshNames (s : Sig) (l : Layer) : List String :=
  l.inputNames.filter fun n => l.inherits n && (s.get n).isNone && !l.defines n

def Layer.inheritSet (l : Layer) : NameSet :=
  match l.kind with
  | .source => .empty
  | .apply => .cofin (l.defs.map (·.1))
  | _ => l.inherit

/-- Append one layer. -/
def Sig.step (s : Sig) (l : Layer) : Except StackErr Sig :=
  match l.kind with
  | .cache =>
    -- identity on the cached names that exist, everything else inherited; touched fields become optional
    let out := s.out.map fun (n, e, o) =>
      let cached := match l.cacheNames with | none => true | some ns => ns.contains n
      (n, e, if cached then true else o)
    .ok { s with out := out }
  | _ =>
    if l.kind == .transform && l.inheritIsList && l.defs.any (fun (n, _) => l.inherit.mem n) then .error .graphError
    else
      match s.definedEntries l with
      | none => .error .fieldError
      | some defined =>
        let inherited := s.inheritedEntries l
        let fresh := s.freshNames l
        let freshEntries := fresh.map fun n => (n, s.lookup l n, false)
        let materialised := (inherited.filter fun (n, _, _) => l.inputNames.contains n && l.inherits n).map (·.1) ++ fresh
        let out := defined ++ inherited ++ freshEntries
        let leaf := l.inputNames.map fun x => ((l.index, x), l.leafOptional x materialised)
        .ok { out := out
              virt := (s.virt.inter l.inheritSet).diff (.fin (out.map (·.1)))
              persistent := (s.persistent ++ l.persistent).eraseDups
              leafOpt := s.leafOpt ++ leaf }

def sigOf (ls : List Layer) : Except StackErr Sig :=
  ls.foldlM Sig.step {}

/-! ### Observables of the compiled pipeline (`engine/compiler.py`) -/

/-- a broken field is left out quietly iff it is optional and every input it lacks is an optional node of the
layer that asks for it; any other broken field makes the pipeline unusable (`DependencyError`) -/
def Sig.quiet (s : Sig) (e : Entry) (o : Bool) : Bool :=
  match e with
  | .term _ => true
  | .broken ms => o && ms.all fun m => ((s.leafOpt.find? fun p => p.1 == m).map (·.2)).getD false

def Sig.dependencyError (s : Sig) : Bool := s.out.any fun (_, e, o) => !s.quiet e o

def strLe (a b : String) : Bool := !(b < a)

def Sig.dir (s : Sig) : List String :=
  (s.out.filterMap fun (n, e, _) => match e with | .term _ => some n | .broken _ => none).mergeSort strLe

inductive FieldObs where
  | fieldError
  | identity
  | computed (sig : List String) (t : Term)
  deriving Repr, Inhabited

mutual
  def Term.inputs : Term → List String
    | .inp n => [n]
    | .const _ => []
    | .app _ args => Term.inputsList args
  def Term.inputsList : List Term → List String
    | [] => []
    | t :: ts => t.inputs ++ Term.inputsList ts
end

def Sig.field (s : Sig) (n : String) : FieldObs :=
  match s.get n with
  | some (.term t, _) => .computed (t.inputs.eraseDups.mergeSort strLe) t
  | some (.broken _, _) => .fieldError
  | none => if s.virt.mem n then .identity else .fieldError

mutual
  /-- the value of a term on symbolic inputs: user functions are uninterpreted -/
  def Term.eval (env : String → Val) : Term → Val
    | .inp n => env n
    | .const v => v
    | .app f args => .app f (Term.evalList env args) [] []
  def Term.evalList (env : String → Val) : List Term → List Val
    | [] => []
    | t :: ts => t.eval env :: Term.evalList env ts
end

end CM
