/-
  CM.Model.NameSet — finite and co-finite sets of names.
  Mirrors: connectome/utils.py `AntiSet` and its mixed operations with `set` (`&`, `|`, `-`, reflected forms).
-/
namespace CM

inductive NameSet where
  /-- a Python `set` -/
  | fin (xs : List String)
  /-- `AntiSet(excluded)`: everything but `excluded` -/
  | cofin (excluded : List String)
  deriving Repr, Inhabited

namespace NameSet

def mem (s : NameSet) (x : String) : Bool :=
  match s with
  | fin xs => xs.contains x
  | cofin ex => !ex.contains x

def linter (a b : List String) : List String := a.filter b.contains
def ldiff (a b : List String) : List String := a.filter fun x => !b.contains x
def lunion (a b : List String) : List String := a ++ ldiff b a

/-- `a & b` (`AntiSet.__and__`, `__rand__`, and `set.__and__`) -/
def inter : NameSet → NameSet → NameSet
  | fin a, fin b => fin (linter a b)
  | cofin a, cofin b => cofin (lunion a b)          -- AntiSet(self.excluded | other.excluded)
  | cofin a, fin b => fin (ldiff b a)               -- other - self.excluded
  | fin a, cofin b => fin (ldiff a b)               -- __rand__

/-- `a | b` (`AntiSet.__or__`, `__ror__`, and `set.__or__`) -/
def union : NameSet → NameSet → NameSet
  | fin a, fin b => fin (lunion a b)
  | cofin a, cofin b => cofin (linter a b)          -- AntiSet(self.excluded & other.excluded)
  | cofin a, fin b => cofin (ldiff a b)             -- AntiSet(self.excluded - other)
  | fin a, cofin b => cofin (ldiff b a)             -- __ror__

/-- `a - b` (`AntiSet.__sub__`, `__rsub__`, and `set.__sub__`) -/
def diff : NameSet → NameSet → NameSet
  | fin a, fin b => fin (ldiff a b)
  | cofin a, cofin b => fin (ldiff b a)             -- other.excluded - self.excluded
  | cofin a, fin b => cofin (lunion a b)            -- AntiSet(self.excluded | other)
  | fin a, cofin b => fin (linter b a)              -- __rsub__: self.excluded & other

def all : NameSet := cofin []
def empty : NameSet := fin []

end NameSet
end CM
