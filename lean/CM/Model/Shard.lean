/-
  CM.Model.Shard — `CachedColumn._get_shard` (layers/columns.py): the shards partition the sorted keys.
  A float `shard_size` is converted by the code to `ceil(size * len(keys))` first; the model takes the integer.
-/
import CM.Model.Value
namespace CM

/-- insert into a sorted list, keeping duplicates (`sorted(keys)`) -/
def insertKeep (x : String) : List String → List String
  | [] => [x]
  | y :: ys => if x < y then x :: y :: ys else y :: insertKeep x ys

def sortKeep (xs : List String) : List String := xs.foldr insertKeep []

/-- the `i`-th shard of size `sz` -/
def shardAt (ks : List String) (sz i : Nat) : List String := (ks.drop (i * sz)).take sz

/-- `_get_shard(key, keys)` -> (keys of the shard, number of shards, index of the shard) -/
def getShard (keys : List String) (size : Option Nat) (key : String) : Except Err (List String × Nat × Nat) :=
  let ks := sortKeep keys
  if !ks.contains key then .error .valueError
  else match size with
    | none => .ok (ks, 1, 0)
    | some 0 => .error .assertionError
    | some sz =>
      let idx := ks.idxOf key / sz
      .ok (shardAt ks sz idx, (ks.length + sz - 1) / sz, idx)

end CM
