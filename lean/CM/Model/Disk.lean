/-
  CM.Model.Disk — the write protocol of the disk store (tarn `DiskDict.write` as used by `DiskCache`/`PickleKeyStorage`,
  observed with an audit hook: mkdir, chmod, chown, open(tmp), write*, chmod, chown, rename - for the blob, then for the
  index entry) over an abstract file system, and the reader (index entry present and well-formed, referenced blob present;
  a dangling or malformed index entry is deleted and reported as a miss).  tarn itself is trusted, not verified.
-/
namespace CM

abbrev Path := String
/-- file contents as the list of chunks written -/
abbrev Content := List Nat

structure Fs where
  files : List (Path × Content) := []
  deriving Repr, Inhabited

def Fs.read (fs : Fs) (p : Path) : Option Content := (fs.files.find? (·.1 == p)).map (·.2)

def Fs.erase (fs : Fs) (p : Path) : Fs := { files := fs.files.filter (·.1 != p) }

def Fs.put (fs : Fs) (p : Path) (c : Content) : Fs := { files := (p, c) :: (fs.erase p).files }

inductive FsOp where
  | mkdir (d : Path) | chmod (p : Path) | chown (p : Path)
  | create (p : Path)                 -- `open(p, 'wb')`: creates or truncates
  | write (p : Path) (chunk : Nat)
  | rename (src dst : Path)           -- atomic; replaces `dst`
  | remove (p : Path)
  deriving Repr

def Fs.apply (fs : Fs) : FsOp → Fs
  | .mkdir _ | .chmod _ | .chown _ => fs
  | .create p => fs.put p []
  | .write p ch => match fs.read p with
    | some c => fs.put p (c ++ [ch])
    | none => fs
  | .rename src dst => match fs.read src with
    | some c => (fs.erase src).put dst c
    | none => fs
  | .remove p => fs.erase p

def Fs.run (fs : Fs) (ops : List FsOp) : Fs := ops.foldl Fs.apply fs

/-- the mutations of storing one file: write a temporary file completely, then rename it to its final path -/
def storeFile (dir tmp final : Path) (c : Content) : List FsOp :=
  [.mkdir dir, .chmod dir, .chown dir, .create tmp] ++ c.map (.write tmp) ++ [.chmod tmp, .chown tmp, .rename tmp final]

/-- one cache entry -/
structure DiskEntry where
  blobDir : Path
  blobTmp : Path
  blobPath : Path
  blob : Content
  idxDir : Path
  idxTmp : Path
  idxPath : Path
  /-- the well-formed index record referring to the blob -/
  idx : Content

/-- the blob first, then the index entry -/
def writeEntry (e : DiskEntry) : List FsOp :=
  storeFile e.blobDir e.blobTmp e.blobPath e.blob ++ storeFile e.idxDir e.idxTmp e.idxPath e.idx

/-- the reader: `none` = miss (a missing, malformed or dangling index entry; the code deletes it) -/
def readEntry (fs : Fs) (e : DiskEntry) : Option Content :=
  match fs.read e.idxPath with
  | none => none
  | some c => if c = e.idx then fs.read e.blobPath else none

end CM
