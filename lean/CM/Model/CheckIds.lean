import CM.Model.Bag
namespace CM

/-- `CheckIds()._connect(previous)` (layers/check_ids.py): a copy of the previous container whose single input is produced by a
`CheckIdsEdge` over a new input of the same name and the `ids` output -/
def checkIdsBag (prev : Bag) : Except BagErr Bag :=
  match prev.inputs, byName prev.outputs "ids" with
  | [i], some idsOut =>
    let new : BNode := { id := prev.next, name := i.name }
    mkBag { inputs := [new], outputs := prev.outputs,
            edges := prev.edges ++ [{ edge := .checkIds, ins := [new, idsOut], out := i }],
            virt := prev.virt, persistent := prev.persistent, optional := prev.optional, ctx := prev.ctx, next := prev.next + 1 }
  | _, _ => .error .duplicates      -- `assert len(inputs) == 1` / `outputs['ids']`: an AssertionError or a KeyError

end CM
