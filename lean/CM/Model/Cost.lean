/-
  CM.Model.Cost — traversals with step counters.  A step is one entry of the Python visitor function, so the numbers
  are comparable with a `sys.setprofile` count of calls.

  `visitPaths`  : the pinned `validate_graph` / `count_entries` / `_detect_impure` (no visited set): once per path.
  `visitOnce`   : the repaired traversals (visited set): once per node plus once per parent occurrence.
-/
import CM.Model.VM
namespace CM

def Graph.stops (g : Graph) (n : Nat) : Bool := g.inputs.contains n || (g.node n).edge.isNone

/-- number of visitor calls of the path-enumerating traversal started at `n` -/
def visitPaths (g : Graph) : Nat → Nat → Nat
  | 0, _ => 0
  | fuel + 1, n => if g.stops n then 1 else 1 + ((g.parents n).map (visitPaths g fuel)).sum

/-- the traversal with a visited set: (number of visitor calls, visited nodes) -/
def visitOnce (g : Graph) : Nat → Nat → List Nat → Nat × List Nat
  | 0, _, vis => (0, vis)
  | fuel + 1, n, vis =>
    if vis.contains n then (1, vis)
    else if g.stops n then (1, n :: vis)
    else (g.parents n).foldl (fun (acc : Nat × List Nat) p =>
        let r := visitOnce g fuel p acc.2
        (acc.1 + r.1, r.2)) (1, n :: vis)

/-- the work the repaired traversal can be charged for: every visited node pays for its parent occurrences once -/
def parentWeight (g : Graph) (vis : List Nat) : Nat := (vis.map fun m => (g.parents m).length).sum

end CM
