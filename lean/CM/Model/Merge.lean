/-
  CM.Model.Merge — the container of `Merge(*layers)` (layers/merge.py `Merge._merge_containers`), node by node.
-/
import CM.Model.Bag
namespace CM

/-- the parts as fresh copies placed one above the other (`container.freeze(details)`), starting at identity `base` -/
def freezeParts : List Bag → Nat → List Bag
  | [], _ => []
  | p :: ps, base => p.shift base :: freezeParts ps (base + p.next)

def partsNext : List Bag → Nat → Nat
  | [], base => base
  | p :: ps, base => partsNext ps (base + p.next)

def interNames : List (List String) → List String
  | [] => []
  | [xs] => xs
  | xs :: rest => xs.filter (interNames rest).contains

inductive MergeErr where
  /-- `ValueError`: a part without exactly one input, or inputs of different names -/
  | value
  | bag (e : BagErr)
  deriving Repr, Inhabited

/-- the arguments `_merge_containers` passes to `EdgesBag(...)`; `table`: the routing table `id_to_index`, sorted -/
def mergeRaw (table : List (Val × Nat)) (parts0 : List Bag) (keysName : String) : Except MergeErr RawBag :=
  let parts := freezeParts parts0 0
  let base := partsNext parts0 0
  if parts.any (fun p => p.inputs.length != 1) then .error .value
  else
    let inNames := (parts.flatMap (·.inputs)).map (·.name)
    match inNames with
    | [] => .error .value
    | x :: _ =>
      if inNames.any (· != x) then .error .value
      else
        let inp : BNode := { id := base, name := x }
        let stitches := (parts.flatMap (·.inputs)).map fun i => identityEdge inp i
        let common := (interNames (parts.map fun p => names p.outputs)).filter (· != keysName)
        let optional0 := parts.flatMap (·.optional)
        let outs : List BNode := common.zipIdx.map fun (n, i) => { id := base + 1 + i, name := n }
        let switches : List BEdge := outs.map fun o =>
          { edge := .switch table, ins := inp :: parts.filterMap (fun p => byName p.outputs o.name), out := o }
        let optOuts := outs.filter fun o => (parts.filterMap (fun p => byName p.outputs o.name)).all optional0.contains
        let ids : BNode := { id := base + 1 + common.length, name := keysName }
        let idsEdge : BEdge := { edge := .constant (.tup (table.map (·.1))), ins := [], out := ids }
        .ok { inputs := [inp], outputs := outs ++ [ids],
              edges := parts.flatMap (·.edges) ++ stitches ++ switches ++ [idsEdge],
              virt := .fin [], persistent := interNames (parts.map (·.persistent)), optional := optional0 ++ optOuts,
              ctx := .no, next := base + 2 + common.length }

def mergeBags (table : List (Val × Nat)) (parts : List Bag) (keysName : String) : Except MergeErr Bag :=
  match mergeRaw table parts keysName with
  | .error e => .error e
  | .ok raw =>
    match mkBag raw with
    | .error e => .error (.bag e)
    | .ok b => .ok b

end CM
