import CM.Model.Bag
namespace CM

/-- the edges of `GroupBy` that carry a compiled graph of their own are opaque at the container level -/
def groupMappingK : EdgeK := .function "$GroupMapping" [] []
def groupEdgeK : EdgeK := .function "$GroupEdge" [] []
def sortedIdsK : EdgeK := .function "$sorted" [] []

/-- the fields `GroupBy` re-keys: every output of the previous container but `ids` and `id` -/
def groupFields (prev : Bag) : List BNode := prev.outputs.filter fun o => o.name != "ids" && o.name != "id"

/-- the arguments `GroupBy._prepare_container(previous)` (layers/group.py) passes to `EdgesBag(...)`: a copy of the previous container, a new input
`id`, the mapping `{new id: [old ids]}` computed from the previous `ids` by `GroupMapping` and kept by a memory cache, one `GroupEdge` over
(new id, mapping) per field, and the new `ids` = the sorted keys of the mapping -/
def groupByRaw (prev : Bag) (keys : BNode) : RawBag :=
  let n := prev.next
  let changed : BNode := ⟨n, "id"⟩
  let raw : BNode := ⟨n + 1, "$mapping"⟩
  let mapping : BNode := ⟨n + 2, "$mapping"⟩
  let fields := groupFields prev
  let outs : List BNode := (List.range fields.length).zip fields |>.map fun (i, o) => { id := n + 3 + i, name := o.name }
  let idsOut : BNode := ⟨n + 3 + fields.length, "ids"⟩
  { inputs := [changed], outputs := changed :: outs ++ [idsOut],
    edges := prev.edges ++ [{ edge := groupMappingK, ins := [keys], out := raw }, { edge := .cache 0, ins := [raw], out := mapping }] ++
      outs.map (fun o => ({ edge := groupEdgeK, ins := [changed, mapping], out := o } : BEdge)) ++
      [{ edge := sortedIdsK, ins := [mapping], out := idsOut }],
    virt := .fin [], persistent := prev.persistent, optional := prev.optional, ctx := .no, next := n + 4 + fields.length }

/-- `GroupBy(by)._connect(previous)`; `assert len(main.inputs) == 1`, `assert 'ids' in outputs`: an AssertionError; no field to group: a RuntimeError
(reported as `value` here) -/
def groupByBag (prev : Bag) : Except BagErr Bag :=
  match prev.inputs, byName prev.outputs "ids" with
  | [_], some keys =>
    if (groupFields prev).isEmpty then .error .value else mkBag (groupByRaw prev keys)
  | _, _ => .error .duplicates

end CM
