/-
  CM.Model.Value — symbolic values, node hashes and VM stack items.

  Mirrors: connectome/engine/node_hash.py (LeafHash, ApplyHash, GraphHash, CustomHash) and the kinds of
  objects that travel on the VM stack (engine/vm.py).  User functions are uninterpreted: the result of
  calling `f` is the term `app f pos kw`.  Core Lean only (no imports), so the driver links natively.
-/
namespace CM

/-- Python values as far as the properties can observe them.  The only nesting is through `List Val`
(keyword arguments and dictionaries are split into parallel lists), which keeps recursion simple. -/
inductive Val where
  | none
  | bool (b : Bool)
  | int (i : Int)
  | str (s : String)
  /-- an opaque object compared by identity: a function object, a class, `object()` -/
  | atom (name : String)
  | tup (xs : List Val)
  /-- a dictionary: keys and values as parallel lists (insertion order) -/
  | dict (ks : List Val) (vs : List Val)
  /-- the result of an uninterpreted pure user function: positional args, keyword names, keyword values -/
  | app (f : String) (pos : List Val) (kwn : List String) (kwv : List Val)
  /-- the result of an `@impure` user function executed in top-level call `call` at node `node` -/
  | imp (f : String) (call : Nat) (node : Nat) (pos : List Val) (kwn : List String) (kwv : List Val)
  deriving Repr, Inhabited

mutual
  def Val.beq : Val → Val → Bool
    | .none, .none => true
    | .bool a, .bool b => a == b
    | .int a, .int b => a == b
    | .str a, .str b => a == b
    | .atom a, .atom b => a == b
    | .tup a, .tup b => Val.beqList a b
    | .dict a b, .dict c d => Val.beqList a c && Val.beqList b d
    | .app f p k v, .app g q l w => f == g && Val.beqList p q && k == l && Val.beqList v w
    | .imp f c n p k v, .imp g d m q l w =>
        f == g && c == d && n == m && Val.beqList p q && k == l && Val.beqList v w
    | _, _ => false
  def Val.beqList : List Val → List Val → Bool
    | [], [] => true
    | a :: as, b :: bs => Val.beq a b && Val.beqList as bs
    | _, _ => false
end

instance : BEq Val := ⟨Val.beq⟩

/-- The `value` tuple of a `NodeHash`, as a tree. -/
inductive NHash where
  | leaf (v : Val)
  | apply (f : String) (args : List NHash) (kw : List String)
  | graph (h : NHash)
  | custom (marker : String) (children : List NHash)
  deriving Repr, Inhabited

mutual
  def NHash.beq : NHash → NHash → Bool
    | .leaf a, .leaf b => a == b
    | .apply f a k, .apply g b l => f == g && NHash.beqList a b && k == l
    | .graph a, .graph b => NHash.beq a b
    | .custom m a, .custom n b => m == n && NHash.beqList a b
    | _, _ => false
  def NHash.beqList : List NHash → List NHash → Bool
    | [], [] => true
    | a :: as, b :: bs => NHash.beq a b && NHash.beqList as bs
    | _, _ => false
end

instance : BEq NHash := ⟨NHash.beq⟩

/-- `graph._PLACEHOLDER = LeafHash(object())` -/
def placeholder : NHash := .leaf (.atom "$placeholder")

/-- What can lie on the VM's stack. -/
inductive Item where
  | val (v : Val)
  | hash (h : NHash)
  /-- the output of `compute_hash`: `(NodeHash, payload)` -/
  | hout (h : NHash) (p : Val)
  | node (n : Nat)
  | tup (xs : List Item)
  deriving Repr, Inhabited

/-- The classes of Python exceptions the model distinguishes. -/
inductive Err where
  /-- raised by a user function (fault injection), carries the function name -/
  | user (f : String)
  | valueError | keyError | typeError | runtimeError | hashError
  | dependencyError | fieldError | graphError | attributeError | assertionError
  /-- what C01 says never surfaces: an ill-typed response, a failed internal assertion, a bad pop -/
  | internal
  deriving Repr, BEq, DecidableEq, Inhabited

def Err.name : Err → String
  | .user f => "user:" ++ f
  | .valueError => "ValueError" | .keyError => "KeyError" | .typeError => "TypeError"
  | .runtimeError => "RuntimeError" | .hashError => "HashError"
  | .dependencyError => "DependencyError" | .fieldError => "FieldError" | .graphError => "GraphError"
  | .attributeError => "AttributeError" | .assertionError => "AssertionError" | .internal => "internal"

end CM
