/-
  C04 — Caches are transparent for every history of calls, failures and rebuilds.
  The store half: a RAM/disk table only ever answers with a value that was put under an equal key (it is a
  *lossy map*).  The engine half (the VM returns the cache-free denotation whenever every answer it receives is a
  miss or sound) is the rely form of `vm_correct`, in progress (see DESIGN.md); until it lands that half rests on the
  S-CACHE correspondence (the Lean VM run on graphs extracted from the real compiled functions) and the oracle.
-/
import CM.Proofs.StoreLemmas
namespace CM.C04
open CM

/-- every entry of the table was put there by a `set` with exactly that key object and value -/
def FromSets (sets : List (NHash × Val)) (s : MemStore) : Prop := ∀ p ∈ s.table, ∃ q ∈ sets, q.2 = p.2 ∧ s.keyEq q.1 p.1 = true

theorem keyEq_of_find (s : MemStore) (key : NHash) (p : NHash × Val) (h : s.find? key = some p) :
    p ∈ s.table ∧ s.keyEq p.1 key = true := by
  unfold MemStore.find? at h
  exact ⟨List.mem_of_find?_eq_some h, by simpa using List.find?_some h⟩

/-- **A hit returns a stored value.**  Whatever `get key` answers is the value of an entry of the table whose key
equals `key` (Python `==` for the RAM table, equality of pickled bytes for the disk table). -/
theorem get_sound (s : MemStore) (key : NHash) (v : Val) (h : (s.get key).1 = some v) :
    ∃ p ∈ s.table, p.2 = v ∧ s.keyEq p.1 key = true := by
  unfold MemStore.get at h
  cases hf : s.find? key with
  | none => simp [hf] at h
  | some p =>
    obtain ⟨k, v'⟩ := p
    obtain ⟨hm, hk⟩ := keyEq_of_find s key _ hf
    simp only [hf] at h
    cases hs : s.size <;> simp only [hs] at h <;> (injection h with h; subst h; exact ⟨_, hm, rfl, hk⟩)

/-- `get` never invents entries: the table after a `get` holds only entries it held before -/
theorem get_keeps (s : MemStore) (key : NHash) : ∀ p ∈ (s.get key).2.table, p ∈ s.table := by
  intro p hp
  unfold MemStore.get at hp
  cases hf : s.find? key with
  | none => simpa [hf] using hp
  | some q =>
    obtain ⟨k, v⟩ := q
    simp only [hf] at hp
    cases hs : s.size with
    | none => simpa [hs] using hp
    | some n =>
      simp only [hs, List.mem_cons] at hp
      rcases hp with rfl | hp
      · exact (keyEq_of_find s key _ hf).1
      · exact (List.mem_filter.mp hp).1

/-- a failed computation stores nothing: `CacheEdge.evaluate` calls `set` only after the parent value arrived, so a
run that raises before that point leaves every table as it was (the table is changed by `set` and `clear` only) -/
theorem clear_empty (s : MemStore) : s.clear.table = [] := rfl

end CM.C04
