/-
  C04 — Caches are transparent for every history of calls, failures and rebuilds.

  **Store half.**  A RAM/disk table only ever answers with a value that was put under an equal key (`get_sound`,
  `get_keeps`, `set_keeps`): it is a lossy map.

  **Engine half (rely form of `vm_correct`).**  Let a family `F` of (pipeline graph, configuration) pairs share the
  stores — one pipeline on all its inputs, rebuilt pipelines, pipeline variants on the same storage — and assume
  that node hashes are faithful on the family (`Faithful`: two nodes whose hashes match one key by the store's key
  equality have equal values; this is property C05, proved for silent-free graphs and structural key equality in
  `CM.Props.C05`).  Then for **every history** of calls of members of the family on any inputs, with any schedule of
  raising user functions, of `clear`s, LRU evictions, rebuilds and variant switches:

    * `history_sound`: every entry of every store is the value of every node whose hash matches its key — in
      particular a failed computation leaves nothing behind that a later call could read wrongly;
    * `history_values`: whatever a call returns is the value of the cache-free denotation of that call;
    * `cached_call`: every call stops.

    * `full_spec_along_history`: a raising call propagates a scheduled user exception or the error of the cache-free
      denotation, never an internal failure of the machine; at most one user call per node.

  Not covered: the serializer round trip (trusted).  Where the
  hypothesis fails on the real code the property fails: F3 (Python `==` on keys of RAM tables) and F10 (CheckIds is
  hash-transparent but decides whether a value exists) are the two known findings; `f10_in_model` shows F10 on the
  model.
-/
import CM.Proofs.CacheCorrect
import CM.Proofs.CorrectC
import CM.Proofs.Decode
namespace CM.C04
open CM

/-- **A hit returns a stored value.** -/
theorem get_sound (s : MemStore) (key : NHash) (v : Val) (h : (s.get key).1 = some v) :
    ∃ p ∈ s.table, p.2 = v ∧ s.keyEq p.1 key = true := s.get_hit key v h

/-- `get` never invents entries -/
theorem get_keeps (s : MemStore) (key : NHash) : ∀ p ∈ (s.get key).2.table, p ∈ s.table := (s.get_sub key).1

/-- `set key v` adds nothing but `v` under a key equal to `key` (and may evict) -/
theorem set_keeps (s : MemStore) (key : NHash) (v : Val) :
    ∀ p ∈ (s.set key v).table, p ∈ s.table ∨ (p.2 = v ∧ s.keyEq p.1 key = true) := (s.set_sub key v).1

theorem clear_empty (s : MemStore) : s.clear.table = [] := rfl

/-- **One call** on sound stores: stops; a returned value is the cache-free denotation; the stores stay sound whether
it returned or raised. -/
theorem cached_call_transparent (F : Fam) (g : Graph) (ok : GraphOKC g) (env : String → Option Val) (w : World)
    (hc : CallOK g env) (hF : F g (denCfgOf env w)) (hst : StoreSound F w) :
    ∃ N o steps, (∀ fuel, N ≤ fuel → g.call env w fuel = some (o, steps)) ∧ CachedSpec F g (denCfgOf env w) o :=
  cached_call F g ok env w hc hF hst

/-- **Every history keeps the stores sound.** -/
theorem stores_sound_along_history (F : Fam) (w : World) (h : Reach F w) : StoreSound F w := history_sound F w h

/-- **Every history: a returned value is the cache-free value.** -/
theorem transparent_along_history (F : Fam) (w : World) (h : Reach F w) (c : CallSpec) (fuel steps : Nat) (x : Item) (s : St)
    (ok : GraphOKC c.g) (hc : CallOK c.g c.env) (hF : F c.g (denCfgOf c.env (prepare w c)))
    (hrun : c.g.call c.env (prepare w c) fuel = some (.done x s, steps)) :
    ∃ v, x = .val v ∧ vden c.g (denCfgOf c.env (prepare w c)) = .ok v :=
  history_values F w h c fuel steps x s ok hc hF hrun

/-- **Every history, the full specification**: value or exception of the cache-free denotation (or a scheduled user
exception, propagated unchanged), never an internal failure, sound stores, at most one user call per node. -/
theorem full_spec_along_history (F : Fam) (w : World) (h : Reach F w) (c : CallSpec) (fuel steps : Nat) (o : Outcome)
    (ok : GraphOKC c.g) (hc : CallOK c.g c.env) (hF : F c.g (denCfgOf c.env (prepare w c)))
    (hrun : c.g.call c.env (prepare w c) fuel = some (o, steps)) :
    FullSpec F c.g (denCfgOf c.env (prepare w c)) (!(prepare w c).failAt.isEmpty) o :=
  history_full F w h c fuel steps o ok hc hF hrun

/-- **Unconditional for disk caches of plain pipelines.**  With the faithfulness of hashes proved (C05) instead of
assumed: for every family of plain pipelines (no Silent arguments, no CheckIds) sharing empty disk stores, after
every history whatever a call returns is its cache-free value. -/
theorem disk_caches_transparent (F : Fam) (hF : ∀ g d, F g d → Plain g d) (w0 : World)
    (hw0 : ∀ (s : Nat) (st : MemStore), w0.stores[s]? = some st → st.exact = true ∧ st.table = [])
    :
    StoreSound F w0 ∧
    ∀ (w : World), Reach F w → ∀ (c : CallSpec) (fuel steps : Nat) (x : Item) (s : St), GraphOKC c.g → CallOK c.g c.env →
      F c.g (denCfgOf c.env (prepare w c)) → c.g.call c.env (prepare w c) fuel = some (.done x s, steps) →
      ∃ v, x = .val v ∧ vden c.g (denCfgOf c.env (prepare w c)) = .ok v := by
  have hs0 : StoreSound F w0 := by
    intro s st hst
    obtain ⟨hex, htab⟩ := hw0 s st hst
    rw [hex, htab]
    exact ⟨fun p hp => (by cases hp), faithful_exact F hF⟩
  exact ⟨hs0, fun w hr c fuel steps x s ok hc hFc hrun => history_values F w hr c fuel steps x s ok hc hFc hrun⟩

/-! ### non-vacuity -/

/-- `x -> f(x) -> cache` -/
def demo : Graph :=
  { nodes := [⟨"x", none, []⟩, ⟨"fx", some (.function "f" [] []), [0]⟩, ⟨"c", some (.cache 0), [1]⟩],
    inputs := [0], output := 2 }

def envOf (v : Val) : String → Option Val := fun s => if s = "x" then some v else none

def world0 : World := { stores := [{ size := some 2, table := [], exact := true }] }

/-- empty stores are sound for any family with faithful hashes -/
theorem empty_sound (F : Fam) (hf : Faithful F true) : StoreSound F world0 := by
  intro s st hs
  cases s with
  | zero =>
    simp only [world0, List.getElem?_cons_zero, Option.some.injEq] at hs
    subst hs
    exact ⟨fun p hp => (by cases hp), hf⟩
  | succ s => simp [world0] at hs

/-- the value a finished call returned -/
def valueOf : Option (Outcome × Nat) → Option Val
  | some (.done (.val v) _, _) => some v
  | _ => none

/-- the world a finished call leaves, with the log emptied -/
def worldOf : Option (Outcome × Nat) → World
  | some (o, _) => { o.mem.world with log := [] }
  | none => {}

def callsOf : Option (Outcome × Nat) → Nat
  | some (o, _) => o.mem.world.log.length
  | none => 0

/-- first call computes `f(3)` (one call of `f`) -/
example : valueOf (demo.call (envOf (.int 3)) world0 100) = some (.app "f" [.int 3] [] []) ∧
    callsOf (demo.call (envOf (.int 3)) world0 100) = 1 := ⟨rfl, rfl⟩

/-- second call with the same input: served from the store, no call of `f`, same value -/
example : valueOf (demo.call (envOf (.int 3)) (worldOf (demo.call (envOf (.int 3)) world0 100)) 100)
      = some (.app "f" [.int 3] [] []) ∧
    callsOf (demo.call (envOf (.int 3)) (worldOf (demo.call (envOf (.int 3)) world0 100)) 100) = 0 := ⟨rfl, rfl⟩

/-! ### F10 on the model: CheckIds upstream of a shared cache -/

/-- `key -> CheckIds(key, ids) -> image(key) -> cache`, with the id list a constant of the variant -/
def variant (ids : List Val) : Graph :=
  { nodes := [⟨"key", none, []⟩, ⟨"ids", some (.constant (.tup ids)), []⟩, ⟨"chk", some .checkIds, [0, 1]⟩,
              ⟨"image", some (.function "image" [] []), [2]⟩, ⟨"c", some (.cache 0), [3]⟩],
    inputs := [0], output := 4 }

def envKey (v : Val) : String → Option Val := fun s => if s = "key" then some v else none

/-- the large variant stores image("4"); the small variant, whose denotation is `KeyError`, is then served it:
`Faithful` fails for a family containing both variants, and so does the property (known finding F10) -/
theorem f10_in_model :
    vden (variant [.str "0", .str "1"]) (denCfgOf (envKey (.str "4")) world0) = .error .keyError ∧
    valueOf ((variant [.str "0", .str "1"]).call (envKey (.str "4"))
      (worldOf ((variant [.str "0", .str "1", .str "4"]).call (envKey (.str "4")) world0 100)) 100)
      = some (.app "image" [.str "4"] [] []) := ⟨rfl, rfl⟩

end CM.C04
