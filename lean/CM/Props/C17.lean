import CM.Model.Rel
namespace CM.C17
theorem placeholder : True := trivial
end CM.C17
