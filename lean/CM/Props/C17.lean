/-
  C17 — GroupBy re-keys a dataset as an exact partition.
  Property theorems about CM.Model.Rel (tied to /repo by the S-REL correspondence).  Split is covered by the
  correspondence only (see DESIGN.md).
-/
import CM.Proofs.RelLemmas
namespace CM.C17
open CM

/-- **Exact partition.**  When the mapping of GroupBy is built without error, every group `(k, g)` holds exactly
the old ids whose key is `k`; group keys are pairwise different; no group is empty. -/
theorem group_partition (keyOf : String → Except Err String) :
    ∀ (ids : List String) (m : List (String × List String)), groupMapping keyOf ids = .ok m →
      (∀ k g, (k, g) ∈ m → ∀ i, i ∈ g ↔ (i ∈ ids ∧ keyOf i = .ok k)) ∧
      (m.map (·.1)).Nodup ∧
      (∀ k g, (k, g) ∈ m → g ≠ []) ∧
      (∀ i ∈ ids, ∃ k g, keyOf i = .ok k ∧ (k, g) ∈ m)
  | [], m, h => by
    simp only [groupMapping] at h
    injection h with h; subst h
    simp
  | i :: rest, m, h => by
    simp only [groupMapping, bind, Except.bind] at h
    cases hr : groupMapping keyOf rest with
    | error e => simp [hr] at h
    | ok m' =>
      cases hk : keyOf i with
      | error e => simp [hr, hk] at h
      | ok k =>
        simp only [hr, hk, pure, Except.pure] at h
        injection h with h
        obtain ⟨ih1, ih2, ih3, ih4⟩ := group_partition keyOf rest m' hr
        by_cases hany : (m'.any fun p => p.1 == k) = true
        · -- the key exists: `i` is inserted into its group
          simp only [hany, if_true] at h
          subst h
          refine ⟨?_, ?_, ?_, ?_⟩
          · intro k' g' hm j
            simp only [List.mem_map] at hm
            obtain ⟨⟨k'', g''⟩, hm', heq⟩ := hm
            by_cases hkk : (k'' == k) = true
            · simp only [hkk, if_true] at heq
              injection heq with h1 h2; subst h1; subst h2
              have hk'' : k'' = k := by simpa using hkk
              rw [mem_insertSorted, ih1 k'' g'' hm' j]
              constructor
              · rintro (rfl | ⟨h1, h2⟩)
                · exact ⟨List.mem_cons_self .., by rw [hk, hk'']⟩
                · exact ⟨List.mem_cons_of_mem _ h1, h2⟩
              · rintro ⟨h1, h2⟩
                cases h1 with
                | head => exact .inl rfl
                | tail _ h1 => exact .inr ⟨h1, h2⟩
            · simp only [hkk] at heq
              injection heq with h1 h2; subst h1; subst h2
              rw [ih1 k'' g'' hm' j]
              constructor
              · rintro ⟨h1, h2⟩; exact ⟨List.mem_cons_of_mem _ h1, h2⟩
              · rintro ⟨h1, h2⟩
                cases h1 with
                | head =>
                  rw [hk] at h2; injection h2 with h2
                  exact absurd (by simp [h2]) hkk
                | tail _ h1 => exact ⟨h1, h2⟩
          · have : (m'.map fun p => if (p.1 == k) = true then (p.1, insertSorted i p.2) else (p.1, p.2)).map (·.1) = m'.map (·.1) := by
              simp only [List.map_map]
              apply List.map_congr_left
              intro p _
              simp only [Function.comp]
              split <;> rfl
            rw [this]; exact ih2
          · intro k' g' hm
            simp only [List.mem_map] at hm
            obtain ⟨⟨k'', g''⟩, hm', heq⟩ := hm
            by_cases hkk : (k'' == k) = true
            · simp only [hkk, if_true] at heq
              injection heq with _ h2; subst h2
              intro hnil
              have : i ∈ insertSorted i g'' := (mem_insertSorted i i g'').mpr (.inl rfl)
              rw [hnil] at this; cases this
            · simp only [hkk] at heq
              injection heq with h1 h2; subst h1; subst h2
              exact ih3 k'' g'' hm'
          · intro j hj
            have key : ∀ k0 g0, (k0, g0) ∈ m' → ∃ g1, (k0, g1) ∈ m'.map fun p => if (p.1 == k) = true then (p.1, insertSorted i p.2) else (p.1, p.2) := by
              intro k0 g0 hm0
              by_cases hkk : (k0 == k) = true
              · exact ⟨insertSorted i g0, List.mem_map.mpr ⟨(k0, g0), hm0, by simp [hkk]⟩⟩
              · exact ⟨g0, List.mem_map.mpr ⟨(k0, g0), hm0, by simp [hkk]⟩⟩
            cases hj with
            | head =>
              simp only [List.any_eq_true] at hany
              obtain ⟨⟨k0, g0⟩, hm0, hk0⟩ := hany
              have : k0 = k := by simpa using hk0
              subst this
              obtain ⟨g1, hg1⟩ := key k0 g0 hm0
              exact ⟨k0, g1, hk, hg1⟩
            | tail _ hj =>
              obtain ⟨k0, g0, hk0, hm0⟩ := ih4 j hj
              obtain ⟨g1, hg1⟩ := key k0 g0 hm0
              exact ⟨k0, g1, hk0, hg1⟩
        · -- a new key: a new group holding only `i`
          have hany' : (m'.any fun p => p.1 == k) = false := (Bool.not_eq_true _).mp hany
          simp only [hany', Bool.false_eq_true, ↓reduceIte] at h
          subst h
          have hknew : ∀ g, (k, g) ∉ m' := by
            intro g hm
            apply hany
            simp only [List.any_eq_true]
            exact ⟨(k, g), hm, by simp⟩
          refine ⟨?_, ?_, ?_, ?_⟩
          · intro k' g' hm j
            simp only [List.mem_append, List.mem_singleton] at hm
            rcases hm with hm | hm
            · rw [ih1 k' g' hm j]
              constructor
              · rintro ⟨h1, h2⟩; exact ⟨List.mem_cons_of_mem _ h1, h2⟩
              · rintro ⟨h1, h2⟩
                cases h1 with
                | head =>
                  rw [hk] at h2; injection h2 with h2; subst h2
                  exact absurd hm (hknew g')
                | tail _ h1 => exact ⟨h1, h2⟩
            · injection hm with h1 h2; subst h1; subst h2
              simp only [List.mem_singleton]
              constructor
              · rintro rfl; exact ⟨List.mem_cons_self .., hk⟩
              · rintro ⟨h1, h2⟩
                cases h1 with
                | head => rfl
                | tail _ h1 =>
                  obtain ⟨k0, g0, hk0, hm0⟩ := ih4 j h1
                  rw [h2] at hk0; injection hk0 with hk0; subst hk0
                  exact absurd hm0 (hknew g0)
          · simp only [List.map_append, List.map_cons, List.map_nil]
            rw [List.nodup_append]
            refine ⟨ih2, by simp, ?_⟩
            intro a ha b hb
            simp only [List.mem_singleton] at hb; subst hb
            intro hab; subst hab
            simp only [List.mem_map] at ha
            obtain ⟨⟨k0, g0⟩, hm0, rfl⟩ := ha
            exact hknew g0 hm0
          · intro k' g' hm
            simp only [List.mem_append, List.mem_singleton] at hm
            rcases hm with hm | hm
            · exact ih3 k' g' hm
            · injection hm with _ h2; subst h2; simp
          · intro j hj
            cases hj with
            | head => exact ⟨k, [i], hk, by simp⟩
            | tail _ hj =>
              obtain ⟨k0, g0, hk0, hm0⟩ := ih4 j hj
              exact ⟨k0, g0, hk0, by simp [hm0]⟩

/-- the new ids are the sorted group keys; a key that is not a group is rejected by every data field -/
theorem group_unknown_rejected (keyOf : String → Except Err String) (d : DS) (g : DS) (h : groupByDS keyOf d = .ok g)
    (ids : List String) (hids : d.ids = .ok ids) (m : List (String × List String))
    (hm : groupMapping keyOf ids = .ok m) (new f : String) (hf : (f == "id") = false)
    (hnew : ∀ grp, (new, grp) ∉ m) : g.value f new = .error .keyError := by
  simp only [groupByDS] at h
  split at h
  · simp at h
  · injection h with h
    subst h
    simp only [hf, hids, Except.bind, hm]
    have : m.find? (fun p => p.1 == new) = none := by
      rw [List.find?_eq_none]
      intro p hp hk
      have : p.1 = new := by simpa using hk
      exact hnew p.2 (by rw [← this]; exact hp)
    simp [this]

/-! ### Split -/

theorem addPairs_spec (old : String) : ∀ (ps : List (String × Val)) (m m' : List (String × String × Val)),
    addPairs old ps m = .ok m' → (m.map (·.1)).Nodup →
      m' = m ++ ps.map (fun p => (p.1, old, p.2)) ∧ (m'.map (·.1)).Nodup
  | [], m, m', h, hn => by
    simp only [addPairs] at h; injection h with h; subst h; simp [hn]
  | (new, part) :: rest, m, m', h, hn => by
    simp only [addPairs] at h
    split at h
    · simp at h
    · next hany =>
      have hnew : new ∉ m.map (·.1) := by
        intro hm
        apply hany
        simp only [List.mem_map] at hm
        obtain ⟨q, hq, rfl⟩ := hm
        simp only [List.any_eq_true]
        exact ⟨q, hq, by simp⟩
      have hn' : ((m ++ [(new, old, part)]).map (·.1)).Nodup := by
        simp only [List.map_append, List.map_cons, List.map_nil]
        rw [List.nodup_append]
        refine ⟨hn, by simp, ?_⟩
        intro a ha b hb
        simp only [List.mem_singleton] at hb; subst hb
        intro hab; subst hab; exact hnew ha
      obtain ⟨h1, h2⟩ := addPairs_spec old rest _ m' h hn'
      exact ⟨by simp [h1, List.append_assoc], h2⟩

/-- **Exact expansion.**  When Split's mapping is built without error: new ids are pairwise different; every entry
`new ↦ (old, part)` was produced by `__split__` on the old entry `old`; and every `(new, part)` that `__split__` produces
for an old id is in the mapping - each exactly once. -/
theorem split_expansion (splitOf : String → Except Err (List (String × Val))) :
    ∀ (ids : List String) (m0 m : List (String × String × Val)), splitMapping splitOf ids m0 = .ok m → (m0.map (·.1)).Nodup →
      (m.map (·.1)).Nodup ∧
      (∀ e ∈ m, e ∈ m0 ∨ (e.2.1 ∈ ids ∧ ∃ ps, splitOf e.2.1 = .ok ps ∧ (e.1, e.2.2) ∈ ps)) ∧
      (∀ e ∈ m0, e ∈ m) ∧
      (∀ old ∈ ids, ∀ ps, splitOf old = .ok ps → ∀ p ∈ ps, (p.1, old, p.2) ∈ m)
  | [], m0, m, h, hn => by
    simp only [splitMapping] at h; injection h with h; subst h
    exact ⟨hn, fun e he => .inl he, fun e he => he, fun old ho => by cases ho⟩
  | old :: rest, m0, m, h, hn => by
    simp only [splitMapping, bind, Except.bind] at h
    cases hs : splitOf old with
    | error e => simp [hs] at h
    | ok pairs =>
      cases ha : addPairs old pairs m0 with
      | error e => simp [hs, ha] at h
      | ok m1 =>
        simp only [hs, ha] at h
        obtain ⟨hm1, hn1⟩ := addPairs_spec old pairs m0 m1 ha hn
        obtain ⟨i1, i2, i3, i4⟩ := split_expansion splitOf rest m1 m h hn1
        refine ⟨i1, ?_, ?_, ?_⟩
        · intro e he
          rcases i2 e he with h1 | ⟨h1, h2⟩
          · rw [hm1, List.mem_append] at h1
            rcases h1 with h1 | h1
            · exact .inl h1
            · simp only [List.mem_map] at h1
              obtain ⟨p, hp, rfl⟩ := h1
              exact .inr ⟨List.mem_cons_self .., pairs, hs, hp⟩
          · exact .inr ⟨List.mem_cons_of_mem _ h1, h2⟩
        · intro e he
          exact i3 e (by rw [hm1]; exact List.mem_append_left _ he)
        · intro o ho ps hps p hp
          cases ho with
          | head =>
            rw [hs] at hps; injection hps with hps; subst hps
            apply i3
            rw [hm1]
            exact List.mem_append_right _ (List.mem_map.mpr ⟨p, hp, rfl⟩)
          | tail _ ho => exact i4 o ho ps hps p hp

/-- colliding new ids (between entries or within one entry) are an error -/
theorem split_collision_rejected (old new : String) (part : Val) (rest : List (String × Val)) (m : List (String × String × Val))
    (h : m.any (·.1 == new) = true) : addPairs old ((new, part) :: rest) m = .error .assertionError := by
  simp [addPairs, h]

/-- single-string keys are themselves; a non-string key is a `TypeError` -/
theorem to_key_spec (s : String) (i : Int) :
    toKey [.str s] = .ok s ∧ toKey [.int i] = .error .typeError ∧ toKey [.app "f" [] [] []] = .error .typeError := by
  simp [toKey]

/-- non-vacuity: four ids, two groups -/
example :
    (match groupMapping (fun i => .ok (if i == "a" || i == "c" then "u" else "v")) ["a", "b", "c", "d"] with
      | .ok m => m.length == 2 && (m.find? (·.1 == "u")).map (·.2) == some ["a", "c"]
      | .error _ => false) = true := by decide +kernel

end CM.C17
