/-
  C12 — A crash during a disk-cache write never corrupts what later runs read.
  Theorems about CM.Model.Disk for *every* prefix of the mutation list of a write and *every* later loss of files;
  the protocol itself (tarn) is modelled, not verified, and is tied to the code by S-CRASH (exhaustive crash points).
-/
import CM.Model.Disk
namespace CM.C12
open CM

/-! ### file-system lemmas -/

theorem read_put_same (fs : Fs) (p : Path) (c : Content) : (fs.put p c).read p = some c := by
  simp [Fs.read, Fs.put]

theorem find?_congr' {α : Type} (p q : α → Bool) : ∀ (l : List α), (∀ a ∈ l, p a = q a) → l.find? p = l.find? q
  | [], _ => rfl
  | a :: as, h => by
    simp only [List.find?_cons, h a (List.mem_cons_self ..)]
    cases q a
    · exact find?_congr' p q as (fun x hx => h x (List.mem_cons_of_mem _ hx))
    · rfl

theorem read_erase_ne (fs : Fs) (p q : Path) (h : q ≠ p) : (fs.erase p).read q = fs.read q := by
  simp only [Fs.read, Fs.erase, List.find?_filter]
  congr 1
  apply find?_congr'
  intro x _
  by_cases hx : x.1 = q
  · simp [hx, h]
  · simp [hx]

theorem read_erase_same (fs : Fs) (p : Path) : (fs.erase p).read p = none := by
  simp only [Fs.read, Fs.erase, Option.map_eq_none_iff, List.find?_eq_none, List.mem_filter]
  rintro x ⟨_, hx⟩ hp
  simp only [bne_iff_ne, ne_eq] at hx
  exact hx (by simpa using hp)

theorem read_put_ne (fs : Fs) (p q : Path) (c : Content) (h : q ≠ p) : (fs.put p c).read q = fs.read q := by
  have : ((fs.put p c).read q) = (fs.erase p).read q := by
    simp only [Fs.read, Fs.put, List.find?_cons]
    have : ((p == q) = false) := by simpa using (Ne.symm h)
    simp [this]
  rw [this, read_erase_ne fs p q h]

/-- an operation that does not name `q` as the target of a rename / create / write / remove leaves `q` alone -/
def Touches (q : Path) : FsOp → Bool
  | .create p | .remove p => p == q
  | .write p _ => p == q
  | .rename s d => s == q || d == q
  | _ => false

theorem apply_untouched (fs : Fs) (op : FsOp) (q : Path) (h : Touches q op = false) : (fs.apply op).read q = fs.read q := by
  cases op with
  | mkdir _ | chmod _ | chown _ => rfl
  | create p =>
    simp only [Touches, beq_eq_false_iff_ne, ne_eq] at h
    exact read_put_ne fs p q [] (Ne.symm h)
  | write p ch =>
    simp only [Touches, beq_eq_false_iff_ne, ne_eq] at h
    simp only [Fs.apply]
    cases fs.read p with
    | none => rfl
    | some c => exact read_put_ne fs p q _ (Ne.symm h)
  | rename s d =>
    simp only [Touches, Bool.or_eq_false_iff, beq_eq_false_iff_ne, ne_eq] at h
    simp only [Fs.apply]
    cases fs.read s with
    | none => rfl
    | some c => rw [read_put_ne _ d q c (Ne.symm h.2), read_erase_ne fs s q (Ne.symm h.1)]
  | remove p =>
    simp only [Touches, beq_eq_false_iff_ne, ne_eq] at h
    exact read_erase_ne fs p q (Ne.symm h)

theorem run_untouched (ops : List FsOp) (q : Path) (h : ∀ op ∈ ops, Touches q op = false) :
    ∀ fs : Fs, (fs.run ops).read q = fs.read q := by
  induction ops with
  | nil => intro fs; rfl
  | cons op ops ih =>
    intro fs
    simp only [Fs.run, List.foldl_cons]
    have := ih (fun o ho => h o (List.mem_cons_of_mem _ ho)) (fs.apply op)
    simp only [Fs.run] at this
    rw [this, apply_untouched fs op q (h op (List.mem_cons_self ..))]

/-- writing the chunks `c` to a file holding `pre` makes it hold `pre ++ c` -/
theorem run_writes (tmp : Path) : ∀ (c pre : Content) (fs : Fs), fs.read tmp = some pre →
    (fs.run (c.map (.write tmp))).read tmp = some (pre ++ c)
  | [], pre, fs, h => by simpa [Fs.run] using h
  | ch :: c, pre, fs, h => by
    simp only [List.map_cons, Fs.run, List.foldl_cons]
    have h1 : (fs.apply (.write tmp ch)).read tmp = some (pre ++ [ch]) := by
      simp only [Fs.apply, h]; exact read_put_same ..
    have := run_writes tmp c (pre ++ [ch]) _ h1
    simpa [Fs.run, List.append_assoc] using this

/-! ### one file -/

/-- the complete list of mutations leaves the complete content at the final path -/
theorem store_full (dir tmp final : Path) (c : Content) (fs : Fs) :
    (fs.run (storeFile dir tmp final c)).read final = some c := by
  have hsplit : storeFile dir tmp final c =
      ([.mkdir dir, .chmod dir, .chown dir, .create tmp] ++ c.map (FsOp.write tmp) ++ [.chmod tmp, .chown tmp]) ++ [.rename tmp final] := by
    simp [storeFile, List.append_assoc]
  rw [hsplit]
  have htmp : (fs.run ([.mkdir dir, .chmod dir, .chown dir, .create tmp] ++ c.map (FsOp.write tmp) ++ [.chmod tmp, .chown tmp])).read tmp = some c := by
    have h1 : (fs.run [.mkdir dir, .chmod dir, .chown dir, .create tmp]).read tmp = some [] := by
      simp [Fs.run, Fs.apply, read_put_same]
    have h2 := run_writes tmp c [] _ h1
    have h3 : ∀ op ∈ ([.chmod tmp, .chown tmp] : List FsOp), Touches tmp op = false := by
      intro op hop; simp at hop; rcases hop with rfl | rfl <;> rfl
    have := run_untouched [.chmod tmp, .chown tmp] tmp h3 ((fs.run [.mkdir dir, .chmod dir, .chown dir, .create tmp]).run (c.map (.write tmp)))
    simp only [Fs.run, List.foldl_append] at this h2 ⊢
    rw [this]; simpa using h2
  generalize ([.mkdir dir, .chmod dir, .chown dir, .create tmp] ++ c.map (FsOp.write tmp) ++ [.chmod tmp, .chown tmp] : List FsOp) = P at htmp ⊢
  simp only [Fs.run, List.foldl_append, List.foldl_cons, List.foldl_nil] at htmp ⊢
  show ((List.foldl Fs.apply fs P).apply (.rename tmp final)).read final = some c
  simp only [Fs.apply, htmp]
  exact read_put_same ..

/-- **Never partial.**  After any prefix of the mutations that store one file, its final path holds what it held before
or the complete content - nothing in between: final paths appear only by renaming a completely written temp file. -/
theorem store_prefix (dir tmp final : Path) (c : Content) (hne : tmp ≠ final) (fs : Fs) (k : Nat) :
    (fs.run ((storeFile dir tmp final c).take k)).read final = fs.read final ∨
    (fs.run ((storeFile dir tmp final c).take k)).read final = some c := by
  -- the operations before the final rename do not touch the final path
  have hpre : ∀ op ∈ ([.mkdir dir, .chmod dir, .chown dir, .create tmp] ++ c.map (FsOp.write tmp) ++ [.chmod tmp, .chown tmp] : List FsOp),
      Touches final op = false := by
    intro op hop
    simp only [List.mem_append, List.mem_cons, List.mem_map, List.not_mem_nil, or_false] at hop
    rcases hop with (((rfl | rfl | rfl | rfl) | ⟨ch, _, rfl⟩) | (rfl | rfl)) <;> simp [Touches, hne]
  have hsplit : storeFile dir tmp final c =
      ([.mkdir dir, .chmod dir, .chown dir, .create tmp] ++ c.map (FsOp.write tmp) ++ [.chmod tmp, .chown tmp]) ++ [.rename tmp final] := by
    simp [storeFile, List.append_assoc]
  rw [hsplit]
  generalize hP : ([.mkdir dir, .chmod dir, .chown dir, .create tmp] ++ c.map (FsOp.write tmp) ++ [.chmod tmp, .chown tmp] : List FsOp) = P at hpre
  by_cases hk : k ≤ P.length
  · left
    rw [List.take_append_of_le_length hk]
    exact run_untouched _ final (fun op hop => hpre op (List.mem_of_mem_take hop)) fs
  · right
    have : (P ++ [FsOp.rename tmp final]).take k = P ++ [.rename tmp final] := by
      apply List.take_of_length_le
      simp only [List.length_append, List.length_singleton]; omega
    rw [this]
    rw [← hP, ← hsplit]
    exact store_full dir tmp final c fs

/-! ### one cache entry -/

/-- the blob path holds the complete blob or nothing -/
def Good (e : DiskEntry) (fs : Fs) : Prop := ∀ c, fs.read e.blobPath = some c → c = e.blob

/-- what can be lost later: any file may disappear, index and temporary files may be truncated or garbled;
a blob that is still there is still complete -/
def Loss (e : DiskEntry) (fs fs' : Fs) : Prop := ∀ c, fs'.read e.blobPath = some c → fs.read e.blobPath = some c

/-- the temporary names are fresh and differ from the final paths (tarn draws 8 random letters) -/
structure Fresh (e : DiskEntry) : Prop where
  b1 : e.blobTmp ≠ e.blobPath
  b2 : e.idxTmp ≠ e.blobPath
  b3 : e.idxPath ≠ e.blobPath
  i1 : e.idxTmp ≠ e.idxPath

theorem take_append_cases {α : Type} (xs ys : List α) (k : Nat) :
    (xs ++ ys).take k = xs.take k ∨ ∃ j, (xs ++ ys).take k = xs ++ ys.take j := by
  by_cases h : k ≤ xs.length
  · left; exact List.take_append_of_le_length h
  · right; exact ⟨k - xs.length, by rw [List.take_append]; simp [List.take_of_length_le (Nat.le_of_lt (Nat.lt_of_not_le h))]⟩

/-- **Crash-prefix safety.**  Start from a storage whose blob path holds the complete blob or nothing (e.g. an earlier,
interrupted or complete, write of the same entry); stop the write after *any* number `k` of its file-system mutations;
then lose *any* files and truncate any index / temporary files (`Loss`).  A later reader gets a miss or exactly the
complete value: never a partial one. -/
theorem crash_prefix_safe (e : DiskEntry) (hf : Fresh e) (fs0 : Fs) (h0 : Good e fs0) (k : Nat) (fs' : Fs)
    (hl : Loss e (fs0.run ((writeEntry e).take k)) fs') :
    readEntry fs' e = none ∨ readEntry fs' e = some e.blob := by
  -- the blob path is good after every prefix
  have hgood : Good e (fs0.run ((writeEntry e).take k)) := by
    intro c hc
    unfold writeEntry at hc
    rcases take_append_cases (storeFile e.blobDir e.blobTmp e.blobPath e.blob) (storeFile e.idxDir e.idxTmp e.idxPath e.idx) k with h | ⟨j, h⟩
    · rw [h] at hc
      rcases store_prefix e.blobDir e.blobTmp e.blobPath e.blob hf.b1 fs0 k with h1 | h1
      · rw [h1] at hc; exact h0 c hc
      · rw [h1] at hc; injection hc with hc; exact hc.symm
    · rw [h] at hc
      simp only [Fs.run, List.foldl_append] at hc
      -- the index part does not touch the blob path
      have hidx : ∀ op ∈ (storeFile e.idxDir e.idxTmp e.idxPath e.idx).take j, Touches e.blobPath op = false := by
        intro op hop
        have hop := List.mem_of_mem_take hop
        simp only [storeFile, List.mem_append, List.mem_cons, List.mem_map, List.not_mem_nil, or_false] at hop
        rcases hop with (((rfl | rfl | rfl | rfl) | ⟨ch, _, rfl⟩) | (rfl | rfl | rfl)) <;> simp [Touches, hf.b2, hf.b3]
      have := run_untouched _ e.blobPath hidx (fs0.run (storeFile e.blobDir e.blobTmp e.blobPath e.blob))
      simp only [Fs.run] at this
      rw [this] at hc
      have full := store_prefix e.blobDir e.blobTmp e.blobPath e.blob hf.b1 fs0 (storeFile e.blobDir e.blobTmp e.blobPath e.blob).length
      simp only [List.take_length, Fs.run] at full
      rcases full with h1 | h1
      · rw [h1] at hc; exact h0 c hc
      · rw [h1] at hc; injection hc with hc; exact hc.symm
  -- whatever is lost afterwards, a blob that is still there is complete
  unfold readEntry
  cases hi : fs'.read e.idxPath with
  | none => left; rfl
  | some c =>
    simp only
    split
    · cases hb : fs'.read e.blobPath with
      | none => left; rfl
      | some b => right; rw [hgood b (hl b hb)]
    · left; rfl

/-- **Recovery.**  From any such storage, computing the value again and writing it (with fresh temporary names) makes
the entry completely visible: the storage never becomes permanently unusable for the key. -/
theorem recovery (e : DiskEntry) (hf : Fresh e) (fs : Fs) : readEntry (fs.run (writeEntry e)) e = some e.blob := by
  unfold writeEntry
  have hidx := store_full e.idxDir e.idxTmp e.idxPath e.idx (fs.run (storeFile e.blobDir e.blobTmp e.blobPath e.blob))
  have hblob0 := store_full e.blobDir e.blobTmp e.blobPath e.blob fs
  have hkeep : ∀ op ∈ storeFile e.idxDir e.idxTmp e.idxPath e.idx, Touches e.blobPath op = false := by
    intro op hop
    simp only [storeFile, List.mem_append, List.mem_cons, List.mem_map, List.not_mem_nil, or_false] at hop
    rcases hop with (((rfl | rfl | rfl | rfl) | ⟨ch, _, rfl⟩) | (rfl | rfl | rfl)) <;> simp [Touches, hf.b2, hf.b3]
  have hblob := run_untouched _ e.blobPath hkeep (fs.run (storeFile e.blobDir e.blobTmp e.blobPath e.blob))
  simp only [Fs.run, List.foldl_append] at hidx hblob hblob0 ⊢
  simp [readEntry, hidx, hblob, hblob0]

/-- non-vacuity: crash after the blob was renamed but before the index entry was: a miss; after everything: a hit -/
example :
    let e : DiskEntry := { blobDir := "s/ff", blobTmp := "s/.tmp/x1", blobPath := "s/ff/b", blob := [1, 2, 3],
                           idxDir := "i/01", idxTmp := "i/.tmp/x2", idxPath := "i/01/k", idx := [9] }
    readEntry (({} : Fs).run ((writeEntry e).take 12)) e = none ∧ readEntry (({} : Fs).run (writeEntry e)) e = some [1, 2, 3] := by
  decide

end CM.C12
