/-
  C20 — Building, compiling and calling a pipeline cost time polynomial in its size.
  Step-count theorems about CM.Model.Cost; the counters of the real functions are compared with them by S-COST.
-/
import CM.Model.Cost
namespace CM.C20
open CM

/-! ### the repaired traversals are linear -/

theorem fold_bound (g : Graph) (fuel : Nat)
    (P : ∀ n vis, (visitOnce g fuel n vis).1 + parentWeight g vis ≤ 1 + parentWeight g (visitOnce g fuel n vis).2) :
    ∀ (ps : List Nat) (c : Nat) (v : List Nat),
      (ps.foldl (fun (acc : Nat × List Nat) p => ((acc.1 + (visitOnce g fuel p acc.2).1), (visitOnce g fuel p acc.2).2)) (c, v)).1
        + parentWeight g v ≤
      c + ps.length + parentWeight g (ps.foldl (fun (acc : Nat × List Nat) p => ((acc.1 + (visitOnce g fuel p acc.2).1), (visitOnce g fuel p acc.2).2)) (c, v)).2
  | [], c, v => by simp
  | p :: ps, c, v => by
    simp only [List.foldl_cons, List.length_cons]
    have h1 := P p v
    have h2 := fold_bound g fuel P ps (c + (visitOnce g fuel p v).1) (visitOnce g fuel p v).2
    omega

/-- **Linear.**  The traversal with a visited set makes at most one call per start plus one per parent occurrence of
the nodes it newly visits: `calls + weight(visited before) ≤ 1 + weight(visited after)`. -/
theorem visit_once_linear (g : Graph) : ∀ fuel n vis,
    (visitOnce g fuel n vis).1 + parentWeight g vis ≤ 1 + parentWeight g (visitOnce g fuel n vis).2 := by
  intro fuel
  induction fuel with
  | zero => intro n vis; simp [visitOnce]
  | succ fuel ih =>
    intro n vis
    simp only [visitOnce]
    split
    · simp
    · split
      · simp only [parentWeight, List.map_cons, List.sum_cons]; omega
      · have := fold_bound g fuel ih (g.parents n) 1 (n :: vis)
        simp only [parentWeight, List.map_cons, List.sum_cons] at this ⊢
        omega

/-- started with nothing visited: at most `1 + Σ_{visited m} |parents m|` calls, every visited node counted once -/
theorem visit_once_bound (g : Graph) (fuel n : Nat) :
    (visitOnce g fuel n []).1 ≤ 1 + parentWeight g (visitOnce g fuel n []).2 := by
  have := visit_once_linear g fuel n []
  simpa [parentWeight] using this

theorem fold_nodup (g : Graph) (fuel : Nat) (P : ∀ n vis, vis.Nodup → (visitOnce g fuel n vis).2.Nodup) :
    ∀ (ps : List Nat) (c : Nat) (v : List Nat), v.Nodup →
      (ps.foldl (fun (acc : Nat × List Nat) p => ((acc.1 + (visitOnce g fuel p acc.2).1), (visitOnce g fuel p acc.2).2)) (c, v)).2.Nodup
  | [], _, _, h => h
  | p :: ps, c, v, h => by
    simp only [List.foldl_cons]
    exact fold_nodup g fuel P ps _ _ (P p v h)

/-- no node is visited (and charged) twice -/
theorem visit_once_nodup (g : Graph) : ∀ fuel n vis, vis.Nodup → (visitOnce g fuel n vis).2.Nodup := by
  intro fuel
  induction fuel with
  | zero => intro n vis h; simpa [visitOnce] using h
  | succ fuel ih =>
    intro n vis h
    simp only [visitOnce]
    split
    · exact h
    · next hc =>
      have hn : n ∉ vis := by simpa using hc
      split
      · exact List.nodup_cons.mpr ⟨hn, h⟩
      · exact fold_nodup g fuel ih _ _ _ (List.nodup_cons.mpr ⟨hn, h⟩)

/-! ### the pinned traversals were exponential -/

/-- the Crop pattern: `n = image(a, b)` with `b = _box(a)` -/
structure Diamond (g : Graph) (a n : Nat) : Prop where
  box : ∃ b, g.parents n = [a, b] ∧ g.parents b = [a] ∧ g.stops b = false
  top : g.stops n = false

/-- one diamond layer doubles the number of calls of the path-enumerating traversal -/
theorem diamond_doubles (g : Graph) (a n : Nat) (d : Diamond g a n) (fuel : Nat) :
    visitPaths g (fuel + 2) n = 2 * visitPaths g fuel a + 2 + (visitPaths g (fuel + 1) a - visitPaths g fuel a) := by
  obtain ⟨⟨b, hpn, hpb, hsb⟩, hsn⟩ := d
  simp only [visitPaths, hsn, hpn, List.map_cons, List.map_nil, List.sum_cons, List.sum_nil, hsb, hpb, Bool.false_eq_true,
    ↓reduceIte]
  have mono : visitPaths g fuel a ≤ visitPaths g (fuel + 1) a := by
    clear hpn hpb hsb hsn
    induction fuel generalizing a with
    | zero => simp [visitPaths]
    | succ f ih =>
      simp only [visitPaths]
      split
      · exact Nat.le_refl _
      · apply Nat.add_le_add_left
        induction g.parents a with
        | nil => simp
        | cons p ps ihp => simp only [List.map_cons, List.sum_cons]; exact Nat.add_le_add (ih p) ihp
  simp only [visitPaths] at mono ⊢
  omega

/-- a chain `a, c₁, …, c_k` of stacked diamond layers -/
def DiamondChain (g : Graph) : Nat → List Nat → Prop
  | _, [] => True
  | a, n :: rest => Diamond g a n ∧ DiamondChain g n rest

def lastOf (a : Nat) : List Nat → Nat
  | [] => a
  | n :: rest => lastOf n rest

/-- hence `k` stacked diamonds multiply the cost of the path-enumerating traversal by at least `2^k` (finding F4a on
the pinned tree; the `fix:` commit replaced it by the visited-set traversal bounded above) -/
theorem pinned_exponential (g : Graph) : ∀ (chain : List Nat) (a : Nat) (fuel : Nat),
    DiamondChain g a chain →
    2 ^ chain.length * visitPaths g fuel a ≤ visitPaths g (fuel + 2 * chain.length) (lastOf a chain)
  | [], a, fuel, _ => by simp [lastOf]
  | n :: rest, a, fuel, hc => by
    obtain ⟨hd, hrest⟩ := hc
    have step := diamond_doubles g a n hd fuel
    have ih := pinned_exponential g rest n (fuel + 2) hrest
    have hfuel : fuel + 2 * (rest.length + 1) = fuel + 2 + 2 * rest.length := by omega
    simp only [lastOf, List.length_cons, Nat.pow_succ, hfuel]
    calc 2 ^ rest.length * 2 * visitPaths g fuel a
        = 2 ^ rest.length * (2 * visitPaths g fuel a) := by rw [Nat.mul_assoc]
      _ ≤ 2 ^ rest.length * visitPaths g (fuel + 2) n := Nat.mul_le_mul_left _ (by omega)
      _ ≤ _ := ih

/-- non-vacuity: three stacked Crop layers over one input: 1, 4, 10, 22 calls of the pinned traversal, 1 + E = 10 calls of the repaired one -/
def crop3 : Graph :=
  { nodes := [⟨"image", none, []⟩,
              ⟨"_box", some (.function "box" [] []), [0]⟩, ⟨"image", some (.function "crop" [] []), [0, 1]⟩,
              ⟨"_box", some (.function "box" [] []), [2]⟩, ⟨"image", some (.function "crop" [] []), [2, 3]⟩,
              ⟨"_box", some (.function "box" [] []), [4]⟩, ⟨"image", some (.function "crop" [] []), [4, 5]⟩],
    inputs := [0], output := 6 }

example : visitPaths crop3 10 6 = 22 ∧ (visitOnce crop3 10 6 []).1 = 10 ∧ DiamondChain crop3 0 [2, 4, 6] := by
  refine ⟨by decide, by decide, ?_⟩
  refine ⟨⟨⟨1, rfl, rfl, by decide⟩, by decide⟩, ⟨⟨3, rfl, rfl, by decide⟩, by decide⟩, ⟨⟨5, rfl, rfl, by decide⟩, by decide⟩, trivial⟩

end CM.C20
