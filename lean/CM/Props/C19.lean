/-
  C19 — Pickling a compiled function preserves its behaviour and its hashes.
  What a Lean model can carry: values, hashes and signatures are functions of the graph's structural content
  and of the stores' contents only; `MemoryCache.__reduce__` yields an empty table of the same size; by C04 the
  contents of a sound table do not influence values.  Whether Python's `pickle` succeeds on, and structurally
  preserves, each concrete object graph is a fact about the runtime: decided by the S-PICKLE correspondence only
  (this property is claimed as *partial* for that reason, DESIGN.md section 5/C19).
-/
import CM.Model.Denote
namespace CM.C19
open CM

/-- `MemoryCache.__reduce__`: `(self.__class__, (self.size,))` -/
def reduce (s : MemStore) : MemStore := { size := s.size, table := [], exact := s.exact }

/-- the RAM cache of an unpickled function starts empty and keeps its size bound -/
theorem reduce_resets_ram (s : MemStore) : (reduce s).table = [] ∧ (reduce s).size = s.size := ⟨rfl, rfl⟩

/-- an empty table answers every lookup with a miss: the copy recomputes -/
theorem reduced_misses (s : MemStore) (k : NHash) : ((reduce s).get k).1 = none := by
  simp [reduce, MemStore.get, MemStore.find?]

/-- **roundtrip_partial.**  If the copy produced by pickling is structurally equal to the original (same nodes, edges,
inputs and output), it has the same signature, the same denotation (values) and the same hashes for every input: these
are functions of the graph alone - no node identity, memo table or lock enters them. -/
theorem roundtrip_partial (g g' : Graph) (h : g' = g) (d : DenCfg) :
    g'.signature = g.signature ∧ vden g' d = vden g d ∧ hden g' d = hden g d ∧ g'.hashGraph = g.hashGraph := by
  subst h
  exact ⟨rfl, rfl, rfl, rfl⟩

end CM.C19
