/-
  C01 — A compiled field returns exactly what composing the user functions returns.

  `vm_correct`: for every topologically ordered graph of cache-free edges (functions with positional and keyword
  bindings, constants, identities, products, hash barriers, hash-by-value and impure wrappers around simple edges,
  the three switch edges, CheckIds) and every complete assignment of its used inputs, the stack machine of
  `vm.execute` stops, and

    * what it returns is the value of the cache-free denotation `vden` (the user functions evaluated recursively in
      dependency order, arguments in declared order, tuples in request order);
    * what it raises is an exception of a user function (only when the world schedules one) or exactly the error of
      the denotation; in particular no failed internal assertion, eviction `KeyError` or stack-discipline error ever
      surfaces unless the denotation itself is ill-typed (`Err.internal`, e.g. a `JoinMapping` value that is not a
      triple).

  The proof composes four inductions: `sim` (machine ⊑ big-step), `big_sound` (results), `big_count` (the eviction
  counters `2 × paths` never run out, with ghost completion flags), `node_halts` (termination) and `big_raised`
  (exceptions).  Graphs *with* cache edges: `compiled_value_cached` (the same five inductions generalised:
  `big_sound_c`, `big_inv_c`, `node_halts_c`, `big_raised_c`), relative to sound stores.
-/
import CM.Proofs.Check
import CM.Proofs.CorrectC
namespace CM.C01
open CM

/-- **C01 (values).**  `Graph.__call__` stops and its outcome is the one the denotation prescribes. -/
theorem compiled_value (g : Graph) (ok : GraphOK g) (env : String → Option Val) (w : World) (hc : CallOK g env) :
    ∃ N o steps, (∀ fuel, N ≤ fuel → g.call env w fuel = some (o, steps)) ∧
      ValueSpec g (denCfgOf env w) (!w.failAt.isEmpty) o :=
  call_correct g ok env w hc

/-- **C01 (node hashes).**  The same for `Graph.get_hash`. -/
theorem compiled_hash (g : Graph) (ok : GraphOK g) (env : String → Option Val) (w : World) (hc : CallOK g env) :
    ∃ N o steps, (∀ fuel, N ≤ fuel → g.getHash env w fuel = some (o, steps)) ∧
      HashSpec g (denCfgOf env w) (!w.failAt.isEmpty) o :=
  getHash_correct g ok env w hc

/-- **No user function raises ⇒ the outcome *is* the denotation**: a value for a value, the same exception class
for an exception. -/
theorem compiled_value_no_faults (g : Graph) (ok : GraphOK g) (env : String → Option Val) (w : World) (hc : CallOK g env)
    (hf : w.failAt = []) :
    ∃ N o steps, (∀ fuel, N ≤ fuel → g.call env w fuel = some (o, steps)) ∧
      match vden g (denCfgOf env w) with
      | .ok v => ∃ s, o = .done (.val v) s
      | .error e => ∃ s, o = .raised e s := by
  obtain ⟨N, o, steps, hrun, hspec⟩ := call_correct g ok env w hc
  refine ⟨N, o, steps, hrun, ?_⟩
  cases o with
  | next _ => exact absurd hspec (by simp [ValueSpec])
  | done x s =>
    obtain ⟨v, hx, hv⟩ := hspec
    rw [hv]; exact ⟨s, by rw [hx]⟩
  | raised e s =>
    cases hspec with
    | inl h => obtain ⟨_, _, h2⟩ := h; simp [hf] at h2
    | inr h => rw [h]; exact ⟨s, rfl⟩

/-- **No internal error surfaces** unless the denotation itself is ill-typed. -/
theorem no_internal_error (g : Graph) (ok : GraphOK g) (env : String → Option Val) (w : World) (hc : CallOK g env)
    (hd : vden g (denCfgOf env w) ≠ .error .internal) (fuel : Nat) (s : St) (steps : Nat) :
    g.call env w fuel ≠ some (.raised .internal s, steps) := by
  obtain ⟨N, o, steps', hrun, hspec⟩ := call_correct g ok env w hc
  intro h
  -- more fuel gives the same outcome
  have hmono : ∀ (k : Nat) (st : St) (c : Nat) (r : Outcome × Nat), run g k st c = some r → ∀ k', k ≤ k' → run g k' st c = some r := by
    intro k
    induction k with
    | zero => intro st c r h; simp [run] at h
    | succ k ih =>
      intro st c r h k' hk
      obtain ⟨k'', rfl⟩ : ∃ j, k' = j + 1 := ⟨k' - 1, by omega⟩
      simp only [run] at h ⊢
      cases hs : step g st with
      | next st' => simp only [hs] at h ⊢; exact ih st' _ r h k'' (by omega)
      | done _ _ => simp only [hs] at h ⊢; exact h
      | raised _ _ => simp only [hs] at h ⊢; exact h
  have h1 := hmono fuel _ 0 _ h (max fuel N) (Nat.le_max_left ..)
  have h2 := hrun (max fuel N) (Nat.le_max_right ..)
  simp only [Graph.call] at h2
  rw [h1] at h2
  injection h2 with h2
  injection h2 with h2 _
  subst h2
  cases hspec with
  | inl h => obtain ⟨_, h1, _⟩ := h; cases h1
  | inr h => exact hd h

/-- **C01 with cache edges.**  For graphs that may contain `CacheEdge`s, relative to stores that are sound for a family
with faithful hashes (see `CM.Props.C04`, `CM.Props.C05`): the call stops, returns the cache-free value, raises only a
scheduled user exception or the denotation's own error — never an internal failure of the machine — and keeps the
stores sound. -/
theorem compiled_value_cached (F : Fam) (g : Graph) (ok : GraphOKC g) (env : String → Option Val) (w : World) (hc : CallOK g env)
    (hF : F g (denCfgOf env w)) (hst : StoreSound F w) (hlog : w.log = []) :
    ∃ N o steps, (∀ fuel, N ≤ fuel → g.call env w fuel = some (o, steps)) ∧
      FullSpec F g (denCfgOf env w) (!w.failAt.isEmpty) o :=
  call_correct_c F g ok env w hc hF hst hlog

/-! ### the hypotheses are satisfiable, and the conclusion is not trivial -/

/-- `out = f(g(x), g(x), k=c)` with a shared parent used twice, a keyword binding, a constant,
a hash-by-value wrapper and an impure wrapper on the way -/
def demo : Graph :=
  { nodes := [
      ⟨"x", none, []⟩,                                        -- 0: input
      ⟨"gx", some (.function "g" [] []), [0]⟩,                 -- 1: g(x)
      ⟨"c", some (.constant (.int 7)), []⟩,                    -- 2: constant
      ⟨"hv", some (.byValue (.function "h" [] [])), [1]⟩,      -- 3: @hash_by_value h(g(x))
      ⟨"im", some (.impure (.function "r" [] [])), [3]⟩,       -- 4: @impure r(h(..))
      ⟨"out", some (.function "f" ["k"] []), [1, 1, 2]⟩,       -- 5: f(g(x), g(x), k=7)
      ⟨"pair", some .product, [5, 4]⟩ ],                       -- 6: (out, im)
    inputs := [0], output := 6 }

def demoEnv : String → Option Val := fun s => if s = "x" then some (.int 1) else none

example : GraphOK demo := okB_sound demo (by decide +kernel)
example : CallOK demo demoEnv := callOKB_sound demo demoEnv (by decide +kernel)

/-- on the demo graph the denotation is the expected term, so the theorem pins the machine's result to it -/
example : vden demo (denCfgOf demoEnv { impureFns := ["r"] }) =
    .ok (.tup [.app "f" [.app "g" [.int 1] [] [], .app "g" [.int 1] [] []] ["k"] [.int 7],
               .imp "r" 0 4 [.app "h" [.app "g" [.int 1] [] []] [] []] [] []]) := by
  rfl

end CM.C01
