import CM.Model.Denote
namespace CM.C01
theorem placeholder : True := trivial
end CM.C01
