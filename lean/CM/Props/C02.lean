/-
  C02 — Field resolution across layers: define, inherit, drop; never a stale field.
  Property theorems about CM.Model.Stack (the model is tied to /repo by the S-BAG correspondence).
-/
import CM.Proofs.StackLemmas
namespace CM.C02
open CM

/-- membership is a homomorphism for the operators of `AntiSet` (`&`, `|`, `-`, also mixed with `set`) -/
theorem nameset_laws (a b : NameSet) (x : String) :
    (a.inter b).mem x = (a.mem x && b.mem x) ∧ (a.union b).mem x = (a.mem x || b.mem x) ∧
    (a.diff b).mem x = (a.mem x && !b.mem x) :=
  ⟨NameSet.mem_inter a b x, NameSet.mem_union a b x, NameSet.mem_diff a b x⟩

/-- the names a (non-cache) layer exposes after it is appended, first components of `defined ++ inherited ++ fresh` -/
theorem step_out_names (s s' : Sig) (l : Layer) (hk : l.kind ≠ .cache) (h : s.step l = .ok s') :
    ∃ defined, s.definedEntries l = some defined ∧ defined.map (·.1) = l.defs.map (·.1) ∧
      s'.out = defined ++ s.inheritedEntries l ++ (s.freshNames l).map (fun n => (n, s.lookup l n, false)) ∧
      s'.virt = (s.virt.inter l.inheritSet).diff (.fin (s'.out.map (·.1))) := by
  unfold Sig.step at h
  split at h
  · next hc => exact absurd hc hk
  · split at h
    · simp at h
    · cases hd : s.definedEntries l with
      | none => simp [hd] at h
      | some defined =>
        simp only [hd] at h
        injection h with h
        subst h
        refine ⟨defined, rfl, ?_, rfl, rfl⟩
        apply mapM_keys _ _ _ _ hd
        intro p y hy
        obtain ⟨n, d⟩ := p
        cases d <;> simp at hy
        · obtain ⟨e, _, rfl⟩ := hy; rfl
        · obtain ⟨e, _, rfl⟩ := hy; rfl
        · subst hy; rfl

theorem mem_inheritedEntries_names (s : Sig) (l : Layer) (n : String)
    (h : n ∈ (s.inheritedEntries l).map (·.1)) : l.defines n = false ∧ s.passes l n = true := by
  simp only [Sig.inheritedEntries, List.mem_map, List.mem_filterMap] at h
  obtain ⟨⟨n', e', o'⟩, ⟨⟨m, e, o⟩, _, hm⟩, rfl⟩ := h
  by_cases hc : (!l.defines m && s.passes l m) = true
  · simp only [hc, if_true] at hm
    simp only [Bool.and_eq_true, Bool.not_eq_true'] at hc
    split at hm <;> (injection hm with hm; injection hm with h1 _; subst h1; exact hc)
  · simp [hc] at hm

theorem inheritSet_mem_false (l : Layer) (n : String) (hk : l.kind ≠ .cache) (hd : l.defines n = false)
    (hi : l.inherits n = false) : l.inheritSet.mem n = false := by
  unfold Layer.inherits at hi
  unfold Layer.inheritSet
  cases hkind : l.kind with
  | cache => exact absurd hkind hk
  | source => simp
  | apply => simp [hkind, hd] at hi
  | transform =>
    simp only [hkind] at hi ⊢
    split at hi
    · exact hi
    · simpa [hd] using hi

/-- **No stale field.**  A name that the appended layer does not define, does not inherit and that is not a
persistent field of the prefix is gone: it is not exposed and it is not served as the raw input either, so
asking for it raises `FieldError` instead of being answered by an earlier layer. -/
theorem gone_field (s s' : Sig) (l : Layer) (n : String) (hk : l.kind ≠ .cache) (h : s.step l = .ok s')
    (hd : l.defines n = false) (hi : l.inherits n = false) (hp : s.persistent.contains n = false) :
    s'.field n = .fieldError := by
  obtain ⟨defined, _, hnames, hout, hvirt⟩ := step_out_names s s' l hk h
  have hnot : n ∉ s'.out.map (·.1) := by
    rw [hout]
    simp only [List.map_append, List.mem_append, not_or]
    refine ⟨⟨?_, ?_⟩, ?_⟩
    · rw [hnames]
      intro hm
      simp only [Layer.defines, lookupAssoc, Option.isSome_map, Option.isSome_eq_false_iff,
        Option.isNone_iff_eq_none, List.find?_eq_none] at hd
      simp only [List.mem_map] at hm
      obtain ⟨p, hp1, hp2⟩ := hm
      exact hd p hp1 (by simp [hp2])
    · intro hm
      have := (mem_inheritedEntries_names s l n hm).2
      simp only [Sig.passes, hi, Bool.false_or, Bool.and_eq_true] at this
      rw [hp] at this
      simp at this
    · intro hm
      simp only [List.map_map, List.mem_map, Function.comp] at hm
      obtain ⟨m, hm1, rfl⟩ := hm
      simp only [Sig.freshNames, List.mem_filter, Bool.and_eq_true] at hm1
      simp [hi] at hm1
  have hget : s'.get n = none := lookupAssoc_none_of_not_mem _ _ hnot
  have hv : s'.virt.mem n = false := by
    rw [hvirt, NameSet.mem_diff, NameSet.mem_inter, inheritSet_mem_false l n hk hd hi]
    simp
  simp [Sig.field, hget, hv]

/-- a field's parameters are exactly the raw inputs its term mentions, without repetition (then sorted) -/
theorem signature_minimal (s : Sig) (n : String) (sg : List String) (t : Term) (h : s.field n = .computed sg t) :
    ∀ x, x ∈ sg ↔ x ∈ t.inputs := by
  unfold Sig.field at h
  split at h
  · next t' o hg =>
    injection h with h1 h2
    subst h1; subst h2
    intro x
    simp [List.mem_mergeSort, List.mem_eraseDups]
  · simp at h
  · split at h <;> simp at h

/-- a cache layer exposes exactly the same names, computing exactly the same terms (it only marks them optional) -/
theorem cache_layer_transparent (s s' : Sig) (l : Layer) (hk : l.kind = .cache) (h : s.step l = .ok s') (n : String) :
    s'.field n = s.field n := by
  unfold Sig.step at h
  simp only [hk] at h
  injection h with h
  subst h
  simp only [Sig.field, Sig.get, lookupAssoc, List.find?_map, Function.comp_def]
  cases hf : List.find? (fun p => p.1 == n) s.out with
  | none => simp
  | some p => obtain ⟨m, e, o⟩ := p; cases e <;> simp

/-- non-vacuity: a two-layer stack in which `b` is dropped (hypotheses of `gone_field` hold) and `a` survives -/
example :
    let src : Layer := { index := 0, kind := .transform, defs := [("a", .fn "f" ["x"]), ("b", .fn "g" ["x"])], params := [],
                         opt := [], persistent := [], inherit := .fin [], inheritIsList := true, cacheNames := none }
    let top : Layer := { index := 1, kind := .transform, defs := [("c", .fn "h" ["a"])], params := [],
                         opt := [], persistent := [], inherit := .fin ["a"], inheritIsList := true, cacheNames := none }
    (match sigOf [src, top] with
      | .ok s => (match s.field "b" with | .fieldError => true | _ => false) && (s.get "a").isSome && (s.get "c").isSome
                 && !top.defines "b" && !top.inherits "b"
      | .error _ => false) = true := by decide +kernel

end CM.C02
