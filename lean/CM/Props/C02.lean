/-
  C02 — Field resolution across layers: define, inherit, drop; never a stale field.
  Property theorems about CM.Model.Stack (the model is tied to /repo by the S-BAG correspondence).
-/
import CM.Proofs.FactoryChain
import CM.Proofs.FactoryNames
import CM.Proofs.StackLemmas
import CM.Proofs.BagWfB
import CM.Proofs.BagTerm
namespace CM.C02
open CM

/-- membership is a homomorphism for the operators of `AntiSet` (`&`, `|`, `-`, also mixed with `set`) -/
theorem nameset_laws (a b : NameSet) (x : String) :
    (a.inter b).mem x = (a.mem x && b.mem x) ∧ (a.union b).mem x = (a.mem x || b.mem x) ∧
    (a.diff b).mem x = (a.mem x && !b.mem x) :=
  ⟨NameSet.mem_inter a b x, NameSet.mem_union a b x, NameSet.mem_diff a b x⟩

/-- the names a (non-cache) layer exposes after it is appended, first components of `defined ++ inherited ++ fresh` -/
theorem step_out_names (s s' : Sig) (l : Layer) (hk : l.kind ≠ .cache) (h : s.step l = .ok s') :
    ∃ defined, s.definedEntries l = some defined ∧ defined.map (·.1) = l.defs.map (·.1) ∧
      s'.out = defined ++ s.inheritedEntries l ++ (s.freshNames l).map (fun n => (n, s.lookup l n, false)) ∧
      s'.virt = (s.virt.inter l.inheritSet).diff (.fin (s'.out.map (·.1))) := by
  unfold Sig.step at h
  split at h
  · next hc => exact absurd hc hk
  · split at h
    · simp at h
    · cases hd : s.definedEntries l with
      | none => simp [hd] at h
      | some defined =>
        simp only [hd] at h
        injection h with h
        subst h
        refine ⟨defined, rfl, ?_, rfl, rfl⟩
        apply mapM_keys _ _ _ _ hd
        intro p y hy
        obtain ⟨n, d⟩ := p
        cases d <;> simp at hy
        · obtain ⟨e, _, rfl⟩ := hy; rfl
        · obtain ⟨e, _, rfl⟩ := hy; rfl
        · subst hy; rfl

theorem mem_inheritedEntries_names (s : Sig) (l : Layer) (n : String)
    (h : n ∈ (s.inheritedEntries l).map (·.1)) : l.defines n = false ∧ s.passes l n = true := by
  simp only [Sig.inheritedEntries, List.mem_map, List.mem_filterMap] at h
  obtain ⟨⟨n', e', o'⟩, ⟨⟨m, e, o⟩, _, hm⟩, rfl⟩ := h
  by_cases hc : (!l.defines m && s.passes l m) = true
  · simp only [hc, if_true] at hm
    simp only [Bool.and_eq_true, Bool.not_eq_true'] at hc
    split at hm <;> (injection hm with hm; injection hm with h1 _; subst h1; exact hc)
  · simp [hc] at hm

theorem inheritSet_mem_false (l : Layer) (n : String) (hk : l.kind ≠ .cache) (hd : l.defines n = false)
    (hi : l.inherits n = false) : l.inheritSet.mem n = false := by
  unfold Layer.inherits at hi
  unfold Layer.inheritSet
  cases hkind : l.kind with
  | cache => exact absurd hkind hk
  | source => simp
  | apply => simp [hkind, hd] at hi
  | transform =>
    simp only [hkind] at hi ⊢
    split at hi
    · exact hi
    · simpa [hd] using hi

/-- **No stale field.**  A name that the appended layer does not define, does not inherit and that is not a
persistent field of the prefix is gone: it is not exposed and it is not served as the raw input either, so
asking for it raises `FieldError` instead of being answered by an earlier layer. -/
theorem gone_field (s s' : Sig) (l : Layer) (n : String) (hk : l.kind ≠ .cache) (h : s.step l = .ok s')
    (hd : l.defines n = false) (hi : l.inherits n = false) (hp : s.persistent.contains n = false) :
    s'.field n = .fieldError := by
  obtain ⟨defined, _, hnames, hout, hvirt⟩ := step_out_names s s' l hk h
  have hnot : n ∉ s'.out.map (·.1) := by
    rw [hout]
    simp only [List.map_append, List.mem_append, not_or]
    refine ⟨⟨?_, ?_⟩, ?_⟩
    · rw [hnames]
      intro hm
      simp only [Layer.defines, lookupAssoc, Option.isSome_map, Option.isSome_eq_false_iff,
        Option.isNone_iff_eq_none, List.find?_eq_none] at hd
      simp only [List.mem_map] at hm
      obtain ⟨p, hp1, hp2⟩ := hm
      exact hd p hp1 (by simp [hp2])
    · intro hm
      have := (mem_inheritedEntries_names s l n hm).2
      simp only [Sig.passes, hi, Bool.false_or, Bool.and_eq_true] at this
      rw [hp] at this
      simp at this
    · intro hm
      simp only [List.map_map, List.mem_map, Function.comp] at hm
      obtain ⟨m, hm1, rfl⟩ := hm
      simp only [Sig.freshNames, List.mem_filter, Bool.and_eq_true] at hm1
      simp [hi] at hm1
  have hget : s'.get n = none := lookupAssoc_none_of_not_mem _ _ hnot
  have hv : s'.virt.mem n = false := by
    rw [hvirt, NameSet.mem_diff, NameSet.mem_inter, inheritSet_mem_false l n hk hd hi]
    simp
  simp [Sig.field, hget, hv]

/-- a field's parameters are exactly the raw inputs its term mentions, without repetition (then sorted) -/
theorem signature_minimal (s : Sig) (n : String) (sg : List String) (t : Term) (h : s.field n = .computed sg t) :
    ∀ x, x ∈ sg ↔ x ∈ t.inputs := by
  unfold Sig.field at h
  split at h
  · next t' o hg =>
    injection h with h1 h2
    subst h1; subst h2
    intro x
    simp [List.mem_mergeSort, List.mem_eraseDups]
  · simp at h
  · split at h <;> simp at h

/-- a cache layer exposes exactly the same names, computing exactly the same terms (it only marks them optional) -/
theorem cache_layer_transparent (s s' : Sig) (l : Layer) (hk : l.kind = .cache) (h : s.step l = .ok s') (n : String) :
    s'.field n = s.field n := by
  unfold Sig.step at h
  simp only [hk] at h
  injection h with h
  subst h
  simp only [Sig.field, Sig.get, lookupAssoc, List.find?_map, Function.comp_def]
  cases hf : List.find? (fun p => p.1 == n) s.out with
  | none => simp
  | some p => obtain ⟨m, e, o⟩ := p; cases e <;> simp

/-- non-vacuity: a two-layer stack in which `b` is dropped (hypotheses of `gone_field` hold) and `a` survives -/
example :
    let src : Layer := { index := 0, kind := .transform, defs := [("a", .fn "f" ["x"]), ("b", .fn "g" ["x"])], params := [],
                         opt := [], persistent := [], inherit := .fin [], inheritIsList := true, cacheNames := none }
    let top : Layer := { index := 1, kind := .transform, defs := [("c", .fn "h" ["a"])], params := [],
                         opt := [], persistent := [], inherit := .fin ["a"], inheritIsList := true, cacheNames := none }
    (match sigOf [src, top] with
      | .ok s => (match s.field "b" with | .fieldError => true | _ => false) && (s.get "a").isSome && (s.get "c").isSome
                 && !top.defines "b" && !top.inherits "b"
      | .error _ => false) = true := by decide +kernel


/-! ### The node level: `connect_bags` itself (`CM.Model.Bag`, tied to /repo by the S-NODE correspondence)

`BDen b n t`: the node `n` of the bag `b` computes the term `t` over the bag's input names; `b.Field x t`: the output named
`x` computes `t`; `Glue l t0 t`: `t` is `t0` with every input name replaced by what the bag `l` computes under that name
(or left as an input if `l` passes the name on from further upstream, or `missing`). -/

/-- **One layer connected to a pipeline** (`connect_bags(left, right)`, through the function the driver runs): for
well-formed operands, if the call succeeds then (1) the result is well-formed again; (2) it exposes a field `x` computing
`t` exactly if the new layer defines `x` as `t0` and `t` is `t0` over the earlier fields, or the new layer passes `x` on
(it inherits it, or `x` is persistent and not redefined) and the earlier pipeline computed `t`; (3) hence the exposed names
are those the layer defines plus the earlier ones it passes on; (4) a name still reaches the raw input iff both let it. -/
theorem node_connect_step {l r0 c : Bag} (hl : l.WF) (hr : r0.WF) (h : connectBags l r0 = .ok c) :
    c.WF ∧
    (∀ x t, c.Field x t ↔ (∃ t0, r0.Field x t0 ∧ Glue l t0 t) ∨ (passes l r0 x = true ∧ l.Field x t)) ∧
    (∀ x, x ∈ names c.outputs ↔ x ∈ names r0.outputs ∨ (x ∈ names l.outputs ∧ passes l r0 x = true)) ∧
    (∀ x, c.virt.mem x = (l.virt.mem x && r0.virt.mem x)) :=
  connect_step hl hr h

/-- **Never a stale field, at the node level**: an earlier field that the new layer neither defines nor passes on is not
exposed by the connected pipeline, whatever the graphs look like. -/
theorem node_no_stale_field {l r0 c : Bag} (hl : l.WF) (hr : r0.WF) (h : connectBags l r0 = .ok c) (x : String)
    (hd : x ∉ names r0.outputs) (hp : passes l r0 x = false) : x ∉ names c.outputs := by
  intro hx
  rcases ((connect_step hl hr h).2.2.1 x).1 hx with h1 | ⟨_, h1⟩
  · exact hd h1
  · rw [hp] at h1; exact absurd h1 (by simp)

/-- a field computes one thing: two derivations of what a node of a well-formed bag computes agree -/
theorem node_field_functional {b : Bag} (hb : b.WF) {x : String} {t₁ t₂ : BTerm}
    (h₁ : b.Field x t₁) (h₂ : b.Field x t₂) : t₁ = t₂ := by
  obtain ⟨o₁, ho₁, hx₁, hd₁⟩ := h₁
  obtain ⟨o₂, ho₂, hx₂, hd₂⟩ := h₂
  have : o₁ = o₂ := hb.outNames o₁ ho₁ o₂ ho₂ (hx₁.trans hx₂.symm)
  subst this
  exact BDen.det hb.single hd₁ hd₂

/-- every bag a chain of layers goes through is well-formed (by induction over the chain, any length) -/
theorem node_chain_wf {head c : Bag} {tail : List Bag} (hh : head.WF) (ht : ∀ b ∈ tail, b.WF)
    (h : connectAll head tail = .ok c) : c.WF :=
  connectAll_wf hh ht h

/-- **From the container to the value the compiled field returns** (C02 with C01): for a well-formed, acyclic bag whose
edges are of the simple kinds (`EdgeK.wf`), the graph compiled for a field (`Bag.compileGraph`: `TreeNode.from_edges` and
`Graph(inputs, node)`) satisfies the hypotheses of `vm_correct` (`node_compile_ok`), and with every used input bound, no scheduled failure and no impure function, the stack machine stops and returns
exactly the value of the term the output node computes - by `node_connect_step` the composition of the layers' functions -
evaluated by the specification; or raises exactly the error that evaluation gives. -/
theorem node_pipeline_value {b : Bag} {o : BNode} {t : BTerm} (hb : b.WF) (hac : acyclicB b.edges = true)
    (hwf : ∀ e ∈ b.edges, e.edge.wf = true) (env : String → Option Val) (w : World)
    (hc : CallOK (b.compileGraph o) env) (hf : w.failAt = []) (hp : w.impureFns = [])
    (hd : BDen b o t) (hnm : t.NoMissing) :
    ∃ N out steps, (∀ fuel, N ≤ fuel → (b.compileGraph o).call env w fuel = some (out, steps)) ∧
      match (t.den (denCfgOf env w)).v with
      | .ok v => ∃ s, out = .done (.val v) s
      | .error e => ∃ s, out = .raised e s :=
  pipeline_value hb hac hwf env w hc hf hp hd hnm

/-- every graph compiled from a checked bag satisfies the hypotheses of `vm_correct`: parents before children (the order in which
`peel`, the model of `detect_cycles`, hands out the edges is topological), declared inputs are leaves, simple edges -/
theorem node_compile_ok {b : Bag} {o : BNode} (hb : b.WF) (hwf : ∀ e ∈ b.edges, e.edge.wf = true) :
    GraphOK (b.compileGraph o) :=
  compile_ok hb.outs hb.inLeaf hwf

/-- the term function the driver runs is sound for the relation the theorems talk about -/
theorem node_term_sound (b : Bag) (fuel : Nat) (n : BNode) (t : BTerm) (h : b.term fuel n = some t) : BDen b n t :=
  term_sound b fuel n t h

/-- the executable form of the hypothesis, evaluated by the driver on every bag the real code connects -/
theorem node_wf_check_sound {b : Bag} (h : b.wfB = true) : b.WF := wfB_sound h

/-- non-vacuity: a Source-like and a Transform-like bag satisfy the hypotheses and connect -/
example : exSource.wfB = true ∧ exTransform.wfB = true ∧ (connectBags exSource exTransform).toOption.isSome = true := by
  decide +kernel

/-- non-vacuity of `node_pipeline_value`: the connected example bag is well-formed and acyclic, the graph compiled for its
`image` field passes the check, and the term of `image` is `zoom(load(id))` without missing inputs -/
example : (match connectBags exSource exTransform with
    | .ok c => c.wfB && acyclicB c.edges &&
        (match byName c.outputs "image" with
         | some o => c.edges.all (·.edge.wf) && (c.compileGraph o).okB && ((c.term 100 o).map BTerm.noMissingB == some true)
         | none => false)
    | .error _ => false) = true := by
  decide +kernel

/-! ## Node level, from the class body: `interface/factory.py`, `containers/reversible.py` (`CM.Model.Factory`) -/


/-- **Node level, from the class body: what a field of a layer computes.**  In the container the factory builds for a layer
(`CM.Model.Factory`: `GraphFactory`, `SourceFactory`, `TransformFactory`, `ReversibleContainer`), the field `f` computes its
function applied to what its arguments denote: public names are the inputs of those names (for a Source: the key), constructor
arguments (with their defaults) are constants bound per instance, private parameters are their own functions of their own
arguments. -/
theorem node_factory_field {r : RawLayer} {b : Bag} (h : r.factory = .ok b) (f : RawField) (hf : f ∈ r.fields)
    (ts : List BTerm) (hlen : f.args.length = ts.length) (hargs : ∀ q ∈ f.args.zip ts, ArgDen r q.1 q.2) :
    b.Field f.name (.node (.function f.f [] []) ts) :=
  factory_field h f hf ts hlen hargs

/-- **The container of every layer the factory accepts is well-formed**, for every class body: the hypotheses of
`node_connect_step`, `node_chain_wf` and `node_pipeline_value` need not be assumed for layers built through the public API. -/
theorem node_factory_wf {r : RawLayer} {b : Bag} (h : r.factory = .ok b) : b.WF := factory_wf h

/-- **A layer on top of a pipeline** (`pipeline >> layer`): the new field computes the layer's function over the layer's private
parameters and constructor arguments and over what the pipeline computes under the names of its public arguments; the result is
well-formed again, so the statement applies to the next layer as well (stacks of any height, by `node_chain_wf`). -/
theorem node_layer_over_pipeline {l b c : Bag} {r : RawLayer} (hl : l.WF) (hb : r.factory = .ok b) (hc : connectBags l b = .ok c)
    (f : RawField) (hf : f ∈ r.fields) (ts : List BTerm) (hlen : f.args.length = ts.length)
    (hargs : ∀ q ∈ f.args.zip ts, ArgDen r q.1 q.2) :
    c.WF ∧ ∀ t, c.Field f.name t ↔ Glue l (.node (.function f.f [] []) ts) t :=
  layer_over_pipeline hl hb hc f hf ts hlen hargs

/-- non-vacuity (a test): `class T(Transform): __inherit__ = 'b'; _k = 2; def _p(a): ...; def x(a, _p, _k): ...` is accepted
by the factory model, and the arguments of `x` denote: the input `a`, `T._p(a)`, the constant 2 -/
def exLayer : RawLayer :=
  { k := "transform", cls := "T",
    fields := [{ name := "x", f := "T.x", args := ["a", "_p", "_k"] }],
    params := [{ name := "_p", f := "T._p", args := ["a"] }],
    consts := [("_k", .int 2)], inherit := .names ["b"] }

example : (match exLayer.factory with | .ok b => b.wfB && b.outputs.length == 1 | .error _ => false) = true := by
  decide +kernel

example : ArgDen exLayer "a" (.inp "a") ∧ ArgDen exLayer "_k" (.node (.constant (.int 2)) []) ∧
    ArgDen exLayer "_p" (.node (.function "T._p" [] []) [.inp "a"]) := by
  have hfa : exLayer.fwdArg "a" = "a" := by decide +kernel
  have ha : ArgDen exLayer "a" (.inp "a") := hfa ▸ ArgDen.pub (by decide +kernel) (by decide +kernel)
  refine ⟨ha, .const (by decide +kernel) (by simp [exLayer]), ?_⟩
  refine .param { name := "_p", f := "T._p", args := ["a"] } (by decide +kernel) (by simp [exLayer]) rfl rfl ?_
  intro q hq
  simp only [List.zip_cons_cons, List.zip_nil_right, List.mem_singleton] at hq
  subst hq
  exact ha

/-- non-vacuity (a test): `class Z(Transform): def y(x): ...; def z(y: Output): ...` - the argument of `z` is the layer's own output
`y` (written `out:y`), it denotes `Z.y(x)`, so `z` computes `Z.z(Z.y(x))` (`node_factory_field`) and needs the input `x` -/
def exOutLayer : RawLayer :=
  { k := "transform", cls := "Z",
    fields := [{ name := "y", f := "Z.y", args := ["x"], opt := true }, { name := "z", f := "Z.z", args := ["out:y"] }] }

/-- the input `x` is NOT optional: the required field `z` needs it through the optional `y` (only the output `y` carries the mark) -/
example : (match exOutLayer.factory with
    | .ok b => b.wfB && b.inputs.length == 1 && b.optional.all (fun n => n.name != "x") && b.optional.length == 1
    | .error _ => false) = true := by
  decide +kernel

example : ArgDen exOutLayer "out:y" (.node (.function "Z.y" [] []) [.inp "x"]) := by
  have hfx : exOutLayer.fwdArg "x" = "x" := by decide +kernel
  refine .out { name := "y", f := "Z.y", args := ["x"], opt := true } (by decide +kernel) (by decide +kernel) (by simp [exOutLayer])
    (by decide +kernel) rfl ?_
  intro q hq
  simp only [List.zip_cons_cons, List.zip_nil_right, List.mem_singleton] at hq
  subst hq
  exact hfx ▸ ArgDen.pub (by decide +kernel) (by decide +kernel)

/-- **Node level, from the class body: which fields `pipeline >> layer` exposes.**  Exactly (1) the fields the layer defines,
(2) the names it inherits (`__inherit__` as a list or a bare string, `True`, everything but `__exclude__` - normalised as
`TransformFactory._after_collect` / `normalize_inherit` do) that the pipeline has, or that the layer consumes itself (then it passes
its own input through), (3) for a Source the persistent names it reads as inputs, (4) the persistent fields of the pipeline (the key,
the meta fields of a Source) that the layer neither defines nor passes through itself.  Any other earlier field is gone - for every
well-formed pipeline container and every layer description the factory accepts. -/
theorem node_layer_exposes {l b c : Bag} {r : RawLayer} (hl : l.WF) (hb : r.factory = .ok b) (hc : connectBags l b = .ok c)
    (x : String) :
    x ∈ names c.outputs ↔
      x ∈ r.layout.outputs ∨
      (r.fwdVirt.mem x = true ∧ (x ∈ r.layout.inputs ∨ x ∈ names l.outputs)) ∨
      (x ∈ r.layout.inputs ∧ x ∈ r.persistentNames ∧ x ∉ r.layout.outputs) ∨
      (x ∈ names l.outputs ∧ x ∈ l.persistent ∧ x ∉ names b.outputs) :=
  layer_exposes hl hb hc x

/-- the names the container of a single layer exposes and still passes on from upstream -/
theorem node_factory_names {r : RawLayer} {b : Bag} (h : r.factory = .ok b) :
    (∀ x, x ∈ names b.outputs ↔ x ∈ r.layout.outputs ∨
        (x ∈ r.layout.inputs ∧ (r.fwdVirt.mem x = true ∨ x ∈ r.persistentNames) ∧ x ∉ r.layout.outputs)) ∧
    (∀ x, b.virt.mem x = (r.fwdVirt.mem x &&
        !(x ∈ r.layout.inputs ∧ (r.fwdVirt.mem x = true ∨ x ∈ r.persistentNames) ∧ x ∉ r.layout.outputs : Bool))) ∧
    b.persistent = r.persistentNames :=
  factory_names h

/-- non-vacuity (a test): the example layer defines `x`, inherits `b` and consumes `a`: its container exposes `x` only, passes `b` on -/
example : (match exLayer.factory with
    | .ok b => names b.outputs == ["x"] && b.virt.mem "b" && !b.virt.mem "a" && !b.virt.mem "x"
    | .error _ => false) = true := by decide +kernel

end CM.C02
