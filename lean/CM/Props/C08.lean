/-
  C08 — Caches actually memoise: hits run nothing upstream, LRU stays bounded, shards partition the sorted ids.
  Property theorems about `MemStore` (CM.Model.VM: the model of `MemoryCache`) and `getShard` (CM.Model.Shard).
-/
import CM.Proofs.StoreLemmas
import CM.Model.Shard
namespace CM.C08
open CM

/-! ### the RAM table -/

inductive Op where
  | get (k : NHash)
  | set (k : NHash) (v : Val)
  | clear

def apply (s : MemStore) : Op → MemStore
  | .get k => (s.get k).2
  | .set k v => s.set k v
  | .clear => s.clear

theorem filter_length_lt {α : Type} (p : α → Bool) : ∀ (l : List α) (x : α), x ∈ l → p x = false →
    (l.filter p).length + 1 ≤ l.length
  | [], _, h, _ => by cases h
  | q :: qs, x, h, hp => by
    simp only [List.filter_cons]
    cases h with
    | head =>
      simp only [hp, Bool.false_eq_true, ↓reduceIte, List.length_cons]
      have := List.length_filter_le p qs
      omega
    | tail _ hm =>
      have := filter_length_lt p qs x hm hp
      split <;> simp only [List.length_cons] <;> omega

theorem remove_lt (s : MemStore) (key : NHash) (p : NHash × Val) (h : s.find? key = some p) :
    (s.remove key).length + 1 ≤ s.table.length := by
  unfold MemStore.find? at h
  unfold MemStore.remove
  have hmem := List.mem_of_find?_eq_some h
  have hk : s.keyEq p.1 key = true := by simpa using List.find?_some h
  exact filter_length_lt _ s.table p hmem (by simp [hk])

/-- **Bounded.**  A size-bounded RAM cache never holds more than `size` entries, whatever the history of
`get` / `set` / `clear` (the repaired `clear` keeps the bound). -/
theorem lru_step_bounded (s : MemStore) (n : Nat) (hs : s.size = some n) (hb : s.table.length ≤ n) (op : Op) :
    (apply s op).size = some n ∧ (apply s op).table.length ≤ n := by
  cases op with
  | get k =>
    simp only [apply, MemStore.get]
    cases hf : s.find? k with
    | none => exact ⟨hs, hb⟩
    | some p =>
      obtain ⟨k', v⟩ := p
      have := remove_lt s k _ hf
      constructor
      · simp [hs]
      · simp only [hs, List.length_cons]; omega
  | set k v =>
    simp only [apply, MemStore.set, hs]
    cases hf : s.find? k with
    | none =>
      constructor
      · simp
      · simp only [List.length_take, List.length_cons]; omega
    | some p =>
      obtain ⟨k', v'⟩ := p
      have := remove_lt s k _ hf
      constructor
      · simp
      · simp only [List.length_cons]; omega
  | clear => exact ⟨hs, by simp [apply, MemStore.clear]⟩

theorem lru_bounded (s : MemStore) (n : Nat) (hs : s.size = some n) (hb : s.table.length ≤ n) (ops : List Op) :
    (ops.foldl apply s).table.length ≤ n ∧ (ops.foldl apply s).size = some n := by
  induction ops generalizing s with
  | nil => exact ⟨hb, hs⟩
  | cons op ops ih =>
    obtain ⟨h1, h2⟩ := lru_step_bounded s n hs hb op
    exact ih (apply s op) h1 h2

/-! ### shards of a column cache -/

theorem flatMap_shards (sz : Nat) (hsz : 0 < sz) : ∀ (n : Nat) (ks : List String), ks.length ≤ n * sz →
    (List.range n).flatMap (fun i => shardAt ks sz i) = ks
  | 0, ks, h => by
    have : ks = [] := List.eq_nil_of_length_eq_zero (by omega)
    simp [this]
  | n + 1, ks, h => by
    rw [List.range_succ_eq_map, List.flatMap_cons, List.flatMap_map]
    have ih := flatMap_shards sz hsz n (ks.drop sz) (by simp only [List.length_drop]; rw [Nat.add_mul] at h; omega)
    have : (fun i => shardAt ks sz (i + 1)) = fun i => shardAt (ks.drop sz) sz i := by
      funext i
      simp only [shardAt, List.drop_drop]
      congr 2
      rw [Nat.add_mul]; omega
    simp only [this, ih]
    simp [shardAt]

/-- **The shards partition the sorted keys**: concatenating the `⌈n / size⌉` shards gives the sorted keys back
(every key in exactly one position of exactly one shard). -/
theorem shards_partition (keys : List String) (sz : Nat) (hsz : 0 < sz) :
    (List.range (((sortKeep keys).length + sz - 1) / sz)).flatMap (fun i => shardAt (sortKeep keys) sz i) = sortKeep keys := by
  apply flatMap_shards sz hsz
  have := Nat.div_mul_le_self ((sortKeep keys).length + sz - 1) sz
  have h2 := Nat.lt_div_mul_add (a := (sortKeep keys).length + sz - 1) hsz
  omega

/-- the shard `_get_shard` returns contains the requested key -/
theorem shard_contains_key (keys : List String) (sz : Nat) (hsz : 0 < sz) (key : String)
    (shard : List String) (count idx : Nat) (h : getShard keys (some sz) key = .ok (shard, count, idx)) :
    key ∈ shard ∧ shard = shardAt (sortKeep keys) sz idx ∧ idx < count := by
  unfold getShard at h
  simp only at h
  split at h
  · simp at h
  · next hc =>
    have hmem : key ∈ sortKeep keys := by simpa using hc
    cases sz with
    | zero => omega
    | succ m =>
      simp only at h
      injection h with h
      simp only [Prod.mk.injEq] at h
      obtain ⟨h1, h2, h3⟩ := h
      subst h1; subst h2; subst h3
      have hp : (sortKeep keys).idxOf key < (sortKeep keys).length := List.idxOf_lt_length_of_mem hmem
      refine ⟨?_, rfl, ?_⟩
      · -- position p of the sorted keys lies in chunk p / sz
        have hget : (sortKeep keys)[(sortKeep keys).idxOf key] = key := List.getElem_idxOf hp
        simp only [shardAt]
        generalize (sortKeep keys).idxOf key = p at hp hget ⊢
        obtain ⟨q, r, hq, hr, hp'⟩ : ∃ q r, q = p / (m + 1) ∧ r < m + 1 ∧ p = q * (m + 1) + r :=
          ⟨p / (m + 1), p % (m + 1), rfl, Nat.mod_lt _ (Nat.succ_pos m),
            by rw [Nat.mul_comm]; exact (Nat.div_add_mod p (m + 1)).symm⟩
        rw [← hq]
        generalize q * (m + 1) = t at hp'
        have : (sortKeep keys)[p] ∈ List.take (m + 1) (List.drop t (sortKeep keys)) := by
          rw [List.mem_iff_getElem]
          refine ⟨r, ?_, ?_⟩
          · simp only [List.length_take, List.length_drop]; omega
          · simp only [List.getElem_take, List.getElem_drop]
            congr 1
            omega
        rw [hget] at this
        exact this
      · generalize (sortKeep keys).idxOf key = p at hp ⊢
        generalize (sortKeep keys).length = len at hp ⊢
        have h1 : p / (m + 1) ≤ (len - 1) / (m + 1) := Nat.div_le_div_right (by omega)
        have h2 : (len + (m + 1) - 1) / (m + 1) = (len - 1) / (m + 1) + 1 := by
          have : len + (m + 1) - 1 = (len - 1) + (m + 1) := by omega
          rw [this, Nat.add_div_right _ (Nat.succ_pos m)]
        omega

/-- a key that is not cached is rejected; without a shard size there is one shard with everything -/
theorem shard_edge_cases (keys : List String) (key : String) :
    ((sortKeep keys).contains key = false → ∀ size, getShard keys size key = .error .valueError) ∧
    ((sortKeep keys).contains key = true → getShard keys none key = .ok (sortKeep keys, 1, 0)) := by
  constructor
  · intro h size; simp only [getShard, h, Bool.not_false, if_true]
  · intro h; simp only [getShard, h, Bool.not_true, Bool.false_eq_true, if_false]

/-- non-vacuity: 5 keys in shards of 2 -->  [a b] [c d] [e] -/
example : (match getShard ["d", "a", "e", "c", "b"] (some 2) "c" with
    | .ok (shard, count, idx) => shard == ["c", "d"] && count == 3 && idx == 1
    | .error _ => false) = true := by decide +kernel

example : ((C08.apply (C08.apply { size := some 1, table := [] } (.set (.leaf (.int 1)) .none)) (.set (.leaf (.int 2)) .none)).table.length) = 1 := by
  decide +kernel

end CM.C08
