/-
  C09 — Chaining is associative and never mutates or couples its operands.
  The model is purely functional, so non-mutation is a matter of the correspondence (S-ALIAS re-observes every
  operand and every earlier pipeline after each composition); the theorems here are about bracketing.
-/
import CM.Model.Pipe
namespace CM.C09
open CM

theorem flattenList_append (ps qs : List Pipe) :
    Pipe.flattenList (ps ++ qs) = Pipe.flattenList ps ++ Pipe.flattenList qs := by
  induction ps with
  | nil => simp [Pipe.flattenList]
  | cons p ps ih => simp [Pipe.flattenList, ih, List.append_assoc]

/-- Re-bracketing: a nested group of any flavour contributes exactly its members, in order. -/
theorem flatten_nested (fl fl' : Flavour) (ps qs rs : List Pipe) :
    (Pipe.group fl (ps ++ [Pipe.group fl' qs] ++ rs)).flatten = (Pipe.group fl (ps ++ qs ++ rs)).flatten := by
  simp [Pipe.flatten, flattenList_append, Pipe.flattenList]

/-- The flavour of a chain (`>>`, `Chain`, `LazyChain`) does not matter. -/
theorem flatten_flavour (fl fl' : Flavour) (ps : List Pipe) :
    (Pipe.group fl ps).flatten = (Pipe.group fl' ps).flatten := by
  simp [Pipe.flatten]

/-- **Associativity.**  Any two bracketings / chain flavours of the same layer sequence expose the same
fields, signatures, values and the same class of error. -/
theorem assoc (p q : Pipe) (h : p.flatten = q.flatten) : p.sig = q.sig := by
  simp [Pipe.sig, h]

theorem assoc_nested (fl fl' : Flavour) (ps qs rs : List Pipe) :
    (Pipe.group fl (ps ++ [Pipe.group fl' qs] ++ rs)).sig = (Pipe.group fl (ps ++ qs ++ rs)).sig :=
  assoc _ _ (flatten_nested fl fl' ps qs rs)

/-- Only the observable state of the prefix matters to what follows (congruence of connection):
the stack `xs ++ ys` is `ys` applied to the state after `xs`. -/
theorem sig_append (xs ys : List Layer) :
    sigOf (xs ++ ys) = (sigOf xs).bind fun s => ys.foldlM Sig.step s := by
  simp [sigOf, List.foldlM_append]
  rfl

/-- non-vacuity: three layers, two bracketings -/
example :
    let a : RawLayer := { k := "transform", cls := "A", fields := [{ name := "x", f := "A.x", args := ["i"] }] }
    let b : RawLayer := { k := "transform", cls := "B", fields := [{ name := "y", f := "B.y", args := ["x"] }] }
    let c : RawLayer := { k := "transform", cls := "C", fields := [{ name := "z", f := "C.z", args := ["y"] }] }
    (Pipe.group .chain [.group .rshift [.layer a, .layer b], .layer c]).flatten.length = 3 ∧
    (Pipe.group .chain [.group .rshift [.layer a, .layer b], .layer c]).flatten.map (·.cls) =
      (Pipe.group .chain [.layer a, .group .lazy [.layer b, .layer c]]).flatten.map (·.cls) := by
  decide

end CM.C09
