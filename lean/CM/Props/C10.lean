/-
  C10 — Decorated functions run forward, then f, then the inverses in reverse order.
  Property theorems about CM.Model.Loopback (tied to /repo by the S-CTX correspondence and reference) and, at the node level,
  about `EdgesBag.loopback` / `Context.reverse` as modelled in CM.Model.Bag (tied to /repo by S-NODE: every real loopback call
  is replayed on the model).
-/
import CM.Model.Loopback
import CM.Proofs.StackLemmas
import CM.Proofs.BagReverse
import CM.Proofs.LoopbackDen
import CM.Proofs.FactoryCtx
import CM.Proofs.BagTerm
namespace CM.C10
open CM

/-- **Reverse order.**  Reversing a list of layers is reversing its head (the *last* layer of the chain) first and
the rest afterwards; for a chain `ls ++ [l]` the inverse of `l` is therefore applied before those of `ls`. -/
theorem reverse_append (xs ys : List (Layer × Sig)) (b : Back) :
    reverseAll (xs ++ ys) b = (reverseAll xs b).bind (reverseAll ys) := by
  induction xs generalizing b with
  | nil => rfl
  | cons x xs ih =>
    obtain ⟨l, pre⟩ := x
    simp only [List.cons_append, reverseAll]
    cases l.reverse pre b with
    | none => rfl
    | some b' => exact ih b'

theorem last_layer_first (ls : List (Layer × Sig)) (l : Layer) (pre : Sig) (b : Back) :
    reverseAll ((ls ++ [(l, pre)]).reverse) b = (l.reverse pre b).bind (reverseAll ls.reverse) := by
  simp [List.reverse_append, reverseAll]
  cases l.reverse pre b <;> rfl

/-- cache layers pass every inverse value on unchanged -/
theorem cache_layers_transparent (l : Layer) (pre : Sig) (b : Back) (h : l.kind = .cache) : l.reverse pre b = some b := by
  simp [Layer.reverse, h]

/-- the names a reversed (non-cache) layer returns: its own inverse fields, then what it inherits backwards -/
theorem reverse_shape (l : Layer) (pre : Sig) (b b' : Back) (hk : l.kind ≠ .cache) (h : l.reverse pre b = some b') :
    ∃ own : Back, own.map (·.1) = l.inverses.map (·.1) ∧
      b' = own ++ b.filter fun p => l.backInherit.mem p.1 && !(own.any (·.1 == p.1)) := by
  unfold Layer.reverse at h
  split at h
  · next hc => exact absurd hc hk
  · simp only [Option.map_eq_some_iff] at h
    obtain ⟨own, hown, rfl⟩ := h
    refine ⟨own, ?_, rfl⟩
    apply mapM_keys _ _ _ _ hown
    intro p y hy
    obtain ⟨n, d⟩ := p
    cases d <;> simp at hy
    · obtain ⟨e, _, rfl⟩ := hy; rfl
    · subst hy; rfl
    · subst hy; rfl

/-- **A name without an inverse path is rejected.**  If a layer neither inverts `n` nor inherits it backwards, `n` is
absent after that layer, whatever came in: it can never be returned un-inverted. -/
theorem missing_inverse_dropped (l : Layer) (pre : Sig) (b b' : Back) (n : String) (hk : l.kind ≠ .cache)
    (h : l.reverse pre b = some b') (hinv : n ∉ l.inverses.map (·.1)) (hinh : l.backInherit.mem n = false) :
    b'.get n = none := by
  obtain ⟨own, hnames, rfl⟩ := reverse_shape l pre b b' hk h
  apply lookupAssoc_none_of_not_mem
  simp only [List.map_append, List.mem_append, not_or]
  refine ⟨by rw [hnames]; exact hinv, ?_⟩
  intro hm
  simp only [List.mem_map, List.mem_filter] at hm
  obtain ⟨p, ⟨_, hp⟩, rfl⟩ := hm
  simp [hinh] at hp

theorem find?_congr' {α : Type} (p q : α → Bool) : ∀ (l : List α), (∀ a ∈ l, p a = q a) → l.find? p = l.find? q
  | [], _ => rfl
  | a :: as, h => by
    simp only [List.find?_cons, h a (List.mem_cons_self ..)]
    cases q a
    · exact find?_congr' p q as (fun x hx => h x (List.mem_cons_of_mem _ hx))
    · rfl

/-- **Inherited inverse names pass through unchanged** when the layer has no inverse of its own for them -/
theorem inherited_pass_through (l : Layer) (pre : Sig) (b b' : Back) (n : String) (hk : l.kind ≠ .cache)
    (h : l.reverse pre b = some b') (hinv : n ∉ l.inverses.map (·.1)) (hinh : l.backInherit.mem n = true) :
    b'.get n = b.get n := by
  obtain ⟨own, hnames, rfl⟩ := reverse_shape l pre b b' hk h
  have hown : lookupAssoc own n = none := lookupAssoc_none_of_not_mem _ _ (by rw [hnames]; exact hinv)
  have hany : ∀ p : String × Entry, p.1 = n → (own.any (·.1 == p.1)) = false := by
    intro p hp
    rw [List.any_eq_false]
    intro q hq hqk
    apply hinv
    rw [← hnames]
    exact List.mem_map.mpr ⟨q, hq, by simpa [hp] using hqk⟩
  simp only [Back.get, lookupAssoc_append, hown, Option.orElse]
  simp only [lookupAssoc, List.find?_filter]
  congr 1
  apply find?_congr'
  intro p _
  by_cases hp : p.1 = n
  · have h1 := hany p hp
    rw [hp] at h1
    simp only [hp, hinh, h1]
    simp
  · have : (p.1 == n) = false := by simpa using hp
    simp [this]

/-- **The layer's own inverse wins** over backward inheritance of the same name (a name listed in `__inherit__` that
also has an `@inverse` is inverted, not passed through) -/
theorem own_inverse_wins (l : Layer) (pre : Sig) (b b' : Back) (n : String) (hk : l.kind ≠ .cache)
    (h : l.reverse pre b = some b') (hinv : n ∈ l.inverses.map (·.1)) :
    ∃ own : Back, own.map (·.1) = l.inverses.map (·.1) ∧ b'.get n = own.get n ∧ (own.get n).isSome := by
  obtain ⟨own, hnames, rfl⟩ := reverse_shape l pre b b' hk h
  refine ⟨own, hnames, ?_, ?_⟩
  · have : (lookupAssoc own n).isSome := by
      rw [← hnames] at hinv
      simp only [List.mem_map] at hinv
      obtain ⟨p, hp, rfl⟩ := hinv
      simp only [lookupAssoc, Option.isSome_map, List.find?_isSome]
      exact ⟨p, hp, by simp⟩
    simp only [Back.get, lookupAssoc_append]
    cases hl : lookupAssoc own n with
    | none => simp [hl] at this
    | some e => rfl
  · rw [← hnames] at hinv
    simp only [List.mem_map] at hinv
    obtain ⟨p, hp, rfl⟩ := hinv
    simp only [Back.get, lookupAssoc, Option.isSome_map, List.find?_isSome]
    exact ⟨p, hp, by simp⟩

/-- non-vacuity: Shift (x: fwd/inv) then Scale (x: fwd/inv with a parameter): inv_shift(inv_scale(F(scale(shift(x))))) -/
def exShift : Layer :=
  { index := 0, kind := .transform, defs := [("x", .fn "shift" ["x"])], params := [], opt := [],
    persistent := [], inherit := .fin [], inheritIsList := true, cacheNames := none,
    inverses := [("x", .fn "unshift" ["x"])], backInherit := .fin [] }

def exScale : Layer :=
  { index := 1, kind := .transform, defs := [("x", .fn "scale" ["x", "_k"])],
    params := [("_k", Param.const (.int 2))],
    opt := [], persistent := [], inherit := .fin [], inheritIsList := true, cacheNames := none,
    inverses := [("x", .fn "unscale" ["x", "_k"])], backInherit := .fin [] }

example :
    (match loopback [exShift, exScale] "F" ["x"] ["x"] ["x"] true with
      | .ok [(_, .term (.app "unshift" [.app "unscale" [.app "F" [.app "scale" [.app "shift" [.inp "x"], .const (.int 2)]], .const (.int 2)]]))] => true
      | _ => false) = true := by decide +kernel

/-! ## Node level: `EdgesBag.loopback`, `BagContext.reverse`, `ChainContext.reverse` -/


/-- the decorated graph (`EdgesBag.loopback`): the forward bag connected with the bag of `f`, and what its context returns -/
theorem loopback_shape (b fb r : Bag) (h : b.loopbackWith fb = .ok r) :
    ∃ state outs es opt nx, connectBags b fb = .ok state ∧
      state.ctx.reverse state.outputs state.next = .ok (outs, es, opt, nx) ∧
      r.outputs = outs ∧ r.edges = state.edges ++ es ∧ r.inputs = state.inputs := by
  simp only [Bag.loopbackWith, bind, Except.bind] at h
  split at h
  · cases h
  · rename_i state hst
    split at h
    · cases h
    · rename_i rr hrev
      obtain ⟨outs, es, opt, nx⟩ := rr
      obtain ⟨rfl, _⟩ := mkBag_ok h
      refine ⟨state, outs, es, opt, nx, hst, hrev, ?_, ?_, rfl⟩
      · have hf : ∀ l : List BNode, l.filter (fun _ => false) = [] := fun l => by induction l <;> simp_all
        simp [RawBag.core, RawBag.rule3, NameSet.empty, NameSet.mem, hf, addIdentities]
      · have hf : ∀ l : List BNode, l.filter (fun _ => false) = [] := fun l => by induction l <;> simp_all
        simp [RawBag.core, RawBag.rule3, NameSet.empty, NameSet.mem, hf, addIdentities]

/-- **Node level: the outputs of a decorated function.**  The names `layer._decorate(...)(f)` can return are obtained from
the outputs of `f` by the backward pass of the layers' contexts, the later layer first (`BCtx.backNames`); they depend on
names only. -/
theorem node_loopback_outputs (b fb r : Bag) (h : b.loopbackWith fb = .ok r) :
    ∃ state, connectBags b fb = .ok state ∧ state.ctx.backNames (names state.outputs) = some (names r.outputs) := by
  obtain ⟨state, outs, es, opt, nx, hst, hrev, ho, _, _⟩ := loopback_shape b fb r h
  exact ⟨state, hst, ho ▸ reverse_names _ _ _ _ _ _ _ hrev⟩

/-- **Node level: no inverse path, no output.**  Every output name of the decorated graph has an inverse path through the
context of every layer: each layer either has an inverse field of that name or inherits the name backwards from the layers
after it.  A name without such a path is not an output (asking for it raises `FieldError`): it is never returned un-inverted. -/
theorem node_no_inverse_path_rejected (b fb r : Bag) (h : b.loopbackWith fb = .ok r) (x : String)
    (hx : x ∈ names r.outputs) :
    ∃ state, connectBags b fb = .ok state ∧ state.ctx.HasPath (names state.outputs) x := by
  obtain ⟨state, hst, hn⟩ := node_loopback_outputs b fb r h
  exact ⟨state, hst, backNames_path _ _ _ x hn hx⟩

/-- **Node level: the backward pass adds only identity edges** (stitches from what came in to the backward inputs of a
layer, pass-through clones for inherited names): every function of the decorated graph is an edge of the forward
pipeline, of `f`, or of a layer's inverse fields, so each runs at most once per call (C03 `at_most_once`). -/
theorem node_loopback_edges (b fb r : Bag) (h : b.loopbackWith fb = .ok r) :
    ∃ state, connectBags b fb = .ok state ∧
      ∀ e ∈ r.edges, e ∈ state.edges ∨ StitchOrPass e := by
  obtain ⟨state, outs, es, opt, nx, hst, hrev, _, he, _⟩ := loopback_shape b fb r h
  refine ⟨state, hst, fun e hmem => ?_⟩
  rw [he] at hmem
  rcases List.mem_append.1 hmem with h1 | h2
  · exact .inl h1
  · exact .inr (reverse_edges _ _ _ _ _ _ _ hrev e h2)

/-- the later layer is reversed first: what reaches the earlier layers is what the later layer returns -/
theorem node_reverse_order (p c : BCtx) (ns : List String) :
    (BCtx.chain p c).backNames ns = (c.backNames ns).bind p.backNames := rfl

/-- a layer that neither inverts nor inherits a name drops it, whatever came in; an earlier layer can only produce the name
again through an inverse field of its own -/
theorem node_layer_drops (p : BCtx) (inputs outputs : List BNode) (inherit : NameSet) (ns res : List String) (x : String)
    (h : (BCtx.chain p (.bag inputs outputs inherit)).backNames ns = some res)
    (hno : x ∉ names outputs) (hni : inherit.mem x = false) :
    ∃ mid, x ∉ mid ∧ p.backNames mid = some res :=
  chain_drops_unless_reinverted p inputs outputs inherit ns res x h hno hni

/-- non-vacuity (a test): a layer inverting `a` and inheriting nothing, after a layer inheriting everything: from `[a, b]`
only `a` comes out -/
example :
    (BCtx.chain (.bag [] [] .all) (.bag [⟨7, "a"⟩] [⟨8, "a"⟩] (.fin []))).backNames ["a", "b"] = some ["a"] := by
  decide +kernel

/-! ## Node level: what the decorated graph computes (`CM.Proofs.LoopbackDen`) -/

/-- rule 2 of `normalize_bag` holds for the decorated graph: every node has at most one incoming edge -/
theorem loopback_single (b fb r : Bag) (h : b.loopbackWith fb = .ok r) : SingleIncoming r.edges := by
  simp only [Bag.loopbackWith, bind, Except.bind] at h
  split at h
  · cases h
  · split at h
    · cases h
    · obtain ⟨rfl, hc⟩ := mkBag_ok h
      exact hc.single

/-- **Node level: the forward pass and `f` are not disturbed by the decoration.**  In the decorated graph every node that is not
downstream of an edge the backward pass added computes exactly what it computes in `pipeline >> f` (`connectBags b fb`): the
forward fields through the layers in order, then `f` (C02 `node_connect_step` says what those are). -/
theorem node_loopback_forward_unchanged (b fb r : Bag) (h : b.loopbackWith fb = .ok r) :
    ∃ state es, connectBags b fb = .ok state ∧ r.edges = state.edges ++ es ∧
      ∀ n, ¬ Down r.edges (es.map (·.out)) n → ∀ t, BDen r n t ↔ BDen state n t := by
  obtain ⟨state, outs, es, opt, nx, hst, _, _, he, hi⟩ := loopback_shape b fb r h
  exact ⟨state, es, hst, he, fun n hn t => den_extension hi he hn t⟩

/-- **Node level: the inverses run in reverse order, each on what the later one returned.**  `Feeds ctx outs next n o`: reversing
the chain's context on the outputs of `f`, the backward input `n` of a layer is fed by `o` - for the LAST layer the output of `f`
of the same name, for an earlier layer the node of that name the later layers' backward pass returned (the later layer's inverse
output, or the pass-through of a name it inherits).  In the decorated graph `n` computes exactly what `o` computes: so an inverse
field (a function edge over backward inputs and the layer's own forward parameters, `C02.node_factory_field`) is applied to the
results of the inverses of the layers after it. -/
theorem node_loopback_backward_input (b fb r : Bag) (h : b.loopbackWith fb = .ok r) :
    ∃ state, connectBags b fb = .ok state ∧
      ∀ n o, Feeds state.ctx state.outputs state.next n o → n ∉ r.inputs → ∀ t, BDen r n t ↔ BDen r o t := by
  obtain ⟨state, outs, es, opt, nx, hst, hrev, _, he, _⟩ := loopback_shape b fb r h
  refine ⟨state, hst, fun n o hf hn t => ?_⟩
  have hmem : identityEdge o n ∈ r.edges := by
    rw [he]; exact List.mem_append.2 (Or.inr (reverse_feeds _ _ _ _ _ _ _ hrev n o hf))
  exact den_identity_edge (loopback_single b fb r h) hmem hn t

/-- the last layer's backward inputs compute what `f` returns under their names (when `f`'s outputs are not downstream of the
backward pass, which holds for containers built by the factory: backward inputs are read by inverse edges only) -/
theorem node_loopback_last_layer_input (b fb r : Bag) (h : b.loopbackWith fb = .ok r) :
    ∃ state es, connectBags b fb = .ok state ∧ r.edges = state.edges ++ es ∧
      ∀ n o, Feeds state.ctx state.outputs state.next n o → n ∉ r.inputs → ¬ Down r.edges (es.map (·.out)) o →
        ∀ t, BDen r n t ↔ BDen state o t := by
  obtain ⟨state, outs, es, opt, nx, hst, hrev, _, he, hi⟩ := loopback_shape b fb r h
  refine ⟨state, es, hst, he, fun n o hf hn hd t => ?_⟩
  have hmem : identityEdge o n ∈ r.edges := by
    rw [he]; exact List.mem_append.2 (Or.inr (reverse_feeds _ _ _ _ _ _ _ hrev n o hf))
  rw [den_identity_edge (loopback_single b fb r h) hmem hn t]
  exact den_extension hi he hd t

/-- non-vacuity (a test): two layers, the later one inverting `a`: reversing on what `f` returned (node 20), the later layer's backward
input 7 is fed by node 20 and the earlier layer's backward input 3 by the later layer's inverse output 8 -/
example :
    Feeds (.chain (.bag [⟨3, "a"⟩] [⟨4, "a"⟩] (.fin [])) (.bag [⟨7, "a"⟩] [⟨8, "a"⟩] (.fin []))) [⟨20, "a"⟩] 30 ⟨7, "a"⟩ ⟨20, "a"⟩ ∧
    Feeds (.chain (.bag [⟨3, "a"⟩] [⟨4, "a"⟩] (.fin [])) (.bag [⟨7, "a"⟩] [⟨8, "a"⟩] (.fin []))) [⟨20, "a"⟩] 30 ⟨3, "a"⟩ ⟨8, "a"⟩ := by
  constructor
  · exact .later (.bag (by simp) (by decide +kernel))
  · exact .earlier (o1 := [⟨8, "a"⟩]) (e1 := [identityEdge ⟨20, "a"⟩ ⟨7, "a"⟩]) (p1 := []) (n1 := 30) (by rfl)
      (.bag (by simp) (by decide +kernel))

/-- **Node level: inherited inverse names pass through unchanged.**  When a layer inherits a name backwards and has no inverse field
of that name, the node `Context.reverse` hands on under that name (`Passes`: the fresh clone `c` of the incoming node `n`) computes, in
the decorated graph, exactly what `n` computes - the value is returned un-inverted BY THAT LAYER only because the layer declares the
inheritance; `node_no_inverse_path_rejected` shows that without it the name is dropped. -/
theorem node_loopback_pass_through (b fb r : Bag) (h : b.loopbackWith fb = .ok r) :
    ∃ state, connectBags b fb = .ok state ∧
      ∀ n c, Passes state.ctx state.outputs state.next n c → c ∉ r.inputs → ∀ t, BDen r c t ↔ BDen r n t := by
  obtain ⟨state, outs, es, opt, nx, hst, hrev, _, he, _⟩ := loopback_shape b fb r h
  refine ⟨state, hst, fun n c hp hc t => ?_⟩
  have hmem : identityEdge n c ∈ r.edges := by
    rw [he]; exact List.mem_append.2 (Or.inr (reverse_passes _ _ _ _ _ _ _ hrev n c hp))
  exact den_identity_edge (loopback_single b fb r h) hmem hc t

/-- a layer that inherits the name and does not invert it hands the incoming node on (non-vacuity of `Passes`) -/
theorem node_layer_passes (bi bo : List BNode) (inh : NameSet) (outs : List BNode) (next : Nat) (n : BNode) (hn : n ∈ outs)
    (hi : inh.mem n.name = true) (hb : (names bo).contains n.name = false) :
    ∃ c, c.name = n.name ∧ Passes (.bag bi bo inh) outs next n c :=
  bag_pass_exists bi bo inh outs next n hn hi hb

/-- **Node level: the last layer's inverse sees what `f` returned.**  The usual shape `layer._decorate(...)(f)`: the context of `f`
hands its output `o` on as the clone `c` (`Passes`), the layer's backward input `n` of the same name is stitched to `c` (`Feeds`): in
the decorated graph `n` computes exactly what `o` computes in `pipeline >> f`. -/
theorem node_decorated_input_is_f_output (b fb r : Bag) (h : b.loopbackWith fb = .ok r) :
    ∃ state es, connectBags b fb = .ok state ∧ r.edges = state.edges ++ es ∧
      ∀ n c o, Feeds state.ctx state.outputs state.next n c → Passes state.ctx state.outputs state.next o c →
        n ∉ r.inputs → c ∉ r.inputs → ¬ Down r.edges (es.map (·.out)) o → ∀ t, BDen r n t ↔ BDen state o t := by
  obtain ⟨state, outs, es, opt, nx, hst, hrev, _, he, hi⟩ := loopback_shape b fb r h
  refine ⟨state, es, hst, he, fun n c o hf hp hn hc hd t => ?_⟩
  have hs := loopback_single b fb r h
  have h1 : identityEdge c n ∈ r.edges := by
    rw [he]; exact List.mem_append.2 (Or.inr (reverse_feeds _ _ _ _ _ _ _ hrev n c hf))
  have h2 : identityEdge o c ∈ r.edges := by
    rw [he]; exact List.mem_append.2 (Or.inr (reverse_passes _ _ _ _ _ _ _ hrev o c hp))
  rw [den_identity_edge hs h1 hn t, den_identity_edge hs h2 hc t]
  exact den_extension hi he hd t

/-- non-vacuity (a test): one layer inverting `a`, decorated around an `f` returning `a` (node 20): the clone 30 of `f`'s output is
handed on by the context of `f` and feeds the layer's backward input 7 -/
example :
    Passes (.chain (.bag [⟨7, "a"⟩] [⟨8, "a"⟩] (.fin [])) (.bag [] [] (.fin ["a"]))) [⟨20, "a"⟩] 30 ⟨20, "a"⟩ ⟨30, "a"⟩ ∧
    Feeds (.chain (.bag [⟨7, "a"⟩] [⟨8, "a"⟩] (.fin [])) (.bag [] [] (.fin ["a"]))) [⟨20, "a"⟩] 30 ⟨7, "a"⟩ ⟨30, "a"⟩ := by
  constructor
  · refine .later (.bag ?_ ?_)
    · decide +kernel
    · have : (cloneEdges false (List.filter (fun m => (NameSet.fin ["a"]).mem m.name && !(names []).contains m.name)
          [(⟨20, "a"⟩ : BNode)]) 30).2.1 = [identityEdge ⟨20, "a"⟩ ⟨30, "a"⟩] := by rfl
      rw [this]; exact List.mem_singleton.2 rfl
  · exact .earlier (o1 := [⟨30, "a"⟩]) (e1 := [identityEdge ⟨20, "a"⟩ ⟨30, "a"⟩]) (p1 := [⟨30, "a"⟩]) (n1 := 31) (by rfl)
      (.bag (by simp) (by decide +kernel))

/-- **Node level, from the class body: what an inverse field's backward argument receives.**  For a layer built by the factory, the node of
the public argument `a` of an inverse field is fed, when the layer's context is reversed on the nodes `outs` that came in, by the node of `outs`
named `a` (`Feeds`) - so (`node_loopback_backward_input`) in the decorated graph the inverse is applied to what came back under the
names of its arguments, and (`C02.node_factory_field` for private arguments) to the layer's own forward parameters. -/
theorem node_factory_layer_feeds {r : RawLayer} {b : Bag} (h : r.factory = .ok b) (a : String) (n o : BNode)
    (hn : nodeAt r.layout.biBase r.layout.backIn a = some n) (outs : List BNode) (next : Nat) (ho : byName outs a = some o) :
    Feeds b.ctx outs next n o := by
  obtain ⟨back, hctx⟩ := factory_ctx h
  rw [hctx]
  obtain ⟨i, _, _, rfl⟩ := nodeAt_some hn
  exact .bag (nodeAt_mem hn) ho

/-- **Node level: `layer._decorate(...)(f)` for one layer - the inverse sees what `f` returned.**  Let the state `pipeline >> f` have the context
`ChainContext(layer, f)` with the layer's `BagContext(bi, bo, inh)` and the context of the wrapped function (which inherits the names `inhf` it
returns), and let its outputs have pairwise different names.  For every backward input `n` of the layer whose name `f` returns (`o` is that
output of the state), the decorated graph feeds `n` from `o` through the clone the function's context hands on: `n` computes exactly what `o`
computes in `pipeline >> f` - for every well-formed pipeline and every `f`, no feeding relation assumed. -/
theorem node_decorated_layer_input (b fb r : Bag) (h : b.loopbackWith fb = .ok r) :
    ∃ state es, connectBags b fb = .ok state ∧ r.edges = state.edges ++ es ∧
      ∀ (bi bo : List BNode) (inh inhf : NameSet) (n o : BNode),
        state.ctx = .chain (.bag bi bo inh) (.bag [] [] inhf) → (names state.outputs).Nodup →
        n ∈ bi → o ∈ state.outputs → o.name = n.name → inhf.mem n.name = true →
        ∃ c, c.name = n.name ∧ (n ∉ r.inputs → c ∉ r.inputs → ¬ Down r.edges (es.map (·.out)) o → ∀ t, BDen r n t ↔ BDen state o t) := by
  obtain ⟨state, es, hst, he, hall⟩ := node_decorated_input_is_f_output b fb r h
  refine ⟨state, es, hst, he, ?_⟩
  intro bi bo inh inhf n o hctx hnd hn ho hname hinh
  -- the clone the function's context creates for `o`
  obtain ⟨c, hcn, hpass⟩ := bag_pass_exists [] [] inhf state.outputs state.next o ho (by rw [hname]; exact hinh) (by simp [names])
  have hrev := fn_ctx_reverse inhf state.outputs state.next hnd
  -- the clones have pairwise different names (they are the names of a sublist of the outputs)
  cases hpass with
  | bag hc hedge =>
    have hcl_names := cloneEdges_names false (state.outputs.filter fun m => inhf.mem m.name && !(names []).contains m.name) state.next
    have hnd_cl : (names (cloneEdges false (state.outputs.filter fun m => inhf.mem m.name && !(names []).contains m.name) state.next).1).Nodup := by
      rw [hcl_names, names_filter state.outputs fun x => inhf.mem x && !(names ([] : List BNode)).contains x]
      exact List.Nodup.sublist List.filter_sublist hnd
    have hby : byName (cloneEdges false (state.outputs.filter fun m => inhf.mem m.name && !(names []).contains m.name) state.next).1 n.name = some c := by
      have := byName_of_mem (names_inj_of_nodup hnd_cl) hc
      rw [hcn.trans hname] at this
      exact this
    refine ⟨c, hcn.trans hname, fun hnr hcr hd t => ?_⟩
    refine hall n c o ?_ ?_ hnr hcr hd t
    · rw [hctx]; exact .earlier hrev (.bag hn hby)
    · rw [hctx]; exact .later (.bag hc hedge)

/-- **Node level: the decorated function returns the inverse applied to its arguments.**  An edge of `pipeline >> f` (an inverse field of a layer:
a function edge) whose output is an output of the decorated graph computes there its function over whatever its argument nodes compute there -
`node_decorated_layer_input` says what that is for the backward inputs (what `f` returned), `node_loopback_forward_unchanged` for the layer's own
forward parameters (what they computed in the forward pass): together `inverse(f(forward fields), forward parameters)`. -/
theorem node_decorated_field (b fb r : Bag) (h : b.loopbackWith fb = .ok r) :
    ∃ state es, connectBags b fb = .ok state ∧ r.edges = state.edges ++ es ∧
      ∀ (e : BEdge) (ts : List BTerm), e ∈ state.edges → e.edge ≠ .identity → e.out ∈ r.outputs → e.out ∉ r.inputs →
        e.ins.length = ts.length → (∀ q ∈ e.ins.zip ts, BDen r q.1 q.2) → r.Field e.out.name (.node e.edge ts) := by
  obtain ⟨state, outs, es, opt, nx, hst, _, _, he, _⟩ := loopback_shape b fb r h
  refine ⟨state, es, hst, he, fun e ts hmem hk hout hni hlen hargs => ?_⟩
  exact ⟨e.out, hout, rfl, .edge e hni (by rw [he]; exact List.mem_append.2 (Or.inl hmem)) rfl hk hlen hargs⟩

/-- the inverse fields of the first layer are outputs of the decorated graph -/
theorem node_decorated_outputs (b fb r : Bag) (h : b.loopbackWith fb = .ok r) :
    ∃ state, connectBags b fb = .ok state ∧
      ∀ (bi bo : List BNode) (inh : NameSet) (c : BCtx), state.ctx = .chain (.bag bi bo inh) c → ∀ n ∈ bo, n ∈ r.outputs := by
  obtain ⟨state, outs, es, opt, nx, hst, hrev, ho, _, _⟩ := loopback_shape b fb r h
  refine ⟨state, hst, fun bi bo inh c hctx n hn => ?_⟩
  rw [hctx] at hrev
  rw [ho]
  exact reverse_chain_bag_outputs bi bo inh c _ _ _ _ _ _ hrev n hn

/-- `node_decorated_layer_input` with the position of the clone: it is a fresh node (at or above the counter of the state), so it is no input of
the decorated graph as soon as the inputs lie below the counter (which `Bag.WF` of the state says) -/
theorem node_decorated_layer_input_fresh (b fb r : Bag) (h : b.loopbackWith fb = .ok r) :
    ∃ state es, connectBags b fb = .ok state ∧ r.edges = state.edges ++ es ∧ r.inputs = state.inputs ∧
      ∀ (bi bo : List BNode) (inh inhf : NameSet) (n o : BNode),
        state.ctx = .chain (.bag bi bo inh) (.bag [] [] inhf) → (names state.outputs).Nodup →
        n ∈ bi → o ∈ state.outputs → o.name = n.name → inhf.mem n.name = true →
        (∀ m ∈ state.inputs, m.id < state.next) → n ∉ r.inputs → ¬ Down r.edges (es.map (·.out)) o → ∀ t, BDen r n t ↔ BDen state o t := by
  obtain ⟨state, es, hst, he, hall⟩ := node_decorated_input_is_f_output b fb r h
  obtain ⟨state', _, _, _, _, hst', _, _, _, hin⟩ := loopback_shape b fb r h
  have : state' = state := by rw [hst] at hst'; injection hst' with h'; exact h'.symm
  subst this
  refine ⟨state', es, hst, he, hin, ?_⟩
  intro bi bo inh inhf n o hctx hnd hn ho hname hinh hlt hnr hd t
  obtain ⟨c, hcn, hpass⟩ := bag_pass_exists [] [] inhf state'.outputs state'.next o ho (by rw [hname]; exact hinh) (by simp [names])
  have hrev := fn_ctx_reverse inhf state'.outputs state'.next hnd
  cases hpass with
  | bag hc hedge =>
    have hcl_names := cloneEdges_names false (state'.outputs.filter fun m => inhf.mem m.name && !(names []).contains m.name) state'.next
    have hnd_cl : (names (cloneEdges false (state'.outputs.filter fun m => inhf.mem m.name && !(names []).contains m.name) state'.next).1).Nodup := by
      rw [hcl_names, names_filter state'.outputs fun x => inhf.mem x && !(names ([] : List BNode)).contains x]
      exact List.Nodup.sublist List.filter_sublist hnd
    have hby : byName (cloneEdges false (state'.outputs.filter fun m => inhf.mem m.name && !(names []).contains m.name) state'.next).1 n.name = some c := by
      have := byName_of_mem (names_inj_of_nodup hnd_cl) hc
      rw [hcn.trans hname] at this
      exact this
    have hfresh : state'.next ≤ c.id := ((cloneEdges_spec false _ state'.next).2.2.2.1 c hc).1
    have hcr : c ∉ r.inputs := by
      rw [hin]
      intro hmem
      have := hlt c hmem
      omega
    refine hall n c o ?_ ?_ hnr hcr hd t
    · rw [hctx]; exact .earlier hrev (.bag hn hby)
    · rw [hctx]; exact .later (.bag hc hedge)

/-- **Node level: one layer with a one-argument inverse, in closed form.**  `layer._decorate(x, x)(f)`: if the layer's inverse field `x` is the edge
`e` over its backward input `n` alone, and `f`'s output `x` computes `t` in `pipeline >> f`, then the decorated graph exposes `x` computing
`inverse(t)` - forward through the layer, then `f`, then the inverse - for every well-formed pipeline, every `f`, every input. -/
theorem node_decorated_single_inverse (b fb r : Bag) (h : b.loopbackWith fb = .ok r) :
    ∃ state es, connectBags b fb = .ok state ∧ r.edges = state.edges ++ es ∧
      ∀ (bi bo : List BNode) (inh inhf : NameSet) (e : BEdge) (n o : BNode) (t : BTerm),
        state.ctx = .chain (.bag bi bo inh) (.bag [] [] inhf) → (names state.outputs).Nodup → (∀ m ∈ state.inputs, m.id < state.next) →
        e ∈ state.edges → e.edge ≠ .identity → e.ins = [n] → e.out ∈ bo → e.out ∉ state.inputs →
        n ∈ bi → n ∉ state.inputs → o ∈ state.outputs → o.name = n.name → inhf.mem n.name = true →
        ¬ Down r.edges (es.map (·.out)) o → BDen state o t →
        r.Field e.out.name (.node e.edge [t]) := by
  obtain ⟨state, es, hst, he, hin, hinput⟩ := node_decorated_layer_input_fresh b fb r h
  obtain ⟨state2, es2, hst2, he2, hfield⟩ := node_decorated_field b fb r h
  obtain ⟨state3, hst3, houts⟩ := node_decorated_outputs b fb r h
  have e2 : state2 = state := by rw [hst] at hst2; injection hst2 with h'; exact h'.symm
  have e3 : state3 = state := by rw [hst] at hst3; injection hst3 with h'; exact h'.symm
  subst e2; subst e3
  refine ⟨state3, es, hst, he, ?_⟩
  intro bi bo inh inhf e n o t hctx hnd hlt hmem hk hins hout hoi hn hni ho hname hinh hd hden
  have hnr : n ∉ r.inputs := by rw [hin]; exact hni
  have hbn : BDen r n t := (hinput bi bo inh inhf n o hctx hnd hn ho hname hinh hlt hnr hd t).2 hden
  refine hfield e [t] hmem hk (houts bi bo inh _ hctx e.out hout) (by rw [hin]; exact hoi) (by rw [hins]; rfl) ?_
  intro q hq
  rw [hins] at hq
  simp only [List.zip_cons_cons, List.zip_nil_right, List.mem_singleton] at hq
  subst hq
  exact hbn

/-- a layer `def a(a): ...; @inverse def a(a): ...` written as a container: input 0, forward output 1, backward input 2, backward output 3 -/
def exLayerBag : Bag :=
  { inputs := [⟨0, "a"⟩], outputs := [⟨1, "a"⟩],
    edges := [{ edge := .function "L.a" [] [], ins := [⟨0, "a"⟩], out := ⟨1, "a"⟩ },
              { edge := .function "L.inv.a" [] [], ins := [⟨2, "a"⟩], out := ⟨3, "a"⟩ }],
    virt := .fin [], persistent := [], optional := [], ctx := .bag [⟨2, "a"⟩] [⟨3, "a"⟩] (.fin []), next := 4 }

/-- non-vacuity (a test): the layer above decorated around `f(a) -> a`: the decorated graph exists, its output `a` is the layer's backward output,
and the executable term function (`Bag.term`, sound by `term_sound`) computes `L.inv.a(F(L.a(a)))` for it: forward, then `f`, then the inverse -/
example :
    (match functionToBag "F" ["a"] ["a"] true with
     | .ok fb =>
       (match exLayerBag.loopbackWith fb with
        | .ok r => r.outputs.map (·.name) == ["a"] &&
            (match r.outputs.map fun o => r.term 20 o with
             | [some (.node (.function "L.inv.a" [] []) [.node (.function "F" [] []) [.node (.function "L.a" [] []) [.inp "a"]]])] => true
             | _ => false)
        | .error _ => false)
     | .error _ => false) = true := by
  decide +kernel

/-- a second layer of the same shape with other functions -/
def exLayerBag2 : Bag :=
  { inputs := [⟨0, "a"⟩], outputs := [⟨1, "a"⟩],
    edges := [{ edge := .function "M.a" [] [], ins := [⟨0, "a"⟩], out := ⟨1, "a"⟩ },
              { edge := .function "M.inv.a" [] [], ins := [⟨2, "a"⟩], out := ⟨3, "a"⟩ }],
    virt := .fin [], persistent := [], optional := [], ctx := .bag [⟨2, "a"⟩] [⟨3, "a"⟩] (.fin []), next := 4 }

/-- non-vacuity (a test): two layers, `L` then `M`, decorated around `f`: forward `L.a`, `M.a`, then `f`, then the inverses in REVERSE order -
`L.inv.a(M.inv.a(F(M.a(L.a(a)))))` -/
example :
    (match connectBags exLayerBag exLayerBag2, functionToBag "F" ["a"] ["a"] true with
     | .ok chain, .ok fb =>
       (match chain.loopbackWith fb with
        | .ok r =>
            (match r.outputs.map fun o => r.term 40 o with
             | [some (.node (.function "L.inv.a" [] []) [.node (.function "M.inv.a" [] []) [.node (.function "F" [] [])
                  [.node (.function "M.a" [] []) [.node (.function "L.a" [] []) [.inp "a"]]]]])] => true
             | _ => false)
        | .error _ => false)
     | _, _ => false) = true := by
  decide +kernel

/-- what an argument node of an inverse field computes in the decorated graph, given what the nodes of `pipeline >> f` compute: a backward input of
the layer computes what `f` returned under its name; any other node that is not downstream of the backward pass (a private parameter of the layer,
computed in the forward pass) computes what it computed there -/
inductive InvArg (state r : Bag) (es : List BEdge) (bi : List BNode) (inhf : NameSet) : BNode → BTerm → Prop
  | back {n o t} : n ∈ bi → n ∉ state.inputs → o ∈ state.outputs → o.name = n.name → inhf.mem n.name = true →
      ¬ Down r.edges (es.map (·.out)) o → BDen state o t → InvArg state r es bi inhf n t
  | fwd {n t} : ¬ Down r.edges (es.map (·.out)) n → BDen state n t → InvArg state r es bi inhf n t

/-- **Node level: one decorated layer, every shape of inverse.**  `layer._decorate(...)(f)`: an inverse field of the layer - the edge `e` over
backward inputs and the layer's own private parameters, in any number and order - is an output of the decorated graph and computes its function
over: what `f` returned under the names of its backward inputs, and its private parameters AS COMPUTED IN THE FORWARD PASS (`InvArg`).  Forward
through the layer, then `f`, then the inverse, the inverse seeing the parameters of its own layer - for every well-formed pipeline and `f`. -/
theorem node_decorated_inverse (b fb r : Bag) (h : b.loopbackWith fb = .ok r) :
    ∃ state es, connectBags b fb = .ok state ∧ r.edges = state.edges ++ es ∧
      ∀ (bi bo : List BNode) (inh inhf : NameSet) (e : BEdge) (ts : List BTerm),
        state.ctx = .chain (.bag bi bo inh) (.bag [] [] inhf) → (names state.outputs).Nodup → (∀ m ∈ state.inputs, m.id < state.next) →
        e ∈ state.edges → e.edge ≠ .identity → e.out ∈ bo → e.out ∉ state.inputs → e.ins.length = ts.length →
        (∀ q ∈ e.ins.zip ts, InvArg state r es bi inhf q.1 q.2) →
        r.Field e.out.name (.node e.edge ts) := by
  obtain ⟨state, es, hst, he, hin, hinput⟩ := node_decorated_layer_input_fresh b fb r h
  obtain ⟨state2, es2, hst2, he2, hfield⟩ := node_decorated_field b fb r h
  obtain ⟨state3, hst3, houts⟩ := node_decorated_outputs b fb r h
  have e2 : state2 = state := by rw [hst] at hst2; injection hst2 with h'; exact h'.symm
  have e3 : state3 = state := by rw [hst] at hst3; injection hst3 with h'; exact h'.symm
  subst e2; subst e3
  refine ⟨state3, es, hst, he, ?_⟩
  intro bi bo inh inhf e ts hctx hnd hlt hmem hk hout hoi hlen hargs
  refine hfield e ts hmem hk (houts bi bo inh _ hctx e.out hout) (by rw [hin]; exact hoi) hlen ?_
  intro q hq
  cases hargs q hq with
  | back hn hni ho hname hinh hd hden =>
    exact (hinput bi bo inh inhf _ _ hctx hnd hn ho hname hinh hlt (by rw [hin]; exact hni) hd _).2 hden
  | fwd hd hden =>
    exact (den_extension hin he hd _).2 hden

/-- **Node level: two layers - the earlier layer's inverse receives what the later layer's inverse returned.**  For the context
`ChainContext(ChainContext(L1, L2), f)`: reversing it, the backward input `n` of the EARLIER layer `L1` is fed by the backward output `o2` of the
LATER layer `L2` that has its name (`L2` has an inverse field of that name).  In the decorated graph `n` computes exactly what `o2` computes:
the inverses run in reverse order, each on the result of the one after it. -/
theorem node_two_layers_reverse_order (b fb r : Bag) (h : b.loopbackWith fb = .ok r) :
    ∃ state, connectBags b fb = .ok state ∧
      ∀ (bi1 bo1 bi2 bo2 : List BNode) (inh1 inh2 inhf : NameSet) (n o2 : BNode),
        state.ctx = .chain (.chain (.bag bi1 bo1 inh1) (.bag bi2 bo2 inh2)) (.bag [] [] inhf) →
        (names state.outputs).Nodup → (names bo2).Nodup →
        ((names bo2) ++ names (cloneEdges false (state.outputs.filter fun m => inhf.mem m.name && !(names []).contains m.name) state.next).1 |>.Nodup) →
        n ∈ bi1 → o2 ∈ bo2 → o2.name = n.name → n ∉ r.inputs →
        ∀ t, BDen r n t ↔ BDen r o2 t := by
  obtain ⟨state, hst, hback⟩ := node_loopback_backward_input b fb r h
  refine ⟨state, hst, ?_⟩
  intro bi1 bo1 bi2 bo2 inh1 inh2 inhf n o2 hctx hnd hbo2 hnd2 hn ho2 hname hnr t
  refine hback n o2 ?_ hnr t
  rw [hctx]
  -- the function's context is reversed first, then L2 on what it returned, then L1 on what L2 returned
  have hrevF := fn_ctx_reverse inhf state.outputs state.next hnd
  have hndF : (names (cloneEdges false (state.outputs.filter fun m => inhf.mem m.name && !(names []).contains m.name) state.next).1).Nodup := by
    rw [cloneEdges_names, names_filter state.outputs fun x => inhf.mem x && !(names ([] : List BNode)).contains x]
    exact List.Nodup.sublist List.filter_sublist hnd
  have hrev2 := bag_ctx_reverse bi2 bo2 inh2 _ (cloneEdges false (state.outputs.filter fun m => inhf.mem m.name && !(names []).contains m.name) state.next).2.2 hndF hbo2
  refine .earlier hrevF (.earlier hrev2 (.bag hn ?_))
  -- among what L2 returned, the node named like `n` is L2's own backward output `o2` (names are pairwise different there)
  have hmem : o2 ∈ bo2 ++ (cloneEdges false
      ((cloneEdges false (state.outputs.filter fun m => inhf.mem m.name && !(names []).contains m.name) state.next).1.filter
        fun m => inh2.mem m.name && !(names bo2).contains m.name)
      (cloneEdges false (state.outputs.filter fun m => inhf.mem m.name && !(names []).contains m.name) state.next).2.2).1 :=
    List.mem_append.2 (Or.inl ho2)
  have hinj : (names (bo2 ++ (cloneEdges false
      ((cloneEdges false (state.outputs.filter fun m => inhf.mem m.name && !(names []).contains m.name) state.next).1.filter
        fun m => inh2.mem m.name && !(names bo2).contains m.name)
      (cloneEdges false (state.outputs.filter fun m => inhf.mem m.name && !(names []).contains m.name) state.next).2.2).1)).Nodup := by
    simp only [names, List.map_append]
    have hcl := cloneEdges_names false
      ((cloneEdges false (state.outputs.filter fun m => inhf.mem m.name && !(names []).contains m.name) state.next).1.filter
        fun m => inh2.mem m.name && !(names bo2).contains m.name)
      (cloneEdges false (state.outputs.filter fun m => inhf.mem m.name && !(names []).contains m.name) state.next).2.2
    simp only [names] at hcl hnd2 ⊢
    rw [hcl]
    refine (List.nodup_append.1 hnd2).1 |> fun h1 => List.nodup_append.2 ⟨h1, ?_, ?_⟩
    · exact List.Nodup.sublist (List.Sublist.map _ List.filter_sublist) (List.nodup_append.1 hnd2).2.1
    · intro a ha b' hb'
      have hb'' : b' ∈ List.map (fun x => x.name) (cloneEdges false (state.outputs.filter fun m => inhf.mem m.name && !(names []).contains m.name) state.next).1 := by
        obtain ⟨x, hx, rfl⟩ := List.mem_map.1 hb'
        exact List.mem_map.2 ⟨x, (List.mem_filter.1 hx).1, rfl⟩
      exact (List.nodup_append.1 hnd2).2.2 a ha b' hb''
  have := byName_of_mem (names_inj_of_nodup hinj) hmem
  rw [hname] at this
  exact this

end CM.C10
