/-
  C10 (continued) — chains of ANY number of layers: the inverses run in reverse order.
-/
import CM.Props.C10
import CM.Proofs.ChainRev
import CM.Proofs.ChainInv
namespace CM.C10
open CM

/-- **Node level, any number of layers: `Context.reverse` of the whole chain in closed form.**  For layers `ls` (last layer first) none of
which merely hands a name on (`PlainChain`): reversing `ChainContext(...ChainContext(L1, L2)..., Ln)` on the nodes that came in returns the backward
outputs of the FIRST layer, creates no nodes, and its new edges are exactly: the stitches of the last layer to what came in, then of each
earlier layer to the backward outputs of the layer right after it (`chainStitches`) - for chains of every length. -/
theorem node_chain_reverse_closed (ls : List CtxLayer) (outs : List BNode) (next : Nat) (hp : PlainChain ls outs) :
    (chainCtx ls).reverse outs next = .ok (chainOuts ls outs, chainStitches ls outs, [], next) :=
  chain_reverse_closed ls outs next hp

/-- **Node level, any number of layers: every layer's inverse receives what the inverse of the layer right after it returned.**  The decorated
graph of `f` over a chain whose context is `ChainContext(chain of ls, f)`: wherever in the chain two adjacent layers `l` (earlier) and `later`
stand, the backward input `n` of `l` computes exactly what the backward output `o` of `later` that has its name computes - however many layers
come before and after them. -/
theorem node_chain_reverse_order (b fb r : Bag) (h : b.loopbackWith fb = .ok r) :
    ∃ state, connectBags b fb = .ok state ∧
      ∀ (pre : List CtxLayer) (later l : CtxLayer) (post : List CtxLayer) (inhf : NameSet) (n o : BNode),
        state.ctx = .chain (chainCtx (pre ++ later :: l :: post)) (.bag [] [] inhf) →
        (names state.outputs).Nodup →
        PlainChain (pre ++ later :: l :: post)
          (cloneEdges false (state.outputs.filter fun m => inhf.mem m.name && !(names []).contains m.name) state.next).1 →
        n ∈ l.bi → o ∈ later.bo → o.name = n.name → n ∉ r.inputs →
        ∀ t, BDen r n t ↔ BDen r o t := by
  obtain ⟨state, hst, hback⟩ := node_loopback_backward_input b fb r h
  refine ⟨state, hst, ?_⟩
  intro pre later l post inhf n o hctx hnd hp hn ho hname hnr t
  refine hback n o ?_ hnr t
  rw [hctx]
  exact .earlier (fn_ctx_reverse inhf state.outputs state.next hnd) (chain_feeds pre later l post _ _ n o hp hn ho hname)

/-- non-vacuity (a test): three layers inverting `a`, reversed on node 20: the closed form, and the premises of the theorems hold -/
def exLs : List CtxLayer :=
  [⟨[⟨11, "a"⟩], [⟨12, "a"⟩], .fin []⟩, ⟨[⟨7, "a"⟩], [⟨8, "a"⟩], .fin []⟩, ⟨[⟨3, "a"⟩], [⟨4, "a"⟩], .fin []⟩]

example : (chainCtx exLs).reverse [⟨20, "a"⟩] 30 =
    .ok ([⟨4, "a"⟩], [identityEdge ⟨20, "a"⟩ ⟨11, "a"⟩, identityEdge ⟨12, "a"⟩ ⟨7, "a"⟩, identityEdge ⟨8, "a"⟩ ⟨3, "a"⟩], [], 30) := by rfl

example : PlainChain exLs [⟨20, "a"⟩] := by
  simp [exLs, PlainChain, names, NameSet.mem]

example : Feeds (chainCtx exLs) [⟨20, "a"⟩] 30 ⟨3, "a"⟩ ⟨8, "a"⟩ :=
  chain_feeds [⟨[⟨11, "a"⟩], [⟨12, "a"⟩], .fin []⟩] ⟨[⟨7, "a"⟩], [⟨8, "a"⟩], .fin []⟩ ⟨[⟨3, "a"⟩], [⟨4, "a"⟩], .fin []⟩ [] _ _ _ _
    (by simp [PlainChain, names, NameSet.mem]) (by simp) (by simp) rfl


/-- **Node level, any number of layers: the decorated graph computes `inv_1(inv_2(... inv_n(t)))`.**  A chain of layers `L1 ... Ln` each with an
inverse field of the same name over its backward input and any number of the layer's own parameters (`InvLayer.params`, computing `pts` in the decorated
graph - by `node_loopback_forward_unchanged` what they computed in the forward pass; `inv_k(s)` then reads `g_k(s, pts_k...)`), decorated around `f`: if the LAST layer's backward input computes `t` (what `f` returned under that
name: `node_loopback_last_layer_input`), the backward output of the FIRST layer computes the inverses applied one after the other, the last layer's
first - as ONE term, for chains of every length. -/
theorem node_chain_inverse_term (b fb r : Bag) (h : b.loopbackWith fb = .ok r) :
    ∃ state, connectBags b fb = .ok state ∧
      ∀ (l0 : InvLayer) (ls : List InvLayer) (inhf : NameSet) (t : BTerm),
        state.ctx = .chain (chainCtx ((l0 :: ls).map InvLayer.ctx)) (.bag [] [] inhf) →
        (names state.outputs).Nodup →
        PlainChain ((l0 :: ls).map InvLayer.ctx)
          (cloneEdges false (state.outputs.filter fun m => inhf.mem m.name && !(names []).contains m.name) state.next).1 →
        Wired r (l0 :: ls) → (∀ l ∈ l0 :: ls, l.n ∉ r.inputs ∧ l.n.name = l0.n.name ∧ l.o.name = l0.n.name) →
        BDen r l0.n t → BDen r (lastOut l0 ls) (invTerm (l0 :: ls) t) := by
  obtain ⟨state, hst, hord⟩ := node_chain_reverse_order b fb r h
  refine ⟨state, hst, ?_⟩
  intro l0 ls inhf t hctx hnd hp hw hnames hden
  refine inv_chain_den ls l0 t hw (linked_of_splits _ ?_) hden
  intro pre a b' post he s hs
  have hb' : b' ∈ l0 :: ls := by rw [he]; simp
  have ha : a ∈ l0 :: ls := by rw [he]; simp
  have hmap : (l0 :: ls).map InvLayer.ctx = pre.map InvLayer.ctx ++ a.ctx :: b'.ctx :: post.map InvLayer.ctx := by
    rw [he]; simp
  rw [hmap] at hctx hp
  exact (hord (pre.map InvLayer.ctx) a.ctx b'.ctx (post.map InvLayer.ctx) inhf b'.n a.o hctx hnd hp
    (by simp [InvLayer.ctx]) (by simp [InvLayer.ctx]) (by rw [(hnames a ha).2.2, (hnames b' hb').2.1]) (hnames b' hb').1 s).2 hs

/-- a third layer of the same shape -/
def exLayerBag3 : Bag :=
  { inputs := [⟨0, "a"⟩], outputs := [⟨1, "a"⟩],
    edges := [{ edge := .function "N.a" [] [], ins := [⟨0, "a"⟩], out := ⟨1, "a"⟩ },
              { edge := .function "N.inv.a" [] [], ins := [⟨2, "a"⟩], out := ⟨3, "a"⟩ }],
    virt := .fin [], persistent := [], optional := [], ctx := .bag [⟨2, "a"⟩] [⟨3, "a"⟩] (.fin []), next := 4 }

/-- non-vacuity (a test): three layers `L`, `M`, `N` decorated around `f`: the context of the connected state is a `chainCtx` of three layers under the
function's context, and the decorated graph computes `L.inv.a(M.inv.a(N.inv.a(F(N.a(M.a(L.a(a)))))))` -/
example :
    (match connectBags exLayerBag exLayerBag2 with
     | .ok lm =>
       (match connectBags lm exLayerBag3, functionToBag "F" ["a"] ["a"] true with
        | .ok chain, .ok fb =>
          (match chain.ctx with
           | .chain (.chain (.bag _ _ _) (.bag _ _ _)) (.bag _ _ _) => true
           | _ => false) &&
          (match chain.loopbackWith fb with
           | .ok r =>
               (match r.outputs.map fun o => r.term 60 o with
                | [some (.node (.function "L.inv.a" [] []) [.node (.function "M.inv.a" [] []) [.node (.function "N.inv.a" [] []) [.node (.function "F" [] [])
                     [.node (.function "N.a" [] []) [.node (.function "M.a" [] []) [.node (.function "L.a" [] []) [.inp "a"]]]]]]])] => true
                | _ => false)
           | .error _ => false)
        | _, _ => false)
     | .error _ => false) = true := by
  decide +kernel

/-- the term of the theorem for these three layers (last layer first), the middle one with a private parameter computing `pt` -/
example (t pt : BTerm) (n o p : BNode) (i : NameSet) :
    invTerm [{ n := n, o := o, g := .function "N.inv.a" [] [], inh := i },
             { n := n, o := o, g := .function "M.inv.a" [] [], inh := i, params := [p], pts := [pt] },
             { n := n, o := o, g := .function "L.inv.a" [] [], inh := i }] t =
      .node (.function "L.inv.a" [] []) [.node (.function "M.inv.a" [] []) [.node (.function "N.inv.a" [] []) [t], pt]] := rfl

/-- a graph of two inverse edges joined by an identity edge, the second one also reading the node 0 as a private parameter -/
def exInvGraph : Bag :=
  { inputs := [⟨0, "a"⟩], outputs := [⟨4, "a"⟩],
    edges := [{ edge := .function "N.inv.a" [] [], ins := [⟨0, "a"⟩], out := ⟨1, "a"⟩ }, identityEdge ⟨1, "a"⟩ ⟨2, "a"⟩,
              { edge := .function "M.inv.a" [] [], ins := [⟨2, "a"⟩, ⟨0, "a"⟩], out := ⟨4, "a"⟩ }],
    virt := .fin [], persistent := [], optional := [], ctx := .no, next := 5 }

/-- the premise `Wired` is satisfiable (a test) -/
example :
    Wired exInvGraph [{ n := ⟨0, "a"⟩, o := ⟨1, "a"⟩, g := .function "N.inv.a" [] [], inh := .fin [] },
                      { n := ⟨2, "a"⟩, o := ⟨4, "a"⟩, g := .function "M.inv.a" [] [], inh := .fin [], params := [⟨0, "a"⟩], pts := [.inp "a"] }] := by
  intro l hl
  simp only [List.mem_cons, List.not_mem_nil, or_false] at hl
  rcases hl with rfl | rfl
  · simp [InvLayer.edge, exInvGraph, identityEdge]
  · refine ⟨by simp [InvLayer.edge, exInvGraph, identityEdge], by simp, by simp [exInvGraph], rfl, ?_⟩
    intro q hq
    simp only [List.zip_cons_cons, List.zip_nil_right, List.mem_singleton] at hq
    subst hq
    exact BDen.input (b := exInvGraph) (n := ⟨0, "a"⟩) (by simp [exInvGraph])

/-- `inv_chain_den` applied (a test): with the link of the identity edge, the graph above computes `M.inv.a(N.inv.a(a), a)` at its output -/
example : BDen exInvGraph ⟨4, "a"⟩ (.node (.function "M.inv.a" [] []) [.node (.function "N.inv.a" [] []) [.inp "a"], .inp "a"]) := by
  have hin : BDen exInvGraph ⟨0, "a"⟩ (.inp "a") := BDen.input (b := exInvGraph) (n := ⟨0, "a"⟩) (by simp [exInvGraph])
  have hw : Wired exInvGraph [{ n := ⟨0, "a"⟩, o := ⟨1, "a"⟩, g := .function "N.inv.a" [] [], inh := .fin [] },
      { n := ⟨2, "a"⟩, o := ⟨4, "a"⟩, g := .function "M.inv.a" [] [], inh := .fin [], params := [⟨0, "a"⟩], pts := [.inp "a"] }] := by
    intro l hl
    simp only [List.mem_cons, List.not_mem_nil, or_false] at hl
    rcases hl with rfl | rfl
    · simp [InvLayer.edge, exInvGraph, identityEdge]
    · refine ⟨by simp [InvLayer.edge, exInvGraph, identityEdge], by simp, by simp [exInvGraph], rfl, ?_⟩
      intro q hq
      simp only [List.zip_cons_cons, List.zip_nil_right, List.mem_singleton] at hq
      subst hq
      exact hin
  have hl : Linked exInvGraph [{ n := ⟨0, "a"⟩, o := ⟨1, "a"⟩, g := .function "N.inv.a" [] [], inh := .fin [] },
      { n := ⟨2, "a"⟩, o := ⟨4, "a"⟩, g := .function "M.inv.a" [] [], inh := .fin [], params := [⟨0, "a"⟩], pts := [.inp "a"] }] := by
    refine ⟨fun s hs => ?_, trivial⟩
    exact BDen.ident (identityEdge ⟨1, "a"⟩ ⟨2, "a"⟩) (by simp [exInvGraph]) (by simp [exInvGraph]) rfl rfl rfl hs
  exact inv_chain_den _ _ _ hw hl hin

/-- **Node level, any number of layers: the LAST layer's backward input computes what `f` returned under its name.**  `node_decorated_layer_input_fresh`
for a chain of any length under the function's context. -/
theorem node_chain_last_layer_input (b fb r : Bag) (h : b.loopbackWith fb = .ok r) :
    ∃ state es, connectBags b fb = .ok state ∧ r.edges = state.edges ++ es ∧ r.inputs = state.inputs ∧
      ∀ (l : CtxLayer) (rest : List CtxLayer) (inhf : NameSet) (n o : BNode),
        state.ctx = .chain (chainCtx (l :: rest)) (.bag [] [] inhf) → (names state.outputs).Nodup →
        n ∈ l.bi → o ∈ state.outputs → o.name = n.name → inhf.mem n.name = true →
        (∀ m ∈ state.inputs, m.id < state.next) → n ∉ r.inputs → ¬ Down r.edges (es.map (·.out)) o → ∀ t, BDen r n t ↔ BDen state o t := by
  obtain ⟨state, es, hst, he, hall⟩ := node_decorated_input_is_f_output b fb r h
  obtain ⟨state', _, _, _, _, hst', _, _, _, hin⟩ := loopback_shape b fb r h
  have : state' = state := by rw [hst] at hst'; injection hst' with h'; exact h'.symm
  subst this
  refine ⟨state', es, hst, he, hin, ?_⟩
  intro l rest inhf n o hctx hnd hn ho hname hinh hlt hnr hd t
  obtain ⟨c, hcn, hpass⟩ := bag_pass_exists [] [] inhf state'.outputs state'.next o ho (by rw [hname]; exact hinh) (by simp [names])
  have hrev := fn_ctx_reverse inhf state'.outputs state'.next hnd
  cases hpass with
  | bag hc hedge =>
    have hcl_names := cloneEdges_names false (state'.outputs.filter fun m => inhf.mem m.name && !(names []).contains m.name) state'.next
    have hnd_cl : (names (cloneEdges false (state'.outputs.filter fun m => inhf.mem m.name && !(names []).contains m.name) state'.next).1).Nodup := by
      rw [hcl_names, names_filter state'.outputs fun x => inhf.mem x && !(names ([] : List BNode)).contains x]
      exact List.Nodup.sublist List.filter_sublist hnd
    have hby : byName (cloneEdges false (state'.outputs.filter fun m => inhf.mem m.name && !(names []).contains m.name) state'.next).1 n.name = some c := by
      have := byName_of_mem (names_inj_of_nodup hnd_cl) hc
      rw [hcn.trans hname] at this
      exact this
    have hfresh : state'.next ≤ c.id := ((cloneEdges_spec false _ state'.next).2.2.2.1 c hc).1
    have hcr : c ∉ r.inputs := by
      rw [hin]
      intro hmem
      have := hlt c hmem
      omega
    refine hall n c o ?_ ?_ hnr hcr hd t
    · rw [hctx]
      refine .earlier hrev ?_
      cases rest with
      | nil => exact .bag hn hby
      | cons q rest => exact .later (.bag hn hby)
    · rw [hctx]; exact .later (.bag hc hedge)

/-- **Node level, any number of layers, in closed form: forward, then `f`, then every inverse, the last layer's first.**  A chain `L1 ... Ln` of layers
with one-argument inverse fields of one name `x`, decorated around `f`: if `f`'s output `x` computes `t` in `pipeline >> f`, the backward output of the
FIRST layer computes `inv_1(inv_2(... inv_n(t)))` in the decorated graph - for chains of every length, every well-formed pipeline and every `f`. -/
theorem node_chain_decorated_term (b fb r : Bag) (h : b.loopbackWith fb = .ok r) :
    ∃ state es, connectBags b fb = .ok state ∧ r.edges = state.edges ++ es ∧
      ∀ (l0 : InvLayer) (ls : List InvLayer) (inhf : NameSet) (o : BNode) (t : BTerm),
        state.ctx = .chain (chainCtx ((l0 :: ls).map InvLayer.ctx)) (.bag [] [] inhf) →
        (names state.outputs).Nodup → (∀ m ∈ state.inputs, m.id < state.next) →
        PlainChain ((l0 :: ls).map InvLayer.ctx)
          (cloneEdges false (state.outputs.filter fun m => inhf.mem m.name && !(names []).contains m.name) state.next).1 →
        Wired r (l0 :: ls) → (∀ l ∈ l0 :: ls, l.n ∉ r.inputs ∧ l.n.name = l0.n.name ∧ l.o.name = l0.n.name) →
        o ∈ state.outputs → o.name = l0.n.name → inhf.mem l0.n.name = true → ¬ Down r.edges (es.map (·.out)) o →
        BDen state o t → BDen r (lastOut l0 ls) (invTerm (l0 :: ls) t) := by
  obtain ⟨state, es, hst, he, _, hlast⟩ := node_chain_last_layer_input b fb r h
  obtain ⟨state2, hst2, hterm⟩ := node_chain_inverse_term b fb r h
  have e2 : state2 = state := by rw [hst] at hst2; injection hst2 with h'; exact h'.symm
  subst e2
  refine ⟨state2, es, hst, he, ?_⟩
  intro l0 ls inhf o t hctx hnd hlt hp hw hnames ho hname hinh hd hden
  refine hterm l0 ls inhf t hctx hnd hp hw hnames ?_
  have hctx' : state2.ctx = .chain (chainCtx (l0.ctx :: ls.map InvLayer.ctx)) (.bag [] [] inhf) := by
    rw [hctx]; rfl
  exact (hlast l0.ctx (ls.map InvLayer.ctx) inhf l0.n o hctx' hnd (by simp [InvLayer.ctx]) ho hname hinh hlt
    (hnames l0 List.mem_cons_self).1 hd t).2 hden

/-- **... and that node is THE output of the decorated graph**: the decorated function returns exactly the one field `x`, computing
`inv_1(inv_2(... inv_n(t)))`. -/
theorem node_chain_decorated_field (b fb r : Bag) (h : b.loopbackWith fb = .ok r) :
    ∃ state es, connectBags b fb = .ok state ∧ r.edges = state.edges ++ es ∧
      ∀ (l0 : InvLayer) (ls : List InvLayer) (inhf : NameSet) (o : BNode) (t : BTerm),
        state.ctx = .chain (chainCtx ((l0 :: ls).map InvLayer.ctx)) (.bag [] [] inhf) →
        (names state.outputs).Nodup → (∀ m ∈ state.inputs, m.id < state.next) →
        PlainChain ((l0 :: ls).map InvLayer.ctx)
          (cloneEdges false (state.outputs.filter fun m => inhf.mem m.name && !(names []).contains m.name) state.next).1 →
        Wired r (l0 :: ls) → (∀ l ∈ l0 :: ls, l.n ∉ r.inputs ∧ l.n.name = l0.n.name ∧ l.o.name = l0.n.name) →
        o ∈ state.outputs → o.name = l0.n.name → inhf.mem l0.n.name = true → ¬ Down r.edges (es.map (·.out)) o →
        BDen state o t → r.outputs = [lastOut l0 ls] ∧ r.Field l0.n.name (invTerm (l0 :: ls) t) := by
  obtain ⟨state, es, hst, he, hall⟩ := node_chain_decorated_term b fb r h
  obtain ⟨state', outs, es', opt, nx, hst', hrev, hout, _, _⟩ := loopback_shape b fb r h
  have e2 : state' = state := by rw [hst] at hst'; injection hst' with h'; exact h'.symm
  subst e2
  refine ⟨state', es, hst, he, ?_⟩
  intro l0 ls inhf o t hctx hnd hlt hp hw hnames ho hname hinh hd hden
  have hden' := hall l0 ls inhf o t hctx hnd hlt hp hw hnames ho hname hinh hd hden
  have hcl := chain_reverse_closed _ _
    (cloneEdges false (state'.outputs.filter fun m => inhf.mem m.name && !(names []).contains m.name) state'.next).2.2 hp
  have hr := chain_reverse_eq (fn_ctx_reverse inhf state'.outputs state'.next hnd) hcl
  rw [hctx, hr] at hrev
  simp only [Except.ok.injEq, Prod.mk.injEq] at hrev
  have houts : r.outputs = [lastOut l0 ls] := by rw [hout, ← hrev.1, chainOuts_inv]
  refine ⟨houts, lastOut l0 ls, by rw [houts]; exact List.mem_singleton.2 rfl, ?_, hden'⟩
  -- the name of the first layer's backward output
  obtain ⟨l, hl, hlo⟩ := List.mem_map.1 (lastOut_mem ls l0)
  rw [← hlo]
  exact (hnames l hl).2.2

end CM.C10
