/-
  C10 (continued) — chains of ANY number of layers: the inverses run in reverse order.
-/
import CM.Props.C10
import CM.Proofs.ChainRev
namespace CM.C10
open CM

/-- **Node level, any number of layers: `Context.reverse` of the whole chain in closed form.**  For layers `ls` (last layer first) none of
which merely hands a name on (`PlainChain`): reversing `ChainContext(...ChainContext(L1, L2)..., Ln)` on the nodes that came in returns the backward
outputs of the FIRST layer, creates no nodes, and its new edges are exactly: the stitches of the last layer to what came in, then of each
earlier layer to the backward outputs of the layer right after it (`chainStitches`) - for chains of every length. -/
theorem node_chain_reverse_closed (ls : List CtxLayer) (outs : List BNode) (next : Nat) (hp : PlainChain ls outs) :
    (chainCtx ls).reverse outs next = .ok (chainOuts ls outs, chainStitches ls outs, [], next) :=
  chain_reverse_closed ls outs next hp

/-- **Node level, any number of layers: every layer's inverse receives what the inverse of the layer right after it returned.**  The decorated
graph of `f` over a chain whose context is `ChainContext(chain of ls, f)`: wherever in the chain two adjacent layers `l` (earlier) and `later`
stand, the backward input `n` of `l` computes exactly what the backward output `o` of `later` that has its name computes - however many layers
come before and after them. -/
theorem node_chain_reverse_order (b fb r : Bag) (h : b.loopbackWith fb = .ok r) :
    ∃ state, connectBags b fb = .ok state ∧
      ∀ (pre : List CtxLayer) (later l : CtxLayer) (post : List CtxLayer) (inhf : NameSet) (n o : BNode),
        state.ctx = .chain (chainCtx (pre ++ later :: l :: post)) (.bag [] [] inhf) →
        (names state.outputs).Nodup →
        PlainChain (pre ++ later :: l :: post)
          (cloneEdges false (state.outputs.filter fun m => inhf.mem m.name && !(names []).contains m.name) state.next).1 →
        n ∈ l.bi → o ∈ later.bo → o.name = n.name → n ∉ r.inputs →
        ∀ t, BDen r n t ↔ BDen r o t := by
  obtain ⟨state, hst, hback⟩ := node_loopback_backward_input b fb r h
  refine ⟨state, hst, ?_⟩
  intro pre later l post inhf n o hctx hnd hp hn ho hname hnr t
  refine hback n o ?_ hnr t
  rw [hctx]
  exact .earlier (fn_ctx_reverse inhf state.outputs state.next hnd) (chain_feeds pre later l post _ _ n o hp hn ho hname)

/-- non-vacuity (a test): three layers inverting `a`, reversed on node 20: the closed form, and the premises of the theorems hold -/
def exLs : List CtxLayer :=
  [⟨[⟨11, "a"⟩], [⟨12, "a"⟩], .fin []⟩, ⟨[⟨7, "a"⟩], [⟨8, "a"⟩], .fin []⟩, ⟨[⟨3, "a"⟩], [⟨4, "a"⟩], .fin []⟩]

example : (chainCtx exLs).reverse [⟨20, "a"⟩] 30 =
    .ok ([⟨4, "a"⟩], [identityEdge ⟨20, "a"⟩ ⟨11, "a"⟩, identityEdge ⟨12, "a"⟩ ⟨7, "a"⟩, identityEdge ⟨8, "a"⟩ ⟨3, "a"⟩], [], 30) := by rfl

example : PlainChain exLs [⟨20, "a"⟩] := by
  simp [exLs, PlainChain, names, NameSet.mem]

example : Feeds (chainCtx exLs) [⟨20, "a"⟩] 30 ⟨3, "a"⟩ ⟨8, "a"⟩ :=
  chain_feeds [⟨[⟨11, "a"⟩], [⟨12, "a"⟩], .fin []⟩] ⟨[⟨7, "a"⟩], [⟨8, "a"⟩], .fin []⟩ ⟨[⟨3, "a"⟩], [⟨4, "a"⟩], .fin []⟩ [] _ _ _ _
    (by simp [PlainChain, names, NameSet.mem]) (by simp) (by simp) rfl

end CM.C10
