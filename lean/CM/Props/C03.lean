/-
  C03 — One call evaluates each needed function exactly once and nothing else.

  Proved here, for every well-formed cache-free graph, every input and every fault schedule:

    * `at_most_once`: started with an empty log, a call of the compiled function (returning or raising) logs at most
      one user-function call per node.  This is the eviction-counter invariant with ghost completion flags
      (`CM.Proofs.Once.big_inv`): a generator of a node runs to completion at most once, because its memo entry
      stays in the scratch table while any child may still ask for it (`counts = 2 × paths` never runs out), and a
      node issues its call either from its hash generator (hash-by-value / impure wrappers) or from its value
      generator (plain functions), never from both.
    * `shared_intermediate`: the value of a product node is the tuple of the denotations of its parents: all
      requested fields see the same value of every shared node, impure ones included (their value carries the
      number of the call and the node, so a separate call produces a different value).

    * `only_needed`: every logged call was made on behalf of a node one of whose generators the cache-free evaluation
      of the requested output demands (`Need`, the closure of "the program of a demanded generator, run against the
      denotation's answers with every cache lookup a miss, issues this request").  `merge_branches`: a Merge
      (`SwitchEdge`) demands the key and the hash / value of the branch the key routes to, and no other branch.  With
      cache edges the machine executes a subset (a hit asks for nothing upstream).

    * `all_needed`: conversely, on a cache-free graph, when the call returns every user function that this evaluation
      demands is in the log (`CM.Proofs.Exactly.big_exact`: whatever is memoised has been fully evaluated).  Hence
      exactly the needed functions, each exactly once.
-/
import CM.Props.C01
import CM.Proofs.Needed
import CM.Proofs.Exactly
namespace CM.C03
open CM

/-- **At most once.** -/
theorem at_most_once (g : Graph) (ok : GraphOK g) (env : String → Option Val) (w : World) (hc : CallOK g env) (hlog : w.log = []) :
    ∃ N o steps, (∀ fuel, N ≤ fuel → g.call env w fuel = some (o, steps)) ∧ ∀ j, calls o.mem j ≤ 1 :=
  call_once g ok env w hc hlog

/-- **At most once, with cache edges** (part of `FullSpec`): also when some values are served from caches. -/
theorem at_most_once_cached (F : Fam) (g : Graph) (ok : GraphOKC g) (env : String → Option Val) (w : World) (hc : CallOK g env)
    (hF : F g (denCfgOf env w)) (hst : StoreSound F w) (hlog : w.log = []) :
    ∃ N o steps, (∀ fuel, N ≤ fuel → g.call env w fuel = some (o, steps)) ∧ ∀ j, calls o.mem j ≤ 1 := by
  obtain ⟨N, o, steps, h1, h2⟩ := call_correct_c F g ok env w hc hF hst hlog
  exact ⟨N, o, steps, h1, h2.2.2⟩

/-- **Only what is needed runs** (returning or raising, with or without cache edges). -/
theorem only_needed (F : Fam) (g : Graph) (ok : GraphOKC g) (env : String → Option Val) (w : World) (hc : CallOK g env)
    (hF : F g (denCfgOf env w)) (hst : StoreSound F w) (hlog : w.log = []) (fuel steps : Nat) (o : Outcome)
    (hrun : g.call env w fuel = some (o, steps)) :
    ∀ r ∈ o.mem.world.log, ∃ hp, Need g (denCfgOf env w) (false, g.output) hp r.node :=
  call_only_needed F g ok env w hc hF hst hlog fuel steps o hrun

/-- **Everything needed runs** (cache-free graphs, returning calls). -/
theorem all_needed (g : Graph) (ok : GraphOK g) (env : String → Option Val) (w : World) (hc : CallOK g env)
    (fuel steps : Nat) (x : Item) (s : St) (hrun : g.call env w fuel = some (.done x s, steps)) :
    ∀ hp n, Need g (denCfgOf env w) (false, g.output) hp n → CallsOf g (denCfgOf env w) hp n → Executed s.mem n :=
  call_exactly g ok env w hc fuel steps x s hrun

/-- **Branches of Merge not selected by the id are not demanded.** -/
theorem merge_branches (c : Ctx) (t : List (Val × Nat)) (a : Nat) :
    (∀ q ∈ progDeps c ((EdgeK.switch t).hashProg a),
      q = .pv 0 ∨ ∃ key idx, c.pv 0 = .ok key ∧ tableLookup t key = some idx ∧ q = .ph (idx + 1)) ∧
    (∀ q ∈ progDeps c ((EdgeK.switch t).evalProg a),
      q = .cur ∨ ∃ (h : NHash) (idx : Int), c.cur = .ok (h, .int idx) ∧ q = .pv (idx.toNat + 1)) :=
  ⟨switch_hash_deps c t a, switch_eval_deps c t a⟩

theorem asVals_map_val : ∀ vs : List Val, asVals (vs.map Item.val) = some vs
  | [] => rfl
  | v :: vs => by simp [asVals, asVals_map_val vs]

/-- **Shared intermediates.**  A product (tuple of requested fields) denotes the tuple of its parents' values. -/
theorem shared_intermediate (g : Graph) (d : DenCfg) (ok : GraphOK g) (n : Nat) (he : (g.node n).edge = some .product)
    (vs : List Val) (h : interpReqs (ctxOf g d n) ((List.range (g.parents n).length).map .parentValue) = .ok (vs.map .val)) :
    (den g d n).v = .ok (.tup vs) := by
  rw [(den_inner g d ok.toGraphBase n .product he).2]
  simp only [EdgeK.evalProg, staticEval, interp, interpReq, h, Except.map]
  simp only [asVals_map_val, interp]
  rfl

/-- an impure function's value names the call and the node: two calls never share it -/
theorem impure_differs_between_calls (f : String) (n c c' : Nat) (pos : List Val) (kwn : List String) (kwv : List Val)
    (h : c ≠ c') : Val.imp f c n pos kwn kwv ≠ Val.imp f c' n pos kwn kwv := by
  intro he; injection he with _ h2; exact h h2

/-! non-vacuity: the demo graph of C01 uses node 1 (`g(x)`) three times; the theorem applies to it -/
example : ∃ N o steps, (∀ fuel, N ≤ fuel → C01.demo.call C01.demoEnv {} fuel = some (o, steps)) ∧ ∀ j, calls o.mem j ≤ 1 :=
  at_most_once C01.demo (okB_sound _ (by decide +kernel)) C01.demoEnv {} (callOKB_sound _ _ (by decide +kernel)) rfl

end CM.C03
