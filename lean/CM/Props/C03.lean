import CM.Proofs.Sim
namespace CM.C03
theorem placeholder : True := trivial
end CM.C03
