/-
  C03 — One call evaluates each needed function exactly once and nothing else.

  Proved here, for every well-formed cache-free graph, every input and every fault schedule:

    * `at_most_once`: started with an empty log, a call of the compiled function (returning or raising) logs at most
      one user-function call per node.  This is the eviction-counter invariant with ghost completion flags
      (`CM.Proofs.Once.big_inv`): a generator of a node runs to completion at most once, because its memo entry
      stays in the scratch table while any child may still ask for it (`counts = 2 × paths` never runs out), and a
      node issues its call either from its hash generator (hash-by-value / impure wrappers) or from its value
      generator (plain functions), never from both.
    * `shared_intermediate`: the value of a product node is the tuple of the denotations of its parents: all
      requested fields see the same value of every shared node, impure ones included (their value carries the
      number of the call and the node, so a separate call produces a different value).

  Not proved (`exactly_needed` is stated but left to the correspondence S-VM/S-REL and the call-log oracle): that
  *only* functions the cache-free evaluation needs are executed.
-/
import CM.Props.C01
namespace CM.C03
open CM

/-- **At most once.** -/
theorem at_most_once (g : Graph) (ok : GraphOK g) (env : String → Option Val) (w : World) (hc : CallOK g env) (hlog : w.log = []) :
    ∃ N o steps, (∀ fuel, N ≤ fuel → g.call env w fuel = some (o, steps)) ∧ ∀ j, calls o.mem j ≤ 1 :=
  call_once g ok env w hc hlog

/-- **At most once, with cache edges** (part of `FullSpec`): also when some values are served from caches. -/
theorem at_most_once_cached (F : Fam) (g : Graph) (ok : GraphOKC g) (env : String → Option Val) (w : World) (hc : CallOK g env)
    (hF : F g (denCfgOf env w)) (hst : StoreSound F w) (hlog : w.log = []) :
    ∃ N o steps, (∀ fuel, N ≤ fuel → g.call env w fuel = some (o, steps)) ∧ ∀ j, calls o.mem j ≤ 1 := by
  obtain ⟨N, o, steps, h1, h2⟩ := call_correct_c F g ok env w hc hF hst hlog
  exact ⟨N, o, steps, h1, h2.2.2⟩

theorem asVals_map_val : ∀ vs : List Val, asVals (vs.map Item.val) = some vs
  | [] => rfl
  | v :: vs => by simp [asVals, asVals_map_val vs]

/-- **Shared intermediates.**  A product (tuple of requested fields) denotes the tuple of its parents' values. -/
theorem shared_intermediate (g : Graph) (d : DenCfg) (ok : GraphOK g) (n : Nat) (he : (g.node n).edge = some .product)
    (vs : List Val) (h : interpReqs (ctxOf g d n) ((List.range (g.parents n).length).map .parentValue) = .ok (vs.map .val)) :
    (den g d n).v = .ok (.tup vs) := by
  rw [(den_inner g d ok.toGraphBase n .product he).2]
  simp only [EdgeK.evalProg, staticEval, interp, interpReq, h, Except.map]
  simp only [asVals_map_val, interp]
  rfl

/-- an impure function's value names the call and the node: two calls never share it -/
theorem impure_differs_between_calls (f : String) (n c c' : Nat) (pos : List Val) (kwn : List String) (kwv : List Val)
    (h : c ≠ c') : Val.imp f c n pos kwn kwv ≠ Val.imp f c' n pos kwn kwv := by
  intro he; injection he with _ h2; exact h h2

/-! non-vacuity: the demo graph of C01 uses node 1 (`g(x)`) three times; the theorem applies to it -/
example : ∃ N o steps, (∀ fuel, N ≤ fuel → C01.demo.call C01.demoEnv {} fuel = some (o, steps)) ∧ ∀ j, calls o.mem j ≤ 1 :=
  at_most_once C01.demo (okB_sound _ (by decide +kernel)) C01.demoEnv {} (callOKB_sound _ _ (by decide +kernel)) rfl

end CM.C03
