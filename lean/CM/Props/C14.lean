/-
  C14 — Merge routes every id to the one dataset that owns it.
  Property theorems about CM.Model.Rel (tied to /repo by the S-REL correspondence).
-/
import CM.Proofs.SwitchDen
import CM.Proofs.Merge
import CM.Model.Merge
import CM.Proofs.RelLemmas
namespace CM.C14
open CM

/-- unfold a successful merge -/
theorem merge_ok (parts : List DS) (m : DS) (h : mergeDS parts = .ok m) :
    ∃ idLists table, idsOf parts = .ok idLists ∧ ownerTable idLists 0 [] = .ok table ∧
      m.ids = .ok (sortDedup (table.map (·.1))) ∧
      (∀ f i, m.value f i = match ownerOf table i with
        | none => .error .valueError
        | some k => match parts[k]? with | some p => p.value f i | none => .error .internal) := by
  unfold mergeDS at h
  cases h1 : idsOf parts with
  | error e => simp [h1, bind, Except.bind] at h
  | ok idLists =>
    cases h2 : ownerTable idLists 0 [] with
    | error e => simp [h1, h2, bind, Except.bind] at h
    | ok table =>
      simp only [h1, h2, bind, Except.bind, pure, Except.pure] at h
      injection h with h
      subst h
      exact ⟨idLists, table, rfl, h2, rfl, fun _ _ => rfl⟩

/-- **Routing.**  For every id of a dataset of a merge that was accepted, every field returns exactly what that
dataset returns (value, and in the code also the branch's hash: the switch reports the selected parent's hash). -/
theorem routes_to_owner (parts : List DS) (m : DS) (h : mergeDS parts = .ok m)
    (k : Nat) (p : DS) (hp : parts[k]? = some p) (ids : List String) (hids : p.ids = .ok ids)
    (i : String) (hi : i ∈ ids) (f : String) : m.value f i = p.value f i := by
  obtain ⟨idLists, table, h1, h2, _, hv⟩ := merge_ok parts m h
  obtain ⟨ids', hids', hk⟩ := idsOf_get parts idLists h1 k p hp
  rw [hids] at hids'; injection hids' with hids'; subst hids'
  have := ((ownerTable_spec idLists 0 [] table h2).2.1 k ids i hk hi).2
  rw [hv, this]
  simp [hp]

/-- an id that no dataset owns is rejected by every field -/
theorem unknown_id_rejected (parts : List DS) (m : DS) (h : mergeDS parts = .ok m)
    (i : String) (hi : ∀ p ∈ parts, ∀ ids, p.ids = .ok ids → i ∉ ids) (f : String) :
    m.value f i = .error .valueError := by
  obtain ⟨idLists, table, h1, h2, _, hv⟩ := merge_ok parts m h
  have hall : ∀ ids ∈ idLists, i ∉ ids := by
    intro ids hm
    obtain ⟨k, hk⟩ := List.getElem?_of_mem hm
    -- the k-th id list is the ids of the k-th dataset
    have hlen : k < parts.length := by
      have := idsOf_length parts idLists h1
      have hk' := (List.getElem?_eq_some_iff.mp hk).1
      omega
    obtain ⟨ids', hids', hk'⟩ := idsOf_get parts idLists h1 k parts[k] (by simp [hlen])
    rw [hk] at hk'; injection hk' with hk'; subst hk'
    exact hi parts[k] (List.getElem_mem hlen) ids hids'
  have := (ownerTable_spec idLists 0 [] table h2).2.2 i rfl hall
  rw [hv, this]

/-- overlapping ids are rejected: a dataset repeating an id of an earlier one makes the construction raise -/
theorem overlap_rejected (ids₁ ids₂ : List String) (rest : List (List String)) (i : String)
    (h1 : i ∈ ids₁) (h2 : i ∈ ids₂) (hfresh : (ids₁.any fun j => ([] : List (String × Nat)).any fun p => p.1 == j) = false) :
    ownerTable (ids₁ :: ids₂ :: rest) 0 [] = .error .runtimeError := by
  simp only [ownerTable, hfresh]
  exact ownerTable_overlap ids₂ rest 1 _ i h2 0 (by simp [ownerOf_map_mem ids₁ 0 i h1])

/-- the ids of a merge are the sorted union (every owned id and nothing else) -/
theorem ids_are_union (parts : List DS) (m : DS) (h : mergeDS parts = .ok m) :
    ∃ table ids, m.ids = .ok ids ∧ (∀ i, i ∈ ids ↔ (ownerOf table i).isSome) ∧
      ∃ idLists, idsOf parts = .ok idLists ∧ ownerTable idLists 0 [] = .ok table := by
  obtain ⟨idLists, table, h1, h2, hids, _⟩ := merge_ok parts m h
  refine ⟨table, _, hids, ?_, idLists, h1, h2⟩
  intro i
  rw [mem_sortDedup]
  simp only [ownerOf, Option.isSome_map, List.mem_map]
  constructor
  · rintro ⟨p, hp, rfl⟩
    rw [List.find?_isSome]
    exact ⟨p, hp, by simp⟩
  · intro hs
    rw [List.find?_isSome] at hs
    obtain ⟨p, hp, hk⟩ := hs
    exact ⟨p, hp, by simpa using hk⟩

/-- non-vacuity: two disjoint datasets; `b1` is routed to the second one, `zz` is rejected -/
example :
    let a : DS := { fields := ["id", "x"], ids := .ok ["a2", "a1"], value := fun _ i => .ok (.app "A.x" [.str i] [] []) }
    let b : DS := { fields := ["id", "x"], ids := .ok ["b1"], value := fun _ i => .ok (.app "B.x" [.str i] [] []) }
    (match mergeDS [a, b] with
      | .ok m => (match m.ids with | .ok ids => ids == ["a1", "a2", "b1"] | _ => false) &&
                 (match m.value "x" "b1" with | .ok (.app f _ _ _) => f == "B.x" | _ => false) &&
                 (match m.value "x" "zz" with | .error .valueError => true | _ => false)
      | .error _ => false) = true := by decide +kernel

/-! ## Node level: the `SwitchEdge` of `Merge._merge_containers` (`CM.Model.Merge`, compared with the real container in S-FACTORY) -/

/-- **A merged field is its owner's field**: if the key evaluates to `v` and the routing table sends `v` to branch `idx`, the node
the Merge creates for the field has the node hash of that branch (so caches are shared with the unmerged dataset) and its value,
for every input, whatever the other branches are. -/
theorem node_switch_is_owner (d : DenCfg) (table : List (Val × Nat)) (key : BTerm) (branches : List BTerm) (v : Val) (idx : Nat)
    (tb : BTerm) (hk : (key.den d).v = .ok v) (hl : tableLookup table v = some idx) (hb : branches[idx]? = some tb) :
    ((BTerm.node (.switch table) (key :: branches)).den d).h.map (·.1) = (tb.den d).h.map (·.1) ∧
    (∀ hh, (tb.den d).h = .ok hh → ((BTerm.node (.switch table) (key :: branches)).den d).v = (tb.den d).v) :=
  switch_den d table key branches v idx tb hk hl hb

/-- an id no dataset owns is rejected with `ValueError`, never resolved arbitrarily -/
theorem node_switch_unknown (d : DenCfg) (table : List (Val × Nat)) (key : BTerm) (branches : List BTerm) (v : Val)
    (hk : (key.den d).v = .ok v) (hl : tableLookup table v = none) :
    ((BTerm.node (.switch table) (key :: branches)).den d).h = .error .valueError ∧
    ((BTerm.node (.switch table) (key :: branches)).den d).v = .error .valueError :=
  switch_unknown d table key branches v hk hl

/-- **Node level: what a field of the merged container computes.**  For every routing table and any number of well-formed parts
with one input each: under a name `x` (other than the keys) that every part exposes, the container `Merge._merge_containers` builds
computes the switch over the key input and exactly the parts' own terms, in the order of the parts (each part embedded unchanged:
`den_embed`, the frozen copies occupying disjoint ranges of identities). -/
theorem node_merge_field {table : List (Val × Nat)} {parts0 : List Bag} {keysName : String} {b : Bag}
    (h : mergeBags table parts0 keysName = .ok b) (hw : ∀ p ∈ parts0, p.WF)
    (x : String) (hx : x ≠ keysName) (outs0 : List BNode) (ts : List BTerm)
    (hlo : outs0.length = parts0.length) (hlt : ts.length = parts0.length)
    (hf : ∀ k (hk : k < parts0.length), outs0[k]'(hlo ▸ hk) ∈ parts0[k].outputs ∧ (outs0[k]'(hlo ▸ hk)).name = x ∧
      BDen parts0[k] (outs0[k]'(hlo ▸ hk)) (ts[k]'(hlt ▸ hk))) :
    ∃ inName, b.Field x (.node (.switch table) (.inp inName :: ts)) :=
  merge_field h hw x hx outs0 ts hlo hlt hf

/-- **Merge routes every id to the dataset that owns it** (node level, end to end): under the hypotheses of `node_merge_field`, if the
key input is bound to `v` and the routing table sends `v` to part `idx`, the merged field has the node hash of that part's field (so
caches are shared with the unmerged dataset) and, whenever that hash exists, its value. -/
theorem node_merge_is_owner {table : List (Val × Nat)} {parts0 : List Bag} {keysName : String} {b : Bag}
    (h : mergeBags table parts0 keysName = .ok b) (hw : ∀ p ∈ parts0, p.WF)
    (x : String) (hx : x ≠ keysName) (outs0 : List BNode) (ts : List BTerm)
    (hlo : outs0.length = parts0.length) (hlt : ts.length = parts0.length)
    (hf : ∀ k (hk : k < parts0.length), outs0[k]'(hlo ▸ hk) ∈ parts0[k].outputs ∧ (outs0[k]'(hlo ▸ hk)).name = x ∧
      BDen parts0[k] (outs0[k]'(hlo ▸ hk)) (ts[k]'(hlt ▸ hk)))
    (d : DenCfg) (v : Val) (idx : Nat) (hidx : idx < parts0.length) (hl : tableLookup table v = some idx)
    (henv : ∀ n, d.env n = some v) :
    ∃ t, b.Field x t ∧ (t.den d).h.map (·.1) = ((ts[idx]'(hlt ▸ hidx)).den d).h.map (·.1) ∧
      (∀ hh, ((ts[idx]'(hlt ▸ hidx)).den d).h = .ok hh → (t.den d).v = ((ts[idx]'(hlt ▸ hidx)).den d).v) := by
  obtain ⟨inName, hfield⟩ := merge_field h hw x hx outs0 ts hlo hlt hf
  refine ⟨_, hfield, ?_⟩
  have hk : ((BTerm.inp inName).den d).v = .ok v := by simp [BTerm.den, henv inName]
  exact switch_den d table (.inp inName) ts v idx _ hk hl (by simp [hlt ▸ hidx])

end CM.C14
