import CM.Model.Rel
namespace CM.C14
theorem placeholder : True := trivial
end CM.C14
