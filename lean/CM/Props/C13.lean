/-
  C13 — Impure functions are never cached or keyed unless explicitly allowed.
  `detectImpure` (the traversal cache layers run) is sound and complete for reachability of an `ImpureEdge`
  through parents of any edge kind; the static graph hash raises for an impure edge.
-/
import CM.Model.Impure
namespace CM.C13
open CM

theorem aux_sound (g : Graph) : ∀ fuel n, detectImpureAux g fuel n = true → ReachImpure g n := by
  intro fuel
  induction fuel with
  | zero => intro n h; simp [detectImpureAux] at h
  | succ fuel ih =>
    intro n h
    simp only [detectImpureAux] at h
    cases he : (g.node n).edge with
    | none => simp [he] at h
    | some e =>
      simp only [he, Bool.or_eq_true, List.any_eq_true] at h
      rcases h with h | ⟨p, hp, hr⟩
      · exact .here n e he h
      · exact .step n p e he hp (ih p hr)

theorem aux_complete (g : Graph) (ht : g.Topo) : ∀ n, ReachImpure g n → ∀ fuel, n < fuel → detectImpureAux g fuel n = true := by
  intro n h
  induction h with
  | here n e he hi =>
    intro fuel hf
    cases fuel with
    | zero => omega
    | succ fuel => simp [detectImpureAux, he, hi]
  | step n p e he hp _ ih =>
    intro fuel hf
    cases fuel with
    | zero => omega
    | succ fuel =>
      simp only [detectImpureAux, he, Bool.or_eq_true, List.any_eq_true]
      exact .inr ⟨p, hp, ih fuel (by have := ht n p hp; omega)⟩

/-- a node outside the graph is a leaf -/
theorem edge_some_lt (g : Graph) (n : Nat) (e : EdgeK) (he : (g.node n).edge = some e) : n < g.nodes.length := by
  apply Decidable.byContradiction
  intro hge
  have : g.node n = default := by
    simp only [Graph.node, List.getD_eq_getElem?_getD]
    rw [List.getElem?_eq_none (by omega)]
    rfl
  rw [this] at he
  cases he

theorem reach_lt (g : Graph) (n : Nat) (h : ReachImpure g n) : n < g.nodes.length := by
  cases h with
  | here n e he _ => exact edge_some_lt g n e he
  | step n p e he _ _ => exact edge_some_lt g n e he

/-- **The traversal is exact.**  For every graph whose parents precede their children, every node and every mix
of edge kinds: `_detect_impure` raises iff an `ImpureEdge` is reachable through parents of any edge kind. -/
theorem detect_impure_iff (g : Graph) (ht : g.Topo) (n : Nat) : detectImpure g n = true ↔ ReachImpure g n := by
  constructor
  · exact aux_sound g _ n
  · intro h
    exact aux_complete g ht n h _ (by have := reach_lt g n h; omega)

/-- the static graph hash of an impure edge raises (`HashError`), whatever it wraps and whatever its inputs -/
theorem impure_hash_graph_raises (inner : EdgeK) (hs : List NHash) : (EdgeK.impure inner).hashGraph hs = .error .hashError := by
  simp [EdgeK.hashGraph]

/-- ... while a by-value wrapper delegates to the edge it wraps (so `@hash_by_value` alone can be keyed) -/
theorem by_value_hash_graph (inner : EdgeK) (hs : List NHash) : (EdgeK.byValue inner).hashGraph hs = inner.hashGraph hs := by
  simp [EdgeK.hashGraph]

/-- non-vacuity: impure behind a cache behind a switch is found; a pure chain is not -/
example :
    let g : Graph := { nodes := [⟨"x", none, []⟩, ⟨"r", some (.impure (.function "r" [] [])), [0]⟩,
                                  ⟨"c", some (.cache 0), [1]⟩, ⟨"s", some (.switch [(.str "a", 0)]), [0, 2]⟩,
                                  ⟨"f", some (.function "f" [] []), [0]⟩], inputs := [0], output := 3 }
    detectImpure g 3 = true ∧ detectImpure g 4 = false := by decide

end CM.C13
