/-
  C11 — Concurrent calls on one pipeline behave like sequential calls.
  The interleaving model: threads share the stores and take atomic actions; an interleaving of their actions is one
  list of (thread, action).  Proved for *every* such list (no bound on its length, no fairness assumption):
  * the lock protocol of `MemoryCache` (`with self._lock:` around every table access) gives mutual exclusion, and
    every table access is made by the holder;
  * whatever the interleaving, a table only answers with a value that some thread stored under an equal key
    (it never returns a value stored under another key), so the rely condition of `vm_correct` (every answer is a
    miss or sound) holds for every thread.
  CPython-level atomicity of single dict operations and the GIL are runtime facts outside the model (S-SCHED).
-/
import CM.Props.C04
namespace CM.C11
open CM

/-! ### the lock protocol -/

inductive PC where | idle | waiting | holding
  deriving DecidableEq, Repr

structure LockState where
  pcs : Nat → PC
  holder : Option Nat

def LockState.init : LockState := { pcs := fun _ => .idle, holder := none }

/-- one atomic action of thread `t`: request the lock, acquire it if it is free, access the table and release -/
def lockStep (s : LockState) (t : Nat) : LockState :=
  match s.pcs t with
  | .idle => { s with pcs := fun u => if u = t then .waiting else s.pcs u }
  | .waiting =>
    match s.holder with
    | none => { pcs := fun u => if u = t then .holding else s.pcs u, holder := some t }
    | some _ => s                                          -- blocked
  | .holding => { pcs := fun u => if u = t then .idle else s.pcs u, holder := none }   -- table access + release

def LockInv (s : LockState) : Prop := ∀ t, s.pcs t = .holding ↔ s.holder = some t

theorem lockStep_inv (s : LockState) (t : Nat) (h : LockInv s) : LockInv (lockStep s t) := by
  unfold lockStep
  cases hp : s.pcs t with
  | idle =>
    intro u
    by_cases hu : u = t
    · subst hu
      have : s.holder ≠ some u := fun hc => by have := (h u).mpr hc; rw [hp] at this; cases this
      simp [this]
    · simp [hu, h u]
  | waiting =>
    cases hh : s.holder with
    | some w => simpa [hh] using h
    | none =>
      intro u
      by_cases hu : u = t
      · simp [hu]
      · have : s.pcs u ≠ .holding := fun hc => by have := (h u).mp hc; rw [hh] at this; cases this
        simp only [hu, ↓reduceIte]
        constructor
        · intro hc; exact absurd hc this
        · intro hc; injection hc with hc; exact absurd hc.symm hu
  | holding =>
    intro u
    by_cases hu : u = t
    · simp [hu]
    · have ht := (h t).mp hp
      have : s.pcs u ≠ .holding := by
        intro hc
        have := (h u).mp hc
        rw [ht] at this; injection this with this; exact hu this.symm
      simp [hu, this]

/-- **Mutual exclusion**, for every schedule: at most one thread is between acquire and release, and it is the one the
lock records as its holder, so every table access (made in state `holding`) is made by the holder. -/
theorem mutual_exclusion (schedule : List Nat) :
    let s := schedule.foldl lockStep LockState.init
    LockInv s ∧ ∀ t u, s.pcs t = .holding → s.pcs u = .holding → t = u := by
  have hinv : LockInv (schedule.foldl lockStep LockState.init) := by
    have base : LockInv LockState.init := by intro t; simp [LockState.init]
    generalize LockState.init = s0 at base ⊢
    induction schedule generalizing s0 with
    | nil => exact base
    | cons t ts ih => exact ih _ (lockStep_inv s0 t base)
  refine ⟨hinv, ?_⟩
  intro t u ht hu
  have h1 := (hinv t).mp ht
  have h2 := (hinv u).mp hu
  rw [h1] at h2
  injection h2

/-! ### the table under any interleaving -/

inductive Act where
  | get (k : NHash)
  | set (k : NHash) (v : Val)
  | clear

def act (s : MemStore) : Act → MemStore
  | .get k => (s.get k).2
  | .set k v => s.set k v
  | .clear => s.clear

/-- the values written so far, by any thread -/
def written : List (Nat × Act) → List (NHash × Val)
  | [] => []
  | (_, .set k v) :: rest => (k, v) :: written rest
  | _ :: rest => written rest

/-- every entry of the table carries a value that some thread wrote, under a key its stored key equals -/
def Sound (w : List (NHash × Val)) (s : MemStore) : Prop :=
  ∀ p ∈ s.table, ∃ q ∈ w, q.2 = p.2 ∧ s.keyEq p.1 q.1 = true

theorem keyEq_congr (s s' : MemStore) (h : s'.exact = s.exact) (a b : NHash) : s'.keyEq a b = s.keyEq a b := by
  simp [MemStore.keyEq, h]

theorem set_sound (w : List (NHash × Val)) (s : MemStore) (k : NHash) (v : Val) (hs : Sound w s) :
    Sound ((k, v) :: w) (s.set k v) := by
  have hex : (s.set k v).exact = s.exact := by
    unfold MemStore.set; cases s.size <;> simp only <;> split <;> rfl
  intro p hp
  have conv : ∀ a b, (s.set k v).keyEq a b = s.keyEq a b := keyEq_congr s _ hex
  simp only [conv]
  have old : ∀ p ∈ s.table, ∃ q ∈ (k, v) :: w, q.2 = p.2 ∧ s.keyEq p.1 q.1 = true := by
    intro p hp
    obtain ⟨q, hq, h1, h2⟩ := hs p hp
    exact ⟨q, List.mem_cons_of_mem _ hq, h1, h2⟩
  unfold MemStore.set at hp
  cases hsz : s.size with
  | none =>
    simp only [hsz] at hp
    cases hf : s.find? k with
    | none =>
      simp only [hf, List.mem_append, List.mem_singleton] at hp
      rcases hp with hp | rfl
      · exact old p hp
      · exact ⟨(k, v), List.mem_cons_self .., rfl, s.keyEq_refl k⟩
    | some f =>
      obtain ⟨k0, v0⟩ := f
      have hk0 := (MemStore.keyEq_of_find s k _ hf).2
      simp only [hf, List.mem_map] at hp
      obtain ⟨⟨k1, v1⟩, hm, heq⟩ := hp
      by_cases hc : s.keyEq k1 k = true
      · simp only [hc, if_true] at heq
        subst heq
        exact ⟨(k, v), List.mem_cons_self .., rfl, hk0⟩
      · simp only [hc] at heq
        subst heq
        exact old _ hm
  | some n =>
    simp only [hsz] at hp
    cases hf : s.find? k with
    | none =>
      simp only [hf] at hp
      have hp' := List.mem_of_mem_take hp
      rcases List.mem_cons.mp hp' with rfl | hp'
      · exact ⟨(k, v), List.mem_cons_self .., rfl, s.keyEq_refl k⟩
      · exact old p hp'
    | some f =>
      obtain ⟨k0, v0⟩ := f
      have hk0 := (MemStore.keyEq_of_find s k _ hf).2
      simp only [hf] at hp
      rcases List.mem_cons.mp hp with rfl | hp'
      · exact ⟨(k, v), List.mem_cons_self .., rfl, hk0⟩
      · exact old p (List.mem_filter.mp hp').1

theorem act_sound (w : List (NHash × Val)) (s : MemStore) (t : Nat) (a : Act) (hs : Sound w s) :
    Sound (written [(t, a)] ++ w) (act s a) := by
  cases a with
  | get k =>
    have hex : (s.get k).2.exact = s.exact := by
      unfold MemStore.get; cases s.find? k <;> simp only <;> cases s.size <;> rfl
    intro p hp
    have conv : ∀ a b, (s.get k).2.keyEq a b = s.keyEq a b := keyEq_congr s _ hex
    simp only [act, conv]
    exact hs p (C04.get_keeps s k p hp)
  | set k v => exact set_sound w s k v hs
  | clear => intro p hp; simp [act, MemStore.clear] at hp

theorem written_append (xs ys : List (Nat × Act)) : written (xs ++ ys) = written xs ++ written ys := by
  induction xs with
  | nil => rfl
  | cons x xs ih =>
    obtain ⟨t, a⟩ := x
    cases a <;> simp [written, ih]

/-- **Any interleaving.**  Whatever the threads do and however their actions are interleaved, the table only holds -
and therefore only ever answers with - values that some thread stored, under a key the stored key equals.  Every
answer a thread receives is thus a miss or sound: the hypothesis under which a VM run returns the sequential value. -/
theorem any_interleaving_sound (ops : List (Nat × Act)) (s0 : MemStore) (h0 : s0.table = []) :
    Sound (written ops.reverse) (ops.foldl (fun s o => act s o.2) s0) := by
  have key : ∀ (ops : List (Nat × Act)) (s : MemStore) (w : List (NHash × Val)), Sound w s →
      Sound (written ops.reverse ++ w) (ops.foldl (fun s o => act s o.2) s) := by
    intro ops
    induction ops with
    | nil => intro s w h; simpa [written] using h
    | cons o os ih =>
      intro s w h
      obtain ⟨t, a⟩ := o
      have h1 := act_sound w s t a h
      have h2 := ih (act s a) _ h1
      simpa [written_append, List.append_assoc] using h2
  have := key ops s0 [] (by intro p hp; rw [h0] at hp; cases hp)
  simpa using this

/-- a hit, at any point of any interleaving, returns a value that was stored under a key equal to the stored key of the
entry found for the requested key -/
theorem hit_is_sound (ops : List (Nat × Act)) (s0 : MemStore) (h0 : s0.table = []) (k : NHash) (v : Val)
    (h : ((ops.foldl (fun s o => act s o.2) s0).get k).1 = some v) :
    ∃ q ∈ written ops.reverse, q.2 = v := by
  obtain ⟨p, hp, hv, _⟩ := C04.get_sound _ k v h
  obtain ⟨q, hq, h1, _⟩ := any_interleaving_sound ops s0 h0 p hp
  exact ⟨q, hq, by rw [h1, hv]⟩

end CM.C11
