/-
  C17 (continued) — the container `GroupBy` builds, node by node (CM.Model.GroupBag, compared with the real `_prepare_container` by S-FACTORY/group).
-/
import CM.Proofs.GroupBag
import CM.Proofs.GroupBagWF
import CM.Props.C17
namespace CM.C17
open CM

/-- **Node level: the container of `GroupBy` re-keys every field.**  If `GroupBy._prepare_container(previous)` succeeds: the container has ONE input, the
new `id`, which is also its output; the mapping node is a memory cache over `GroupMapping` applied to the PREVIOUS `ids` output; every field of the
previous container other than `id`/`ids` has an output of its name produced by a `GroupEdge` over (new id, mapping) - and nothing else; the new `ids`
are computed from the mapping alone. -/
theorem node_groupby_container {prev b : Bag} (h : groupByBag prev = .ok b) :
    ∃ keys, byName prev.outputs "ids" = some keys ∧ b.inputs = [⟨prev.next, "id"⟩] ∧ (⟨prev.next, "id"⟩ : BNode) ∈ b.outputs ∧
      ({ edge := groupMappingK, ins := [keys], out := ⟨prev.next + 1, "$mapping"⟩ } : BEdge) ∈ b.edges ∧
      ({ edge := .cache 0, ins := [⟨prev.next + 1, "$mapping"⟩], out := ⟨prev.next + 2, "$mapping"⟩ } : BEdge) ∈ b.edges ∧
      (∀ f ∈ prev.outputs, f.name ≠ "ids" → f.name ≠ "id" → ∃ o ∈ b.outputs, o.name = f.name ∧ prev.next + 3 ≤ o.id ∧
        ({ edge := groupEdgeK, ins := [⟨prev.next, "id"⟩, ⟨prev.next + 2, "$mapping"⟩], out := o } : BEdge) ∈ b.edges) ∧
      (∃ o ∈ b.outputs, o.name = "ids" ∧ prev.next + 3 ≤ o.id ∧
        ({ edge := sortedIdsK, ins := [⟨prev.next + 2, "$mapping"⟩], out := o } : BEdge) ∈ b.edges) ∧
      (∀ e ∈ prev.edges, e ∈ b.edges) := by
  obtain ⟨i, keys, _, hk, _, hin, hed, hout, _, _⟩ := groupByBag_ok h
  refine ⟨keys, hk, hin, hout _ (by simp [groupByRaw]), hed _ (by simp [groupByRaw]), hed _ (by simp [groupByRaw]), ?_, ?_, ?_⟩
  · intro f hf h1 h2
    have hmem : f ∈ groupFields prev := by
      simp [groupFields, List.mem_filter, hf, h1, h2]
    obtain ⟨j, _, hj⟩ := group_out_mem (groupFields prev) prev.next f hmem
    refine ⟨⟨prev.next + 3 + j, f.name⟩, hout _ ?_, rfl, by simp, hed _ ?_⟩
    · simp only [groupByRaw, List.mem_cons, List.mem_append]
      exact Or.inl (Or.inr hj)
    · simp only [groupByRaw, List.mem_append]
      exact Or.inl (Or.inr (List.mem_map.2 ⟨_, hj, rfl⟩))
  · refine ⟨⟨prev.next + 3 + (groupFields prev).length, "ids"⟩, hout _ (by simp [groupByRaw]), rfl, by simp, hed _ (by simp [groupByRaw])⟩
  · intro e he
    exact hed e (by simp [groupByRaw, he])

/-- **Node level: what a grouped field computes.**  In the container of `GroupBy`, if the previous `ids` node computes `tk`, every field of the previous
container other than `id`/`ids` is a field of the new one and computes `GroupEdge(new id, cache(GroupMapping(tk)))`: a function of the NEW id and of
the mapping only, the mapping being derived from the previous `ids` alone (and memoised); the new `ids` compute `sorted(cache(GroupMapping(tk)))`. -/
theorem node_groupby_field_term {prev b : Bag} (h : groupByBag prev = .ok b) :
    ∃ keys, byName prev.outputs "ids" = some keys ∧ ∀ tk, BDen b keys tk →
      (∀ f ∈ prev.outputs, f.name ≠ "ids" → f.name ≠ "id" →
        b.Field f.name (.node groupEdgeK [.inp "id", .node (.cache 0) [.node groupMappingK [tk]]])) ∧
      b.Field "ids" (.node sortedIdsK [.node (.cache 0) [.node groupMappingK [tk]]]) := by
  obtain ⟨keys, hk, hin, _, hmap, hcache, hfields, hids, _⟩ := node_groupby_container h
  refine ⟨keys, hk, fun tk htk => ?_⟩
  have hnot : ∀ n : BNode, prev.next + 1 ≤ n.id → n ∉ b.inputs := by
    intro n hn hmem
    rw [hin, List.mem_singleton] at hmem
    rw [hmem] at hn
    simp only [] at hn
    omega
  have hraw : BDen b ⟨prev.next + 1, "$mapping"⟩ (.node groupMappingK [tk]) := by
    refine BDen.edge (ts := [tk]) _ (hnot _ (by simp)) hmap rfl (by simp [groupMappingK]) rfl ?_
    intro q hq
    simp only [List.zip_cons_cons, List.zip_nil_right, List.mem_singleton] at hq
    subst hq; exact htk
  have hm : BDen b ⟨prev.next + 2, "$mapping"⟩ (.node (.cache 0) [.node groupMappingK [tk]]) := by
    refine BDen.edge (ts := [_]) _ (hnot _ (by simp)) hcache rfl (by simp) rfl ?_
    intro q hq
    simp only [List.zip_cons_cons, List.zip_nil_right, List.mem_singleton] at hq
    subst hq; exact hraw
  have hid : BDen b ⟨prev.next, "id"⟩ (.inp "id") := BDen.input (b := b) (n := ⟨prev.next, "id"⟩) (by rw [hin]; simp)
  refine ⟨fun f hf h1 h2 => ?_, ?_⟩
  · obtain ⟨o, ho, hname, hge, he⟩ := hfields f hf h1 h2
    refine ⟨o, ho, hname, BDen.edge (ts := [_, _]) _ (hnot o (by omega)) he rfl (by simp [groupEdgeK]) rfl ?_⟩
    intro q hq
    simp only [List.zip_cons_cons, List.zip_nil_right, List.mem_cons, List.not_mem_nil, or_false] at hq
    rcases hq with rfl | rfl
    · exact hid
    · exact hm
  · obtain ⟨o, ho, hname, hge, he⟩ := hids
    refine ⟨o, ho, hname, BDen.edge (ts := [_]) _ (hnot o (by omega)) he rfl (by simp [sortedIdsK]) rfl ?_⟩
    intro q hq
    simp only [List.zip_cons_cons, List.zip_nil_right, List.mem_singleton] at hq
    subst hq; exact hm

/-- **Node level: `GroupBy` over a well-formed container builds a well-formed container** (ids below the counter, one incoming edge per node, inputs
are leaves, names of inputs / of outputs pairwise different, nothing virtual among them, persistent names are outputs): so everything proved for
well-formed containers (gluing, `term_sound`, the link to the stack machine) applies to pipelines that continue after a `GroupBy`. -/
theorem node_groupby_wf {prev b : Bag} (hw : prev.WF) (h : groupByBag prev = .ok b) : b.WF := groupByBag_wf hw h

/-- a dataset as a container: input `id`, outputs `ids` (a constant) and `x` -/
def exDataset : Bag :=
  { inputs := [⟨0, "id"⟩], outputs := [⟨1, "ids"⟩, ⟨2, "x"⟩],
    edges := [{ edge := .constant (.str "the ids"), ins := [], out := ⟨1, "ids"⟩ }, { edge := .function "D.x" [] [], ins := [⟨0, "id"⟩], out := ⟨2, "x"⟩ }],
    virt := .fin [], persistent := ["ids"], optional := [], ctx := .no, next := 3 }

/-- non-vacuity (a test): `GroupBy` over that dataset builds a container: outputs `id`, `x`, `ids`; one input -/
example :
    (match groupByBag exDataset with
     | .ok b => b.outputs.map (·.name) == ["id", "x", "ids"] && b.inputs.length == 1 && b.edges.length == 6
     | .error _ => false) = true := by
  decide +kernel

end CM.C17
