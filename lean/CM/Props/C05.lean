import CM.Model.Denote
namespace CM.C05
theorem placeholder : True := trivial
end CM.C05
