/-
  C05 — Equal node hash implies equal computation (no false cache hit).

  `decode h` reads a node hash back as the computation it stands for: the leaf value, or the user function applied
  to the decoded argument hashes with positional and keyword arguments split as `FunctionEdge.evaluate` splits them,
  or the tuple of a product.  On *plain* graphs — no Silent arguments, no CheckIds, no user function called
  "tuple", pass-through edges with a parent — the value of **every** node whose hash is `h` is `decode h`
  (`hash_determines_value`, strong induction over the graph, one case per edge class: functions, identities,
  constants, products, caches, barriers, hash-by-value and impure wrappers, the three switch edges).  Hence two
  evaluations — same or different nodes, inputs, pipelines — that receive the same node hash have the same value
  (`equal_hash_equal_value`), i.e. any change that can change a value changes the hash.

  The exclusions are exactly where the property fails or is exempt by design, shown on the model:
    * Silent arguments are exempt by design, but `silent_collides_with_none` (known finding F9): a Silent position is
      hashed as `LeafHash(None)` and collides with a real `None` argument of the non-silent function;
    * `ram_keys_not_faithful` (known finding F3): RAM tables compare keys with Python `==`, under which the hashes of
      inputs `1` and `True` are equal although the values differ;
    * CheckIds is hash-transparent but decides whether a value exists (known finding F10, `CM.C04.f10_in_model`).
-/
import CM.Props.C01
namespace CM.C05
open CM

/-- **A node hash determines the value.** -/
theorem hash_determines_value (g : Graph) (d : DenCfg) (pl : Plain g d) (n : Nat) (h : NHash) (p : Val)
    (hh : (den g d n).h = .ok (h, p)) : (den g d n).v = .ok (decode h) :=
  den_value_of_hash g d pl n h p hh

/-- **Equal node hash, equal computation**: in the same or in different pipelines, for the same or different inputs. -/
theorem equal_hash_equal_value (g : Graph) (d : DenCfg) (pl : Plain g d) (g' : Graph) (d' : DenCfg) (pl' : Plain g' d')
    (n n' : Nat) (h : NHash) (p p' : Val) (h1 : (den g d n).h = .ok (h, p)) (h2 : (den g' d' n').h = .ok (h, p')) :
    (den g d n).v = (den g' d' n').v :=
  CM.equal_hash_equal_value g d pl g' d' pl' n n' h p p' h1 h2

/-- the same for the hash and value of the compiled function's output -/
theorem equal_output_hash (g : Graph) (d : DenCfg) (pl : Plain g d) (g' : Graph) (d' : DenCfg) (pl' : Plain g' d')
    (ho : g.output < g.nodes.length) (ho' : g'.output < g'.nodes.length) (h : NHash)
    (h1 : hden g d = .ok h) (h2 : hden g' d' = .ok h) : vden g d = vden g' d' := by
  rw [hden_eq g d ho] at h1
  rw [hden_eq g' d' ho'] at h2
  rw [vden_eq g d ho, vden_eq g' d' ho']
  cases hh1 : (den g d g.output).h with
  | error e => simp [hh1, Except.map] at h1
  | ok x1 =>
    cases hh2 : (den g' d' g'.output).h with
    | error e => simp [hh2, Except.map] at h2
    | ok x2 =>
      obtain ⟨a1, p1⟩ := x1
      obtain ⟨a2, p2⟩ := x2
      simp only [hh1, Except.map] at h1
      simp only [hh2, Except.map] at h2
      injection h1 with h1; injection h2 with h2
      subst h1; subst h2
      exact CM.equal_hash_equal_value g d pl g' d' pl' _ _ _ p1 p2 hh1 hh2

/-- hence, for stores that compare keys structurally (disk), the hypothesis of the cache theorem (C04) holds -/
theorem faithful_for_exact_keys (F : Fam) (hF : ∀ g d, F g d → Plain g d) : Faithful F true := faithful_exact F hF

/-! ### non-vacuity and the boundary of the theorem -/

def fnGraph (sil : List Nat) : Graph :=
  { nodes := [⟨"x", none, []⟩, ⟨"y", some (.function "f" [] sil), [0]⟩], inputs := [0], output := 1 }

def cfg (v : Val) : DenCfg := { env := fun s => if s = "x" then some v else none }

example : Plain (fnGraph []) (cfg (.int 5)) := plainB_sound _ _ (by decide +kernel)
example : Plain C01.demo (denCfgOf C01.demoEnv { impureFns := ["r"] }) := plainB_sound _ _ (by decide +kernel)

/-- different inputs, different hashes (the contrapositive at work) -/
example : hden (fnGraph []) (cfg (.int 5)) = .ok (.apply "f" [.leaf (.int 5)] []) ∧
    hden (fnGraph []) (cfg (.int 6)) = .ok (.apply "f" [.leaf (.int 6)] []) := ⟨rfl, rfl⟩

/-- **F9**: `f` with a Silent first argument on input 5, and plain `f` on input `None`: equal hashes, different values -/
theorem silent_collides_with_none :
    hden (fnGraph [0]) (cfg (.int 5)) = hden (fnGraph []) (cfg .none) ∧
    vden (fnGraph [0]) (cfg (.int 5)) = .ok (.app "f" [.int 5] [] []) ∧
    vden (fnGraph []) (cfg .none) = .ok (.app "f" [.none] [] []) := ⟨rfl, rfl, rfl⟩

/-- **F3**: under Python `==` on keys (RAM tables) the hashes of the inputs `1` and `True` are equal keys, the values
differ: no family containing both evaluations is faithful for RAM stores -/
theorem ram_keys_not_faithful (F : Fam) (h1 : F (fnGraph []) (cfg (.int 1))) (h2 : F (fnGraph []) (cfg (.bool true))) :
    ¬ Faithful F false := by
  intro hf
  have := hf (.apply "f" [.leaf (.int 1)] []) (fnGraph []) (cfg (.int 1)) 1 (.apply "f" [.leaf (.int 1)] []) .none
    (.app "f" [.int 1] [] []) (fnGraph []) (cfg (.bool true)) 1 (.apply "f" [.leaf (.bool true)] []) .none h1 h2 rfl rfl rfl rfl rfl
  have hv : (den (fnGraph []) (cfg (.bool true)) 1).v = .ok (.app "f" [.bool true] [] []) := rfl
  rw [hv] at this
  injection this with this
  injection this with _ this
  injection this with this
  cases this

end CM.C05
